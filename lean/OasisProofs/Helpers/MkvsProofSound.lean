import OasisModel.Mkvs.Proof
import OasisProofs.Helpers.MkvsHash
/-
C04 soundness: whatever entry list the verifier accepts for root `r`, the rebuilt pointer tree is a
sub-tree of every (bounded) trie whose Merkle hash is `r` — for an injective hash function with
32-byte output (hypotheses, never axioms).
-/
namespace OasisProofs.MkvsProof
open OasisModel.Mkvs OasisProofs.Mkvs

/-! ### decoder facts -/

theorem le16_lt (a b : UInt8) : le16 a b < 2 ^ 16 := by
  have := a.toNat_lt; have := b.toNat_lt
  simp only [le16]; omega

theorem le32_lt (a b c d : UInt8) : le32 a b c d < 2 ^ 32 := by
  have := a.toNat_lt; have := b.toNat_lt; have := c.toNat_lt; have := d.toNat_lt
  simp only [le32]; omega

theorem decKey_spec {d k r : Bytes} (h : decKey d = some (k, r)) :
    ∃ a b, d = a :: b :: (k ++ r) ∧ k.length = le16 a b := by
  match d, h with
  | a :: b :: rest, h =>
    simp only [decKey] at h
    split at h
    · exact absurd h (by simp)
    · next hl =>
      simp only [Option.some.injEq, Prod.mk.injEq] at h
      refine ⟨a, b, ?_, ?_⟩
      · rw [← h.1, ← h.2, List.take_append_drop]
      · rw [← h.1, List.length_take]; omega

theorem decKey_len {d k r : Bytes} (h : decKey d = some (k, r)) : k.length < 2 ^ 16 := by
  obtain ⟨a, b, _, hl⟩ := decKey_spec h
  rw [hl]; exact le16_lt a b

theorem decLeaf_len {d k v r : Bytes} (h : decLeaf d = some (k, v, r)) :
    k.length < 2 ^ 16 ∧ v.length < 2 ^ 32 := by
  unfold decLeaf at h
  split at h
  · exact absurd h (by simp)
  · split at h
    · split at h
      · exact absurd h (by simp)
      · split at h
        · exact absurd h (by simp)
        · next k' r' hk =>
          split at h
          · next a b c e r2 =>
            simp only at h
            split at h
            · exact absurd h (by simp)
            · next hl =>
              simp only [Option.some.injEq, Prod.mk.injEq] at h
              refine ⟨?_, ?_⟩
              · rw [← h.1]; exact decKey_len hk
              · rw [← h.2.1, List.length_take]
                have := le32_lt a b c e
                omega
          · exact absurd h (by simp)
    · exact absurd h (by simp)

theorem decInternal_spec {d : Bytes} {n : INode} (h : decInternal d = some n) :
    n.bits < 2 ^ 16 ∧ n.label.length = toBytesLen n.bits ∧
      (∀ kv, n.lf = some kv → kv.1.length < 2 ^ 16 ∧ kv.2.length < 2 ^ 32) := by
  unfold decInternal at h
  split at h
  · exact absurd h (by simp)
  · split at h
    · next p a b t =>
      split at h
      · exact absurd h (by simp)
      · simp only at h
        split at h
        · exact absurd h (by simp)
        · next hl =>
          split at h
          · exact absurd h (by simp)
          · next q r hq =>
            split at h
            · simp only [Option.some.injEq] at h
              subst h
              refine ⟨le16_lt _ _, ?_, ?_⟩
              · simp only [List.length_take]; omega
              · intro kv hkv; exact absurd hkv (by simp)
            · split at h
              · exact absurd h (by simp)
              · next k v rest hlf =>
                simp only [Option.some.injEq] at h
                subst h
                refine ⟨le16_lt _ _, ?_, ?_⟩
                · simp only [List.length_take]; omega
                · intro kv hkv
                  simp only [Option.some.injEq] at hkv
                  subst hkv
                  exact decLeaf_len hlf
    · exact absurd h (by simp)

/-! ### validity of rebuilt trees -/

/-- Size facts every rebuilt pointer tree satisfies (they come from the decoders). -/
def PTValid : PT → Prop
  | .nil => True
  | .hash h => h.length = 32
  | .leaf k v => k.length < 2 ^ 16 ∧ v.length < 2 ^ 32
  | .node bits label lf l r =>
    bits < 2 ^ 16 ∧ label.length = toBytesLen bits ∧ PTValid lf ∧ PTValid l ∧ PTValid r

theorem ofLeafOpt_valid {o : Option (Bytes × Bytes)}
    (h : ∀ kv, o = some kv → kv.1.length < 2 ^ 16 ∧ kv.2.length < 2 ^ 32) : PTValid (ofLeafOpt o) := by
  rcases o with _ | ⟨k, v⟩
  · trivial
  · exact h (k, v) rfl

theorem decEntry_hash {e : Option Bytes} {h : Bytes} (he : decEntry e = .ok (.hash h)) : h.length = 32 := by
  unfold decEntry at he
  split at he
  · exact absurd he (by simp)
  · exact absurd he (by simp)
  · split at he
    · split at he
      · exact absurd he (by simp)
      · split at he
        · split at he <;> exact absurd he (by simp)
        · split at he
          · split at he <;> exact absurd he (by simp)
          · exact absurd he (by simp)
    · split at he
      · split at he
        · next hl =>
          simp only [Except.ok.injEq, Ent.hash.injEq] at he
          rw [← he]; exact hl
        · exact absurd he (by simp)
      · exact absurd he (by simp)

theorem decEntry_leaf {e : Option Bytes} {k v : Bytes} (he : decEntry e = .ok (.leaf k v)) :
    k.length < 2 ^ 16 ∧ v.length < 2 ^ 32 := by
  unfold decEntry at he
  split at he
  · exact absurd he (by simp)
  · exact absurd he (by simp)
  · split at he
    · split at he
      · exact absurd he (by simp)
      · split at he
        · split at he
          · next k' v' r hl =>
            simp only [Except.ok.injEq, Ent.leaf.injEq] at he
            rw [← he.1, ← he.2]; exact decLeaf_len hl
          · exact absurd he (by simp)
        · split at he
          · split at he <;> exact absurd he (by simp)
          · exact absurd he (by simp)
    · split at he
      · split at he <;> exact absurd he (by simp)
      · exact absurd he (by simp)

theorem decEntry_inode {e : Option Bytes} {n : INode} (he : decEntry e = .ok (.inode n)) :
    n.bits < 2 ^ 16 ∧ n.label.length = toBytesLen n.bits ∧
      (∀ kv, n.lf = some kv → kv.1.length < 2 ^ 16 ∧ kv.2.length < 2 ^ 32) := by
  unfold decEntry at he
  split at he
  · exact absurd he (by simp)
  · exact absurd he (by simp)
  · split at he
    · split at he
      · exact absurd he (by simp)
      · split at he
        · split at he <;> exact absurd he (by simp)
        · split at he
          · split at he
            · next n' hn =>
              simp only [Except.ok.injEq, Ent.inode.injEq] at he
              rw [← he]; exact decInternal_spec hn
            · exact absurd he (by simp)
          · exact absurd he (by simp)
    · split at he
      · split at he <;> exact absurd he (by simp)
      · exact absurd he (by simp)

/-- Everything the verifier rebuilds is valid. -/
theorem verifyAux_valid (v : Nat) : ∀ (b : Nat) (es : List (Option Bytes)) (t : PT) (rest : List (Option Bytes)),
    verifyAux v b es = .ok (t, rest) → PTValid t := by
  intro b
  induction b with
  | zero =>
    intro es t rest h
    cases es <;> simp [verifyAux] at h
  | succ b ih =>
    intro es t rest h
    cases es with
    | nil => simp [verifyAux] at h
    | cons e es =>
      simp only [verifyAux] at h
      split at h
      · exact absurd h (by simp)
      · simp only [Except.ok.injEq, Prod.mk.injEq] at h; rw [← h.1]; trivial
      · next hh he =>
        simp only [Except.ok.injEq, Prod.mk.injEq] at h; rw [← h.1]; exact decEntry_hash he
      · next k val he =>
        simp only [Except.ok.injEq, Prod.mk.injEq] at h; rw [← h.1]; exact decEntry_leaf he
      · next n he =>
        have hn := decEntry_inode he
        split at h
        · exact absurd h (by simp)
        · next lf rest1 hlf =>
          split at h
          · exact absurd h (by simp)
          · next l rest2 hl =>
            split at h
            · exact absurd h (by simp)
            · next r rest3 hr =>
              simp only [Except.ok.injEq, Prod.mk.injEq] at h
              rw [← h.1]
              refine ⟨hn.1, hn.2.1, ?_, ih _ _ _ hl, ih _ _ _ hr⟩
              by_cases hv : v = 0
              · rw [if_pos hv] at hlf
                simp only [Except.ok.injEq, Prod.mk.injEq] at hlf
                rw [← hlf.1]; exact ofLeafOpt_valid hn.2.2
              · rw [if_neg hv] at hlf
                exact ih _ _ _ hlf

/-! ### injectivity of the rebuilt node encoding -/

theorem packBitsAux_length : ∀ (n : Nat) (bs : Bits), bs.length ≤ n →
    (packBitsAux n bs).length = toBytesLen bs.length := by
  intro n
  induction n with
  | zero =>
    intro bs h
    have : bs = [] := List.eq_nil_of_length_eq_zero (by omega)
    subst this; rfl
  | succ n ih =>
    intro bs h
    simp only [packBitsAux]
    by_cases hb : bs = []
    · subst hb; rfl
    · rw [if_neg hb]
      have hne : 0 < bs.length := List.length_pos_iff.2 hb
      simp only [List.length_cons]
      rw [ih _ (by simp; omega)]
      simp only [List.length_drop, toBytesLen]
      split <;> split <;> omega

theorem packBits_length (bs : Bits) : (packBits bs).length = toBytesLen bs.length :=
  packBitsAux_length _ _ (Nat.le_refl _)

theorem nodeEnc_eq_raw (lab : Bits) (a b c : Bytes) :
    nodeEnc lab a b c = rawNodeEnc lab.length (packBits lab) a b c := rfl

theorem rawNodeEnc_inj {bits bits' : Nat} {label label' a b c a' b' c' : Bytes}
    (hb : bits < 2 ^ 16) (hb' : bits' < 2 ^ 16)
    (hl : label.length = toBytesLen bits) (hl' : label'.length = toBytesLen bits')
    (ha : a.length = 32) (ha' : a'.length = 32) (hbl : b.length = 32) (hbl' : b'.length = 32)
    (h : rawNodeEnc bits label a b c = rawNodeEnc bits' label' a' b' c') :
    bits = bits' ∧ label = label' ∧ a = a' ∧ b = b' ∧ c = c' := by
  simp only [rawNodeEnc, List.cons.injEq, true_and] at h
  have h1 := List.append_inj h (by simp [u16le_length])
  have hbb := u16le_inj hb hb' h1.1
  have h2 := List.append_inj h1.2 (by rw [hl, hl', hbb])
  have h3 := List.append_inj h2.2 (by rw [ha, ha'])
  have h4 := List.append_inj h3.2 (by rw [hbl, hbl'])
  exact ⟨hbb, h2.1, h3.1, h4.1, h4.2⟩

theorem rawNodeEnc_ne_nil (bits : Nat) (label a b c : Bytes) : rawNodeEnc bits label a b c ≠ [] := by
  simp [rawNodeEnc]

theorem leafEnc_ne_raw (k v : Bytes) (bits : Nat) (label a b c : Bytes) :
    leafEnc k v ≠ rawNodeEnc bits label a b c := by
  simp [leafEnc, rawNodeEnc]

/-! ### collision freedom on the inputs that are actually hashed -/

/-- Everything that is hashed when the Merkle hash of `t` is computed (and the empty string). -/
def leafOptInputs : Option (Bytes × Bytes) → List Bytes
  | none => [[]]
  | some (k, v) => [leafEnc k v]

def trieInputs (H : Bytes → Bytes) : Trie → List Bytes
  | .nil => [[]]
  | .leaf k v => [leafEnc k v]
  | .node lab lf l r =>
    nodeEnc lab (hashLeafOpt H lf) (hashWith H l) (hashWith H r) ::
      (leafOptInputs lf ++ (trieInputs H l ++ trieInputs H r))

theorem trieInputs_optLeaf (H : Bytes → Bytes) (lf : Option (Bytes × Bytes)) :
    trieInputs H (optLeaf lf) = leafOptInputs lf := by
  rcases lf with _ | ⟨k, v⟩ <;> rfl

/-- Everything that is hashed when the verifier recomputes the hash of a rebuilt tree. -/
def ptInputs (H : Bytes → Bytes) : PT → List Bytes
  | .nil => [[]]
  | .hash _ => []
  | .leaf k v => [leafEnc k v]
  | .node bits label lf l r =>
    rawNodeEnc bits label (lf.hashOf H) (l.hashOf H) (r.hashOf H) ::
      (ptInputs H lf ++ (ptInputs H l ++ ptInputs H r))

/-- `H` has no collision among the members of `S`. This is the form in which collision resistance
enters the theorems: it is satisfiable together with a fixed output length (unlike global
injectivity), and the contrapositive of every theorem below exhibits a concrete collision among
the strings hashed in the tree and in the accepted proof. -/
def NoColl (H : Bytes → Bytes) (S : List Bytes) : Prop := ∀ x ∈ S, ∀ y ∈ S, H x = H y → x = y

theorem noColl_of_injective {H : Bytes → Bytes} (hinj : Function.Injective H) (S : List Bytes) : NoColl H S :=
  fun _ _ _ _ h => hinj h

/-! ### the core of soundness -/

theorem hashOf_length {H : Bytes → Bytes} (hlen : ∀ x, (H x).length = 32) {s : PT} (hv : PTValid s) :
    (s.hashOf H).length = 32 := by
  cases s with
  | nil => exact hlen _
  | hash h => exact hv
  | leaf k v => exact hlen _
  | node bits label lf l r => exact hlen _

theorem hashWith_length {H : Bytes → Bytes} (hlen : ∀ x, (H x).length = 32) (t : Trie) :
    (hashWith H t).length = 32 := by
  cases t <;> exact hlen _

theorem hashLeafOpt_eq (H : Bytes → Bytes) (o : Option (Bytes × Bytes)) :
    hashLeafOpt H o = hashWith H (optLeaf o) := by
  rcases o with _ | ⟨k, v⟩ <;> rfl

theorem optLeaf_bounded {o : Option (Bytes × Bytes)}
    (h : ∀ kv, o = some kv → kv.1.length < 2 ^ 13 ∧ kv.2.length < 2 ^ 32) : (optLeaf o).Bounded := by
  rcases o with _ | ⟨k, v⟩
  · trivial
  · exact h (k, v) rfl

/-- A valid pointer tree whose hash equals the Merkle hash of a bounded trie is a sub-tree of it,
provided `H` has no collision among the strings hashed on either side. -/
theorem sub_of_hash_eq {H : Bytes → Bytes} (hlen : ∀ x, (H x).length = 32) (S : List Bytes) (hnc : NoColl H S)
    (s : PT) : ∀ (t : Trie), PTValid s → t.Bounded → (∀ x ∈ ptInputs H s, x ∈ S) → (∀ x ∈ trieInputs H t, x ∈ S) →
      s.hashOf H = hashWith H t → SubT H s t := by
  induction s with
  | nil =>
    intro t _ _ hs ht h
    have h0 : ([] : Bytes) ∈ S := hs _ (by simp [ptInputs])
    cases t with
    | nil => rfl
    | leaf k v =>
      exact absurd (hnc _ h0 _ (ht _ (by simp [trieInputs])) h).symm (leafEnc_ne_nil _ _)
    | node lab lf l r =>
      exact absurd (hnc _ h0 _ (ht _ (by simp [trieInputs])) h).symm (nodeEnc_ne_nil _ _ _ _)
  | hash hh => intro t _ _ _ _ h; exact h
  | leaf k v =>
    intro t hv hb hs ht h
    have h0 : leafEnc k v ∈ S := hs _ (by simp [ptInputs])
    cases t with
    | nil => exact absurd (hnc _ h0 _ (ht _ (by simp [trieInputs])) h) (leafEnc_ne_nil _ _)
    | leaf k' v' =>
      obtain ⟨h1, h1'⟩ := hv
      obtain ⟨h2, h2'⟩ := hb
      have := leafEnc_inj (by omega) h1' (by omega) h2' (hnc _ h0 _ (ht _ (by simp [trieInputs])) h)
      show Trie.leaf k' v' = Trie.leaf k v
      rw [this.1, this.2]
    | node lab lf l r =>
      exact absurd (hnc _ h0 _ (ht _ (by simp [trieInputs])) h) (leafEnc_ne_nodeEnc _ _ _ _ _ _)
  | node bits label lf l r ihlf ihl ihr =>
    intro t hv hb hs ht h
    have h0 : rawNodeEnc bits label (lf.hashOf H) (l.hashOf H) (r.hashOf H) ∈ S := hs _ (by simp [ptInputs])
    cases t with
    | nil => exact absurd (hnc _ h0 _ (ht _ (by simp [trieInputs])) h) (rawNodeEnc_ne_nil _ _ _ _ _)
    | leaf k' v' =>
      exact absurd (hnc _ h0 _ (ht _ (by simp [trieInputs])) h).symm (leafEnc_ne_raw _ _ _ _ _ _ _)
    | node lab olf tl tr =>
      obtain ⟨v1, v2, v3, v4, v5⟩ := hv
      obtain ⟨c1, c2, c3, c4⟩ := hb
      have hraw := hnc _ h0 _ (ht _ (by simp [trieInputs])) h
      rw [nodeEnc_eq_raw] at hraw
      have hlo : (hashLeafOpt H olf).length = 32 := by
        rcases olf with _ | ⟨a, b⟩ <;> exact hlen _
      obtain ⟨e1, e2, e3, e4, e5⟩ := rawNodeEnc_inj v1 c1 v2 (packBits_length lab)
        (hashOf_length hlen v3) hlo (hashOf_length hlen v4) (hashWith_length hlen _) hraw
      refine ⟨e1, e2, ?_, ?_, ?_⟩
      · exact ihlf (optLeaf olf) v3 (optLeaf_bounded c2)
          (fun x hx => hs x (by simp [ptInputs, hx]))
          (fun x hx => ht x (by rw [trieInputs_optLeaf] at hx; simp [trieInputs, hx]))
          (by rw [e3, hashLeafOpt_eq])
      · exact ihl tl v4 c3 (fun x hx => hs x (by simp [ptInputs, hx]))
          (fun x hx => ht x (by simp [trieInputs, hx])) e4
      · exact ihr tr v5 c4 (fun x hx => hs x (by simp [ptInputs, hx]))
          (fun x hx => ht x (by simp [trieInputs, hx])) e5

/-- What the verifier returns on success. -/
theorem verifyProof_ok {H : Bytes → Bytes} {root : Bytes} {p : MProof} {s : PT}
    (h : verifyProof H root p = .ok s) : PTValid s ∧ s.hashOf H = root ∧ p.v ≤ 1 := by
  unfold verifyProof at h
  split at h
  · exact absurd h (by simp)
  · next hv =>
    split at h
    · exact absurd h (by simp)
    · split at h
      · exact absurd h (by simp)
      · split at h
        · exact absurd h (by simp)
        · next t' rest hva =>
          split at h
          · exact absurd h (by simp)
          · split at h
            · exact absurd h (by simp)
            · next hroot =>
              simp only [Except.ok.injEq] at h
              subst h
              exact ⟨verifyAux_valid _ _ _ _ _ hva, by simpa using hroot, by omega⟩

/-- **Soundness of the verifier**, collision-explicit form. -/
theorem verifyProof_sub_nc {H : Bytes → Bytes} (hlen : ∀ x, (H x).length = 32)
    {root : Bytes} {p : MProof} {s : PT} (h : verifyProof H root p = .ok s)
    {t : Trie} (hb : t.Bounded) (hr : hashWith H t = root)
    (hnc : NoColl H (ptInputs H s ++ trieInputs H t)) : SubT H s t := by
  obtain ⟨hv, hroot, _⟩ := verifyProof_ok h
  exact sub_of_hash_eq hlen _ hnc s t hv hb (fun x hx => List.mem_append_left _ hx)
    (fun x hx => List.mem_append_right _ hx) (by rw [hroot, hr])

/-- **Soundness of the verifier** for an injective hash function. -/
theorem verifyProof_sub {H : Bytes → Bytes} (hinj : Function.Injective H) (hlen : ∀ x, (H x).length = 32)
    {root : Bytes} {p : MProof} {s : PT} (h : verifyProof H root p = .ok s)
    {t : Trie} (hb : t.Bounded) (hr : hashWith H t = root) : SubT H s t :=
  verifyProof_sub_nc hlen h hb hr (noColl_of_injective hinj _)

/-! ### answers read from a sub-tree -/

theorem trieInputs_head_mem (H : Bytes → Bytes) (t : Trie) : ∃ x ∈ trieInputs H t, hashWith H t = H x ∧
    (t ≠ .nil → x ≠ []) := by
  cases t with
  | nil => exact ⟨[], by simp [trieInputs], rfl, fun h => absurd rfl h⟩
  | leaf k v => exact ⟨_, by simp [trieInputs], rfl, fun _ => leafEnc_ne_nil _ _⟩
  | node lab lf l r => exact ⟨_, by simp [trieInputs], rfl, fun _ => nodeEnc_ne_nil _ _ _ _⟩

theorem hashWith_eq_empty {H : Bytes → Bytes} {S : List Bytes} (hnc : NoColl H S) (h0 : ([] : Bytes) ∈ S)
    {t : Trie} (ht : ∀ x ∈ trieInputs H t, x ∈ S) (h : hashWith H t = H []) : t = .nil := by
  obtain ⟨x, hx, he, hne⟩ := trieInputs_head_mem H t
  apply Classical.byContradiction
  intro hn
  exact hne hn (hnc _ (ht _ hx) _ h0 (by rw [← he, h]))

theorem optLeaf_getAux (o : Option (Bytes × Bytes)) (k : Bytes) (d : Nat) :
    (optLeaf o).getAux k d =
      (match o with
       | some (k', v') => if k' = k then some v' else none
       | none => none) := by
  rcases o with _ | ⟨k', v'⟩ <;> rfl

/-- A lookup answered from a sub-tree without touching a hash-only pointer gives the tree's answer. -/
theorem sub_getAux {H : Bytes → Bytes} {S : List Bytes} (hnc : NoColl H S) (h0 : ([] : Bytes) ∈ S)
    (k : Bytes) (s : PT) :
    ∀ (t : Trie) (d : Nat) (a : Option Bytes), (∀ x ∈ trieInputs H t, x ∈ S) → SubT H s t →
      s.getAux (H []) k d = some a → t.getAux k d = a := by
  induction s with
  | nil =>
    intro t d a _ hs hg
    simp only [SubT] at hs; subst hs
    simpa [PT.getAux, Trie.getAux] using hg
  | hash h =>
    intro t d a ht hs hg
    simp only [SubT] at hs
    simp only [PT.getAux] at hg
    split at hg
    · next he =>
      have : t = .nil := hashWith_eq_empty hnc h0 ht (by rw [← hs, he])
      subst this
      simpa [Trie.getAux] using hg
    · exact absurd hg (by simp)
  | leaf k' v' =>
    intro t d a _ hs hg
    simp only [SubT] at hs; subst hs
    simpa [PT.getAux, Trie.getAux] using hg
  | node bits label lf l r ihlf ihl ihr =>
    intro t d a ht hs hg
    cases t with
    | nil => exact absurd hs (by simp [SubT])
    | leaf _ _ => exact absurd hs (by simp [SubT])
    | node lab olf tl tr =>
      obtain ⟨e1, _, slf, sl, sr⟩ := hs
      subst e1
      have htlf : ∀ x ∈ trieInputs H (optLeaf olf), x ∈ S :=
        fun x hx => ht x (by rw [trieInputs_optLeaf] at hx; simp [trieInputs, hx])
      have htl : ∀ x ∈ trieInputs H tl, x ∈ S := fun x hx => ht x (by simp [trieInputs, hx])
      have htr : ∀ x ∈ trieInputs H tr, x ∈ S := fun x hx => ht x (by simp [trieInputs, hx])
      simp only [PT.getAux] at hg
      simp only [Trie.getAux]
      split at hg
      · next hn =>
        rw [if_pos hn]
        have := ihlf (optLeaf olf) _ a htlf slf hg
        rw [optLeaf_getAux] at this
        exact this
      · next hn =>
        rw [if_neg hn]
        split at hg
        · next hlt => rw [if_pos hlt]; simpa using hg
        · next hlt =>
          rw [if_neg hlt]
          split at hg
          · next tl' heq => rw [heq]; exact ihr tr _ a htr sr hg
          · next hne =>
            have := ihl tl _ a htl sl hg
            split
            · next tl' heq => exact absurd heq (hne _)
            · exact this

/-! ### merging verified sub-trees keeps them sub-trees -/

theorem sub_hashOf {H : Bytes → Bytes} {s : PT} : ∀ {t : Trie}, SubT H s t → s.hashOf H = hashWith H t := by
  induction s with
  | nil => intro t h; simp only [SubT] at h; subst h; rfl
  | hash h => intro t hs; exact hs
  | leaf k v => intro t h; simp only [SubT] at h; subst h; rfl
  | node bits label lf l r ihlf ihl ihr =>
    intro t h
    cases t with
    | nil => exact absurd h (by simp [SubT])
    | leaf _ _ => exact absurd h (by simp [SubT])
    | node lab olf tl tr =>
      obtain ⟨e1, e2, slf, sl, sr⟩ := h
      subst e1 e2
      simp only [PT.hashOf, hashWith, nodeEnc_eq_raw]
      rw [ihlf slf, ihl sl, ihr sr, hashLeafOpt_eq]

theorem merge_sub {H : Bytes → Bytes} (dst : PT) : ∀ (sub m : PT) (t : Trie),
    SubT H dst t → SubT H sub t → PT.merge H dst sub = some m → SubT H m t := by
  induction dst with
  | nil =>
    intro sub m t hd _ hm
    simp only [PT.merge, Option.some.injEq] at hm
    subst hm; exact hd
  | hash h =>
    intro sub m t hd hs hm
    cases sub with
    | nil => simp only [PT.merge, Option.some.injEq] at hm; subst hm; exact hd
    | hash h' =>
      simp only [PT.merge] at hm
      split at hm
      · simp only [Option.some.injEq] at hm; subst hm; exact hd
      · exact absurd hm (by simp)
    | leaf k v =>
      simp only [PT.merge] at hm
      split at hm
      · simp only [Option.some.injEq] at hm; subst hm; exact hs
      · exact absurd hm (by simp)
    | node b' lb' lf' l' r' =>
      simp only [PT.merge] at hm
      split at hm
      · simp only [Option.some.injEq] at hm; subst hm; exact hs
      · exact absurd hm (by simp)
  | leaf k v =>
    intro sub m t hd hs hm
    cases sub with
    | nil => simp only [PT.merge, Option.some.injEq] at hm; subst hm; exact hd
    | hash h' =>
      simp only [PT.merge] at hm
      split at hm
      · simp only [Option.some.injEq] at hm; subst hm; exact hd
      · exact absurd hm (by simp)
    | leaf k' v' =>
      simp only [PT.merge] at hm
      split at hm
      · simp only [Option.some.injEq] at hm; subst hm; exact hd
      · exact absurd hm (by simp)
    | node b' lb' lf' l' r' =>
      simp only [PT.merge] at hm
      split at hm
      · simp only [Option.some.injEq] at hm; subst hm; exact hd
      · exact absurd hm (by simp)
  | node bits label lf l r _ ihl ihr =>
    intro sub m t hd hs hm
    cases sub with
    | nil => simp only [PT.merge, Option.some.injEq] at hm; subst hm; exact hd
    | hash h' =>
      simp only [PT.merge] at hm
      split at hm
      · simp only [Option.some.injEq] at hm; subst hm; exact hd
      · exact absurd hm (by simp)
    | leaf k' v' =>
      simp only [PT.merge] at hm
      split at hm
      · simp only [Option.some.injEq] at hm; subst hm; exact hd
      · exact absurd hm (by simp)
    | node b' lb' lf' l' r' =>
      cases t with
      | nil => exact absurd hd (by simp [SubT])
      | leaf _ _ => exact absurd hd (by simp [SubT])
      | node lab olf tl tr =>
        simp only [PT.merge] at hm
        split at hm
        · split at hm
          · next ml mr hml hmr =>
            simp only [Option.some.injEq] at hm
            subst hm
            obtain ⟨e1, e2, slf, sl, sr⟩ := hd
            obtain ⟨_, _, _, sl', sr'⟩ := hs
            exact ⟨e1, e2, slf, ihl _ _ _ sl sl' hml, ihr _ _ _ sr sr' hmr⟩
          · exact absurd hm (by simp)
        · exact absurd hm (by simp)

/-! ### grafting a verified subtree at hash-only pointers -/

theorem graft_sub {H : Bytes → Bytes} (h : Bytes) (sub : PT)
    (hsub : ∀ t', t'.Bounded → hashWith H t' = h → SubT H sub t') (s : PT) :
    ∀ (t : Trie), t.Bounded → SubT H s t → SubT H (PT.graft h sub s) t := by
  induction s with
  | nil => intro t _ hs; exact hs
  | hash h' =>
    intro t hb hs
    simp only [PT.graft]
    split
    · next he => exact hsub t hb (by rw [← he]; exact hs.symm)
    · exact hs
  | leaf k v => intro t _ hs; exact hs
  | node bits label lf l r ihlf ihl ihr =>
    intro t hb hs
    cases t with
    | nil => exact absurd hs (by simp [SubT])
    | leaf _ _ => exact absurd hs (by simp [SubT])
    | node lab olf tl tr =>
      obtain ⟨e1, e2, slf, sl, sr⟩ := hs
      obtain ⟨_, c2, c3, c4⟩ := hb
      exact ⟨e1, e2, ihlf _ (optLeaf_bounded c2) slf, ihl _ c3 sl, ihr _ c4 sr⟩

/-! ### the write log of an accepted proof -/

theorem sub_writeLog {H : Bytes → Bytes} (s : PT) : ∀ (t : Trie), SubT H s t →
    ∀ kv ∈ s.writeLog, kv ∈ t.toList := by
  induction s with
  | nil => intro t _ kv h; simp [PT.writeLog] at h
  | hash h => intro t _ kv h; simp [PT.writeLog] at h
  | leaf k v =>
    intro t hs kv h
    simp only [SubT] at hs; subst hs
    simpa [PT.writeLog, Trie.toList] using h
  | node bits label lf l r ihlf ihl ihr =>
    intro t hs kv h
    cases t with
    | nil => exact absurd hs (by simp [SubT])
    | leaf _ _ => exact absurd hs (by simp [SubT])
    | node lab olf tl tr =>
      obtain ⟨_, _, slf, sl, sr⟩ := hs
      simp only [PT.writeLog, List.mem_append] at h
      rw [mem_toList_node]
      rcases h with h | h | h
      · left
        have := ihlf _ slf kv h
        rcases olf with _ | ⟨k', v'⟩
        · simp [optLeaf, Trie.toList] at this
        · simp only [optLeaf, Trie.toList, List.mem_singleton] at this
          rw [this]
      · right; left; exact ihl _ sl kv h
      · right; right; exact ihr _ sr kv h

end OasisProofs.MkvsProof
