/-
Helper lemmas for `OasisProofs.Props.C01Upgrade`: the loop of `ConsensusUpgrade`
(`OasisModel.Upgrade.loop`) in terms of the per-descriptor body (`item`), and the case analysis of the
body for the code as it is (`early = false`).
-/
import OasisModel.Upgrade.Manager

namespace OasisProofs.UpgradeHelpers
open OasisModel.Upgrade

/-! ### The per-descriptor body: case analyses -/

theorem item_exit_ne_ok (early : Bool) (m : Mode) (e h : Nat) (p : Pending) :
    (item early m e h p).exit ≠ some .ok := by
  obtain ⟨id, ep, uh, sd, cd, co, hh, hs⟩ := p
  cases uh <;> cases sd <;> cases cd <;> cases co <;> cases hh <;> cases hs <;>
    simp [item, atHeight, Pending.pushConsensus, Pending.pushStartup, Pending.mustStop,
      Pending.heightValue, Pending.hasConsensusStage, encodeHeight] <;>
    (repeat' split) <;> simp_all

/-- Stages are never taken back: a completed descriptor stays completed. -/
theorem item_completed_mono (early : Bool) (m : Mode) (e h : Nat) (p : Pending)
    (hc : p.consensusDone = true) : (item early m e h p).p.consensusDone = true := by
  obtain ⟨id, ep, uh, sd, cd, co, hh, hs⟩ := p
  simp only at hc
  subst hc
  cases uh <;> cases sd <;> cases co <;> cases hh <;> cases hs <;>
    simp [item, atHeight, Pending.pushConsensus, Pending.pushStartup, Pending.mustStop,
      Pending.heightValue, Pending.hasConsensusStage, encodeHeight] <;>
    (repeat' split) <;> simp_all

/-- The body only writes `UpgradeHeight` and the stage. -/
theorem item_static (early : Bool) (m : Mode) (e h : Nat) (p : Pending) :
    (item early m e h p).p.id = p.id ∧ (item early m e h p).p.epoch = p.epoch ∧
    (item early m e h p).p.compatible = p.compatible ∧
    (item early m e h p).p.hasHandler = p.hasHandler ∧
    (item early m e h p).p.handlerHasStartup = p.handlerHasStartup := by
  obtain ⟨id, ep, uh, sd, cd, co, hh, hs⟩ := p
  cases uh <;> cases sd <;> cases cd <;> cases co <;> cases hh <;> cases hs <;>
    simp [item, atHeight, Pending.pushConsensus, Pending.pushStartup, Pending.mustStop,
      Pending.heightValue, Pending.hasConsensusStage, encodeHeight] <;>
    (repeat' split) <;> simp_all

/-- WHEN the handler runs (code as it is), in terms of the descriptor on entry: it is not completed,
the caller passed a block context, and its upgrade height is the current height — stored already, or
stored by this very call because the epoch has been reached. -/
theorem item_ran_imp (m : Mode) (e h : Nat) (p : Pending)
    (hr : (item false m e h p).ran = true) :
    p.consensusDone = false ∧ m ≠ .commit ∧ p.hasHandler = true ∧
    (p.upgradeHeight = some h ∨ (p.upgradeHeight = none ∧ p.epoch ≤ e)) := by
  obtain ⟨id, ep, uh, sd, cd, co, hh, hs⟩ := p
  revert hr
  cases uh <;> cases sd <;> cases cd <;> cases co <;> cases hh <;> cases hs <;> cases m <;>
    simp [item, atHeight, Pending.pushConsensus, Pending.pushStartup, Pending.mustStop,
      Pending.heightValue, Pending.hasConsensusStage, encodeHeight] <;>
    (repeat' split) <;> simp_all <;> omega

/-- ... and the descriptor afterwards: still not completed, upgrade height = current height. -/
theorem item_ran_post (m : Mode) (e h : Nat) (p : Pending) (hh0 : 0 < h)
    (hr : (item false m e h p).ran = true) :
    (item false m e h p).p.consensusDone = false ∧ (item false m e h p).p.upgradeHeight = some h := by
  obtain ⟨id, ep, uh, sd, cd, co, hh, hs⟩ := p
  revert hr
  cases uh <;> cases sd <;> cases cd <;> cases co <;> cases hh <;> cases hs <;> cases m <;>
    simp [item, atHeight, Pending.pushConsensus, Pending.pushStartup, Pending.mustStop,
      Pending.heightValue, Pending.hasConsensusStage, encodeHeight] <;>
    (repeat' split) <;> simp_all <;> omega

/-- What a descriptor looks like after an iteration that fell through (code as it is): it is completed
(and will be dropped by the final flush), or its epoch is still in the future and nothing happened, or
its upgrade height is the current height and the handler ran iff a block context was passed. -/
theorem item_cont_post (m : Mode) (e h : Nat) (p : Pending) (hh0 : 0 < h)
    (hx : (item false m e h p).exit = none) (hc : (item false m e h p).p.consensusDone = false) :
    ((item false m e h p).p = p ∧ p.upgradeHeight = none ∧ e < p.epoch ∧
        (item false m e h p).ran = false) ∨
    ((item false m e h p).p.upgradeHeight = some h ∧ p.consensusDone = false ∧
        (p.upgradeHeight = some h ∨ (p.upgradeHeight = none ∧ p.epoch ≤ e)) ∧
        (m ≠ .commit → p.hasHandler = true) ∧
        (item false m e h p).ran = (m != .commit)) := by
  obtain ⟨id, ep, uh, sd, cd, co, hh, hs⟩ := p
  revert hx hc
  cases uh <;> cases sd <;> cases cd <;> cases co <;> cases hh <;> cases hs <;> cases m <;>
    simp [item, atHeight, Pending.pushConsensus, Pending.pushStartup, Pending.mustStop,
      Pending.heightValue, Pending.hasConsensusStage, encodeHeight] <;>
    (repeat' split) <;> simp_all <;> omega

/-- A descriptor whose epoch is in the future: nothing happens. -/
theorem item_future_epoch (early : Bool) (m : Mode) (e h : Nat) (p : Pending)
    (hu : p.upgradeHeight = none) (he : e < p.epoch) :
    item early m e h p = ⟨p, false, false, none⟩ := by
  simp [item, hu, he]

/-- A not completed descriptor AT its upgrade height (code as it is): nothing is written; the handler
is looked up and run iff a block context was passed. -/
theorem item_at_height (m : Mode) (e h : Nat) (p : Pending)
    (hu : p.upgradeHeight = some h) (hc : p.consensusDone = false) (hh : m ≠ .commit → p.hasHandler = true) :
    item false m e h p = ⟨p, false, m != .commit, none⟩ := by
  cases m <;>
    simp_all [item, atHeight, Pending.heightValue, Pending.hasConsensusStage]

/-- A descriptor PAST its upgrade height: its handler does not run, and if the iteration falls
through the descriptor is completed. -/
theorem item_past_height (early : Bool) (m : Mode) (e h u : Nat) (p : Pending)
    (hu : p.upgradeHeight = some u) (hlt : u < h) :
    (item early m e h p).ran = false ∧
    ((item early m e h p).exit = none → (item early m e h p).p.consensusDone = true) := by
  obtain ⟨id, ep, uh, sd, cd, co, hh, hs⟩ := p
  simp only at hu
  subst hu
  cases sd <;> cases cd <;>
    simp [item, atHeight, Pending.pushConsensus, Pending.heightValue, hlt]

/-- The iteration in which the epoch is first seen (code as it is), if it falls through: the upgrade
height becomes the current height and the startup stage is pushed (in-place upgrade). -/
theorem item_epoch_reached (m : Mode) (e h : Nat) (p : Pending) (hh0 : 0 < h)
    (hu : p.upgradeHeight = none) (he : p.epoch ≤ e) (hx : (item false m e h p).exit = none) :
    (item false m e h p).p = { p with upgradeHeight := some h, startupDone := true } ∧
    p.startupDone = false ∧ p.consensusDone = false ∧ p.mustStop = false := by
  obtain ⟨id, ep, uh, sd, cd, co, hh, hs⟩ := p
  simp only at hu he
  subst hu
  revert hx
  cases sd <;> cases cd <;> cases co <;> cases hh <;> cases hs <;> cases m <;>
    simp [item, atHeight, Pending.pushConsensus, Pending.pushStartup, Pending.mustStop,
      Pending.heightValue, Pending.hasConsensusStage, encodeHeight] <;>
    (repeat' split) <;> simp_all <;> omega

/-! ### The loop -/

/-- Indices (counted from `k`) of the descriptors whose iteration runs the handler. -/
def ranFrom (early : Bool) (m : Mode) (e h : Nat) : Nat → List Pending → List Nat
  | _, [] => []
  | k, p :: ps => (if (item early m e h p).ran then [k] else []) ++ ranFrom early m e h (k + 1) ps

theorem flushSlots_map_fst (xs : List Slot) : (flushSlots xs).map (·.1) = xs.map (·.1) := by
  simp [flushSlots, List.map_map, Function.comp_def]

theorem flushSlots_length (xs : List Slot) : (flushSlots xs).length = xs.length := by
  simp [flushSlots]

/-- The flag invariant: an element that left `u.pending` is completed. -/
def FlagsOk (xs : List Slot) : Prop := ∀ x ∈ xs, x.2 = false → x.1.consensusDone = true

theorem flagsOk_flush (xs : List Slot) (hx : FlagsOk xs) : FlagsOk (flushSlots xs) := by
  intro x hxm hf
  simp only [flushSlots, List.mem_map] at hxm
  obtain ⟨y, hy, rfl⟩ := hxm
  simp only [Pending.isCompleted, Bool.and_eq_false_iff, Bool.not_eq_false'] at hf
  rcases hf with hf | hf
  · exact hx y hy hf
  · exact hf

/-- Under the flag invariant the final flush keeps exactly the not completed descriptors. -/
theorem liveOf_flush (xs : List Slot) (hx : FlagsOk xs) :
    liveOf (flushSlots xs) = (xs.map (·.1)).filter (fun q => !q.consensusDone) := by
  induction xs with
  | nil => rfl
  | cons x xs ih =>
    have hx' : FlagsOk xs := fun y hy => hx y (List.mem_cons_of_mem _ hy)
    have ih' := ih hx'
    have h0 := hx x (List.mem_cons_self ..)
    obtain ⟨p, l⟩ := x
    simp only [liveOf, flushSlots, List.map_cons, List.filter_cons, Pending.isCompleted] at ih' ⊢
    cases l <;> cases hc : p.consensusDone <;> simp_all

theorem flagsOk_step (early : Bool) (m : Mode) (e h : Nat) (pre : List Slot) (p : Pending) (fl : Bool)
    (hx : FlagsOk pre) :
    FlagsOk ((if (item early m e h p).flushed then flushSlots pre else pre) ++
      [((item early m e h p).p, !((fl || (item early m e h p).flushed) && p.isCompleted))]) := by
  intro x hxm hf
  rcases List.mem_append.1 hxm with hxm | hxm
  · split at hxm
    · exact flagsOk_flush pre hx x hxm hf
    · exact hx x hxm hf
  · simp only [List.mem_singleton] at hxm
    subst hxm
    simp only [Pending.isCompleted, Bool.not_eq_false', Bool.and_eq_true] at hf
    exact item_completed_mono early m e h p hf.2

/-- If every iteration falls through, the call returns `nil`; the new `pending` is the list of updated
descriptors without the completed ones, and the handler ran for exactly the `ranFrom` indices. -/
theorem loop_of_all_cont (early : Bool) (m : Mode) (e h : Nat) :
    ∀ (rest : List Pending) (pre : List Slot) (ran : List Nat) (fl : Bool),
    FlagsOk pre → (∀ p ∈ rest, (item early m e h p).exit = none) →
    loop early m e h pre ran fl rest =
      ⟨⟨(pre.map (·.1) ++ rest.map (fun p => (item early m e h p).p)).filter
            (fun q => !q.consensusDone), false⟩,
        ran ++ ranFrom early m e h pre.length rest, .ok⟩ := by
  intro rest
  induction rest with
  | nil =>
    intro pre ran fl hpre _
    simp [loop, ranFrom, liveOf_flush pre hpre]
  | cons p rest ih =>
    intro pre ran fl hpre hall
    have hp := hall p (List.mem_cons_self ..)
    have hrest : ∀ q ∈ rest, (item early m e h q).exit = none :=
      fun q hq => hall q (List.mem_cons_of_mem _ hq)
    have hstep := flagsOk_step early m e h pre p fl hpre
    simp only [loop, hp]
    rw [ih _ _ _ hstep hrest]
    have hmap : ((if (item early m e h p).flushed then flushSlots pre else pre) ++
        [((item early m e h p).p, !((fl || (item early m e h p).flushed) && p.isCompleted))]).map (·.1)
        = pre.map (·.1) ++ [(item early m e h p).p] := by
      split <;> simp [flushSlots_map_fst]
    have hlen : ((if (item early m e h p).flushed then flushSlots pre else pre) ++
        [((item early m e h p).p, !((fl || (item early m e h p).flushed) && p.isCompleted))]).length
        = pre.length + 1 := by
      split <;> simp [flushSlots_length]
    rw [hmap, hlen]
    simp only [ranFrom, List.map_cons, List.append_assoc, List.singleton_append]
    split <;> simp

/-- Conversely a call that returned `nil` fell through every iteration. -/
theorem loop_ok_all_cont (early : Bool) (m : Mode) (e h : Nat) :
    ∀ (rest : List Pending) (pre : List Slot) (ran : List Nat) (fl : Bool),
    (loop early m e h pre ran fl rest).outcome = .ok →
    ∀ p ∈ rest, (item early m e h p).exit = none := by
  intro rest
  induction rest with
  | nil => intro _ _ _ _ p hp; cases hp
  | cons q rest ih =>
    intro pre ran fl hok p hp
    cases hx : (item early m e h q).exit with
    | some o =>
      simp only [loop, hx] at hok
      exact absurd (hok ▸ hx) (item_exit_ne_ok early m e h q)
    | none =>
      simp only [loop, hx] at hok
      rcases List.mem_cons.1 hp with rfl | hp
      · exact hx
      · exact ih _ _ _ hok p hp

/-- Whatever the outcome: the handler ran only for `ranFrom` indices. -/
theorem loop_ran_sub (early : Bool) (m : Mode) (e h : Nat) :
    ∀ (rest : List Pending) (pre : List Slot) (ran : List Nat) (fl : Bool),
    ∀ i ∈ (loop early m e h pre ran fl rest).ran,
      i ∈ ran ∨ i ∈ ranFrom early m e h pre.length rest := by
  intro rest
  induction rest with
  | nil => intro pre ran fl i hi; exact Or.inl (by simpa [loop] using hi)
  | cons q rest ih =>
    intro pre ran fl i hi
    have hlen : ((if (item early m e h q).flushed then flushSlots pre else pre) ++
        [((item early m e h q).p, !((fl || (item early m e h q).flushed) && q.isCompleted))]).length
        = pre.length + 1 := by
      split <;> simp [flushSlots_length]
    cases hx : (item early m e h q).exit with
    | some o =>
      simp only [loop, hx] at hi
      cases hr : (item early m e h q).ran with
      | false => simp only [hr, Bool.false_eq_true, if_false] at hi; exact Or.inl hi
      | true =>
        simp only [hr, if_true, List.mem_append, List.mem_singleton] at hi
        rcases hi with hi | hi
        · exact Or.inl hi
        · exact Or.inr (by simp [ranFrom, hr, hi])
    | none =>
      simp only [loop, hx] at hi
      have h2 := ih _ _ _ i hi
      rw [hlen] at h2
      cases hr : (item early m e h q).ran with
      | false =>
        simp only [hr, Bool.false_eq_true, if_false] at h2
        rcases h2 with h2 | h2
        · exact Or.inl h2
        · exact Or.inr (by simp [ranFrom, hr, h2])
      | true =>
        simp only [hr, if_true, List.mem_append, List.mem_singleton] at h2
        rcases h2 with (h2 | h2) | h2
        · exact Or.inl h2
        · exact Or.inr (by simp [ranFrom, hr, h2])
        · exact Or.inr (by simp [ranFrom, hr, h2])

/-- The descriptors at the `ranFrom` indices are those whose iteration runs the handler. -/
theorem ranFrom_filterMap (early : Bool) (m : Mode) (e h : Nat) :
    ∀ (ps pre : List Pending),
    (ranFrom early m e h pre.length ps).filterMap (fun i => (pre ++ ps)[i]?) =
      ps.filter (fun p => (item early m e h p).ran) := by
  intro ps
  induction ps with
  | nil => intro pre; rfl
  | cons p ps ih =>
    intro pre
    have h1 := ih (pre ++ [p])
    simp only [List.length_append, List.length_singleton, List.append_assoc,
      List.singleton_append] at h1
    simp only [ranFrom, List.filterMap_append, List.filter_cons, h1]
    cases hr : (item early m e h p).ran <;> simp

/-- Descriptors with pairwise different identities are determined by their identity. -/
theorem eq_of_nodup_ids : ∀ (ps : List Pending), (ps.map (·.id)).Nodup →
    ∀ a ∈ ps, ∀ b ∈ ps, a.id = b.id → a = b := by
  intro ps
  induction ps with
  | nil => intro _ a ha; cases ha
  | cons x xs ih =>
    intro hnd a ha b hb hid
    simp only [List.map_cons, List.nodup_cons, List.mem_map, not_exists, not_and] at hnd
    rcases List.mem_cons.1 ha with hax | hax
    · rcases List.mem_cons.1 hb with hbx | hbx
      · rw [hax, hbx]
      · exact absurd (by rw [← hid, hax]) (hnd.1 b hbx)
    · rcases List.mem_cons.1 hb with hbx | hbx
      · exact absurd (by rw [hid, hbx]) (hnd.1 a hax)
      · exact ih hnd.2 a hax b hbx hid

/-! ### A whole call -/

/-- A call that returned `nil`, fully described. -/
theorem call_ok (early : Bool) (s : State) (m : Mode) (e h : Nat)
    (hok : (consensusUpgradeWith early s m e h).outcome = .ok) :
    s.shouldStop = false ∧ (∀ p ∈ s.pending, (item early m e h p).exit = none) ∧
    (consensusUpgradeWith early s m e h).state =
      ⟨(s.pending.map (fun p => (item early m e h p).p)).filter (fun q => !q.consensusDone), false⟩ ∧
    (consensusUpgradeWith early s m e h).ranOf s =
      s.pending.filter (fun p => (item early m e h p).ran) := by
  unfold consensusUpgradeWith at hok ⊢
  cases hs : s.shouldStop with
  | true => simp [hs] at hok
  | false =>
    simp only [hs, Bool.false_eq_true, if_false] at hok ⊢
    have hall := loop_ok_all_cont early m e h s.pending [] [] false hok
    have hflags : FlagsOk [] := fun x hx => by cases hx
    refine ⟨trivial, hall, ?_, ?_⟩
    · rw [loop_of_all_cont early m e h s.pending [] [] false hflags hall]; simp
    · rw [loop_of_all_cont early m e h s.pending [] [] false hflags hall]
      have := ranFrom_filterMap early m e h s.pending []
      simpa [Res.ranOf] using this

/-- A call in which every iteration falls through returns `nil`. -/
theorem call_of_all_cont (early : Bool) (s : State) (m : Mode) (e h : Nat)
    (hs : s.shouldStop = false) (hall : ∀ p ∈ s.pending, (item early m e h p).exit = none) :
    (consensusUpgradeWith early s m e h).outcome = .ok := by
  unfold consensusUpgradeWith
  simp only [hs, Bool.false_eq_true, if_false]
  rw [loop_of_all_cont early m e h s.pending [] [] false (fun x hx => by cases hx) hall]

/-- Whatever the outcome: a descriptor whose handler ran is one whose iteration runs the handler. -/
theorem call_ranOf_sub (early : Bool) (s : State) (m : Mode) (e h : Nat) (p : Pending)
    (hp : p ∈ (consensusUpgradeWith early s m e h).ranOf s) :
    p ∈ s.pending ∧ (item early m e h p).ran = true := by
  unfold consensusUpgradeWith at hp
  cases hs : s.shouldStop with
  | true => simp [hs, Res.ranOf] at hp
  | false =>
    simp only [hs, Bool.false_eq_true, if_false, Res.ranOf, List.mem_filterMap] at hp
    obtain ⟨i, hi, hget⟩ := hp
    have hsub := loop_ran_sub early m e h s.pending [] [] false i hi
    simp only [List.not_mem_nil, false_or, List.length_nil] at hsub
    have hmem : p ∈ (ranFrom early m e h ([] : List Pending).length s.pending).filterMap
        (fun i => (([] : List Pending) ++ s.pending)[i]?) :=
      List.mem_filterMap.2 ⟨i, hsub, by simpa using hget⟩
    rw [ranFrom_filterMap] at hmem
    simpa using hmem

end OasisProofs.UpgradeHelpers
