import OasisProofs.Helpers.RegistryAuth
/-
C17 helper lemmas, part 7: the key-uniqueness clause read with identity keys included
(`KeysDisjoint`), which the code does *not* maintain in general: its shape and when it is preserved.
-/
namespace OasisProofs.Registry
open OasisModel.Registry

/-- The uniqueness clause of the property text with identity keys included: the key sets
{id, consensus, P2P, TLS, VRF} of two different registered nodes are disjoint. -/
def KeysDisjoint (s : State) : Prop :=
  ∀ i j n m, s.nodes.get i = some n → s.nodes.get j = some m → i ≠ j →
    ∀ k, k ∈ allKeys n → k ∈ allKeys m → False

theorem allKeysUniqueB_iff (s : State) : allKeysUniqueB s = true ↔ KeysDisjoint s := by
  unfold allKeysUniqueB KeysDisjoint
  rw [all_keys_iff]
  constructor
  · intro h i j n m hn hm hij k hkn hkm
    have h1 := h i n hn
    rw [all_keys_iff] at h1
    have h2 := h1 j m hm
    simp only [hn, hm, Bool.or_eq_true, beq_iff_eq, hij, false_or, List.all_eq_true] at h2
    have := h2 k hkn
    simp [hkm] at this
  · intro h i n hn
    rw [all_keys_iff]
    intro j m hm
    by_cases hij : i = j
    · simp [hij]
    · simp only [hn, hm, Bool.or_eq_true, beq_iff_eq, hij, false_or, List.all_eq_true]
      intro k hkn
      have := h i j n m hn hm hij k hkn
      simpa using this

/-- Under the invariant the code maintains, the only way two registered nodes can share a key is that
the identity key of one is a sub-key of the other. -/
theorem shared_key_shape {s : State} (h : IndexInv s) (i j : Key) (n m : Node)
    (hn : s.nodes.get i = some n) (hm : s.nodes.get j = some m) (hij : i ≠ j) (k : Key)
    (hkn : k ∈ allKeys n) (hkm : k ∈ allKeys m) :
    (k = n.id ∧ k ∈ subKeys m) ∨ (k ∈ subKeys n ∧ k = m.id) := by
  simp only [allKeys, List.mem_cons] at hkn hkm
  have hni := h.node_id i n hn
  have hmj := h.node_id j m hm
  rcases hkn with hkn | hkn <;> rcases hkm with hkm | hkm
  · exact absurd (by rw [← hni, ← hmj, ← hkn, ← hkm]) hij
  · exact Or.inl ⟨hkn, hkm⟩
  · exact Or.inr ⟨hkn, hkm⟩
  · have h1 := h.km_compl i n hn k hkn
    have h2 := h.km_compl j m hm k hkm
    rw [h1] at h2
    exact absurd (Option.some.inj h2) hij

/-- The operation does not create an identity-key / sub-key collision across nodes: a node
registration uses no registered identity key (other than its own) as a sub-key, and its own identity
key is no other node's sub-key. -/
def NoIdClash (s : State) : Op → Prop
  | .regNode _ sn =>
    (∀ k, k ∈ subKeys sn.node → k ≠ sn.node.id → s.nodes.get k = none) ∧
    (s.keyMap.get sn.node.id = none ∨ s.keyMap.get sn.node.id = some sn.node.id)
  | _ => True

instance (s : State) (op : Op) : Decidable (NoIdClash s op) := by
  cases op <;> simp only [NoIdClash] <;> infer_instance

theorem keysDisjoint_of_nodes_sub {s s' : State} (hd : KeysDisjoint s)
    (hsub : ∀ i n, s'.nodes.get i = some n → s.nodes.get i = some n) : KeysDisjoint s' :=
  fun i j n m hn hm => hd i j n m (hsub i n hn) (hsub j m hm)

theorem keysDisjoint_regNode (ord : Order) (s : State) (t : Key) (sn : SignedNode) (h : Inv s)
    (hd : KeysDisjoint s) (hc : NoIdClash s (.regNode t sn)) : KeysDisjoint (regNode false ord s t sn).1 := by
  rcases regNode_nodes false ord s t sn with e | ⟨hchk, e⟩
  · exact keysDisjoint_of_nodes_sub hd (fun i n hn => by rw [e] at hn; exact hn)
  · have ha := accepted_of_nodeChecks h.toIndexInv hchk
    obtain ⟨hc1, hc2⟩ := hc
    -- the new descriptor against an old record of another node
    have key : ∀ j m, s.nodes.get j = some m → j ≠ sn.node.id →
        ∀ k, k ∈ allKeys sn.node → k ∈ allKeys m → False := by
      intro j m hm hj k hkn hkm
      have hmj := h.node_id j m hm
      simp only [allKeys, List.mem_cons] at hkn hkm
      rcases hkn with hkn | hkn <;> rcases hkm with hkm | hkm
      · exact hj (by rw [← hmj, ← hkm, hkn])
      · have := h.km_compl j m hm k hkm
        rw [hkn] at this
        rcases hc2 with h2 | h2 <;> rw [h2] at this
        · cases this
        · exact hj (Option.some.inj this).symm
      · by_cases hk : k = sn.node.id
        · exact hj (by rw [← hmj, ← hkm, hk])
        · have := hc1 k hkn hk
          rw [hkm, hmj, hm] at this
          cases this
      · have h1 := h.km_compl j m hm k hkm
        exact hj (ha.free k hkn j h1 ⟨m, hm⟩)
    intro i j n m hn hm hij k hkn hkm
    rw [e] at hn hm
    simp only [Map.get_set] at hn hm
    by_cases hi : sn.node.id = i <;> by_cases hj : sn.node.id = j
    · exact hij (hi.symm.trans hj)
    · simp only [hi, if_true, Option.some.injEq] at hn
      simp only [hj, if_false] at hm
      subst hn
      exact key j m hm (fun e' => hj e'.symm) k hkn hkm
    · simp only [hi, if_false] at hn
      simp only [hj, if_true, Option.some.injEq] at hm
      subst hm
      exact key i n hn (fun e' => hi e'.symm) k hkm hkn
    · simp only [hi, if_false] at hn
      simp only [hj, if_false] at hm
      exact hd i j n m hn hm hij k hkn hkm

/-- Every operation preserves the stronger uniqueness clause provided it does not itself create an
identity-key / sub-key collision. -/
theorem keysDisjoint_step (ord : Order) (s : State) (op : Op) (h : Inv s) (hd : KeysDisjoint s)
    (hc : NoIdClash s op) : KeysDisjoint (step ord s op).1 := by
  cases op with
  | regEntity t se =>
    refine keysDisjoint_of_nodes_sub hd (fun i n hn => ?_)
    simp only [step] at hn
    rcases regEntity_spec false s t se with e | ⟨_, _, _, e⟩ <;> rw [e] at hn <;> exact hn
  | deregEntity t =>
    refine keysDisjoint_of_nodes_sub hd (fun i n hn => ?_)
    simp only [step] at hn
    rcases deregEntity_spec s t h with e | ⟨_, _, _, e⟩ <;> rw [e] at hn <;> exact hn
  | regNode t sn => exact keysDisjoint_regNode ord s t sn h hd hc
  | regRuntime c rt =>
    refine keysDisjoint_of_nodes_sub hd (fun i n hn => ?_)
    simp only [step] at hn
    rcases regRuntime_spec false s c rt with e | ⟨_, _, ⟨_, e⟩ | ⟨_, _, _, e⟩⟩ <;> rw [e] at hn <;> exact hn
  | unfreeze t id =>
    refine keysDisjoint_of_nodes_sub hd (fun i n hn => ?_)
    simp only [step] at hn
    rcases unfreezeNode_spec s t id with e | ⟨_, _, _, _, _, _, e⟩ <;> rw [e] at hn <;> exact hn
  | freeze id u =>
    refine keysDisjoint_of_nodes_sub hd (fun i n hn => ?_)
    simp only [step] at hn
    rcases freezeNode_spec s id u with e | ⟨_, _, e⟩ <;> rw [e] at hn <;> exact hn
  | setBalance a v => exact keysDisjoint_of_nodes_sub hd (fun i n hn => hn)
  | epoch e =>
    refine keysDisjoint_of_nodes_sub hd (fun i n hn => ?_)
    simp only [step] at hn
    rcases epochTransition_nodes s e h i with e' | ⟨e', _⟩
    · rw [e'] at hn; exact hn
    · rw [e'] at hn; cases hn

end OasisProofs.Registry
