import OasisProofs.Helpers.MkvsChunkSeq
/-
C04, iteration and prefix requests: the items a `SyncIterate` / `SyncGetPrefixes` request iterates over
are resolved by the proof it returns — the chain of ancestors of every visited item is in the proof, so a
lookup of its key in the rebuilt tree answers with its value.
-/
namespace OasisProofs.MkvsIter
open OasisModel.Mkvs OasisProofs.Mkvs OasisProofs.MkvsChunk OasisProofs.MkvsProof

theorem drop_of_prefix_bit {q : Bits} {c : Bool} {kb : Bits} (h : q ++ [c] <+: kb) :
    q.length < kb.length ∧ ∃ t, kb.drop q.length = c :: t := by
  obtain ⟨t, ht⟩ := h
  refine ⟨?_, t, ?_⟩
  · rw [← ht]; simp
  · rw [← ht, List.append_assoc, List.drop_left]; rfl

/-- If the chain to an item is included, a lookup of its key in the rebuilt tree finds its value. -/
theorem chainCov_getAux (eh : Bytes) (ver : Nat) {incl : List Bytes} {as : List Atom} {anc : List HTrie} {t : HTrie}
    {kv : KV} (hc : ChainCov incl anc t as kv) : ∀ (p : Bits), WFAt p t.erase →
    (restrict ver incl t).getAux eh kv.1 p.length = some (some kv.2) := by
  induction hc with
  | @leaf anc h k v hcv =>
    intro p _
    have hm : h ∈ incl := by simpa [nh] using hcv.1
    simp [restrict, hm, PT.getAux]
  | @own anc h lab kv hlf l r a hcv _ _ hin =>
    intro p hwf
    obtain ⟨k, v⟩ := kv
    have hself : incl.contains h = true := by simpa [nh] using hcv.1
    have hk : toBits k = p ++ lab := hwf.1 (k, v) rfl
    have hn : (toBits k).length = p.length + lab.length := by rw [hk]; simp
    simp only [restrict, hself, if_true, PT.getAux, if_pos hn]
    by_cases hv : ver = 0
    · simp [hv, ofLeafOpt, PT.getAux]
    · simp [hv, restrictLeafSlot, hin, PT.getAux]
  | @left anc h lab lf hlf l r a as kv hcv _ _ hrec ih =>
    intro p hwf
    have hself : incl.contains h = true := by simpa [nh] using hcv.1
    have hmem := chainCov_mem hrec
    obtain ⟨_, hl, hlb, _, _, _⟩ := hwf
    obtain ⟨hlen, tl, hd⟩ := drop_of_prefix_bit (hlb kv hmem)
    simp only [List.length_append] at hlen hd
    have hrec' := ih (p ++ lab) hl
    simp only [List.length_append] at hrec'
    simp only [restrict, hself, if_true, PT.getAux]
    rw [if_neg (by omega), if_neg (by omega), hd]
    exact hrec'
  | @right anc h lab lf hlf l r a as kv hcv _ _ hrec ih =>
    intro p hwf
    have hself : incl.contains h = true := by simpa [nh] using hcv.1
    have hmem := chainCov_mem hrec
    obtain ⟨_, _, _, hr, hrb, _⟩ := hwf
    obtain ⟨hlen, tl, hd⟩ := drop_of_prefix_bit (hrb kv hmem)
    simp only [List.length_append] at hlen hd
    have hrec' := ih (p ++ lab) hr
    simp only [List.length_append] at hrec'
    simp only [restrict, hself, if_true, PT.getAux]
    rw [if_neg (by omega), if_neg (by omega), hd]
    exact hrec'

theorem visited_getAux (eh : Bytes) (ver : Nat) {incl : List Bytes} {root : HTrie} {kv : KV}
    (hv : Visited incl root kv) (hwf : WF root.erase) :
    (restrict ver incl root).getAux eh kv.1 0 = some (some kv.2) := by
  obtain ⟨as, hc⟩ := hv
  exact chainCov_getAux eh ver hc [] hwf

theorem itAdvance_none (ver : Nat) : ∀ (n : Nat) (it : Iter), it.cur = none → itAdvance ver n it = it := by
  intro n
  cases n with
  | zero => intro it _; rfl
  | succ n => intro it h; simp [itAdvance, h]

/-- `Seek` then `n` times `Next`: the first `n + 1` items from the seek position are visited. -/
theorem itAdvance_spec (ver : Nat) (root : HTrie) : ∀ (n : Nat) (it : Iter) (x : KV) (rest : List KV),
    ItOK root it x → itRem it = rest →
    (∀ z ∈ it.b.incl, z ∈ (itAdvance ver n it).b.incl) ∧
    ∀ kv ∈ x :: rest.take n, Visited (itAdvance ver n it).b.incl root kv := by
  intro n
  induction n with
  | zero =>
    intro it x rest hok _
    refine ⟨fun z hz => hz, ?_⟩
    intro kv hkv
    simp only [List.take_zero, List.mem_singleton] at hkv
    subst hkv
    exact itOK_visited hok
  | succ n ih =>
    intro it x rest hok hrem
    simp only [itAdvance, hok.cur, Option.isSome_some, if_true]
    have hn := itNext_spec ver root it x hok
    rw [hrem] at hn
    cases rest with
    | nil =>
      simp only at hn
      rw [itAdvance_none ver n _ hn.2]
      refine ⟨hn.1, ?_⟩
      intro kv hkv
      simp only [List.take_nil, List.mem_singleton] at hkv
      subst hkv
      exact visited_mono hn.1 (itOK_visited hok)
    | cons y ys =>
      simp only at hn
      obtain ⟨hmono, hok', hrem'⟩ := hn
      obtain ⟨i1, i2⟩ := ih _ y ys hok' hrem'
      refine ⟨fun z hz => i1 _ (hmono z hz), ?_⟩
      intro kv hkv
      simp only [List.take_succ_cons, List.mem_cons] at hkv
      rcases hkv with rfl | hkv
      · exact visited_mono (fun z hz => i1 _ (hmono z hz)) (itOK_visited hok)
      · exact i2 kv (by simpa using hkv)

/-- The items a `SyncIterate` request iterates over are visited by its proof builder. -/
theorem proofIterate_visits (ver : Nat) (root : HTrie) (hwf : WF root.erase) (key : Bytes) (prefetch : Nat) :
    ∀ kv ∈ (firstGE key root.erase.toList).take (prefetch + 1),
      Visited (itAdvance ver prefetch (itSeek ver root key {})).b.incl root kv := by
  intro kv hkv
  have hs := itSeek_spec ver root hwf key {}
  cases hf : firstGE key root.erase.toList with
  | nil => rw [hf] at hkv; simp at hkv
  | cons x rest =>
    rw [hf] at hs hkv
    simp only at hs
    obtain ⟨_, hok, hrem⟩ := hs
    have := (itAdvance_spec ver root prefetch _ x rest hok hrem).2
    exact this kv (by simpa [List.take_succ_cons] using hkv)

/-! ### prefix requests -/

/-- What the inner loop of `SyncGetPrefixes` (prefetch.go:99-107) iterates over, on the ordered contents:
the items from the seek position while they carry the prefix and the limit is not reached; the new
total; whether the limit stopped the whole request. -/
def askedInner (limit : Nat) (pfx : Bytes) : List KV → Nat → List KV × Nat × Bool
  | [], total => ([], total, false)
  | (k, v) :: rest, total =>
    if total ≥ limit then ([], total, true)
    else if !isPrefixB pfx k then ([], total, false)
    else
      let r := askedInner limit pfx rest (total + 1)
      ((k, v) :: r.1, r.2.1, r.2.2)

/-- The items a `SyncGetPrefixes` request asks about: for each prefix in turn, the items under it from
the first key ≥ the prefix, until the limit is reached. -/
def askedOuter (limit : Nat) (L : List KV) : List Bytes → Nat → List KV
  | [], _ => []
  | p :: ps, total =>
    let a := askedInner limit p (firstGE p L) total
    a.1 ++ (if a.2.2 then [] else askedOuter limit L ps a.2.1)

theorem prefixInner_none (ver limit : Nat) (pfx : Bytes) : ∀ (n : Nat) (it : Iter) (total : Nat),
    it.cur = none → prefixInner ver limit pfx n it total = (it, total, false) := by
  intro n
  cases n with
  | zero => intro it total _; rfl
  | succ n => intro it total h; simp [prefixInner, h]

theorem prefixInner_spec (ver limit : Nat) (pfx : Bytes) (root : HTrie) : ∀ (n : Nat) (it : Iter) (x : KV)
    (rest : List KV) (total : Nat), ItOK root it x → itRem it = rest → rest.length < n →
    (∀ z ∈ it.b.incl, z ∈ (prefixInner ver limit pfx n it total).1.b.incl) ∧
    (prefixInner ver limit pfx n it total).2 = (askedInner limit pfx (x :: rest) total).2 ∧
    ∀ kv ∈ (askedInner limit pfx (x :: rest) total).1,
      Visited (prefixInner ver limit pfx n it total).1.b.incl root kv := by
  intro n
  induction n with
  | zero => intro it x rest total _ _ h; omega
  | succ n ih =>
    intro it x rest total hok hrem hlen
    obtain ⟨k, v⟩ := x
    simp only [prefixInner, hok.cur, askedInner]
    by_cases hlim : total ≥ limit
    · rw [if_pos hlim, if_pos hlim]
      exact ⟨fun z hz => hz, rfl, fun kv hkv => by simp at hkv⟩
    · rw [if_neg hlim, if_neg hlim]
      by_cases hpf : (!isPrefixB pfx k) = true
      · rw [if_pos hpf, if_pos hpf]
        exact ⟨fun z hz => hz, rfl, fun kv hkv => by simp at hkv⟩
      · rw [if_neg hpf, if_neg hpf]
        have hn := itNext_spec ver root it (k, v) hok
        rw [hrem] at hn
        cases rest with
        | nil =>
          simp only at hn
          rw [prefixInner_none ver limit pfx n _ _ hn.2]
          refine ⟨hn.1, by simp [askedInner], ?_⟩
          intro kv hkv
          simp only [askedInner, List.mem_singleton] at hkv
          subst hkv
          exact visited_mono hn.1 (itOK_visited hok)
        | cons y ys =>
          simp only at hn
          obtain ⟨hmono, hok', hrem'⟩ := hn
          simp only [List.length_cons] at hlen
          obtain ⟨i1, i2, i3⟩ := ih _ y ys (total + 1) hok' hrem' (by omega)
          refine ⟨fun z hz => i1 _ (hmono z hz), i2, ?_⟩
          intro kv hkv
          simp only [List.mem_cons] at hkv
          rcases hkv with rfl | hkv
          · exact visited_mono (fun z hz => i1 _ (hmono z hz)) (itOK_visited hok)
          · exact i3 kv hkv

theorem prefixOuter_spec (ver limit : Nat) (root : HTrie) (hwf : WF root.erase) (fuel : Nat)
    (hfuel : root.erase.toList.length < fuel) : ∀ (prefixes : List Bytes) (b : Builder) (total : Nat),
    (∀ z ∈ b.incl, z ∈ (prefixOuter ver limit root fuel prefixes b total).incl) ∧
    ∀ kv ∈ askedOuter limit root.erase.toList prefixes total,
      Visited (prefixOuter ver limit root fuel prefixes b total).incl root kv := by
  intro prefixes
  induction prefixes with
  | nil => intro b total; exact ⟨fun z hz => hz, fun kv hkv => by simp [askedOuter] at hkv⟩
  | cons p ps ih =>
    intro b total
    have hs := itSeek_spec ver root hwf p b
    have hle := firstGE_length_le p root.erase.toList
    simp only [prefixOuter, askedOuter]
    cases hf : firstGE p root.erase.toList with
    | nil =>
      rw [hf] at hs
      simp only at hs
      rw [prefixInner_none ver limit p fuel _ _ hs.2]
      simp only [askedInner, Bool.false_eq_true, if_false, List.nil_append]
      obtain ⟨i1, i2⟩ := ih (itSeek ver root p b).b total
      exact ⟨fun z hz => i1 _ (hs.1 z hz), i2⟩
    | cons x rest =>
      rw [hf] at hs hle
      simp only at hs
      simp only [List.length_cons] at hle
      obtain ⟨hm0, hok, hrem⟩ := hs
      obtain ⟨j1, j2, j3⟩ := prefixInner_spec ver limit p root fuel _ x rest total hok hrem (by omega)
      have hstop : (prefixInner ver limit p fuel (itSeek ver root p b) total).2.2 =
          (askedInner limit p (x :: rest) total).2.2 := by rw [j2]
      have htot : (prefixInner ver limit p fuel (itSeek ver root p b) total).2.1 =
          (askedInner limit p (x :: rest) total).2.1 := by rw [j2]
      cases hst : (askedInner limit p (x :: rest) total).2.2 with
      | true =>
        rw [hst] at hstop
        simp only [hstop, if_true, List.append_nil]
        exact ⟨fun z hz => j1 _ (hm0 z hz), j3⟩
      | false =>
        rw [hst] at hstop
        simp only [hstop, Bool.false_eq_true, if_false, htot]
        obtain ⟨i1, i2⟩ := ih (prefixInner ver limit p fuel (itSeek ver root p b) total).1.b
          (askedInner limit p (x :: rest) total).2.1
        refine ⟨fun z hz => i1 _ (j1 _ (hm0 z hz)), ?_⟩
        intro kv hkv
        rcases List.mem_append.1 hkv with hkv | hkv
        · exact visited_mono i1 (j3 kv hkv)
        · exact i2 kv hkv

end OasisProofs.MkvsIter
