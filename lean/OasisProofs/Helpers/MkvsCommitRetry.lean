import OasisProofs.Props.C13
import OasisModel.Mkvs.CommitRetry
/-
Helpers for C13Retry: case analysis of `commitWithHooks`, the invariant of one tree object over
any history of writes and (accepted, rejected, refused) commits, and histories without an
accepted commit.
-/
namespace OasisProofs.C13Retry
open OasisModel.Mkvs OasisProofs.Mkvs OasisProofs.C13
open OasisModel.Mkvs.RetryTree

/-! ### `commitWithHooks` has exactly three exits -/

theorem commitWithHooks_cases (H : Bytes → Bytes) (s : RetryTree) (e : Option Bytes) (o : DbOutcome) :
    (commitWithHooks H s e o = (s, .dbError) ∧ o ≠ .accepts) ∨
    (commitWithHooks H s e o = (s, .knownRootMismatch) ∧
      hookPasses (hashWith H s.mem.root) e = false ∧ o ≠ .rejectsNewBatch) ∨
    (commitWithHooks H s e o = (s.committed, .ok (hashWith H s.mem.root) s.mem.writeLog) ∧
      hookPasses (hashWith H s.mem.root) e = true ∧ o = .accepts) := by
  cases hp : hookPasses (hashWith H s.mem.root) e <;> cases o <;> simp [commitWithHooks, hp]

theorem hookPasses_none (h : Bytes) : hookPasses h none = true := rfl

theorem hookPasses_some (h e : Bytes) : hookPasses h (some e) = true ↔ h = e := by
  simp [hookPasses]

theorem committed_db_ne (s : RetryTree) : s.committed.db ≠ s.db := by
  intro h
  have := congrArg List.length h
  simp [committed] at this

/-! ### closed forms without the hook (used by the concrete witnesses) -/

theorem commitWithHooks_none_accepts (H : Bytes → Bytes) (s : RetryTree) :
    commitWithHooks H s none .accepts = (s.committed, .ok (hashWith H s.mem.root) s.mem.writeLog) := by
  simp [commitWithHooks, hookPasses]

theorem commitWithHooks_none_rejects (H : Bytes → Bytes) (s : RetryTree) (o : DbOutcome) (ho : o ≠ .accepts) :
    commitWithHooks H s none o = (s, .dbError) := by
  cases o <;> simp_all [commitWithHooks, hookPasses]

theorem commitEarlyReset_none_accepts (H : Bytes → Bytes) (s : RetryTree) :
    commitEarlyReset H s none .accepts = (s.committed, .ok (hashWith H s.mem.root) s.mem.writeLog) := by
  simp [commitEarlyReset, hookPasses]

theorem commitEarlyReset_none_rejectsCommit (H : Bytes → Bytes) (s : RetryTree) :
    commitEarlyReset H s none .rejectsCommit =
      ({ s with mem := { root := s.mem.root, pending := [] } }, .dbError) := by
  simp [commitEarlyReset, hookPasses]

/-! ### chains of stored logs -/

/-- The stored logs lead from `a` to `b`: each record starts where the previous one ended and its
log maps the contents of its old root to the contents of its new root. -/
def Chained : Trie → List StoredLog → Trie → Prop
  | a, [], b => a = b
  | a, r :: rs, b =>
    r.oldRoot = a ∧ applyLogSpec r.oldRoot.toList r.log = r.newRoot.toList ∧ Chained r.newRoot rs b

theorem chained_snoc {a b c : Trie} {db : List StoredLog} {l : List LogEntry}
    (h : Chained a db b) (hl : applyLogSpec b.toList l = c.toList) :
    Chained a (db ++ [{ oldRoot := b, newRoot := c, log := l }]) c := by
  induction db generalizing a with
  | nil =>
    simp only [Chained] at h
    subst h
    exact ⟨rfl, hl, rfl⟩
  | cons r rs ih =>
    obtain ⟨h1, h2, h3⟩ := h
    exact ⟨h1, h2, ih h3⟩

theorem chained_mem {a b : Trie} {db : List StoredLog} (h : Chained a db b) :
    ∀ r ∈ db, applyLogSpec r.oldRoot.toList r.log = r.newRoot.toList := by
  induction db generalizing a with
  | nil => intro r hr; simp at hr
  | cons r rs ih =>
    obtain ⟨_, h2, h3⟩ := h
    intro r' hr'
    rcases List.mem_cons.1 hr' with rfl | hm
    · exact h2
    · exact ih h3 r' hm

theorem applyLogSpec_append (m : List KV) (l₁ l₂ : List LogEntry) :
    applyLogSpec m (l₁ ++ l₂) = applyLogSpec (applyLogSpec m l₁) l₂ := by
  simp [applyLogSpec, List.foldl_append]

/-- Replaying all stored logs, oldest first, leads from the contents of `a` to those of `b`. -/
theorem chained_replay {a b : Trie} {db : List StoredLog} (h : Chained a db b) :
    applyLogSpec a.toList (db.flatMap (·.log)) = b.toList := by
  induction db generalizing a with
  | nil => simp only [Chained] at h; subst h; rfl
  | cons r rs ih =>
    obtain ⟨h1, h2, h3⟩ := h
    subst h1
    rw [List.flatMap_cons, applyLogSpec_append, h2]
    exact ih h3

/-! ### the invariant of a tree object -/

/-- Invariant of one tree object opened at `t₀`: the durable tree is canonical, the in-memory tree
and its pending log are related to the DURABLE contents by `TInv`, and the stored logs lead from
`t₀` to the durable tree. -/
structure RInv (t₀ : Trie) (s : RetryTree) : Prop where
  wfd : WF s.durable
  tinv : TInv s.durable.toList s.mem
  chain : Chained t₀ s.db s.durable

theorem rinv_open {t₀ : Trie} (h : WF t₀) : RInv t₀ (openAt t₀) :=
  ⟨h, tinv_init h, rfl⟩

theorem rinv_committed {t₀ : Trie} {s : RetryTree} (h : RInv t₀ s) : RInv t₀ s.committed :=
  ⟨h.tinv.wf, tinv_init h.tinv.wf, chained_snoc h.chain (writeLog_applies (wf_sorted h.wfd) h.tinv)⟩

theorem rinv_commitWithHooks {t₀ : Trie} {s : RetryTree} (h : RInv t₀ s) (H : Bytes → Bytes)
    (e : Option Bytes) (o : DbOutcome) : RInv t₀ (commitWithHooks H s e o).1 := by
  rcases commitWithHooks_cases H s e o with ⟨hc, _⟩ | ⟨hc, _⟩ | ⟨hc, _⟩ <;> rw [hc]
  · exact h
  · exact h
  · exact rinv_committed h

theorem rinv_step {t₀ : Trie} {s : RetryTree} (h : RInv t₀ s) (H : Bytes → Bytes) (ev : Event) :
    RInv t₀ (step H s ev).1 := by
  cases ev with
  | insert k v => exact ⟨h.wfd, (tinv_insert h.tinv k v).1, h.chain⟩
  | remove k => exact ⟨h.wfd, (tinv_removeExisting h.tinv k).1, h.chain⟩
  | commit o => exact rinv_commitWithHooks h H none o
  | commitKnown e o => exact rinv_commitWithHooks h H (some e) o
  | commitNoPersist => exact h

theorem run_cons (H : Bytes → Bytes) (s : RetryTree) (ev : Event) (evs : List Event) :
    run H s (ev :: evs) = run H (step H s ev).1 evs := rfl

theorem run_append (H : Bytes → Bytes) (s : RetryTree) (evs₁ evs₂ : List Event) :
    run H s (evs₁ ++ evs₂) = run H (run H s evs₁) evs₂ := by
  simp [run, List.foldl_append]

theorem rinv_run {t₀ : Trie} {s : RetryTree} (h : RInv t₀ s) (H : Bytes → Bytes) (evs : List Event) :
    RInv t₀ (run H s evs) := by
  induction evs generalizing s with
  | nil => exact h
  | cons ev evs ih => exact ih (rinv_step h H ev)

/-! ### histories without an accepted commit -/

/-- The event does not make the database accept a commit in state `s`: a write, a commit the
database rejects, a `CommitKnown` whose expected hash differs, a `NoPersist` commit. -/
def RefusedAt (H : Bytes → Bytes) (s : RetryTree) : Event → Prop
  | .insert _ _ => True
  | .remove _ => True
  | .commit o => o ≠ .accepts
  | .commitKnown e o => o ≠ .accepts ∨ hashWith H s.mem.root ≠ e
  | .commitNoPersist => True

/-- No event of the history is an accepted commit. -/
def Unaccepted (H : Bytes → Bytes) : RetryTree → List Event → Prop
  | _, [] => True
  | s, ev :: evs => RefusedAt H s ev ∧ Unaccepted H (step H s ev).1 evs

instance (H : Bytes → Bytes) (s : RetryTree) (ev : Event) : Decidable (RefusedAt H s ev) := by
  cases ev <;> unfold RefusedAt <;> infer_instance

instance instDecidableUnaccepted (H : Bytes → Bytes) :
    (s : RetryTree) → (evs : List Event) → Decidable (Unaccepted H s evs)
  | _, [] => isTrue trivial
  | s, ev :: evs => by
    unfold Unaccepted
    exact @instDecidableAnd _ _ _ (instDecidableUnaccepted H _ evs)

/-- Syntactic sufficient condition: writes, rejected commits, `NoPersist` commits. -/
def Event.rejected : Event → Bool
  | .insert _ _ => true
  | .remove _ => true
  | .commit o => o != .accepts
  | .commitKnown _ o => o != .accepts
  | .commitNoPersist => true

theorem refusedAt_of_rejected (H : Bytes → Bytes) (s : RetryTree) {ev : Event}
    (h : Event.rejected ev = true) : RefusedAt H s ev := by
  cases ev <;> simp_all [Event.rejected, RefusedAt]

theorem unaccepted_of_rejected (H : Bytes → Bytes) (s : RetryTree) (evs : List Event)
    (h : ∀ ev ∈ evs, Event.rejected ev = true) : Unaccepted H s evs := by
  induction evs generalizing s with
  | nil => trivial
  | cons ev evs ih =>
    exact ⟨refusedAt_of_rejected H s (h ev (by simp)), ih _ (fun e he => h e (by simp [he]))⟩

/-- The writes of a history. -/
def writesOf : List Event → List WOp
  | [] => []
  | .insert k v :: evs => .insert k v :: writesOf evs
  | .remove k :: evs => .remove k :: writesOf evs
  | _ :: evs => writesOf evs

theorem commitWithHooks_refused (H : Bytes → Bytes) (s : RetryTree) (e : Option Bytes) (o : DbOutcome)
    (h : o ≠ .accepts ∨ hookPasses (hashWith H s.mem.root) e = false) :
    (commitWithHooks H s e o).1 = s ∧ (commitWithHooks H s e o).2.log? = none := by
  rcases commitWithHooks_cases H s e o with ⟨hc, _⟩ | ⟨hc, _⟩ | ⟨hc, hp, ho⟩
  · rw [hc]; exact ⟨rfl, rfl⟩
  · rw [hc]; exact ⟨rfl, rfl⟩
  · rcases h with h | h
    · exact absurd ho h
    · rw [hp] at h; cases h

/-- A refused event acts on the in-memory tree as its write (if it is one) and on nothing else. -/
theorem step_refused (H : Bytes → Bytes) (s : RetryTree) (ev : Event) (h : RefusedAt H s ev) :
    (step H s ev).1 = { s with mem := (writesOf [ev]).foldl applyOp s.mem } := by
  cases ev with
  | insert k v => rfl
  | remove k => rfl
  | commit o => exact (commitWithHooks_refused H s none o (Or.inl h)).1
  | commitKnown e o =>
    refine (commitWithHooks_refused H s (some e) o ?_).1
    rcases h with h | h
    · exact Or.inl h
    · right
      cases hp : hookPasses (hashWith H s.mem.root) (some e) with
      | false => rfl
      | true => exact absurd ((hookPasses_some _ _).1 hp) h
  | commitNoPersist => rfl

theorem writesOf_cons (ev : Event) (evs : List Event) : writesOf (ev :: evs) = writesOf [ev] ++ writesOf evs := by
  cases ev <;> rfl

/-- A history without an accepted commit is, for the tree object, the batch of its writes. -/
theorem run_unaccepted (H : Bytes → Bytes) (s : RetryTree) (evs : List Event) (h : Unaccepted H s evs) :
    run H s evs = { s with mem := (writesOf evs).foldl applyOp s.mem } := by
  induction evs generalizing s with
  | nil => rfl
  | cons ev evs ih =>
    obtain ⟨h1, h2⟩ := h
    rw [run_cons, ih _ h2, writesOf_cons, List.foldl_append, step_refused H s ev h1]

/-- An event is refused exactly when it leaves the stored logs unchanged. -/
theorem refusedAt_iff_db (H : Bytes → Bytes) (s : RetryTree) (ev : Event) :
    RefusedAt H s ev ↔ (step H s ev).1.db = s.db := by
  constructor
  · intro h; rw [step_refused H s ev h]
  · intro h
    cases ev with
    | insert k v => trivial
    | remove k => trivial
    | commitNoPersist => trivial
    | commit o =>
      rcases commitWithHooks_cases H s none o with ⟨_, ho⟩ | ⟨_, hp, _⟩ | ⟨hc, _, _⟩
      · exact ho
      · cases hp
      · simp only [step, hc] at h
        exact absurd h (committed_db_ne s)
    | commitKnown e o =>
      rcases commitWithHooks_cases H s (some e) o with ⟨_, ho⟩ | ⟨_, hp, _⟩ | ⟨hc, _, _⟩
      · exact Or.inl ho
      · right
        intro he
        rw [(hookPasses_some _ _).2 he] at hp
        cases hp
      · simp only [step, hc] at h
        exact absurd h (committed_db_ne s)

end OasisProofs.C13Retry
