import OasisModel.Roothash.Pool
import OasisProofs.Helpers.RoothashCount
import OasisProofs.Helpers.RoothashProcess
/-
Helper lemmas for C11: the answer of discrepancy resolution does not depend on the order in which
the vote map is iterated (Go map iteration order).
-/
namespace OasisProofs.Roothash
open OasisModel.Roothash

def maxv (l : List (Nat × Nat)) : Nat := l.foldr (fun kv m => max kv.2 m) 0

theorem pickBest_snd (l : List (Nat × Nat)) (h0 b0 : Nat) :
    (pickBest l (h0, b0)).2 = max b0 (maxv l) := by
  induction l generalizing h0 b0 with
  | nil => simp [pickBest, maxv]
  | cons kv rest ih =>
    obtain ⟨k, v⟩ := kv
    unfold pickBest
    have hm : maxv ((k, v) :: rest) = max v (maxv rest) := rfl
    split
    · rw [ih, hm]; omega
    · rw [ih, hm]; omega

theorem maxv_perm (l l' : List (Nat × Nat)) (h : l.Perm l') : maxv l = maxv l' := by
  induction h with
  | nil => rfl
  | cons x _ ih => simp only [maxv, List.foldr_cons] at ih ⊢; rw [ih]
  | swap x y l => simp only [maxv, List.foldr_cons]; omega
  | trans _ _ ih1 ih2 => rw [ih1, ih2]

theorem mem_le_vsum (l : List (Nat × Nat)) (k v : Nat) (h : (k, v) ∈ l) : v ≤ vsum l := by
  induction l with
  | nil => simp at h
  | cons x rest ih =>
    simp only [vsum, List.map_cons, List.sum_cons] at ih ⊢
    rcases List.mem_cons.1 h with e | e
    · subst e; simp
    · have := ih e; omega

theorem two_entries (l : List (Nat × Nat)) (k1 v1 k2 v2 : Nat) (h1 : (k1, v1) ∈ l) (h2 : (k2, v2) ∈ l)
    (hne : k1 ≠ k2) : v1 + v2 ≤ vsum l := by
  induction l with
  | nil => simp at h1
  | cons x rest ih =>
    have hs : vsum (x :: rest) = x.2 + vsum rest := by simp [vsum]
    rw [hs]
    rcases List.mem_cons.1 h1 with e1 | e1 <;> rcases List.mem_cons.1 h2 with e2 | e2
    · subst e1; cases e2; exact absurd rfl hne
    · subst e1; have := mem_le_vsum rest k2 v2 e2; simp only; omega
    · subst e2; have := mem_le_vsum rest k1 v1 e1; simp only; omega
    · have := ih e1 e2; omega

theorem vsum_perm (l l' : List (Nat × Nat)) (h : l.Perm l') : vsum l = vsum l' := by
  induction h with
  | nil => rfl
  | cons x _ ih => simp only [vsum, List.map_cons, List.sum_cons] at ih ⊢; rw [ih]
  | swap x y l => simp only [vsum, List.map_cons, List.sum_cons]; omega
  | trans _ _ ih1 ih2 => rw [ih1, ih2]

/-- Discrepancy resolution gives the same answer for every iteration order of the vote map. -/
theorem resolve_perm (l l' : List (Nat × Nat)) (total commits : Nat) (tmo : Bool) (own : Option EC)
    (hp : l.Perm l') (hsum : vsum l ≤ total) :
    resolve l' total commits tmo own = resolve l total commits tmo own := by
  have hb : (pickBest l' (0, 0)).2 = (pickBest l (0, 0)).2 := by
    rw [pickBest_snd, pickBest_snd, maxv_perm l l' hp]
  unfold resolve
  generalize hq : pickBest l (0, 0) = q at hb
  generalize hq' : pickBest l' (0, 0) = q' at hb
  obtain ⟨h, b⟩ := q
  obtain ⟨h', b'⟩ := q'
  simp only at hb
  subst hb
  simp only
  by_cases h1 : b' + (total - commits) < total / 2 + 1
  · simp [h1]
  · by_cases h2 : b' < total / 2 + 1
    · simp [h1, h2]
    · have hh : h' = h := by
        by_cases hne : h' = h
        · exact hne
        · exfalso
          have m1 : (h, b') ∈ l := by
            rcases pickBest_mem l (0, 0) with e | e
            · rw [hq] at e; cases e; omega
            · rw [hq] at e; exact e
          have m2 : (h', b') ∈ l := by
            rcases pickBest_mem l' (0, 0) with e | e
            · rw [hq'] at e; cases e; omega
            · rw [hq'] at e; exact hp.symm.subset e
          have := two_entries l h' b' h b' m2 m1 hne
          omega
      rw [hh]

end OasisProofs.Roothash
