import OasisProofs.Helpers.MkvsRefine
/-
The node and leaf hash encodings (node.go:355, node.go:599) are injective within the size bounds
of the implementation, hence, for an injective hash function with 32-byte output, the Merkle hash
of the trie is injective.
-/
namespace OasisProofs.Mkvs
open OasisModel.Mkvs

theorem bitsToNat_lt (l : Bits) : bitsToNat l < 2 ^ l.length := by
  induction l with
  | nil => simp [bitsToNat]
  | cons b l ih =>
    simp only [bitsToNat, List.length_cons, Nat.pow_succ]
    cases b <;> simp <;> omega

theorem natBits_bitsToNat (l : Bits) : natBits l.length (bitsToNat l) = l := by
  induction l with
  | nil => rfl
  | cons b l ih =>
    simp only [List.length_cons, natBits, bitsToNat]
    have hlt := bitsToNat_lt l
    congr 1
    · have h1 : (b.toNat * 2 ^ l.length + bitsToNat l) / 2 ^ l.length = b.toNat := by
        rw [Nat.mul_comm, Nat.mul_add_div (Nat.two_pow_pos _), Nat.div_eq_of_lt hlt]; simp
      rw [h1]; cases b <;> simp
    · rw [← natBits_mod, Nat.mul_comm, Nat.mul_add_mod, Nat.mod_eq_of_lt hlt, ih]

theorem byteBits_byteOfBits (c : Bits) (h : c.length ≤ 8) :
    byteBits (byteOfBits c) = c ++ List.replicate (8 - c.length) false := by
  have hl : (c ++ List.replicate (8 - c.length) false).length = 8 := by simp; omega
  have hlt := bitsToNat_lt (c ++ List.replicate (8 - c.length) false)
  rw [hl] at hlt
  have h8 := natBits_bitsToNat (c ++ List.replicate (8 - c.length) false)
  rw [hl] at h8
  simp only [byteBits, byteOfBits]
  have : (UInt8.ofNat (bitsToNat (c ++ List.replicate (8 - c.length) false))).toNat =
      bitsToNat (c ++ List.replicate (8 - c.length) false) := by
    rw [UInt8.toNat_ofNat']; exact Nat.mod_eq_of_lt hlt
  rw [this, h8]

theorem toBits_packBitsAux (n : Nat) (bs : Bits) (h : bs.length ≤ n) :
    ∃ pad, toBits (packBitsAux n bs) = bs ++ pad := by
  induction n generalizing bs with
  | zero =>
    have : bs = [] := List.eq_nil_of_length_eq_zero (by omega)
    subst this; exact ⟨[], rfl⟩
  | succ n ih =>
    simp only [packBitsAux]
    by_cases hb : bs = []
    · subst hb; exact ⟨[], rfl⟩
    · rw [if_neg hb, toBits_cons]
      have hne : 0 < bs.length := List.length_pos_iff.2 hb
      obtain ⟨pad, hpad⟩ := ih (bs.drop 8) (by simp; omega)
      rw [hpad, byteBits_byteOfBits _ (by simp; omega)]
      by_cases h8 : 8 ≤ bs.length
      · refine ⟨pad, ?_⟩
        have : (List.take 8 bs).length = 8 := by simp; omega
        rw [this]
        simp only [Nat.sub_self, List.replicate_zero, List.append_nil]
        rw [← List.append_assoc, List.take_append_drop]
      · have hd : bs.drop 8 = [] := List.drop_eq_nil_iff.2 (by omega)
        have ht : bs.take 8 = bs := List.take_of_length_le (by omega)
        rw [hd, ht]
        exact ⟨List.replicate (8 - bs.length) false ++ pad, by simp⟩

/-- `packBits` is injective on bit strings of equal length (the length is encoded separately). -/
theorem packBits_inj {a b : Bits} (hl : a.length = b.length) (h : packBits a = packBits b) : a = b := by
  obtain ⟨p1, h1⟩ := toBits_packBitsAux a.length a (Nat.le_refl _)
  obtain ⟨p2, h2⟩ := toBits_packBitsAux b.length b (Nat.le_refl _)
  have e : a ++ p1 = b ++ p2 := by rw [← h1, ← h2]; exact congrArg toBits h
  exact (List.append_inj e hl).1

theorem ofNat_inj_of_lt {a b : Nat} (ha : a < 256) (hb : b < 256) (h : UInt8.ofNat a = UInt8.ofNat b) :
    a = b := by
  have := congrArg UInt8.toNat h
  rw [UInt8.toNat_ofNat', UInt8.toNat_ofNat', Nat.mod_eq_of_lt ha, Nat.mod_eq_of_lt hb] at this
  exact this

theorem u16le_inj {n m : Nat} (hn : n < 2 ^ 16) (hm : m < 2 ^ 16) (h : u16le n = u16le m) : n = m := by
  simp only [u16le, List.cons.injEq, and_true] at h
  have h1 := ofNat_inj_of_lt (Nat.mod_lt _ (by decide)) (Nat.mod_lt _ (by decide)) h.1
  have h2 := ofNat_inj_of_lt (Nat.mod_lt _ (by decide)) (Nat.mod_lt _ (by decide)) h.2
  omega

theorem u32le_inj {n m : Nat} (hn : n < 2 ^ 32) (hm : m < 2 ^ 32) (h : u32le n = u32le m) : n = m := by
  simp only [u32le, List.cons.injEq, and_true] at h
  have h1 := ofNat_inj_of_lt (Nat.mod_lt _ (by decide)) (Nat.mod_lt _ (by decide)) h.1
  have h2 := ofNat_inj_of_lt (Nat.mod_lt _ (by decide)) (Nat.mod_lt _ (by decide)) h.2.1
  have h3 := ofNat_inj_of_lt (Nat.mod_lt _ (by decide)) (Nat.mod_lt _ (by decide)) h.2.2.1
  have h4 := ofNat_inj_of_lt (Nat.mod_lt _ (by decide)) (Nat.mod_lt _ (by decide)) h.2.2.2
  omega

theorem u16le_length (n : Nat) : (u16le n).length = 2 := rfl
theorem u32le_length (n : Nat) : (u32le n).length = 4 := rfl

/-- Leaf encoding is injective (lengths below 2^32). -/
theorem leafEnc_inj {k v k' v' : Bytes} (hk : k.length < 2 ^ 32) (hv : v.length < 2 ^ 32)
    (hk' : k'.length < 2 ^ 32) (hv' : v'.length < 2 ^ 32) (h : leafEnc k v = leafEnc k' v') :
    k = k' ∧ v = v' := by
  simp only [leafEnc, List.cons.injEq, true_and] at h
  have h1 := List.append_inj h (by simp [u32le_length])
  have hkl := u32le_inj hk hk' h1.1
  have h2 := List.append_inj h1.2 hkl
  have h3 := List.append_inj h2.2 (by simp [u32le_length])
  exact ⟨h2.1, h3.2⟩

/-- Internal node encoding is injective (label below 2^16 bits, 32-byte hashes). -/
theorem nodeEnc_inj {lab lab' : Bits} {a b c a' b' c' : Bytes}
    (hl : lab.length < 2 ^ 16) (hl' : lab'.length < 2 ^ 16)
    (ha : a.length = 32) (ha' : a'.length = 32) (hb : b.length = 32) (hb' : b'.length = 32)
    (h : nodeEnc lab a b c = nodeEnc lab' a' b' c') :
    lab = lab' ∧ a = a' ∧ b = b' ∧ c = c' := by
  simp only [nodeEnc, List.cons.injEq, true_and] at h
  have h1 := List.append_inj h (by simp [u16le_length])
  have hll := u16le_inj hl hl' h1.1
  -- total lengths agree, hence the packed labels have the same length
  have hlen := congrArg List.length h1.2
  simp only [List.length_append] at hlen
  have hc : c.length = c'.length ∨ True := Or.inr trivial
  have hp : (packBits lab).length = (packBits lab').length := by
    have e1 : ∀ (n : Nat) (bs : Bits), bs.length ≤ n → (packBitsAux n bs).length = (bs.length + 7) / 8 := by
      intro n
      induction n with
      | zero => intro bs h; have : bs = [] := List.eq_nil_of_length_eq_zero (by omega); subst this; rfl
      | succ n ih =>
        intro bs h
        simp only [packBitsAux]
        by_cases hb : bs = []
        · subst hb; rfl
        · rw [if_neg hb]
          have hne : 0 < bs.length := List.length_pos_iff.2 hb
          simp only [List.length_cons]
          rw [ih _ (by simp; omega)]
          simp only [List.length_drop]
          omega
    simp only [packBits]
    rw [e1 _ _ (Nat.le_refl _), e1 _ _ (Nat.le_refl _), hll]
  have h2 := List.append_inj h1.2 hp
  have h3 := List.append_inj h2.2 (by rw [ha, ha'])
  have h4 := List.append_inj h3.2 (by rw [hb, hb'])
  exact ⟨packBits_inj hll h2.1, h3.1, h4.1, h4.2⟩


theorem leafEnc_ne_nil (k v : Bytes) : leafEnc k v ≠ [] := by simp [leafEnc]
theorem nodeEnc_ne_nil (lab : Bits) (a b c : Bytes) : nodeEnc lab a b c ≠ [] := by simp [nodeEnc]
theorem leafEnc_ne_nodeEnc (k v : Bytes) (lab : Bits) (a b c : Bytes) : leafEnc k v ≠ nodeEnc lab a b c := by
  simp [leafEnc, nodeEnc]

theorem hashLeafOpt_inj {H : Bytes → Bytes} (hinj : Function.Injective H)
    {a b : Option (Bytes × Bytes)}
    (ha : ∀ kv, a = some kv → kv.1.length < 2 ^ 13 ∧ kv.2.length < 2 ^ 32)
    (hb : ∀ kv, b = some kv → kv.1.length < 2 ^ 13 ∧ kv.2.length < 2 ^ 32)
    (h : hashLeafOpt H a = hashLeafOpt H b) : a = b := by
  rcases a with _ | ⟨k, v⟩ <;> rcases b with _ | ⟨k', v'⟩
  · rfl
  · exact absurd (hinj h).symm (leafEnc_ne_nil _ _)
  · exact absurd (hinj h) (leafEnc_ne_nil _ _)
  · have h1 := ha (k, v) rfl
    have h2 := hb (k', v') rfl
    simp only at h1 h2
    have := leafEnc_inj (by omega) h1.2 (by omega) h2.2 (hinj h)
    rw [this.1, this.2]

/-- C02: for an injective hash function with 32-byte output the Merkle hash determines the tree
(within the size bounds of the implementation). -/
theorem hashWith_inj {H : Bytes → Bytes} (hinj : Function.Injective H) (hlen : ∀ x, (H x).length = 32)
    (t1 : Trie) : ∀ t2 : Trie, t1.Bounded → t2.Bounded → hashWith H t1 = hashWith H t2 → t1 = t2 := by
  induction t1 with
  | nil =>
    intro t2 _ _ h
    cases t2 with
    | nil => rfl
    | leaf k v => exact absurd (hinj h).symm (leafEnc_ne_nil _ _)
    | node lab lf l r => exact absurd (hinj h).symm (nodeEnc_ne_nil _ _ _ _)
  | leaf k v =>
    intro t2 b1 b2 h
    cases t2 with
    | nil => exact absurd (hinj h) (leafEnc_ne_nil _ _)
    | leaf k' v' =>
      obtain ⟨h1, h1'⟩ := b1
      obtain ⟨h2, h2'⟩ := b2
      have := leafEnc_inj (by omega) h1' (by omega) h2' (hinj h)
      rw [this.1, this.2]
    | node lab lf l r => exact absurd (hinj h) (leafEnc_ne_nodeEnc _ _ _ _ _ _)
  | node lab lf l r ihl ihr =>
    intro t2 b1 b2 h
    cases t2 with
    | nil => exact absurd (hinj h) (nodeEnc_ne_nil _ _ _ _)
    | leaf k' v' => exact absurd (hinj h).symm (leafEnc_ne_nodeEnc _ _ _ _ _ _)
    | node lab' lf' l' r' =>
      obtain ⟨c1, c2, c3, c4⟩ := b1
      obtain ⟨d1, d2, d3, d4⟩ := b2
      have hlo : ∀ o, (hashLeafOpt H o).length = 32 := by
        intro o; rcases o with _ | ⟨a, b⟩ <;> exact hlen _
      have hh : ∀ t, (hashWith H t).length = 32 := by
        intro t; cases t <;> exact hlen _
      have := nodeEnc_inj c1 d1 (hlo _) (hlo _) (hh _) (hh _) (hinj h)
      obtain ⟨e1, e2, e3, e4⟩ := this
      rw [e1, hashLeafOpt_inj hinj c2 d2 e2, ihl l' c3 d3 e3, ihr r' c4 d4 e4]


/-- Size bounds on the stored keys and values (Go: `Depth` is `uint16`, value length `uint32`). -/
def ContentsBounded (m : List KV) : Prop := ∀ kv ∈ m, kv.1.length < 2 ^ 13 ∧ kv.2.length < 2 ^ 32

/-- A canonical trie whose keys and values are within the bounds has all length fields in range. -/
theorem wfAt_bounded {p : Bits} {t : Trie} (h : WFAt p t) (hb : ContentsBounded t.toList) : t.Bounded := by
  induction t generalizing p with
  | nil => trivial
  | leaf k v => exact hb (k, v) (by simp [Trie.toList])
  | node lab lf l r ihl ihr =>
    have hne := wfAt_toList_ne_nil h (by simp)
    obtain ⟨kv, hkv⟩ := List.exists_mem_of_ne_nil _ hne
    have hp := (wfAt_node_allKeys h kv hkv).length_le
    have hk := (hb kv hkv).1
    rw [toBits_length] at hp
    simp only [List.length_append] at hp
    obtain ⟨hlf, hl, _, hr, _, _⟩ := h
    refine ⟨by omega, ?_, ihl hl ?_, ihr hr ?_⟩
    · intro kv' h'; exact hb kv' (mem_toList_node.2 (Or.inl h'))
    · intro kv' h'; exact hb kv' (mem_toList_node.2 (Or.inr (Or.inl h')))
    · intro kv' h'; exact hb kv' (mem_toList_node.2 (Or.inr (Or.inr h')))

end OasisProofs.Mkvs
