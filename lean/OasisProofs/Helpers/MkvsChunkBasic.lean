import OasisProofs.Helpers.MkvsProofComplete
import OasisModel.Mkvs.Chunk
/-
C12 basics: every chunk of either chunker is the proof the builder emits for some included set (so
the completeness theorem of C04 applies to it), what a restored chunk imports, and the restorer's
pending-set machine.
-/
namespace OasisProofs.MkvsChunk
open OasisModel.Mkvs OasisProofs.Mkvs OasisProofs.MkvsProof

/-! ### chunks are proofs -/

/-- `c` is what `ProofBuilder.Build` (version 0, anchored at the root) emits for some included set. -/
def IsProofOf (root : HTrie) (c : List (Option Bytes)) : Prop := ∃ incl, c = buildFrom 0 incl root

theorem seqChunk_isProof (eh : Bytes) (size : Nat) (root : HTrie) (off : Bytes) :
    IsProofOf root (seqChunk eh size root off).1 := ⟨_, rfl⟩

theorem seqLoop_isProof (eh : Bytes) (size : Nat) (root : HTrie) :
    ∀ (n : Nat) (off : Bytes), ∀ c ∈ seqLoop eh size root n off, IsProofOf root c := by
  intro n
  induction n with
  | zero => intro off c h; simp [seqLoop] at h
  | succ n ih =>
    intro off c h
    simp only [seqLoop] at h
    split at h
    · simp only [List.mem_singleton] at h
      rw [h]; exact seqChunk_isProof _ _ _ _
    · simp only [List.mem_cons] at h
      rcases h with h | h
      · rw [h]; exact seqChunk_isProof _ _ _ _
      · exact ih _ c h

theorem nextChunk_isProof (eh : Bytes) (size : Nat) (root : HTrie) (s : Subtree) :
    IsProofOf root (nextChunk eh size root s).1 := ⟨_, rfl⟩

theorem parLoop_isProof (eh : Bytes) (size threads : Nat) (root : HTrie) :
    ∀ (n : Nat) (pending : List Subtree), ∀ c ∈ parLoop eh size threads root n pending, IsProofOf root c := by
  intro n
  unfold parLoop
  induction n with
  | zero => intro p c h; simp [parLoopF] at h
  | succ n ih =>
    intro p c h
    simp only [parLoopF] at h
    split at h
    · simp at h
    · simp only [parRoundF, List.mem_append, List.mem_map] at h
      rcases h with ⟨x, hx, rfl⟩ | h
      · obtain ⟨t, _, rfl⟩ := hx
        exact ⟨_, rfl⟩
      · exact ih _ c h

/-- Every chunk of the sequential chunker is a version 0 proof for the root. -/
theorem seqChunks_isProof (eh : Bytes) (size : Nat) (root : HTrie) :
    ∀ c ∈ seqChunks eh size root, IsProofOf root c := seqLoop_isProof eh size root _ _

/-- Every chunk of the parallel chunker is a version 0 proof for the root. -/
theorem parChunks_isProof (eh : Bytes) (size threads : Nat) (root : HTrie) :
    ∀ c ∈ parChunks eh size threads root, IsProofOf root c := parLoop_isProof eh size threads root _ _

/-- A chunk verifies against the root (as `restoreChunk` verifies it) when the tree is within the
depth bound of the verifier. -/
theorem isProof_verifies {H : Bytes → Bytes} (hlen : ∀ x, (H x).length = 32) (root : HTrie) (hok : HOK H root)
    (hd : root.ptrDepth ≤ maxProofDepth) (c : List (Option Bytes)) (hc : IsProofOf root c) :
    ∃ s, verifyProof H (root.hash (H [])) { v := 0, untrusted := root.hash (H []), entries := c } = .ok s := by
  obtain ⟨incl, rfl⟩ := hc
  have := verifyProof_build hlen 0 (by omega) incl root hok
  unfold build at this
  rw [this, if_pos (Nat.le_trans (proofDepth_le_ptrDepth _ _ _) hd)]
  exact ⟨_, rfl⟩

/-! ### what a verified chunk imports -/

theorem optLeaf_nodeHashes (H : Bytes → Bytes) (o : Option (Bytes × Bytes)) :
    Trie.nodeHashes H (optLeaf o) = (match o with
      | none => []
      | some (k, v) => [H (leafEnc k v)]) := by
  rcases o with _ | ⟨k, v⟩ <;> rfl

/-- The nodes materialised by a sub-tree of `t` are nodes of `t`. -/
theorem sub_nodeHashes {H : Bytes → Bytes} (s : PT) : ∀ (t : Trie), SubT H s t →
    ∀ h ∈ s.nodeHashes H, h ∈ t.nodeHashes H := by
  induction s with
  | nil => intro t _ h hh; simp [PT.nodeHashes] at hh
  | hash x => intro t _ h hh; simp [PT.nodeHashes] at hh
  | leaf k v =>
    intro t hs h hh
    simp only [SubT] at hs; subst hs
    simpa [PT.nodeHashes, Trie.nodeHashes] using hh
  | node bits label lf l r ihlf ihl ihr =>
    intro t hs h hh
    cases t with
    | nil => exact absurd hs (by simp [SubT])
    | leaf _ _ => exact absurd hs (by simp [SubT])
    | node lab olf tl tr =>
      have hroot := sub_hashOf hs
      obtain ⟨_, _, slf, sl, sr⟩ := hs
      simp only [PT.nodeHashes, List.mem_cons, List.mem_append] at hh
      simp only [Trie.nodeHashes, List.mem_cons, List.mem_append]
      rcases hh with hh | hh | hh | hh
      · left; rw [hh, hroot]
      · right; left
        have := ihlf _ slf h hh
        rw [optLeaf_nodeHashes] at this
        exact this
      · right; right; left; exact ihl _ sl h hh
      · right; right; right; exact ihr _ sr h hh

/-- **A restored chunk imports only nodes of the checkpointed tree** — for ANY chunk bytes that pass
the digest check (honest or not): what `restoreChunk` writes is contained in the node set of
every tree with the checkpoint's root. On error nothing is written (the result carries no database). -/
theorem restoreChunk_sound {H : Bytes → Bytes} (hinj : Function.Injective H) (hlen : ∀ x, (H x).length = 32)
    (T : Trie) (hb : T.Bounded) (db db' : List Bytes) (c : ChunkData)
    (h : restoreChunkM H (hashWith H T) db c = .ok db') :
    ∀ x ∈ db', x ∈ db ∨ x ∈ T.nodeHashes H := by
  unfold restoreChunkM at h
  split at h
  · exact absurd h (by simp)
  · split at h
    · exact absurd h (by simp)
    · next es =>
      split at h
      · exact absurd h (by simp)
      · next s hv =>
        simp only [Except.ok.injEq] at h
        subst h
        intro x hx
        rcases List.mem_append.1 hx with hx | hx
        · exact Or.inr (sub_nodeHashes s T (verifyProof_sub hinj hlen hv hb rfl) x hx)
        · exact Or.inl hx

/-- A chunk whose digest does not match is rejected before anything else happens. -/
theorem restoreChunk_bad_digest (H : Bytes → Bytes) (root : Bytes) (db : List Bytes) (c : ChunkData)
    (h : c.digestOk = false) : restoreChunkM H root db c = .error .corrupted := by
  simp [restoreChunkM, h]

/-- A chunk with the right digest that is not a proof for the root is rejected. -/
theorem restoreChunk_bad_proof (H : Bytes → Bytes) (root : Bytes) (db : List Bytes) (es : List (Option Bytes))
    (e : VErr) (h : verifyProof H root { v := 0, untrusted := root, entries := es } = .error e) :
    restoreChunkM H root db { digestOk := true, entries := some es } = .error .proofFailed := by
  simp [restoreChunkM, h]

/-! ### the restorer machine -/

/-- An event of a restore session. -/
inductive REvent
  | start (n : Nat)
  | abort
  | chunk (idx : Nat) (c : ChunkData)

def rsStep (H : Bytes → Bytes) (root : Bytes) (rs : Restorer) : REvent → Restorer
  | .start n =>
    match rsStart rs n with
    | .ok rs' => rs'
    | .error _ => rs
  | .abort => rsAbort rs
  | .chunk idx c => (rsRestoreChunk H root rs idx c).2

def rsRun (H : Bytes → Bytes) (root : Bytes) (rs : Restorer) (evs : List REvent) : Restorer :=
  evs.foldl (rsStep H root) rs

/-- A failed `RestoreChunk` leaves the database exactly as it was. -/
theorem rsRestoreChunk_error_db (H : Bytes → Bytes) (root : Bytes) (rs : Restorer) (idx : Nat) (c : ChunkData)
    (e : RErr) (h : (rsRestoreChunk H root rs idx c).1 = .error e) :
    (rsRestoreChunk H root rs idx c).2.db = rs.db := by
  unfold rsRestoreChunk at h ⊢
  cases hc : rs.current with
  | none => rfl
  | some n =>
    simp only [hc] at h ⊢
    by_cases h1 : (!rs.pending.contains idx) = true
    · simp only [h1, if_true]
    · have h1' : (!rs.pending.contains idx) = false := by simpa using h1
      simp only [h1', Bool.false_eq_true, if_false] at h ⊢
      by_cases h2 : idx ≥ n
      · simp only [h2, if_true]
      · simp only [h2, if_false] at h ⊢
        cases hr : restoreChunkM H root rs.db c with
        | error e' => cases e' <;> simp [rsAbort]
        | ok db' =>
          rw [hr] at h
          simp only [Bool.false_eq_true, if_false] at h
          split at h <;> exact absurd h (by simp)

/-- The database after a `RestoreChunk` call is the old one or what `restoreChunk` produced. -/
theorem rsRestoreChunk_db (H : Bytes → Bytes) (root : Bytes) (rs : Restorer) (idx : Nat) (c : ChunkData) :
    (rsRestoreChunk H root rs idx c).2.db = rs.db ∨
      restoreChunkM H root rs.db c = .ok (rsRestoreChunk H root rs idx c).2.db := by
  unfold rsRestoreChunk
  cases hc : rs.current with
  | none => exact Or.inl rfl
  | some n =>
    simp only
    by_cases h1 : (!rs.pending.contains idx) = true
    · simp only [h1, if_true]; exact Or.inl trivial
    · have h1' : (!rs.pending.contains idx) = false := by simpa using h1
      simp only [h1', Bool.false_eq_true, if_false]
      by_cases h2 : idx ≥ n
      · simp only [h2, if_true]; exact Or.inl trivial
      · simp only [h2, if_false]
        cases hr : restoreChunkM H root rs.db c with
        | error e' => cases e' <;> simp [rsAbort]
        | ok db' =>
          simp only [Bool.false_eq_true, if_false]
          split <;> exact Or.inr rfl

/-- Whatever happens in a session — any order, duplicates, corrupted or fabricated chunks, aborts
and restarts — the database only ever contains nodes of the checkpointed tree. -/
theorem rsRun_sound {H : Bytes → Bytes} (hinj : Function.Injective H) (hlen : ∀ x, (H x).length = 32)
    (T : Trie) (hb : T.Bounded) (evs : List REvent) :
    ∀ (rs : Restorer), (∀ x ∈ rs.db, x ∈ T.nodeHashes H) →
      ∀ x ∈ (rsRun H (hashWith H T) rs evs).db, x ∈ T.nodeHashes H := by
  induction evs with
  | nil => intro rs h; exact h
  | cons ev evs ih =>
    intro rs h
    apply ih
    cases ev with
    | start n =>
      simp only [rsStep, rsStart]
      cases hc : rs.current <;> simp only <;> exact h
    | abort => exact h
    | chunk idx c =>
      simp only [rsStep]
      rcases rsRestoreChunk_db H (hashWith H T) rs idx c with he | he
      · rw [he]; exact h
      · intro x hx
        rcases restoreChunk_sound hinj hlen T hb rs.db _ c he x hx with h1 | h1
        · exact h x h1
        · exact h1

/-! ### completion: a finished restore has imported every chunk -/

/-- The node hashes chunk `i` of the checkpoint `cs` imports. -/
def imported (H : Bytes → Bytes) (root : Bytes) (cs : List (List (Option Bytes))) (i : Nat) : List Bytes :=
  match cs[i]? with
  | none => []
  | some es =>
    match verifyProof H root { v := 0, untrusted := root, entries := es } with
    | .ok s => s.nodeHashes H
    | .error _ => []

/-- Digest binding (collision resistance of the chunk digest, a hypothesis): bytes whose digest
matches entry `idx` of the metadata decode to the entries of chunk `idx` of the checkpoint. -/
def HonestEvent (cs : List (List (Option Bytes))) : REvent → Prop
  | .chunk idx c => c.digestOk = true → c.entries = cs[idx]?
  | .start n => n = cs.length
  | .abort => True

/-- Invariant of a session: whatever is no longer pending has been imported. -/
def RInv (H : Bytes → Bytes) (root : Bytes) (cs : List (List (Option Bytes))) (rs : Restorer) : Prop :=
  ∀ n, rs.current = some n → n = cs.length ∧
    ∀ i, i < n → i ∈ rs.pending ∨ ∀ x ∈ imported H root cs i, x ∈ rs.db

theorem restoreChunkM_mono {H : Bytes → Bytes} {root : Bytes} {db db' : List Bytes} {c : ChunkData}
    (h : restoreChunkM H root db c = .ok db') : ∀ x ∈ db, x ∈ db' := by
  unfold restoreChunkM at h
  split at h
  · exact absurd h (by simp)
  · split at h
    · exact absurd h (by simp)
    · split at h
      · exact absurd h (by simp)
      · simp only [Except.ok.injEq] at h
        subst h
        intro x hx
        exact List.mem_append_right _ hx

theorem restoreChunkM_imports {H : Bytes → Bytes} {root : Bytes} {db db' : List Bytes} {c : ChunkData}
    (cs : List (List (Option Bytes))) (idx : Nat) (hh : c.digestOk = true → c.entries = cs[idx]?)
    (h : restoreChunkM H root db c = .ok db') : ∀ x ∈ imported H root cs idx, x ∈ db' := by
  unfold restoreChunkM at h
  split at h
  · exact absurd h (by simp)
  · next hd =>
    have hd' : c.digestOk = true := by simpa using hd
    have he := hh hd'
    split at h
    · exact absurd h (by simp)
    · next es hes =>
      split at h
      · exact absurd h (by simp)
      · next s hv =>
        simp only [Except.ok.injEq] at h
        subst h
        intro x hx
        unfold imported at hx
        rw [← he, hes] at hx
        simp only [hv] at hx
        exact List.mem_append_left _ hx

theorem rinv_step {H : Bytes → Bytes} {root : Bytes} {cs : List (List (Option Bytes))} {rs : Restorer}
    (hi : RInv H root cs rs) (ev : REvent) (hev : HonestEvent cs ev) : RInv H root cs (rsStep H root rs ev) := by
  cases ev with
  | start n =>
    simp only [rsStep, rsStart]
    cases hc : rs.current with
    | some m => simp only; exact hi
    | none =>
      simp only
      intro n' hn'
      simp only [Option.some.injEq] at hn'
      subst hn'
      refine ⟨hev, fun i hi' => Or.inl (by simpa using hi')⟩
  | abort =>
    intro n hn
    simp [rsStep, rsAbort] at hn
  | chunk idx c =>
    simp only [rsStep]
    unfold rsRestoreChunk
    cases hc : rs.current with
    | none => simp only; exact hi
    | some n =>
      obtain ⟨hn, hall⟩ := hi n hc
      simp only
      by_cases h1 : (!rs.pending.contains idx) = true
      · simp only [h1, if_true]; exact hi
      · have h1' : (!rs.pending.contains idx) = false := by simpa using h1
        simp only [h1']
        by_cases h2 : idx ≥ n
        · simp only [h2, if_true]; exact hi
        · simp only [h2, if_false]
          cases hr : restoreChunkM H root rs.db c with
          | error e' =>
            cases e' <;> simp only <;> first | exact hi | (intro n' hn'; simp [rsAbort] at hn')
          | ok db' =>
            have hmono := restoreChunkM_mono hr
            have himp := restoreChunkM_imports cs idx hev hr
            simp only [Bool.false_eq_true, if_false]
            split
            · intro n' hn'; simp at hn'
            · intro n' hn'
              simp only [Option.some.injEq] at hn'
              subst hn'
              refine ⟨hn, fun i hi' => ?_⟩
              by_cases hidx : i = idx
              · right; rw [hidx]; exact himp
              · rcases hall i hi' with hp | hd
                · left; simp [hp, hidx]
                · right; intro x hx; exact hmono x (hd x hx)

/-- When `RestoreChunk` reports completion, every chunk of the checkpoint has been imported. -/
theorem rs_done_imported {H : Bytes → Bytes} {root : Bytes} {cs : List (List (Option Bytes))} {rs : Restorer}
    (hi : RInv H root cs rs) (idx : Nat) (c : ChunkData) (hev : c.digestOk = true → c.entries = cs[idx]?)
    (hdone : (rsRestoreChunk H root rs idx c).1 = .ok true) :
    ∀ i, i < cs.length → ∀ x ∈ imported H root cs i, x ∈ (rsRestoreChunk H root rs idx c).2.db := by
  unfold rsRestoreChunk at hdone ⊢
  cases hc : rs.current with
  | none => simp [hc] at hdone
  | some n =>
    obtain ⟨hn, hall⟩ := hi n hc
    simp only [hc] at hdone ⊢
    by_cases h1 : (!rs.pending.contains idx) = true
    · rw [if_pos h1] at hdone; exact absurd hdone (by simp)
    · have h1' : (!rs.pending.contains idx) = false := by simpa using h1
      simp only [h1'] at hdone ⊢
      by_cases h2 : idx ≥ n
      · rw [if_neg (by simp), if_pos h2] at hdone; exact absurd hdone (by simp)
      · simp only [h2, if_false] at hdone ⊢
        cases hr : restoreChunkM H root rs.db c with
        | error e' => rw [hr] at hdone; cases e' <;> simp at hdone
        | ok db' =>
          have hmono := restoreChunkM_mono hr
          have himp := restoreChunkM_imports cs idx hev hr
          rw [hr] at hdone
          simp only [Bool.false_eq_true, if_false] at hdone ⊢
          split at hdone
          · next hemp =>
            rw [if_pos hemp]
            intro i hi' x hx
            simp only
            by_cases hidx : i = idx
            · rw [hidx] at hx; exact himp x hx
            · rcases hall i (by omega) with hp | hd
              · exfalso
                have : i ∈ List.filter (fun x => decide (x ≠ idx)) rs.pending := by simp [hp, hidx]
                rw [List.isEmpty_iff.1 hemp] at this
                simp at this
              · exact hmono x (hd x hx)
          · simp at hdone

end OasisProofs.MkvsChunk
