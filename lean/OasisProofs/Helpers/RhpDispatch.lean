import OasisModel.Rhp.Dispatch
/-
Helpers for `OasisProofs.Props.C16Rhp`: the inductive invariant of the response dispatcher model
(`OasisModel.Rhp.Dispatch`) and its preservation by every step of the code.

The invariant is a token count. For every request id there is at most ONE "right to send into respCh of that
id"; it is created by `call` as the entry in `pendingRequests`, it is moved by the critical section of a
handler (connection.go:392-395: lookup AND delete) from the map into that handler goroutine, and it is used up
by the send (404). The deferred delete of the caller (270-274) destroys it if it is still in the map.
`tok s id` counts the three places where it can be.
-/
namespace OasisProofs.Rhp.Dispatch
open OasisModel.Rhp.Dispatch

/-! ### counting in-flight handlers of one id -/

/-- Number of handler goroutines past their critical section that hold `respCh` of `id`. -/
def cnt (id : Nat) (l : List (Nat × Body)) : Nat := (l.filter (fun p => p.1 == id)).length

@[simp] theorem cnt_nil (id : Nat) : cnt id [] = 0 := rfl

theorem cnt_cons (id : Nat) (p : Nat × Body) (l : List (Nat × Body)) :
    cnt id (p :: l) = (if p.1 = id then 1 else 0) + cnt id l := by
  unfold cnt
  by_cases h : p.1 = id
  · simp [h]; omega
  · simp [h]

theorem cnt_append (id : Nat) (l l' : List (Nat × Body)) : cnt id (l ++ l') = cnt id l + cnt id l' := by
  simp [cnt, List.filter_append]

theorem cnt_eq_zero {id : Nat} {l : List (Nat × Body)} (h : ∀ p ∈ l, p.1 ≠ id) : cnt id l = 0 := by
  induction l with
  | nil => rfl
  | cons p l ih =>
    rw [cnt_cons, if_neg (h p (List.mem_cons_self ..)), ih (fun q hq => h q (List.mem_cons_of_mem _ hq))]

theorem cnt_pos_of_mem {id : Nat} {b : Body} {l : List (Nat × Body)} (h : (id, b) ∈ l) : 0 < cnt id l := by
  induction l with
  | nil => cases h
  | cons p l ih =>
    rw [cnt_cons]
    rcases List.mem_cons.mp h with rfl | h'
    · simp; omega
    · have := ih h'; omega

theorem cnt_erase_self {id : Nat} {b : Body} {l : List (Nat × Body)} (h : (id, b) ∈ l) :
    cnt id (l.erase (id, b)) + 1 = cnt id l := by
  induction l with
  | nil => cases h
  | cons p l ih =>
    by_cases hp : p = (id, b)
    · subst hp; simp [cnt_cons]; omega
    · have hm : (id, b) ∈ l := by
        rcases List.mem_cons.mp h with h' | h'
        · exact absurd h'.symm hp
        · exact h'
      rw [List.erase_cons_tail (by simpa using hp), cnt_cons, cnt_cons, ← ih hm]; omega

theorem cnt_erase_ne {id id' : Nat} {b : Body} (l : List (Nat × Body)) (hne : id' ≠ id) :
    cnt id' (l.erase (id, b)) = cnt id' l := by
  induction l with
  | nil => rfl
  | cons p l ih =>
    by_cases hp : p = (id, b)
    · subst hp; simp [cnt_cons, Ne.symm hne]
    · rw [List.erase_cons_tail (by simpa using hp), cnt_cons, cnt_cons, ih]

theorem mem_del {p : List Nat} {id j : Nat} : j ∈ del p id ↔ j ∈ p ∧ j ≠ id := by
  simp [del]

/-! ### the invariant -/

/-- Where the right to send into `respCh` of `id` can be: in the map, in a handler goroutine, used. -/
def tok (s : State) (id : Nat) : Nat :=
  (if id ∈ s.pending then 1 else 0) + cnt id s.inflight + (s.chans id).sends

structure Inv (s : State) : Prop where
  pend_lt : ∀ id ∈ s.pending, id < s.nextId
  infl_lt : ∀ p ∈ s.inflight, p.1 < s.nextId
  blocked_nil : ∀ id, (s.chans id).blocked = []
  tok_le : ∀ id, tok s id ≤ 1
  buf_le : ∀ id, (s.chans id).buf.length + (if (s.chans id).received then 1 else 0) ≤ (s.chans id).sends
  deliv : ∀ p ∈ s.delivered, p.1 < s.nextId ∧ (s.chans p.1).received = true
  deliv_nodup : (s.delivered.map Prod.fst).Nodup
  wg : s.started = s.returned + s.inflight.length
  pend_wait : ∀ id ∈ s.pending, (s.chans id).gaveUp = false

theorem inv_init : Inv init := by
  refine ⟨?_, ?_, ?_, ?_, ?_, ?_, ?_, ?_, ?_⟩ <;> simp [init, tok]

/-! ### the channel operations -/

theorem send_of_buf_nil {c : Chan} (h : c.buf = []) (b : Body) :
    c.send b = ({ c with buf := [b], sends := c.sends + 1 }, true) := by
  simp [Chan.send, h]

theorem afterRecv_of_blocked_nil {c : Chan} (h : c.blocked = []) (rest : List Body) :
    c.afterRecv rest = ({ c with buf := rest, received := true }, false) := by
  cases c; simp_all [Chan.afterRecv]

/-! ### preservation -/

theorem inv_call {s : State} (h : Inv s) : Inv (call s) := by
  have hn : s.nextId ∉ s.pending := fun hm => Nat.lt_irrefl _ (h.pend_lt _ hm)
  have hc : cnt s.nextId s.inflight = 0 := cnt_eq_zero (fun p hp e => by
    have := h.infl_lt p hp; omega)
  refine ⟨?_, ?_, ?_, ?_, ?_, ?_, h.deliv_nodup, h.wg, ?_⟩
  · intro id hid
    simp only [call, List.mem_cons] at hid ⊢
    rcases hid with rfl | hid
    · omega
    · have := h.pend_lt id hid; omega
  · intro p hp
    have := h.infl_lt p hp
    simp only [call]; omega
  · intro id
    simp only [call]
    split
    · rfl
    · exact h.blocked_nil id
  · intro id
    by_cases e : id = s.nextId
    · subst e; simp [tok, call, hc]
    · have := h.tok_le id
      by_cases hp : id ∈ s.pending <;> simp [tok, call, e, hp] at this ⊢ <;> omega
  · intro id
    simp only [call]
    split
    · simp
    · exact h.buf_le id
  · intro p hp
    have := h.deliv p hp
    have hne : p.1 ≠ s.nextId := by omega
    simp only [call, if_neg hne]
    exact ⟨by omega, this.2⟩
  · intro id hid
    simp only [call, List.mem_cons] at hid ⊢
    rcases hid with rfl | hid
    · simp
    · have hne : id ≠ s.nextId := fun e => hn (e ▸ hid)
      simpa [hne] using h.pend_wait id hid

/-- The send of a handler goroutine that holds the only token of `id`. -/
theorem inv_doSend {s : State} {id : Nat} {b : Body}
    (pend_lt : ∀ j ∈ s.pending, j < s.nextId)
    (infl_lt : ∀ p ∈ s.inflight, p.1 < s.nextId)
    (blocked_nil : ∀ j, (s.chans j).blocked = [])
    (tok_le : ∀ j, tok s j ≤ 1)
    (tok0 : tok s id = 0)
    (buf_le : ∀ j, (s.chans j).buf.length + (if (s.chans j).received then 1 else 0) ≤ (s.chans j).sends)
    (deliv : ∀ p ∈ s.delivered, p.1 < s.nextId ∧ (s.chans p.1).received = true)
    (deliv_nodup : (s.delivered.map Prod.fst).Nodup)
    (wg : s.started = s.returned + s.inflight.length + 1)
    (pend_wait : ∀ j ∈ s.pending, (s.chans j).gaveUp = false) :
    Inv (doSend s id b) := by
  have hs : (s.chans id).sends = 0 := by unfold tok at tok0; omega
  have hbuf : (s.chans id).buf = [] := by
    have := buf_le id
    rw [hs] at this
    exact List.length_eq_zero_iff.mp (by omega)
  have hrecv : (s.chans id).received = false := by
    have := buf_le id
    rw [hs] at this
    cases hr : (s.chans id).received
    · rfl
    · rw [hr] at this; simp at this
  have hsend := send_of_buf_nil hbuf b
  refine ⟨?_, ?_, ?_, ?_, ?_, ?_, ?_, ?_, ?_⟩
  · simpa [doSend, State.setChan] using pend_lt
  · simpa [doSend, State.setChan] using infl_lt
  · intro j
    simp only [doSend, State.setChan, hsend]
    split
    · exact blocked_nil id
    · exact blocked_nil j
  · intro j
    by_cases e : j = id
    · subst e
      unfold tok at tok0 ⊢
      simp only [doSend, State.setChan, hsend, if_true]
      omega
    · have := tok_le j
      by_cases hp : j ∈ s.pending <;> simp [tok, doSend, State.setChan, e, hp] at this ⊢ <;> omega
  · intro j
    by_cases e : j = id
    · subst e
      simp [doSend, State.setChan, hsend, hrecv]
    · have := buf_le j
      simpa [doSend, State.setChan, e] using this
  · intro p hp
    have hp' : p ∈ s.delivered := by simpa [doSend, State.setChan] using hp
    have := deliv p hp'
    refine ⟨by simpa [doSend, State.setChan] using this.1, ?_⟩
    by_cases e : p.1 = id
    · rw [e, hrecv] at this; exact absurd this.2 (by simp)
    · simpa [doSend, State.setChan, e] using this.2
  · simpa [doSend, State.setChan] using deliv_nodup
  · simp only [doSend, State.setChan, hsend, if_true]
    omega
  · intro j hj
    have hj' : j ∈ s.pending := by simpa [doSend, State.setChan] using hj
    have := pend_wait j hj'
    by_cases e : j = id
    · subst e; simpa [doSend, State.setChan, hsend] using this
    · simpa [doSend, State.setChan, e] using this

theorem inv_lookup {s : State} (h : Inv s) (id : Nat) (b : Body) : Inv (lookup s id b) := by
  unfold lookup
  split
  · rename_i hm
    refine ⟨?_, ?_, h.blocked_nil, ?_, h.buf_le, h.deliv, h.deliv_nodup, ?_,
      fun j hj => h.pend_wait j (mem_del.mp hj).1⟩
    · intro j hj
      exact h.pend_lt j (mem_del.mp hj).1
    · intro p hp
      rcases List.mem_append.mp hp with hp | hp
      · exact h.infl_lt p hp
      · have : p = (id, b) := by simpa using hp
        subst this; exact h.pend_lt _ hm
    · intro j
      have := h.tok_le j
      unfold tok at this ⊢
      simp only [cnt_append, cnt_cons, cnt_nil, mem_del]
      by_cases e : j = id
      · subst e; simp [hm] at this ⊢; omega
      · have e' : ¬ id = j := fun h => e h.symm
        simpa [e, e'] using this
    · have := h.wg
      simp only [List.length_append, List.length_singleton]; omega
  · refine ⟨h.pend_lt, h.infl_lt, h.blocked_nil, h.tok_le, h.buf_le, h.deliv, h.deliv_nodup, ?_, h.pend_wait⟩
    have := h.wg
    simp only; omega

theorem inv_send {s : State} (h : Inv s) (id : Nat) (b : Body) : Inv (send s id b) := by
  unfold send
  split
  · rename_i hm
    have hpos := cnt_pos_of_mem hm
    have hself := cnt_erase_self hm
    have htk := h.tok_le id
    apply inv_doSend
    · exact h.pend_lt
    · intro p hp; exact h.infl_lt p (List.mem_of_mem_erase hp)
    · exact h.blocked_nil
    · intro j
      have := h.tok_le j
      unfold tok at this ⊢
      by_cases e : j = id
      · subst e; simp only; omega
      · simp only [cnt_erase_ne _ e]; exact this
    · unfold tok at htk ⊢
      simp only; omega
    · exact h.buf_le
    · exact h.deliv
    · exact h.deliv_nodup
    · have := h.wg
      have hl := List.length_erase_of_mem hm
      have : 0 < s.inflight.length := List.length_pos_of_mem hm
      simp only [hl]; omega
    · exact h.pend_wait
  · exact h

theorem inv_response {s : State} (h : Inv s) (id : Nat) (b : Body) : Inv (response s id b) := by
  unfold response
  split
  · rename_i hm
    have htk := h.tok_le id
    apply inv_doSend
    · intro j hj; exact h.pend_lt j (mem_del.mp hj).1
    · exact h.infl_lt
    · exact h.blocked_nil
    · intro j
      have := h.tok_le j
      unfold tok at this ⊢
      simp only [mem_del]
      by_cases e : j = id
      · subst e; simp [hm] at this ⊢; omega
      · simpa [e] using this
    · unfold tok at htk ⊢
      simp only [mem_del]
      simp [hm] at htk ⊢; omega
    · exact h.buf_le
    · exact h.deliv
    · exact h.deliv_nodup
    · have := h.wg
      simp only; omega
    · intro j hj; exact h.pend_wait j (mem_del.mp hj).1
  · refine ⟨h.pend_lt, h.infl_lt, h.blocked_nil, h.tok_le, h.buf_le, h.deliv, h.deliv_nodup, ?_, h.pend_wait⟩
    have := h.wg
    simp only; omega

theorem inv_giveUp {s : State} (h : Inv s) (id : Nat) : Inv (giveUp s id) := by
  unfold giveUp
  split
  · refine ⟨?_, ?_, ?_, ?_, ?_, ?_, ?_, ?_, ?_⟩
    · intro j hj
      have : j ∈ del s.pending id := by simpa [State.setChan] using hj
      simpa [State.setChan] using h.pend_lt j (mem_del.mp this).1
    · simpa [State.setChan] using h.infl_lt
    · intro j
      simp only [State.setChan]
      split
      · exact h.blocked_nil id
      · exact h.blocked_nil j
    · intro j
      have := h.tok_le j
      unfold tok at this ⊢
      simp only [State.setChan, mem_del]
      by_cases e : j = id
      · subst e; simp at this ⊢; omega
      · simpa [e] using this
    · intro j
      simp only [State.setChan]
      split
      · exact h.buf_le id
      · exact h.buf_le j
    · intro p hp
      have hp' : p ∈ s.delivered := by simpa [State.setChan] using hp
      have := h.deliv p hp'
      simp only [State.setChan]
      refine ⟨this.1, ?_⟩
      split
      · rename_i e; rw [← e]; exact this.2
      · exact this.2
    · simpa [State.setChan] using h.deliv_nodup
    · simpa [State.setChan] using h.wg
    · intro j hj
      have hj' : j ∈ del s.pending id := by simpa [State.setChan] using hj
      have hne := (mem_del.mp hj').2
      simpa [State.setChan, hne] using h.pend_wait j (mem_del.mp hj').1
  · exact h

theorem inv_recv {s : State} (h : Inv s) (id : Nat) : Inv (recv s id) := by
  unfold recv
  split
  · rename_i hw
    split
    · exact h
    · rename_i b rest hbuf
      have hw' : id < s.nextId ∧ (s.chans id).received = false := by
        have : (id < s.nextId ∧ (s.chans id).received = false) ∧ (s.chans id).gaveUp = false := by
          simpa [waiting] using hw
        exact this.1
      have har := afterRecv_of_blocked_nil (h.blocked_nil id) rest
      have hb := h.buf_le id
      rw [hbuf, hw'.2] at hb
      have hsends : 1 ≤ (s.chans id).sends := by simp at hb; omega
      have htk := h.tok_le id
      have hrest : rest = [] := by
        unfold tok at htk
        have : rest.length = 0 := by simp at hb; omega
        exact List.length_eq_zero_iff.mp this
      refine ⟨?_, ?_, ?_, ?_, ?_, ?_, ?_, ?_, ?_⟩
      · intro j hj
        have : j ∈ del s.pending id := by simpa [State.setChan] using hj
        simpa [State.setChan] using h.pend_lt j (mem_del.mp this).1
      · simpa [State.setChan] using h.infl_lt
      · intro j
        simp only [State.setChan, har]
        split
        · exact h.blocked_nil id
        · exact h.blocked_nil j
      · intro j
        have := h.tok_le j
        unfold tok at this ⊢
        simp only [State.setChan, mem_del, har]
        by_cases e : j = id
        · subst e; simp at this ⊢; omega
        · simpa [e] using this
      · intro j
        simp only [State.setChan, har]
        split
        · subst hrest; simpa using hsends
        · exact h.buf_le j
      · intro p hp
        have hp' : p ∈ s.delivered ∨ p = (id, b) := by simpa [State.setChan] using hp
        simp only [State.setChan, har]
        rcases hp' with hp' | rfl
        · have := h.deliv p hp'
          refine ⟨this.1, ?_⟩
          split
          · rfl
          · exact this.2
        · exact ⟨hw'.1, by simp⟩
      · have hnot : id ∉ s.delivered.map Prod.fst := by
          intro hm
          obtain ⟨p, hp, e⟩ := List.mem_map.mp hm
          have := (h.deliv p hp).2
          rw [e, hw'.2] at this; exact absurd this (by simp)
        have hnd := h.deliv_nodup
        simp only [List.map_append, List.map_cons, List.map_nil]
        rw [List.nodup_append]
        refine ⟨hnd, by simp, ?_⟩
        intro a ha c hc
        have : c = id := by simpa using hc
        subst this
        intro e; subst e; exact hnot ha
      · simpa [State.setChan, har] using h.wg
      · intro j hj
        have hj' : j ∈ del s.pending id := by simpa [State.setChan] using hj
        have hne := (mem_del.mp hj').2
        simpa [State.setChan, hne] using h.pend_wait j (mem_del.mp hj').1
  · exact h

theorem inv_step {s : State} (h : Inv s) (st : Step) : Inv (step s st) := by
  cases st with
  | call => exact inv_call h
  | response id b => exact inv_response h id b
  | lookup id b => exact inv_lookup h id b
  | send id b => exact inv_send h id b
  | recv id => exact inv_recv h id
  | giveUp id => exact inv_giveUp h id

theorem inv_run {s : State} (h : Inv s) (steps : List Step) : Inv (run s steps) := by
  induction steps generalizing s with
  | nil => exact h
  | cons st steps ih => exact ih (inv_step h st)

theorem run_append (s : State) (l l' : List Step) : run s (l ++ l') = run (run s l) l' := by
  simp [run, List.foldl_append]

theorem run_cons (s : State) (st : Step) (l : List Step) : run s (st :: l) = run (step s st) l := rfl

/-! ### handlers that run their two actions back to back -/

theorem inflight_step_atomic {s : State} {st : Step} (ha : st.atomic = true) (h : s.inflight = []) :
    (step s st).inflight = [] := by
  cases st with
  | call => simpa [step, call] using h
  | response id b =>
    simp only [step, response]
    split <;> simpa [doSend, State.setChan] using h
  | lookup id b => cases ha
  | send id b => cases ha
  | recv id =>
    simp only [step, recv]
    split
    · split
      · exact h
      · simpa [State.setChan] using h
    · exact h
  | giveUp id =>
    simp only [step, giveUp]
    split
    · simpa [State.setChan] using h
    · exact h

theorem inflight_run_atomic {s : State} {steps : List Step} (ha : ∀ st ∈ steps, st.atomic = true)
    (h : s.inflight = []) : (run s steps).inflight = [] := by
  induction steps generalizing s with
  | nil => exact h
  | cons st steps ih =>
    exact ih (fun x hx => ha x (List.mem_cons_of_mem _ hx))
      (inflight_step_atomic (ha st (List.mem_cons_self ..)) h)

/-! ### an in-flight handler always completes -/

theorem send_inflight {s : State} {id : Nat} {b : Body} (hm : (id, b) ∈ s.inflight) :
    (send s id b).inflight = s.inflight.erase (id, b) := by
  simp [send, hm, doSend, State.setChan]

theorem send_started {s : State} {id : Nat} {b : Body} : (send s id b).started = s.started := by
  unfold send; split <;> simp [doSend, State.setChan]

theorem send_returned {s : State} (h : Inv s) {id : Nat} {b : Body} (hm : (id, b) ∈ s.inflight) :
    (send s id b).returned = s.returned + 1 := by
  have h' := (inv_send h id b).wg
  have hl := List.length_erase_of_mem hm
  have hpos : 0 < s.inflight.length := List.length_pos_of_mem hm
  rw [send_inflight hm, send_started, hl, h.wg] at h'
  omega

theorem drain_aux (l : List (Nat × Body)) :
    ∀ s : State, Inv s → s.inflight = l →
      Inv (l.foldl (fun t p => send t p.1 p.2) s) ∧ (l.foldl (fun t p => send t p.1 p.2) s).inflight = [] ∧
        (l.foldl (fun t p => send t p.1 p.2) s).started = s.started := by
  induction l with
  | nil => intro s h e; exact ⟨h, e, rfl⟩
  | cons p l ih =>
    intro s h e
    have hm : (p.1, p.2) ∈ s.inflight := by rw [e]; exact List.mem_cons_self ..
    have he : (send s p.1 p.2).inflight = l := by
      rw [send_inflight hm, e]; simp
    have := ih (send s p.1 p.2) (inv_send h _ _) he
    rw [send_started] at this
    exact this

/-! ### whose body is it: the frame that took the token owns the channel -/

/-- Every body that is on its way to the caller of `id` is `b`, and the map has no entry for `id`. -/
structure Owns (id : Nat) (b : Body) (s : State) : Prop where
  lt : id < s.nextId
  not_pending : id ∉ s.pending
  infl : ∀ b', (id, b') ∈ s.inflight → b' = b
  buf : ∀ b' ∈ (s.chans id).buf, b' = b
  blocked : ∀ b' ∈ (s.chans id).blocked, b' = b
  deliv : ∀ b', (id, b') ∈ s.delivered → b' = b

/-- What `Inv` says about an id that is still in the map. -/
theorem pending_clean {s : State} (h : Inv s) {id : Nat} (hm : id ∈ s.pending) :
    (∀ b', (id, b') ∉ s.inflight) ∧ (s.chans id).buf = [] ∧ (s.chans id).blocked = [] ∧
      (s.chans id).received = false ∧ (∀ b', (id, b') ∉ s.delivered) := by
  have htk := h.tok_le id
  have hb := h.buf_le id
  unfold tok at htk
  rw [if_pos hm] at htk
  have hs : (s.chans id).sends = 0 := by omega
  have hrecv : (s.chans id).received = false := by
    cases hr : (s.chans id).received
    · rfl
    · rw [hr, hs] at hb; simp at hb
  refine ⟨?_, ?_, h.blocked_nil id, hrecv, ?_⟩
  · intro b' hb'
    have := cnt_pos_of_mem hb'; omega
  · exact List.length_eq_zero_iff.mp (by omega)
  · intro b' hb'
    have := (h.deliv _ hb').2
    rw [hrecv] at this; cases this

theorem owns_doSend {s : State} {id : Nat} {b : Body} {j : Nat} {c : Body}
    (lt : id < s.nextId) (np : id ∉ s.pending)
    (infl : ∀ b', (id, b') ∈ s.inflight → b' = b)
    (buf : ∀ b' ∈ (s.chans id).buf, b' = b) (blocked : ∀ b' ∈ (s.chans id).blocked, b' = b)
    (deliv : ∀ b', (id, b') ∈ s.delivered → b' = b)
    (hc : j = id → c = b) : Owns id b (doSend s j c) := by
  refine ⟨by simpa [doSend, State.setChan] using lt, by simpa [doSend, State.setChan] using np,
    by simpa [doSend, State.setChan] using infl, ?_, ?_, by simpa [doSend, State.setChan] using deliv⟩
  · intro b' hb'
    by_cases e : id = j
    · subst e
      have hcb := hc rfl
      simp only [doSend, State.setChan, if_true, Chan.send] at hb'
      split at hb'
      · rcases List.mem_append.mp hb' with h1 | h1
        · exact buf b' h1
        · have : b' = c := by simpa using h1
          rw [this, hcb]
      · exact buf b' hb'
    · simp only [doSend, State.setChan, if_neg e] at hb'
      exact buf b' hb'
  · intro b' hb'
    by_cases e : id = j
    · subst e
      have hcb := hc rfl
      simp only [doSend, State.setChan, if_true, Chan.send] at hb'
      split at hb'
      · exact blocked b' hb'
      · rcases List.mem_append.mp hb' with h1 | h1
        · exact blocked b' h1
        · have : b' = c := by simpa using h1
          rw [this, hcb]
    · simp only [doSend, State.setChan, if_neg e] at hb'
      exact blocked b' hb'

theorem owns_step {id : Nat} {b : Body} {s : State} (h : Owns id b s) (st : Step) : Owns id b (step s st) := by
  cases st with
  | call =>
    have hne : id ≠ s.nextId := Nat.ne_of_lt h.lt
    refine ⟨?_, ?_, h.infl, ?_, ?_, h.deliv⟩
    · simp only [step, call]; exact Nat.lt_succ_of_lt h.lt
    · simp only [step, call, List.mem_cons, not_or]; exact ⟨hne, h.not_pending⟩
    · simpa [step, call, hne] using h.buf
    · simpa [step, call, hne] using h.blocked
  | response j c =>
    simp only [step, response]
    split
    · rename_i hm
      apply owns_doSend
      · exact h.lt
      · intro hx; exact h.not_pending (mem_del.mp hx).1
      · exact h.infl
      · exact h.buf
      · exact h.blocked
      · exact h.deliv
      · intro e; subst e; exact absurd hm h.not_pending
    · exact ⟨h.lt, h.not_pending, h.infl, h.buf, h.blocked, h.deliv⟩
  | lookup j c =>
    simp only [step, lookup]
    split
    · rename_i hm
      refine ⟨h.lt, ?_, ?_, h.buf, h.blocked, h.deliv⟩
      · intro hx; exact h.not_pending (mem_del.mp hx).1
      · intro b' hb'
        rcases List.mem_append.mp hb' with h1 | h1
        · exact h.infl b' h1
        · have : id = j ∧ b' = c := by simpa using h1
          exact absurd (this.1 ▸ hm) h.not_pending
    · exact ⟨h.lt, h.not_pending, h.infl, h.buf, h.blocked, h.deliv⟩
  | send j c =>
    simp only [step, send]
    split
    · rename_i hm
      apply owns_doSend
      · exact h.lt
      · exact h.not_pending
      · intro b' hb'; exact h.infl b' (List.mem_of_mem_erase hb')
      · exact h.buf
      · exact h.blocked
      · exact h.deliv
      · intro e; subst e; exact h.infl c hm
    · exact h
  | giveUp j =>
    simp only [step, giveUp]
    split
    · refine ⟨h.lt, ?_, h.infl, ?_, ?_, h.deliv⟩
      · intro hx
        have : id ∈ del s.pending j := by simpa [State.setChan] using hx
        exact h.not_pending (mem_del.mp this).1
      · intro b' hb'
        simp only [State.setChan] at hb'
        split at hb'
        · rename_i e; subst e; exact h.buf b' hb'
        · exact h.buf b' hb'
      · intro b' hb'
        simp only [State.setChan] at hb'
        split at hb'
        · rename_i e; subst e; exact h.blocked b' hb'
        · exact h.blocked b' hb'
    · exact h
  | recv j =>
    simp only [step, recv]
    split
    · split
      · exact h
      · rename_i c rest hbuf
        by_cases e : id = j
        · subst e
          have hall : ∀ b' ∈ c :: rest, b' = b := by rw [← hbuf]; exact h.buf
          refine ⟨h.lt, ?_, h.infl, ?_, ?_, ?_⟩
          · intro hx
            have : id ∈ del s.pending id := by simpa [State.setChan] using hx
            exact h.not_pending (mem_del.mp this).1
          · intro b' hb'
            simp only [State.setChan, if_true, Chan.afterRecv] at hb'
            split at hb'
            · exact hall b' (List.mem_cons_of_mem _ hb')
            · rename_i b1 bl hbl
              rcases List.mem_append.mp hb' with h1 | h1
              · exact hall b' (List.mem_cons_of_mem _ h1)
              · have : b' = b1 := by simpa using h1
                exact h.blocked b' (by rw [hbl, this]; exact List.mem_cons_self ..)
          · intro b' hb'
            simp only [State.setChan, if_true, Chan.afterRecv] at hb'
            split at hb'
            · rename_i hbl; simp only at hb'; rw [hbl] at hb'; cases hb'
            · rename_i b1 bl hbl
              exact h.blocked b' (by rw [hbl]; exact List.mem_cons_of_mem _ hb')
          · intro b' hb'
            have : (id, b') ∈ s.delivered ∨ b' = c := by simpa [State.setChan] using hb'
            rcases this with h1 | h1
            · exact h.deliv b' h1
            · rw [h1]; exact hall c (List.mem_cons_self ..)
        · refine ⟨h.lt, ?_, h.infl, ?_, ?_, ?_⟩
          · intro hx
            have : id ∈ del s.pending j := by simpa [State.setChan] using hx
            exact h.not_pending (mem_del.mp this).1
          · simpa [State.setChan, e] using h.buf
          · simpa [State.setChan, e] using h.blocked
          · intro b' hb'
            have : (id, b') ∈ s.delivered ∨ (id = j ∧ b' = c) := by simpa [State.setChan] using hb'
            rcases this with h1 | h1
            · exact h.deliv b' h1
            · exact absurd h1.1 e
    · exact h

theorem owns_run {id : Nat} {b : Body} {s : State} (h : Owns id b s) (steps : List Step) :
    Owns id b (run s steps) := by
  induction steps generalizing s with
  | nil => exact h
  | cons st steps ih => exact ih (owns_step h st)

theorem owns_response {s : State} (h : Inv s) {id : Nat} (hm : id ∈ s.pending) (b : Body) :
    Owns id b (response s id b) := by
  obtain ⟨h1, h2, h3, _, h5⟩ := pending_clean h hm
  simp only [response, if_pos hm]
  apply owns_doSend
  · exact h.pend_lt id hm
  · intro hx; exact (mem_del.mp hx).2 rfl
  · intro b' hb'; exact absurd hb' (h1 b')
  · intro b' hb'; rw [h2] at hb'; cases hb'
  · intro b' hb'; rw [h3] at hb'; cases hb'
  · intro b' hb'; exact absurd hb' (h5 b')
  · intro _; rfl

theorem owns_lookup {s : State} (h : Inv s) {id : Nat} (hm : id ∈ s.pending) (b : Body) :
    Owns id b (lookup s id b) := by
  obtain ⟨h1, h2, h3, _, h5⟩ := pending_clean h hm
  simp only [lookup, if_pos hm]
  refine ⟨h.pend_lt id hm, ?_, ?_, ?_, ?_, ?_⟩
  · intro hx; exact (mem_del.mp hx).2 rfl
  · intro b' hb'
    rcases List.mem_append.mp hb' with h' | h'
    · exact absurd h' (h1 b')
    · have : b' = b := by simpa using h'
      exact this
  · intro b' hb'; rw [h2] at hb'; cases hb'
  · intro b' hb'; rw [h3] at hb'; cases hb'
  · intro b' hb'; exact absurd hb' (h5 b')

/-- A receive right after the frame that found the entry hands exactly its body to the caller. -/
theorem recv_response_delivered {s : State} (h : Inv s) {id : Nat} (hm : id ∈ s.pending) (b : Body) :
    (recv (response s id b) id).delivered = s.delivered ++ [(id, b)] := by
  obtain ⟨_, h2, h3, h4, _⟩ := pending_clean h hm
  have hg := h.pend_wait id hm
  have hl := h.pend_lt id hm
  simp [recv, response, hm, doSend, State.setChan, waiting, Chan.send, Chan.afterRecv, h2, h3, h4, hg, hl]

/-! ### no body is invented: everything on its way to a caller came in a frame that found the entry -/

/-- The body `b'` is on its way to (or was handed to) the caller of `id`. -/
def Holds (s : State) (id : Nat) (b' : Body) : Prop :=
  (id, b') ∈ s.inflight ∨ b' ∈ (s.chans id).buf ∨ b' ∈ (s.chans id).blocked ∨ (id, b') ∈ s.delivered

theorem holds_doSend {s : State} {j : Nat} {c : Body} {id : Nat} {b' : Body}
    (h : Holds (doSend s j c) id b') : Holds s id b' ∨ (id = j ∧ b' = c) := by
  rcases h with h | h | h | h
  · exact .inl (.inl (by simpa [doSend, State.setChan] using h))
  · by_cases e : id = j
    · subst e
      simp only [doSend, State.setChan, if_true, Chan.send] at h
      split at h
      · rcases List.mem_append.mp h with h1 | h1
        · exact .inl (.inr (.inl h1))
        · exact .inr ⟨rfl, by simpa using h1⟩
      · exact .inl (.inr (.inl h))
    · simp only [doSend, State.setChan, if_neg e] at h
      exact .inl (.inr (.inl h))
  · by_cases e : id = j
    · subst e
      simp only [doSend, State.setChan, if_true, Chan.send] at h
      split at h
      · exact .inl (.inr (.inr (.inl h)))
      · rcases List.mem_append.mp h with h1 | h1
        · exact .inl (.inr (.inr (.inl h1)))
        · exact .inr ⟨rfl, by simpa using h1⟩
    · simp only [doSend, State.setChan, if_neg e] at h
      exact .inl (.inr (.inr (.inl h)))
  · exact .inl (.inr (.inr (.inr (by simpa [doSend, State.setChan] using h))))

/-- One step: a body is on its way to the caller of `id` only if it already was, or the step is a frame for
`id` with that body whose critical section found the entry. -/
theorem holds_step {s : State} {st : Step} {id : Nat} {b' : Body} (h : Holds (step s st) id b') :
    Holds s id b' ∨ ((st = .response id b' ∨ st = .lookup id b') ∧ id ∈ s.pending) := by
  cases st with
  | call =>
    left
    rcases h with h | h | h | h
    · exact .inl h
    · simp only [step, call] at h
      split at h
      · cases h
      · exact .inr (.inl h)
    · simp only [step, call] at h
      split at h
      · cases h
      · exact .inr (.inr (.inl h))
    · exact .inr (.inr (.inr h))
  | response j c =>
    simp only [step, response] at h
    split at h
    · rename_i hm
      rcases holds_doSend h with h1 | ⟨e1, e2⟩
      · exact .inl h1
      · subst e1; subst e2; exact .inr ⟨.inl rfl, hm⟩
    · exact .inl h
  | lookup j c =>
    simp only [step, lookup] at h
    split at h
    · rename_i hm
      rcases h with h | h | h | h
      · rcases List.mem_append.mp h with h1 | h1
        · exact .inl (.inl h1)
        · have : id = j ∧ b' = c := by simpa using h1
          obtain ⟨e1, e2⟩ := this
          subst e1; subst e2; exact .inr ⟨.inr rfl, hm⟩
      · exact .inl (.inr (.inl h))
      · exact .inl (.inr (.inr (.inl h)))
      · exact .inl (.inr (.inr (.inr h)))
    · exact .inl h
  | send j c =>
    left
    simp only [step, send] at h
    split at h
    · rename_i hm
      rcases holds_doSend h with h1 | ⟨e1, e2⟩
      · rcases h1 with h1 | h1 | h1 | h1
        · exact .inl (List.mem_of_mem_erase h1)
        · exact .inr (.inl h1)
        · exact .inr (.inr (.inl h1))
        · exact .inr (.inr (.inr h1))
      · subst e1; subst e2; exact .inl hm
    · exact h
  | giveUp j =>
    left
    simp only [step, giveUp] at h
    split at h
    · rcases h with h | h | h | h
      · exact .inl h
      · simp only [State.setChan] at h
        split at h
        · rename_i e; subst e; exact .inr (.inl h)
        · exact .inr (.inl h)
      · simp only [State.setChan] at h
        split at h
        · rename_i e; subst e; exact .inr (.inr (.inl h))
        · exact .inr (.inr (.inl h))
      · exact .inr (.inr (.inr h))
    · exact h
  | recv j =>
    left
    simp only [step, recv] at h
    split at h
    · split at h
      · exact h
      · rename_i c rest hbuf
        rcases h with h | h | h | h
        · exact .inl h
        · simp only [State.setChan] at h
          split at h
          · rename_i e; subst e
            simp only [Chan.afterRecv] at h
            split at h
            · exact .inr (.inl (by rw [hbuf]; exact List.mem_cons_of_mem _ h))
            · rename_i b1 bl hbl
              rcases List.mem_append.mp h with h1 | h1
              · exact .inr (.inl (by rw [hbuf]; exact List.mem_cons_of_mem _ h1))
              · have : b' = b1 := by simpa using h1
                exact .inr (.inr (.inl (by rw [hbl, this]; exact List.mem_cons_self ..)))
          · exact .inr (.inl h)
        · simp only [State.setChan] at h
          split at h
          · rename_i e; subst e
            simp only [Chan.afterRecv] at h
            split at h
            · exact .inr (.inr (.inl h))
            · rename_i b1 bl hbl
              exact .inr (.inr (.inl (by rw [hbl]; exact List.mem_cons_of_mem _ h)))
          · exact .inr (.inr (.inl h))
        · have : (id, b') ∈ s.delivered ∨ (id = j ∧ b' = c) := by simpa [State.setChan] using h
          rcases this with h1 | ⟨e1, e2⟩
          · exact .inr (.inr (.inr h1))
          · subst e1; subst e2
            exact .inr (.inl (by rw [hbuf]; exact List.mem_cons_self ..))
    · exact h

/-- Over a whole history: the frame it came in. -/
theorem holds_run (steps : List Step) : ∀ (s : State) (id : Nat) (b' : Body), Holds (run s steps) id b' →
    Holds s id b' ∨ ∃ pre fr post, steps = pre ++ fr :: post ∧
      (fr = .response id b' ∨ fr = .lookup id b') ∧ id ∈ (run s pre).pending := by
  induction steps with
  | nil => intro s id b' h; exact .inl h
  | cons st steps ih =>
    intro s id b' h
    rcases ih (step s st) id b' h with h1 | ⟨pre, fr, post, e, hfr, hp⟩
    · rcases holds_step h1 with h2 | ⟨hfr, hp⟩
      · exact .inl h2
      · exact .inr ⟨[], st, steps, rfl, hfr, hp⟩
    · exact .inr ⟨st :: pre, fr, post, by rw [e]; rfl, hfr, hp⟩

/-! ### the mutated dispatcher: a parked handler whose caller has already received stays parked -/

/-- The caller of `id` has received and a handler goroutine is parked in `respCh <- body`. -/
def Stuck (id : Nat) (s : State) : Prop :=
  id < s.nextId ∧ (s.chans id).received = true ∧ (s.chans id).blocked ≠ []

theorem stuck_doSend {id : Nat} {s : State} (h : Stuck id s) (j : Nat) (c : Body) (s' : State)
    (hn : s'.nextId = s.nextId) (hc : s'.chans = s.chans) : Stuck id (doSend s' j c) := by
  obtain ⟨h1, h2, h3⟩ := h
  refine ⟨by simpa [doSend, State.setChan, hn] using h1, ?_, ?_⟩
  · simp only [doSend, State.setChan, hc]
    split
    · rename_i e; subst e
      simp only [Chan.send]; split <;> exact h2
    · exact h2
  · simp only [doSend, State.setChan, hc]
    split
    · rename_i e; subst e
      simp only [Chan.send]; split
      · exact h3
      · simp
    · exact h3

theorem not_waiting_of_stuck {id : Nat} {s : State} (h : Stuck id s) : waiting s id = false := by
  simp [waiting, h.2.1]

theorem stuck_step {id : Nat} {s : State} (h : Stuck id s) (st : Step) : Stuck id (step s st) := by
  cases st with
  | call =>
    have hne : id ≠ s.nextId := Nat.ne_of_lt h.1
    refine ⟨?_, ?_, ?_⟩
    · simp only [step, call]; exact Nat.lt_succ_of_lt h.1
    · simpa [step, call, hne] using h.2.1
    · simpa [step, call, hne] using h.2.2
  | response j c =>
    simp only [step, response]
    split
    · exact stuck_doSend h j c _ rfl rfl
    · exact h
  | lookup j c =>
    simp only [step, lookup]
    split <;> exact h
  | send j c =>
    simp only [step, send]
    split
    · exact stuck_doSend h j c _ rfl rfl
    · exact h
  | recv j =>
    simp only [step, recv]
    split
    · rename_i hw
      have hne : id ≠ j := by
        intro e; subst e; rw [not_waiting_of_stuck h] at hw; cases hw
      split
      · exact h
      · refine ⟨h.1, ?_, ?_⟩
        · simpa [State.setChan, hne] using h.2.1
        · simpa [State.setChan, hne] using h.2.2
    · exact h
  | giveUp j =>
    simp only [step, giveUp]
    split
    · rename_i hw
      have hne : id ≠ j := by
        intro e; subst e; rw [not_waiting_of_stuck h] at hw; cases hw
      refine ⟨h.1, ?_, ?_⟩
      · simpa [State.setChan, hne] using h.2.1
      · simpa [State.setChan, hne] using h.2.2
    · exact h

theorem stuck_mstep {id : Nat} {s : State} (h : Stuck id s) (st : MStep) : Stuck id (mstep s st) := by
  cases st with
  | genuine st => exact stuck_step h st
  | responseNoDelete j c =>
    simp only [mstep, responseNoDelete]
    split
    · exact stuck_doSend h j c _ rfl rfl
    · exact h

theorem stuck_mrun {id : Nat} {s : State} (h : Stuck id s) (steps : List MStep) : Stuck id (mrun s steps) := by
  induction steps generalizing s with
  | nil => exact h
  | cons st steps ih => exact ih (stuck_mstep h st)

theorem mrun_append (s : State) (l l' : List MStep) : mrun s (l ++ l') = mrun (mrun s l) l' := by
  simp [mrun, List.foldl_append]

end OasisProofs.Rhp.Dispatch
