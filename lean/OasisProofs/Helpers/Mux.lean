import OasisModel.Mux.Proposal
/-
Helper lemmas for C01 (proposal cache of the ABCI multiplexer): algebra of `run`, noise calls,
step-by-step delivery versus `execBlock`, the cache invariant.
-/
set_option linter.unusedSectionVars false
set_option linter.unusedSimpArgs false

namespace OasisProofs.MuxH
open OasisModel.Mux

variable {St W Tx R Root Hdr LC Ev : Type}
variable [DecidableEq Tx] [DecidableEq Root] [DecidableEq Hdr] [DecidableEq LC] [DecidableEq Ev]

/-! ### `run` -/

theorem run_nil (A : Apps St W Tx R Root Hdr LC Ev) (m : Mux St W Tx R Root Hdr LC Ev) :
    run A m [] = some (m, []) := rfl

theorem run_cons (A : Apps St W Tx R Root Hdr LC Ev) (m : Mux St W Tx R Root Hdr LC Ev)
    (c : Call Tx Root Hdr LC Ev) (cs : List (Call Tx Root Hdr LC Ev)) :
    run A m (c :: cs) =
      (step A m c).bind fun x => (run A x.1 cs).map fun y => (y.1, x.2 :: y.2) := by
  simp only [run]
  cases step A m c with
  | none => rfl
  | some x =>
    obtain ⟨m', r⟩ := x
    simp only [Option.bind_some]
    cases run A m' cs with
    | none => rfl
    | some y => obtain ⟨m'', rs⟩ := y; rfl

theorem run_append (A : Apps St W Tx R Root Hdr LC Ev) (m : Mux St W Tx R Root Hdr LC Ev)
    (xs ys : List (Call Tx Root Hdr LC Ev)) :
    run A m (xs ++ ys) =
      (run A m xs).bind fun x => (run A x.1 ys).map fun y => (y.1, x.2 ++ y.2) := by
  induction xs generalizing m with
  | nil =>
    simp only [List.nil_append, run_nil, Option.bind_some, List.nil_append]
    cases run A m ys with
    | none => rfl
    | some y => rfl
  | cons c cs ih =>
    simp only [List.cons_append, run_cons]
    cases step A m c with
    | none => rfl
    | some x =>
      simp only [Option.bind_some, ih]
      cases run A x.1 cs with
      | none => rfl
      | some z =>
        simp only [Option.bind_some, Option.map_some]
        cases run A z.1 ys with
        | none => rfl
        | some y => simp

theorem run_length (A : Apps St W Tx R Root Hdr LC Ev) (m m' : Mux St W Tx R Root Hdr LC Ev)
    (cs : List (Call Tx Root Hdr LC Ev)) (rs : List (Resp Tx R Root))
    (h : run A m cs = some (m', rs)) : rs.length = cs.length := by
  induction cs generalizing m rs with
  | nil => simp [run] at h; simp [h.2.symm]
  | cons c cs ih =>
    simp only [run] at h
    split at h
    · cases h
    · rename_i m1 r hs
      split at h
      · cases h
      · rename_i m2 rs2 hr
        cases h
        simp [ih _ _ hr]

/-! ### The committed state and the node address only change in `commit` -/

theorem step_canon (A : Apps St W Tx R Root Hdr LC Ev) (m m' : Mux St W Tx R Root Hdr LC Ev)
    (c : Call Tx Root Hdr LC Ev) (r : Resp Tx R Root)
    (h : step A m c = some (m', r)) (hc : c.isCommit = false) :
    m'.canon = m.canon ∧ m'.self = m.self := by
  cases c with
  | prepare b =>
    simp only [step, prepare, Option.some.injEq] at h
    split at h <;> (cases h; exact ⟨rfl, rfl⟩)
  | process hh b =>
    simp only [step, process, Option.some.injEq] at h
    split at h
    · cases h; exact ⟨rfl, rfl⟩
    · split at h <;> (cases h; exact ⟨rfl, rfl⟩)
  | begin hh b =>
    simp only [step, beginBlock] at h
    have fresh : ∀ {x : Option (Mux St W Tx R Root Hdr LC Ev × Resp Tx R Root)},
        x = (match beginOne A m.canon b.hdr b.lc b.ev with
          | none => none
          | some (wk, rb) => some ({ m with prop := some { recd := none, hash := hh, work := some wk, results := none } }, Resp.res rb)) →
        x = some (m', r) → m'.canon = m.canon ∧ m'.self = m.self := by
      intro x hx hx'
      rw [hx] at hx'
      split at hx'
      · cases hx'
      · cases hx'; exact ⟨rfl, rfl⟩
    split at h
    · exact fresh rfl h
    · split at h
      · split at h
        · cases h; exact ⟨rfl, rfl⟩
        · split at h
          · exact fresh rfl h
          · cases h
      · exact fresh rfl h
  | deliver t =>
    simp only [step, deliverTx] at h
    split at h
    · cases h
    · split at h
      · cases h
      · cases h; exact ⟨rfl, rfl⟩
      · split at h
        · cases h
        · split at h
          · cases h
          · cases h; exact ⟨rfl, rfl⟩
  | endBlock =>
    simp only [step, endBlock] at h
    split at h
    · cases h
    · split at h
      · cases h; exact ⟨rfl, rfl⟩
      · cases h
      · split at h
        · cases h
        · split at h
          · cases h
          · cases h; exact ⟨rfl, rfl⟩
  | commit => simp [Call.isCommit] at hc
  | restart => simp only [step, restart, Option.some.injEq] at h; cases h; exact ⟨rfl, rfl⟩
  | checkTx t => simp only [step, Option.some.injEq] at h; cases h; exact ⟨rfl, rfl⟩
  | simulate t => simp only [step, Option.some.injEq] at h; cases h; exact ⟨rfl, rfl⟩
  | query => simp only [step, Option.some.injEq] at h; cases h; exact ⟨rfl, rfl⟩

theorem run_canon (A : Apps St W Tx R Root Hdr LC Ev) (m m' : Mux St W Tx R Root Hdr LC Ev)
    (cs : List (Call Tx Root Hdr LC Ev)) (rs : List (Resp Tx R Root))
    (h : run A m cs = some (m', rs)) (hc : ∀ c ∈ cs, c.isCommit = false) :
    m'.canon = m.canon ∧ m'.self = m.self := by
  induction cs generalizing m rs with
  | nil => simp [run] at h; rw [← h.1]; exact ⟨rfl, rfl⟩
  | cons c cs ih =>
    simp only [run] at h
    split at h
    · cases h
    · rename_i m1 r hs
      split at h
      · cases h
      · rename_i m2 rs2 hr
        cases h
        have h1 := step_canon A m m1 c r hs (hc c (by simp))
        have h2 := ih m1 rs2 hr (fun c' hc' => hc c' (by simp [hc']))
        exact ⟨h2.1.trans h1.1, h2.2.trans h1.2⟩

/-! ### Delivering transactions one ABCI call at a time -/

theorem map_snd_nil {α β : Type} (x : Option (α × List β)) :
    (x.map fun y => (y.1, ([] : List β) ++ y.2)) = x := by
  cases x with
  | none => rfl
  | some y => simp

theorem map_pair_id {α β : Type} (x : Option (α × β)) : (x.map fun y => (y.1, y.2)) = x := by
  cases x with
  | none => rfl
  | some y => rfl

/-- Without cached results the DeliverTx calls compute `deliverAll`. -/
theorem run_delivers_fresh (A : Apps St W Tx R Root Hdr LC Ev) (self : Nat) (canon check : St)
    (recd : Option (Hdr × List (RawTx Tx Root) × LC × Ev)) (hash : Hash) (wk : Work W Root)
    (txs : List (RawTx Tx Root)) (rest : List (Call Tx Root Hdr LC Ev)) :
    run A ⟨self, canon, some ⟨recd, hash, some wk, none⟩, check⟩ (txs.map .deliver ++ rest) =
      match deliverAll A (hash == 0) wk txs with
      | none => none
      | some (wk', rs) =>
        (run A ⟨self, canon, some ⟨recd, hash, some wk', none⟩, check⟩ rest).map
          fun y => (y.1, rs.map Resp.res ++ y.2) := by
  induction txs generalizing wk with
  | nil => simp only [List.map_nil, List.nil_append, deliverAll, map_pair_id]
  | cons t ts ih =>
    simp only [List.map_cons, List.cons_append, run_cons, step, deliverTx, deliverAll]
    cases hd : deliverOne A (hash == 0) wk t with
    | none => rfl
    | some x =>
      obtain ⟨wk1, r⟩ := x
      simp only [Option.bind_some, ih wk1]
      cases deliverAll A (hash == 0) wk1 ts with
      | none => rfl
      | some y =>
        obtain ⟨wk2, rs⟩ := y
        simp only [Option.map_map, List.map_cons, List.cons_append]
        rfl

/-- With cached results the DeliverTx calls pop the queue. -/
theorem run_delivers_cached (A : Apps St W Tx R Root Hdr LC Ev) (self : Nat) (canon check : St)
    (recd : Option (Hdr × List (RawTx Tx Root) × LC × Ev)) (hash : Hash) (work : Option (Work W Root))
    (rb re : R) (rs1 rs2 : List R)
    (txs : List (RawTx Tx Root)) (hlen : rs1.length = txs.length) (rest : List (Call Tx Root Hdr LC Ev)) :
    run A ⟨self, canon, some ⟨recd, hash, work, some (rb, rs1 ++ rs2, re)⟩, check⟩ (txs.map .deliver ++ rest) =
      (run A ⟨self, canon, some ⟨recd, hash, work, some (rb, rs2, re)⟩, check⟩ rest).map
          fun y => (y.1, rs1.map Resp.res ++ y.2) := by
  induction txs generalizing rs1 with
  | nil =>
    have : rs1 = [] := List.length_eq_zero_iff.mp (by simpa using hlen)
    subst this
    simp only [List.map_nil, List.nil_append, map_pair_id]
  | cons t ts ih =>
    cases rs1 with
    | nil => simp at hlen
    | cons r rs1 =>
      simp only [List.length_cons, Nat.add_right_cancel_iff] at hlen
      simp only [List.map_cons, List.cons_append, run_cons, step, deliverTx, Option.bind_some, ih rs1 hlen,
        Option.map_map]
      rfl

omit [DecidableEq Tx] [DecidableEq Root] [DecidableEq Hdr] [DecidableEq LC] [DecidableEq Ev] in
theorem deliverAll_length (A : Apps St W Tx R Root Hdr LC Ev) (he : Bool) (wk wk' : Work W Root)
    (txs : List (RawTx Tx Root)) (rs : List R) (h : deliverAll A he wk txs = some (wk', rs)) :
    rs.length = txs.length := by
  induction txs generalizing wk rs with
  | nil => simp [deliverAll] at h; simp [← h.2]
  | cons t ts ih =>
    simp only [deliverAll] at h
    split at h
    · cases h
    · split at h
      · cases h
      · rename_i wk1 r _ wk2 rs2 hr
        cases h
        simp [ih _ _ hr]

/-- `BeginBlock` takes the execution path on a fresh overlay. -/
def BeginsFresh (m : Mux St W Tx R Root Hdr LC Ev) (h : Hash) : Prop :=
  ∀ p, m.prop = some p → p.hash = h → p.results = none ∧ p.work = none

omit [DecidableEq Tx] [DecidableEq Root] [DecidableEq Hdr] [DecidableEq LC] [DecidableEq Ev] in
theorem beginBlock_fresh (A : Apps St W Tx R Root Hdr LC Ev) (m : Mux St W Tx R Root Hdr LC Ev)
    (h : Hash) (b : Blk Tx Root Hdr LC Ev) (hf : BeginsFresh m h) :
    beginBlock A m h b =
      match beginOne A m.canon b.hdr b.lc b.ev with
      | none => none
      | some (wk, rb) =>
        some ({ m with prop := some { recd := none, hash := h, work := some wk, results := none } }, Resp.res rb) := by
  unfold beginBlock
  cases hp : m.prop with
  | none => cases beginOne A m.canon b.hdr b.lc b.ev <;> rfl
  | some p =>
    simp only
    by_cases hh : p.hash = h
    · obtain ⟨h1, h2⟩ := hf p hp hh
      simp only [hh, h1, h2, beq_self_eq_true, if_true]
      cases beginOne A m.canon b.hdr b.lc b.ev <;> rfl
    · have hne : (p.hash == h) = false := by simp [hh]
      simp only [hne]
      cases beginOne A m.canon b.hdr b.lc b.ev <;> rfl

/-- Final delivery of a block when nothing usable is cached: exactly the executor. -/
theorem run_deliverSeq_fresh (A : Apps St W Tx R Root Hdr LC Ev) (m : Mux St W Tx R Root Hdr LC Ev)
    (h : Hash) (hnz : h ≠ 0) (b : Blk Tx Root Hdr LC Ev) (hf : BeginsFresh m h) :
    run A m (deliverSeq h b) =
      (exec A m.canon b).map fun x =>
        (⟨m.self, A.tree x.1.w, none, A.tree x.1.w⟩, deliverResps A x) := by
  have hz : (h == 0) = false := by simp [hnz]
  simp only [deliverSeq, run_cons, step, beginBlock_fresh A m h b hf, exec, execBlock]
  cases hb : beginOne A m.canon b.hdr b.lc b.ev with
  | none => rfl
  | some x =>
    obtain ⟨wk0, rb⟩ := x
    simp only [Option.bind_some]
    rw [run_delivers_fresh, hz]
    cases hd : deliverAll A false wk0 b.txs with
    | none => rfl
    | some y =>
      obtain ⟨wk1, rds⟩ := y
      simp only [run_cons, step, endBlock, hz]
      cases he : endOne A false wk1 with
      | none => rfl
      | some z =>
        obtain ⟨wk2, re⟩ := z
        simp [commit, run_nil, deliverResps]

/-- Final delivery of a block whose results are cached under its hash. -/
theorem run_deliverSeq_cached (A : Apps St W Tx R Root Hdr LC Ev) (self : Nat) (canon check : St)
    (recd : Option (Hdr × List (RawTx Tx Root) × LC × Ev)) (h : Hash) (wk : Work W Root)
    (rb re : R) (rds : List R) (b : Blk Tx Root Hdr LC Ev) (hlen : rds.length = b.txs.length) :
    run A ⟨self, canon, some ⟨recd, h, some wk, some (rb, rds, re)⟩, check⟩ (deliverSeq h b) =
      some (⟨self, A.tree wk.w, none, A.tree wk.w⟩,
        Resp.res rb :: (rds.map Resp.res ++ [Resp.res re, Resp.appHash (A.root (A.tree wk.w))])) := by
  simp only [deliverSeq, run_cons, step, beginBlock, beq_self_eq_true, if_true, Option.bind_some]
  have := run_delivers_cached A self canon check recd h (some wk) rb re rds [] b.txs hlen
    [Call.endBlock, Call.commit]
  rw [List.append_nil] at this
  rw [this]
  simp [run_cons, step, endBlock, commit, run_nil]

/-! ### What PrepareProposal caches is what a validator computes for the completed block -/

omit [DecidableEq Tx] [DecidableEq Root] [DecidableEq Hdr] [DecidableEq LC] [DecidableEq Ev] in
theorem deliverAll_append (A : Apps St W Tx R Root Hdr LC Ev) (he : Bool) (wk : Work W Root)
    (xs ys : List (RawTx Tx Root)) :
    deliverAll A he wk (xs ++ ys) =
      match deliverAll A he wk xs with
      | none => none
      | some (wk1, rs1) =>
        match deliverAll A he wk1 ys with
        | none => none
        | some (wk2, rs2) => some (wk2, rs1 ++ rs2) := by
  induction xs generalizing wk with
  | nil =>
    simp only [List.nil_append, deliverAll]
    cases deliverAll A he wk ys with
    | none => rfl
    | some y => rfl
  | cons t ts ih =>
    simp only [List.cons_append, deliverAll]
    cases deliverOne A he wk t with
    | none => rfl
    | some x =>
      obtain ⟨wk1, r⟩ := x
      simp only [ih wk1]
      cases deliverAll A he wk1 ts with
      | none => rfl
      | some y =>
        obtain ⟨wk2, rs⟩ := y
        simp only
        cases deliverAll A he wk2 ys with
        | none => rfl
        | some z => rfl

omit [DecidableEq Tx] [DecidableEq Root] [DecidableEq Hdr] [DecidableEq LC] [DecidableEq Ev] in
/-- A list of transactions that executes in proposing mode (empty hash) contains no system
transaction, executes identically under a real hash, and leaves the multiplexer-owned parts of
the block context untouched. -/
theorem deliverAll_true (A : Apps St W Tx R Root Hdr LC Ev) (wk wk' : Work W Root)
    (txs : List (RawTx Tx Root)) (rs : List R) (h : deliverAll A true wk txs = some (wk', rs)) :
    deliverAll A false wk txs = some (wk', rs) ∧ wk'.sys = wk.sys ∧ wk'.proposer = wk.proposer := by
  induction txs generalizing wk rs with
  | nil => simp only [deliverAll, Option.some.injEq, Prod.mk.injEq] at h; obtain ⟨rfl, rfl⟩ := h; simp [deliverAll]
  | cons t ts ih =>
    simp only [deliverAll] at h ⊢
    cases t with
    | sysMeta sg wf body => simp [deliverOne] at h
    | user u =>
      simp only [deliverOne] at h ⊢
      split at h
      · cases h
      · rename_i wk2 rs2 hr
        cases h
        obtain ⟨h1, h2, h3⟩ := ih _ _ hr
        simp only [h1]
        exact ⟨trivial, h2, h3⟩

theorem exec_prepared (A : Apps St W Tx R Root Hdr LC Ev) (s : St) (hdr : Hdr) (lc : LC) (ev : Ev)
    (txs : List (RawTx Tx Root)) (self : Nat) (wk : Work W Root) (rb re : R) (rds : List R)
    (h : execBlock A s true hdr lc ev txs = some (wk, rb, rds, re)) (hself : A.proposer hdr = self) :
    execBlock A s false hdr lc ev (txs ++ [metaTx A self wk]) =
      some ({ wk with sys := [some (A.root (A.tree wk.w), A.evroot wk.w)] }, rb, rds ++ [A.okR], re) := by
  simp only [execBlock] at h ⊢
  cases hb : beginOne A s hdr lc ev with
  | none => simp [hb] at h
  | some x =>
    obtain ⟨wk0, rb0⟩ := x
    simp only [hb] at h ⊢
    have hwk0 : wk0.sys = [] ∧ wk0.proposer = self := by
      simp only [beginOne] at hb
      split at hb
      · cases hb
      · cases hb; exact ⟨rfl, hself⟩
    cases hd : deliverAll A true wk0 txs with
    | none => simp [hd] at h
    | some y =>
      obtain ⟨wk1, rds1⟩ := y
      simp only [hd] at h
      obtain ⟨hd', hsys, hprop⟩ := deliverAll_true A wk0 wk1 txs rds1 hd
      simp only [endOne] at h
      cases he : A.endb wk1.w with
      | none => simp [he] at h
      | some z =>
        obtain ⟨w', re1⟩ := z
        simp only [he, Bool.true_or, if_true, Option.some.injEq, Prod.mk.injEq] at h
        obtain ⟨rfl, rfl, rfl, rfl⟩ := h
        have hp1 : wk1.proposer = self := by rw [hprop]; exact hwk0.2
        have hs1 : wk1.sys = [] := by rw [hsys]; exact hwk0.1
        simp [deliverAll_append, hd', deliverAll, deliverOne, metaTx, hp1, hs1, endOne, he, validate]

theorem exec_results_length (A : Apps St W Tx R Root Hdr LC Ev) (s : St) (he : Bool) (hdr : Hdr) (lc : LC)
    (ev : Ev) (txs : List (RawTx Tx Root)) (wk : Work W Root) (rb re : R) (rds : List R)
    (h : execBlock A s he hdr lc ev txs = some (wk, rb, rds, re)) : rds.length = txs.length := by
  simp only [execBlock] at h
  split at h
  · cases h
  · split at h
    · cases h
    · rename_i hd
      split at h
      · cases h
      · cases h
        exact deliverAll_length A _ _ _ _ _ hd

/-! ### The cache invariant between heights -/

/-- What the environment (CometBFT) guarantees about the calls `cs` of one height. -/
structure Env (A : Apps St W Tx R Root Hdr LC Ev) (hashOf : Blk Tx Root Hdr LC Ev → Hash) (me : Nat)
    (cs : List (Call Tx Root Hdr LC Ev)) : Prop where
  /-- The block hash identifies the block (collision resistance of the header hash). -/
  hinj : ∀ b b', hashOf b = hashOf b' → b = b'
  /-- A real block hash is never empty. -/
  hnz : ∀ b, hashOf b ≠ 0
  /-- ProcessProposal carries the hash of the block it carries. -/
  wf : ∀ h b, Call.process h b ∈ cs → h = hashOf b
  /-- PrepareProposal is only called with the node's own address as proposer. -/
  selfProposer : ∀ b0, Call.prepare b0 ∈ cs → A.proposer b0.hdr = me

def PreparedBy (A : Apps St W Tx R Root Hdr LC Ev) (s : St) (self : Nat) (b0 : Blk Tx Root Hdr LC Ev)
    (wk : Work W Root) (txs : List (RawTx Tx Root)) (res : R × List R × R) : Prop :=
  ∃ rb rds re, execBlock A s true b0.hdr b0.lc b0.ev b0.txs = some (wk, rb, rds, re) ∧
    txs = b0.txs ++ [metaTx A self wk] ∧ res = (rb, rds ++ [A.okR], re)

/-- The proposal cache is either untouched, or holds the executor's results for the block its
hash names; recorded inputs come from a PrepareProposal of this height. -/
def Good (A : Apps St W Tx R Root Hdr LC Ev) (hashOf : Blk Tx Root Hdr LC Ev → Hash)
    (cs : List (Call Tx Root Hdr LC Ev)) (s : St) (self : Nat) (p : Proposal W Tx R Root Hdr LC Ev) : Prop :=
  match p.results with
  | none => p.work = none
  | some res =>
    (∀ hdr txs lc ev, p.recd = some (hdr, txs, lc, ev) →
      ∃ b0 wk, Call.prepare b0 ∈ cs ∧ hdr = b0.hdr ∧ lc = b0.lc ∧ ev = b0.ev ∧ p.work = some wk ∧
        PreparedBy A s self b0 wk txs res) ∧
    (p.hash = 0 ∨ ∃ b wk' wk, p.hash = hashOf b ∧ exec A s b = some (wk', res.1, res.2.1, res.2.2) ∧
      p.work = some wk ∧ wk.w = wk'.w)

def Inv (A : Apps St W Tx R Root Hdr LC Ev) (hashOf : Blk Tx Root Hdr LC Ev → Hash)
    (cs : List (Call Tx Root Hdr LC Ev)) (s : St) (self : Nat) (m : Mux St W Tx R Root Hdr LC Ev) : Prop :=
  m.canon = s ∧ m.self = self ∧ ∀ p, m.prop = some p → Good A hashOf cs s self p

theorem isEqual_recd (p : Proposal W Tx R Root Hdr LC Ev) (hdr : Hdr) (txs : List (RawTx Tx Root)) (lc : LC)
    (ev : Ev) (h : isEqual p hdr txs lc ev = true) : p.recd = some (hdr, txs, lc, ev) := by
  unfold isEqual at h
  split at h
  · cases h
  · rename_i h' t' l' e' hr
    simp only [Bool.and_eq_true, beq_iff_eq] at h
    obtain ⟨⟨⟨rfl, rfl⟩, rfl⟩, rfl⟩ := h
    exact hr

theorem step_pre_inv (A : Apps St W Tx R Root Hdr LC Ev) (hashOf : Blk Tx Root Hdr LC Ev → Hash)
    (cs : List (Call Tx Root Hdr LC Ev)) (s : St) (self : Nat) (env : Env A hashOf self cs)
    (m m' : Mux St W Tx R Root Hdr LC Ev) (c : Call Tx Root Hdr LC Ev) (r : Resp Tx R Root)
    (hc : c ∈ cs) (hpre : c.isPre = true) (hinv : Inv A hashOf cs s self m)
    (hs : step A m c = some (m', r)) : Inv A hashOf cs s self m' := by
  obtain ⟨hcanon, hself, hgood⟩ := hinv
  cases c with
  | prepare b0 =>
    simp only [step, prepare, Option.some.injEq] at hs
    cases he : execBlock A m.canon true b0.hdr b0.lc b0.ev b0.txs with
    | none =>
      simp only [he, Prod.mk.injEq] at hs
      obtain ⟨rfl, _⟩ := hs
      refine ⟨hcanon, hself, ?_⟩
      intro p hp
      simp only [Option.some.injEq] at hp
      subst hp
      simp [Good, freshProposal]
    | some x =>
      obtain ⟨wk, rb, rds, re⟩ := x
      simp only [he, Prod.mk.injEq] at hs
      obtain ⟨rfl, _⟩ := hs
      refine ⟨hcanon, hself, ?_⟩
      intro p hp
      simp only [Option.some.injEq] at hp
      subst hp
      simp only [Good]
      refine ⟨?_, Or.inl trivial⟩
      intro hdr txs lc ev hrec
      simp only [Option.some.injEq, Prod.mk.injEq] at hrec
      obtain ⟨rfl, rfl, rfl, rfl⟩ := hrec
      refine ⟨b0, wk, hc, rfl, rfl, rfl, rfl, rb, rds, re, ?_, ?_, rfl⟩
      · rw [← hcanon]; exact he
      · rw [hself]
  | process h b =>
    have hh : h = hashOf b := env.wf h b hc
    have hz : (h == 0) = false := by simp [hh, env.hnz b]
    simp only [step, process, Option.some.injEq] at hs
    by_cases hr : reusable m b = true
    · simp only [hr, if_true, Prod.mk.injEq] at hs
      obtain ⟨rfl, _⟩ := hs
      refine ⟨hcanon, hself, ?_⟩
      intro p' hp'
      unfold reusable at hr
      cases hp : m.prop with
      | none => simp [hp] at hr
      | some p =>
        simp only [hp, Bool.and_eq_true] at hr
        simp only [hp, Option.map_some, Option.some.injEq] at hp'
        subst hp'
        have hg := hgood p hp
        have hrec := isEqual_recd p b.hdr b.txs b.lc b.ev hr.2
        cases hres : p.results with
        | none => simp [hres] at hr
        | some res =>
          simp only [Good, hres] at hg ⊢
          refine ⟨hg.1, Or.inr ?_⟩
          obtain ⟨b0, wk, hb0, hhdr, hlc, hev, hwork, rb, rds, re, hexec, htxs, hres'⟩ := hg.1 _ _ _ _ hrec
          have := exec_prepared A s b0.hdr b0.lc b0.ev b0.txs self wk rb re rds hexec (env.selfProposer b0 hb0)
          refine ⟨b, { wk with sys := [some (A.root (A.tree wk.w), A.evroot wk.w)] }, wk, hh, ?_, hwork, rfl⟩
          simp only [exec, hhdr, hev, hlc, htxs, this, hres']
    · simp only [hr, hz] at hs
      cases he : execBlock A m.canon false b.hdr b.lc b.ev b.txs with
      | none =>
        simp only [he, Bool.false_eq_true, if_false, Prod.mk.injEq] at hs
        obtain ⟨rfl, _⟩ := hs
        refine ⟨hcanon, hself, ?_⟩
        intro p hp
        simp only [Option.some.injEq] at hp
        subst hp
        simp [Good, freshProposal]
      | some x =>
        obtain ⟨wk, rb, rds, re⟩ := x
        simp only [he, Bool.false_eq_true, if_false, Prod.mk.injEq] at hs
        obtain ⟨rfl, _⟩ := hs
        refine ⟨hcanon, hself, ?_⟩
        intro p hp
        simp only [Option.some.injEq] at hp
        subst hp
        simp only [Good]
        refine ⟨(by intro _ _ _ _ h; cases h), Or.inr ⟨b, wk, wk, hh, ?_, rfl, rfl⟩⟩
        rw [← hcanon]; exact he
  | restart =>
    simp only [step, restart, Option.some.injEq, Prod.mk.injEq] at hs
    obtain ⟨rfl, _⟩ := hs
    exact ⟨hcanon, hself, by intro p hp; cases hp⟩
  | checkTx t =>
    simp only [step, Option.some.injEq, Prod.mk.injEq] at hs
    obtain ⟨rfl, _⟩ := hs
    exact ⟨hcanon, hself, hgood⟩
  | simulate t =>
    simp only [step, Option.some.injEq, Prod.mk.injEq] at hs
    obtain ⟨rfl, _⟩ := hs
    exact ⟨hcanon, hself, hgood⟩
  | query =>
    simp only [step, Option.some.injEq, Prod.mk.injEq] at hs
    obtain ⟨rfl, _⟩ := hs
    exact ⟨hcanon, hself, hgood⟩
  | begin h b => simp [Call.isPre] at hpre
  | deliver t => simp [Call.isPre] at hpre
  | endBlock => simp [Call.isPre] at hpre
  | commit => simp [Call.isPre] at hpre

/-- Undecided-phase calls never fail. -/
theorem step_pre_some (A : Apps St W Tx R Root Hdr LC Ev) (m : Mux St W Tx R Root Hdr LC Ev)
    (c : Call Tx Root Hdr LC Ev) (hpre : c.isPre = true) : ∃ x, step A m c = some x := by
  cases c <;> simp [Call.isPre, step] at hpre ⊢

theorem run_pre_inv (A : Apps St W Tx R Root Hdr LC Ev) (hashOf : Blk Tx Root Hdr LC Ev → Hash)
    (cs : List (Call Tx Root Hdr LC Ev)) (s : St) (self : Nat) (env : Env A hashOf self cs)
    (P : List (Call Tx Root Hdr LC Ev)) (hP : ∀ c ∈ P, c ∈ cs ∧ c.isPre = true)
    (m : Mux St W Tx R Root Hdr LC Ev) (hinv : Inv A hashOf cs s self m) :
    ∃ m' rs, run A m P = some (m', rs) ∧ Inv A hashOf cs s self m' := by
  induction P generalizing m with
  | nil => exact ⟨m, [], rfl, hinv⟩
  | cons c P ih =>
    obtain ⟨x, hx⟩ := step_pre_some A m c (hP c (by simp)).2
    obtain ⟨m1, r⟩ := x
    have hinv1 := step_pre_inv A hashOf cs s self env m m1 c r (hP c (by simp)).1 (hP c (by simp)).2 hinv hx
    obtain ⟨m2, rs, hr, hinv2⟩ := ih (fun c' hc' => hP c' (by simp [hc'])) m1 hinv1
    exact ⟨m2, r :: rs, by simp [run, hx, hr], hinv2⟩

/-- From a state satisfying the invariant, delivering the decided block yields exactly the
executor's state and results — from the cache or by execution. -/
theorem inv_deliver (A : Apps St W Tx R Root Hdr LC Ev) (hashOf : Blk Tx Root Hdr LC Ev → Hash)
    (cs : List (Call Tx Root Hdr LC Ev)) (s : St) (self : Nat)
    (hinj : ∀ b b', hashOf b = hashOf b' → b = b') (hnz : ∀ b, hashOf b ≠ 0)
    (m : Mux St W Tx R Root Hdr LC Ev) (hinv : Inv A hashOf cs s self m) (b : Blk Tx Root Hdr LC Ev) :
    run A m (deliverSeq (hashOf b) b) =
      (exec A s b).map fun x => (⟨self, A.tree x.1.w, none, A.tree x.1.w⟩, deliverResps A x) := by
  obtain ⟨hcanon, hself, hgood⟩ := hinv
  have fresh : BeginsFresh m (hashOf b) →
      run A m (deliverSeq (hashOf b) b) =
        (exec A s b).map fun x => (⟨self, A.tree x.1.w, none, A.tree x.1.w⟩, deliverResps A x) := by
    intro hf
    rw [run_deliverSeq_fresh A m (hashOf b) (hnz b) b hf, hcanon, hself]
  cases hp : m.prop with
  | none => exact fresh (by intro p hp'; rw [hp] at hp'; cases hp')
  | some p =>
    by_cases hh : p.hash = hashOf b
    · have hg := hgood p hp
      cases hres : p.results with
      | none =>
        simp only [Good, hres] at hg
        apply fresh
        intro p' hp' _
        rw [hp] at hp'; cases hp'
        exact ⟨hres, hg⟩
      | some res =>
        simp only [Good, hres] at hg
        rcases hg.2 with h0 | ⟨b', wk', wk, hb', hexec, hwork, hw⟩
        · exact absurd (hh.symm.trans h0) (hnz b)
        · have : b' = b := hinj _ _ (hb'.symm.trans hh)
          subst this
          obtain ⟨rb, rds, re⟩ := res
          have hlen := exec_results_length A s false _ _ _ _ _ _ _ _ hexec
          obtain ⟨mself, mcanon, mprop, mcheck⟩ := m
          obtain ⟨precd, phash, pwork, presults⟩ := p
          simp only at hp hh hres hwork hcanon hself
          subst hp hh hres hwork hcanon hself
          rw [run_deliverSeq_cached A _ _ _ _ _ wk rb re rds b' hlen, hexec]
          simp [deliverResps, hw]
    · apply fresh
      intro p' hp' hh'
      rw [hp] at hp'; cases hp'
      exact absurd hh' hh

/-! ### CheckTx, gas estimation and queries touch nothing block processing reads -/

/-- Everything block processing reads or writes, i.e. all but the CheckTx tree. -/
def core (m : Mux St W Tx R Root Hdr LC Ev) : Nat × St × Option (Proposal W Tx R Root Hdr LC Ev) :=
  (m.self, m.canon, m.prop)

theorem step_noise (A : Apps St W Tx R Root Hdr LC Ev) (m : Mux St W Tx R Root Hdr LC Ev)
    (c : Call Tx Root Hdr LC Ev) (hn : c.isNoise = true) :
    ∃ m' r, step A m c = some (m', r) ∧ core m' = core m := by
  cases c <;> simp [Call.isNoise] at hn
  · exact ⟨_, _, rfl, rfl⟩
  · exact ⟨_, _, rfl, rfl⟩
  · exact ⟨_, _, rfl, rfl⟩

theorem step_core (A : Apps St W Tx R Root Hdr LC Ev) (m1 m2 : Mux St W Tx R Root Hdr LC Ev)
    (hc : core m1 = core m2) (c : Call Tx Root Hdr LC Ev) (hn : c.isNoise = false) :
    (step A m1 c).map (fun x => (core x.1, x.2)) = (step A m2 c).map (fun x => (core x.1, x.2)) := by
  obtain ⟨a1, b1, c1, d1⟩ := m1
  obtain ⟨a2, b2, c2, d2⟩ := m2
  simp only [core, Prod.mk.injEq] at hc
  obtain ⟨rfl, rfl, rfl⟩ := hc
  cases c with
  | prepare b =>
    simp only [step, prepare, Option.map_some, Option.some.injEq]
    split <;> rfl
  | process h b =>
    simp only [step, process, Option.map_some, Option.some.injEq]
    have hr : reusable (⟨a1, b1, c1, d1⟩ : Mux St W Tx R Root Hdr LC Ev) b =
        reusable (⟨a1, b1, c1, d2⟩ : Mux St W Tx R Root Hdr LC Ev) b := rfl
    rw [hr]
    by_cases hre : reusable (⟨a1, b1, c1, d2⟩ : Mux St W Tx R Root Hdr LC Ev) b = true
    · simp only [hre, if_true]; rfl
    · simp only [hre]
      cases execBlock A b1 (h == 0) b.hdr b.lc b.ev b.txs <;> rfl
  | begin h b =>
    simp only [step, beginBlock]
    cases c1 with
    | none => simp only; cases beginOne A b1 b.hdr b.lc b.ev <;> rfl
    | some p =>
      simp only
      split
      · split
        · rfl
        · split
          · cases beginOne A b1 b.hdr b.lc b.ev <;> rfl
          · rfl
      · cases beginOne A b1 b.hdr b.lc b.ev <;> rfl
  | deliver t =>
    simp only [step, deliverTx]
    cases c1 with
    | none => rfl
    | some p =>
      simp only
      split
      · rfl
      · rfl
      · split
        · rfl
        · split <;> rfl
  | endBlock =>
    simp only [step, endBlock]
    cases c1 with
    | none => rfl
    | some p =>
      simp only
      split
      · rfl
      · rfl
      · split
        · rfl
        · split <;> rfl
  | commit =>
    cases c1 with
    | none => rfl
    | some p => rfl
  | restart => rfl
  | checkTx t => simp [Call.isNoise] at hn
  | simulate t => simp [Call.isNoise] at hn
  | query => simp [Call.isNoise] at hn

/-- Removing the CheckTx / simulation / query calls from a trace changes neither the state block
processing sees nor any response to the remaining calls. -/
theorem run_strip (A : Apps St W Tx R Root Hdr LC Ev) (m1 m2 : Mux St W Tx R Root Hdr LC Ev)
    (hc : core m1 = core m2) (cs : List (Call Tx Root Hdr LC Ev)) :
    (run A m1 cs).map (fun x => (core x.1, keepCore cs x.2)) =
      (run A m2 (cs.filter fun c => !c.isNoise)).map (fun x => (core x.1, x.2)) := by
  induction cs generalizing m1 m2 with
  | nil => simp [run, keepCore, hc]
  | cons c cs ih =>
    by_cases hn : c.isNoise = true
    · obtain ⟨m1', r, hs, hc'⟩ := step_noise A m1 c hn
      simp only [List.filter_cons, hn, Bool.not_true, Bool.false_eq_true, if_false, run_cons, hs,
        Option.bind_some, Option.map_map]
      rw [← ih m1' m2 (hc'.trans hc)]
      congr 1
      funext x
      simp [keepCore, hn]
    · have hn' : c.isNoise = false := by simpa using hn
      simp only [List.filter_cons, hn', Bool.not_false, if_true, run_cons]
      have hsc := step_core A m1 m2 hc c hn'
      cases h1 : step A m1 c with
      | none =>
        rw [h1] at hsc
        cases h2 : step A m2 c with
        | none => rfl
        | some y => rw [h2] at hsc; cases hsc
      | some x =>
        rw [h1] at hsc
        cases h2 : step A m2 c with
        | none => rw [h2] at hsc; cases hsc
        | some y =>
          rw [h2] at hsc
          simp only [Option.map_some, Option.some.injEq, Prod.mk.injEq] at hsc
          simp only [Option.bind_some, Option.map_map]
          have := ih x.1 y.1 hsc.1
          cases hr1 : run A x.1 cs with
          | none =>
            rw [hr1] at this
            cases hr2 : run A y.1 (cs.filter fun c => !c.isNoise) with
            | none => rfl
            | some z => rw [hr2] at this; cases this
          | some z1 =>
            rw [hr1] at this
            cases hr2 : run A y.1 (cs.filter fun c => !c.isNoise) with
            | none => rw [hr2] at this; cases this
            | some z2 =>
              rw [hr2] at this
              simp only [Option.map_some, Option.some.injEq, Prod.mk.injEq] at this
              simp [keepCore, hn', this.1, this.2, hsc.2]

end OasisProofs.MuxH
