import OasisProofs.Helpers.PcsLinks
/-
Helper lemmas for C18: the TCB-level selection (`TCBLevel.matches`, `getTCBLevel`, the enclave
level search of the QE identity and of the TDX module identities) against a specification stated
on index sets, independently of the loops of the code; monotonicity in the platform's SVNs; the
masked comparisons of `QEIdentity.verify` bit by bit; the validity window at its boundaries.
-/
namespace OasisProofs.C18
open OasisModel.Pcs

/-! ### the specification of a TCB-level match (Intel SGX/TDX DCAP "TCB level" algorithm) -/

/-- Which TEE TCB SVN indexes step c) compares: all of 0..15 when TEE TCB SVN[1] = 0, and 2..15
otherwise (indexes 0 and 1 — the TDX module's minor and major SVN — are then judged by the TDX
module identity instead). -/
def TdxCompared (t : List Nat) (i : Nat) : Prop := i < 16 ∧ (t.getD 1 0 = 0 ∨ 2 ≤ i)

instance (t : List Nat) (i : Nat) : Decidable (TdxCompared t i) := by
  unfold TdxCompared; exact inferInstance

/-- A platform (SGX component SVNs and PCESVN of the PCK certificate, TEE TCB SVNs of the TD
report for TDX) satisfies every component bound of a TCB level. No loop, no early exit: a
conjunction over the prescribed index sets. -/
def MatchesSpec (l : TcbLevel) (sgx : List Int) (tdx : Option (List Nat)) (pce : Nat) : Prop :=
  (∀ i, i < 16 → l.sgx.getD i 0 ≤ sgx.getD i 0) ∧ l.pcesvn ≤ pce ∧
  ∀ t, tdx = some t → ∀ i, TdxCompared t i → l.tdx.getD i 0 ≤ ((t.getD i 0 : Nat) : Int)

theorem svnLoop_iff (plat lvl : List Int) (i n : Nat) :
    svnLoop plat lvl i n = true ↔ ∀ j, i ≤ j → j < i + n → lvl.getD j 0 ≤ plat.getD j 0 := by
  induction n generalizing i with
  | zero =>
    simp only [svnLoop, true_iff]
    intro j h1 h2; omega
  | succ n ih =>
    simp only [svnLoop]
    split
    · rename_i h
      simp only [Bool.false_eq_true, false_iff]
      intro H
      have := H i (Nat.le_refl _) (by omega)
      omega
    · rename_i h
      rw [ih]
      constructor
      · intro H j h1 h2
        by_cases hj : j = i
        · subst hj; omega
        · exact H j (by omega) (by omega)
      · intro H j h1 h2
        exact H j (by omega) (by omega)

theorem getD_map_ofNat (t : List Nat) (i : Nat) :
    (t.map Int.ofNat).getD i 0 = ((t.getD i 0 : Nat) : Int) := by
  simp only [List.getD_eq_getElem?_getD, List.getElem?_map]
  cases t[i]? <;> simp

theorem tdxOffset_cases (t : List Nat) :
    (t.getD 1 0 = 0 ∧ tdxOffset t = 0) ∨ (t.getD 1 0 ≠ 0 ∧ tdxOffset t = 2) := by
  unfold tdxOffset
  by_cases h : t.getD 1 0 = 0
  · left; refine ⟨h, ?_⟩; rw [h]; rfl
  · right
    have hb : (t.getD 1 0 != 0) = true := by simpa using h
    exact ⟨h, by rw [if_pos hb]⟩

/-- The TDX loop visits exactly the indexes the specification prescribes. -/
theorem tdxLoop_iff (t : List Nat) (lvl : List Int) :
    svnLoop (t.map Int.ofNat) lvl (tdxOffset t) (16 - tdxOffset t) = true ↔
      ∀ i, TdxCompared t i → lvl.getD i 0 ≤ ((t.getD i 0 : Nat) : Int) := by
  rw [svnLoop_iff]
  rcases tdxOffset_cases t with ⟨h0, ho⟩ | ⟨h0, ho⟩
  · rw [ho]
    constructor
    · intro H i ⟨hi, _⟩
      rw [← getD_map_ofNat]; exact H i (by omega) (by omega)
    · intro H j _ h2
      rw [getD_map_ofNat]; exact H j ⟨by omega, Or.inl h0⟩
  · rw [ho]
    constructor
    · intro H i ⟨hi, hc⟩
      rcases hc with hc | hc
      · exact absurd hc h0
      · rw [← getD_map_ofNat]; exact H i hc (by omega)
    · intro H j h1 h2
      rw [getD_map_ofNat]; exact H j ⟨by omega, Or.inr h1⟩

/-- **matches_iff**: the code's `matches` (three loops with early exits and the offset rule)
holds exactly when every compared component of the platform is at least the level's, for exactly
the index set the specification prescribes. -/
theorem matches_iff (l : TcbLevel) (sgx : List Int) (tdx : Option (List Nat)) (pce : Nat) :
    l.matches sgx tdx pce = true ↔ MatchesSpec l sgx tdx pce := by
  unfold TcbLevel.matches MatchesSpec
  by_cases h1 : svnLoop sgx l.sgx 0 16 = true
  · have h1' := (svnLoop_iff sgx l.sgx 0 16).1 h1
    by_cases h2 : pce < l.pcesvn
    · simp only [h1, Bool.not_true, Bool.false_eq_true, if_false, h2, if_true, false_iff]
      intro ⟨_, hp, _⟩; omega
    · simp only [h1, Bool.not_true, Bool.false_eq_true, if_false, h2]
      cases tdx with
      | none =>
        simp only [true_iff]
        exact ⟨fun i hi => h1' i (Nat.zero_le _) (by omega), by omega, fun t ht => by cases ht⟩
      | some t =>
        simp only [tdxLoop_iff]
        constructor
        · intro H
          exact ⟨fun i hi => h1' i (Nat.zero_le _) (by omega), by omega,
            fun t' ht' => by cases ht'; exact H⟩
        · intro ⟨_, _, H⟩
          exact H t rfl
  · have h1f : svnLoop sgx l.sgx 0 16 = false := by simpa using h1
    simp only [h1f, Bool.not_false, if_true, Bool.false_eq_true, false_iff]
    intro ⟨H, _, _⟩
    exact h1 ((svnLoop_iff sgx l.sgx 0 16).2 (fun j _ hj => H j (by omega)))

theorem matches_false_iff (l : TcbLevel) (sgx : List Int) (tdx : Option (List Nat)) (pce : Nat) :
    l.matches sgx tdx pce = false ↔ ¬ MatchesSpec l sgx tdx pce := by
  rw [← matches_iff]; simp

/-! ### first match -/

/-- `find?` returns the first element satisfying the predicate: everything before it fails. -/
theorem find?_first {α : Type} {p : α → Bool} {xs : List α} {x : α} (h : xs.find? p = some x) :
    ∃ pre post, xs = pre ++ x :: post ∧ p x = true ∧ ∀ a ∈ pre, p a = false := by
  induction xs with
  | nil => simp at h
  | cons a as ih =>
    simp only [List.find?_cons] at h
    split at h
    · rename_i hp
      cases h
      exact ⟨[], as, rfl, hp, by simp⟩
    · rename_i hp
      obtain ⟨pre, post, he, hx, hpre⟩ := ih h
      refine ⟨a :: pre, post, by simp [he], hx, ?_⟩
      intro b hb
      rcases List.mem_cons.1 hb with rfl | hb
      · simpa using hp
      · exact hpre b hb

theorem find?_of_first {α : Type} {p : α → Bool} {pre post : List α} {x : α}
    (hx : p x = true) (hpre : ∀ a ∈ pre, p a = false) : (pre ++ x :: post).find? p = some x := by
  induction pre with
  | nil => simp [hx]
  | cons a as ih =>
    have ha : p a = false := hpre a (by simp)
    simp only [List.cons_append, List.find?_cons, ha]
    exact ih (fun b hb => hpre b (by simp [hb]))

/-- If `q` holds wherever `p` does, the first `q`-element is at or before the first `p`-element. -/
theorem find?_mono {α : Type} {p q : α → Bool} (hpq : ∀ a, p a = true → q a = true)
    {xs pre post : List α} {x : α} (he : xs = pre ++ x :: post) (hx : p x = true) :
    ∃ pre' post' y, xs = pre' ++ y :: post' ∧ xs.find? q = some y ∧ pre'.length ≤ pre.length ∧
      (∀ a ∈ pre', q a = false) := by
  subst he
  induction pre with
  | nil =>
    exact ⟨[], post, x, rfl, by simp [hpq x hx], Nat.le_refl _, by simp⟩
  | cons a as ih =>
    by_cases hq : q a = true
    · exact ⟨[], as ++ x :: post, a, rfl, by simp [hq], by simp, by simp⟩
    · obtain ⟨pre', post', y, he, hf, hl, hn⟩ := ih
      have hq' : q a = false := by simpa using hq
      refine ⟨a :: pre', post', y, by simp [he], ?_, by simp; omega, ?_⟩
      · simp only [List.cons_append, List.find?_cons, hq']; exact hf
      · intro b hb
        rcases List.mem_cons.1 hb with rfl | hb
        · exact hq'
        · exact hn b hb

/-- If `q` holds wherever `p` does and nothing satisfies `q`, nothing satisfies `p`. -/
theorem find?_none_mono {α : Type} {p q : α → Bool} (hpq : ∀ a, p a = true → q a = true)
    {xs : List α} (h : xs.find? q = none) : xs.find? p = none := by
  rw [List.find?_eq_none] at h ⊢
  intro a ha hp
  exact h a ha (hpq a hp)

/-! ### monotonicity in the platform's SVNs -/

/-- A platform: what the PCK certificate and the TD report say. -/
structure Plat where
  sgx : List Int
  tdx : Option (List Nat)
  pce : Nat

/-- `p'` is at least `p` in every component (and of the same TEE type). -/
def PlatLE (p p' : Plat) : Prop :=
  (∀ i, p.sgx.getD i 0 ≤ p'.sgx.getD i 0) ∧ p.pce ≤ p'.pce ∧
  match p.tdx, p'.tdx with
  | none, none => True
  | some t, some t' => ∀ i, t.getD i 0 ≤ t'.getD i 0
  | _, _ => False

theorem PlatLE.refl (p : Plat) : PlatLE p p := by
  refine ⟨fun _ => Int.le_refl _, Nat.le_refl _, ?_⟩
  cases p.tdx <;> simp

/-- Raising SVNs keeps every satisfied level satisfied — also across the offset rule: raising
TEE TCB SVN[1] from 0 only removes comparisons. -/
theorem matchesSpec_mono {l : TcbLevel} {p p' : Plat} (hle : PlatLE p p')
    (h : MatchesSpec l p.sgx p.tdx p.pce) : MatchesSpec l p'.sgx p'.tdx p'.pce := by
  obtain ⟨hs, hp, ht⟩ := hle
  obtain ⟨h1, h2, h3⟩ := h
  refine ⟨fun i hi => Int.le_trans (h1 i hi) (hs i), by omega, ?_⟩
  intro t' ht' i hc
  cases hpt : p.tdx with
  | none => rw [hpt, ht'] at ht; exact ht.elim
  | some t =>
    rw [hpt, ht'] at ht
    have hc' : TdxCompared t i := by
      refine ⟨hc.1, ?_⟩
      rcases hc.2 with h0 | h0
      · left; have := ht 1; omega
      · right; exact h0
    have := h3 t hpt i hc'
    have := ht i
    omega

theorem matches_mono {l : TcbLevel} {p p' : Plat} (hle : PlatLE p p')
    (h : l.matches p.sgx p.tdx p.pce = true) : l.matches p'.sgx p'.tdx p'.pce = true :=
  (matches_iff _ _ _ _).2 (matchesSpec_mono hle ((matches_iff _ _ _ _).1 h))

/-! ### enclave levels (QE identity, TDX module identities) -/

theorem enclaveLevel_first {levels : List EnclaveLevel} {svn : Nat} {l : EnclaveLevel}
    (h : enclaveLevel levels svn = some l) :
    ∃ pre post, levels = pre ++ l :: post ∧ l.isvsvn ≤ svn ∧ ∀ a ∈ pre, svn < a.isvsvn := by
  obtain ⟨pre, post, he, hx, hpre⟩ := find?_first h
  refine ⟨pre, post, he, by simpa using hx, ?_⟩
  intro a ha
  have := hpre a ha
  simp only [decide_eq_false_iff_not] at this
  omega

/-! ### masked comparison, bit by bit -/

/-- `report & mask == expected` says exactly: on every bit the mask selects the report has the
expected bit, and the expected value has no bit outside the mask. -/
theorem masked_eq_iff (x m e : Nat) :
    x &&& m = e ↔ ∀ i, (m.testBit i = true → x.testBit i = e.testBit i) ∧
                       (m.testBit i = false → e.testBit i = false) := by
  constructor
  · intro h i
    subst h
    simp only [Nat.testBit_and]
    constructor
    · intro hm; simp [hm]
    · intro hm; simp [hm]
  · intro H
    apply Nat.eq_of_testBit_eq
    intro i
    simp only [Nat.testBit_and]
    obtain ⟨h1, h2⟩ := H i
    cases hm : m.testBit i
    · simp [h2 hm]
    · simp [h1 hm]

/-! ### the validity window at its boundaries -/

theorem windowOK_iff (issue ts : Int) (validity : Nat) :
    windowOK issue ts validity = true ↔ issue ≤ ts ∧ ts ≤ issue + validity * dayNs := by
  unfold windowOK
  simp only [Bool.and_eq_true, decide_eq_true_eq]
  generalize (validity : Int) * dayNs = k
  constructor
  · intro ⟨a, b⟩
    have a' : issue ≤ ts := a
    have b' : ts - issue ≤ k := b
    exact ⟨a', by omega⟩
  · intro ⟨a, b⟩
    have b' : ts - issue ≤ k := by omega
    exact ⟨a, b'⟩

end OasisProofs.C18
