import OasisProofs.Helpers.MkvsChunkBasic
/-
C12, the restorer under concurrent callers: `RestoreChunk` = phase 1 (check, under the lock), import
(outside the lock), phase 2 (bookkeeping, under the lock). The sequential machine is the composition of
the phases; with several calls in flight the database still only receives nodes of the checkpointed
tree; the sequential machine imports an index at most once per session and reports completion exactly
when the last pending index is restored.
-/
namespace OasisProofs.MkvsChunk
open OasisModel.Mkvs OasisProofs.Mkvs OasisProofs.MkvsProof

/-- The sequential `RestoreChunk` is phase 1 followed by import + phase 2 (with nothing in between, the
restore phase 2 finds is the one phase 1 saw). -/
theorem rsRestoreChunk_two_phase (H : Bytes → Bytes) (root : Bytes) (rs : Restorer) (idx : Nat) (c : ChunkData) :
    rsRestoreChunk H root rs idx c =
      (match rsBegin rs idx with
       | .error e => (.error e, rs)
       | .ok seen => rsFinish H root rs idx seen c) := by
  unfold rsRestoreChunk rsBegin rsFinish
  cases hc : rs.current with
  | none => rfl
  | some n =>
    simp only
    by_cases h1 : (!rs.pending.contains idx) = true
    · rw [if_pos h1, if_pos h1]
    · rw [if_neg h1, if_neg h1]
      by_cases h2 : idx ≥ n
      · rw [if_pos h2, if_pos h2]
      · rw [if_neg h2, if_neg h2]
        simp only [hc, Option.isNone_some, bne_self_eq_false, Bool.or_self, Bool.false_eq_true, if_false]

theorem rsFinish_db (H : Bytes → Bytes) (root : Bytes) (rs : Restorer) (idx seen : Nat) (c : ChunkData) :
    (rsFinish H root rs idx seen c).2.db = rs.db ∨
      restoreChunkM H root rs.db c = .ok (rsFinish H root rs idx seen c).2.db := by
  unfold rsFinish
  cases hr : restoreChunkM H root rs.db c with
  | error e => cases e <;> simp [rsAbort]
  | ok db =>
    simp only
    split
    · exact Or.inr rfl
    · split <;> exact Or.inr rfl

/-- **Concurrent sessions are sound**: whatever the interleaving of starts, aborts, first and second
phases of any number of callers, and whatever bytes they carry, the database only ever contains nodes
of the checkpointed tree. -/
theorem cRun_sound {H : Bytes → Bytes} (hinj : Function.Injective H) (hlen : ∀ x, (H x).length = 32)
    (T : Trie) (hb : T.Bounded) (evs : List CEvent) :
    ∀ (s : CState), (∀ x ∈ s.rs.db, x ∈ T.nodeHashes H) →
      ∀ x ∈ (cRun H (hashWith H T) s evs).rs.db, x ∈ T.nodeHashes H := by
  induction evs with
  | nil => intro s h; exact h
  | cons ev evs ih =>
    intro s h
    apply ih
    cases ev with
    | start n =>
      simp only [cStep, rsStart]
      cases hc : s.rs.current <;> simp only <;> exact h
    | abort => exact h
    | «begin» idx =>
      simp only [cStep]
      cases rsBegin s.rs idx <;> exact h
    | finish idx seen c =>
      simp only [cStep]
      split
      · simp only
        rcases rsFinish_db H (hashWith H T) s.rs idx seen c with he | he
        · rw [he]; exact h
        · intro x hx
          rcases restoreChunk_sound hinj hlen T hb s.rs.db _ c he x hx with h1 | h1
          · exact h x h1
          · exact h1
      · exact h

/-- **At most once**: after `RestoreChunk(idx)` succeeded, the index is no longer pending … -/
theorem rs_success_not_pending (H : Bytes → Bytes) (root : Bytes) (rs : Restorer) (idx : Nat) (c : ChunkData)
    (b : Bool) (h : (rsRestoreChunk H root rs idx c).1 = .ok b) :
    idx ∉ (rsRestoreChunk H root rs idx c).2.pending := by
  unfold rsRestoreChunk at h ⊢
  cases hc : rs.current with
  | none => simp [hc] at h
  | some n =>
    simp only [hc] at h ⊢
    by_cases h1 : (!rs.pending.contains idx) = true
    · rw [if_pos h1] at h; exact absurd h (by simp)
    · have h1' : (!rs.pending.contains idx) = false := by simpa using h1
      simp only [h1'] at h ⊢
      by_cases h2 : idx ≥ n
      · rw [if_neg (by simp), if_pos h2] at h; exact absurd h (by simp)
      · simp only [h2, if_false] at h ⊢
        cases hr : restoreChunkM H root rs.db c with
        | error e => rw [hr] at h; cases e <;> simp at h
        | ok db =>
          simp only [Bool.false_eq_true, if_false]
          split <;> simp

/-- … the pending set only shrinks until the next `StartRestore` … -/
theorem rsStep_pending_subset (H : Bytes → Bytes) (root : Bytes) (rs : Restorer) (ev : REvent)
    (hns : ∀ n, ev ≠ .start n) : ∀ i ∈ (rsStep H root rs ev).pending, i ∈ rs.pending := by
  cases ev with
  | start n => exact absurd rfl (hns n)
  | abort => intro i hi; simp [rsStep, rsAbort] at hi
  | chunk idx c =>
    intro i hi
    simp only [rsStep] at hi
    unfold rsRestoreChunk at hi
    cases hc : rs.current with
    | none => simpa [hc] using hi
    | some n =>
      simp only [hc] at hi
      by_cases h1 : (!rs.pending.contains idx) = true
      · rw [if_pos h1] at hi; exact hi
      · rw [if_neg h1] at hi
        by_cases h2 : idx ≥ n
        · rw [if_pos h2] at hi; exact hi
        · rw [if_neg h2] at hi
          cases hr : restoreChunkM H root rs.db c with
          | error e => rw [hr] at hi; cases e <;> simp [rsAbort] at hi <;> exact hi
          | ok db =>
            rw [hr] at hi
            simp only [Bool.false_eq_true, if_false] at hi
            split at hi
            · simp at hi
            · exact (List.mem_filter.1 hi).1

/-- … so a second `RestoreChunk` of the same index in the same session is refused and imports nothing. -/
theorem rs_at_most_once (H : Bytes → Bytes) (root : Bytes) (rs : Restorer) (idx : Nat) (c : ChunkData) (b : Bool)
    (h : (rsRestoreChunk H root rs idx c).1 = .ok b) (evs : List REvent) (hns : ∀ e ∈ evs, ∀ n, e ≠ .start n)
    (c' : ChunkData) :
    let rs' := rsRun H root (rsRestoreChunk H root rs idx c).2 evs
    ((rsRestoreChunk H root rs' idx c').1 = .error .alreadyRestored ∨
     (rsRestoreChunk H root rs' idx c').1 = .error .noRestore) ∧
    (rsRestoreChunk H root rs' idx c').2.db = rs'.db := by
  have hnp := rs_success_not_pending H root rs idx c b h
  have hrun : ∀ (evs : List REvent) (r : Restorer), (∀ e ∈ evs, ∀ n, e ≠ .start n) → idx ∉ r.pending →
      idx ∉ (rsRun H root r evs).pending := by
    intro evs
    induction evs with
    | nil => intro r _ h; exact h
    | cons e es ih =>
      intro r hn h
      exact ih _ (fun e' he' => hn e' (List.mem_cons_of_mem _ he'))
        (fun hi => h (rsStep_pending_subset H root r e (hn e List.mem_cons_self) idx hi))
  have hfin := hrun evs _ hns hnp
  simp only
  generalize rsRun H root (rsRestoreChunk H root rs idx c).2 evs = rs' at hfin ⊢
  unfold rsRestoreChunk
  cases hc : rs'.current with
  | none => exact ⟨Or.inr rfl, rfl⟩
  | some n =>
    have : (!rs'.pending.contains idx) = true := by simpa using hfin
    simp only
    rw [if_pos this]
    exact ⟨Or.inl rfl, rfl⟩

/-- **Completion exactly at the last pending index**: a successful `RestoreChunk(idx)` reports
completion iff no other index is pending. -/
theorem rs_done_iff (H : Bytes → Bytes) (root : Bytes) (rs : Restorer) (idx : Nat) (c : ChunkData) (b : Bool)
    (h : (rsRestoreChunk H root rs idx c).1 = .ok b) : b = true ↔ ∀ i ∈ rs.pending, i = idx := by
  unfold rsRestoreChunk at h
  cases hc : rs.current with
  | none => simp [hc] at h
  | some n =>
    simp only [hc] at h
    by_cases h1 : (!rs.pending.contains idx) = true
    · rw [if_pos h1] at h; exact absurd h (by simp)
    · have h1' : (!rs.pending.contains idx) = false := by simpa using h1
      simp only [h1'] at h
      by_cases h2 : idx ≥ n
      · rw [if_neg (by simp), if_pos h2] at h; exact absurd h (by simp)
      · simp only [h2, if_false] at h
        cases hr : restoreChunkM H root rs.db c with
        | error e => rw [hr] at h; cases e <;> simp at h
        | ok db =>
          rw [hr] at h
          simp only [Bool.false_eq_true, if_false] at h
          split at h
          · next hemp =>
            simp only [Except.ok.injEq] at h
            subst h
            refine ⟨fun _ i hi => ?_, fun _ => rfl⟩
            apply Classical.byContradiction
            intro hne
            have : i ∈ List.filter (fun x => decide (x ≠ idx)) rs.pending := by simp [hi, hne]
            rw [List.isEmpty_iff.1 hemp] at this
            simp at this
          · next hemp =>
            simp only [Except.ok.injEq] at h
            subst h
            refine ⟨fun hf => absurd hf (by simp), fun hall => ?_⟩
            exfalso
            apply hemp
            rw [List.isEmpty_iff]
            apply List.filter_eq_nil_iff.2
            intro i hi
            simp [hall i hi]

/-! ### completion under concurrency -/

/-- Digest binding for the events of a concurrent session. -/
def HonestCEvent (cs : List (List (Option Bytes))) : CEvent → Prop
  | .finish idx _ c => c.digestOk = true → c.entries = cs[idx]?
  | .start n => n = cs.length
  | _ => True

def AllIn (H : Bytes → Bytes) (root : Bytes) (cs : List (List (Option Bytes))) (db : List Bytes) : Prop :=
  ∀ i, i < cs.length → ∀ x ∈ imported H root cs i, x ∈ db

/-- Phase 2 keeps the session invariant and reports completion only when everything is in. -/
theorem rsFinish_inv {H : Bytes → Bytes} {root : Bytes} {cs : List (List (Option Bytes))} {rs : Restorer}
    (hi : RInv H root cs rs) (idx seen : Nat) (c : ChunkData) (hev : c.digestOk = true → c.entries = cs[idx]?) :
    RInv H root cs (rsFinish H root rs idx seen c).2 ∧
    ((rsFinish H root rs idx seen c).1 = .ok true → AllIn H root cs (rsFinish H root rs idx seen c).2.db) := by
  unfold rsFinish
  cases hres : restoreChunkM H root rs.db c with
  | error e =>
    cases e <;> simp only <;>
      first
        | exact ⟨hi, fun h => by simp at h⟩
        | exact ⟨fun n hn => by simp [rsAbort] at hn, fun h => by simp at h⟩
  | ok db' =>
    have hmono := restoreChunkM_mono hres
    have himp := restoreChunkM_imports cs idx hev hres
    simp only
    cases hc : rs.current with
    | none =>
      simp only [Option.isNone_none, Bool.true_or, if_true]
      refine ⟨fun n hn => ?_, fun h => by simp at h⟩
      simp only [hc] at hn
      exact absurd hn (by simp)
    | some n =>
      obtain ⟨hn, hallp⟩ := hi n hc
      simp only [Option.isNone_some, Bool.false_or]
      by_cases hg : (rs.gen != seen) = true
      · rw [if_pos hg]
        refine ⟨?_, fun h => by simp at h⟩
        intro n' hn'
        simp only [hc, Option.some.injEq] at hn'
        subst hn'
        exact ⟨hn, fun i hi' => (hallp i hi').imp id (fun hd x hx => hmono x (hd x hx))⟩
      · rw [if_neg hg]
        split
        · next hemp =>
          have hall' : AllIn H root cs db' := by
            intro i hi' x hx
            by_cases hidx : i = idx
            · rw [hidx] at hx; exact himp x hx
            · rcases hallp i (by omega) with hp | hd
              · exfalso
                have : i ∈ List.filter (fun x => decide (x ≠ idx)) rs.pending := by simp [hp, hidx]
                rw [List.isEmpty_iff.1 hemp] at this
                simp at this
              · exact hmono x (hd x hx)
          exact ⟨fun n' hn' => by simp at hn', fun _ => hall'⟩
        · refine ⟨?_, fun h => by simp at h⟩
          intro n' hn'
          simp only [hc, Option.some.injEq] at hn'
          subst hn'
          refine ⟨hn, fun i hi' => ?_⟩
          by_cases hidx : i = idx
          · right; rw [hidx]; exact himp
          · rcases hallp i hi' with hp | hd
            · left; simp [hp, hidx]
            · right; intro x hx; exact hmono x (hd x hx)

theorem cStep_inv {H : Bytes → Bytes} {root : Bytes} {cs : List (List (Option Bytes))} {s : CState}
    (hi : RInv H root cs s.rs) (ev : CEvent) (hev : HonestCEvent cs ev) :
    RInv H root cs (cStep H root s ev).1.rs ∧
    ((cStep H root s ev).2 = some (.ok true) → AllIn H root cs (cStep H root s ev).1.rs.db) := by
  cases ev with
  | start n =>
    simp only [cStep, rsStart]
    cases hc : s.rs.current with
    | some m => simp only; exact ⟨hi, fun h => by simp at h⟩
    | none =>
      simp only
      refine ⟨?_, fun h => by simp at h⟩
      intro n' hn'
      simp only [Option.some.injEq] at hn'
      subst hn'
      exact ⟨hev, fun i hi' => Or.inl (by simpa using hi')⟩
  | abort =>
    simp only [cStep]
    exact ⟨fun n hn => by simp [rsAbort] at hn, fun h => by simp at h⟩
  | «begin» idx =>
    simp only [cStep]
    cases rsBegin s.rs idx <;> simp only <;> exact ⟨hi, fun h => by simp at h⟩
  | finish idx seen c =>
    simp only [cStep]
    split
    · simp only
      have := rsFinish_inv hi idx seen c hev
      exact ⟨this.1, fun h => this.2 (by simpa using h)⟩
    · exact ⟨hi, fun h => by simp at h⟩

/-- **Completion under concurrency**: for EVERY interleaving of starts, aborts and the two phases of
any number of concurrent callers (honest chunk bytes), whenever a `RestoreChunk` call reports
completion every chunk of the checkpoint has been imported. -/
theorem conc_done_all_in {H : Bytes → Bytes} {root : Bytes} (cs : List (List (Option Bytes))) :
    ∀ (evs : List CEvent) (s : CState), RInv H root cs s.rs → (∀ e ∈ evs, HonestCEvent cs e) →
    ∀ (ev : CEvent), HonestCEvent cs ev →
      (cStep H root (cRun H root s evs) ev).2 = some (.ok true) →
      AllIn H root cs (cStep H root (cRun H root s evs) ev).1.rs.db := by
  intro evs
  induction evs with
  | nil => intro s hi _ ev hev hd; exact (cStep_inv hi ev hev).2 hd
  | cons e es ih =>
    intro s hi hh ev hev hd
    exact ih _ (cStep_inv hi e (hh e List.mem_cons_self)).1
      (fun e' he' => hh e' (List.mem_cons_of_mem _ he')) ev hev hd

/-- Phase 2 reports completion exactly when the call's index was the last pending one (and the restore
it saw is still in progress). -/
theorem rsFinish_done_iff (H : Bytes → Bytes) (root : Bytes) (rs : Restorer) (idx seen : Nat) (c : ChunkData) (b : Bool)
    (h : (rsFinish H root rs idx seen c).1 = .ok b) :
    rs.current.isSome ∧ rs.gen = seen ∧ (b = true ↔ ∀ i ∈ rs.pending, i = idx) := by
  unfold rsFinish at h
  cases hres : restoreChunkM H root rs.db c with
  | error e => rw [hres] at h; cases e <;> simp at h
  | ok db' =>
    rw [hres] at h
    simp only at h
    by_cases hg : (rs.current.isNone || rs.gen != seen) = true
    · rw [if_pos hg] at h; exact absurd h (by simp)
    · rw [if_neg hg] at h
      have hg1 : rs.current.isSome = true := by
        cases hcur : rs.current with
        | none => simp [hcur] at hg
        | some n => rfl
      have hg2 : rs.gen = seen := by
        apply Classical.byContradiction
        intro hne
        apply hg
        simp [hne]
      refine ⟨hg1, hg2, ?_⟩
      split at h
      · next hemp =>
        simp only [Except.ok.injEq] at h
        subst h
        refine ⟨fun _ i hi => ?_, fun _ => rfl⟩
        apply Classical.byContradiction
        intro hne
        have : i ∈ List.filter (fun x => decide (x ≠ idx)) rs.pending := by simp [hi, hne]
        rw [List.isEmpty_iff.1 hemp] at this
        simp at this
      · next hemp =>
        simp only [Except.ok.injEq] at h
        subst h
        refine ⟨fun hf => absurd hf (by simp), fun hall => ?_⟩
        exfalso
        apply hemp
        rw [List.isEmpty_iff]
        apply List.filter_eq_nil_iff.2
        intro i hi
        simp [hall i hi]

end OasisProofs.MkvsChunk
