import OasisProofs.Helpers.MkvsChunkBasic
/-
C12, the restorer under concurrent callers: `RestoreChunk` = phase 1 (check, under the lock), import
(outside the lock), phase 2 (bookkeeping, under the lock). The sequential machine is the composition of
the phases; with several calls in flight the database still only receives nodes of the checkpointed
tree; the sequential machine imports an index at most once per session and reports completion exactly
when the last pending index is restored.
-/
namespace OasisProofs.MkvsChunk
open OasisModel.Mkvs OasisProofs.Mkvs OasisProofs.MkvsProof

/-- The sequential `RestoreChunk` is phase 1 followed by import + phase 2. -/
theorem rsRestoreChunk_two_phase (H : Bytes → Bytes) (root : Bytes) (rs : Restorer) (idx : Nat) (c : ChunkData) :
    rsRestoreChunk H root rs idx c =
      (match rsBegin rs idx with
       | .error e => (.error e, rs)
       | .ok _ => rsFinish H root rs idx c) := by
  unfold rsRestoreChunk rsBegin rsFinish
  cases hc : rs.current with
  | none => rfl
  | some n =>
    simp only
    by_cases h1 : (!rs.pending.contains idx) = true
    · rw [if_pos h1, if_pos h1]
    · rw [if_neg h1, if_neg h1]
      by_cases h2 : idx ≥ n
      · rw [if_pos h2, if_pos h2]
      · rw [if_neg h2, if_neg h2]

theorem rsFinish_db (H : Bytes → Bytes) (root : Bytes) (rs : Restorer) (idx : Nat) (c : ChunkData) :
    (rsFinish H root rs idx c).2.db = rs.db ∨ restoreChunkM H root rs.db c = .ok (rsFinish H root rs idx c).2.db := by
  unfold rsFinish
  cases hr : restoreChunkM H root rs.db c with
  | error e => cases e <;> simp [rsAbort]
  | ok db => simp only; split <;> exact Or.inr rfl

/-- **Concurrent sessions are sound**: whatever the interleaving of starts, aborts, first and second
phases of any number of callers, and whatever bytes they carry, the database only ever contains nodes
of the checkpointed tree. -/
theorem cRun_sound {H : Bytes → Bytes} (hinj : Function.Injective H) (hlen : ∀ x, (H x).length = 32)
    (T : Trie) (hb : T.Bounded) (evs : List CEvent) :
    ∀ (s : CState), (∀ x ∈ s.rs.db, x ∈ T.nodeHashes H) →
      ∀ x ∈ (cRun H (hashWith H T) s evs).rs.db, x ∈ T.nodeHashes H := by
  induction evs with
  | nil => intro s h; exact h
  | cons ev evs ih =>
    intro s h
    apply ih
    cases ev with
    | start n =>
      simp only [cStep, rsStart]
      cases hc : s.rs.current <;> simp only <;> exact h
    | abort => exact h
    | «begin» idx =>
      simp only [cStep]
      cases rsBegin s.rs idx <;> exact h
    | finish idx c =>
      simp only [cStep]
      split
      · simp only
        rcases rsFinish_db H (hashWith H T) s.rs idx c with he | he
        · rw [he]; exact h
        · intro x hx
          rcases restoreChunk_sound hinj hlen T hb s.rs.db _ c he x hx with h1 | h1
          · exact h x h1
          · exact h1
      · exact h

/-- **At most once**: after `RestoreChunk(idx)` succeeded, the index is no longer pending … -/
theorem rs_success_not_pending (H : Bytes → Bytes) (root : Bytes) (rs : Restorer) (idx : Nat) (c : ChunkData)
    (b : Bool) (h : (rsRestoreChunk H root rs idx c).1 = .ok b) :
    idx ∉ (rsRestoreChunk H root rs idx c).2.pending := by
  unfold rsRestoreChunk at h ⊢
  cases hc : rs.current with
  | none => simp [hc] at h
  | some n =>
    simp only [hc] at h ⊢
    by_cases h1 : (!rs.pending.contains idx) = true
    · rw [if_pos h1] at h; exact absurd h (by simp)
    · have h1' : (!rs.pending.contains idx) = false := by simpa using h1
      simp only [h1'] at h ⊢
      by_cases h2 : idx ≥ n
      · rw [if_neg (by simp), if_pos h2] at h; exact absurd h (by simp)
      · simp only [h2, if_false] at h ⊢
        cases hr : restoreChunkM H root rs.db c with
        | error e => rw [hr] at h; cases e <;> simp at h
        | ok db =>
          simp only [Bool.false_eq_true, if_false]
          split <;> simp

/-- … the pending set only shrinks until the next `StartRestore` … -/
theorem rsStep_pending_subset (H : Bytes → Bytes) (root : Bytes) (rs : Restorer) (ev : REvent)
    (hns : ∀ n, ev ≠ .start n) : ∀ i ∈ (rsStep H root rs ev).pending, i ∈ rs.pending := by
  cases ev with
  | start n => exact absurd rfl (hns n)
  | abort => intro i hi; simp [rsStep, rsAbort] at hi
  | chunk idx c =>
    intro i hi
    simp only [rsStep] at hi
    unfold rsRestoreChunk at hi
    cases hc : rs.current with
    | none => simpa [hc] using hi
    | some n =>
      simp only [hc] at hi
      by_cases h1 : (!rs.pending.contains idx) = true
      · rw [if_pos h1] at hi; exact hi
      · rw [if_neg h1] at hi
        by_cases h2 : idx ≥ n
        · rw [if_pos h2] at hi; exact hi
        · rw [if_neg h2] at hi
          cases hr : restoreChunkM H root rs.db c with
          | error e => rw [hr] at hi; cases e <;> simp [rsAbort] at hi <;> exact hi
          | ok db =>
            rw [hr] at hi
            simp only [Bool.false_eq_true, if_false] at hi
            split at hi
            · simp at hi
            · exact (List.mem_filter.1 hi).1

/-- … so a second `RestoreChunk` of the same index in the same session is refused and imports nothing. -/
theorem rs_at_most_once (H : Bytes → Bytes) (root : Bytes) (rs : Restorer) (idx : Nat) (c : ChunkData) (b : Bool)
    (h : (rsRestoreChunk H root rs idx c).1 = .ok b) (evs : List REvent) (hns : ∀ e ∈ evs, ∀ n, e ≠ .start n)
    (c' : ChunkData) :
    let rs' := rsRun H root (rsRestoreChunk H root rs idx c).2 evs
    ((rsRestoreChunk H root rs' idx c').1 = .error .alreadyRestored ∨
     (rsRestoreChunk H root rs' idx c').1 = .error .noRestore) ∧
    (rsRestoreChunk H root rs' idx c').2.db = rs'.db := by
  have hnp := rs_success_not_pending H root rs idx c b h
  have hrun : ∀ (evs : List REvent) (r : Restorer), (∀ e ∈ evs, ∀ n, e ≠ .start n) → idx ∉ r.pending →
      idx ∉ (rsRun H root r evs).pending := by
    intro evs
    induction evs with
    | nil => intro r _ h; exact h
    | cons e es ih =>
      intro r hn h
      exact ih _ (fun e' he' => hn e' (List.mem_cons_of_mem _ he'))
        (fun hi => h (rsStep_pending_subset H root r e (hn e List.mem_cons_self) idx hi))
  have hfin := hrun evs _ hns hnp
  simp only
  generalize rsRun H root (rsRestoreChunk H root rs idx c).2 evs = rs' at hfin ⊢
  unfold rsRestoreChunk
  cases hc : rs'.current with
  | none => exact ⟨Or.inr rfl, rfl⟩
  | some n =>
    have : (!rs'.pending.contains idx) = true := by simpa using hfin
    simp only
    rw [if_pos this]
    exact ⟨Or.inl rfl, rfl⟩

/-- **Completion exactly at the last pending index**: a successful `RestoreChunk(idx)` reports
completion iff no other index is pending. -/
theorem rs_done_iff (H : Bytes → Bytes) (root : Bytes) (rs : Restorer) (idx : Nat) (c : ChunkData) (b : Bool)
    (h : (rsRestoreChunk H root rs idx c).1 = .ok b) : b = true ↔ ∀ i ∈ rs.pending, i = idx := by
  unfold rsRestoreChunk at h
  cases hc : rs.current with
  | none => simp [hc] at h
  | some n =>
    simp only [hc] at h
    by_cases h1 : (!rs.pending.contains idx) = true
    · rw [if_pos h1] at h; exact absurd h (by simp)
    · have h1' : (!rs.pending.contains idx) = false := by simpa using h1
      simp only [h1'] at h
      by_cases h2 : idx ≥ n
      · rw [if_neg (by simp), if_pos h2] at h; exact absurd h (by simp)
      · simp only [h2, if_false] at h
        cases hr : restoreChunkM H root rs.db c with
        | error e => rw [hr] at h; cases e <;> simp at h
        | ok db =>
          rw [hr] at h
          simp only [Bool.false_eq_true, if_false] at h
          split at h
          · next hemp =>
            simp only [Except.ok.injEq] at h
            subst h
            refine ⟨fun _ i hi => ?_, fun _ => rfl⟩
            apply Classical.byContradiction
            intro hne
            have : i ∈ List.filter (fun x => decide (x ≠ idx)) rs.pending := by simp [hi, hne]
            rw [List.isEmpty_iff.1 hemp] at this
            simp at this
          · next hemp =>
            simp only [Except.ok.injEq] at h
            subst h
            refine ⟨fun hf => absurd hf (by simp), fun hall => ?_⟩
            exfalso
            apply hemp
            rw [List.isEmpty_iff]
            apply List.filter_eq_nil_iff.2
            intro i hi
            simp [hall i hi]

/-! ### completion under concurrency, as long as no abort cuts through a call in flight -/

/-- Digest binding for the events of a concurrent session. -/
def HonestCEvent (cs : List (List (Option Bytes))) : CEvent → Prop
  | .finish idx c => c.digestOk = true → c.entries = cs[idx]?
  | .start n => n = cs.length
  | _ => True

/-- The event does not abort or restart the restore while a call is between its phases (an abort is
explicit, or performed by `RestoreChunk` itself when the chunk fails proof verification). -/
def calmStep (H : Bytes → Bytes) (root : Bytes) (s : CState) : CEvent → Prop
  | .abort => s.inflight = []
  | .start _ => s.inflight = []
  | .finish idx c => restoreChunkM H root s.rs.db c = .error .proofFailed → s.inflight.erase idx = []
  | .begin _ => True

def Calm (H : Bytes → Bytes) (root : Bytes) : CState → List CEvent → Prop
  | _, [] => True
  | s, e :: es => calmStep H root s e ∧ Calm H root (cStep H root s e).1 es

def AllIn (H : Bytes → Bytes) (root : Bytes) (cs : List (List (Option Bytes))) (db : List Bytes) : Prop :=
  ∀ i, i < cs.length → ∀ x ∈ imported H root cs i, x ∈ db

/-- Invariant of a calm concurrent session. -/
def CInv (H : Bytes → Bytes) (root : Bytes) (cs : List (List (Option Bytes))) (s : CState) : Prop :=
  RInv H root cs s.rs ∧ (s.rs.current = none → s.inflight ≠ [] → AllIn H root cs s.rs.db)

theorem cinv_step {H : Bytes → Bytes} {root : Bytes} {cs : List (List (Option Bytes))} {s : CState}
    (hi : CInv H root cs s) (ev : CEvent) (hev : HonestCEvent cs ev) (hcalm : calmStep H root s ev) :
    CInv H root cs (cStep H root s ev).1 ∧
    ((cStep H root s ev).2 = some (.ok true) → AllIn H root cs (cStep H root s ev).1.rs.db) := by
  obtain ⟨hr, hb⟩ := hi
  cases ev with
  | start n =>
    simp only [cStep, rsStart]
    cases hc : s.rs.current with
    | some m => simp only; exact ⟨⟨hr, hb⟩, fun h => by simp at h⟩
    | none =>
      simp only
      refine ⟨⟨?_, fun h => by simp at h⟩, fun h => by simp at h⟩
      intro n' hn'
      simp only [Option.some.injEq] at hn'
      subst hn'
      exact ⟨hev, fun i hi' => Or.inl (by simpa using hi')⟩
  | abort =>
    simp only [cStep]
    refine ⟨⟨fun n hn => by simp [rsAbort] at hn, fun _ hne => absurd hcalm hne⟩, fun h => by simp at h⟩
  | «begin» idx =>
    simp only [cStep]
    cases hbg : rsBegin s.rs idx with
    | error e => simp only; exact ⟨⟨hr, hb⟩, fun h => by simp at h⟩
    | ok u =>
      simp only
      refine ⟨⟨hr, fun hnone _ => ?_⟩, fun h => by simp at h⟩
      unfold rsBegin at hbg
      rw [hnone] at hbg
      simp at hbg
  | finish idx c =>
    simp only [cStep]
    by_cases hin : s.inflight.contains idx = true
    · rw [if_pos hin]
      simp only
      have hne : s.inflight ≠ [] := by intro he; rw [he] at hin; simp at hin
      unfold rsFinish
      cases hres : restoreChunkM H root s.rs.db c with
      | error e =>
        cases e with
        | proofFailed =>
          simp only
          have hem := hcalm hres
          exact ⟨⟨fun n hn => by simp [rsAbort] at hn, fun _ hne' => absurd hem hne'⟩, fun h => by simp at h⟩
        | noRestore => simp only; exact ⟨⟨hr, fun hn hne' => hb hn hne⟩, fun h => by simp at h⟩
        | inProgress => simp only; exact ⟨⟨hr, fun hn hne' => hb hn hne⟩, fun h => by simp at h⟩
        | alreadyRestored => simp only; exact ⟨⟨hr, fun hn hne' => hb hn hne⟩, fun h => by simp at h⟩
        | chunkNotFound => simp only; exact ⟨⟨hr, fun hn hne' => hb hn hne⟩, fun h => by simp at h⟩
        | corrupted => simp only; exact ⟨⟨hr, fun hn hne' => hb hn hne⟩, fun h => by simp at h⟩
      | ok db' =>
        have hmono := restoreChunkM_mono hres
        have himp := restoreChunkM_imports cs idx hev hres
        simp only
        cases hc : s.rs.current with
        | none =>
          -- a straggler after completion: everything was already imported
          have hall := hb hc hne
          have hall' : AllIn H root cs db' := fun i hi' x hx => hmono x (hall i hi' x hx)
          split
          · exact ⟨⟨fun n hn => by simp at hn, fun _ _ => hall'⟩, fun _ => hall'⟩
          · refine ⟨⟨?_, fun _ _ => hall'⟩, fun h => by simp at h⟩
            intro n hn
            simp only [hc] at hn
            exact absurd hn (by simp)
        | some n =>
          obtain ⟨hn, hallp⟩ := hr n hc
          split
          · next hemp =>
            have hall' : AllIn H root cs db' := by
              intro i hi' x hx
              by_cases hidx : i = idx
              · rw [hidx] at hx; exact himp x hx
              · rcases hallp i (by omega) with hp | hd
                · exfalso
                  have : i ∈ List.filter (fun x => decide (x ≠ idx)) s.rs.pending := by simp [hp, hidx]
                  rw [List.isEmpty_iff.1 hemp] at this
                  simp at this
                · exact hmono x (hd x hx)
            exact ⟨⟨fun n' hn' => by simp at hn', fun _ _ => hall'⟩, fun _ => hall'⟩
          · refine ⟨⟨?_, fun hnone => by simp [hc] at hnone⟩, fun h => by simp at h⟩
            intro n' hn'
            simp only [hc, Option.some.injEq] at hn'
            subst hn'
            refine ⟨hn, fun i hi' => ?_⟩
            by_cases hidx : i = idx
            · right; rw [hidx]; exact himp
            · rcases hallp i hi' with hp | hd
              · left; simp [hp, hidx]
              · right; intro x hx; exact hmono x (hd x hx)
    · rw [if_neg hin]
      exact ⟨⟨hr, hb⟩, fun h => by simp at h⟩

/-- **Completion under concurrency**: in a session of concurrent callers in which no abort or restart
cuts through a call in flight, whenever a `RestoreChunk` call reports completion every chunk of the
checkpoint has been imported. -/
theorem calm_done_all_in {H : Bytes → Bytes} {root : Bytes} (cs : List (List (Option Bytes))) :
    ∀ (evs : List CEvent) (s : CState), CInv H root cs s → (∀ e ∈ evs, HonestCEvent cs e) → Calm H root s evs →
    ∀ (ev : CEvent), HonestCEvent cs ev → calmStep H root (cRun H root s evs) ev →
      (cStep H root (cRun H root s evs) ev).2 = some (.ok true) →
      AllIn H root cs (cStep H root (cRun H root s evs) ev).1.rs.db := by
  intro evs
  induction evs with
  | nil => intro s hi _ _ ev hev hc hd; exact (cinv_step hi ev hev hc).2 hd
  | cons e es ih =>
    intro s hi hh hcalm ev hev hc hd
    obtain ⟨c1, c2⟩ := hcalm
    exact ih _ (cinv_step hi e (hh e List.mem_cons_self) c1).1
      (fun e' he' => hh e' (List.mem_cons_of_mem _ he')) c2 ev hev hc hd

end OasisProofs.MkvsChunk
