import OasisModel.Stateless.TrustedStore
import Mathlib.Data.List.Basic
import Mathlib.Tactic.Common
/-
Helper lemmas for `OasisProofs/Props/C19TrustedStore.lean`: the ordered key set (`put`, `prune`,
`delete` keep the list strictly ascending; membership), `last` is the greatest element, and the
one-call lemmas (`last_put`, `last_prune`, `last_delete_ne`, `last_save`).
-/
namespace OasisProofs.StatelessTrustedStore
open OasisModel.Stateless.TrustedStore

/-- Strictly ascending: the iteration order of the database keys, no height twice. -/
def Sorted (s : Store) : Prop := s.Pairwise (· < ·)

instance (s : Store) : Decidable (Sorted s) := by unfold Sorted; infer_instance

/-- The greatest stored height, `0` for the empty store — defined without reference to the order. -/
def maxOf (s : Store) : Nat := s.foldr max 0

/-! ### `last` -/

@[simp] theorem last_nil : last [] = 0 := rfl
@[simp] theorem last_singleton (x : Nat) : last [x] = x := rfl
@[simp] theorem last_cons_cons (a b : Nat) (t : List Nat) : last (a :: b :: t) = last (b :: t) := rfl

theorem last_eq_getLast? (s : Store) : last s = s.getLast?.getD 0 := by
  induction s with
  | nil => rfl
  | cons a t ih =>
    cases t with
    | nil => rfl
    | cons b t => rw [last_cons_cons, ih, List.getLast?_cons_cons]

theorem last_mem {s : Store} (h : s ≠ []) : last s ∈ s := by
  induction s with
  | nil => exact absurd rfl h
  | cons a t ih =>
    cases t with
    | nil => simp
    | cons b t =>
      rw [last_cons_cons]
      exact List.mem_cons_of_mem _ (ih (by simp))

theorem le_last {s : Store} (hs : Sorted s) {x : Nat} (hx : x ∈ s) : x ≤ last s := by
  induction s with
  | nil => cases hx
  | cons a t ih =>
    cases t with
    | nil => simp at hx; simp [hx]
    | cons b t =>
      rw [last_cons_cons]
      have hs' : Sorted (b :: t) := (List.pairwise_cons.mp hs).2
      rcases List.mem_cons.mp hx with rfl | hx'
      · have := (List.pairwise_cons.mp hs).1 (last (b :: t)) (last_mem (by simp))
        exact Nat.le_of_lt this
      · exact ih hs' hx'

/-- `last` is the unique greatest element. -/
theorem last_eq_of_max {s : Store} (hs : Sorted s) {m : Nat} (hm : m ∈ s) (hmax : ∀ x ∈ s, x ≤ m) :
    last s = m :=
  Nat.le_antisymm (hmax _ (last_mem (List.ne_nil_of_mem hm))) (le_last hs hm)

theorem last_eq_maxOf {s : Store} (hs : Sorted s) : last s = maxOf s := by
  induction s with
  | nil => rfl
  | cons a t ih =>
    have hs' : Sorted t := (List.pairwise_cons.mp hs).2
    cases t with
    | nil => simp [maxOf]
    | cons b t =>
      rw [last_cons_cons, ih hs']
      have hlt := (List.pairwise_cons.mp hs).1 (last (b :: t)) (last_mem (by simp))
      rw [ih hs'] at hlt
      show maxOf (b :: t) = max a (maxOf (b :: t))
      omega

/-! ### `put` -/

theorem mem_put {h x : Nat} {s : Store} : x ∈ put h s ↔ x = h ∨ x ∈ s := by
  induction s with
  | nil => simp [put]
  | cons a t ih =>
    unfold put
    split
    · simp
    · split
      · rename_i h1 h2; subst h2; simp
      · simp only [List.mem_cons, ih]; tauto

theorem put_sorted {h : Nat} {s : Store} (hs : Sorted s) : Sorted (put h s) := by
  induction s with
  | nil => simp [put, Sorted]
  | cons a t ih =>
    have ha := (List.pairwise_cons.mp hs).1
    have ht : Sorted t := (List.pairwise_cons.mp hs).2
    unfold put
    split
    · rename_i hlt
      refine List.pairwise_cons.mpr ⟨?_, hs⟩
      intro y hy
      rcases List.mem_cons.mp hy with rfl | hy
      · exact hlt
      · exact Nat.lt_trans hlt (ha y hy)
    · split
      · exact hs
      · rename_i h1 h2
        refine List.pairwise_cons.mpr ⟨?_, ih ht⟩
        intro y hy
        rcases mem_put.mp hy with rfl | hy
        · omega
        · exact ha y hy

theorem put_ne_nil (h : Nat) (s : Store) : put h s ≠ [] := by
  intro he
  have : h ∈ put h s := mem_put.mpr (Or.inl rfl)
  rw [he] at this; cases this

theorem last_put {h : Nat} {s : Store} (hs : Sorted s) : last (put h s) = max h (last s) := by
  apply last_eq_of_max (put_sorted hs)
  · by_cases hn : s = []
    · subst hn; simp [put]
    · rcases Nat.le_total h (last s) with hle | hle
      · rw [Nat.max_eq_right hle]; exact mem_put.mpr (Or.inr (last_mem hn))
      · rw [Nat.max_eq_left hle]; exact mem_put.mpr (Or.inl rfl)
  · intro x hx
    rcases mem_put.mp hx with rfl | hx
    · exact Nat.le_max_left _ _
    · exact Nat.le_trans (le_last hs hx) (Nat.le_max_right _ _)

/-! ### `prune` -/

theorem prune_sorted {n : Nat} {s : Store} (hs : Sorted s) : Sorted (prune n s) :=
  List.Pairwise.sublist (List.drop_sublist _ _) hs

theorem mem_of_mem_prune {n x : Nat} {s : Store} (hx : x ∈ prune n s) : x ∈ s :=
  List.mem_of_mem_drop hx

theorem prune_zero (s : Store) : prune 0 s = [] := by simp [prune]

/-- Removing the oldest blocks while at least one remains never removes the newest (no order
hypothesis: it is the last key of the iterator). -/
theorem last_prune {n : Nat} (hn : 1 ≤ n) (s : Store) : last (prune n s) = last s := by
  rw [last_eq_getLast?, last_eq_getLast?, prune, List.getLast?_drop]
  by_cases hs : s = []
  · subst hs; simp
  · have : 0 < s.length := List.length_pos_iff.mpr hs
    rw [if_neg (by omega)]

theorem prune_ne_nil {n : Nat} (hn : 1 ≤ n) {s : Store} (hs : s ≠ []) : prune n s ≠ [] := by
  have : 0 < s.length := List.length_pos_iff.mpr hs
  intro he
  have hl : (prune n s).length = 0 := by rw [he]; rfl
  simp only [prune, List.length_drop] at hl
  omega

/-! ### `delete` -/

theorem mem_delete {h x : Nat} {s : Store} : x ∈ delete h s ↔ x ∈ s ∧ x ≠ h := by
  simp [delete]

theorem delete_sorted {h : Nat} {s : Store} (hs : Sorted s) : Sorted (delete h s) :=
  List.Pairwise.sublist List.filter_sublist hs

theorem last_delete_ne {h : Nat} {s : Store} (hs : Sorted s) (hne : h ≠ last s) :
    last (delete h s) = last s := by
  by_cases hn : s = []
  · subst hn; rfl
  · apply last_eq_of_max (delete_sorted hs)
    · exact mem_delete.mpr ⟨last_mem hn, fun e => hne e.symm⟩
    · intro x hx; exact le_last hs (mem_delete.mp hx).1

/-! ### `save`, `step`, `run` -/

/-- The hypothesis on the watermarks: automatic pruning is off, or it keeps at least one block. -/
def KeepsOne (c : Cfg) : Prop := c.high = 0 ∨ 0 < c.low

instance (c : Cfg) : Decidable (KeepsOne c) := by unfold KeepsOne; infer_instance

theorem autoPrune_sorted {c : Cfg} {s : Store} (hs : Sorted s) : Sorted (autoPrune c s) := by
  unfold autoPrune; split
  · exact prune_sorted hs
  · exact hs

theorem last_autoPrune {c : Cfg} (hc : KeepsOne c) (s : Store) : last (autoPrune c s) = last s := by
  unfold autoPrune; split
  · rename_i h
    rcases hc with h0 | hl
    · omega
    · exact last_prune hl s
  · rfl

theorem save_sorted {c : Cfg} {h : Nat} {s : Store} (hs : Sorted s) : Sorted (save c h s) :=
  put_sorted (autoPrune_sorted hs)

theorem last_save {c : Cfg} (hc : KeepsOne c) {s : Store} (hs : Sorted s) (h : Nat) :
    last (save c h s) = max h (last s) := by
  rw [save, last_put (autoPrune_sorted hs), last_autoPrune hc]

theorem step_sorted {c : Cfg} {s : Store} (hs : Sorted s) (op : Op) : Sorted (step c s op) := by
  cases op with
  | save h => exact save_sorted hs
  | delete h => exact delete_sorted hs
  | prune n => exact prune_sorted hs

theorem run_sorted {c : Cfg} (ops : List Op) {s : Store} (hs : Sorted s) : Sorted (run c s ops) := by
  induction ops generalizing s with
  | nil => exact hs
  | cons op ops ih => exact ih (step_sorted hs op)

theorem sorted_nil : Sorted [] := List.Pairwise.nil

theorem run_append (c : Cfg) (s : Store) (a b : List Op) : run c s (a ++ b) = run c (run c s a) b := by
  simp [run, List.foldl_append]

theorem run_cons (c : Cfg) (s : Store) (op : Op) (ops : List Op) :
    run c s (op :: ops) = run c (step c s op) ops := rfl

/-! ### The cached variant -/

theorem crun_cons (c : Cfg) (cs : CStore) (op : Op) (ops : List Op) :
    CStore.run c cs (op :: ops) = CStore.run c (CStore.step c cs op) ops := rfl

/-- The variant stores exactly what the real wrapper stores; only the answer of `last` differs. -/
theorem cstep_store (c : Cfg) (cs : CStore) (op : Op) : (CStore.step c cs op).store = step c cs.store op := by
  cases op with
  | save h =>
    simp only [CStore.step, CStore.save, step, save, autoPrune]
    split <;> rfl
  | delete h => rfl
  | prune n => rfl

theorem crun_store (c : Cfg) (ops : List Op) (cs : CStore) : (CStore.run c cs ops).store = run c cs.store ops := by
  induction ops generalizing cs with
  | nil => rfl
  | cons op ops ih => rw [crun_cons, run_cons, ih, cstep_store]


/-! ### The size counter of the db store -/

theorem length_put_of_not_mem {h : Nat} {s : Store} (hn : h ∉ s) : (put h s).length = s.length + 1 := by
  induction s with
  | nil => rfl
  | cons a t ih =>
    have hne : h ≠ a := fun e => hn (by simp [e])
    have ht : h ∉ t := fun e => hn (List.mem_cons_of_mem _ e)
    unfold put
    by_cases h1 : h < a
    · simp [h1]
    · simp [h1, hne, ih ht]

theorem length_delete_of_mem {h : Nat} {s : Store} (hs : Sorted s) (hm : h ∈ s) :
    (delete h s).length + 1 = s.length := by
  induction s with
  | nil => cases hm
  | cons a t ih =>
    have ha := (List.pairwise_cons.mp hs).1
    have ht : Sorted t := (List.pairwise_cons.mp hs).2
    by_cases hah : a = h
    · subst hah
      have hnt : ∀ x ∈ t, (x != a) = true := fun x hx => by
        have := ha x hx; simp; omega
      have : delete a (a :: t) = t := by
        simp only [delete, List.filter_cons, bne_self_eq_false, Bool.false_eq_true, if_false]
        exact List.filter_eq_self.mpr hnt
      rw [this]; rfl
    · have hmt : h ∈ t := by
        rcases List.mem_cons.mp hm with e | e
        · exact absurd e.symm hah
        · exact e
      have : delete h (a :: t) = a :: delete h t := by
        simp [delete, hah]
      rw [this]; simp [ih ht hmt]

theorem dbrun_cons (c : Cfg) (d : Db) (op : Op) (ops : List Op) :
    Db.run c d (op :: ops) = Db.run c (Db.step c d op) ops := rfl

/-- With the counter equal to the number of keys `dbs.Prune` is `prune`. -/
theorem db_prune_exact (n : Nat) (s : Store) :
    Db.prune n ⟨s, s.length⟩ = ⟨prune n s, (prune n s).length⟩ := by
  unfold Db.prune prune
  by_cases h : s.length ≤ n
  · simp [h, Nat.sub_eq_zero_of_le h]
  · simp only [h, if_false, List.length_drop, Db.mk.injEq, true_and]
    omega

end OasisProofs.StatelessTrustedStore
