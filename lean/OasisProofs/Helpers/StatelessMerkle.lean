import OasisModel.Stateless.Merkle
/-
Lemmas about the RFC-6962 tree model (`OasisModel/Stateless/Merkle.lean`) used by
`OasisProofs/Props/C19.lean`.

Collision resistance.  A fixed-length hash cannot be injective, so `Function.Injective H`
together with `∀ x, (H x).length = n` is unsatisfiable.  The lemmas here are proved under the pair
`CR H n` (injective + fixed length) *as an intermediate step only*; the property theorems in
`Props/C19.lean` are stated in the reduction form `conclusion ∨ Collision H` under the satisfiable
hypothesis `FixedLen H n` alone (obtained from these lemmas by case distinction on
`Collision H`): a forged proof / a second list with the same root yields a collision of `H`.
-/
namespace OasisProofs.StatelessMerkle
open OasisModel.Stateless OasisModel.Stateless.Merkle

/-- Two different inputs with the same hash. -/
def Collision (H : Bytes → Bytes) : Prop := ∃ a b, a ≠ b ∧ H a = H b

/-- All hash values have the same length `n` (32 for SHA-256). -/
def FixedLen (H : Bytes → Bytes) (n : Nat) : Prop := ∀ x, (H x).length = n

theorem inj_of_no_collision {H : Bytes → Bytes} (h : ¬ Collision H) : Function.Injective H := by
  intro a b e
  apply Classical.byContradiction
  intro ne
  exact h ⟨a, b, ne, e⟩

theorem lt2_cases {α} (l : List α) (h : ¬ 2 ≤ l.length) : l = [] ∨ ∃ x, l = [x] := by
  match l with
  | [] => exact Or.inl rfl
  | [x] => exact Or.inr ⟨x, rfl⟩
  | _ :: _ :: _ => simp at h

/-! ### unfolding -/

theorem root_nil (H) : root H [] = emptyHash H := by rw [root]
theorem root_single (H) (x : Bytes) : root H [x] = leafHash H x := by rw [root]

theorem root_ge2 (H) (l : List Bytes) (h : 2 ≤ l.length) :
    root H l = innerHash H (root H (l.take (splitPoint l.length))) (root H (l.drop (splitPoint l.length))) := by
  match l, h with
  | x :: y :: r, _ => rw [root]

theorem aunts_ge2 (H) (l : List Bytes) (i : Nat) (h : 2 ≤ l.length) :
    aunts H l i =
      if i < splitPoint l.length then aunts H (l.take (splitPoint l.length)) i ++ [root H (l.drop (splitPoint l.length))]
      else aunts H (l.drop (splitPoint l.length)) (i - splitPoint l.length) ++ [root H (l.take (splitPoint l.length))] := by
  match l, h with
  | x :: y :: r, _ => rw [aunts]

theorem aunts_single (H) (x : Bytes) (i : Nat) : aunts H [x] i = [] := by rw [aunts]

/-! ### shape facts that need no hypothesis on `H` -/

theorem length_take_split (l : List Bytes) (h : 2 ≤ l.length) :
    (l.take (splitPoint l.length)).length = splitPoint l.length := by
  have := splitPoint_lt h
  simp only [List.length_take]; omega

theorem length_drop_split (l : List Bytes) :
    (l.drop (splitPoint l.length)).length = l.length - splitPoint l.length := by
  simp only [List.length_drop]

/-- Completeness core: the aunts generated for index `i` recompute the root. -/
theorem computeTop_aunts (H) : ∀ (n : Nat) (l : List Bytes), l.length = n → ∀ (i : Nat) (hi : i < l.length),
    computeTop H i l.length (leafHash H l[i]) (aunts H l i).reverse = some (root H l) := by
  intro n
  induction n using Nat.strongRecOn with
  | _ n ih =>
    intro l hl i hi
    by_cases h2 : 2 ≤ l.length
    · have hk0 := splitPoint_pos h2
      have hkn := splitPoint_lt h2
      rw [aunts_ge2 H l i h2, root_ge2 H l h2]
      by_cases hik : i < splitPoint l.length
      · simp only [hik, if_true, List.reverse_append, List.reverse_cons, List.reverse_nil, List.nil_append,
          List.cons_append, computeTop]
        have hne : ¬ (i ≥ l.length ∨ l.length = 0) := by omega
        have hn1 : ¬ l.length = 1 := by omega
        simp only [hne, hn1, if_false]
        have hlt : (l.take (splitPoint l.length)).length = splitPoint l.length := length_take_split l h2
        have hi' : i < (l.take (splitPoint l.length)).length := by omega
        have := ih (splitPoint l.length) (by omega) (l.take (splitPoint l.length)) hlt i hi'
        rw [hlt] at this
        have hget : (l.take (splitPoint l.length))[i] = l[i] := by
          simp [List.getElem_take]
        rw [hget] at this
        rw [this]; rfl
      · simp only [hik, if_false, List.reverse_append, List.reverse_cons, List.reverse_nil, List.nil_append,
          List.cons_append, computeTop]
        have hne : ¬ (i ≥ l.length ∨ l.length = 0) := by omega
        have hn1 : ¬ l.length = 1 := by omega
        simp only [hne, hn1, if_false]
        have hld : (l.drop (splitPoint l.length)).length = l.length - splitPoint l.length := length_drop_split l
        have hi' : i - splitPoint l.length < (l.drop (splitPoint l.length)).length := by omega
        have := ih (l.length - splitPoint l.length) (by omega) (l.drop (splitPoint l.length)) hld
          (i - splitPoint l.length) hi'
        rw [hld] at this
        have hget : (l.drop (splitPoint l.length))[i - splitPoint l.length] = l[i] := by
          simp only [List.getElem_drop]
          congr 1; omega
        rw [hget] at this
        rw [this]; rfl
    · -- a single element
      rcases lt2_cases l h2 with rfl | ⟨x, rfl⟩
      · simp at hi
      · have : i = 0 := by simpa using hi
        subst this
        simp [aunts_single, computeTop, root_single]

/-! ### consequences of collision resistance -/

structure CR (H : Bytes → Bytes) (n : Nat) : Prop where
  inj : Function.Injective H
  len : FixedLen H n

variable {H : Bytes → Bytes} {n : Nat}

theorem leaf_ne_inner (cr : CR H n) (x l r : Bytes) : leafHash H x ≠ innerHash H l r := by
  intro e
  have := cr.inj e
  simp at this

theorem empty_ne_leaf (cr : CR H n) (x : Bytes) : emptyHash H ≠ leafHash H x := by
  intro e
  have := cr.inj e
  simp at this

theorem empty_ne_inner (cr : CR H n) (l r : Bytes) : emptyHash H ≠ innerHash H l r := by
  intro e
  have := cr.inj e
  simp at this

theorem leaf_inj (cr : CR H n) {x y : Bytes} (e : leafHash H x = leafHash H y) : x = y := by
  have := cr.inj e
  simpa using this

/-- Splitting an inner node when the *left* parts have equal length. -/
theorem inner_inj_left (cr : CR H n) {l r l' r' : Bytes} (hl : l.length = l'.length)
    (e : innerHash H l r = innerHash H l' r') : l = l' ∧ r = r' := by
  have := cr.inj e
  simp only [List.cons.injEq, true_and] at this
  exact List.append_inj this hl

/-- Splitting an inner node when the *right* parts have equal length. -/
theorem inner_inj_right (cr : CR H n) {l r l' r' : Bytes} (hr : r.length = r'.length)
    (e : innerHash H l r = innerHash H l' r') : l = l' ∧ r = r' := by
  have := cr.inj e
  simp only [List.cons.injEq, true_and] at this
  exact List.append_inj' this hr

theorem root_length (cr : CR H n) (l : List Bytes) : (root H l).length = n := by
  by_cases h2 : 2 ≤ l.length
  · rw [root_ge2 H l h2]; exact cr.len _
  · rcases lt2_cases l h2 with rfl | ⟨x, rfl⟩
    · rw [root_nil]; exact cr.len _
    · rw [root_single]; exact cr.len _

/-- The root determines the list. -/
theorem root_inj (cr : CR H n) : ∀ (k : Nat) (l₁ l₂ : List Bytes), l₁.length = k → root H l₁ = root H l₂ → l₁ = l₂ := by
  intro k
  induction k using Nat.strongRecOn with
  | _ k ih =>
    intro l₁ l₂ hk e
    by_cases h1 : 2 ≤ l₁.length
    · by_cases h2 : 2 ≤ l₂.length
      · rw [root_ge2 H l₁ h1, root_ge2 H l₂ h2] at e
        have ⟨eL, eR⟩ := inner_inj_left cr (by rw [root_length cr, root_length cr]) e
        have hk1 := splitPoint_lt h1
        have hk0 := splitPoint_pos h1
        have tl := ih (splitPoint l₁.length) (by omega) _ _ (length_take_split l₁ h1) eL
        have dl := ih (l₁.length - splitPoint l₁.length) (by omega) _ _ (length_drop_split l₁) eR
        rw [← List.take_append_drop (splitPoint l₁.length) l₁, ← List.take_append_drop (splitPoint l₂.length) l₂, tl, dl]
      · exfalso
        rw [root_ge2 H l₁ h1] at e
        rcases lt2_cases l₂ h2 with rfl | ⟨x, rfl⟩
        · rw [root_nil] at e; exact empty_ne_inner cr _ _ e.symm
        · rw [root_single] at e; exact leaf_ne_inner cr _ _ _ e.symm
    · rcases lt2_cases l₁ h1 with rfl | ⟨a, rfl⟩
      · match l₂ with
        | [] => rfl
        | [x] => rw [root_nil, root_single] at e; exact absurd e (empty_ne_leaf cr _)
        | x :: y :: r =>
          rw [root_nil, root_ge2 H (x :: y :: r) (by simp)] at e; exact absurd e (empty_ne_inner cr _ _)
      · match l₂ with
        | [] => rw [root_nil, root_single] at e; exact absurd e.symm (empty_ne_leaf cr _)
        | [x] => rw [root_single, root_single] at e; rw [leaf_inj cr e]
        | x :: y :: r =>
          rw [root_single, root_ge2 H (x :: y :: r) (by simp)] at e; exact absurd e (leaf_ne_inner cr _ _ _)

theorem computeTop_length (cr : CR H n) (x : Bytes) : ∀ (as : List Bytes) (i t : Nat) (h : Bytes),
    computeTop H i t (leafHash H x) as = some h → h.length = n := by
  intro as
  induction as with
  | nil =>
    intro i t h e
    simp only [computeTop] at e
    split at e
    · cases e
    · split at e
      · cases e; exact cr.len _
      · cases e
  | cons a rest ih =>
    intro i t h e
    simp only [computeTop] at e
    split at e
    · cases e
    · split at e
      · cases e
      · split at e
        · cases hc : computeTop H i (splitPoint t) (leafHash H x) rest with
          | none => rw [hc] at e; cases e
          | some v => rw [hc] at e; simp at e; rw [← e]; exact cr.len _
        · cases hc : computeTop H (i - splitPoint t) (t - splitPoint t) (leafHash H x) rest with
          | none => rw [hc] at e; cases e
          | some v => rw [hc] at e; simp at e; rw [← e]; exact cr.len _

/-- Soundness core: whatever `total`, `index` and aunts the prover chooses, if the recomputed
hash is the root of `l` then the leaf is an element of `l`; when `total` is the true length, it
is the element at `index`. -/
theorem computeTop_sound (cr : CR H n) (x : Bytes) : ∀ (as : List Bytes) (i t : Nat) (l : List Bytes),
    computeTop H i t (leafHash H x) as = some (root H l) →
    ∃ j, l[j]? = some x ∧ (t = l.length → j = i) := by
  intro as
  induction as with
  | nil =>
    intro i t l e
    simp only [computeTop] at e
    split at e
    · cases e
    · rename_i hnot
      split at e
      · rename_i ht1
        simp only [Option.some.injEq] at e
        -- leaf = root l : l must be a singleton
        by_cases h2 : 2 ≤ l.length
        · rw [root_ge2 H l h2] at e; exact absurd e (leaf_ne_inner cr _ _ _)
        · rcases lt2_cases l h2 with rfl | ⟨y, rfl⟩
          · rw [root_nil] at e; exact absurd e.symm (empty_ne_leaf cr _)
          · rw [root_single] at e
            have := leaf_inj cr e
            subst this
            refine ⟨0, by simp, ?_⟩
            intro _; omega
      · cases e
  | cons a rest ih =>
    intro i t l e
    simp only [computeTop] at e
    split at e
    · cases e
    · rename_i hnot
      split at e
      · cases e
      · rename_i ht1
        -- an inner node equals root l : l has at least two elements
        have inner_root : ∀ (u v : Bytes), innerHash H u v = root H l → 2 ≤ l.length := by
          intro u v e'
          apply Classical.byContradiction
          intro h2
          rcases lt2_cases l h2 with rfl | ⟨y, rfl⟩
          · rw [root_nil] at e'; exact empty_ne_inner cr _ _ e'.symm
          · rw [root_single] at e'; exact leaf_ne_inner cr _ _ _ e'.symm
        split at e
        · rename_i hik
          cases hc : computeTop H i (splitPoint t) (leafHash H x) rest with
          | none => rw [hc] at e; cases e
          | some v =>
            rw [hc] at e
            simp only [Option.map_some, Option.some.injEq] at e
            have h2 := inner_root _ _ e
            rw [root_ge2 H l h2] at e
            have hv := computeTop_length cr x rest _ _ _ hc
            have ⟨eL, _⟩ := inner_inj_left cr (by rw [hv, root_length cr]) e
            rw [eL] at hc
            have ⟨j, hj, hjt⟩ := ih _ _ _ hc
            have hjlt : j < (l.take (splitPoint l.length)).length := by
              apply Classical.byContradiction; intro hge
              rw [List.getElem?_eq_none (by omega)] at hj; cases hj
            rw [length_take_split l h2] at hjlt
            refine ⟨j, ?_, ?_⟩
            · rw [List.getElem?_take] at hj
              simpa [hjlt] using hj
            · intro htl
              apply hjt
              rw [htl, length_take_split l h2]
        · rename_i hik
          cases hc : computeTop H (i - splitPoint t) (t - splitPoint t) (leafHash H x) rest with
          | none => rw [hc] at e; cases e
          | some v =>
            rw [hc] at e
            simp only [Option.map_some, Option.some.injEq] at e
            have h2 := inner_root _ _ e
            rw [root_ge2 H l h2] at e
            have hv := computeTop_length cr x rest _ _ _ hc
            have ⟨_, eR⟩ := inner_inj_right cr (by rw [hv, root_length cr]) e
            rw [eR] at hc
            have ⟨j, hj, hjt⟩ := ih _ _ _ hc
            refine ⟨splitPoint l.length + j, ?_, ?_⟩
            · rw [List.getElem?_drop] at hj; exact hj
            · intro htl
              have := hjt (by rw [htl, length_drop_split])
              rw [htl] at hik
              rw [this, htl]; omega

end OasisProofs.StatelessMerkle
