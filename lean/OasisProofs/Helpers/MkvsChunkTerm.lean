import OasisModel.Mkvs.Chunk
/-
C12, termination of the parallel chunker. Every step of `nextChunk` strictly decreases a weight of
the pending stack, `trim` and `split` never increase it, so every chunk makes progress whatever the
chunk size (also 0 or 1 byte) and the number of rounds is bounded by the weight of the root.
Consequence: the fuel of the executable model is never exhausted — giving the loops more fuel does
not change the chunk list (`parLoopF_fuel_irrelevant`).
-/
namespace OasisProofs.MkvsChunk
open OasisModel.Mkvs

/-- Weight of a pending (not yet visited) subtree. -/
def wH : HTrie → Nat
  | .nil => 0
  | .leaf _ _ _ => 1
  | .node _ _ lf _ l r => 4 + (if lf.isSome then 1 else 0) + wH l + wH r

def wAtom (a : PAtom) : Nat :=
  match a.nd, a.st with
  | .nil, _ => 1
  | .leaf _ _ _, _ => 1
  | .node _ _ lf _ l r, .before => 4 + (if lf.isSome then 1 else 0) + wH l + wH r
  | .node _ _ _ _ l r, .at => 3 + wH l + wH r
  | .node _ _ _ _ _ r, .atLeft => 2 + wH r
  | .node _ _ _ _ _ _, .after => 1

def wStack : List PAtom → Nat
  | [] => 0
  | a :: p => wAtom a + wStack p

theorem wAtom_pos (a : PAtom) : 0 < wAtom a := by
  unfold wAtom
  split <;> omega

theorem wStack_append (p q : List PAtom) : wStack (p ++ q) = wStack p + wStack q := by
  induction p with
  | nil => simp [wStack]
  | cons a p ih => simp only [List.cons_append, wStack, ih]; omega

theorem wStack_pushChild (p : List PAtom) (t : HTrie) : wStack (pushChild p t) = wH t + wStack p := by
  cases t with
  | nil => simp [pushChild, wH]
  | leaf h k v => simp [pushChild, wStack, wAtom, wH]
  | node h lab lf hlf l r => simp [pushChild, wStack, wAtom, wH]

theorem wH_le_nodes (t : HTrie) : wH t ≤ 4 * t.nodes := by
  induction t with
  | nil => simp [wH]
  | leaf h k v => simp [wH, HTrie.nodes]
  | node h lab lf hlf l r ihl ihr =>
    simp only [wH, HTrie.nodes]
    split <;> omega

/-- The loop of `nextChunk` never increases the weight, and decreases it whenever it runs at least
one iteration. -/
theorem loop_weight (size : Nat) : ∀ (n : Nat) (p : List PAtom) (b : Builder) (lil : Bool),
    wStack (nextChunkLoop size n p b lil).1 ≤ wStack p := by
  intro n
  induction n with
  | zero => intro p b lil; simp [nextChunkLoop]
  | succ n ih =>
    intro p b lil
    cases p with
    | nil => simp [nextChunkLoop]
    | cons last rest =>
      simp only [nextChunkLoop]
      split
      · exact Nat.le_refl _
      · rcases last with ⟨nd, st⟩
        cases nd with
        | nil =>
          simp only
          refine Nat.le_trans (ih _ _ _) ?_
          simp [wStack]
        | leaf h k v =>
          simp only
          refine Nat.le_trans (ih _ _ _) ?_
          simp [wStack]
        | node h lab lf hlf l r =>
          cases st with
          | before =>
            simp only
            refine Nat.le_trans (ih _ _ _) ?_
            rcases lf with _ | ⟨k, v⟩ <;> simp [wStack, wAtom] <;> omega
          | «at» =>
            simp only
            refine Nat.le_trans (ih _ _ _) ?_
            rw [wStack_pushChild]
            simp [wStack, wAtom]; omega
          | atLeft =>
            simp only
            refine Nat.le_trans (ih _ _ _) ?_
            rw [wStack_pushChild]
            simp [wStack, wAtom]; omega
          | after =>
            simp only
            refine Nat.le_trans (ih _ _ _) ?_
            simp [wStack]

/-- With a non-empty stack and at least one unit of fuel `nextChunk` makes progress: the first
iteration always runs (`lastIsLeaf` starts false) and removes weight. -/
theorem loop_progress (size : Nat) (n : Nat) (a : PAtom) (p : List PAtom) (b : Builder) :
    wStack (nextChunkLoop size (n + 1) (a :: p) b false).1 < wStack (a :: p) := by
  simp only [nextChunkLoop, Bool.and_false, Bool.false_eq_true, if_false]
  rcases a with ⟨nd, st⟩
  cases nd with
  | nil =>
    simp only
    refine Nat.lt_of_le_of_lt (loop_weight _ _ _ _ _) ?_
    simp [wStack, wAtom]
  | leaf h k v =>
    simp only
    refine Nat.lt_of_le_of_lt (loop_weight _ _ _ _ _) ?_
    simp [wStack, wAtom]
  | node h lab lf hlf l r =>
    cases st with
    | before =>
      simp only
      refine Nat.lt_of_le_of_lt (loop_weight _ _ _ _ _) ?_
      rcases lf with _ | ⟨k, v⟩ <;> simp [wStack, wAtom] <;> omega
    | «at» =>
      simp only
      refine Nat.lt_of_le_of_lt (loop_weight _ _ _ _ _) ?_
      rw [wStack_pushChild]
      simp [wStack, wAtom]; omega
    | atLeft =>
      simp only
      refine Nat.lt_of_le_of_lt (loop_weight _ _ _ _ _) ?_
      rw [wStack_pushChild]
      simp [wStack, wAtom]; omega
    | after =>
      simp only
      refine Nat.lt_of_le_of_lt (loop_weight _ _ _ _ _) ?_
      simp [wStack, wAtom]

/-- More fuel than weight never changes the result of the loop. -/
theorem loop_fuel_irrelevant (size : Nat) : ∀ (n m : Nat) (p : List PAtom) (b : Builder) (lil : Bool),
    wStack p ≤ n → wStack p ≤ m → nextChunkLoop size n p b lil = nextChunkLoop size m p b lil := by
  intro n
  induction n with
  | zero =>
    intro m p b lil hn _
    cases p with
    | nil => cases m <;> simp [nextChunkLoop]
    | cons a p => have := wAtom_pos a; simp [wStack] at hn; omega
  | succ n ih =>
    intro m p b lil hn hm
    cases m with
    | zero =>
      cases p with
      | nil => simp [nextChunkLoop]
      | cons a p => have := wAtom_pos a; simp [wStack] at hm; omega
    | succ m =>
      cases p with
      | nil => simp [nextChunkLoop]
      | cons last rest =>
        simp only [nextChunkLoop]
        split
        · rfl
        · rcases last with ⟨nd, st⟩
          have hpos := wAtom_pos ⟨nd, st⟩
          cases nd with
          | nil =>
            simp only
            apply ih <;> simp [wStack, wAtom] at hn hm ⊢ <;> omega
          | leaf h k v =>
            simp only
            apply ih <;> simp [wStack, wAtom] at hn hm ⊢ <;> omega
          | node h lab lf hlf l r =>
            cases st with
            | before =>
              simp only
              apply ih <;> (rcases lf with _ | ⟨k, v⟩ <;> simp [wStack, wAtom] at hn hm ⊢ <;> omega)
            | «at» =>
              simp only
              apply ih <;> (rw [wStack_pushChild]; simp [wStack, wAtom] at hn hm ⊢; omega)
            | atLeft =>
              simp only
              apply ih <;> (rw [wStack_pushChild]; simp [wStack, wAtom] at hn hm ⊢; omega)
            | after =>
              simp only
              apply ih <;> simp [wStack, wAtom] at hn hm ⊢ <;> omega

theorem trim_weight : ∀ (p : List PAtom), wStack (trim p) ≤ wStack p := by
  intro p
  induction p with
  | nil => simp [trim]
  | cons a p ih =>
    rcases a with ⟨nd, st⟩
    cases nd with
    | nil => simp only [trim, wStack]; omega
    | leaf h k v => simp [trim]
    | node h lab lf hlf l r =>
      cases st with
      | before => simp [trim]
      | «at» => simp only [trim]; split <;> simp only [wStack] <;> omega
      | atLeft => simp only [trim]; split <;> simp only [wStack] <;> omega
      | after => simp only [trim, wStack]; omega

/-- Total weight of a task list. -/
def wTasks : List Subtree → Nat
  | [] => 0
  | s :: ss => wStack s.pending + wTasks ss

theorem wTasks_append (a b : List Subtree) : wTasks (a ++ b) = wTasks a + wTasks b := by
  induction a with
  | nil => simp [wTasks]
  | cons s ss ih => simp only [List.cons_append, wTasks, ih]; omega

/-- `nextChunk` on a task: the weight does not grow; it shrinks if the task has work and fuel. -/
theorem nextChunkF_weight (fuel : Nat) (eh : Bytes) (size : Nat) (root : HTrie) (s : Subtree) :
    wStack (nextChunkF fuel eh size root s).2.pending ≤ wStack s.pending := by
  simp only [nextChunkF]
  exact Nat.le_trans (trim_weight _) (loop_weight _ _ _ _ _)

theorem nextChunkF_progress (fuel : Nat) (eh : Bytes) (size : Nat) (root : HTrie) (s : Subtree)
    (hf : 0 < fuel) (hp : s.pending ≠ []) :
    wStack (nextChunkF fuel eh size root s).2.pending < wStack s.pending := by
  simp only [nextChunkF]
  obtain ⟨n, rfl⟩ : ∃ n, fuel = n + 1 := ⟨fuel - 1, by omega⟩
  cases hpe : s.pending with
  | nil => exact absurd hpe hp
  | cons a p =>
    exact Nat.lt_of_le_of_lt (trim_weight _) (loop_progress _ _ _ _ _)

theorem nextChunkF_fuel_irrelevant (f1 f2 : Nat) (eh : Bytes) (size : Nat) (root : HTrie) (s : Subtree)
    (h1 : wStack s.pending ≤ f1) (h2 : wStack s.pending ≤ f2) :
    nextChunkF f1 eh size root s = nextChunkF f2 eh size root s := by
  simp only [nextChunkF]
  rw [loop_fuel_irrelevant size f1 f2 _ _ _ h1 h2]

/-- `split` never increases the total weight. -/
theorem splitSub_weight (s : Subtree) : wTasks (splitSub s) ≤ wStack s.pending := by
  unfold splitSub
  have hrev : wStack s.pending = wStack s.pending.reverse.reverse := by rw [List.reverse_reverse]
  cases hr : s.pending.reverse with
  | nil => simp [wTasks]
  | cons subroot above =>
    have hw : wStack s.pending = wStack above.reverse + wAtom subroot := by
      rw [hrev, hr, List.reverse_cons, wStack_append]; simp [wStack]
    rcases subroot with ⟨nd, st⟩
    cases nd with
    | nil => simp [wTasks]
    | leaf h k v => simp [wTasks]
    | node h lab lf hlf l r =>
      have hmk : ∀ (c : HTrie), wTasks (childTask s.path (HTrie.node h lab lf hlf l r) c) = wH c := by
        intro c
        cases c <;> simp [childTask, wTasks, wStack, wAtom, wH]
      cases st with
      | before =>
        simp only
        split
        · simp [wTasks]
        · rw [wTasks_append, hmk, hmk, hw]; simp only [wAtom]; omega
      | «at» =>
        simp only
        split
        · simp [wTasks]
        · rw [wTasks_append, hmk, hmk, hw]; simp only [wAtom]; omega
      | atLeft =>
        simp only
        split
        · simp [wTasks]
        · rw [wTasks_append, hmk, hw]; simp only [wTasks, wAtom]; omega
      | after =>
        simp only [wTasks, hw, wAtom]; omega

theorem splitPass_weight (threads : Nat) : ∀ (tasks acc : List Subtree),
    wTasks (splitPass threads tasks acc).1 ≤ wTasks acc + wTasks tasks := by
  intro tasks
  induction tasks with
  | nil => intro acc; simp [splitPass, wTasks]
  | cons t rest ih =>
    intro acc
    simp only [splitPass]
    split
    · rw [wTasks_append]; exact Nat.le_refl _
    · refine Nat.le_trans (ih _) ?_
      rw [wTasks_append]
      have := splitSub_weight t
      simp only [wTasks]; omega

theorem splitTasksN_weight (threads : Nat) : ∀ (n : Nat) (tasks : List Subtree),
    wTasks (splitTasksN threads n tasks) ≤ wTasks tasks := by
  intro n
  induction n with
  | zero => intro tasks; exact Nat.le_refl _
  | succ n ih =>
    intro tasks
    simp only [splitTasksN]
    have h := splitPass_weight threads tasks []
    simp only [wTasks, Nat.zero_add] at h
    split
    · exact h
    · exact Nat.le_trans (ih _) h

theorem splitTasks_weight (threads : Nat) (tasks : List Subtree) :
    wTasks (splitTasks threads tasks) ≤ wTasks tasks := splitTasksN_weight threads 10 tasks

theorem wTasks_filter_le (f : Subtree → Bool) (l : List Subtree) : wTasks (l.filter f) ≤ wTasks l := by
  induction l with
  | nil => simp [wTasks]
  | cons s ss ih =>
    simp only [List.filter]
    split <;> simp only [wTasks] <;> omega

/-- One round: the weight does not grow, and with work left and fuel it shrinks. -/
theorem parRoundF_weight (fuel : Nat) (eh : Bytes) (size : Nat) (root : HTrie) (tasks : List Subtree) :
    wTasks (parRoundF fuel eh size root tasks).2 ≤ wTasks tasks := by
  simp only [parRoundF]
  refine Nat.le_trans (wTasks_filter_le _ _) ?_
  induction tasks with
  | nil => simp [wTasks]
  | cons t ts ih =>
    simp only [List.map_cons, wTasks]
    have := nextChunkF_weight fuel eh size root t
    omega

theorem parRoundF_progress (fuel : Nat) (hf : 0 < fuel) (eh : Bytes) (size : Nat) (root : HTrie) (tasks : List Subtree)
    (hw : 0 < wTasks tasks) : wTasks (parRoundF fuel eh size root tasks).2 < wTasks tasks := by
  simp only [parRoundF]
  refine Nat.lt_of_le_of_lt (wTasks_filter_le _ _) ?_
  induction tasks with
  | nil => simp [wTasks] at hw
  | cons t ts ih =>
    simp only [List.map_cons, wTasks]
    have h1 := nextChunkF_weight fuel eh size root t
    by_cases hp : t.pending = []
    · have h0 : wStack t.pending = 0 := by rw [hp]; rfl
      have : 0 < wTasks ts := by simp only [wTasks, h0] at hw; omega
      have := ih this
      omega
    · have h2 := nextChunkF_progress fuel eh size root t hf hp
      have h3 : wTasks (List.map (fun x => x.2) (List.map (nextChunkF fuel eh size root) ts)) ≤ wTasks ts := by
        clear ih hw
        induction ts with
        | nil => simp [wTasks]
        | cons u us ihu =>
          simp only [List.map_cons, wTasks]
          have := nextChunkF_weight fuel eh size root u
          omega
      omega

theorem wTasks_zero_filter (l : List Subtree) (h : wTasks l = 0) :
    l.filter (fun s => !s.pending.isEmpty) = [] := by
  induction l with
  | nil => rfl
  | cons s ss ih =>
    simp only [wTasks] at h
    have hs : wStack s.pending = 0 := by omega
    have hp : s.pending = [] := by
      cases hpe : s.pending with
      | nil => rfl
      | cons a p => rw [hpe] at hs; have := wAtom_pos a; simp [wStack] at hs; omega
    simp [List.filter, hp, ih (by omega)]

theorem parRoundF_fuel_irrelevant (f1 f2 : Nat) (eh : Bytes) (size : Nat) (root : HTrie) (tasks : List Subtree)
    (h1 : wTasks tasks ≤ f1) (h2 : wTasks tasks ≤ f2) :
    parRoundF f1 eh size root tasks = parRoundF f2 eh size root tasks := by
  have hmap : List.map (nextChunkF f1 eh size root) tasks = List.map (nextChunkF f2 eh size root) tasks := by
    induction tasks with
    | nil => rfl
    | cons t ts ih =>
      simp only [wTasks] at h1 h2
      simp only [List.map_cons]
      rw [nextChunkF_fuel_irrelevant f1 f2 eh size root t (by omega) (by omega), ih (by omega) (by omega)]
  simp only [parRoundF, hmap]

theorem parLoopF_nil (fuel : Nat) (eh : Bytes) (size threads : Nat) (root : HTrie) (n : Nat) :
    parLoopF fuel eh size threads root n [] = [] := by
  cases n <;> simp [parLoopF]

/-- **Termination of the parallel chunker.** Once the fuel of the rounds and of the inner loops
exceeds the weight of the pending tasks, more fuel does not change the chunk list: the loops end
because the work is done, never because the fuel ran out — for every chunk size and thread count. -/
theorem parLoopF_fuel_irrelevant (eh : Bytes) (size threads : Nat) (root : HTrie) :
    ∀ (n m f1 f2 : Nat) (pending : List Subtree),
      wTasks pending < n → wTasks pending < m → wTasks pending < f1 → wTasks pending < f2 →
      parLoopF f1 eh size threads root n pending = parLoopF f2 eh size threads root m pending := by
  intro n
  induction n with
  | zero => intro m f1 f2 p hn; omega
  | succ n ih =>
    intro m f1 f2 p hn hm hf1 hf2
    cases m with
    | zero => omega
    | succ m =>
      simp only [parLoopF]
      split
      · rfl
      · have hsw := splitTasks_weight threads p
        have hr := parRoundF_fuel_irrelevant f1 f2 eh size root (splitTasks threads p) (by omega) (by omega)
        rw [hr]
        congr 1
        by_cases hz : wTasks (splitTasks threads p) = 0
        · have : (parRoundF f2 eh size root (splitTasks threads p)).2 = [] := by
            simp only [parRoundF]
            apply wTasks_zero_filter
            have h := parRoundF_weight f2 eh size root (splitTasks threads p)
            simp only [parRoundF] at h
            have h' : wTasks (List.map (fun x => x.2) (List.map (nextChunkF f2 eh size root) (splitTasks threads p))) ≤
                wTasks (splitTasks threads p) := by
              generalize splitTasks threads p = ts
              induction ts with
              | nil => simp [wTasks]
              | cons u us ihu =>
                simp only [List.map_cons, wTasks]
                have := nextChunkF_weight f2 eh size root u
                omega
            omega
          rw [this, parLoopF_nil, parLoopF_nil]
        · have hp := parRoundF_progress f2 (by omega) eh size root (splitTasks threads p) (by omega)
          exact ih m f1 f2 _ (by omega) (by omega) (by omega) (by omega)

/-- The fuel the model uses is enough for the root task. -/
theorem parFuel_enough (root : HTrie) : wTasks [newSubtree root] < parFuel root := by
  simp only [wTasks, newSubtree, wStack, parFuel]
  have := wH_le_nodes root
  cases root with
  | nil => simp [wAtom]
  | leaf h k v => simp [wAtom, HTrie.nodes]
  | node h lab lf hlf l r =>
    simp only [wAtom]
    simp only [wH] at this
    omega

end OasisProofs.MkvsChunk
