import OasisModel.Rhp.CheckTx
/-
Helper lemmas for `OasisProofs.Props.C16CheckTx` (model `OasisModel.Rhp.CheckTx`).

The two loops of `checkTxBatch` are compared with total ("pure") steps folded over the list of ROWS
`(i, batch[i], results[i])`; the partial operations of the model succeed exactly because a row exists for every
index the loops touch. Declarative descriptions (filters and maps over the rows) of what the folds produce
follow by induction.
-/
namespace OasisProofs.Rhp.CheckTx
open OasisModel.Rhp.CheckTx

/-! ### lists -/

theorem drop_cons {α : Type} {l : List α} {i : Nat} {a : α} {t : List α} (h : l.drop i = a :: t) :
    l[i]? = some a ∧ l.drop (i + 1) = t := by
  constructor
  · have h0 : (l.drop i)[0]? = some a := by rw [h]; rfl
    rw [List.getElem?_drop] at h0
    simpa using h0
  · have : l.drop (i + 1) = (l.drop i).drop 1 := by rw [List.drop_drop]
    rw [this, h]; rfl

/-! ### rows -/

/-- One position of a well-formed exchange: the index, the pending transaction, the runtime's result. -/
structure Row where
  idx : Nat
  pct : Pct
  res : Result
deriving DecidableEq, Repr, Inhabited

/-- The rows of two lists side by side, numbered from `i`. -/
def rowsFrom : Nat → List Pct → List Result → List Row
  | i, b :: bs, r :: rs => ⟨i, b, r⟩ :: rowsFrom (i + 1) bs rs
  | _, [], _ => []
  | _, _ :: _, [] => []

/-- The rows `(i, batch[i], results[i])`. -/
def rows (batch : List Pct) (results : List Result) : List Row := rowsFrom 0 batch results

/-- successful and not to be discarded: goes to the main queue (txpool.go:543, 561) -/
def Row.good (r : Row) : Bool := r.res.isSuccess && !r.pct.discard

/-- the metadata of the row's result (present for every successful row of a well-formed response) -/
def Row.meta (r : Row) : Meta := r.res.md.getD default

theorem rowsFrom_mem {i : Nat} {bs : List Pct} {rs : List Result} {r : Row} (h : r ∈ rowsFrom i bs rs) :
    ∃ k, r.idx = i + k ∧ bs[k]? = some r.pct ∧ rs[k]? = some r.res := by
  induction bs generalizing i rs with
  | nil => simp [rowsFrom] at h
  | cons b bs ih =>
    cases rs with
    | nil => simp [rowsFrom] at h
    | cons x rs =>
      simp only [rowsFrom, List.mem_cons] at h
      rcases h with h | h
      · exact ⟨0, by simp [h]⟩
      · obtain ⟨k, h1, h2, h3⟩ := ih h
        exact ⟨k + 1, by omega, by simpa using h2, by simpa using h3⟩

theorem rows_mem {batch : List Pct} {results : List Result} {r : Row} (h : r ∈ rows batch results) :
    batch[r.idx]? = some r.pct ∧ results[r.idx]? = some r.res := by
  obtain ⟨k, h1, h2, h3⟩ := rowsFrom_mem h
  have : r.idx = k := by omega
  rw [this]; exact ⟨h2, h3⟩

theorem rowsFrom_map_idx (i : Nat) (bs : List Pct) (rs : List Result) (h : bs.length = rs.length) :
    (rowsFrom i bs rs).map (·.idx) = List.range' i bs.length := by
  induction bs generalizing i rs with
  | nil => simp [rowsFrom]
  | cons b bs ih =>
    cases rs with
    | nil => simp at h
    | cons x rs =>
      simp only [List.length_cons, Nat.add_right_cancel_iff] at h
      simp [rowsFrom, ih (i + 1) rs h, List.range'_succ]

theorem rowsFrom_map_pct (i : Nat) (bs : List Pct) (rs : List Result) (h : bs.length = rs.length) :
    (rowsFrom i bs rs).map (·.pct) = bs := by
  induction bs generalizing i rs with
  | nil => simp [rowsFrom]
  | cons b bs ih =>
    cases rs with
    | nil => simp at h
    | cons x rs =>
      simp only [List.length_cons, Nat.add_right_cancel_iff] at h
      simp [rowsFrom, ih (i + 1) rs h]

theorem rowsFrom_map_res (i : Nat) (bs : List Pct) (rs : List Result) (h : bs.length = rs.length) :
    (rowsFrom i bs rs).map (·.res) = rs := by
  induction bs generalizing i rs with
  | nil => cases rs with
    | nil => simp [rowsFrom]
    | cons x rs => simp at h
  | cons b bs ih =>
    cases rs with
    | nil => simp at h
    | cons x rs =>
      simp only [List.length_cons, Nat.add_right_cancel_iff] at h
      simp [rowsFrom, ih (i + 1) rs h]

theorem rows_map_idx {batch : List Pct} {results : List Result} (h : batch.length = results.length) :
    (rows batch results).map (·.idx) = List.range batch.length := by
  rw [rows, rowsFrom_map_idx 0 _ _ h, List.range_eq_range']

theorem rows_map_pct {batch : List Pct} {results : List Result} (h : batch.length = results.length) :
    (rows batch results).map (·.pct) = batch := rowsFrom_map_pct 0 _ _ h

theorem rows_map_res {batch : List Pct} {results : List Result} (h : batch.length = results.length) :
    (rows batch results).map (·.res) = results := rowsFrom_map_res 0 _ _ h

/-- Every pair `batch[i]`, `results[i]` is a row. -/
theorem rows_of_getElem? {batch : List Pct} {results : List Result} {i : Nat} {pct : Pct} {res : Result}
    (hb : batch[i]? = some pct) (hr : results[i]? = some res) : ⟨i, pct, res⟩ ∈ rows batch results := by
  suffices H : ∀ (bs : List Pct) (rs : List Result) (j k : Nat), bs[k]? = some pct → rs[k]? = some res →
      ⟨j + k, pct, res⟩ ∈ rowsFrom j bs rs by
    simpa [rows] using H batch results 0 i hb hr
  intro bs
  induction bs with
  | nil => intro rs j k hb; simp at hb
  | cons b bs ih =>
    intro rs j k hb hr
    cases rs with
    | nil => simp at hr
    | cons x rs =>
      cases k with
      | zero =>
        simp at hb hr
        simp [rowsFrom, hb, hr]
      | succ k =>
        simp at hb hr
        have := ih rs (j + 1) k hb hr
        simp only [rowsFrom, List.mem_cons]
        right
        have e : j + 1 + k = j + (k + 1) := by omega
        rw [← e]; exact this

/-! ### the shape checks -/

theorem metaPresent_iff (rs : List Result) :
    metaPresent rs = true ↔ ∀ r ∈ rs, r.isSuccess = true → r.md.isSome = true := by
  induction rs with
  | nil => simp [metaPresent]
  | cons r rs ih =>
    unfold metaPresent
    cases hs : r.isSuccess <;> cases hm : r.md <;> simp [hs, hm, ih]

theorem richCheckTx_ok_iff (reply : Reply) (n : Nat) (results : List Result) :
    richCheckTx reply n = .ok results ↔
      reply = .checkTx results ∧ results.length = n ∧ metaPresent results = true := by
  cases reply with
  | callError => simp [richCheckTx]
  | otherBody => simp [richCheckTx]
  | checkTx rs =>
    unfold richCheckTx
    by_cases h1 : rs.length = n
    · cases h2 : metaPresent rs
      · simp only [h1, h2]
        simp
        intro h; subst h; simp [h2]
      · simp only [h1, h2]
        simp
        intro h; subst h; exact ⟨h1, h2⟩
    · simp [h1]
      intro h; subst h; intro h; exact absurd h h1

/-! ### the first loop against a total step -/

/-- `notifySubmitter` with the row at hand. -/
def notifyPure (r : Row) (res : Result) (out : Out) : Out :=
  if r.pct.hasNotify then { out with notifs := out.notifs ++ [(r.idx, res)] } else out

/-- One iteration of the first loop with the row at hand. -/
def stepC (acc : Acc) (r : Row) : Acc :=
  if !r.res.isSuccess then
    { acc with out := notifyPure r r.res { acc.out with rejected := acc.out.rejected + 1,
                                                         seenRemoved := acc.out.seenRemoved ++ [r.pct.hash] } }
  else if r.pct.discard then
    { acc with out := notifyPure r r.res acc.out }
  else
    let acc' := if !r.pct.checked then
        { acc with newTxs := acc.newTxs ++ [r.pct],
                   out := { acc.out with accepted := acc.out.accepted + 1 } }
      else acc
    { acc' with goodPcts := acc'.goodPcts ++ [r.pct], batchIndices := acc'.batchIndices ++ [r.idx] }

theorem notifySubmitter_eq {batch : List Pct} {results : List Result} {i : Nat} {pct : Pct} {res : Result}
    (hb : batch[i]? = some pct) (hr : results[i]? = some res) (out : Out) :
    notifySubmitter batch results i out = .done (notifyPure ⟨i, pct, res⟩ res out) := by
  unfold notifySubmitter notifyPure
  simp only [index, hb, hr, bind, Outcome.bind, pure]
  cases pct.hasNotify <;> rfl

theorem classify_eq (batch : List Pct) (results : List Result) :
    ∀ (rs : List Result) (bs : List Pct) (i : Nat) (acc : Acc),
      batch.drop i = bs → results.drop i = rs → bs.length = rs.length →
      classify batch results rs i acc = .done ((rowsFrom i bs rs).foldl stepC acc) := by
  intro rs
  induction rs with
  | nil =>
    intro bs i acc _ _ hl
    cases bs with
    | nil => simp [classify, rowsFrom]
    | cons b bs => simp at hl
  | cons res rest ih =>
    intro bs i acc hb hr hl
    cases bs with
    | nil => simp at hl
    | cons b bs' =>
      obtain ⟨hbi, hbd⟩ := drop_cons hb
      obtain ⟨hri, hrd⟩ := drop_cons hr
      have hl' : bs'.length = rest.length := by simpa using hl
      simp only [rowsFrom, List.foldl_cons]
      unfold classify
      by_cases hs : res.isSuccess = true
      · by_cases hd : b.discard = true
        · simp only [hs, hd, index, hbi, bind, Outcome.bind, Bool.not_true, Bool.false_eq_true, if_false,
            if_true]
          rw [notifySubmitter_eq hbi hri]
          simp only [ih bs' (i + 1) _ hbd hrd hl']
          simp [stepC, hs, hd]
        · simp only [hs, hd, index, hbi, bind, Outcome.bind, Bool.not_true, Bool.false_eq_true, if_false]
          rw [ih bs' (i + 1) _ hbd hrd hl']
          simp [stepC, hs, hd]
      · have hs' : res.isSuccess = false := by simpa using hs
        simp only [hs', index, hbi, bind, Outcome.bind, Bool.not_false, if_true]
        rw [notifySubmitter_eq hbi hri]
        simp only [ih bs' (i + 1) _ hbd hrd hl']
        simp [stepC, hs']

/-! ### what the first loop produces, declaratively -/

/-- The result of the first loop over the rows `rs`, as filters and maps. -/
def classifySpec (acc : Acc) (rs : List Row) : Acc :=
  { newTxs := acc.newTxs ++ (rs.filter (fun r => r.good && !r.pct.checked)).map (·.pct)
    goodPcts := acc.goodPcts ++ (rs.filter (·.good)).map (·.pct)
    batchIndices := acc.batchIndices ++ (rs.filter (·.good)).map (·.idx)
    out :=
      { rejected := acc.out.rejected + (rs.filter (fun r => !r.res.isSuccess)).length
        accepted := acc.out.accepted + (rs.filter (fun r => r.good && !r.pct.checked)).length
        seenRemoved := acc.out.seenRemoved ++ (rs.filter (fun r => !r.res.isSuccess)).map (·.pct.hash)
        notifs := acc.out.notifs ++
          (rs.filter (fun r => !r.good && r.pct.hasNotify)).map (fun r => (r.idx, r.res))
        adds := acc.out.adds
        seenPut := acc.out.seenPut
        kick := acc.out.kick
        broadcast := acc.out.broadcast } }

theorem classifySpec_nil (acc : Acc) : classifySpec acc [] = acc := by
  cases acc with
  | mk n g b o => cases o; simp [classifySpec]

theorem classifySpec_cons (acc : Acc) (r : Row) (rs : List Row) :
    classifySpec (stepC acc r) rs = classifySpec acc (r :: rs) := by
  cases hs : r.res.isSuccess <;> cases hd : r.pct.discard <;> cases hc : r.pct.checked <;>
    cases hn : r.pct.hasNotify <;>
    simp [classifySpec, stepC, notifyPure, Row.good, hs, hd, hc, hn, Nat.add_assoc, Nat.add_comm 1]

theorem foldl_stepC (rs : List Row) (acc : Acc) : rs.foldl stepC acc = classifySpec acc rs := by
  induction rs generalizing acc with
  | nil => rw [classifySpec_nil]; rfl
  | cons r rs ih => rw [List.foldl_cons, ih, classifySpec_cons]

/-! ### the second loop against a total step -/

/-- The state-seq workaround (txpool.go:599-604): the metadata passed on and the new `stateSeqNums`. -/
def fixMeta (seqs : List (Nat × Nat)) (m : Meta) : Meta × List (Nat × Nat) :=
  match seqs.lookup m.sender with
  | some seq => ({ m with senderStateSeq := seq }, seqs)
  | none => (m, (m.sender, m.senderStateSeq) :: seqs)

/-- One iteration of the second loop with the row at hand. -/
def stepQ (addFails : AddOracle) (st : QSt) (r : Row) : QSt :=
  let p := fixMeta st.seqs r.meta
  let failed := addFails st.out.adds r.pct p.1
  let out := notifyPure r { r.res with md := some p.1 }
    { st.out with adds := st.out.adds ++ [{ idx := r.idx, tx := r.pct, md := p.1, failed := failed }] }
  { seqs := p.2
    out := if !failed && !r.pct.checked then { out with seenPut := out.seenPut ++ [r.pct.hash] } else out }

theorem queueGood_eq (addFails : AddOracle) (batch : List Pct) (results : List Result)
    (batchIndices : List Nat) :
    ∀ (gs : List Row) (i : Nat) (st : QSt),
      batchIndices.drop i = gs.map (·.idx) →
      (∀ r ∈ gs, batch[r.idx]? = some r.pct ∧ results[r.idx]? = some r.res ∧ r.res.md.isSome = true) →
      queueGood addFails batch results batchIndices (gs.map (·.pct)) i st =
        .done (gs.foldl (stepQ addFails) st) := by
  intro gs
  induction gs with
  | nil => intro i st _ _; simp [queueGood]
  | cons r gs ih =>
    intro i st hb hall
    obtain ⟨hbi, hbd⟩ := drop_cons (by simpa using hb : batchIndices.drop i = r.idx :: gs.map (·.idx))
    obtain ⟨hp, hr, hm⟩ := hall r (by simp)
    obtain ⟨m, hm⟩ := Option.isSome_iff_exists.mp hm
    have hmeta : r.meta = m := by simp [Row.meta, hm]
    have hlt : r.idx < results.length := by
      rcases Nat.lt_or_ge r.idx results.length with h | h
      · exact h
      · rw [List.getElem?_eq_none h] at hr; cases hr
    have hall' : ∀ r ∈ gs, batch[r.idx]? = some r.pct ∧ results[r.idx]? = some r.res ∧
        r.res.md.isSome = true := fun r' h' => hall r' (by simp [h'])
    simp only [List.map_cons, List.foldl_cons]
    unfold queueGood
    simp only [index, hbi, hr, deref, hm, bind, Outcome.bind]
    cases hl : st.seqs.lookup m.sender with
    | none =>
      simp only []
      rw [notifySubmitter_eq (pct := r.pct) (res := { r.res with md := some m }) hp
        (by rw [List.getElem?_set_self hlt])]
      simp only []
      rw [ih (i + 1) _ hbd hall']
      simp [stepQ, fixMeta, hmeta, hl, notifyPure]
    | some seq =>
      simp only []
      rw [notifySubmitter_eq (pct := r.pct)
        (res := { r.res with md := some { m with senderStateSeq := seq } }) hp
        (by rw [List.getElem?_set_self hlt])]
      simp only []
      rw [ih (i + 1) _ hbd hall']
      simp [stepQ, fixMeta, hmeta, hl, notifyPure]

/-! ### what the second loop produces, declaratively -/

/-- The metadata that reaches the main queue for row `r` when `goods` are the rows queued in this batch: the
row's own metadata, with the state sequence number of the FIRST queued row of the same sender. -/
def fixSeq (goods : List Row) (r : Row) : Meta :=
  match goods.find? (fun e => e.meta.sender == r.meta.sender) with
  | some e => { r.meta with senderStateSeq := e.meta.senderStateSeq }
  | none => r.meta

/-- `stateSeqNums` after the rows `pre`: sender ↦ state seq of the first row of that sender. -/
def SeqInv (pre : List Row) (seqs : List (Nat × Nat)) : Prop :=
  ∀ s, seqs.lookup s = (pre.find? (fun e => e.meta.sender == s)).map (·.meta.senderStateSeq)

theorem seqInv_nil : SeqInv [] [] := by intro s; simp

theorem fixMeta_fst {pre : List Row} {seqs : List (Nat × Nat)} (hinv : SeqInv pre seqs) (r : Row)
    (post : List Row) : (fixMeta seqs r.meta).1 = fixSeq (pre ++ r :: post) r := by
  have h := hinv r.meta.sender
  unfold fixMeta fixSeq
  cases hl : seqs.lookup r.meta.sender with
  | none =>
    rw [hl] at h
    have hpre : pre.find? (fun e => e.meta.sender == r.meta.sender) = none := by
      cases hf : pre.find? (fun e => e.meta.sender == r.meta.sender) with
      | none => rfl
      | some e => rw [hf] at h; simp at h
    simp [List.find?_append, hpre]
  | some seq =>
    rw [hl] at h
    cases hf : pre.find? (fun e => e.meta.sender == r.meta.sender) with
    | none => rw [hf] at h; simp at h
    | some e =>
      rw [hf] at h
      simp at h
      simp [List.find?_append, hf, h]

theorem fixMeta_inv {pre : List Row} {seqs : List (Nat × Nat)} (hinv : SeqInv pre seqs) (r : Row) :
    SeqInv (pre ++ [r]) (fixMeta seqs r.meta).2 := by
  intro s
  have h := hinv s
  have hr := hinv r.meta.sender
  unfold fixMeta
  cases hl : seqs.lookup r.meta.sender with
  | none =>
    rw [hl] at hr
    simp only [List.lookup_cons, List.find?_append]
    by_cases hs : s = r.meta.sender
    · subst hs
      cases hf : pre.find? (fun e => e.meta.sender == r.meta.sender) with
      | none => simp
      | some e => rw [hf] at hr; simp at hr
    · have hs' : (s == r.meta.sender) = false := by simpa using hs
      have hs'' : (r.meta.sender == s) = false := by simpa using (Ne.symm hs)
      simp [hs', hs'', h]
  | some seq =>
    rw [hl] at hr
    simp only [List.find?_append]
    by_cases hs : s = r.meta.sender
    · subst hs
      cases hf : pre.find? (fun e => e.meta.sender == r.meta.sender) with
      | none => rw [hf] at hr; simp at hr
      | some e => rw [h, hf]; simp
    · have hs'' : (r.meta.sender == s) = false := by simpa using (Ne.symm hs)
      simp [hs'', h]

/-- The part of an `AddCall` that does not depend on the queue's verdict. -/
def AddCall.core (a : AddCall) : Nat × Pct × Meta := (a.idx, a.tx, a.md)

theorem stepQ_seqs (addFails : AddOracle) (st : QSt) (r : Row) :
    (stepQ addFails st r).seqs = (fixMeta st.seqs r.meta).2 := rfl

theorem stepQ_adds (addFails : AddOracle) (st : QSt) (r : Row) :
    (stepQ addFails st r).out.adds = st.out.adds ++
      [{ idx := r.idx, tx := r.pct, md := (fixMeta st.seqs r.meta).1,
         failed := addFails st.out.adds r.pct (fixMeta st.seqs r.meta).1 }] := by
  unfold stepQ notifyPure
  simp only []
  generalize addFails st.out.adds r.pct (fixMeta st.seqs r.meta).1 = f
  cases r.pct.hasNotify <;> cases r.pct.checked <;> cases f <;> simp

theorem stepQ_notifs (addFails : AddOracle) (st : QSt) (r : Row) :
    (stepQ addFails st r).out.notifs = st.out.notifs ++
      (if r.pct.hasNotify then [(r.idx, { r.res with md := some (fixMeta st.seqs r.meta).1 })] else []) := by
  unfold stepQ notifyPure
  simp only []
  generalize addFails st.out.adds r.pct (fixMeta st.seqs r.meta).1 = f
  cases r.pct.hasNotify <;> cases r.pct.checked <;> cases f <;> simp

theorem stepQ_seenPut (addFails : AddOracle) (st : QSt) (r : Row) :
    (stepQ addFails st r).out.seenPut = st.out.seenPut ++
      (if !addFails st.out.adds r.pct (fixMeta st.seqs r.meta).1 && !r.pct.checked then [r.pct.hash]
       else []) := by
  unfold stepQ notifyPure
  simp only []
  generalize addFails st.out.adds r.pct (fixMeta st.seqs r.meta).1 = f
  cases r.pct.hasNotify <;> cases r.pct.checked <;> cases f <;> simp

theorem stepQ_frame (addFails : AddOracle) (st : QSt) (r : Row) :
    (stepQ addFails st r).out.rejected = st.out.rejected ∧
    (stepQ addFails st r).out.accepted = st.out.accepted ∧
    (stepQ addFails st r).out.seenRemoved = st.out.seenRemoved ∧
    (stepQ addFails st r).out.kick = st.out.kick ∧
    (stepQ addFails st r).out.broadcast = st.out.broadcast := by
  unfold stepQ notifyPure
  simp only []
  generalize addFails st.out.adds r.pct (fixMeta st.seqs r.meta).1 = f
  cases r.pct.hasNotify <;> cases r.pct.checked <;> cases f <;> simp

theorem foldl_stepQ_frame (addFails : AddOracle) (post : List Row) (st : QSt) :
    (post.foldl (stepQ addFails) st).out.rejected = st.out.rejected ∧
    (post.foldl (stepQ addFails) st).out.accepted = st.out.accepted ∧
    (post.foldl (stepQ addFails) st).out.seenRemoved = st.out.seenRemoved ∧
    (post.foldl (stepQ addFails) st).out.kick = st.out.kick ∧
    (post.foldl (stepQ addFails) st).out.broadcast = st.out.broadcast := by
  induction post generalizing st with
  | nil => simp
  | cons r post ih =>
    obtain ⟨h1, h2, h3, h4, h5⟩ := stepQ_frame addFails st r
    obtain ⟨i1, i2, i3, i4, i5⟩ := ih (stepQ addFails st r)
    simp only [List.foldl_cons]
    exact ⟨i1.trans h1, i2.trans h2, i3.trans h3, i4.trans h4, i5.trans h5⟩

theorem foldl_stepQ_adds (addFails : AddOracle) :
    ∀ (post pre : List Row) (st : QSt), SeqInv pre st.seqs →
      (post.foldl (stepQ addFails) st).out.adds.map AddCall.core =
        st.out.adds.map AddCall.core ++ post.map (fun r => (r.idx, r.pct, fixSeq (pre ++ post) r)) := by
  intro post
  induction post with
  | nil => intro pre st _; simp
  | cons r post ih =>
    intro pre st hinv
    have h := ih (pre ++ [r]) (stepQ addFails st r) (by rw [stepQ_seqs]; exact fixMeta_inv hinv r)
    simp only [List.foldl_cons]
    rw [h, stepQ_adds]
    simp [AddCall.core, fixMeta_fst hinv r post]

theorem foldl_stepQ_notifs (addFails : AddOracle) :
    ∀ (post pre : List Row) (st : QSt), SeqInv pre st.seqs →
      (post.foldl (stepQ addFails) st).out.notifs =
        st.out.notifs ++ (post.filter (·.pct.hasNotify)).map
          (fun r => (r.idx, { r.res with md := some (fixSeq (pre ++ post) r) })) := by
  intro post
  induction post with
  | nil => intro pre st _; simp
  | cons r post ih =>
    intro pre st hinv
    have h := ih (pre ++ [r]) (stepQ addFails st r) (by rw [stepQ_seqs]; exact fixMeta_inv hinv r)
    simp only [List.foldl_cons]
    rw [h, stepQ_notifs]
    cases hn : r.pct.hasNotify <;> simp [hn, fixMeta_fst hinv r post]

/-- `seenCache.Put` is called for exactly the new transactions the queue took. -/
def SeenPutOk (out : Out) : Prop :=
  out.seenPut = (out.adds.filter (fun a => !a.failed && !a.tx.checked)).map (·.tx.hash)

theorem foldl_stepQ_seenPut (addFails : AddOracle) (post : List Row) (st : QSt) (h : SeenPutOk st.out) :
    SeenPutOk (post.foldl (stepQ addFails) st).out := by
  induction post generalizing st with
  | nil => exact h
  | cons r post ih =>
    simp only [List.foldl_cons]
    apply ih
    unfold SeenPutOk at *
    rw [stepQ_seenPut, stepQ_adds, h]
    generalize addFails st.out.adds r.pct (fixMeta st.seqs r.meta).1 = f
    cases f <;> cases hc : r.pct.checked <;> simp [hc]

/-- Every recorded verdict is the oracle's verdict on the calls made before it. -/
def OracleOk (addFails : AddOracle) (adds : List AddCall) : Prop :=
  ∀ k (h : k < adds.length), adds[k].failed = addFails (adds.take k) adds[k].tx adds[k].md

theorem foldl_stepQ_oracle (addFails : AddOracle) (post : List Row) (st : QSt)
    (h : OracleOk addFails st.out.adds) : OracleOk addFails (post.foldl (stepQ addFails) st).out.adds := by
  induction post generalizing st with
  | nil => exact h
  | cons r post ih =>
    simp only [List.foldl_cons]
    apply ih
    rw [stepQ_adds]
    intro k hk
    simp only [List.length_append, List.length_cons, List.length_nil] at hk
    by_cases hlt : k < st.out.adds.length
    · rw [List.getElem_append_left hlt, List.take_append_of_le_length (Nat.le_of_lt hlt)]
      exact h k hlt
    · have hk' : k = st.out.adds.length := by omega
      subst hk'
      simp

/-! ### the whole of `checkTxBatch` -/

/-- The rows that go to the main queue. -/
def goods (batch : List Pct) (results : List Result) : List Row := (rows batch results).filter (·.good)

/-- What `checkTxBatch` produces on a well-formed response, in terms of the rows. -/
def specOut (addFails : AddOracle) (batch : List Pct) (queueSize : Nat) (results : List Result) : Out :=
  let acc := classifySpec {} (rows batch results)
  let st := (goods batch results).foldl (stepQ addFails)
    { seqs := [], out := { acc.out with kick := decide (queueSize > 0) } }
  if acc.newTxs.length != 0 then { st.out with broadcast := acc.newTxs.map (·.hash) } else st.out

theorem ite_done {α : Type} {c : Prop} [Decidable c] (a b : α) :
    (if c then Outcome.done a else Outcome.done b) = Outcome.done (if c then a else b) := by
  split <;> rfl

theorem goods_wf {batch : List Pct} {results : List Result} (hm : metaPresent results = true) :
    ∀ r ∈ goods batch results,
      batch[r.idx]? = some r.pct ∧ results[r.idx]? = some r.res ∧ r.res.md.isSome = true := by
  intro r hr
  obtain ⟨hrow, hgood⟩ := List.mem_filter.mp hr
  obtain ⟨h1, h2⟩ := rows_mem hrow
  refine ⟨h1, h2, ?_⟩
  have hmem : r.res ∈ results := List.mem_of_getElem? h2
  have hs : r.res.isSuccess = true := by
    simp only [Row.good, Bool.and_eq_true] at hgood; exact hgood.1
  exact (metaPresent_iff results).mp hm r.res hmem hs

theorem checkTxBatch_eq (addFails : AddOracle) (batch : List Pct) (queueSize : Nat) (results : List Result)
    (hl : results.length = batch.length) (hm : metaPresent results = true) :
    checkTxBatch addFails batch queueSize results = .done (specOut addFails batch queueSize results) := by
  unfold checkTxBatch
  rw [classify_eq batch results results batch 0 {} rfl rfl hl.symm, foldl_stepC]
  simp only [bind, Outcome.bind]
  have hg : (classifySpec {} (rowsFrom 0 batch results)).goodPcts = (goods batch results).map (·.pct) := by
    simp [classifySpec, goods, rows]
  have hi : (classifySpec {} (rowsFrom 0 batch results)).batchIndices = (goods batch results).map (·.idx) := by
    simp [classifySpec, goods, rows]
  have hn : (classifySpec {} (rowsFrom 0 batch results)).newTxs =
      ((goods batch results).filter (fun r => !r.pct.checked)).map (·.pct) := by
    simp [classifySpec, goods, rows, List.filter_filter, Bool.and_comm]
  by_cases h0 : (goods batch results) = []
  · have : (classifySpec {} (rowsFrom 0 batch results)).goodPcts.length = 0 := by simp [hg, h0]
    simp only [this, beq_self_eq_true, if_true]
    unfold specOut
    have hn' : (classifySpec {} (rows batch results)).newTxs.length = 0 := by
      rw [rows, hn, h0]; rfl
    simp only [hn', h0, List.foldl_nil]
    rfl
  · have : ((classifySpec {} (rowsFrom 0 batch results)).goodPcts.length == 0) = false := by
      rw [hg]
      cases hgs : goods batch results with
      | nil => exact absurd hgs h0
      | cons a l => simp
    simp only [this, Bool.false_eq_true, if_false]
    rw [hg, hi, queueGood_eq addFails batch results _ (goods batch results) 0 _ (by simp) (goods_wf hm)]
    unfold specOut
    simp only [rows, pure]
    rw [ite_done]
    congr 1

theorem specOut_fields (addFails : AddOracle) (batch : List Pct) (queueSize : Nat) (results : List Result) :
    let acc := classifySpec {} (rows batch results)
    let st := (goods batch results).foldl (stepQ addFails)
      { seqs := [], out := { acc.out with kick := decide (queueSize > 0) } }
    let out := specOut addFails batch queueSize results
    out.adds = st.out.adds ∧ out.notifs = st.out.notifs ∧ out.seenPut = st.out.seenPut ∧
    out.rejected = st.out.rejected ∧ out.accepted = st.out.accepted ∧
    out.seenRemoved = st.out.seenRemoved ∧ out.kick = st.out.kick := by
  simp only [specOut]
  split <;> simp

theorem specOut_adds_core (addFails : AddOracle) (batch : List Pct) (queueSize : Nat) (results : List Result) :
    (specOut addFails batch queueSize results).adds.map AddCall.core =
      (goods batch results).map (fun r => (r.idx, r.pct, fixSeq (goods batch results) r)) := by
  rw [(specOut_fields addFails batch queueSize results).1]
  rw [foldl_stepQ_adds addFails (goods batch results) [] _ seqInv_nil]
  simp [classifySpec]

theorem specOut_notifs (addFails : AddOracle) (batch : List Pct) (queueSize : Nat) (results : List Result) :
    (specOut addFails batch queueSize results).notifs =
      ((rows batch results).filter (fun r => !r.good && r.pct.hasNotify)).map (fun r => (r.idx, r.res)) ++
      ((goods batch results).filter (·.pct.hasNotify)).map
        (fun r => (r.idx, { r.res with md := some (fixSeq (goods batch results) r) })) := by
  rw [(specOut_fields addFails batch queueSize results).2.1]
  rw [foldl_stepQ_notifs addFails (goods batch results) [] _ seqInv_nil]
  simp [classifySpec]

theorem specOut_seenPut (addFails : AddOracle) (batch : List Pct) (queueSize : Nat) (results : List Result) :
    SeenPutOk (specOut addFails batch queueSize results) := by
  obtain ⟨h1, _, h3, _⟩ := specOut_fields addFails batch queueSize results
  unfold SeenPutOk
  rw [h1, h3]
  exact foldl_stepQ_seenPut addFails _ _ (by simp [SeenPutOk, classifySpec])

theorem specOut_oracle (addFails : AddOracle) (batch : List Pct) (queueSize : Nat) (results : List Result) :
    OracleOk addFails (specOut addFails batch queueSize results).adds := by
  rw [(specOut_fields addFails batch queueSize results).1]
  exact foldl_stepQ_oracle addFails _ _ (by intro k hk; simp [classifySpec] at hk)

theorem specOut_first_loop (addFails : AddOracle) (batch : List Pct) (queueSize : Nat)
    (results : List Result) :
    (specOut addFails batch queueSize results).seenRemoved =
      ((rows batch results).filter (fun r => !r.res.isSuccess)).map (·.pct.hash) ∧
    (specOut addFails batch queueSize results).rejected =
      ((rows batch results).filter (fun r => !r.res.isSuccess)).length ∧
    (specOut addFails batch queueSize results).accepted =
      ((goods batch results).filter (fun r => !r.pct.checked)).length ∧
    (specOut addFails batch queueSize results).kick = decide (queueSize > 0) := by
  obtain ⟨_, _, _, h4, h5, h6, h7⟩ := specOut_fields addFails batch queueSize results
  obtain ⟨f1, f2, f3, f4, _⟩ := foldl_stepQ_frame addFails (goods batch results)
    { seqs := [], out := { (classifySpec {} (rows batch results)).out with kick := decide (queueSize > 0) } }
  rw [h4, h5, h6, h7, f1, f2, f3, f4]
  simp [classifySpec, goods, List.filter_filter, Bool.and_comm]

theorem specOut_broadcast (addFails : AddOracle) (batch : List Pct) (queueSize : Nat) (results : List Result) :
    (specOut addFails batch queueSize results).broadcast =
      ((goods batch results).filter (fun r => !r.pct.checked)).map (·.pct.hash) := by
  obtain ⟨_, _, _, _, f5⟩ := foldl_stepQ_frame addFails (goods batch results)
    { seqs := [], out := { (classifySpec {} (rows batch results)).out with kick := decide (queueSize > 0) } }
  have hn : (classifySpec {} (rows batch results)).newTxs =
      ((goods batch results).filter (fun r => !r.pct.checked)).map (·.pct) := by
    simp [classifySpec, goods, List.filter_filter, Bool.and_comm]
  simp only [specOut]
  split
  · simp [hn]
  · rename_i h
    rw [f5]
    have : (classifySpec {} (rows batch results)).newTxs = [] := by
      simpa using h
    have h2 : (goods batch results).filter (fun r => !r.pct.checked) = [] := by
      rw [this] at hn
      exact List.map_eq_nil_iff.mp hn.symm
    rw [h2]
    simp [classifySpec]

/-! ### rows and indices -/

/-- A predicate on rows that only looks at the position, filtered: the positions. -/
theorem filter_rows_idx {batch : List Pct} {results : List Result} (h : batch.length = results.length)
    (P : Row → Bool) (Q : Nat → Bool) (hPQ : ∀ r ∈ rows batch results, P r = Q r.idx) :
    ((rows batch results).filter P).map (·.idx) = (List.range batch.length).filter Q := by
  rw [← rows_map_idx h, List.filter_map]
  congr 1
  apply List.filter_congr
  intro r hr
  simp [hPQ r hr]

theorem retryBatch_eq (batch queue : List Pct) : retryBatch batch queue = batch.reverse ++ queue := by
  unfold retryBatch
  induction batch generalizing queue with
  | nil => rfl
  | cons b bs ih => simp [List.foldl_cons, ih]

/-! ### statement-level vocabulary (positions instead of rows) -/

/-- The reply passes the shape checks of `richRuntime.CheckTx` for a batch of `n` inputs. -/
def WellFormed (reply : Reply) (n : Nat) : Prop :=
  ∃ results, reply = .checkTx results ∧ results.length = n ∧
    ∀ r ∈ results, r.isSuccess = true → r.md.isSome = true

/-- position `i` is a successful result for a transaction that is not to be discarded -/
def goodAt (batch : List Pct) (results : List Result) (i : Nat) : Bool :=
  match batch[i]?, results[i]? with
  | some p, some r => r.isSuccess && !p.discard
  | _, _ => false

/-- position `i` is a failed result -/
def failedAt (results : List Result) (i : Nat) : Bool :=
  match results[i]? with
  | some r => !r.isSuccess
  | none => false

/-- a submitter waits for the result of position `i` (`notifyCh != nil`) -/
def waitingAt (batch : List Pct) (i : Nat) : Bool :=
  match batch[i]? with
  | some p => p.hasNotify
  | none => false

/-- the hash of the transaction at position `i` -/
def hashAt (batch : List Pct) (i : Nat) : Nat := (batch[i]?.getD default).hash

theorem wellFormed_iff (reply : Reply) (n : Nat) :
    WellFormed reply n ↔ ∃ results, richCheckTx reply n = .ok results := by
  constructor
  · rintro ⟨rs, h1, h2, h3⟩
    exact ⟨rs, (richCheckTx_ok_iff reply n rs).mpr ⟨h1, h2, (metaPresent_iff rs).mpr h3⟩⟩
  · rintro ⟨rs, h⟩
    obtain ⟨h1, h2, h3⟩ := (richCheckTx_ok_iff reply n rs).mp h
    exact ⟨rs, h1, h2, (metaPresent_iff rs).mp h3⟩

theorem row_good_eq {batch : List Pct} {results : List Result} :
    ∀ r ∈ rows batch results, r.good = goodAt batch results r.idx := by
  intro r hr
  obtain ⟨h1, h2⟩ := rows_mem hr
  simp [goodAt, h1, h2, Row.good]

theorem row_failed_eq {batch : List Pct} {results : List Result} :
    ∀ r ∈ rows batch results, (!r.res.isSuccess) = failedAt results r.idx := by
  intro r hr
  obtain ⟨_, h2⟩ := rows_mem hr
  simp [failedAt, h2]

theorem row_waiting_eq {batch : List Pct} {results : List Result} :
    ∀ r ∈ rows batch results, r.pct.hasNotify = waitingAt batch r.idx := by
  intro r hr
  obtain ⟨h1, _⟩ := rows_mem hr
  simp [waitingAt, h1]

theorem row_hash_eq {batch : List Pct} {results : List Result} :
    ∀ r ∈ rows batch results, r.pct.hash = hashAt batch r.idx := by
  intro r hr
  obtain ⟨h1, _⟩ := rows_mem hr
  simp [hashAt, h1]

theorem fixSeq_own (G : List Row) (r : Row) :
    (fixSeq G r).sender = r.meta.sender ∧ (fixSeq G r).priority = r.meta.priority ∧
      (fixSeq G r).senderSeq = r.meta.senderSeq := by
  unfold fixSeq
  split <;> simp

/-- The state sequence number passed on is that of the first queued row of the same sender. -/
theorem fixSeq_stateSeq {G : List Row} {r : Row} (hr : r ∈ G) :
    ∃ e, G.find? (fun e => e.meta.sender == r.meta.sender) = some e ∧
      (fixSeq G r).senderStateSeq = e.meta.senderStateSeq := by
  unfold fixSeq
  cases hf : G.find? (fun e => e.meta.sender == r.meta.sender) with
  | none =>
    have := List.find?_eq_none.mp hf r hr
    simp at this
  | some e => exact ⟨e, rfl, rfl⟩

/-! ### the loops without the shape checks (for the necessity theorems) -/

/-- More results than inputs: the first loop runs off the end of `batch`. -/
theorem classify_surplus (batch : List Pct) (results : List Result) :
    ∀ (rs : List Result) (bs : List Pct) (i : Nat) (acc : Acc),
      batch.drop i = bs → results.drop i = rs → bs.length < rs.length →
      classify batch results rs i acc = .panic .indexOutOfRange := by
  intro rs
  induction rs with
  | nil => intro bs i acc _ _ hl; simp at hl
  | cons res rest ih =>
    intro bs i acc hb hr hl
    obtain ⟨hri, hrd⟩ := drop_cons hr
    cases bs with
    | nil =>
      have hnone : batch[i]? = none := by
        apply List.getElem?_eq_none
        exact List.drop_eq_nil_iff.mp hb
      unfold classify
      cases hs : res.isSuccess <;> simp [index, hnone, bind, Outcome.bind]
    | cons b bs' =>
      obtain ⟨hbi, hbd⟩ := drop_cons hb
      have hl' : bs'.length < rest.length := by simpa using hl
      unfold classify
      by_cases hs : res.isSuccess = true
      · by_cases hd : b.discard = true
        · simp only [hs, hd, index, hbi, bind, Outcome.bind, Bool.not_true, Bool.false_eq_true, if_false,
            if_true]
          rw [notifySubmitter_eq hbi hri]
          simp only [ih bs' (i + 1) _ hbd hrd hl']
        · simp only [hs, hd, index, hbi, bind, Outcome.bind, Bool.not_true, Bool.false_eq_true, if_false]
          rw [ih bs' (i + 1) _ hbd hrd hl']
      · have hs' : res.isSuccess = false := by simpa using hs
        simp only [hs', index, hbi, bind, Outcome.bind, Bool.not_false, if_true]
        rw [notifySubmitter_eq hbi hri]
        simp only [ih bs' (i + 1) _ hbd hrd hl']

/-- A good row without metadata among the rows to be queued: the second loop dereferences nil. -/
theorem queueGood_missing (addFails : AddOracle) (batch : List Pct) (results : List Result)
    (batchIndices : List Nat) :
    ∀ (gs : List Row) (i : Nat) (st : QSt),
      batchIndices.drop i = gs.map (·.idx) →
      (∀ r ∈ gs, batch[r.idx]? = some r.pct ∧ results[r.idx]? = some r.res) →
      (∃ r ∈ gs, r.res.md = none) →
      queueGood addFails batch results batchIndices (gs.map (·.pct)) i st = .panic .nilDeref := by
  intro gs
  induction gs with
  | nil => intro i st _ _ hex; obtain ⟨r, hr, _⟩ := hex; simp at hr
  | cons r gs ih =>
    intro i st hb hall hex
    obtain ⟨hbi, hbd⟩ := drop_cons (by simpa using hb : batchIndices.drop i = r.idx :: gs.map (·.idx))
    obtain ⟨hp, hr⟩ := hall r (by simp)
    have hall' : ∀ r ∈ gs, batch[r.idx]? = some r.pct ∧ results[r.idx]? = some r.res :=
      fun r' h' => hall r' (by simp [h'])
    simp only [List.map_cons]
    unfold queueGood
    cases hm : r.res.md with
    | none => simp only [index, hbi, hr, deref, hm, bind, Outcome.bind]
    | some m =>
      have hex' : ∃ r' ∈ gs, r'.res.md = none := by
        obtain ⟨r', hr', hn⟩ := hex
        rcases List.mem_cons.mp hr' with h | h
        · subst h; rw [hm] at hn; cases hn
        · exact ⟨r', h, hn⟩
      have hlt : r.idx < results.length := by
        rcases Nat.lt_or_ge r.idx results.length with h | h
        · exact h
        · rw [List.getElem?_eq_none h] at hr; cases hr
      simp only [index, hbi, hr, deref, hm, bind, Outcome.bind]
      cases hl : st.seqs.lookup m.sender with
      | none =>
        simp only []
        rw [notifySubmitter_eq (pct := r.pct) (res := { r.res with md := some m }) hp
          (by rw [List.getElem?_set_self hlt])]
        simp only []
        rw [ih (i + 1) _ hbd hall' hex']
      | some seq =>
        simp only []
        rw [notifySubmitter_eq (pct := r.pct)
          (res := { r.res with md := some { m with senderStateSeq := seq } }) hp
          (by rw [List.getElem?_set_self hlt])]
        simp only []
        rw [ih (i + 1) _ hbd hall' hex']

theorem checkTxBatch_surplus (addFails : AddOracle) (batch : List Pct) (queueSize : Nat)
    (results : List Result) (hl : batch.length < results.length) :
    checkTxBatch addFails batch queueSize results = .panic .indexOutOfRange := by
  unfold checkTxBatch
  rw [classify_surplus batch results results batch 0 {} rfl rfl hl]
  rfl

theorem checkTxBatch_missing (addFails : AddOracle) (batch : List Pct) (queueSize : Nat)
    (results : List Result) (hl : results.length = batch.length) {i : Nat} {pct : Pct} {res : Result}
    (hp : batch[i]? = some pct) (hr : results[i]? = some res) (hs : res.isSuccess = true)
    (hd : pct.discard = false) (hm : res.md = none) :
    checkTxBatch addFails batch queueSize results = .panic .nilDeref := by
  unfold checkTxBatch
  rw [classify_eq batch results results batch 0 {} rfl rfl hl.symm, foldl_stepC]
  simp only [bind, Outcome.bind]
  have hg : (classifySpec {} (rowsFrom 0 batch results)).goodPcts = (goods batch results).map (·.pct) := by
    simp [classifySpec, goods, rows]
  have hi : (classifySpec {} (rowsFrom 0 batch results)).batchIndices = (goods batch results).map (·.idx) := by
    simp [classifySpec, goods, rows]
  have hmem : (⟨i, pct, res⟩ : Row) ∈ goods batch results := by
    apply List.mem_filter.mpr
    exact ⟨rows_of_getElem? hp hr, by simp [Row.good, hs, hd]⟩
  have : ((classifySpec {} (rowsFrom 0 batch results)).goodPcts.length == 0) = false := by
    rw [hg]
    cases hgs : goods batch results with
    | nil => rw [hgs] at hmem; simp at hmem
    | cons a l => simp
  simp only [this, Bool.false_eq_true, if_false]
  rw [hg, hi, queueGood_missing addFails batch results _ (goods batch results) 0 _ (by simp)
    (fun r hr => rows_mem (List.mem_filter.mp hr).1) ⟨_, hmem, hm⟩]

/-! ### sample data for the witnesses and the non-vacuity examples -/

/-- a successful result with metadata: sender `s`, sender seq `q`, state seq `st` -/
def okRes (s q st : Nat) : Result :=
  { code := 0, md := some { priority := 7, sender := s, senderSeq := q, senderStateSeq := st } }

/-- three pending transactions, two of them with a waiting submitter -/
def batch3 : List Pct :=
  [{ hash := 11, hasNotify := true }, { hash := 12 }, { hash := 13, hasNotify := true }]

/-- six pending transactions: new+waiting, to be discarded+waiting, recheck+waiting, new, new+waiting,
new+waiting+local -/
def batch6 : List Pct :=
  [{ hash := 21, hasNotify := true }, { hash := 22, discard := true, hasNotify := true },
   { hash := 23, checked := true, hasNotify := true }, { hash := 24 }, { hash := 25, hasNotify := true },
   { hash := 26, hasNotify := true, isLocal := true }]

/-- a well-formed response for `batch6`: ok (sender 5), ok, ok (sender 5 again, other state seq), failed
without metadata, failed with metadata, ok (sender 9) -/
def results6 : List Result :=
  [okRes 5 1 100, okRes 6 1 50, okRes 5 2 101, { code := 3, md := none },
   { code := 4, md := some { sender := 8 } }, okRes 9 1 1]

/-- a main queue that refuses every second call -/
def everySecond : AddOracle := fun calls _ _ => calls.length % 2 == 1

end OasisProofs.Rhp.CheckTx
