import OasisProofs.Helpers.MkvsGet
/-
Order facts: bit-lexicographic order of `toBits` coincides with byte-lexicographic order of keys
(`bytes.Compare`), and the in-order traversal of a canonical trie is strictly ascending.
-/
namespace OasisProofs.Mkvs
open OasisModel.Mkvs

theorem bits_lt_append_cons (q : Bits) (b : Bool) (t : Bits) : q < q ++ b :: t := by
  induction q with
  | nil => exact List.nil_lt_cons _ _
  | cons x q ih => simp [List.cons_lt_cons_iff, ih]

theorem bits_lt_of_bit (q x y : Bits) : q ++ false :: x < q ++ true :: y := by
  induction q with
  | nil => simp only [List.nil_append, List.cons_lt_cons_iff]; exact Or.inl (by decide)
  | cons z q ih => simp [List.cons_lt_cons_iff, ih]

theorem append_lt_append_iff {u w s t : Bits} (h : u.length = w.length) :
    u ++ s < w ++ t ↔ u < w ∨ (u = w ∧ s < t) := by
  induction u generalizing w with
  | nil =>
    cases w with
    | nil => simp
    | cons y w => simp at h
  | cons x u ih =>
    cases w with
    | nil => simp at h
    | cons y w =>
      simp only [List.length_cons, Nat.add_right_cancel_iff] at h
      simp only [List.cons_append, List.cons_lt_cons_iff, ih h, List.cons.injEq]
      constructor
      · rintro (h1 | ⟨h1, h2 | ⟨h2, h3⟩⟩)
        · exact Or.inl (Or.inl h1)
        · exact Or.inl (Or.inr ⟨h1, h2⟩)
        · exact Or.inr ⟨⟨h1, h2⟩, h3⟩
      · rintro ((h1 | ⟨h1, h2⟩) | ⟨⟨h1, h2⟩, h3⟩)
        · exact Or.inl h1
        · exact Or.inr ⟨h1, Or.inl h2⟩
        · exact Or.inr ⟨h1, Or.inr ⟨h2, h3⟩⟩

theorem natBits_mod (w n : Nat) : natBits w (n % 2 ^ w) = natBits w n := by
  have key : ∀ w' , w' ≤ w → natBits w' (n % 2 ^ w) = natBits w' n := by
    intro w'
    induction w' with
    | zero => intro _; rfl
    | succ v ih =>
      intro hv
      simp only [natBits, ih (by omega)]
      have : n % 2 ^ w / 2 ^ v % 2 = n / 2 ^ v % 2 := by
        have hw : 2 ^ w = 2 ^ v * (2 * 2 ^ (w - v - 1)) := by
          rw [← Nat.pow_succ', ← Nat.pow_add]; congr 1; omega
        rw [hw, Nat.mod_mul_right_div_self, Nat.mod_mul_right_mod]
      rw [this]
  exact key w (Nat.le_refl _)

theorem natBits_lt (w n m : Nat) (hn : n < 2 ^ w) (hm : m < 2 ^ w) :
    natBits w n < natBits w m ↔ n < m := by
  induction w generalizing n m with
  | zero => simp [natBits] at *; omega
  | succ w ih =>
    simp only [natBits, List.cons_lt_cons_iff]
    rw [← natBits_mod w n, ← natBits_mod w m,
      ih (n % 2 ^ w) (m % 2 ^ w) (Nat.mod_lt _ (Nat.two_pow_pos w)) (Nat.mod_lt _ (Nat.two_pow_pos w))]
    rw [Nat.pow_succ] at hn hm
    have hn' : n / 2 ^ w < 2 := by rw [Nat.div_lt_iff_lt_mul (Nat.two_pow_pos w)]; omega
    have hm' : m / 2 ^ w < 2 := by rw [Nat.div_lt_iff_lt_mul (Nat.two_pow_pos w)]; omega
    have en := Nat.div_add_mod n (2 ^ w)
    have em := Nat.div_add_mod m (2 ^ w)
    have ln := Nat.mod_lt n (Nat.two_pow_pos w)
    have lm := Nat.mod_lt m (Nat.two_pow_pos w)
    generalize 2 ^ w = P at *
    generalize n / P = a at *
    generalize m / P = b at *
    have ha : a = 0 ∨ a = 1 := by omega
    have hb : b = 0 ∨ b = 1 := by omega
    have ft : (false < true) := by decide
    have tf : ¬ (true < false) := by decide
    rcases ha with rfl | rfl <;> rcases hb with rfl | rfl <;> simp [ft, tf] <;> omega

theorem byteBits_lt (x y : UInt8) : byteBits x < byteBits y ↔ x < y := by
  rw [UInt8.lt_iff_toNat_lt]
  exact natBits_lt 8 _ _ x.toNat_lt y.toNat_lt

/-- Bit-lexicographic order on `toBits` is byte-lexicographic order on keys. -/
theorem toBits_lt (a b : Bytes) : toBits a < toBits b ↔ a < b := by
  induction a generalizing b with
  | nil =>
    cases b with
    | nil => simp [toBits]
    | cons y b =>
      have : toBits (y :: b) ≠ [] := by
        intro h; have := congrArg List.length h; simp [toBits_length] at this
      cases hb : toBits (y :: b) with
      | nil => exact absurd hb this
      | cons z zs => simp [toBits]
  | cons x a ih =>
    cases b with
    | nil => simp [toBits]
    | cons y b =>
      rw [toBits_cons, toBits_cons,
        append_lt_append_iff (by simp [byteBits_length]), List.cons_lt_cons_iff, byteBits_lt, ih]
      constructor
      · rintro (h | ⟨h1, h2⟩)
        · exact Or.inl h
        · exact Or.inr ⟨byteBits_injective h1, h2⟩
      · rintro (h | ⟨h1, h2⟩)
        · exact Or.inl h
        · exact Or.inr ⟨by rw [h1], h2⟩

end OasisProofs.Mkvs
