import OasisProofs.Helpers.MkvsIterBits
/-
The tree iterator machine (`OasisModel.Mkvs.Iter`, iterator.go:195-341) yields exactly the items of
the canonical trie from the first key ≥ the seek key on, in ascending order.
-/
namespace OasisProofs.Mkvs
open OasisModel.Mkvs OasisModel.Mkvs.Iter

/-- The items of a node's subtree that are still to be visited when resuming in a state. -/
def part : VState → Trie → List KV
  | .before, t => t.toList
  | .at, .node _ _ l r => l.toList ++ r.toList
  | .atLeft, .node _ _ _ r => r.toList
  | _, _ => []

/-- The items still to be yielded by a resume stack (deepest atom first). -/
def remaining (pos : List Atom) : List KV := pos.flatMap (fun a => part a.st a.t)

/-- Items with key ≥ `K`, as the suffix from the first such item. -/
def firstGE (K : Bytes) (L : List KV) : List KV := L.dropWhile (fun x => decide (x.1 < K))

/-- Bit depth below an atom's node (Go: `newBitDepth`). -/
def nOf (t : Trie) (p : Bits) : Nat :=
  match t with
  | .node lab _ _ _ => (p ++ lab).length
  | _ => p.length

structure AtomGood (base : Nat) (x : KV) (a : Atom) : Prop where
  wf : WFAt a.path a.t
  node : ∃ lab lf l r, a.t = Trie.node lab lf l r
  st : a.st ≠ .before
  ge : base ≤ nOf a.t a.path
  lt : a.st = .atLeft → nOf a.t a.path < (toBits x.1).length

/-- Deeper atoms come first: bit depths do not increase along the resume stack. -/
def MonoPos (pos : List Atom) : Prop := pos.Pairwise (fun a b => nOf b.t b.path ≤ nOf a.t a.path)

theorem monoPos_snoc {pos : List Atom} {self : Atom} (h : MonoPos pos)
    (hs : ∀ a ∈ pos, nOf self.t self.path ≤ nOf a.t a.path) : MonoPos (pos ++ [self]) := by
  unfold MonoPos
  rw [List.pairwise_append]
  refine ⟨h, by simp, ?_⟩
  intro a ha b hb
  simp at hb; subst hb; exact hs a ha

/-- What a call of `doNext` over the item list `P` with bound `K` must return. -/
def Post (base : Nat) (K : Bytes) (P : List KV) (res : Option (KV × List Atom)) : Prop :=
  match firstGE K P with
  | [] => res = none
  | x :: rest => ∃ pos, res = some (x, pos) ∧ remaining pos = rest ∧ (∀ a ∈ pos, AtomGood base x a) ∧
      MonoPos pos

theorem atomGood_mono {b b' : Nat} (h : b ≤ b') {x : KV} {a : Atom} (g : AtomGood b' x a) : AtomGood b x a :=
  ⟨g.wf, g.node, g.st, Nat.le_trans h g.ge, g.lt⟩

theorem firstGE_append (K : Bytes) (A B : List KV) :
    firstGE K (A ++ B) = match firstGE K A with
      | [] => firstGE K B
      | x :: rest => x :: rest ++ B := by
  induction A with
  | nil => rfl
  | cons a A ih =>
    simp only [firstGE, List.cons_append, List.dropWhile_cons]
    by_cases h : a.1 < K
    · simp only [h, decide_true, if_true]; exact ih
    · simp [h]

theorem firstGE_congr {K K' : Bytes} {L : List KV} (h : ∀ x ∈ L, (x.1 < K ↔ x.1 < K')) :
    firstGE K L = firstGE K' L := by
  induction L with
  | nil => rfl
  | cons a L ih =>
    simp only [firstGE, List.dropWhile_cons]
    have ha := h a (by simp)
    have ih' := ih (fun x hx => h x (List.mem_cons_of_mem _ hx))
    simp only [firstGE] at ih'
    by_cases h1 : a.1 < K
    · simp [h1, ha.1 h1, ih']
    · have h2 : ¬ a.1 < K' := fun hh => h1 (ha.2 hh)
      simp [h1, h2]

theorem firstGE_all_below {K : Bytes} {L : List KV} (h : ∀ x ∈ L, x.1 < K) : firstGE K L = [] := by
  induction L with
  | nil => rfl
  | cons a L ih =>
    simp only [firstGE, List.dropWhile_cons, h a (by simp), decide_true, if_true]
    exact ih (fun x hx => h x (List.mem_cons_of_mem _ hx))

theorem firstGE_none_below {K : Bytes} {L : List KV} (h : ∀ x ∈ L, ¬ x.1 < K) : firstGE K L = L := by
  cases L with
  | nil => rfl
  | cons a L => simp [firstGE, List.dropWhile_cons, h a (by simp)]

theorem firstGE_sublist (K : Bytes) (L : List KV) : (firstGE K L).Sublist L := List.dropWhile_sublist _

theorem mem_of_firstGE {K : Bytes} {L : List KV} {x : KV} {rest : List KV} (h : firstGE K L = x :: rest) :
    x ∈ L := (firstGE_sublist K L).subset (by rw [h]; simp)

theorem remaining_append (a b : List Atom) : remaining (a ++ b) = remaining a ++ remaining b := by
  simp [remaining, List.flatMap_append]

theorem remaining_single (a : Atom) : remaining [a] = part a.st a.t := by simp [remaining]

/-- The bits of a key below a child: path, branch bit, rest. -/
theorem child_bits {q : Bits} {c : Bool} {k : Bytes} (h : q ++ [c] <+: toBits k) :
    ∃ y, toBits k = q ++ c :: y := by
  obtain ⟨y, hy⟩ := h
  exact ⟨y, by rw [← hy]; simp⟩

theorem nOf_ge (t : Trie) (p : Bits) : p.length ≤ nOf t p := by
  cases t <;> simp [nOf]


theorem takeFirst_iff (q : Bits) (K : Bytes) {j : Nat} (hpq : toBits (packBits q) = q ++ zeros j) :
    takeFirst q K = true ↔ TakeFirst q (toBits K) j := by
  simp only [takeFirst, TakeFirst, Bool.and_eq_true, decide_eq_true_eq, toBits_length, ← hpq, toBits_lt]
  constructor
  · rintro ⟨⟨h1, h2⟩, h3⟩; exact ⟨h1, h2, h3⟩
  · rintro ⟨h1, h2, h3⟩; exact ⟨⟨h1, h2⟩, h3⟩

theorem keyNotLonger_iff (q : Bits) (K : Bytes) : keyNotLonger q K = true ↔ (toBits K).length ≤ q.length := by
  simp [keyNotLonger, toBits_length]

/-- Keys below a child are byte strings longer than the node's path: at least `up8` bits. -/
theorem child_len {q : Bits} {c : Bool} {k : Bytes} (h : q ++ [c] <+: toBits k) :
    up8 q.length ≤ (toBits k).length := by
  apply up8_le_of_aligned (toBits_length_mod k)
  have := h.length_le
  simp at this; omega

/-- The body of `visitAt`: given `doNext` on the children (in `visitBefore`) is right for every
bound, the node yields the first item ≥ `K` among left ++ right. -/
theorem fromAt_spec {p lab : Bits} {lf : Option KV} {l r : Trie} (hwf : WFAt p (.node lab lf l r))
    (K : Bytes) (st0 : VState) (goL goR : Bytes → Option (KV × List Atom))
    (hL : ∀ k, Post (nOf l (p ++ lab)) k l.toList (goL k))
    (hR : ∀ k, Post (nOf r (p ++ lab)) k r.toList (goR k)) :
    Post (p ++ lab).length K (l.toList ++ r.toList)
      (fromAt ⟨.node lab lf l r, p, st0⟩ (p ++ lab) K goL goR) := by
  obtain ⟨hlf, hl, hlb, hr, hrb, hc⟩ := hwf
  have hwf : WFAt p (.node lab lf l r) := ⟨hlf, hl, hlb, hr, hrb, hc⟩
  generalize hq : p ++ lab = q at *
  obtain ⟨j, _, _, hpq⟩ := toBits_packBits q
  have htf := takeFirst_iff q K hpq
  have hknl := keyNotLonger_iff q K
  -- facts about the items below
  have lbits : ∀ x ∈ l.toList, ∃ y, toBits x.1 = q ++ false :: y := fun x hx => child_bits (hlb x hx)
  have rbits : ∀ x ∈ r.toList, ∃ y, toBits x.1 = q ++ true :: y := fun x hx => child_bits (hrb x hx)
  have llen : ∀ x ∈ l.toList, up8 q.length ≤ (toBits x.1).length := fun x hx => child_len (hlb x hx)
  have rlen : ∀ x ∈ r.toList, up8 q.length ≤ (toBits x.1).length := fun x hx => child_len (hrb x hx)
  have hbL : q.length ≤ nOf l q := nOf_ge l q
  have hbR : q.length ≤ nOf r q := nOf_ge r q
  -- the atoms pushed for this node
  have selfGood : ∀ (s : VState) (x : KV), s ≠ .before → q.length < (toBits x.1).length →
      AtomGood q.length x ⟨.node lab lf l r, p, s⟩ := by
    intro s x hs hx
    exact ⟨hwf, ⟨lab, lf, l, r, rfl⟩, hs, by simp [nOf, hq], fun _ => by simp [nOf, hq]; simpa using hx⟩
  have upgt := up8_gt q.length
  -- the key after `AppendBit`
  let K1 : Bytes := if keyNotLonger q K then appendBit K q.length false else K
  have hK1len : q.length < (toBits K1).length := by
    by_cases hk : keyNotLonger q K = true
    · simp only [K1, hk, if_true]
      rw [toBits_appendBit_false K q.length (hknl.1 hk)]
      simp [zeros]; have := hknl.1 hk; omega
    · simp only [K1, hk]
      have : ¬ (toBits K).length ≤ q.length := fun h => hk (hknl.2 h)
      simp; omega
  have hE1 : ∀ x : KV, up8 q.length ≤ (toBits x.1).length → (x.1 < K ↔ x.1 < K1) := by
    intro x hx
    by_cases hk : keyNotLonger q K = true
    · simp only [K1, hk, if_true]
      rw [← toBits_lt, ← toBits_lt x.1, toBits_appendBit_false K q.length (hknl.1 hk)]
      apply lt_pad_iff
      have := hknl.1 hk; omega
    · simp only [K1, hk]; simp
  -- condition for the advance to the right subtree
  have hCond : (!getBit K1 q.length || takeFirst q K) = true →
      (toBits K1).take q.length = q → (toBits K1).getD q.length false = false := by
    intro hgo htake
    by_cases hk : keyNotLonger q K = true
    · have e : toBits K1 = toBits K ++ zeros (up8 q.length - (toBits K).length) := by
        simp only [K1, hk, if_true]; exact toBits_appendBit_false K q.length (hknl.1 hk)
      rw [e]; exact cond_padded (hknl.1 hk)
    · have e : K1 = K := by simp only [K1, hk]; simp
      rw [e] at htake hgo ⊢
      have hlen : q.length < (toBits K).length := by
        have : ¬ (toBits K).length ≤ q.length := fun h => hk (hknl.2 h)
        omega
      simp only [Bool.or_eq_true, Bool.not_eq_true'] at hgo
      rcases hgo with h | h
      · rw [getBit_eq] at h; exact h
      · exact cond_takeFirst hlen (htf.1 h) htake
  have hEr : (!getBit K1 q.length || takeFirst q K) = true →
      ∀ x ∈ r.toList, (x.1 < K1 ↔ x.1 < advanceRight K1 q.length) := by
    intro hgo x hx
    obtain ⟨y, hy⟩ := rbits x hx
    rw [← toBits_lt, ← toBits_lt x.1, toBits_advanceRight K1 q.length (by omega), hy]
    apply right_advance_iff hK1len (hCond hgo)
    rw [← hy]; exact rlen x hx
  -- unfold the machine
  show Post q.length K (l.toList ++ r.toList) (fromAt ⟨.node lab lf l r, p, st0⟩ q K goL goR)
  simp only [fromAt]
  change Post q.length K (l.toList ++ r.toList)
    (match (if (!getBit K1 q.length || takeFirst q K) = true
        then pushAtom ⟨.node lab lf l r, p, .atLeft⟩ (goL K1) else none) with
      | some res => some res
      | none => pushAtom ⟨.node lab lf l r, p, .after⟩
          (goR (if (!getBit K1 q.length || takeFirst q K) = true then advanceRight K1 q.length else K1)))
  have eL : firstGE K l.toList = firstGE K1 l.toList := firstGE_congr (fun x hx => hE1 x (llen x hx))
  have eR : firstGE K r.toList = firstGE K1 r.toList := firstGE_congr (fun x hx => hE1 x (rlen x hx))
  -- result of searching the right subtree with bound k' equivalent to K on it
  have rightCase : ∀ k', firstGE K r.toList = firstGE k' r.toList → firstGE K l.toList = [] →
      Post q.length K (l.toList ++ r.toList) (pushAtom ⟨.node lab lf l r, p, .after⟩ (goR k')) := by
    intro k' he hl0
    have hR' := hR k'
    simp only [Post, firstGE_append, hl0] at hR' ⊢
    rw [he]
    cases hf : firstGE k' r.toList with
    | nil => rw [hf] at hR'; simp only at hR' ⊢; rw [hR']; rfl
    | cons x rest =>
      rw [hf] at hR'
      obtain ⟨pos, hres, hrem, hgood, hmono⟩ := hR'
      have hx : x ∈ r.toList := mem_of_firstGE hf
      refine ⟨pos ++ [⟨.node lab lf l r, p, .after⟩], by rw [hres]; rfl, ?_, ?_, ?_⟩
      · rw [remaining_append, hrem, remaining_single]; simp [part]
      · intro a ha
        rcases List.mem_append.1 ha with h | h
        · exact atomGood_mono hbR (hgood a h)
        · simp at h; subst h
          exact selfGood .after x (by simp) (by have := rlen x hx; omega)
      · refine monoPos_snoc hmono (fun a ha => ?_)
        have h1 := (hgood a ha).ge
        have h2 : nOf (Trie.node lab lf l r) p = q.length := by simp [nOf, hq]
        show nOf (Trie.node lab lf l r) p ≤ _
        rw [h2]; omega
  by_cases hgo : (!getBit K1 q.length || takeFirst q K) = true
  · simp only [hgo, if_true]
    have hL' := hL K1
    simp only [Post] at hL'
    cases hf : firstGE K1 l.toList with
    | cons x rest =>
      rw [hf] at hL'
      obtain ⟨pos, hres, hrem, hgood, hmono⟩ := hL'
      have hx : x ∈ l.toList := mem_of_firstGE hf
      rw [hres]
      simp only [pushAtom, Post, firstGE_append, eL, hf]
      refine ⟨pos ++ [⟨.node lab lf l r, p, .atLeft⟩], rfl, ?_, ?_, ?_⟩
      · rw [remaining_append, hrem, remaining_single]; simp [part]
      · intro a ha
        rcases List.mem_append.1 ha with h | h
        · exact atomGood_mono hbL (hgood a h)
        · simp at h; subst h
          exact selfGood .atLeft x (by simp) (by have := llen x hx; omega)
      · refine monoPos_snoc hmono (fun a ha => ?_)
        have h1 := (hgood a ha).ge
        have h2 : nOf (Trie.node lab lf l r) p = q.length := by simp [nOf, hq]
        show nOf (Trie.node lab lf l r) p ≤ _
        rw [h2]; omega
    | nil =>
      rw [hf] at hL'
      rw [hL']
      simp only [pushAtom]
      apply rightCase
      · rw [eR]; exact firstGE_congr (hEr hgo)
      · rw [eL, hf]
  · simp only [hgo, Bool.false_eq_true, if_false]
    -- the left subtree is skipped: the key continues the path with a one bit and takeFirst is off
    have hgo' : getBit K1 q.length = true ∧ takeFirst q K = false := by
      cases h1 : getBit K1 q.length <;> cases h2 : takeFirst q K <;> simp [h1, h2] at hgo ⊢
    have hk : ¬ keyNotLonger q K = true := by
      intro hk
      have e : toBits K1 = toBits K ++ zeros (up8 q.length - (toBits K).length) := by
        simp only [K1, hk, if_true]; exact toBits_appendBit_false K q.length (hknl.1 hk)
      have := hgo'.1
      rw [getBit_eq, e, cond_padded (hknl.1 hk)] at this
      simp at this
    have e : K1 = K := by simp only [K1, hk]; simp
    have hlen : q.length < (toBits K).length := by rw [← e]; exact hK1len
    have hntf : ¬ TakeFirst q (toBits K) j := fun h => by
      have := htf.2 h; rw [hgo'.2] at this; simp at this
    apply rightCase
    · exact eR
    · apply firstGE_all_below
      intro x hx
      obtain ⟨y, hy⟩ := lbits x hx
      rw [← toBits_lt, hy]
      have hb := hgo'.1
      rw [e, getBit_eq] at hb
      exact left_below hlen hb hntf y


/-- Precondition for resuming in `visitAtLeft` with bound `K`: the key is longer than the node's
path and no item of the right subtree is below it (true for a key found in the left subtree). -/
def LeftPre (t : Trie) (p : Bits) (K : Bytes) : Prop :=
  ∀ lab lf l r, t = Trie.node lab lf l r →
    (p ++ lab).length < (toBits K).length ∧ ∀ x ∈ r.toList, ¬ x.1 < K

/-- `doNext` yields the first not-yet-visited item with key ≥ the bound, and a resume stack whose
remaining items are exactly the items after it. -/
theorem doNext_spec (t : Trie) : ∀ (p : Bits) (K : Bytes) (st : VState), WFAt p t →
    (st ≠ .before → ∃ lab lf l r, t = Trie.node lab lf l r) →
    (st = .atLeft → LeftPre t p K) →
    Post (nOf t p) K (part st t) (doNext t p K st) := by
  induction t with
  | nil =>
    intro p K st _ hst _
    cases st with
    | before => simp [Post, part, firstGE, Trie.toList, doNext]
    | _ => obtain ⟨_, _, _, _, h⟩ := hst (by simp); cases h
  | leaf k v =>
    intro p K st _ hst _
    cases st with
    | before =>
      simp only [Post, part, firstGE, Trie.toList, doNext, List.dropWhile_cons]
      by_cases h : k < K
      · simp [h]
      · simp [h, remaining, MonoPos]
    | _ => obtain ⟨_, _, _, _, h⟩ := hst (by simp); cases h
  | node lab lf l r ihl ihr =>
    intro p K st hwf _ hpre
    obtain ⟨hlf, hl, hlb, hr, hrb, hc⟩ := hwf
    have hwf : WFAt p (.node lab lf l r) := ⟨hlf, hl, hlb, hr, hrb, hc⟩
    have hL : ∀ k, Post (nOf l (p ++ lab)) k l.toList (doNext l (p ++ lab) k .before) :=
      fun k => ihl (p ++ lab) k .before hl (fun h => absurd rfl h) (fun h => by cases h)
    have hR : ∀ k, Post (nOf r (p ++ lab)) k r.toList (doNext r (p ++ lab) k .before) :=
      fun k => ihr (p ++ lab) k .before hr (fun h => absurd rfl h) (fun h => by cases h)
    have hbase : nOf (.node lab lf l r) p = (p ++ lab).length := rfl
    rw [hbase]
    cases st with
    | after => simp [Post, part, firstGE, doNext]
    | «at» =>
      exact fromAt_spec hwf K .at _ _ hL hR
    | atLeft =>
      obtain ⟨hlen, hge⟩ := hpre rfl lab lf l r rfl
      show Post _ K r.toList (pushAtom ⟨.node lab lf l r, p, .after⟩
        (doNext r (p ++ lab) (advanceRight K (p ++ lab).length) .before))
      have hR' := hR (advanceRight K (p ++ lab).length)
      have hge2 : ∀ x ∈ r.toList, ¬ x.1 < advanceRight K (p ++ lab).length := by
        intro x hx
        obtain ⟨y, hy⟩ := child_bits (hrb x hx)
        rw [← toBits_lt, toBits_advanceRight K _ (by omega), hy]
        apply right_advance_resume hlen
        · rw [← hy]; exact child_len (hrb x hx)
        · rw [← hy, toBits_lt]; exact hge x hx
      simp only [Post, firstGE_none_below hge, firstGE_none_below hge2] at hR' ⊢
      cases hrl : r.toList with
      | nil => rw [hrl] at hR'; simp only at hR' ⊢; rw [hR']; rfl
      | cons x rest =>
        rw [hrl] at hR'
        obtain ⟨pos, hres, hrem, hgood, hmono⟩ := hR'
        have hx : x ∈ r.toList := by rw [hrl]; simp
        refine ⟨pos ++ [⟨.node lab lf l r, p, .after⟩], by rw [hres]; rfl, ?_, ?_, ?_⟩
        · rw [remaining_append, hrem, remaining_single]; simp [part]
        · intro a ha
          rcases List.mem_append.1 ha with h | h
          · exact atomGood_mono (nOf_ge r (p ++ lab)) (hgood a h)
          · simp at h; subst h
            exact ⟨hwf, ⟨lab, lf, l, r, rfl⟩, by simp, Nat.le_refl _, fun h => by cases h⟩
        · exact monoPos_snoc hmono (fun a ha => by
            have h1 := (hgood a ha).ge
            have h2 := nOf_ge r (p ++ lab)
            simp only [nOf] at h1 h2 ⊢; omega)
    | before =>
      show Post _ K (lf.toList ++ (l.toList ++ r.toList))
        (match viaLeaf ⟨.node lab lf l r, p, .before⟩ lf (p ++ lab) K with
          | some res => some res
          | none => fromAt ⟨.node lab lf l r, p, .before⟩ (p ++ lab) K
              (fun k => doNext l (p ++ lab) k .before) (fun k => doNext r (p ++ lab) k .before))
      have hAt := fromAt_spec hwf K .before _ _ hL hR
      cases lf with
      | none =>
        have e : viaLeaf ⟨.node lab none l r, p, .before⟩ none (p ++ lab) K = none := by
          simp only [viaLeaf]; split <;> rfl
        rw [e]
        simpa using hAt
      | some kv =>
        obtain ⟨k, v⟩ := kv
        have hkq : toBits k = p ++ lab := hlf (k, v) rfl
        by_cases hlt : k < K
        · -- the own leaf is below the key (whether or not it was looked at)
          have e : viaLeaf ⟨.node lab (some (k, v)) l r, p, .before⟩ (some (k, v)) (p ++ lab) K = none := by
            simp only [viaLeaf, hlt, if_true]; split <;> rfl
          rw [e]
          have e2 : firstGE K ((some (k, v)).toList ++ (l.toList ++ r.toList)) = firstGE K (l.toList ++ r.toList) := by
            rw [firstGE_append]
            simp [firstGE, List.dropWhile_cons, hlt]
          simp only [Post] at hAt ⊢
          rw [e2]
          exact hAt
        · -- the own leaf is ≥ the key: it must have been looked at
          obtain ⟨j, _, _, hpq⟩ := toBits_packBits (p ++ lab)
          have hcond : (keyNotLonger (p ++ lab) K || takeFirst (p ++ lab) K) = true := by
            cases hk : keyNotLonger (p ++ lab) K with
            | true => rfl
            | false =>
              cases ht : takeFirst (p ++ lab) K with
              | true => rfl
              | false =>
                exfalso
                have h1 : (p ++ lab).length < (toBits K).length := by
                  have : ¬ (toBits K).length ≤ (p ++ lab).length := fun h => by
                    have := (keyNotLonger_iff (p ++ lab) K).2 h; rw [hk] at this; simp at this
                  omega
                have h2 : ¬ TakeFirst (p ++ lab) (toBits K) j := fun h => by
                  have := (takeFirst_iff (p ++ lab) K hpq).2 h; rw [ht] at this; simp at this
                have := own_leaf_below h1 h2
                rw [← hkq, toBits_lt] at this
                exact hlt this
          have e : viaLeaf ⟨.node lab (some (k, v)) l r, p, .before⟩ (some (k, v)) (p ++ lab) K =
              some ((k, v), [⟨.node lab (some (k, v)) l r, p, .at⟩]) := by
            simp only [viaLeaf, hcond, if_true, hlt, if_false]
          rw [e]
          have e2 : firstGE K ((some (k, v)).toList ++ (l.toList ++ r.toList)) =
              (k, v) :: (l.toList ++ r.toList) := by
            rw [firstGE_append]
            simp [firstGE, List.dropWhile_cons, hlt]
          simp only [Post]
          rw [e2]
          refine ⟨_, rfl, ?_, ?_, ?_⟩
          · rw [remaining_single]; rfl
          · intro a ha
            simp at ha; subst ha
            exact ⟨hwf, ⟨lab, _, l, r, rfl⟩, by simp, Nat.le_refl _, fun h => by cases h⟩
          · simp [MonoPos]


/-! ### `Next`: walking up the resume stack -/

/-- Invariant of the iterator between calls: the current item followed by everything the resume
stack can still yield is strictly ascending; the atoms are well formed and ordered by depth. -/
structure StackOK (cur : KV) (pos : List Atom) : Prop where
  sorted : SMap.Sorted (cur :: remaining pos)
  good : ∀ a ∈ pos, AtomGood 0 cur a
  mono : MonoPos pos

/-- Items yielded when resuming below a node are longer than the node's path. -/
theorem part_len {a : Atom} {y : KV} (hwf : WFAt a.path a.t) (hst : a.st ≠ .before)
    (hy : y ∈ part a.st a.t) : nOf a.t a.path < (toBits y.1).length := by
  obtain ⟨t, p, st⟩ := a
  cases t with
  | nil => cases st <;> simp [part] at hy hst
  | leaf k v => cases st <;> simp [part] at hy hst
  | node lab lf l r =>
    have hwf' : WFAt p (Trie.node lab lf l r) := hwf
    obtain ⟨_, _, hlb, _, hrb, _⟩ := hwf'
    have hup := up8_gt (p ++ lab).length
    show (p ++ lab).length < _
    cases st with
    | before => exact absurd rfl hst
    | «at» =>
      simp only [part, List.mem_append] at hy
      rcases hy with h | h
      · have := child_len (hlb y h); omega
      · have := child_len (hrb y h); omega
    | atLeft =>
      simp only [part] at hy
      have := child_len (hrb y hy); omega
    | after => simp [part] at hy

theorem nextLoop_spec (cur : KV) (pos : List Atom) (h : StackOK cur pos) :
    match remaining pos with
    | [] => nextLoop cur.1 pos = none
    | y :: ys => ∃ pos', nextLoop cur.1 pos = some (y, pos') ∧ remaining pos' = ys ∧ StackOK y pos' := by
  induction pos with
  | nil => simp [remaining, nextLoop]
  | cons a rest ih =>
    have hsorted := h.sorted
    have ha := h.good a (by simp)
    have hrem : remaining (a :: rest) = part a.st a.t ++ remaining rest := by simp [remaining]
    rw [hrem] at hsorted ⊢
    have hcur : ∀ x ∈ part a.st a.t ++ remaining rest, cur.1 < x.1 := (smap_sorted_cons.1 hsorted).1
    have hge : ∀ x ∈ part a.st a.t, ¬ x.1 < cur.1 :=
      fun x hx => bytes_lt_asymm (hcur x (List.mem_append_left _ hx))
    -- resume below the deepest atom
    have hpre : a.st = .atLeft → LeftPre a.t a.path cur.1 := by
      intro hst lab lf l r ht
      refine ⟨?_, ?_⟩
      · have := ha.lt hst; rw [ht] at this; simpa [nOf] using this
      · intro x hx
        apply hge
        rw [hst, ht]; exact hx
    have hspec := doNext_spec a.t a.path cur.1 a.st ha.wf (fun _ => ha.node) hpre
    simp only [Post, firstGE_none_below hge] at hspec
    have hrestOK : StackOK cur rest := by
      refine ⟨?_, fun b hb => h.good b (List.mem_cons_of_mem _ hb), (List.pairwise_cons.1 h.mono).2⟩
      have : (cur :: remaining rest).Sublist (cur :: (part a.st a.t ++ remaining rest)) :=
        List.Sublist.cons₂ _ (List.sublist_append_right _ _)
      exact List.Pairwise.sublist this hsorted
    cases hp : part a.st a.t with
    | nil =>
      rw [hp] at hspec
      simp only [List.nil_append]
      have e : nextLoop cur.1 (a :: rest) = nextLoop cur.1 rest := by
        simp only [nextLoop, hspec]
      rw [e]
      exact ih hrestOK
    | cons y ys =>
      rw [hp] at hspec
      obtain ⟨pos1, hres, hrem1, hgood1, hmono1⟩ := hspec
      simp only [List.cons_append]
      have hyin : y ∈ part a.st a.t := by rw [hp]; simp
      have hylen := part_len ha.wf ha.st hyin
      refine ⟨pos1 ++ rest, by simp only [nextLoop, hres], by rw [remaining_append, hrem1], ?_, ?_, ?_⟩
      · -- sorted
        rw [remaining_append, hrem1]
        have := smap_sorted_tail hsorted
        rw [hp] at this
        simpa using this
      · intro b hb
        rcases List.mem_append.1 hb with hb | hb
        · exact atomGood_mono (Nat.zero_le _) (hgood1 b hb)
        · have g := h.good b (List.mem_cons_of_mem _ hb)
          refine ⟨g.wf, g.node, g.st, g.ge, fun _ => ?_⟩
          have := (List.pairwise_cons.1 h.mono).1 b hb
          omega
      · unfold MonoPos
        rw [List.pairwise_append]
        refine ⟨hmono1, (List.pairwise_cons.1 h.mono).2, ?_⟩
        intro b1 hb1 b2 hb2
        have h1 := (hgood1 b1 hb1).ge
        have h2 := (List.pairwise_cons.1 h.mono).1 b2 hb2
        omega

theorem drain_spec : ∀ (fuel : Nat) (cur : KV) (pos : List Atom), StackOK cur pos →
    (remaining pos).length ≤ fuel → drain fuel cur pos = remaining pos := by
  intro fuel
  induction fuel with
  | zero =>
    intro cur pos _ hlen
    have : remaining pos = [] := List.eq_nil_of_length_eq_zero (by omega)
    rw [this]; rfl
  | succ fuel ih =>
    intro cur pos h hlen
    have hs := nextLoop_spec cur pos h
    cases hr : remaining pos with
    | nil => rw [hr] at hs; simp only [drain, hs]
    | cons y ys =>
      rw [hr] at hs hlen
      obtain ⟨pos', hres, hrem, hok⟩ := hs
      simp only [drain, hres]
      rw [ih y pos' hok (by rw [hrem]; simpa using hlen), hrem]

theorem seekGE_eq_firstGE {m : List KV} (hm : SMap.Sorted m) (s : Bytes) : SMap.seekGE m s = firstGE s m := by
  rw [firstGE]
  induction m with
  | nil => rfl
  | cons x m ih =>
    obtain ⟨hx, hm'⟩ := smap_sorted_cons.1 hm
    simp only [SMap.seekGE, List.filter_cons, List.dropWhile_cons]
    by_cases h : x.1 < s
    · simp only [h, decide_true, Bool.not_true, Bool.false_eq_true, if_false, if_true]
      exact ih hm'
    · simp only [h, decide_false, Bool.not_false, if_true, Bool.false_eq_true, if_false]
      congr 1
      apply List.filter_eq_self.2
      intro y hy
      have : ¬ y.1 < s := fun hlt => h (bytes_lt_trans (hx y hy) hlt)
      simp [this]

/-- C03: for every canonical trie and every seek key, `Seek` followed by `Next` until the iterator is
invalid yields exactly the items with key ≥ the seek key, in ascending order. -/
theorem iterate_eq_seekGE {t : Trie} (hwf : WF t) (s : Bytes) : iterate t s = SMap.seekGE t.toList s := by
  have hsorted := wf_sorted hwf
  have hspec := doNext_spec t [] s .before hwf (fun h => absurd rfl h) (fun h => by cases h)
  have hseek : SMap.seekGE t.toList s = firstGE s t.toList := seekGE_eq_firstGE hsorted s
  rw [hseek]
  simp only [Post, part] at hspec
  simp only [iterate, seek]
  cases hf : firstGE s t.toList with
  | nil => rw [hf] at hspec; rw [hspec]
  | cons x rest =>
    rw [hf] at hspec
    obtain ⟨pos, hres, hrem, hgood, hmono⟩ := hspec
    rw [hres]
    simp only
    have hsub : (x :: rest).Sublist t.toList := by rw [← hf]; exact firstGE_sublist s _
    have hok : StackOK x pos := by
      refine ⟨by rw [hrem]; exact List.Pairwise.sublist hsub hsorted,
        fun a ha => atomGood_mono (Nat.zero_le _) (hgood a ha), hmono⟩
    rw [drain_spec _ x pos hok (by rw [hrem]; have := hsub.length_le; simp at this; omega), hrem]

end OasisProofs.Mkvs
