import OasisModel.TxPool.Impl
/-
Helper lemmas for C20 (implementation-level model of the txpool scheduler, `OasisModel.TxPool.Impl`):
association-list `scheduled` map, heaps-as-contents, the structural invariant `WF`, and the exact
effect of the three primitives `remove` / `insert` / `replace` on a well-formed state.
-/
set_option linter.unusedSimpArgs false
set_option linter.unusedVariables false

namespace OasisProofs.TxPoolImpl
open OasisModel.TxPool
open OasisModel.TxPool.Impl (getSched setSched updS succ64 minSeq heapPush heapRemove heapReplace Rec Fault
  isPending isSchedulable nextSchedulable peekOk restoreMaxHeap restoreAll resetWith
  forwardLoop handleTxUsed abs)

theorem getSched_filter (m : List (Nat × Nat)) (a b : Nat) :
    getSched (m.filter (fun e => e.1 != a)) b = if b = a then none else getSched m b := by
  induction m with
  | nil => simp [getSched]
  | cons e m ih =>
    obtain ⟨k, v⟩ := e
    by_cases hk : k = a
    · subst hk
      simp only [List.filter, bne_self_eq_false, getSched]
      rw [ih]; by_cases hb : b = k <;> simp [hb]; intro h; exact absurd h.symm hb
    · have : ((k, v).1 != a) = true := by simp [hk]
      simp only [List.filter, this, getSched]
      rw [ih]
      by_cases hb : b = a
      · subst hb; simp [hk]
      · simp [hb]

theorem getSched_set (m : List (Nat × Nat)) (a q b : Nat) :
    getSched (setSched m a q) b = if b = a then some q else getSched m b := by
  unfold setSched
  simp only [getSched]
  rw [getSched_filter]
  by_cases hb : b = a
  · subst hb; simp
  · have : ¬ a = b := fun h => hb h.symm
    simp [hb, this]

theorem minSeq_none (l : List Tx) : minSeq l = none ↔ l = [] := by
  cases l with
  | nil => simp [minSeq]
  | cons t ts =>
    simp only [minSeq]
    cases h : minSeq ts with
    | none => simp
    | some u => by_cases hp : t.seq ≤ u.seq <;> simp [hp]

theorem minSeq_spec (l : List Tx) (t : Tx) (h : minSeq l = some t) :
    t ∈ l ∧ ∀ u ∈ l, t.seq ≤ u.seq := by
  induction l generalizing t with
  | nil => simp [minSeq] at h
  | cons x xs ih =>
    simp only [minSeq] at h
    cases hx : minSeq xs with
    | none =>
      rw [hx] at h
      have : xs = [] := (minSeq_none xs).1 hx
      subst this
      simp at h; subst h; simp
    | some u =>
      rw [hx] at h
      have ⟨hu, hmin⟩ := ih u hx
      by_cases hp : x.seq ≤ u.seq
      · simp [hp] at h; subst h
        refine ⟨by simp, ?_⟩
        intro w hw
        rcases List.mem_cons.1 hw with rfl | hw
        · exact Nat.le_refl _
        · exact Nat.le_trans hp (hmin w hw)
      · simp [hp] at h; subst h
        refine ⟨List.mem_cons_of_mem _ hu, ?_⟩
        intro w hw
        rcases List.mem_cons.1 hw with rfl | hw
        · omega
        · exact hmin w hw


structure WF (s : Impl.State) : Prop where
  ids : ∀ t ∈ s.txs, ∀ u ∈ s.txs, t.id = u.id → t = u
  keys : ∀ t ∈ s.txs, ∀ u ∈ s.txs, t.sender = u.sender → t.seq = u.seq → t = u
  sndSome : ∀ a r, s.senders a = some r → ∀ t, t ∈ r.txs ↔ (t ∈ s.txs ∧ t.sender = a)
  sndNone : ∀ a, s.senders a = none → ∀ t ∈ s.txs, t.sender ≠ a
  sndNodup : ∀ a r, s.senders a = some r → r.txs.Nodup
  bTx : ∀ t ∈ s.txs, t.seq ≤ maxSeq
  bRec : ∀ a r, s.senders a = some r → r.seq ≤ maxSeq
  bSched : ∀ a q, getSched s.scheduled a = some q → q ≤ maxSeq
  schedKeys : (s.scheduled.map Prod.fst).Nodup
  pNodup : s.pending.Nodup
  pSub : ∀ t ∈ s.pending, t ∈ s.txs

def removeEff (s : Impl.State) (a : Nat) (r : Rec) (t : Tx) : Impl.State :=
  { s with txs := s.txs.filter (fun u => u.id != t.id),
           senders := if (r.txs.erase t).isEmpty
             then updS (updS s.senders a (some { r with txs := r.txs.erase t })) t.sender none
             else updS s.senders a (some { r with txs := r.txs.erase t }),
           pending := if s.pending.contains t then s.pending.erase t else s.pending }

theorem remove_eq (s : Impl.State) (a : Nat) (r : Rec) (t : Tx) (hw : WF s)
    (hr : s.senders a = some r) (ht : t ∈ r.txs) :
    Impl.remove s a t = .ok (removeEff s a r t) := by
  have htx : t ∈ s.txs := ((hw.sndSome a r hr t).1 ht).1
  have hc1 : r.txs.contains t = true := List.contains_iff_mem.2 ht
  have hc2 : s.txs.contains t = true := List.contains_iff_mem.2 htx
  cases hp : s.pending.contains t <;>
  simp only [Impl.remove, removeEff, hr, heapRemove, isPending, hc1, hc2, hp,
    if_true, if_false, bind, Except.bind, pure, Except.pure, Bool.not_true, Bool.false_eq_true, throw, throwThe, MonadExceptOf.throw]

@[simp] theorem updS_apply (f : Nat → Option Rec) (k : Nat) (v : Option Rec) (x : Nat) :
    updS f k v x = if x = k then v else f x := rfl

theorem removeEff_txs_mem (s : Impl.State) (a : Nat) (r : Rec) (t : Tx) (hw : WF s)
    (hr : s.senders a = some r) (ht : t ∈ r.txs) (u : Tx) :
    u ∈ (removeEff s a r t).txs ↔ (u ∈ s.txs ∧ u ≠ t) := by
  have htx : t ∈ s.txs := ((hw.sndSome a r hr t).1 ht).1
  simp only [removeEff, List.mem_filter, bne_iff_ne, ne_eq]
  constructor
  · rintro ⟨h1, h2⟩; exact ⟨h1, fun h => h2 (h ▸ rfl)⟩
  · rintro ⟨h1, h2⟩; exact ⟨h1, fun h => h2 (hw.ids u h1 t htx h)⟩

theorem removeEff_pending_mem (s : Impl.State) (a : Nat) (r : Rec) (t : Tx) (hw : WF s) (u : Tx) :
    u ∈ (removeEff s a r t).pending ↔ (u ∈ s.pending ∧ u ≠ t) := by
  simp only [removeEff]
  split
  · rw [hw.pNodup.mem_erase_iff]; exact And.comm
  · rename_i h
    have : t ∉ s.pending := fun hm => h (List.contains_iff_mem.2 hm)
    constructor
    · intro hu; exact ⟨hu, fun h => this (h ▸ hu)⟩
    · exact fun h => h.1

theorem removeEff_senders (s : Impl.State) (a : Nat) (r : Rec) (t : Tx) (hw : WF s)
    (hr : s.senders a = some r) (ht : t ∈ r.txs) (b : Nat) :
    (removeEff s a r t).senders b =
      if b = a then (if r.txs.erase t = [] then none else some { r with txs := r.txs.erase t })
      else s.senders b := by
  have hsa : t.sender = a := ((hw.sndSome a r hr t).1 ht).2
  simp only [removeEff, hsa, List.isEmpty_iff]
  by_cases hb : b = a <;> by_cases he : r.txs.erase t = [] <;> simp [hb, he, updS_apply]

theorem removeEff_wf (s : Impl.State) (a : Nat) (r : Rec) (t : Tx) (hw : WF s)
    (hr : s.senders a = some r) (ht : t ∈ r.txs) : WF (removeEff s a r t) := by
  have hmt := removeEff_txs_mem s a r t hw hr ht
  have hmp := removeEff_pending_mem s a r t hw
  have hsn := removeEff_senders s a r t hw hr ht
  have hsa : t.sender = a := ((hw.sndSome a r hr t).1 ht).2
  have hnd := hw.sndNodup a r hr
  have hrm := hw.sndSome a r hr
  refine ⟨?_, ?_, ?_, ?_, ?_, ?_, ?_, ?_, ?_, ?_, ?_⟩
  · intro x hx y hy; exact hw.ids x ((hmt x).1 hx).1 y ((hmt y).1 hy).1
  · intro x hx y hy; exact hw.keys x ((hmt x).1 hx).1 y ((hmt y).1 hy).1
  · intro b r' hb x
    rw [hsn] at hb
    by_cases hba : b = a
    · subst hba
      simp only [if_true] at hb
      split at hb
      · simp at hb
      · simp at hb; subst hb
        simp only [hnd.mem_erase_iff, hmt, hrm]
        grind
    · simp only [hba, if_false] at hb
      rw [hw.sndSome b r' hb, hmt]
      grind
  · intro b hb x hx
    rw [hsn] at hb
    have hx' := (hmt x).1 hx
    by_cases hba : b = a
    · subst hba
      simp only [if_true] at hb
      split at hb
      · rename_i he
        intro hxs
        have : x ∈ r.txs.erase t := by
          rw [hnd.mem_erase_iff, hrm]; exact ⟨hx'.2, hx'.1, hxs⟩
        rw [he] at this; simp at this
      · simp at hb
    · simp only [hba, if_false] at hb
      exact hw.sndNone b hb x hx'.1
  · intro b r' hb
    rw [hsn] at hb
    by_cases hba : b = a
    · subst hba
      simp only [if_true] at hb
      split at hb
      · simp at hb
      · simp at hb; subst hb; exact hnd.erase t
    · simp only [hba, if_false] at hb
      exact hw.sndNodup b r' hb
  · intro x hx; exact hw.bTx x ((hmt x).1 hx).1
  · intro b r' hb
    rw [hsn] at hb
    by_cases hba : b = a
    · subst hba
      simp only [if_true] at hb
      split at hb
      · simp at hb
      · simp at hb; subst hb; exact hw.bRec b r hr
    · simp only [hba, if_false] at hb
      exact hw.bRec b r' hb
  · exact hw.bSched
  · exact hw.schedKeys
  · simp only [removeEff]; split
    · exact hw.pNodup.erase t
    · exact hw.pNodup
  · intro x hx
    have := (hmp x).1 hx
    exact (hmt x).2 ⟨hw.pSub x this.1, this.2⟩

/-! ### the incremental invariant: lower bound and max-heap synchronisation -/

/-- No queued transaction lies below its sender's current sequence number. -/
def Low (s : Impl.State) : Prop := ∀ a r, s.senders a = some r → ∀ t ∈ r.txs, r.seq ≤ t.seq

/-- The max heap holds exactly the queued transactions satisfying `P`. -/
def SyncP (P : Tx → Prop) (s : Impl.State) : Prop := ∀ t, t ∈ s.pending ↔ (t ∈ s.txs ∧ P t)

/-- Readiness of the reference model, written on its two inputs. -/
def rdyOf (sched cur : Option Nat) (t : Tx) : Prop :=
  match sched with
  | some last => t.seq = last + 1
  | none => cur = some t.seq

/-- `t` is ready in the reference state `abs s`. -/
def Rdy (s : Impl.State) (t : Tx) : Prop := ready (abs s) t = true

theorem rdy_iff (s : Impl.State) (t : Tx) :
    Rdy s t ↔ rdyOf (getSched s.scheduled t.sender) ((s.senders t.sender).map (·.seq)) t := by
  unfold Rdy ready rdyOf abs
  simp only
  cases getSched s.scheduled t.sender <;> simp

theorem rdy_congr (s s' : Impl.State) (t : Tx)
    (h1 : getSched s'.scheduled t.sender = getSched s.scheduled t.sender)
    (h2 : (s'.senders t.sender).map (·.seq) = (s.senders t.sender).map (·.seq)) :
    Rdy s' t ↔ Rdy s t := by
  rw [rdy_iff, rdy_iff, h1, h2]

/-- The invariant of the implementation-level state. -/
def Inv (s : Impl.State) : Prop := WF s ∧ Low s ∧ SyncP (Rdy s) s

theorem syncP_congr (P Q : Tx → Prop) (s : Impl.State) (h : SyncP P s)
    (hpq : ∀ t ∈ s.txs, (P t ↔ Q t)) : SyncP Q s := by
  intro t
  rw [h t]
  constructor
  · rintro ⟨h1, h2⟩; exact ⟨h1, (hpq t h1).1 h2⟩
  · rintro ⟨h1, h2⟩; exact ⟨h1, (hpq t h1).2 h2⟩

theorem succ64_lt (x : Nat) (h : x < maxSeq) : succ64 x = x + 1 := by
  unfold succ64; unfold maxSeq at h; omega

/-- `isSchedulable` computes the reference readiness (this is where the `MaxUint64` guard is needed). -/
theorem isSchedulable_iff (s : Impl.State) (t : Tx) (r : Rec) (hw : WF s)
    (hr : s.senders t.sender = some r) (ht : t.seq ≤ maxSeq) :
    isSchedulable s t r = true ↔ Rdy s t := by
  rw [rdy_iff, hr]
  unfold isSchedulable rdyOf
  cases hg : getSched s.scheduled t.sender with
  | none => simp; exact eq_comm
  | some last =>
    have hb := hw.bSched _ _ hg
    by_cases hl : last = maxSeq
    · simp [hl]; omega
    · have : last < maxSeq := by omega
      simp [hl, succ64_lt last this]

/-! ### `remove`: invariants and abstraction -/

theorem removeEff_low (s : Impl.State) (a : Nat) (r : Rec) (t : Tx) (hw : WF s)
    (hr : s.senders a = some r) (ht : t ∈ r.txs) (hl : Low s) : Low (removeEff s a r t) := by
  intro b r' hb x hx
  rw [removeEff_senders s a r t hw hr ht] at hb
  by_cases hba : b = a
  · subst hba
    simp only [if_true] at hb
    split at hb
    · simp at hb
    · simp at hb; subst hb
      exact hl b r hr x (List.mem_of_mem_erase hx)
  · simp only [hba, if_false] at hb
    exact hl b r' hb x hx

theorem removeEff_syncP (P : Tx → Prop) (s : Impl.State) (a : Nat) (r : Rec) (t : Tx) (hw : WF s)
    (hr : s.senders a = some r) (ht : t ∈ r.txs) (hs : SyncP P s) : SyncP P (removeEff s a r t) := by
  intro u
  rw [removeEff_pending_mem s a r t hw, removeEff_txs_mem s a r t hw hr ht, hs u]
  constructor
  · rintro ⟨⟨h1, h2⟩, h3⟩; exact ⟨⟨h1, h3⟩, h2⟩
  · rintro ⟨⟨h1, h3⟩, h2⟩; exact ⟨⟨h1, h2⟩, h3⟩

theorem removeEff_sched (s : Impl.State) (a : Nat) (r : Rec) (t : Tx) :
    (removeEff s a r t).scheduled = s.scheduled ∧ (removeEff s a r t).picked = s.picked ∧
    (removeEff s a r t).cap = s.cap := ⟨rfl, rfl, rfl⟩

/-- Readiness of the transactions that stay is not affected by a removal. -/
theorem removeEff_rdy (s : Impl.State) (a : Nat) (r : Rec) (t : Tx) (hw : WF s)
    (hr : s.senders a = some r) (ht : t ∈ r.txs) (u : Tx) (hu : u ∈ (removeEff s a r t).txs) :
    Rdy (removeEff s a r t) u ↔ Rdy s u := by
  apply rdy_congr
  · rfl
  · rw [removeEff_senders s a r t hw hr ht]
    have hu' := (removeEff_txs_mem s a r t hw hr ht u).1 hu
    by_cases hua : u.sender = a
    · have : u ∈ r.txs.erase t := by
        rw [(hw.sndNodup a r hr).mem_erase_iff, hw.sndSome a r hr]; exact ⟨hu'.2, hu'.1, hua⟩
      have hne : r.txs.erase t ≠ [] := fun h => by rw [h] at this; simp at this
      simp [hua, hne, hr]
    · simp [hua]

theorem removeEff_inv (s : Impl.State) (a : Nat) (r : Rec) (t : Tx) (hi : Inv s)
    (hr : s.senders a = some r) (ht : t ∈ r.txs) : Inv (removeEff s a r t) := by
  obtain ⟨hw, hl, hs⟩ := hi
  refine ⟨removeEff_wf s a r t hw hr ht, removeEff_low s a r t hw hr ht hl, ?_⟩
  apply syncP_congr (Rdy s) _ _ (removeEff_syncP _ s a r t hw hr ht hs)
  intro u hu
  exact (removeEff_rdy s a r t hw hr ht u hu).symm

/-- Two states with the same fields are equal (`abs` side). -/
theorem state_ext (x y : State) (h1 : x.cap = y.cap) (h2 : x.txs = y.txs)
    (h3 : ∀ a, x.cur a = y.cur a) (h4 : ∀ a, x.sched a = y.sched a) (h5 : x.picked = y.picked) :
    x = y := by
  cases x; cases y
  simp only at h1 h2 h3 h4 h5
  subst h1 h2 h5
  have := funext h3; have := funext h4
  simp_all

theorem hasSender_iff (l : List Tx) (a : Nat) : hasSender l a = true ↔ ∃ t ∈ l, t.sender = a := by
  simp [hasSender]

theorem removeTx_cur (s : State) (t : Tx) (b : Nat) :
    (removeTx s t).cur b =
      if hasSender (s.txs.filter (fun u => u.id != t.id)) t.sender = true then s.cur b
      else (if b = t.sender then none else s.cur b) := by
  unfold removeTx
  simp only
  split <;> simp [upd]

theorem removeEff_abs (s : Impl.State) (a : Nat) (r : Rec) (t : Tx) (hw : WF s)
    (hr : s.senders a = some r) (ht : t ∈ r.txs) :
    abs (removeEff s a r t) = removeTx (abs s) t := by
  have hsa : t.sender = a := ((hw.sndSome a r hr t).1 ht).2
  apply state_ext
  · rfl
  · rfl
  · intro b
    show ((removeEff s a r t).senders b).map (·.seq) = _
    rw [removeEff_senders s a r t hw hr ht]
    have hiff : hasSender (List.filter (fun u => u.id != t.id) s.txs) t.sender = true ↔ r.txs.erase t ≠ [] := by
      rw [hasSender_iff]
      constructor
      · rintro ⟨u, hu, hus⟩
        have hu' := (removeEff_txs_mem s a r t hw hr ht u).1 hu
        have : u ∈ r.txs.erase t := by
          rw [(hw.sndNodup a r hr).mem_erase_iff, hw.sndSome a r hr]; exact ⟨hu'.2, hu'.1, hus.trans hsa⟩
        intro h; rw [h] at this; simp at this
      · intro hne
        obtain ⟨u, hu⟩ := List.exists_mem_of_ne_nil _ hne
        rw [(hw.sndNodup a r hr).mem_erase_iff, hw.sndSome a r hr] at hu
        exact ⟨u, (removeEff_txs_mem s a r t hw hr ht u).2 ⟨hu.2.1, hu.1⟩, hu.2.2.trans hsa.symm⟩
    rw [removeTx_cur]
    by_cases hne : r.txs.erase t = []
    · have h : ¬ hasSender (List.filter (fun u => u.id != t.id) (abs s).txs) t.sender = true := fun h => hiff.1 h hne
      rw [if_neg h]
      simp only [hne, if_true, abs, hsa]
      by_cases hba : b = a <;> simp [hba]
    · have h : hasSender (List.filter (fun u => u.id != t.id) (abs s).txs) t.sender = true := hiff.2 hne
      rw [if_pos h]
      simp only [hne, if_false, abs]
      by_cases hba : b = a <;> simp [hba, hr]
  · intro b; rfl
  · rfl

/-! ### `delete` -/

theorem delete_eq (s : Impl.State) (t : Tx) (hw : WF s) (ht : t ∈ s.txs) :
    ∃ r, s.senders t.sender = some r ∧ t ∈ r.txs ∧ Impl.delete s t = .ok (removeEff s t.sender r t) := by
  cases hr : s.senders t.sender with
  | none => exact absurd rfl (hw.sndNone _ hr t ht)
  | some r =>
    have htr : t ∈ r.txs := (hw.sndSome _ r hr t).2 ⟨ht, rfl⟩
    refine ⟨r, rfl, htr, ?_⟩
    simp only [Impl.delete, hr]
    exact remove_eq s t.sender r t hw hr htr

/-! ### `insert` -/

def insertEff (s : Impl.State) (a : Nat) (r : Rec) (t : Tx) : Impl.State :=
  { s with txs := t :: s.txs, senders := updS s.senders a (some { r with txs := t :: r.txs }),
           pending := if isSchedulable s t r then t :: s.pending else s.pending }

theorem insert_eq (s : Impl.State) (a : Nat) (r : Rec) (t : Tx) (hw : WF s)
    (hr : s.senders a = some r) (ht : t ∉ s.txs) :
    Impl.insert s a t = .ok (insertEff s a r t) := by
  have h1 : r.txs.contains t = false := by
    cases h : r.txs.contains t with
    | false => rfl
    | true => exact absurd ((hw.sndSome a r hr t).1 (List.contains_iff_mem.1 h)).1 ht
  have h2 : s.pending.contains t = false := by
    cases h : s.pending.contains t with
    | false => rfl
    | true => exact absurd (hw.pSub t (List.contains_iff_mem.1 h)) ht
  simp only [Impl.insert, insertEff, hr, heapPush, h1, h2,
    if_true, if_false, bind, Except.bind, pure, Except.pure, Bool.false_eq_true]
  have h3 : isSchedulable { s with txs := t :: s.txs, senders := updS s.senders a (some { r with txs := t :: r.txs }) } t
      { r with txs := t :: r.txs } = isSchedulable s t r := rfl
  rw [h3]
  cases hsch : isSchedulable s t r <;> simp

structure InsertPre (s : Impl.State) (r : Rec) (t : Tx) : Prop where
  hr : s.senders t.sender = some r
  fresh : ∀ u ∈ s.txs, u.id ≠ t.id
  nokey : ∀ u ∈ s.txs, u.sender = t.sender → u.seq ≠ t.seq
  bound : t.seq ≤ maxSeq

theorem InsertPre.notMem {s : Impl.State} {r : Rec} {t : Tx} (h : InsertPre s r t) : t ∉ s.txs :=
  fun hm => h.fresh t hm rfl

theorem insertEff_senders (s : Impl.State) (a : Nat) (r : Rec) (t : Tx) (b : Nat) :
    (insertEff s a r t).senders b = if b = a then some { r with txs := t :: r.txs } else s.senders b := by
  simp [insertEff]

theorem insertEff_pending_mem (s : Impl.State) (a : Nat) (r : Rec) (t : Tx) (u : Tx) :
    u ∈ (insertEff s a r t).pending ↔ (u ∈ s.pending ∨ (u = t ∧ isSchedulable s t r = true)) := by
  simp only [insertEff]
  split <;> simp_all <;> grind

theorem insertEff_wf (s : Impl.State) (r : Rec) (t : Tx) (hw : WF s) (hp : InsertPre s r t) :
    WF (insertEff s t.sender r t) := by
  have hnm := hp.notMem
  have hsn := insertEff_senders s t.sender r t
  have hrm := hw.sndSome _ r hp.hr
  have hnp : t ∉ s.pending := fun h => hnm (hw.pSub t h)
  refine ⟨?_, ?_, ?_, ?_, ?_, ?_, ?_, ?_, ?_, ?_, ?_⟩
  · intro x hx y hy hxy
    simp only [insertEff, List.mem_cons] at hx hy
    rcases hx with rfl | hx <;> rcases hy with rfl | hy
    · rfl
    · exact absurd hxy.symm (hp.fresh y hy)
    · exact absurd hxy (hp.fresh x hx)
    · exact hw.ids x hx y hy hxy
  · intro x hx y hy h1 h2
    simp only [insertEff, List.mem_cons] at hx hy
    rcases hx with rfl | hx <;> rcases hy with rfl | hy
    · rfl
    · exact absurd h2.symm (hp.nokey y hy h1.symm)
    · exact absurd h2 (hp.nokey x hx h1)
    · exact hw.keys x hx y hy h1 h2
  · intro b r' hb x
    rw [hsn] at hb
    by_cases hba : b = t.sender
    · subst hba
      simp at hb; subst hb
      simp only [insertEff, List.mem_cons, hrm]
      grind
    · simp only [hba, if_false] at hb
      simp only [insertEff, List.mem_cons, hw.sndSome b r' hb]
      grind
  · intro b hb x hx
    rw [hsn] at hb
    by_cases hba : b = t.sender
    · simp [hba] at hb
    · simp only [hba, if_false] at hb
      simp only [insertEff, List.mem_cons] at hx
      rcases hx with rfl | hx
      · exact fun h => hba h.symm
      · exact hw.sndNone b hb x hx
  · intro b r' hb
    rw [hsn] at hb
    by_cases hba : b = t.sender
    · subst hba
      simp at hb; subst hb
      refine List.nodup_cons.2 ⟨?_, hw.sndNodup _ r hp.hr⟩
      intro h; exact hnm ((hrm t).1 h).1
    · simp only [hba, if_false] at hb
      exact hw.sndNodup b r' hb
  · intro x hx
    simp only [insertEff, List.mem_cons] at hx
    rcases hx with rfl | hx
    · exact hp.bound
    · exact hw.bTx x hx
  · intro b r' hb
    rw [hsn] at hb
    by_cases hba : b = t.sender
    · subst hba
      simp at hb; subst hb; exact hw.bRec _ r hp.hr
    · simp only [hba, if_false] at hb
      exact hw.bRec b r' hb
  · exact hw.bSched
  · exact hw.schedKeys
  · simp only [insertEff]; split
    · exact List.nodup_cons.2 ⟨hnp, hw.pNodup⟩
    · exact hw.pNodup
  · intro x hx
    rw [insertEff_pending_mem] at hx
    simp only [insertEff, List.mem_cons]
    rcases hx with hx | ⟨rfl, _⟩
    · exact Or.inr (hw.pSub x hx)
    · exact Or.inl rfl

theorem insertEff_low (s : Impl.State) (r : Rec) (t : Tx) (hp : InsertPre s r t) (hl : Low s)
    (hle : r.seq ≤ t.seq) : Low (insertEff s t.sender r t) := by
  intro b r' hb x hx
  rw [insertEff_senders] at hb
  by_cases hba : b = t.sender
  · subst hba
    simp at hb; subst hb
    simp only [List.mem_cons] at hx
    rcases hx with rfl | hx
    · exact hle
    · exact hl _ r hp.hr x hx
  · simp only [hba, if_false] at hb
    exact hl b r' hb x hx

theorem insertEff_rdy (s : Impl.State) (r : Rec) (t : Tx) (hp : InsertPre s r t) (u : Tx) :
    Rdy (insertEff s t.sender r t) u ↔ Rdy s u := by
  apply rdy_congr
  · rfl
  · rw [insertEff_senders]
    by_cases hua : u.sender = t.sender
    · simp [hua, hp.hr]
    · simp [hua]

theorem insertEff_inv (s : Impl.State) (r : Rec) (t : Tx) (hi : Inv s) (hp : InsertPre s r t)
    (hle : r.seq ≤ t.seq) : Inv (insertEff s t.sender r t) := by
  obtain ⟨hw, hl, hs⟩ := hi
  refine ⟨insertEff_wf s r t hw hp, insertEff_low s r t hp hl hle, ?_⟩
  intro u
  rw [insertEff_pending_mem, insertEff_rdy s r t hp u, isSchedulable_iff s t r hw hp.hr hp.bound, hs u]
  simp only [insertEff, List.mem_cons]
  have := hp.notMem
  grind

theorem insertEff_abs (s : Impl.State) (r : Rec) (t : Tx) (hp : InsertPre s r t) :
    abs (insertEff s t.sender r t) = { abs s with txs := t :: (abs s).txs } := by
  apply state_ext
  · rfl
  · rfl
  · intro b
    show ((insertEff s t.sender r t).senders b).map (·.seq) = (s.senders b).map (·.seq)
    rw [insertEff_senders]
    by_cases hba : b = t.sender
    · simp [hba, hp.hr]
    · simp [hba]
  · intro b; rfl
  · rfl

/-! ### `replace` -/

def replaceEff (s : Impl.State) (a : Nat) (r : Rec) (new old : Tx) : Impl.State :=
  { s with txs := new :: s.txs.filter (fun u => u.id != old.id),
           senders := updS s.senders a (some { r with txs := new :: r.txs.erase old }),
           pending := if s.pending.contains old then new :: s.pending.erase old else s.pending }

structure ReplacePre (s : Impl.State) (r : Rec) (new old : Tx) : Prop where
  hr : s.senders new.sender = some r
  hold : old ∈ r.txs
  hseq : new.seq = old.seq
  fresh : ∀ u ∈ s.txs, u.id ≠ new.id

theorem ReplacePre.notMem {s : Impl.State} {r : Rec} {new old : Tx} (h : ReplacePre s r new old) :
    new ∉ s.txs := fun hm => h.fresh new hm rfl

theorem replace_eq (s : Impl.State) (r : Rec) (new old : Tx) (hw : WF s) (hp : ReplacePre s r new old) :
    Impl.replace s new.sender new old = .ok (replaceEff s new.sender r new old) := by
  have hnm := hp.notMem
  have hotx : old ∈ s.txs := ((hw.sndSome _ r hp.hr old).1 hp.hold).1
  have h0 : r.txs.contains old = true := List.contains_iff_mem.2 hp.hold
  have h0' : s.txs.contains old = true := List.contains_iff_mem.2 hotx
  have h1 : (r.txs.erase old).contains new = false := by
    cases h : (r.txs.erase old).contains new with
    | false => rfl
    | true =>
      exact absurd ((hw.sndSome _ r hp.hr new).1 (List.mem_of_mem_erase (List.contains_iff_mem.1 h))).1 hnm
  have h2 : (s.pending.erase old).contains new = false := by
    cases h : (s.pending.erase old).contains new with
    | false => rfl
    | true => exact absurd (hw.pSub new (List.mem_of_mem_erase (List.contains_iff_mem.1 h))) hnm
  cases hpo : s.pending.contains old <;>
  simp only [Impl.replace, replaceEff, hp.hr, heapReplace, isPending, h0, h0', h1, h2, hpo,
    if_true, if_false, bind, Except.bind, pure, Except.pure, Bool.false_eq_true, Bool.not_true]

theorem replaceEff_senders (s : Impl.State) (a : Nat) (r : Rec) (new old : Tx) (b : Nat) :
    (replaceEff s a r new old).senders b =
      if b = a then some { r with txs := new :: r.txs.erase old } else s.senders b := by
  simp [replaceEff]

theorem replaceEff_txs_mem (s : Impl.State) (r : Rec) (new old : Tx) (hw : WF s)
    (hp : ReplacePre s r new old) (u : Tx) :
    u ∈ (replaceEff s new.sender r new old).txs ↔ (u = new ∨ (u ∈ s.txs ∧ u ≠ old)) := by
  have hotx : old ∈ s.txs := ((hw.sndSome _ r hp.hr old).1 hp.hold).1
  simp only [replaceEff, List.mem_cons, List.mem_filter, bne_iff_ne, ne_eq]
  constructor
  · rintro (h | ⟨h1, h2⟩)
    · exact Or.inl h
    · exact Or.inr ⟨h1, fun h => h2 (h ▸ rfl)⟩
  · rintro (h | ⟨h1, h2⟩)
    · exact Or.inl h
    · exact Or.inr ⟨h1, fun h => h2 (hw.ids u h1 old hotx h)⟩

theorem replaceEff_pending_mem (s : Impl.State) (a : Nat) (r : Rec) (new old : Tx) (hw : WF s) (u : Tx) :
    u ∈ (replaceEff s a r new old).pending ↔
      ((old ∈ s.pending ∧ (u = new ∨ (u ∈ s.pending ∧ u ≠ old))) ∨ (old ∉ s.pending ∧ u ∈ s.pending)) := by
  simp only [replaceEff]
  split
  · rename_i h
    have ho : old ∈ s.pending := List.contains_iff_mem.1 h
    simp only [List.mem_cons, hw.pNodup.mem_erase_iff]
    grind
  · rename_i h
    have ho : old ∉ s.pending := fun hm => h (List.contains_iff_mem.2 hm)
    grind

theorem replaceEff_wf (s : Impl.State) (r : Rec) (new old : Tx) (hw : WF s)
    (hp : ReplacePre s r new old) : WF (replaceEff s new.sender r new old) := by
  have hnm := hp.notMem
  have hmt := replaceEff_txs_mem s r new old hw hp
  have hmp := replaceEff_pending_mem s new.sender r new old hw
  have hsn := replaceEff_senders s new.sender r new old
  have hrm := hw.sndSome _ r hp.hr
  have hnd := hw.sndNodup _ r hp.hr
  have hotx : old ∈ s.txs := ((hrm old).1 hp.hold).1
  have hos : old.sender = new.sender := ((hrm old).1 hp.hold).2
  have hnp : new ∉ s.pending := fun h => hnm (hw.pSub new h)
  refine ⟨?_, ?_, ?_, ?_, ?_, ?_, ?_, ?_, ?_, ?_, ?_⟩
  · intro x hx y hy hxy
    rcases (hmt x).1 hx with hxn | hx' <;> rcases (hmt y).1 hy with hyn | hy'
    · rw [hxn, hyn]
    · rw [hxn] at hxy; exact absurd hxy.symm (hp.fresh y hy'.1)
    · rw [hyn] at hxy; exact absurd hxy (hp.fresh x hx'.1)
    · exact hw.ids x hx'.1 y hy'.1 hxy
  · intro x hx y hy h1 h2
    rcases (hmt x).1 hx with hxn | hx' <;> rcases (hmt y).1 hy with hyn | hy'
    · rw [hxn, hyn]
    · rw [hxn] at h1 h2
      exact absurd (hw.keys y hy'.1 old hotx (h1.symm.trans hos.symm) (h2.symm.trans hp.hseq)) hy'.2
    · rw [hyn] at h1 h2
      exact absurd (hw.keys x hx'.1 old hotx (h1.trans hos.symm) (h2.trans hp.hseq)) hx'.2
    · exact hw.keys x hx'.1 y hy'.1 h1 h2
  · intro b r' hb x
    rw [hsn] at hb
    by_cases hba : b = new.sender
    · subst hba
      simp at hb; subst hb
      simp only [List.mem_cons, hnd.mem_erase_iff, hmt, hrm]
      grind
    · simp only [hba, if_false] at hb
      rw [hw.sndSome b r' hb, hmt]
      grind
  · intro b hb x hx
    rw [hsn] at hb
    by_cases hba : b = new.sender
    · simp [hba] at hb
    · simp only [hba, if_false] at hb
      rcases (hmt x).1 hx with rfl | hx
      · exact fun h => hba h.symm
      · exact hw.sndNone b hb x hx.1
  · intro b r' hb
    rw [hsn] at hb
    by_cases hba : b = new.sender
    · subst hba
      simp at hb; subst hb
      refine List.nodup_cons.2 ⟨?_, hnd.erase old⟩
      intro h; exact hnm ((hrm new).1 (List.mem_of_mem_erase h)).1
    · simp only [hba, if_false] at hb
      exact hw.sndNodup b r' hb
  · intro x hx
    rcases (hmt x).1 hx with rfl | hx
    · rw [hp.hseq]; exact hw.bTx old hotx
    · exact hw.bTx x hx.1
  · intro b r' hb
    rw [hsn] at hb
    by_cases hba : b = new.sender
    · subst hba
      simp at hb; subst hb; exact hw.bRec _ r hp.hr
    · simp only [hba, if_false] at hb
      exact hw.bRec b r' hb
  · exact hw.bSched
  · exact hw.schedKeys
  · simp only [replaceEff]; split
    · refine List.nodup_cons.2 ⟨fun h => hnp (List.mem_of_mem_erase h), hw.pNodup.erase old⟩
    · exact hw.pNodup
  · intro x hx
    rw [hmt]
    rcases (hmp x).1 hx with ⟨_, rfl | ⟨h1, h2⟩⟩ | ⟨h1, h2⟩
    · exact Or.inl rfl
    · exact Or.inr ⟨hw.pSub x h1, h2⟩
    · exact Or.inr ⟨hw.pSub x h2, fun h => h1 (h ▸ h2)⟩

theorem replaceEff_low (s : Impl.State) (r : Rec) (new old : Tx) (hp : ReplacePre s r new old)
    (hl : Low s) : Low (replaceEff s new.sender r new old) := by
  intro b r' hb x hx
  rw [replaceEff_senders] at hb
  by_cases hba : b = new.sender
  · subst hba
    simp at hb; subst hb
    simp only [List.mem_cons] at hx
    rcases hx with rfl | hx
    · rw [hp.hseq]; exact hl _ r hp.hr old hp.hold
    · exact hl _ r hp.hr x (List.mem_of_mem_erase hx)
  · simp only [hba, if_false] at hb
    exact hl b r' hb x hx

theorem replaceEff_rdy (s : Impl.State) (r : Rec) (new old : Tx) (hp : ReplacePre s r new old) (u : Tx) :
    Rdy (replaceEff s new.sender r new old) u ↔ Rdy s u := by
  apply rdy_congr
  · rfl
  · rw [replaceEff_senders]
    by_cases hua : u.sender = new.sender
    · simp [hua, hp.hr]
    · simp [hua]

/-- Readiness depends on sender and sequence number only. -/
theorem rdy_same_key (s : Impl.State) (t u : Tx) (h1 : t.sender = u.sender) (h2 : t.seq = u.seq) :
    Rdy s t ↔ Rdy s u := by
  rw [rdy_iff, rdy_iff, h1]
  unfold rdyOf
  rw [h2]

theorem replaceEff_inv (s : Impl.State) (r : Rec) (new old : Tx) (hi : Inv s)
    (hp : ReplacePre s r new old) : Inv (replaceEff s new.sender r new old) := by
  obtain ⟨hw, hl, hs⟩ := hi
  refine ⟨replaceEff_wf s r new old hw hp, replaceEff_low s r new old hp hl, ?_⟩
  have hrm := hw.sndSome _ r hp.hr
  have hotx : old ∈ s.txs := ((hrm old).1 hp.hold).1
  have hos : old.sender = new.sender := ((hrm old).1 hp.hold).2
  have hk := rdy_same_key s new old hos.symm hp.hseq
  have hnm := hp.notMem
  have hso := hs old
  intro u
  rw [replaceEff_pending_mem s _ r new old hw, replaceEff_rdy s r new old hp u,
    replaceEff_txs_mem s r new old hw hp u, hs u]
  have hnp : new ∉ s.pending := fun h => hnm (hw.pSub new h)
  grind

theorem replaceEff_abs (s : Impl.State) (r : Rec) (new old : Tx) (hp : ReplacePre s r new old) :
    abs (replaceEff s new.sender r new old) =
      { abs s with txs := new :: (abs s).txs.filter (fun u => u.id != old.id) } := by
  apply state_ext
  · rfl
  · rfl
  · intro b
    show ((replaceEff s new.sender r new old).senders b).map (·.seq) = (s.senders b).map (·.seq)
    rw [replaceEff_senders]
    by_cases hba : b = new.sender
    · simp [hba, hp.hr]
    · simp [hba]
  · intro b; rfl
  · rfl

end OasisProofs.TxPoolImpl
