/-
Property C14, the election entry point.  `Application.elect` first publishes `MessageBeforeSchedule`:
its subscribers (roothash: liveness evaluation of the ending epoch) freeze and suspend nodes so that they
are excluded from THIS election.  Every read of the node list and of node statuses therefore has to
come after the notification (a seeded change moved the notification behind the pre-filter loop: a node
frozen in the transition block was still elected).  `tools/gen stmtfacts schedulerelect` regenerates the
statement list of `elect`; it is pinned here together with the order of the three statements.
-/
import Generated.StmtFactsSchedulerelect

namespace OasisProofs.C14ElectFacts

def pos (l : List String) (s : String) : Option Nat :=
  let i := l.findIdx (· == s)
  if i < l.length then some i else none

def expected_electStmts : List String := [
  "_, err := app.md.Publish(ctx, api.Message{ Sender: scheduler.ModuleName, Kind: schedulerApi.MessageBeforeSchedule, Data: epoch, })",
  "if err != nil {",
  "return fmt.Errorf(\"cometbft/scheduler: before schedule notification failed: %w\", err)",
  "}",
  "state := schedulerState.NewMutableState(ctx.State())",
  "schedulerParameters, err := state.ConsensusParameters(ctx)",
  "if err != nil {",
  "ctx.Logger().Error(\"failed to fetch consensus parameters\", \"err\", err, )",
  "return err",
  "}",
  "beaconState := beaconState.NewMutableState(ctx.State())",
  "beaconParameters, err := beaconState.ConsensusParameters(ctx)",
  "if err != nil {",
  "return fmt.Errorf(\"cometbft/scheduler: couldn't get beacon parameters: %w\", err)",
  "}",
  "entropy, err := beaconState.Beacon(ctx)",
  "if err != nil {",
  "return fmt.Errorf(\"cometbft/scheduler: couldn't get beacon: %w\", err)",
  "}",
  "var vrf *beacon.PrevVRFState",
  "if beaconParameters.Backend == beacon.BackendVRF {",
  "vrfState, err := beaconState.VRFState(ctx)",
  "if err != nil {",
  "return fmt.Errorf(\"cometbft/scheduler: failed to query VRF state: %w\", err)",
  "}",
  "vrf = vrfState.PrevState",
  "}",
  "filterCommitteeNodes := beaconParameters.Backend == beacon.BackendVRF && !schedulerParameters.DebugAllowWeakAlpha",
  "regState := registryState.NewImmutableState(ctx.State())",
  "registryParameters, err := regState.ConsensusParameters(ctx)",
  "if err != nil {",
  "return fmt.Errorf(\"cometbft/scheduler: couldn't get registry parameters: %w\", err)",
  "}",
  "allNodes, err := regState.Nodes(ctx)",
  "if err != nil {",
  "return fmt.Errorf(\"cometbft/scheduler: couldn't get nodes: %w\", err)",
  "}",
  "var ( nodes []*node.Node committeeNodes []*nodeWithStatus )",
  "for _, node := range allNodes {",
  "status, err := regState.NodeStatus(ctx, node.ID)",
  "if err != nil {",
  "return fmt.Errorf(\"cometbft/scheduler: couldn't get node status: %w\", err)",
  "}",
  "if status.IsFrozen() {",
  "continue",
  "}",
  "if node.IsExpired(epoch) {",
  "continue",
  "}",
  "nodes = append(nodes, node)",
  "if !filterCommitteeNodes || status.IsEligibleForElection(epoch) {",
  "committeeNodes = append(committeeNodes, &nodeWithStatus{node, status})",
  "}",
  "}",
  "stakeAcc, err := stakingState.NewStakeAccumulatorCache(ctx)",
  "if err != nil {",
  "return fmt.Errorf(\"cometbft/scheduler: failed to create stake accumulator cache: %w\", err)",
  "}",
  "rewardableEntities := make(map[staking.Address]struct{})",
  "validatorEntities, err := electValidators( ctx, epoch, beaconParameters, stakeAcc, rewardableEntities, nodes, schedulerParameters, entropy, vrf, )",
  "if err != nil {",
  "return fmt.Errorf(\"cometbft/scheduler: couldn't elect validators: %w\", err)",
  "}",
  "isFeatureVersion261, err := features.IsFeatureVersion(ctx, migrations.Version261)",
  "if err != nil {",
  "return err",
  "}",
  "if err = app.electCommittees( ctx, epoch, schedulerParameters, beaconParameters, registryParameters, stakeAcc, rewardableEntities, validatorEntities, committeeNodes, entropy, vrf, isFeatureVersion261, ); err != nil {",
  "return fmt.Errorf(\"cometbft/scheduler: couldn't elect committees: %w\", err)",
  "}",
  "if !reward {",
  "return nil",
  "}",
  "if err := distributeRewards(ctx, epoch, rewardableEntities, schedulerParameters); err != nil {",
  "return fmt.Errorf(\"cometbft/scheduler: failed to add rewards: %w\", err)",
  "}",
  "return nil"]

theorem elect_as_modelled : Generated.StmtFacts.Schedulerelect.electStmts = expected_electStmts := rfl

/-- **The before-schedule notification precedes every read of the nodes and their statuses.** -/
theorem notification_precedes_status_reads :
    (do let a ← pos expected_electStmts "_, err := app.md.Publish(ctx, api.Message{ Sender: scheduler.ModuleName, Kind: schedulerApi.MessageBeforeSchedule, Data: epoch, })"
        let b ← pos expected_electStmts "allNodes, err := regState.Nodes(ctx)"
        let c ← pos expected_electStmts "status, err := regState.NodeStatus(ctx, node.ID)"
        pure (decide (a < b ∧ b < c))) = some true := by
  decide +kernel

end OasisProofs.C14ElectFacts
