import OasisModel.Stateless.TrustedStore
import OasisProofs.Helpers.StatelessTrustedStore
import OasisProofs.Props.C19
/-
C19 (latest trusted height) — the height that decides whether the block results of a height are
checked against the NEXT verified header is the MAXIMUM of the stored verified headers, for every
history of store calls in any order of heights.

`Props/C19.lean` `results_bound` binds the results of `lb.height` to `LastResultsHash` of header
`lb.height + 1` under the hypothesis `lb.height < last`, where `last` is what
`LastTrustedHeight()` answers (core.go:615-619).  That answer comes from the production wrapper
`prunedStore` (go/consensus/cometbft/light/store.go) over the CometBFT db store.  This file is about
the wrapper: the model is `OasisModel/Stateless/TrustedStore.lean` (`save` with the watermark
pruning store.go:61-68, `delete`, `prune`, `last`), its text is pinned by `Props/C19StoreFacts.lean`.
All theorems quantify over every history `ops` of calls (any heights in any order, repeats, deletes,
explicit prunes) and every watermark configuration unless a hypothesis says otherwise.

* `last_is_max` — no hypothesis: `last` is the greatest stored height (`0` iff the store is empty).
* `last_monotone_under_save` — saving ANY height (older or newer) never lowers `last`, under
  `KeepsOne c` : `high = 0 ∨ 0 < low` (`low ≤ high` is not needed); `low_zero_drops_last`: the
  hypothesis cannot be dropped.  `last_after_save`: the new value is `max h last`.
* `newest_survives_pruning`, `newest_survives_history` — pruning to `n ≥ 1` never removes the
  maximum; without deletes `last` is the greatest height ever saved.
* `results_checked_below_last`, `results_bound_after_save` — once `H` has been saved and no height
  `≥ H` is deleted afterwards, every query for `h < H` is checked, whatever older or newer headers
  are saved in between; with `results_bound` of `Props/C19.lean` the results are bound.
  `delete_of_newer_turns_check_off`: "`H` itself is not deleted" would not be enough.
* `cached_last_saved_drops`, `cached_same_when_ascending` — the seeded variant C19-r7m1.
* `counter_agrees_when_fresh`, `counter_drift_prunes_newest` — the model reads `Size()` as the number
  of stored heights; the db store keeps a counter (db.go:71/:99).  The two agree on every history
  that saves no stored height again and deletes only stored heights; a height saved twice makes the
  counter drift and the watermark pruning (`low = 1`) then removes the newest block.
-/
namespace OasisProofs.C19TrustedStore
open OasisModel.Stateless.TrustedStore
open OasisProofs.StatelessTrustedStore

/-! ## (b) `last` is the maximum, and saving never lowers it -/

/-- **last_is_max.**  After every history of calls (from the empty store), for every watermark
configuration: `last` is the greatest stored height — it is stored (when anything is), every stored
height is `≤` it, it is `0` exactly for "no trusted headers" when heights are positive, and it equals
the order-free maximum `maxOf`. -/
theorem last_is_max (c : Cfg) (ops : List Op) :
    let s := run c [] ops
    (∀ x ∈ s, x ≤ last s) ∧ (s ≠ [] → last s ∈ s) ∧ (s = [] → last s = 0) ∧ last s = maxOf s := by
  intro s
  have hs : Sorted s := run_sorted ops sorted_nil
  exact ⟨fun x hx => le_last hs hx, last_mem, fun h => by rw [h]; rfl, last_eq_maxOf hs⟩

/-- The same from any strictly ascending starting store (e.g. a store loaded from disk). -/
theorem last_is_max_from (c : Cfg) (s0 : Store) (h0 : Sorted s0) (ops : List Op) :
    let s := run c s0 ops
    (∀ x ∈ s, x ≤ last s) ∧ (s ≠ [] → last s ∈ s) ∧ last s = maxOf s := by
  intro s
  have hs : Sorted s := run_sorted ops h0
  exact ⟨fun x hx => le_last hs hx, last_mem, last_eq_maxOf hs⟩

example : last (run ⟨3, 2⟩ [] [.save 20, .save 10, .save 30, .delete 30, .save 5, .prune 2]) = 20 := by decide
example : run ⟨3, 2⟩ [] [.save 20, .save 10, .save 30, .delete 30, .save 5, .prune 2] = [10, 20] := by decide

/-- **last_after_save.**  After every history, saving height `h` makes `last` the maximum of `h` and
the previous `last` — the watermark pruning inside `SaveLightBlock` does not show. -/
theorem last_after_save (c : Cfg) (hc : KeepsOne c) (ops : List Op) (h : Nat) :
    last (run c [] (ops ++ [.save h])) = max h (last (run c [] ops)) := by
  rw [run_append]
  exact last_save hc (run_sorted ops sorted_nil) h

/-- **last_monotone_under_save.**  After every history, saving any height — older or newer than the
stored ones — never lowers `last`, provided the automatic pruning keeps at least one block
(`high = 0 ∨ 0 < low`; `low ≤ high` is not needed). -/
theorem last_monotone_under_save (c : Cfg) (hc : KeepsOne c) (ops : List Op) (h : Nat) :
    last (run c [] ops) ≤ last (run c [] (ops ++ [.save h])) := by
  rw [last_after_save c hc]
  exact Nat.le_max_right _ _

/-- Non-vacuity: a pruning configuration, an older header saved while the store is at the high
watermark (the pruning runs: 10 is removed, 30 stays the last). -/
example : KeepsOne ⟨3, 1⟩ ∧ run ⟨3, 1⟩ [] [.save 10, .save 20, .save 30] = [10, 20, 30] ∧
    run ⟨3, 1⟩ [] [.save 10, .save 20, .save 30, .save 5] = [5, 30] ∧
    last (run ⟨3, 1⟩ [] [.save 10, .save 20, .save 30, .save 5]) = 30 := by decide

/-- **low_zero_drops_last** (necessity of `0 < low`).  With `high = 1, low = 0` saving the older
header 10 after 20 empties the store first: `last` drops from 20 to 10. -/
theorem low_zero_drops_last :
    ¬ KeepsOne ⟨1, 0⟩ ∧ last (run ⟨1, 0⟩ [] [.save 20]) = 20 ∧
    last (run ⟨1, 0⟩ [] ([.save 20] ++ [.save 10])) = 10 := by decide

/-! ## (c) Pruning never removes the newest block -/

/-- **newest_survives_pruning.**  After every history, pruning to any size `n ≥ 1` (oldest first)
keeps the maximum: it is still stored, `last` and the order-free maximum are unchanged, and nothing
that was not stored appears.  The same holds for the pruning step inside `SaveLightBlock` under
`KeepsOne`. -/
theorem newest_survives_pruning (c : Cfg) (ops : List Op) (n : Nat) (hn : 1 ≤ n) :
    let s := run c [] ops
    last (prune n s) = last s ∧ maxOf (prune n s) = maxOf s ∧ (s ≠ [] → last s ∈ prune n s) ∧
    (∀ x ∈ prune n s, x ∈ s) ∧ (KeepsOne c → last (autoPrune c s) = last s) := by
  intro s
  have hs : Sorted s := run_sorted ops sorted_nil
  refine ⟨last_prune hn s, ?_, ?_, fun x hx => mem_of_mem_prune hx, fun hc => last_autoPrune hc s⟩
  · rw [← last_eq_maxOf (prune_sorted hs), ← last_eq_maxOf hs, last_prune hn]
  · intro hne
    rw [← last_prune hn s]
    exact last_mem (prune_ne_nil hn hne)

/-- `prune 0` is the one size that removes the newest block. -/
example : last (run ⟨0, 0⟩ [] [.save 10, .save 20]) = 20 ∧ last (prune 0 (run ⟨0, 0⟩ [] [.save 10, .save 20])) = 0 := by
  decide

example : prune 1 (run ⟨0, 0⟩ [] [.save 20, .save 10, .save 15]) = [20] := by decide

/-- A history without deletes whose explicit prunes keep at least one block. -/
def NoLoss : List Op → Prop
  | [] => True
  | .save _ :: ops => NoLoss ops
  | .delete _ :: _ => False
  | .prune n :: ops => 1 ≤ n ∧ NoLoss ops

/-- The greatest height saved in a history (`0` if none). -/
def maxSaved : List Op → Nat
  | [] => 0
  | .save h :: ops => max h (maxSaved ops)
  | _ :: ops => maxSaved ops

private theorem last_run_noLoss (c : Cfg) (hc : KeepsOne c) (ops : List Op) (hno : NoLoss ops) (s : Store)
    (hs : Sorted s) : last (run c s ops) = max (last s) (maxSaved ops) := by
  induction ops generalizing s with
  | nil => simp [run, maxSaved]
  | cons op ops ih =>
    rw [run_cons]
    cases op with
    | save h =>
      show last (run c (save c h s) ops) = _
      rw [ih hno _ (save_sorted hs), last_save hc hs]
      simp only [maxSaved]; omega
    | delete h => exact absurd hno (by simp [NoLoss])
    | prune n =>
      show last (run c (prune n s) ops) = _
      rw [ih hno.2 _ (prune_sorted hs), last_prune hno.1]
      rfl

/-- **newest_survives_history.**  For every history without deletes whose explicit prunes keep at
least one block, in any order of heights: `last` is the greatest height that was ever saved — no
sequence of watermark prunings loses it. -/
theorem newest_survives_history (c : Cfg) (hc : KeepsOne c) (ops : List Op) (hno : NoLoss ops) :
    last (run c [] ops) = maxSaved ops := by
  rw [last_run_noLoss c hc ops hno [] sorted_nil]; simp

example : NoLoss [.save 20, .save 10, .prune 1, .save 7, .save 30, .save 8] ∧ KeepsOne ⟨2, 1⟩ ∧
    maxSaved [.save 20, .save 10, .prune 1, .save 7, .save 30, .save 8] = 30 ∧
    run ⟨2, 1⟩ [] [.save 20, .save 10, .prune 1, .save 7, .save 30, .save 8] = [8, 30] := by
  refine ⟨by simp [NoLoss], by decide, by decide, by decide⟩

/-! ## (d) Results below a saved height stay checked -/

/-- Nothing after the save of `H` deletes a height `≥ H`, and explicit prunes keep a block. -/
def Keeps (H : Nat) : List Op → Prop
  | [] => True
  | .save _ :: ops => Keeps H ops
  | .delete x :: ops => x < H ∧ Keeps H ops
  | .prune n :: ops => 1 ≤ n ∧ Keeps H ops

private theorem le_last_run (c : Cfg) (hc : KeepsOne c) (H : Nat) (post : List Op) (hk : Keeps H post)
    (s : Store) (hs : Sorted s) (hH : H ≤ last s) : H ≤ last (run c s post) := by
  induction post generalizing s with
  | nil => exact hH
  | cons op post ih =>
    rw [run_cons]
    cases op with
    | save h =>
      refine ih hk _ (save_sorted hs) ?_
      rw [step, last_save hc hs]; omega
    | delete x =>
      refine ih hk.2 _ (delete_sorted hs) ?_
      have hx := hk.1
      rw [step, last_delete_ne hs (by omega)]; exact hH
    | prune n =>
      refine ih hk.2 _ (prune_sorted hs) ?_
      rw [step, last_prune hk.1]; exact hH

/-- **last_ge_saved.**  For every history `pre`, every `H`, every continuation `post` that deletes
no height `≥ H` and prunes to no less than one block: `last ≥ H` — whatever older or newer headers
`post` saves, however often the watermark pruning runs (`H` itself may well be pruned away). -/
theorem last_ge_saved (c : Cfg) (hc : KeepsOne c) (pre post : List Op) (H : Nat) (hk : Keeps H post) :
    H ≤ last (run c [] (pre ++ .save H :: post)) := by
  rw [run_append, run_cons]
  have hs : Sorted (run c [] pre) := run_sorted pre sorted_nil
  refine le_last_run c hc H post hk _ (save_sorted hs) ?_
  rw [step, last_save hc hs]; omega

/-- **results_checked_below_last.**  Composing with the rule of core.go:619 ("height `h` is checked
against header `h+1` iff `h < last`"): once some `H > h` has been saved and no height `≥ H` is
deleted afterwards, every later query for `h` is checked — saving an OLDER header in between does
not turn the check off. -/
theorem results_checked_below_last (c : Cfg) (hc : KeepsOne c) (pre post : List Op) (H h : Nat)
    (hk : Keeps H post) (hh : h < H) :
    checked (last (run c [] (pre ++ .save H :: post))) h = true := by
  have := last_ge_saved c hc pre post H hk
  simp only [checked, decide_eq_true_eq]; omega

/-- Non-vacuity: 20 saved, then the older headers 10 and 12 (pruning runs), a delete below 20. -/
example : KeepsOne ⟨2, 1⟩ ∧ Keeps 20 [.save 10, .save 12, .delete 10, .prune 1, .save 11] ∧
    run ⟨2, 1⟩ [] ([.save 15] ++ .save 20 :: [.save 10, .save 12, .delete 10, .prune 1, .save 11]) = [11, 20] ∧
    checked (last (run ⟨2, 1⟩ [] ([.save 15] ++ .save 20 :: [.save 10, .save 12, .delete 10, .prune 1, .save 11]))) 19
      = true := by
  refine ⟨by decide, by simp [Keeps], by decide, by decide⟩

/-- **delete_of_newer_turns_check_off** (necessity of "no height `≥ H` is deleted", not just "`H` is
not deleted"): 20 is saved and never deleted, but it is pruned away while 30 is the newest; deleting
30 then leaves no trusted header and the query for 19 is no longer checked. -/
theorem delete_of_newer_turns_check_off :
    KeepsOne ⟨0, 0⟩ ∧ run ⟨0, 0⟩ [] ([] ++ .save 20 :: [.save 30, .prune 1, .delete 30]) = [] ∧
    checked (last (run ⟨0, 0⟩ [] ([] ++ .save 20 :: [.save 30, .prune 1, .delete 30]))) 19 = false := by decide

/-- **results_bound_after_save.**  The conclusion of `C19.results_bound` for the light client whose
`LastTrustedHeight()` is the store's `last` after such a history: results accepted for a light block
of height `< H` decode and hash to `LastResultsHash` of the next verified header. -/
theorem results_bound_after_save {Sig Ev P : Type} (L : OasisModel.Stateless.Lib Sig Ev P)
    (Hh : OasisModel.Stateless.Bytes → OasisModel.Stateless.Bytes)
    (c : Cfg) (hc : KeepsOne c) (pre post : List Op) (H : Nat) (hk : Keeps H post)
    (lc : OasisModel.Stateless.LightClient) (r : OasisModel.Stateless.BlockResults)
    (lb : OasisModel.Stateless.Header) (m : OasisModel.Stateless.ResultsMeta Ev)
    (hlast : lc.last = some (last (run c [] (pre ++ .save H :: post)) : Int))
    (hbelow : lb.height < (H : Int))
    (h : OasisModel.Stateless.verifyBlockResults L Hh lc r lb = (.ok, some m)) :
    r.height = lb.height ∧ L.decResults r.metaB = some m ∧
    ∃ nxt, lc.trusted (lb.height + 1) = some nxt ∧
      OasisModel.Stateless.resultsHash L Hh m = nxt.lastResultsHash := by
  have hge := last_ge_saved c hc pre post H hk
  exact OasisProofs.C19.results_bound L Hh lc r lb _ m hlast (by omega) h

/-! ## (e) The seeded variant: `last` cached as the height just saved -/

/-- **cached_last_saved_drops.**  The variant (C19-r7m1) answers 10 after `[save 20, save 10]` while
the store holds 20 as its maximum (and the real wrapper answers 20); with the variant's answer the
queries for the heights 10..19 are no longer checked, with the real one they all are. -/
theorem cached_last_saved_drops :
    (CStore.run ⟨0, 0⟩ CStore.empty [.save 20, .save 10]).last = 10 ∧
    (CStore.run ⟨0, 0⟩ CStore.empty [.save 20, .save 10]).store = [10, 20] ∧
    last (run ⟨0, 0⟩ [] [.save 20, .save 10]) = 20 ∧
    (∀ h ∈ [10, 11, 12, 13, 14, 15, 16, 17, 18, 19],
      checked (CStore.run ⟨0, 0⟩ CStore.empty [.save 20, .save 10]).last h = false ∧
      checked (last (run ⟨0, 0⟩ [] [.save 20, .save 10])) h = true) := by decide

/-- The same with the production-style watermarks in force. -/
example : (CStore.run ⟨4, 2⟩ CStore.empty [.save 20, .save 10]).last = 10 ∧
    last (run ⟨4, 2⟩ [] [.save 20, .save 10]) = 20 := by decide

/-- Forward-only following: no deletes, every saved height `≥` the ones saved before (`b` is the
greatest height saved so far). -/
def Ascending (b : Nat) : List Op → Prop
  | [] => True
  | .save h :: ops => b ≤ h ∧ Ascending h ops
  | .delete _ :: _ => False
  | .prune _ :: ops => Ascending b ops

private theorem cached_same_aux (c : Cfg) (ops : List Op) (b : Nat) (ha : Ascending b ops) (cs : CStore)
    (hs : Sorted cs.store) (hb : ∀ x ∈ cs.store, x ≤ b) (hc : cs.cache = 0 ∨ cs.cache = last cs.store) :
    (CStore.run c cs ops).last = last (run c cs.store ops) := by
  induction ops generalizing b cs with
  | nil =>
    show cs.last = last cs.store
    unfold CStore.last; split
    · rcases hc with h | h
      · omega
      · exact h
    · rfl
  | cons op ops ih =>
    rw [crun_cons, run_cons, ← cstep_store]
    cases op with
    | save h =>
      have hst : (CStore.step c cs (.save h)).store = save c h cs.store := cstep_store c cs (.save h)
      refine ih h ha.2 _ (by rw [hst]; exact save_sorted hs) ?_ ?_
      · intro x hx
        rw [hst] at hx
        rcases mem_put.mp hx with rfl | hx
        · exact Nat.le_refl _
        · have : x ∈ cs.store := by
            unfold autoPrune at hx; split at hx
            · exact mem_of_mem_prune hx
            · exact hx
          exact Nat.le_trans (hb x this) ha.1
      · right
        rw [hst]
        show h = last (save c h cs.store)
        symm
        apply last_eq_of_max (save_sorted hs) (mem_put.mpr (Or.inl rfl))
        intro x hx
        rcases mem_put.mp hx with rfl | hx
        · exact Nat.le_refl _
        · have : x ∈ cs.store := by
            unfold autoPrune at hx; split at hx
            · exact mem_of_mem_prune hx
            · exact hx
          exact Nat.le_trans (hb x this) ha.1
    | delete h => exact absurd ha (by simp [Ascending])
    | prune n =>
      refine ih b ha _ (prune_sorted hs) (fun x hx => hb x (mem_of_mem_prune hx)) ?_
      show (if n = 0 then 0 else cs.cache) = 0 ∨ (if n = 0 then 0 else cs.cache) = last (prune n cs.store)
      by_cases hn : n = 0
      · left; simp [hn]
      · rw [if_neg hn, last_prune (by omega)]; exact hc

/-- **cached_same_when_ascending.**  On every history without deletes whose saves are in ascending
order (explicit prunes of any size in between, any watermarks — even `low = 0`), the variant's
`last` agrees with the real one: forward-only following cannot tell them apart. -/
theorem cached_same_when_ascending (c : Cfg) (ops : List Op) (ha : Ascending 0 ops) :
    (CStore.run c CStore.empty ops).last = last (run c [] ops) :=
  cached_same_aux c ops 0 ha CStore.empty sorted_nil (by intro x hx; cases hx) (Or.inl rfl)

example : Ascending 0 [.save 5, .save 7, .prune 1, .save 7, .save 9, .prune 0, .save 12] ∧
    (CStore.run ⟨2, 0⟩ CStore.empty [.save 5, .save 7, .prune 1, .save 7, .save 9, .prune 0, .save 12]).last = 12 := by
  refine ⟨by simp [Ascending], by decide⟩


/-! ## The modelling assumption `Size() = number of stored heights` -/

/-- Every save stores a height that is not stored at that moment and every delete removes a stored
height (what the light client does: it looks a height up before verifying and saving it). -/
def Fresh (c : Cfg) (s : Store) : List Op → Prop
  | [] => True
  | .save h :: ops => h ∉ autoPrune c s ∧ Fresh c (save c h s) ops
  | .delete h :: ops => h ∈ s ∧ Fresh c (delete h s) ops
  | .prune n :: ops => Fresh c (prune n s) ops

/-- **counter_drift_prunes_newest** (necessity of the assumption; db.go:71).  When a height is saved
twice the db store's counter exceeds the number of keys, and the watermark pruning to `low = 1`
then removes the ONLY (newest) block: after `[save 20, save 20, save 10]` with `high = 2, low = 1`
the store with the counter holds only 10, while the key-set model holds 10 and 20. -/
theorem counter_drift_prunes_newest :
    KeepsOne ⟨2, 1⟩ ∧ (Db.run ⟨2, 1⟩ Db.empty [.save 20, .save 20, .save 10]).keys = [10] ∧
    run ⟨2, 1⟩ [] [.save 20, .save 20, .save 10] = [10, 20] ∧
    ¬ Fresh ⟨2, 1⟩ [] [.save 20, .save 20, .save 10] := by
  refine ⟨by decide, by decide, by decide, ?_⟩
  simp [Fresh, autoPrune, save, put]


/-- **counter_agrees_when_fresh.**  On every history in which no stored height is saved again and
only stored heights are deleted, from every strictly ascending store whose counter is exact, the db
store with its counter behaves exactly as the key-set model (and the counter stays exact) — so all
theorems above are about the real wrapper on such histories. -/
theorem counter_agrees_when_fresh (c : Cfg) (ops : List Op) (s : Store) (hs : Sorted s) (hf : Fresh c s ops) :
    Db.run c ⟨s, s.length⟩ ops = ⟨run c s ops, (run c s ops).length⟩ := by
  induction ops generalizing s with
  | nil => rfl
  | cons op ops ih =>
    rw [dbrun_cons, run_cons]
    cases op with
    | save h =>
      have hstep : Db.step c ⟨s, s.length⟩ (.save h) = ⟨save c h s, (save c h s).length⟩ := by
        show Db.put h (if 0 < c.high ∧ c.high ≤ s.length then Db.prune c.low ⟨s, s.length⟩ else ⟨s, s.length⟩) = _
        have : (if 0 < c.high ∧ c.high ≤ s.length then Db.prune c.low ⟨s, s.length⟩ else ⟨s, s.length⟩)
            = (⟨autoPrune c s, (autoPrune c s).length⟩ : Db) := by
          unfold autoPrune; split
          · exact db_prune_exact _ _
          · rfl
        rw [this]
        simp only [Db.put, save, length_put_of_not_mem hf.1]
      rw [hstep]; exact ih _ (save_sorted hs) hf.2
    | delete h =>
      have hstep : Db.step c ⟨s, s.length⟩ (.delete h) = ⟨delete h s, (delete h s).length⟩ := by
        show (⟨delete h s, s.length - 1⟩ : Db) = _
        have := length_delete_of_mem hs hf.1
        congr 1; omega
      rw [hstep]; exact ih _ (delete_sorted hs) hf.2
    | prune n =>
      have hstep : Db.step c ⟨s, s.length⟩ (.prune n) = ⟨prune n s, (prune n s).length⟩ := db_prune_exact n s
      rw [hstep]; exact ih _ (prune_sorted hs) hf

example : Fresh ⟨2, 1⟩ [] [.save 20, .save 10, .save 30, .delete 30, .save 15] ∧
    Db.run ⟨2, 1⟩ Db.empty [.save 20, .save 10, .save 30, .delete 30, .save 15] = ⟨[15, 20], 2⟩ := by
  refine ⟨by simp [Fresh, autoPrune, save, put, prune, delete], by decide⟩

end OasisProofs.C19TrustedStore
