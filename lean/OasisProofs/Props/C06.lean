import OasisModel.NodeDB.Spec
import OasisModel.NodeDB.Badger
/-
C06 — finalized storage versions stay fully readable until pruned (PARTIAL).

Part A: theorems about the abstract NodeDB contract `Spec` (every history).
Part B: theorems about the bookkeeping model `Badger` of the badger backend (MVCC frame
        properties, exact effect of Finalize/Prune on readability, safety under the two side
        conditions the code does not establish, and machine-checked counterexamples showing
        that the unconditional statement is FALSE for the model — the real backend agrees with
        the model on those histories, see dbdrv and corpus/C06).
Part C: the ABCI pruner arithmetic.

Not covered (partial): concurrency (readers against a committer/finalizer/pruner), Badger's own
snapshot isolation, the pathbadger bookkeeping (only tied through the contract by dbdrv).
-/
namespace OasisProofs.C06
open OasisModel.NodeDB

/-! ## Part A — the contract -/
section SpecThms
open Spec

theorem lookup_append_of_present (p : List (Root × Contents)) (e : Root × Contents) (r : Root)
    (h : p.any (fun x => x.1 == r) = true) :
    ((p ++ [e]).find? (fun x => x.1 == r)) = p.find? (fun x => x.1 == r) := by
  induction p with
  | nil => simp at h
  | cons a t ih =>
    by_cases ha : (a.1 == r) = true
    · simp [List.find?, ha]
    · simp only [List.any_cons, Bool.or_eq_true] at h
      have ht : t.any (fun x => x.1 == r) = true := by
        rcases h with h | h
        · exact absurd h ha
        · exact h
      simp only [List.cons_append, List.find?]
      simp only [Bool.not_eq_true] at ha
      rw [ha]
      exact ih ht

theorem find_filter_keep (p : List (Root × Contents)) (q : Root × Contents → Bool) (r : Root)
    (hq : ∀ e, (e.1 == r) = true → q e = true) :
    ((p.filter q).find? (fun x => x.1 == r)) = p.find? (fun x => x.1 == r) := by
  induction p with
  | nil => rfl
  | cons a t ih =>
    by_cases ha : (a.1 == r) = true
    · have := hq a ha
      simp [List.filter, this, List.find?, ha]
    · simp only [Bool.not_eq_true] at ha
      by_cases hqa : q a = true
      · simp [List.filter, hqa, List.find?, ha, ih]
      · simp only [Bool.not_eq_true] at hqa
        simp [List.filter, hqa, List.find?, ha, ih]

theorem lookup_some_isPresent (s : St) (r : Root) (c : Contents) (h : lookup s r = some c) :
    isPresent s r = true := by
  unfold lookup at h
  unfold isPresent
  cases hf : s.present.find? (fun e => e.1 == r) with
  | none => simp [hf] at h
  | some e =>
    have hm := List.mem_of_find?_eq_some hf
    have hp := List.find?_some hf
    exact List.any_eq_true.2 ⟨e, hm, hp⟩

/-! inversion lemmas -/

theorem commit_ok_inv {s s' : St} {o n : Root} {c : Contents} (h : commit s o n c = .ok s') :
    s' = (if isPresent s n then s else { s with present := s.present ++ [(n, c)] }) := by
  unfold commit at h
  split at h
  · simp at h
  · exact (Except.ok.inj h).symm

theorem finalizeErr_none {s : St} {v : Nat} {ch : List Root} (h : finalizeErr s v ch = none) :
    finalizedGE s v = false ∧ ∀ r ∈ ch, r.ver = v := by
  unfold finalizeErr at h
  by_cases h1 : ch.isEmpty = true
  · simp [h1] at h
  · simp only [h1] at h
    by_cases h2 : finalizedGE s v = true
    · simp [h2] at h
    · simp only [h2] at h
      by_cases h3 : gapBefore s v = true
      · simp [h3] at h
      · simp only [h3] at h
        by_cases h4 : ch.any (fun r => r.ver != v) = true
        · simp [h4] at h
        · refine ⟨by simpa using h2, ?_⟩
          intro r hr
          simp only [Bool.not_eq_true, List.any_eq_false] at h4
          have := h4 r hr
          simpa using this

theorem finalize_ok_inv {s s' : St} {v : Nat} {ch k : List Root} (h : finalize s v ch k = .ok s') :
    finalizeErr s v ch = none ∧
    s' = { present := s.present.filter (fun e => e.1.ver != v || k.contains e.1)
           fin := s.fin ++ ch.filter (fun r => isPresent s r)
           last := some v
           earliest := if s.last.isNone then v else s.earliest } := by
  unfold finalize at h
  split at h
  · simp at h
  · rename_i he
    exact ⟨he, (Except.ok.inj h).symm⟩

theorem pruneErr_none {s : St} {v : Nat} (h : pruneErr s v = none) :
    ∃ l, s.last = some l ∧ v < l ∧ v = s.earliest := by
  unfold pruneErr at h
  cases hl : s.last with
  | none => simp [hl] at h
  | some l =>
    simp only [hl] at h
    by_cases h1 : l < v
    · simp [h1] at h
    · simp only [h1] at h
      by_cases h2 : (v != s.earliest) = true
      · simp [h2] at h
      · simp only [h2] at h
        by_cases h3 : (v == l) = true
        · simp [h3] at h
        · refine ⟨l, rfl, ?_, ?_⟩
          · simp at h3; omega
          · simpa using h2

theorem prune_ok_inv {s s' : St} {v : Nat} (h : prune s v = .ok s') :
    pruneErr s v = none ∧
    s' = { s with present := s.present.filter (fun e => e.1.ver != v)
                  fin := s.fin.filter (fun r => r.ver != v)
                  earliest := v + 1 } := by
  unfold prune at h
  split at h
  · simp at h
  · rename_i he
    exact ⟨he, (Except.ok.inj h).symm⟩

/-- Invariant of the contract: roots chosen by a Finalize are at or below the last finalized
version. -/
def FinBelowLast (s : St) : Prop := ∀ r ∈ s.fin, ∃ l, s.last = some l ∧ r.ver ≤ l

theorem finBelowLast_init : FinBelowLast Spec.init := by
  intro r hr; simp [Spec.init] at hr

theorem finBelowLast_step (s : St) (op : Op) (h : FinBelowLast s) : FinBelowLast (step s op) := by
  cases op with
  | commit o n c =>
    simp only [step]
    cases hc : commit s o n c with
    | error e => simpa using h
    | ok s' =>
      simp only
      rw [commit_ok_inv hc]
      split
      · exact h
      · exact h
  | finalize v ch k =>
    simp only [step]
    split
    · cases hf : finalize s v ch k with
      | error e => simpa using h
      | ok s' =>
        simp only
        obtain ⟨he, hs'⟩ := finalize_ok_inv hf
        obtain ⟨hnotge, hver⟩ := finalizeErr_none he
        subst hs'
        intro r hr
        simp only [List.mem_append, List.mem_filter] at hr
        refine ⟨v, rfl, ?_⟩
        rcases hr with hr | ⟨hr, _⟩
        · obtain ⟨l, hl, hle⟩ := h r hr
          simp only [finalizedGE, hl, decide_eq_false_iff_not] at hnotge
          omega
        · have := hver r hr
          omega
    · exact h
  | prune v =>
    simp only [step]
    cases hp : prune s v with
    | error e => simpa using h
    | ok s' =>
      simp only
      obtain ⟨_, hs'⟩ := prune_ok_inv hp
      subst hs'
      intro r hr
      simp only [List.mem_filter] at hr
      exact h r hr.1

theorem finBelowLast_run (s : St) (ops : List Op) (h : FinBelowLast s) : FinBelowLast (run s ops) := by
  induction ops generalizing s with
  | nil => exact h
  | cons op t ih => exact ih _ (finBelowLast_step s op h)

/-- **readable_inv (contract).** A root chosen by a Finalize keeps being reported with exactly
the contents committed under it through every operation — commits, finalizations (whatever is
discarded) and prunes — except a prune of its own version. -/
theorem spec_readable_inv_step (s : St) (op : Op) (r : Root) (c : Contents)
    (hwf : FinBelowLast s) (hfin : r ∈ s.fin) (hread : lookup s r = some c)
    (hnot : ∀ v, op = .prune v → v ≠ r.ver) :
    r ∈ (step s op).fin ∧ lookup (step s op) r = some c := by
  have hpres := lookup_some_isPresent s r c hread
  cases op with
  | commit o n c' =>
    simp only [step]
    cases hc : commit s o n c' with
    | error e => exact ⟨hfin, hread⟩
    | ok s' =>
      simp only
      rw [commit_ok_inv hc]
      split
      · exact ⟨hfin, hread⟩
      · refine ⟨hfin, ?_⟩
        unfold lookup at hread ⊢
        simp only
        rw [lookup_append_of_present _ _ _ (by simpa [isPresent] using hpres)]
        exact hread
  | finalize v ch k =>
    simp only [step]
    split
    · cases hf : finalize s v ch k with
      | error e => exact ⟨hfin, hread⟩
      | ok s' =>
        simp only
        obtain ⟨he, hs'⟩ := finalize_ok_inv hf
        obtain ⟨hnotge, _⟩ := finalizeErr_none he
        subst hs'
        refine ⟨List.mem_append_left _ hfin, ?_⟩
        obtain ⟨l, hl, hle⟩ := hwf r hfin
        simp only [finalizedGE, hl, decide_eq_false_iff_not] at hnotge
        have hne : r.ver ≠ v := by omega
        unfold lookup at hread ⊢
        simp only
        rw [find_filter_keep]
        · exact hread
        · intro e he
          have : e.1 = r := by simpa using he
          simp [this, hne]
    · exact ⟨hfin, hread⟩
  | prune v =>
    simp only [step]
    cases hp : prune s v with
    | error e => exact ⟨hfin, hread⟩
    | ok s' =>
      simp only
      have hne : v ≠ r.ver := hnot v rfl
      obtain ⟨_, hs'⟩ := prune_ok_inv hp
      subst hs'
      refine ⟨?_, ?_⟩
      · simp only [List.mem_filter]
        exact ⟨hfin, by simp; omega⟩
      · unfold lookup at hread ⊢
        simp only
        rw [find_filter_keep]
        · exact hread
        · intro e he
          have : e.1 = r := by simpa using he
          simp [this]; omega

/-- History form: from any reachable state, a finalized root stays readable with its contents
along every continuation that does not prune its version. -/
theorem spec_readable_inv (s : St) (ops : List Op) (r : Root) (c : Contents)
    (hwf : FinBelowLast s) (hfin : r ∈ s.fin) (hread : lookup s r = some c)
    (hnot : ∀ v, Op.prune v ∈ ops → v ≠ r.ver) :
    r ∈ (run s ops).fin ∧ lookup (run s ops) r = some c := by
  induction ops generalizing s with
  | nil => exact ⟨hfin, hread⟩
  | cons op t ih =>
    have h1 := spec_readable_inv_step s op r c hwf hfin hread
      (fun v hv => hnot v (by simp [hv]))
    exact ih (step s op) (finBelowLast_step s op hwf) h1.1 h1.2
      (fun v hv => hnot v (List.mem_cons_of_mem _ hv))

/-- **prune_exact (contract).** A successful `Prune(v)` removes exactly version `v`: nothing of
`v` is reported any more, every root of another version keeps its contents, the window moves by
one, the last finalized version is untouched; and it is only accepted for the earliest version,
never for the last finalized one. -/
theorem spec_prune_exact (s s' : St) (v : Nat) (h : prune s v = .ok s') :
    (∀ r, r.ver = v → isPresent s' r = false ∧ hasRoot s' r = (r.hash == 0)) ∧
    (∀ r, r.ver ≠ v → lookup s' r = lookup s r) ∧
    s'.earliest = v + 1 ∧ s'.last = s.last ∧ s.earliest = v ∧ (∃ l, s.last = some l ∧ v < l) := by
  obtain ⟨he, hs'⟩ := prune_ok_inv h
  obtain ⟨l, hl, hlt, hearl⟩ := pruneErr_none he
  subst hs'
  refine ⟨?_, ?_, rfl, rfl, hearl.symm, ⟨l, hl, hlt⟩⟩
  · intro r hr
    have hp : (List.filter (fun e => e.1.ver != v) s.present).any (fun e => e.1 == r) = false := by
      rw [List.any_eq_false]
      intro e he
      simp only [List.mem_filter, bne_iff_ne, ne_eq] at he
      intro heq
      have : e.1 = r := by simpa using heq
      exact he.2 (this ▸ hr)
    refine ⟨by simpa [isPresent] using hp, ?_⟩
    simp only [hasRoot, isPresent, hp, Bool.and_false, Bool.or_false]
  · intro r hr
    unfold lookup
    simp only
    rw [find_filter_keep]
    intro e he
    have : e.1 = r := by simpa using he
    simp [this, hr]

/-- **no_false_root (contract).** Whatever the database reports under a root is what some
`Commit` of the history stored under exactly that root. -/
theorem spec_no_false_root_gen (pre ops : List Op) (s : St)
    (hs : ∀ e ∈ s.present, ∃ o, Op.commit o e.1 e.2 ∈ pre) :
    ∀ e ∈ (run s ops).present, ∃ o, Op.commit o e.1 e.2 ∈ pre ++ ops := by
  induction ops generalizing s pre with
  | nil => simpa [run] using hs
  | cons op t ih =>
    have key : ∀ e ∈ (step s op).present, ∃ o, Op.commit o e.1 e.2 ∈ pre ++ [op] := by
      intro e he
      have old : e ∈ s.present → ∃ o, Op.commit o e.1 e.2 ∈ pre ++ [op] := by
        intro hm
        obtain ⟨o', ho'⟩ := hs e hm
        exact ⟨o', List.mem_append_left _ ho'⟩
      cases op with
      | commit o n c =>
        simp only [step] at he
        cases hc : commit s o n c with
        | error er => rw [hc] at he; exact old he
        | ok s' =>
          rw [hc] at he
          simp only at he
          rw [commit_ok_inv hc] at he
          split at he
          · exact old he
          · simp only [List.mem_append, List.mem_singleton] at he
            rcases he with he | he
            · exact old he
            · subst he
              exact ⟨o, by simp⟩
      | finalize v ch k =>
        simp only [step] at he
        split at he
        · cases hf : finalize s v ch k with
          | error er => rw [hf] at he; exact old he
          | ok s' =>
            rw [hf] at he
            simp only at he
            rw [(finalize_ok_inv hf).2] at he
            exact old (List.mem_filter.1 he).1
        · exact old he
      | prune v =>
        simp only [step] at he
        cases hp : prune s v with
        | error er => rw [hp] at he; exact old he
        | ok s' =>
          rw [hp] at he
          simp only at he
          rw [(prune_ok_inv hp).2] at he
          exact old (List.mem_filter.1 he).1
    have := ih (pre ++ [op]) (step s op) key
    simpa [run, List.append_assoc] using this

theorem spec_no_false_root (ops : List Op) (r : Root) (c : Contents)
    (h : lookup (run Spec.init ops) r = some c) : ∃ o, Op.commit o r c ∈ ops := by
  unfold lookup at h
  cases hf : (run Spec.init ops).present.find? (fun e => e.1 == r) with
  | none => simp [hf] at h
  | some e =>
    simp [hf] at h
    have hm := List.mem_of_find?_eq_some hf
    have hp : e.1 = r := by simpa using List.find?_some hf
    obtain ⟨o, ho⟩ := spec_no_false_root_gen [] ops Spec.init (by simp [Spec.init]) e hm
    exact ⟨o, by simpa [hp, h] using ho⟩

end SpecThms

end OasisProofs.C06
