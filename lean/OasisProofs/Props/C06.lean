import OasisModel.NodeDB.Spec
import OasisModel.NodeDB.Badger
import OasisModel.NodeDB.Pruner
import OasisModel.NodeDB.PathBadger
import OasisProofs.Helpers.PathBadger
/-
C06 — finalized storage versions stay fully readable until pruned (PARTIAL).

Part A: theorems about the abstract NodeDB contract `Spec` (every history).
Part B: theorems about the bookkeeping model `Badger` of the badger backend (MVCC frame
        properties, exact effect of Finalize/Prune on readability, safety under the two side
        conditions the code does not establish, and machine-checked counterexamples showing
        that the unconditional statement is FALSE for the model — the real backend agrees with
        the model on those histories, see dbdrv and corpus/C06).
Part C: the ABCI pruner arithmetic.

Not covered (partial): concurrency (readers against a committer/finalizer/pruner), Badger's own
snapshot isolation, the pathbadger bookkeeping (only tied through the contract by dbdrv).
-/
namespace OasisProofs.C06
open OasisModel.NodeDB

/-! ## Part A — the contract -/
section SpecThms
open Spec

theorem lookup_append_of_present (p : List (Root × Contents)) (e : Root × Contents) (r : Root)
    (h : p.any (fun x => x.1 == r) = true) :
    ((p ++ [e]).find? (fun x => x.1 == r)) = p.find? (fun x => x.1 == r) := by
  induction p with
  | nil => simp at h
  | cons a t ih =>
    by_cases ha : (a.1 == r) = true
    · simp [List.find?, ha]
    · simp only [List.any_cons, Bool.or_eq_true] at h
      have ht : t.any (fun x => x.1 == r) = true := by
        rcases h with h | h
        · exact absurd h ha
        · exact h
      simp only [List.cons_append, List.find?]
      simp only [Bool.not_eq_true] at ha
      rw [ha]
      exact ih ht

theorem find_filter_keep (p : List (Root × Contents)) (q : Root × Contents → Bool) (r : Root)
    (hq : ∀ e, (e.1 == r) = true → q e = true) :
    ((p.filter q).find? (fun x => x.1 == r)) = p.find? (fun x => x.1 == r) := by
  induction p with
  | nil => rfl
  | cons a t ih =>
    by_cases ha : (a.1 == r) = true
    · have := hq a ha
      simp [List.filter, this, List.find?, ha]
    · simp only [Bool.not_eq_true] at ha
      by_cases hqa : q a = true
      · simp [List.filter, hqa, List.find?, ha, ih]
      · simp only [Bool.not_eq_true] at hqa
        simp [List.filter, hqa, List.find?, ha, ih]

theorem lookup_some_isPresent (s : St) (r : Root) (c : Contents) (h : lookup s r = some c) :
    isPresent s r = true := by
  unfold lookup at h
  unfold isPresent
  cases hf : s.present.find? (fun e => e.1 == r) with
  | none => simp [hf] at h
  | some e =>
    have hm := List.mem_of_find?_eq_some hf
    have hp := List.find?_some hf
    exact List.any_eq_true.2 ⟨e, hm, hp⟩

/-! inversion lemmas -/

theorem commit_ok_inv {s s' : St} {o n : Root} {c : Contents} (h : commit s o n c = .ok s') :
    s' = (if isPresent s n then s else { s with present := s.present ++ [(n, c)] }) := by
  unfold commit at h
  split at h
  · simp at h
  · exact (Except.ok.inj h).symm

theorem finalizeErr_none {s : St} {v : Nat} {ch : List Root} (h : finalizeErr s v ch = none) :
    finalizedGE s v = false ∧ ∀ r ∈ ch, r.ver = v := by
  unfold finalizeErr at h
  by_cases h1 : ch.isEmpty = true
  · simp [h1] at h
  · simp only [h1] at h
    by_cases h2 : finalizedGE s v = true
    · simp [h2] at h
    · simp only [h2] at h
      by_cases h3 : gapBefore s v = true
      · simp [h3] at h
      · simp only [h3] at h
        by_cases h4 : ch.any (fun r => r.ver != v) = true
        · simp [h4] at h
        · refine ⟨by simpa using h2, ?_⟩
          intro r hr
          simp only [Bool.not_eq_true, List.any_eq_false] at h4
          have := h4 r hr
          simpa using this

theorem finalize_ok_inv {s s' : St} {v : Nat} {ch k : List Root} (h : finalize s v ch k = .ok s') :
    finalizeErr s v ch = none ∧
    s' = { present := s.present.filter (fun e => e.1.ver != v || k.contains e.1)
           fin := s.fin ++ ch.filter (fun r => isPresent s r)
           last := some v
           earliest := if s.last.isNone then v else s.earliest } := by
  unfold finalize at h
  split at h
  · simp at h
  · rename_i he
    exact ⟨he, (Except.ok.inj h).symm⟩

theorem pruneErr_none {s : St} {v : Nat} (h : pruneErr s v = none) :
    ∃ l, s.last = some l ∧ v < l ∧ v = s.earliest := by
  unfold pruneErr at h
  cases hl : s.last with
  | none => simp [hl] at h
  | some l =>
    simp only [hl] at h
    by_cases h1 : l < v
    · simp [h1] at h
    · simp only [h1] at h
      by_cases h2 : (v != s.earliest) = true
      · simp [h2] at h
      · simp only [h2] at h
        by_cases h3 : (v == l) = true
        · simp [h3] at h
        · refine ⟨l, rfl, ?_, ?_⟩
          · simp at h3; omega
          · simpa using h2

theorem prune_ok_inv {s s' : St} {v : Nat} (h : prune s v = .ok s') :
    pruneErr s v = none ∧
    s' = { s with present := s.present.filter (fun e => e.1.ver != v)
                  fin := s.fin.filter (fun r => r.ver != v)
                  earliest := v + 1 } := by
  unfold prune at h
  split at h
  · simp at h
  · rename_i he
    exact ⟨he, (Except.ok.inj h).symm⟩

/-- Invariant of the contract: roots chosen by a Finalize are at or below the last finalized
version. -/
def FinBelowLast (s : St) : Prop := ∀ r ∈ s.fin, ∃ l, s.last = some l ∧ r.ver ≤ l

theorem finBelowLast_init : FinBelowLast Spec.init := by
  intro r hr; simp [Spec.init] at hr

theorem finBelowLast_step (s : St) (op : Op) (h : FinBelowLast s) : FinBelowLast (step s op) := by
  cases op with
  | commit o n c =>
    simp only [step]
    cases hc : commit s o n c with
    | error e => simpa using h
    | ok s' =>
      simp only
      rw [commit_ok_inv hc]
      split
      · exact h
      · exact h
  | finalize v ch k =>
    simp only [step]
    split
    · cases hf : finalize s v ch k with
      | error e => simpa using h
      | ok s' =>
        simp only
        obtain ⟨he, hs'⟩ := finalize_ok_inv hf
        obtain ⟨hnotge, hver⟩ := finalizeErr_none he
        subst hs'
        intro r hr
        simp only [List.mem_append, List.mem_filter] at hr
        refine ⟨v, rfl, ?_⟩
        rcases hr with hr | ⟨hr, _⟩
        · obtain ⟨l, hl, hle⟩ := h r hr
          simp only [finalizedGE, hl, decide_eq_false_iff_not] at hnotge
          omega
        · have := hver r hr
          omega
    · exact h
  | prune v =>
    simp only [step]
    cases hp : prune s v with
    | error e => simpa using h
    | ok s' =>
      simp only
      obtain ⟨_, hs'⟩ := prune_ok_inv hp
      subst hs'
      intro r hr
      simp only [List.mem_filter] at hr
      exact h r hr.1

theorem finBelowLast_run (s : St) (ops : List Op) (h : FinBelowLast s) : FinBelowLast (run s ops) := by
  induction ops generalizing s with
  | nil => exact h
  | cons op t ih => exact ih _ (finBelowLast_step s op h)

/-- **readable_inv (contract).** A root chosen by a Finalize keeps being reported with exactly
the contents committed under it through every operation — commits, finalizations (whatever is
discarded) and prunes — except a prune of its own version. -/
theorem spec_readable_inv_step (s : St) (op : Op) (r : Root) (c : Contents)
    (hwf : FinBelowLast s) (hfin : r ∈ s.fin) (hread : lookup s r = some c)
    (hnot : ∀ v, op = .prune v → v ≠ r.ver) :
    r ∈ (step s op).fin ∧ lookup (step s op) r = some c := by
  have hpres := lookup_some_isPresent s r c hread
  cases op with
  | commit o n c' =>
    simp only [step]
    cases hc : commit s o n c' with
    | error e => exact ⟨hfin, hread⟩
    | ok s' =>
      simp only
      rw [commit_ok_inv hc]
      split
      · exact ⟨hfin, hread⟩
      · refine ⟨hfin, ?_⟩
        unfold lookup at hread ⊢
        simp only
        rw [lookup_append_of_present _ _ _ (by simpa [isPresent] using hpres)]
        exact hread
  | finalize v ch k =>
    simp only [step]
    split
    · cases hf : finalize s v ch k with
      | error e => exact ⟨hfin, hread⟩
      | ok s' =>
        simp only
        obtain ⟨he, hs'⟩ := finalize_ok_inv hf
        obtain ⟨hnotge, _⟩ := finalizeErr_none he
        subst hs'
        refine ⟨List.mem_append_left _ hfin, ?_⟩
        obtain ⟨l, hl, hle⟩ := hwf r hfin
        simp only [finalizedGE, hl, decide_eq_false_iff_not] at hnotge
        have hne : r.ver ≠ v := by omega
        unfold lookup at hread ⊢
        simp only
        rw [find_filter_keep]
        · exact hread
        · intro e he
          have : e.1 = r := by simpa using he
          simp [this, hne]
    · exact ⟨hfin, hread⟩
  | prune v =>
    simp only [step]
    cases hp : prune s v with
    | error e => exact ⟨hfin, hread⟩
    | ok s' =>
      simp only
      have hne : v ≠ r.ver := hnot v rfl
      obtain ⟨_, hs'⟩ := prune_ok_inv hp
      subst hs'
      refine ⟨?_, ?_⟩
      · simp only [List.mem_filter]
        exact ⟨hfin, by simp; omega⟩
      · unfold lookup at hread ⊢
        simp only
        rw [find_filter_keep]
        · exact hread
        · intro e he
          have : e.1 = r := by simpa using he
          simp [this]; omega

/-- History form: from any reachable state, a finalized root stays readable with its contents
along every continuation that does not prune its version. -/
theorem spec_readable_inv (s : St) (ops : List Op) (r : Root) (c : Contents)
    (hwf : FinBelowLast s) (hfin : r ∈ s.fin) (hread : lookup s r = some c)
    (hnot : ∀ v, Op.prune v ∈ ops → v ≠ r.ver) :
    r ∈ (run s ops).fin ∧ lookup (run s ops) r = some c := by
  induction ops generalizing s with
  | nil => exact ⟨hfin, hread⟩
  | cons op t ih =>
    have h1 := spec_readable_inv_step s op r c hwf hfin hread
      (fun v hv => hnot v (by simp [hv]))
    exact ih (step s op) (finBelowLast_step s op hwf) h1.1 h1.2
      (fun v hv => hnot v (List.mem_cons_of_mem _ hv))

/-- **prune_exact (contract).** A successful `Prune(v)` removes exactly version `v`: nothing of
`v` is reported any more, every root of another version keeps its contents, the window moves by
one, the last finalized version is untouched; and it is only accepted for the earliest version,
never for the last finalized one. -/
theorem spec_prune_exact (s s' : St) (v : Nat) (h : prune s v = .ok s') :
    (∀ r, r.ver = v → isPresent s' r = false ∧ hasRoot s' r = (r.hash == 0)) ∧
    (∀ r, r.ver ≠ v → lookup s' r = lookup s r) ∧
    s'.earliest = v + 1 ∧ s'.last = s.last ∧ s.earliest = v ∧ (∃ l, s.last = some l ∧ v < l) := by
  obtain ⟨he, hs'⟩ := prune_ok_inv h
  obtain ⟨l, hl, hlt, hearl⟩ := pruneErr_none he
  subst hs'
  refine ⟨?_, ?_, rfl, rfl, hearl.symm, ⟨l, hl, hlt⟩⟩
  · intro r hr
    have hp : (List.filter (fun e => e.1.ver != v) s.present).any (fun e => e.1 == r) = false := by
      rw [List.any_eq_false]
      intro e he
      simp only [List.mem_filter, bne_iff_ne, ne_eq] at he
      intro heq
      have : e.1 = r := by simpa using heq
      exact he.2 (this ▸ hr)
    refine ⟨by simpa [isPresent] using hp, ?_⟩
    simp only [hasRoot, isPresent, hp, Bool.and_false, Bool.or_false]
  · intro r hr
    unfold lookup
    simp only
    rw [find_filter_keep]
    intro e he
    have : e.1 = r := by simpa using he
    simp [this, hr]

/-- **no_false_root (contract).** Whatever the database reports under a root is what some
`Commit` of the history stored under exactly that root. -/
theorem spec_no_false_root_gen (pre ops : List Op) (s : St)
    (hs : ∀ e ∈ s.present, ∃ o, Op.commit o e.1 e.2 ∈ pre) :
    ∀ e ∈ (run s ops).present, ∃ o, Op.commit o e.1 e.2 ∈ pre ++ ops := by
  induction ops generalizing s pre with
  | nil => simpa [run] using hs
  | cons op t ih =>
    have key : ∀ e ∈ (step s op).present, ∃ o, Op.commit o e.1 e.2 ∈ pre ++ [op] := by
      intro e he
      have old : e ∈ s.present → ∃ o, Op.commit o e.1 e.2 ∈ pre ++ [op] := by
        intro hm
        obtain ⟨o', ho'⟩ := hs e hm
        exact ⟨o', List.mem_append_left _ ho'⟩
      cases op with
      | commit o n c =>
        simp only [step] at he
        cases hc : commit s o n c with
        | error er => rw [hc] at he; exact old he
        | ok s' =>
          rw [hc] at he
          simp only at he
          rw [commit_ok_inv hc] at he
          split at he
          · exact old he
          · simp only [List.mem_append, List.mem_singleton] at he
            rcases he with he | he
            · exact old he
            · subst he
              exact ⟨o, by simp⟩
      | finalize v ch k =>
        simp only [step] at he
        split at he
        · cases hf : finalize s v ch k with
          | error er => rw [hf] at he; exact old he
          | ok s' =>
            rw [hf] at he
            simp only at he
            rw [(finalize_ok_inv hf).2] at he
            exact old (List.mem_filter.1 he).1
        · exact old he
      | prune v =>
        simp only [step] at he
        cases hp : prune s v with
        | error er => rw [hp] at he; exact old he
        | ok s' =>
          rw [hp] at he
          simp only at he
          rw [(prune_ok_inv hp).2] at he
          exact old (List.mem_filter.1 he).1
    have := ih (pre ++ [op]) (step s op) key
    simpa [run, List.append_assoc] using this

theorem spec_no_false_root (ops : List Op) (r : Root) (c : Contents)
    (h : lookup (run Spec.init ops) r = some c) : ∃ o, Op.commit o r c ∈ ops := by
  unfold lookup at h
  cases hf : (run Spec.init ops).present.find? (fun e => e.1 == r) with
  | none => simp [hf] at h
  | some e =>
    simp [hf] at h
    have hm := List.mem_of_find?_eq_some hf
    have hp : e.1 = r := by simpa using List.find?_some hf
    obtain ⟨o, ho⟩ := spec_no_false_root_gen [] ops Spec.init (by simp [Spec.init]) e hm
    exact ⟨o, by simpa [hp, h] using ho⟩

end SpecThms

/-! ## Part B — the badger bookkeeping model -/
section BadgerThms
open Badger

/-! ### MVCC lemmas -/

theorem at_write (m : MV) (k w : Nat) (b : Bool) (k' t : Nat) :
    (m.write k w b).at k' t = if k = k' ∧ w = t then some b else m.at k' t := by
  simp [MV.write, MV.at]

theorem live_zero (m : MV) (k : Nat) : m.live k 0 = (m.at k 0 == some true) := by
  unfold MV.live MV.get
  cases h : m.at k 0 with
  | none => simp
  | some b => cases b <;> simp

theorem live_succ (m : MV) (k t : Nat) :
    m.live k (t + 1) = (match m.at k (t + 1) with | some b => b | none => m.live k t) := by
  unfold MV.live
  simp only [MV.get]
  cases h : m.at k (t + 1) with
  | none => simp
  | some b => cases b <;> simp

theorem get_write_frame (m : MV) (k w : Nat) (b : Bool) (k' t : Nat) (h : k ≠ k' ∨ t < w) :
    (m.write k w b).get k' t = m.get k' t := by
  induction t with
  | zero =>
    have : ¬(k = k' ∧ w = 0) := by omega
    simp [MV.get, at_write, this]
  | succ t ih =>
    have h1 : ¬(k = k' ∧ w = t + 1) := by omega
    have h2 : k ≠ k' ∨ t < w := by omega
    simp [MV.get, at_write, h1, ih h2]

theorem get_writeAll_lt (m : MV) (ks : List Nat) (w : Nat) (b : Bool) (k' t : Nat) (h : t < w) :
    (m.writeAll ks w b).get k' t = m.get k' t := by
  induction ks generalizing m with
  | nil => rfl
  | cons a ks ih =>
    simp only [MV.writeAll, List.foldl] at ih ⊢
    rw [ih]
    exact get_write_frame m a w b k' t (Or.inr h)

theorem get_writeAll_notin (m : MV) (ks : List Nat) (w : Nat) (b : Bool) (k' t : Nat) (h : k' ∉ ks) :
    (m.writeAll ks w b).get k' t = m.get k' t := by
  induction ks generalizing m with
  | nil => rfl
  | cons a ks ih =>
    simp only [MV.writeAll, List.foldl] at ih ⊢
    have ha : a ≠ k' := fun e => h (by simp [e])
    rw [ih _ (fun hm => h (List.mem_cons_of_mem _ hm))]
    exact get_write_frame m a w b k' t (Or.inl ha)

theorem live_congr_get (m m' : MV) (k t : Nat) (h : m'.get k t = m.get k t) : m'.live k t = m.live k t := by
  unfold MV.live; rw [h]

/-- A value write never makes a key invisible. -/
theorem live_write_true_mono (m : MV) (k w k' t : Nat) (h : m.live k' t = true) :
    (m.write k w true).live k' t = true := by
  induction t with
  | zero =>
    rw [live_zero] at h ⊢
    rw [at_write]
    by_cases hc : k = k' ∧ w = 0
    · simp [hc]
    · simp only [hc, if_false]; exact h
  | succ t ih =>
    rw [live_succ] at h ⊢
    rw [at_write]
    by_cases hc : k = k' ∧ w = t + 1
    · simp [hc]
    · simp only [hc, if_false]
      cases hat : m.at k' (t + 1) with
      | none => rw [hat] at h; simp only at h ⊢; exact ih h
      | some b => rw [hat] at h; simpa using h

theorem live_writeAll_true_mono (m : MV) (ks : List Nat) (w k' t : Nat) (h : m.live k' t = true) :
    (m.writeAll ks w true).live k' t = true := by
  induction ks generalizing m with
  | nil => exact h
  | cons a ks ih =>
    simp only [MV.writeAll, List.foldl] at ih ⊢
    exact ih _ (live_write_true_mono m a w k' t h)

/-- The key just written is visible at the write's own timestamp. -/
theorem live_write_true_self (m : MV) (k w : Nat) : (m.write k w true).live k w = true := by
  cases w with
  | zero => rw [live_zero, at_write]; simp
  | succ w => rw [live_succ, at_write]; simp

theorem live_writeAll_true_mem (m : MV) (ks : List Nat) (w k : Nat) (h : k ∈ ks) :
    (m.writeAll ks w true).live k w = true := by
  induction ks generalizing m with
  | nil => simp at h
  | cons a ks ih =>
    simp only [MV.writeAll, List.foldl] at ih ⊢
    rcases List.mem_cons.1 h with rfl | h
    · exact live_writeAll_true_mono _ ks w k w (live_write_true_self m k w)
    · exact ih _ h

/-- Visibility at the timestamp at which a tombstone is written. -/
theorem live_write_false_at (m : MV) (k v k' : Nat) :
    (m.write k v false).live k' v = (if k = k' then false else m.live k' v) := by
  cases v with
  | zero =>
    rw [live_zero, live_zero, at_write]
    by_cases hk : k = k' <;> simp [hk]
  | succ v =>
    rw [live_succ, live_succ, at_write]
    by_cases hk : k = k'
    · simp [hk]
    · simp only [hk, false_and, if_false]
      cases hat : m.at k' (v + 1) with
      | some b => rfl
      | none =>
        simp only
        exact live_congr_get _ _ _ _ (get_write_frame m k (v + 1) false k' v (Or.inl hk))

theorem live_writeAll_false_at (m : MV) (ks : List Nat) (v k' : Nat) :
    (m.writeAll ks v false).live k' v = (if k' ∈ ks then false else m.live k' v) := by
  induction ks generalizing m with
  | nil => simp [MV.writeAll]
  | cons a ks ih =>
    simp only [MV.writeAll, List.foldl] at ih ⊢
    rw [ih, live_write_false_at]
    by_cases h1 : k' ∈ ks
    · simp [h1]
    · by_cases h2 : a = k'
      · simp [h2]
      · have : ¬ k' = a := fun e => h2 e.symm
        simp [h1, h2, this]

/-! ### inversion -/

theorem bcommit_ok_inv {s s' : St} {o n : Root} {a r : List Nat} (h : commit s o n a r = .ok s') :
    s' = (if hasKey (s.rmeta n.ver) (n.typ, n.hash) then s else commitSt s o n a r) := by
  unfold commit at h
  split at h
  · simp at h
  · exact (Except.ok.inj h).symm

theorem bfinalize_ok_inv {s s' : St} {v : Nat} {ch : List Root} (h : finalize s v ch = .ok s') :
    finalizeErr s v ch = none ∧ s' = finalizeSt s v ch := by
  unfold finalize at h
  split at h
  · simp at h
  · rename_i he; exact ⟨he, (Except.ok.inj h).symm⟩

theorem bprune_ok_inv {cl clv : Nat → List Nat} {s s' : St} {v : Nat} (h : prune cl clv s v = .ok s') :
    pruneErr cl clv s v = none ∧ s' = pruneSt clv s v := by
  unfold prune at h
  split at h
  · simp at h
  · rename_i he; exact ⟨he, (Except.ok.inj h).symm⟩

theorem bpruneErr_none {cl clv : Nat → List Nat} {s : St} {v : Nat} (h : pruneErr cl clv s v = none) :
    (∃ l, s.last = some l ∧ v < l) ∧ v = s.earliest ∧ visitFails cl clv s v = false := by
  unfold pruneErr at h
  cases hl : s.last with
  | none => simp [hl] at h
  | some l =>
    simp only [hl] at h
    by_cases h1 : l < v
    · simp [h1] at h
    · simp only [h1] at h
      by_cases h2 : (v != s.earliest) = true
      · simp [h2] at h
      · simp only [h2] at h
        by_cases h3 : (v == l) = true
        · simp [h3] at h
        · simp only [h3] at h
          by_cases h4 : visitFails cl clv s v = true
          · simp [h4] at h
          · refine ⟨⟨l, rfl, ?_⟩, by simpa using h2, by simpa using h4⟩
            simp at h3; omega

/-! ### frame: every operation writes only at its own version's timestamp

Hence what is committed, finalized or pruned at version `w` cannot change what a reader of an
earlier version `t < w` sees ("no matter what is committed and finalized later"). -/

theorem badger_commit_frame {s s' : St} {o n : Root} {a r : List Nat} (h : commit s o n a r = .ok s')
    (k t : Nat) (ht : t < n.ver) :
    s'.node.get k t = s.node.get k t ∧ s'.rootNode.get k t = s.rootNode.get k t := by
  rw [bcommit_ok_inv h]
  split
  · exact ⟨rfl, rfl⟩
  · exact ⟨get_writeAll_lt _ _ _ _ _ _ ht, get_write_frame _ _ _ _ _ _ (Or.inr ht)⟩

theorem badger_finalize_frame {s s' : St} {v : Nat} {ch : List Root} (h : finalize s v ch = .ok s')
    (k t : Nat) (ht : t < v) :
    s'.node.get k t = s.node.get k t ∧ s'.rootNode.get k t = s.rootNode.get k t := by
  rw [(bfinalize_ok_inv h).2]
  exact ⟨get_writeAll_lt _ _ _ _ _ _ ht, rfl⟩

theorem badger_prune_frame {cl clv : Nat → List Nat} {s s' : St} {v : Nat} (h : prune cl clv s v = .ok s')
    (k t : Nat) (ht : t < v) :
    s'.node.get k t = s.node.get k t ∧ s'.rootNode.get k t = s.rootNode.get k t := by
  rw [(bprune_ok_inv h).2]
  exact ⟨get_writeAll_lt _ _ _ _ _ _ ht, get_writeAll_lt _ _ _ _ _ _ ht⟩

theorem readable_congr (cl : Nat → List Nat) (s s' : St) (r : Root)
    (he : s'.earliest = s.earliest)
    (hn : ∀ k, s'.node.get k r.ver = s.node.get k r.ver)
    (hr : ∀ k, s'.rootNode.get k r.ver = s.rootNode.get k r.ver) :
    readable cl s' r = readable cl s r := by
  unfold readable nodeVisible
  congr 1
  apply List.all_congr rfl
  intro h
  rw [he, live_congr_get _ _ _ _ (hn h), live_congr_get _ _ _ _ (hr _)]

/-- **A later commit never affects the readability of a root of an earlier version.** -/
theorem later_commit_preserves_readable (cl : Nat → List Nat) {s s' : St} {o n : Root} {a rm : List Nat}
    (h : commit s o n a rm = .ok s') (r : Root) (hr : r.ver < n.ver) :
    readable cl s' r = readable cl s r := by
  apply readable_congr
  · rw [bcommit_ok_inv h]; split <;> rfl
  · intro k; exact (badger_commit_frame h k _ hr).1
  · intro k; exact (badger_commit_frame h k _ hr).2

/-- **A later finalization never affects the readability of a root of an earlier version**
(whatever candidates it discards). -/
theorem later_finalize_preserves_readable (cl : Nat → List Nat) {s s' : St} {v : Nat} {ch : List Root}
    (h : finalize s v ch = .ok s') (hl : s.last.isNone = false) (r : Root) (hr : r.ver < v) :
    readable cl s' r = readable cl s r := by
  apply readable_congr
  · rw [(bfinalize_ok_inv h).2]; simp [finalizeSt, hl]
  · intro k; exact (badger_finalize_frame h k _ hr).1
  · intro k; exact (badger_finalize_frame h k _ hr).2

/-! ### exact effect of Finalize on the roots of its own version -/

theorem all_and {α : Type} (l : List α) (f g : α → Bool) :
    l.all (fun x => f x && g x) = (l.all f && l.all g) := by
  induction l with
  | nil => rfl
  | cons a t ih =>
    simp only [List.all_cons, ih]
    cases f a <;> cases g a <;> simp

/-- After `Finalize(v)` a root of version `v` is readable iff it was readable before and none of
its nodes is among the deleted "lone" nodes (`maybeLone \ notLone`). This is the exact semantics
of the lone-node rule; `finalize_can_destroy_finalized_root` shows the right-hand side can fail
for the very root that was finalized. -/
theorem finalize_readable_iff (cl : Nat → List Nat) {s s' : St} {v : Nat} {ch : List Root}
    (h : finalize s v ch = .ok s') (r : Root) (hv : r.ver = v) (he : s.earliest ≤ v) :
    readable cl s' r =
      (readable cl s r &&
        (r.hash == 0 || (cl r.hash).all (fun x => !(finPlan s v (chosenTH ch)).dels.contains x))) := by
  rw [(bfinalize_ok_inv h).2]
  unfold readable
  by_cases h0 : (r.hash == 0) = true
  · simp [h0]
  · simp only [h0, Bool.false_or]
    rw [← all_and]
    apply List.all_congr rfl
    intro x
    unfold nodeVisible
    have e1 : decide ((finalizeSt s v ch).earliest ≤ r.ver) = true := by
      simp only [finalizeSt]; split <;> simp <;> omega
    have e2 : decide (s.earliest ≤ r.ver) = true := by simp; omega
    rw [e1, e2]
    have : (finalizeSt s v ch).node.live x r.ver =
        (if x ∈ (finPlan s v (chosenTH ch)).dels then false else s.node.live x r.ver) := by
      rw [hv]; simp only [finalizeSt]; exact live_writeAll_false_at _ _ _ _
    rw [this]
    have hrn : (finalizeSt s v ch).rootNode = s.rootNode := rfl
    rw [hrn]
    by_cases hx : x ∈ (finPlan s v (chosenTH ch)).dels
    · simp [hx]
    · simp [hx]

/-- Sufficient condition: a root of version `v` all of whose nodes are outside the deleted set
stays readable through `Finalize(v)`. -/
theorem finalize_preserves_readable_of_disjoint (cl : Nat → List Nat) {s s' : St} {v : Nat} {ch : List Root}
    (h : finalize s v ch = .ok s') (r : Root) (hv : r.ver = v) (he : s.earliest ≤ v)
    (hread : readable cl s r = true)
    (hdis : ∀ x ∈ cl r.hash, x ∉ (finPlan s v (chosenTH ch)).dels) :
    readable cl s' r = true := by
  rw [finalize_readable_iff cl h r hv he, hread]
  simp only [Bool.true_and, Bool.or_eq_true, List.all_eq_true]
  right
  intro x hx
  simpa using hdis x hx

/-! ### prune_exact for the badger model -/

theorem getMeta_cons (l : List (Nat × RootsMeta)) (v : Nat) (a : RootsMeta) (w : Nat) :
    getMeta ((v, a) :: l) w = if v = w then a else getMeta l w := by
  simp [getMeta]

theorem hasRoot_eq (s : St) (r : Root) :
    hasRoot s r = (r.hash == 0 || (decide (s.earliest ≤ r.ver) && hasKey (s.rmeta r.ver) (r.typ, r.hash))) := rfl

/-- **prune_exact (badger model).** A successful `Prune(v)` is only accepted for the earliest,
finalized, non-last version; afterwards version `v` reports no roots, the roots metadata of every
other version is untouched, the window starts at `v+1`, and the only data writes are tombstones
at timestamp `v` on the node keys in `pruneDels` (and on the root-node keys of the lone roots):
nothing an earlier-timestamp reader or a reader of any other key sees changes. -/
theorem badger_prune_exact (cl clv : Nat → List Nat) {s s' : St} {v : Nat} (h : prune cl clv s v = .ok s') :
    s.earliest = v ∧ (∃ l, s.last = some l ∧ v < l) ∧
    s'.earliest = v + 1 ∧ s'.last = s.last ∧
    s'.rmeta v = [] ∧ (∀ w, w ≠ v → s'.rmeta w = s.rmeta w) ∧
    (∀ r : Root, r.ver = v → r.hash ≠ 0 → hasRoot s' r = false) ∧
    (∀ r : Root, v < r.ver → hasRoot s' r = hasRoot s r) ∧
    (∀ k t, k ∉ pruneDels clv s v → s'.node.get k t = s.node.get k t) := by
  obtain ⟨he, hs'⟩ := bprune_ok_inv h
  obtain ⟨hl, hearl, _⟩ := bpruneErr_none he
  subst hs'
  refine ⟨hearl.symm, hl, rfl, rfl, ?_, ?_, ?_, ?_, ?_⟩
  · simp [pruneSt, St.rmeta, getMeta_cons]
  · intro w hw
    have : ¬ v = w := fun e => hw e.symm
    simp [pruneSt, St.rmeta, getMeta_cons, this]
  · intro r hr h0
    have : decide (v + 1 ≤ r.ver) = false := by simp; omega
    have e : (pruneSt clv s v).earliest = v + 1 := rfl
    rw [hasRoot_eq, e, this]
    simp [h0]
  · intro r hr
    have hne : ¬ v = r.ver := by omega
    have h1 : decide (v + 1 ≤ r.ver) = true := by simp; omega
    have h2 : decide (s.earliest ≤ r.ver) = true := by simp; omega
    have e : (pruneSt clv s v).earliest = v + 1 := rfl
    have e2 : (pruneSt clv s v).rmeta r.ver = s.rmeta r.ver := by
      simp [pruneSt, St.rmeta, getMeta_cons, hne]
    rw [hasRoot_eq, hasRoot_eq, e, e2, h1, h2]
  · intro k t hk
    exact get_writeAll_notin _ _ _ _ _ _ hk

/-! ### the unconditional statement is false for the model (and for the real backend)

Node hashes: 10 = root of version 1 with children 1 (leaf a) and 2 (leaf b);
11 = root of version 2 with children 1, 2 and 3 (leaf c); the discarded candidate of version 2
is the one-leaf tree {a}, whose root node is the leaf 1 itself. -/

def cexCl : Nat → List Nat
  | 10 => [10, 1, 2]
  | 11 => [11, 1, 2, 3]
  | 1 => [1]
  | n => [n]

def okOr (e : Except Err St) (d : St) : St := match e with | .ok s => s | .error _ => d
def isOk (e : Except Err St) : Bool := match e with | .ok _ => true | .error _ => false
def errOf (e : Except Err St) : Option Err := match e with | .ok _ => none | .error x => some x

theorem isOk_eq {e : Except Err St} {d : St} (h : isOk e = true) : e = .ok (okOr e d) := by
  cases e with
  | ok s => rfl
  | error x => simp [isOk] at h

/-- version 1: root 10 = {a,b} committed from nothing and finalized;
version 2: candidate g = {a} committed from nothing (re-creates leaf 1), candidate 11 = {a,b,c}
derived from 10 (inherits leaves 1 and 2, puts 11 and 3, removes 10). -/
def cexBeforeFinalize : St :=
  let s0 := Badger.init
  let s1 := okOr (commit s0 ⟨1, 0, 0⟩ ⟨1, 0, 10⟩ [1, 2, 10] []) s0
  let s2 := okOr (finalize s1 1 [⟨1, 0, 10⟩]) s1
  let s3 := okOr (commit s2 ⟨2, 0, 0⟩ ⟨2, 0, 1⟩ [1] []) s2
  okOr (commit s3 ⟨1, 0, 10⟩ ⟨2, 0, 11⟩ [3, 11] [10]) s3

/-- **Finalize can destroy the root it finalizes.** Every operation of the history succeeds,
candidate 11 is readable before `Finalize(2, [11])`, the finalize succeeds, reports 11 as the
root of version 2 — and 11 is no longer readable: leaf 1, inherited from version 1, was put again
by the discarded candidate, so it is in `maybeLone`, not in `notLone`, and is deleted at the
timestamp of version 2. (Real badger backend: same history, corpus/C06/dbdrv-d3-*.txt.) -/
theorem finalize_can_destroy_finalized_root :
    readable cexCl cexBeforeFinalize ⟨2, 0, 11⟩ = true ∧
    (∃ s', finalize cexBeforeFinalize 2 [⟨2, 0, 11⟩] = .ok s' ∧
      hasRoot s' ⟨2, 0, 11⟩ = true ∧ readable cexCl s' ⟨2, 0, 11⟩ = false ∧
      readable cexCl s' ⟨1, 0, 10⟩ = true) := by
  refine ⟨by decide, okOr (finalize cexBeforeFinalize 2 [⟨2, 0, 11⟩]) Badger.init, isOk_eq (by decide), by decide, by decide, by decide⟩

/-- version 1: state root 10 = {a,b} and io root 20 = {a,x} (children 1 and 4) share leaf 1, both
finalized; version 2: state root 11 derived from 10, finalized. -/
def cexCl2 : Nat → List Nat
  | 10 => [10, 1, 2]
  | 11 => [11, 1, 2, 3]
  | 20 => [20, 1, 4]
  | n => [n]

def cexBeforePrune : St :=
  let s0 := Badger.init
  let s1 := okOr (commit s0 ⟨1, 0, 0⟩ ⟨1, 0, 10⟩ [1, 2, 10] []) s0
  let s2 := okOr (commit s1 ⟨1, 1, 0⟩ ⟨1, 1, 20⟩ [1, 4, 20] []) s1
  let s3 := okOr (finalize s2 1 [⟨1, 0, 10⟩, ⟨1, 1, 20⟩]) s2
  let s4 := okOr (commit s3 ⟨1, 0, 10⟩ ⟨2, 0, 11⟩ [3, 11] [10]) s3
  okOr (finalize s4 2 [⟨2, 0, 11⟩]) s4

/-- **Pruning an older version can destroy a retained finalized root.** The io root of version 1
has no derived root, so `Prune(1)` visits it and deletes every node whose visible item was
written in version 1 — including leaf 1, which the finalized state root of version 2 inherits.
(Real badger backend: same history, corpus/C06/dbdrv-d1-*.txt.) -/
theorem prune_can_destroy_later_finalized_root :
    readable cexCl2 cexBeforePrune ⟨2, 0, 11⟩ = true ∧
    (∃ s', prune cexCl2 cexCl2 cexBeforePrune 1 = .ok s' ∧
      hasRoot s' ⟨2, 0, 11⟩ = true ∧ s'.last = some 2 ∧ s'.earliest = 2 ∧
      readable cexCl2 s' ⟨2, 0, 11⟩ = false) := by
  refine ⟨by decide, okOr (prune cexCl2 cexCl2 cexBeforePrune 1) Badger.init, isOk_eq (by decide), by decide, by decide, by decide, by decide⟩

/-- `Prune` never traverses an empty root, nor a root whose root-node key is no longer visible
(the two cases in which `Visit` could only fail). -/
theorem prune_skips_empty_and_removed_roots (s : St) (v : Nat) :
    ∀ e ∈ visitedRoots s v, e.1.2 ≠ 0 ∧ s.rootNode.live (encTH e.1) v = true := by
  intro e he
  simp only [visitedRoots, List.mem_filter, Bool.and_eq_true, bne_iff_ne, ne_eq] at he
  exact he.2

/-- **A finalized empty root of the io type no longer blocks pruning** (regression of the
repaired defect; before the repair `Visit` of the lone empty root asked for the node with the
empty hash, which is never stored, and `Prune(1)` failed for good): the prune succeeds, the
window moves on and the retained finalized root of version 2 is still fully readable. -/
theorem prune_succeeds_with_lone_empty_root :
    let s0 := Badger.init
    let s1 := okOr (commit s0 ⟨1, 0, 0⟩ ⟨1, 0, 10⟩ [1, 2, 10] []) s0
    let s2 := okOr (commit s1 ⟨1, 1, 0⟩ ⟨1, 1, 0⟩ [] []) s1
    let s3 := okOr (finalize s2 1 [⟨1, 0, 10⟩, ⟨1, 1, 0⟩]) s2
    let s4 := okOr (commit s3 ⟨1, 0, 10⟩ ⟨2, 0, 11⟩ [3, 11] [10]) s3
    let s5 := okOr (finalize s4 2 [⟨2, 0, 11⟩]) s4
    let s6 := okOr (prune cexCl cexCl s5 1) Badger.init
    s5.last = some 2 ∧ s5.earliest = 1 ∧ isOk (prune cexCl cexCl s5 1) = true ∧
    s6.earliest = 2 ∧ readable cexCl s6 ⟨2, 0, 11⟩ = true := by
  decide

end BadgerThms

section BadgerSafe
open Badger

theorem at_writeAll (m : MV) (ks : List Nat) (w : Nat) (b : Bool) (k t : Nat) :
    (m.writeAll ks w b).at k t = if k ∈ ks ∧ w = t then some b else m.at k t := by
  induction ks generalizing m with
  | nil => simp [MV.writeAll]
  | cons a ks ih =>
    simp only [MV.writeAll, List.foldl] at ih ⊢
    rw [ih, at_write]
    by_cases h1 : k ∈ ks ∧ w = t
    · simp [h1]
    · by_cases h2 : a = k ∧ w = t
      · have : (k = a ∨ k ∈ ks) ∧ w = t := ⟨Or.inl h2.1.symm, h2.2⟩
        simp [h1, h2, this]
      · have : ¬((k = a ∨ k ∈ ks) ∧ w = t) := by
          rintro ⟨h3 | h3, h4⟩
          · exact h2 ⟨h3.symm, h4⟩
          · exact h1 ⟨h3, h4⟩
        simp [h1, h2, this]

theorem get_of_at_eq (m m' : MV) (k : Nat) (h : ∀ t, m'.at k t = m.at k t) (t : Nat) :
    m'.get k t = m.get k t := by
  induction t with
  | zero => simp [MV.get, h]
  | succ t ih => simp [MV.get, h, ih]

/-- Writing the same batch twice reads like writing it once. -/
theorem get_writeAll_idem (m : MV) (ks : List Nat) (w : Nat) (b : Bool) (k t : Nat) :
    ((m.writeAll ks w b).writeAll ks w b).get k t = (m.writeAll ks w b).get k t := by
  apply get_of_at_eq
  intro t'
  rw [at_writeAll, at_writeAll]
  split <;> rfl


/-! ### B3 — the restriction under which the badger model keeps every reported root readable -/

theorem live_of_at (m : MV) (k t : Nat) (h : m.at k t = some true) : m.live k t = true := by
  cases t with
  | zero => rw [live_zero, h]; rfl
  | succ t => rw [live_succ, h]

/-- A tombstone (or any write) at timestamp `w` cannot change what a reader sees whose visible
entry was written after `w`. -/
theorem get_write_shield (m : MV) (k w : Nat) (b : Bool) (k' t ts : Nat) (bv : Bool)
    (hg : m.get k' t = some (ts, bv)) (hs : w < ts) : (m.write k w b).get k' t = some (ts, bv) := by
  induction t with
  | zero =>
    simp only [MV.get] at hg ⊢
    cases ha : m.at k' 0 with
    | none => simp [ha] at hg
    | some x =>
      simp only [ha, Option.map_some, Option.some.injEq, Prod.mk.injEq] at hg
      omega
  | succ t ih =>
    simp only [MV.get] at hg ⊢
    rw [at_write]
    cases ha : m.at k' (t + 1) with
    | some x =>
      simp only [ha, Option.some.injEq, Prod.mk.injEq] at hg
      have : ¬ (k = k' ∧ w = t + 1) := by omega
      simp only [this, if_false, ha]
      rw [hg.1, hg.2]
    | none =>
      simp only [ha] at hg
      have hts : ts ≤ t := by
        -- the entry found at or below t has a timestamp at most t
        have : ∀ (t' : Nat) (x : Nat × Bool), m.get k' t' = some x → x.1 ≤ t' := by
          intro t'
          induction t' with
          | zero =>
            intro x hx
            simp only [MV.get] at hx
            cases h0 : m.at k' 0 with
            | none => simp [h0] at hx
            | some y => simp only [h0, Option.map_some, Option.some.injEq] at hx; rw [← hx]; exact Nat.le_refl _
          | succ t' ih' =>
            intro x hx
            simp only [MV.get] at hx
            cases h1 : m.at k' (t' + 1) with
            | some y => simp only [h1, Option.some.injEq] at hx; rw [← hx]; exact Nat.le_refl _
            | none => simp only [h1] at hx; have := ih' x hx; omega
        exact this t (ts, bv) hg
      have : ¬ (k = k' ∧ w = t + 1) := by omega
      simp only [this, if_false, ha]
      exact ih hg

theorem get_writeAll_shield (m : MV) (ks : List Nat) (w : Nat) (b : Bool) (k' t ts : Nat) (bv : Bool)
    (hg : m.get k' t = some (ts, bv)) (hs : w < ts) : (m.writeAll ks w b).get k' t = some (ts, bv) := by
  induction ks generalizing m with
  | nil => exact hg
  | cons a ks ih =>
    simp only [MV.writeAll, List.foldl] at ih ⊢
    exact ih _ (get_write_shield m a w b k' t ts bv hg hs)

/-- Every reported root of the window has its root-node key written at its own timestamp and all
the nodes of its tree visible there. -/
def Good (cl : Nat → List Nat) (s : St) : Prop :=
  ∀ w th, s.earliest ≤ w → hasKey (s.rmeta w) th = true →
    s.rootNode.at (encTH th) w = some true ∧ (th.2 ≠ 0 → ∀ n ∈ cl th.2, s.node.live n w = true)

theorem good_readable (cl : Nat → List Nat) (s : St) (hg : Good cl s) (r : Root)
    (he : s.earliest ≤ r.ver) (hk : hasKey (s.rmeta r.ver) (r.typ, r.hash) = true) :
    readable cl s r = true := by
  obtain ⟨h1, h2⟩ := hg r.ver (r.typ, r.hash) he hk
  unfold readable
  by_cases h0 : (r.hash == 0) = true
  · simp [h0]
  · simp only [h0, Bool.false_or, List.all_eq_true]
    intro n hn
    unfold nodeVisible
    have := h2 (by simpa using h0) n hn
    simp [he, live_of_at _ _ _ h1, this]

theorem getMeta_mem_versions (l : List (Nat × RootsMeta)) (w : Nat) (th : TH)
    (h : hasKey (getMeta l w) th = true) : w ∈ l.map (·.1) := by
  induction l with
  | nil => simp [getMeta, hasKey] at h
  | cons e l ih =>
    simp only [getMeta] at h
    by_cases hw : e.1 = w
    · simp [hw]
    · simp only [hw, if_false] at h
      exact List.mem_cons_of_mem _ (ih h)

theorem hasKey_map_keys (rm : RootsMeta) (f : TH × List TH → TH × List TH) (hf : ∀ e, (f e).1 = e.1) (x : TH) :
    hasKey (rm.map f) x = hasKey rm x := by
  unfold hasKey
  induction rm with
  | nil => rfl
  | cons e rm ih => simp only [List.map_cons, List.any_cons, hf, ih]

theorem hasKey_commitSt (s : St) (o n : Root) (a r : List Nat) (w : Nat) (x : TH) :
    hasKey ((commitSt s o n a r).rmeta w) x =
      (hasKey (s.rmeta w) x || (decide (w = n.ver) && x == (n.typ, n.hash))) := by
  have hmeta1 : ∀ u, getMeta (metaWithRoot s n) u =
      if n.ver = u then s.rmeta n.ver ++ [((n.typ, n.hash), [])] else s.rmeta u := by
    intro u; simp [metaWithRoot, getMeta_cons, St.rmeta]
  have hk1 : ∀ u, hasKey (getMeta (metaWithRoot s n) u) x =
      (hasKey (s.rmeta u) x || (decide (u = n.ver) && x == (n.typ, n.hash))) := by
    intro u
    rw [hmeta1]
    by_cases hu : n.ver = u
    · subst hu
      simp only [if_true, hasKey, List.any_append, List.any_cons, List.any_nil, Bool.or_false, decide_true,
        Bool.true_and]
      congr 1
      exact Bool.eq_iff_iff.2 ⟨fun h => by simpa using (by simpa using h : (n.typ, n.hash) = x).symm,
        fun h => by simpa using (by simpa using h : x = (n.typ, n.hash)).symm⟩
    · have : ¬ u = n.ver := fun e => hu e.symm
      simp [hu, this]
  unfold commitSt St.rmeta
  simp only
  by_cases h0 : (o.hash != 0) = true
  · simp only [h0, if_true, getMeta_cons]
    by_cases hu : o.ver = w
    · subst hu
      simp only [if_true]
      rw [hasKey_map_keys _ _ (by intro e; split <;> rfl)]
      exact hk1 o.ver
    · simp only [hu, if_false]
      exact hk1 w
  · simp only [h0, Bool.false_eq_true, if_false]
    exact hk1 w

/-- Commit keeps `Good` when every node of the new tree is put or already visible (`commitSafe`). -/
theorem good_commit (cl : Nat → List Nat) (s s' : St) (o n : Root) (a r : List Nat)
    (h : Badger.commit s o n a r = .ok s') (hsafe : commitSafe cl s n a = true) (hg : Good cl s) :
    Good cl s' := by
  rw [bcommit_ok_inv h]
  split
  · exact hg
  · intro w th he hk
    rw [hasKey_commitSt] at hk
    have he' : s.earliest ≤ w := he
    show (s.rootNode.write (encTH (n.typ, n.hash)) n.ver true).at (encTH th) w = some true ∧
      (th.2 ≠ 0 → ∀ x ∈ cl th.2, (s.node.writeAll a n.ver true).live x w = true)
    rw [at_write]
    by_cases hnew : (decide (w = n.ver) && th == (n.typ, n.hash)) = true
    · simp only [Bool.and_eq_true, decide_eq_true_eq, beq_iff_eq] at hnew
      obtain ⟨hw, hth⟩ := hnew
      subst hw; subst hth
      refine ⟨by simp, ?_⟩
      intro h0 x hx
      unfold commitSafe at hsafe
      have h0' : ¬ (n.hash == 0) = true := by simpa using h0
      simp only [h0', Bool.false_or, List.all_eq_true, Bool.or_eq_true, List.contains_eq_mem,
        decide_eq_true_eq] at hsafe
      rcases hsafe x hx with hm | hl
      · exact live_writeAll_true_mem _ _ _ _ hm
      · exact live_writeAll_true_mono _ _ _ _ _ hl
    · have hk' : hasKey (s.rmeta w) th = true := by
        simp only [Bool.or_eq_true] at hk
        rcases hk with hk | hk
        · exact hk
        · exact absurd hk hnew
      obtain ⟨g1, g2⟩ := hg w th he' hk'
      refine ⟨?_, fun h0 x hx => live_writeAll_true_mono _ _ _ _ _ (g2 h0 x hx)⟩
      split
      · rfl
      · exact g1

theorem hasKey_filter_sub (rm : RootsMeta) (q : TH × List TH → Bool) (x : TH)
    (h : hasKey (rm.filter q) x = true) : hasKey rm x = true ∧ ∃ e ∈ rm.filter q, e.1 = x := by
  simp only [hasKey, List.any_eq_true, beq_iff_eq] at h ⊢
  obtain ⟨e, he, hx⟩ := h
  exact ⟨⟨e, (List.mem_filter.1 he).1, hx⟩, e, he, hx⟩

/-- Finalize keeps `Good` when it is safe (`finalizeSafe`). -/
theorem good_finalize (cl : Nat → List Nat) (s s' : St) (v : Nat) (ch : List Root)
    (h : Badger.finalize s v ch = .ok s') (hsafe : finalizeSafe cl s v ch = true)
    (hwin : s.earliest ≤ v) (hg : Good cl s) : Good cl s' := by
  obtain ⟨_, hs'⟩ := bfinalize_ok_inv h
  subst hs'
  unfold finalizeSafe at hsafe
  simp only [Bool.and_eq_true, List.all_eq_true, Bool.or_eq_true, beq_iff_eq, decide_eq_true_eq,
    Bool.not_eq_true', List.contains_eq_mem, decide_eq_false_iff_not] at hsafe
  obtain ⟨hkeep, hlater⟩ := hsafe
  intro w th he hk
  have hew : s.earliest ≤ w := by
    simp only [finalizeSt] at he
    cases hl : s.last with
    | none => simp only [hl] at he; simp at he; omega
    | some l => simpa [hl] using he
  have hrn : (finalizeSt s v ch).rootNode = s.rootNode := rfl
  rw [hrn]
  show _ ∧ (th.2 ≠ 0 → ∀ n ∈ cl th.2,
    (s.node.writeAll (finPlan s v (chosenTH ch)).dels v false).live n w = true)
  rcases Nat.lt_trichotomy w v with hlt | heq | hgt
  · -- an earlier version: untouched
    have hk' : hasKey (s.rmeta w) th = true := by
      have : (finalizeSt s v ch).rmeta w = s.rmeta w := by
        simp [finalizeSt, St.rmeta, getMeta_cons]; omega
      rw [this] at hk; exact hk
    obtain ⟨g1, g2⟩ := hg w th hew hk'
    refine ⟨g1, fun h0 n hn => ?_⟩
    rw [live_congr_get _ _ _ _ (get_writeAll_lt _ _ _ _ _ _ hlt)]
    exact g2 h0 n hn
  · -- the finalized version: kept roots lose nothing
    subst heq
    have hmeta : (finalizeSt s w ch).rmeta w = (finPlan s w (chosenTH ch)).keep := by
      simp [finalizeSt, St.rmeta, getMeta_cons]
    rw [hmeta] at hk
    have hkeepdef : (finPlan s w (chosenTH ch)).keep =
        (s.rmeta w).filter (fun e => (closeFin (s.rmeta w) (chosenTH ch)).contains e.1) := rfl
    rw [hkeepdef] at hk
    obtain ⟨hk', e, hemem, hex⟩ := hasKey_filter_sub _ _ _ hk
    obtain ⟨g1, g2⟩ := hg w th hew hk'
    refine ⟨g1, fun h0 n hn => ?_⟩
    rw [live_writeAll_false_at]
    have := hkeep e (by rw [hkeepdef]; exact hemem)
    rw [hex] at this
    rcases this with hz | hnd
    · exact absurd hz h0
    · simp [hnd n hn, g2 h0 n hn]
  · -- a later version: shielded or not deleted
    have hk' : hasKey (s.rmeta w) th = true := by
      have : (finalizeSt s v ch).rmeta w = s.rmeta w := by
        simp [finalizeSt, St.rmeta, getMeta_cons]; omega
      rw [this] at hk; exact hk
    obtain ⟨g1, g2⟩ := hg w th hew hk'
    refine ⟨g1, fun h0 n hn => ?_⟩
    have hwv := getMeta_mem_versions s.rmetaL w th hk'
    have hl := hlater w hwv
    rcases hl with hle | hall
    · omega
    · simp only [hasKey, List.any_eq_true, beq_iff_eq] at hk'
      obtain ⟨e, he', hex⟩ := hk'
      rcases hall e he' with hz | hnodes
      · rw [hex] at hz; exact absurd hz h0
      · rw [hex] at hnodes
        rcases hnodes n hn with hnd | hsh
        · rw [live_congr_get _ _ _ _ (get_writeAll_notin _ _ _ _ _ _ hnd)]
          exact g2 h0 n hn
        · unfold shielded at hsh
          cases hgn : s.node.get n w with
          | none => simp [hgn] at hsh
          | some x =>
            obtain ⟨ts, bv⟩ := x
            simp only [hgn, decide_eq_true_eq] at hsh
            rw [live_congr_get _ _ _ _ ((get_writeAll_shield _ _ _ _ _ _ ts bv hgn hsh).trans hgn.symm)]
            exact g2 h0 n hn

/-- Prune keeps `Good` when it is safe (`pruneSafe`). -/
theorem good_prune (cl clv : Nat → List Nat) (s s' : St) (v : Nat)
    (h : Badger.prune cl clv s v = .ok s') (hsafe : pruneSafe cl clv s v = true) (hg : Good cl s) :
    Good cl s' := by
  obtain ⟨he, hs'⟩ := bprune_ok_inv h
  obtain ⟨_, hearl, _⟩ := bpruneErr_none he
  subst hs'
  unfold pruneSafe at hsafe
  simp only [List.all_eq_true, Bool.or_eq_true, beq_iff_eq, decide_eq_true_eq,
    Bool.not_eq_true', List.contains_eq_mem, decide_eq_false_iff_not] at hsafe
  intro w th hew hk
  have hgt : v < w := by simp only [pruneSt] at hew; omega
  have hk' : hasKey (s.rmeta w) th = true := by
    have : (pruneSt clv s v).rmeta w = s.rmeta w := by
      simp [pruneSt, St.rmeta, getMeta_cons]; omega
    rw [this] at hk; exact hk
  obtain ⟨g1, g2⟩ := hg w th (by omega) hk'
  refine ⟨?_, fun h0 n hn => ?_⟩
  · show (s.rootNode.writeAll _ v false).at (encTH th) w = some true
    rw [at_writeAll]
    have : ¬ (encTH th ∈ (loneRoots s v).map (fun e => encTH e.1) ∧ v = w) := by omega
    rw [if_neg this]; exact g1
  · show (s.node.writeAll (pruneDels clv s v) v false).live n w = true
    have hwv := getMeta_mem_versions s.rmetaL w th hk'
    rcases hsafe w hwv with hle | hall
    · omega
    · simp only [hasKey, List.any_eq_true, beq_iff_eq] at hk'
      obtain ⟨e, he', hex⟩ := hk'
      rcases hall e he' with hz | hnodes
      · rw [hex] at hz; exact absurd hz h0
      · rw [hex] at hnodes
        rcases hnodes n hn with hnd | hsh
        · rw [live_congr_get _ _ _ _ (get_writeAll_notin _ _ _ _ _ _ hnd)]
          exact g2 h0 n hn
        · unfold shielded at hsh
          cases hgn : s.node.get n w with
          | none => simp [hgn] at hsh
          | some x =>
            obtain ⟨ts, bv⟩ := x
            simp only [hgn, decide_eq_true_eq] at hsh
            rw [live_congr_get _ _ _ _ ((get_writeAll_shield _ _ _ _ _ _ ts bv hgn hsh).trans hgn.symm)]
            exact g2 h0 n hn

/-! history level -/

inductive BOp where
  | commit (old new : Root) (added removed : List Nat)
  | finalize (v : Nat) (chosen : List Root)
  | prune (v : Nat)

def bstep (cl clv : Nat → List Nat) (s : St) : BOp → St
  | .commit o n a r => match Badger.commit s o n a r with | .ok s' => s' | .error _ => s
  | .finalize v ch => match Badger.finalize s v ch with | .ok s' => s' | .error _ => s
  | .prune v => match Badger.prune cl clv s v with | .ok s' => s' | .error _ => s

/-- The restriction: every step that takes effect satisfies its safety predicate. -/
def SafeStep (cl clv : Nat → List Nat) (s : St) : BOp → Prop
  | .commit o n a r => isOk (Badger.commit s o n a r) = true → commitSafe cl s n a = true
  | .finalize v ch => isOk (Badger.finalize s v ch) = true → finalizeSafe cl s v ch = true
  | .prune v => isOk (Badger.prune cl clv s v) = true → pruneSafe cl clv s v = true

def SafeRun (cl clv : Nat → List Nat) : St → List BOp → Prop
  | _, [] => True
  | s, op :: ops => SafeStep cl clv s op ∧ SafeRun cl clv (bstep cl clv s op) ops

def brun (cl clv : Nat → List Nat) (s : St) (ops : List BOp) : St := ops.foldl (bstep cl clv) s

/-- The window never starts after a version that can still be finalized. -/
def WinOK (s : St) : Prop := (∀ l, s.last = some l → s.earliest ≤ l) ∧ (s.last = none → s.earliest = 0)

theorem winOK_step (cl clv : Nat → List Nat) (s : St) (op : BOp) (h : WinOK s) : WinOK (bstep cl clv s op) := by
  cases op with
  | commit o n a r =>
    simp only [bstep]
    cases hc : Badger.commit s o n a r with
    | error e => exact h
    | ok s' =>
      simp only
      rw [bcommit_ok_inv hc]
      split
      · exact h
      · exact h
  | finalize v ch =>
    simp only [bstep]
    cases hf : Badger.finalize s v ch with
    | error e => exact h
    | ok s' =>
      simp only
      obtain ⟨he, hs'⟩ := bfinalize_ok_inv hf
      subst hs'
      refine ⟨fun l hl => ?_, fun hn => by simp [finalizeSt] at hn⟩
      have hlv : l = v := by simp only [finalizeSt] at hl; exact (Option.some.inj hl).symm
      subst hlv
      cases hl' : s.last with
      | none => simp [finalizeSt, hl']
      | some l' =>
        have h1 := h.1 l' hl'
        -- the finalized version lies above the last one
        unfold finalizeErr at he
        by_cases g1 : ch.isEmpty = true
        · simp [g1] at he
        · simp only [g1] at he
          by_cases g2 : Badger.gapBefore s l = true
          · simp [g2] at he
          · simp only [g2] at he
            by_cases g3 : Badger.finalizedGE s l = true
            · simp [g3] at he
            · simp only [Badger.finalizedGE, hl', decide_eq_true_eq] at g3
              simp [finalizeSt, hl']; omega
  | prune v =>
    simp only [bstep]
    cases hp : Badger.prune cl clv s v with
    | error e => exact h
    | ok s' =>
      simp only
      obtain ⟨he, hs'⟩ := bprune_ok_inv hp
      obtain ⟨⟨l, hl, hlt⟩, _, _⟩ := bpruneErr_none he
      subst hs'
      refine ⟨fun l' hl' => ?_, fun hn => ?_⟩
      · have : l' = l := by
          have e : (pruneSt clv s v).last = s.last := rfl
          rw [e, hl] at hl'; exact (Option.some.inj hl').symm
        subst this
        show v + 1 ≤ l'; omega
      · have e : (pruneSt clv s v).last = s.last := rfl
        rw [e, hl] at hn; simp at hn

theorem good_step (cl clv : Nat → List Nat) (s : St) (op : BOp) (hw : WinOK s) (hg : Good cl s)
    (hs : SafeStep cl clv s op) : Good cl (bstep cl clv s op) := by
  cases op with
  | commit o n a r =>
    simp only [bstep]
    cases hc : Badger.commit s o n a r with
    | error e => exact hg
    | ok s' => exact good_commit cl s s' o n a r hc (hs (by simp [hc, isOk])) hg
  | finalize v ch =>
    simp only [bstep]
    cases hf : Badger.finalize s v ch with
    | error e => exact hg
    | ok s' =>
      have hwin : s.earliest ≤ v := by
        obtain ⟨he, _⟩ := bfinalize_ok_inv hf
        cases hl : s.last with
        | none => rw [hw.2 hl]; omega
        | some l =>
          have h1 := hw.1 l hl
          unfold finalizeErr at he
          by_cases g1 : ch.isEmpty = true
          · simp [g1] at he
          · simp only [g1] at he
            by_cases g2 : Badger.gapBefore s v = true
            · simp [g2] at he
            · simp only [g2] at he
              by_cases g3 : Badger.finalizedGE s v = true
              · simp [g3] at he
              · simp only [Badger.finalizedGE, hl, decide_eq_true_eq] at g3
                omega
      exact good_finalize cl s s' v ch hf (hs (by simp [hf, isOk])) hwin hg
  | prune v =>
    simp only [bstep]
    cases hp : Badger.prune cl clv s v with
    | error e => exact hg
    | ok s' => exact good_prune cl clv s s' v hp (hs (by simp [hp, isOk])) hg

/-- **badger_readable_inv_partial.** For every history whose steps satisfy the three safety
predicates — a batch only points to nodes it puts or that are visible (`commitSafe`), a Finalize
deletes no node of a root it keeps (`finalizeSafe`: no discarded candidate re-put an inherited node,
no kept root removed a node another kept root needs), a Prune deletes no unshielded node of a
later root (`pruneSafe`: no lone root shares a node of its version with a root that lives on) —
every root the badger model reports inside the window reads back completely, after every prefix of
the history: finalized roots stay readable through all later commits, finalizations (whatever is
discarded) and prunes.  PARTIAL: the unconditional statement is false
(`finalize_can_destroy_finalized_root`, `prune_can_destroy_later_finalized_root` — both histories
violate the predicates, `known_findings_are_outside_the_restriction`). -/
theorem badger_readable_inv_partial (cl clv : Nat → List Nat) (ops : List BOp)
    (hsafe : SafeRun cl clv Badger.init ops) (r : Root)
    (he : (brun cl clv Badger.init ops).earliest ≤ r.ver)
    (hk : hasKey ((brun cl clv Badger.init ops).rmeta r.ver) (r.typ, r.hash) = true) :
    readable cl (brun cl clv Badger.init ops) r = true := by
  have gen : ∀ (l : List BOp) (s : St), WinOK s → Good cl s → SafeRun cl clv s l →
      Good cl (brun cl clv s l) := by
    intro l
    induction l with
    | nil => intro s _ hg _; exact hg
    | cons op l ih =>
      intro s hw hg hs
      exact ih _ (winOK_step cl clv s op hw) (good_step cl clv s op hw hg hs.1) hs.2
  have hgood := gen ops Badger.init ⟨fun l hl => by simp [Badger.init] at hl, fun _ => rfl⟩
    (by intro w th _ hk'; simp [Badger.init, St.rmeta, getMeta, hasKey] at hk') hsafe
  exact good_readable cl _ hgood r he hk

/-- The two counterexample histories are outside the restriction: the Finalize of the first and
the Prune of the second violate their safety predicate (and every earlier step satisfies its own). -/
theorem known_findings_are_outside_the_restriction :
    finalizeSafe cexCl cexBeforeFinalize 2 [⟨2, 0, 11⟩] = false ∧
    finalizeSafe cexCl cexBeforeFinalize 2 [⟨2, 0, 1⟩] = true ∧
    pruneSafe cexCl2 cexCl2 cexBeforePrune 1 = false := by
  decide

end BadgerSafe

/-! ## Part B2 — the pathbadger bookkeeping model

Histories of the operations of `OasisModel.NodeDB.PathBadger`.  The only hypothesis is about what
a tree hands to a batch that creates a root (`batchOK`: the candidate derives from a finalized root
or from nothing; fresh distinct keys of the batch's version; every child pointer points to a put
node or to a kept node of the old tree with the recorded hash; a kept node keeps its children) —
dbdrv evaluates exactly this predicate on every commit of the real tree. -/
section PathBadgerThms
open PathBadger OasisProofs.PathBadgerH

inductive POp where
  | commit (old new : Root) (b : Batch)
  | finalize (v : Nat) (chosen : List Root)
  | prune (v : Nat)

def pstep (s : PathBadger.St) : POp → PathBadger.St
  | .commit o n b => (PathBadger.commit s o n b).2
  | .finalize v ch => (PathBadger.finalize s v ch).2
  | .prune v => (PathBadger.prune s v).2

/-- A commit that creates a root carries a batch a tree can produce. -/
def Admissible (s : PathBadger.St) : POp → Prop
  | .commit o n b =>
    newBatchRes s o n = .ok → Spec.follows n o = true → PathBadger.finalizedGE s n.ver = false →
      PathBadger.rootVal s n.ver (n.typ, n.hash) = none → batchOK s o n b = true
  | _ => True

def AdmissibleRun : PathBadger.St → List POp → Prop
  | _, [] => True
  | s, op :: ops => Admissible s op ∧ AdmissibleRun (pstep s op) ops

def prun (s : PathBadger.St) (ops : List POp) : PathBadger.St := ops.foldl pstep s

theorem commitCtx_of_guards {s : PathBadger.St} {o n : Root} (h1 : newBatchRes s o n = .ok)
    (h2 : Spec.follows n o = true) (h3 : PathBadger.finalizedGE s n.ver = false)
    (h4 : PathBadger.rootVal s n.ver (n.typ, n.hash) = none) : CommitCtx s o n := by
  have ht : n.typ = o.typ := by
    simp only [Spec.follows, Bool.and_eq_true, beq_iff_eq] at h2; exact h2.1
  unfold newBatchRes at h1
  by_cases hv : (!(n.ver == o.ver || n.ver == o.ver + 1)) = true
  · simp [hv] at h1
  · simp only [hv, Bool.false_eq_true, if_false] at h1
    have hvv : n.ver = o.ver ∨ n.ver = o.ver + 1 := by
      cases hb : (n.ver == o.ver || n.ver == o.ver + 1) with
      | false => simp [hb] at hv
      | true => simpa using hb
    by_cases h0 : (o.hash != 0) = true
    · simp only [h0, if_true] at h1
      by_cases hio : (o.typ == 1) = true
      · simp [hio] at h1
      · simp only [hio, Bool.false_eq_true, if_false] at h1
        by_cases hsame : (o.ver == n.ver) = true
        · simp [hsame] at h1
        · simp only [hsame, Bool.false_eq_true, if_false] at h1
          by_cases hnone : (PathBadger.rootVal s o.ver (o.typ, o.hash)).isNone = true
          · simp [hnone] at h1
          · refine ⟨ht, h3, h4, fun _ => ?_, fun _ => by simpa using hio, fun _ => ?_⟩
            · have : ¬ o.ver = n.ver := by simpa using hsame
              omega
            · cases hx : PathBadger.rootVal s o.ver (o.typ, o.hash) with
              | none => simp [hx] at hnone
              | some x => rfl
    · have hz : o.hash = 0 := by simpa using h0
      exact ⟨ht, h3, h4, fun hne => absurd hz hne, fun hne => absurd hz hne, fun hne => absurd hz hne⟩

/-- One step of an admissible history preserves the invariant. -/
theorem pathbadger_inv_step (s : PathBadger.St) (op : POp) (h : Inv s) (ha : Admissible s op) :
    Inv (pstep s op) := by
  cases op with
  | commit o n b =>
    simp only [pstep, PathBadger.commit]
    cases h1 : newBatchRes s o n with
    | err e => exact h
    | restricted => exact h
    | ok =>
      simp only
      by_cases h2 : (!Spec.follows n o) = true
      · simp only [h2, if_true]; exact inv_bumpSeq s _ _ h
      · simp only [h2, Bool.false_eq_true, if_false]
        by_cases h3 : PathBadger.finalizedGE s n.ver = true
        · simp only [h3, if_true]; exact inv_bumpSeq s _ _ h
        · simp only [h3, Bool.false_eq_true, if_false]
          by_cases h4 : (PathBadger.rootVal s n.ver (n.typ, n.hash)).isSome = true
          · simp only [h4, if_true]; exact inv_bumpSeq s _ _ h
          · simp only [h4, Bool.false_eq_true, if_false]
            have hf : Spec.follows n o = true := by simpa using h2
            have hnf : PathBadger.finalizedGE s n.ver = false := by simpa using h3
            have hnone : PathBadger.rootVal s n.ver (n.typ, n.hash) = none := by
              cases hx : PathBadger.rootVal s n.ver (n.typ, n.hash) with
              | none => rfl
              | some x => simp [hx] at h4
            exact inv_commitSt s o n b (commitCtx_of_guards h1 hf hnf hnone)
              (batchOK_hyp (ha h1 hf hnf hnone)) h
  | finalize v ch =>
    simp only [pstep, PathBadger.finalize]
    cases h1 : finalizeRes s v ch with
    | err e => exact h
    | restricted => exact h
    | ok => exact inv_finalizeSt s v ch (finalizeRes_ok h1) h
  | prune v =>
    simp only [pstep, PathBadger.prune]
    cases h1 : PathBadger.pruneErr s v with
    | some e => exact h
    | none => exact inv_pruneSt s v h1 h

theorem pathbadger_inv_run (s : PathBadger.St) (ops : List POp) (h : Inv s) (ha : AdmissibleRun s ops) :
    Inv (prun s ops) := by
  induction ops generalizing s with
  | nil => exact h
  | cons op ops ih => exact ih (pstep s op) (pathbadger_inv_step s op h ha.1) ha.2

/-- **readable_inv and no_false_root for pathbadger, every admissible history.** After any history
of commits (several competing candidates per version with any sequence numbers, unchanged and empty
roots), finalizations (whatever is discarded, whichever candidate is chosen) and prunes, every root
the database reports — `HasRoot` is true: every finalized root of a retained version, and every
pending root — reads back completely, and every node it returns carries exactly the hash recorded
in the pointer that led to it (`read` is `ok`, never `notFound`, never `foreign`): the contents
returned under a root hash to that root. -/
theorem pathbadger_readable_inv (ops : List POp) (ha : AdmissibleRun PathBadger.init ops) (r : Root)
    (hr : PathBadger.hasRoot (prun PathBadger.init ops) r = true) :
    PathBadger.read (prun PathBadger.init ops) r = .ok := by
  have hinv := pathbadger_inv_run PathBadger.init ops inv_init ha
  by_cases h0 : (r.hash == 0) = true
  · unfold PathBadger.read; simp [h0]
  · unfold PathBadger.hasRoot at hr
    simp only [h0, Bool.false_or, Bool.and_eq_true, decide_eq_true_eq] at hr
    obtain ⟨rv, hrv⟩ := Option.isSome_iff_exists.1 hr.2
    have hc := hinv.closed r.ver (r.typ, r.hash) rv hrv hr.1
    exact read_ok_of_closed _ r _ hc hr.1

/-- In particular a finalized root stays readable through everything that happens later, until
its version is pruned: `HasRoot` of a root can only turn false by a Finalize of its own version
that discards it or by a Prune that moves the window past its version (`pathbadger_prune_exact`). -/
theorem pathbadger_no_false_root (ops : List POp) (ha : AdmissibleRun PathBadger.init ops) (r : Root)
    (hr : PathBadger.hasRoot (prun PathBadger.init ops) r = true) :
    PathBadger.read (prun PathBadger.init ops) r ≠ .foreign := by
  rw [pathbadger_readable_inv ops ha r hr]; simp

/-- **prune_exact (pathbadger).** A successful `Prune(v)` is accepted only for the earliest,
finalized, non-last version; afterwards nothing of version `v` is reported, the window starts at
`v+1`, the last finalized version and every root of a later version are untouched. -/
theorem pathbadger_prune_exact (s : PathBadger.St) (v : Nat) (h : (PathBadger.prune s v).1 = .ok) :
    s.earliest = v ∧ (∃ l, s.last = some l ∧ v < l) ∧
    (PathBadger.prune s v).2.earliest = v + 1 ∧ (PathBadger.prune s v).2.last = s.last ∧
    (∀ r : Root, r.ver = v → r.hash ≠ 0 → PathBadger.hasRoot (PathBadger.prune s v).2 r = false) ∧
    PathBadger.rootsFor (PathBadger.prune s v).2 v = [] ∧
    (∀ r : Root, v < r.ver → PathBadger.hasRoot (PathBadger.prune s v).2 r = PathBadger.hasRoot s r) := by
  unfold PathBadger.prune at h ⊢
  cases he : PathBadger.pruneErr s v with
  | some e => simp [he] at h
  | none =>
    simp only
    obtain ⟨l, hl, hlt, hearl⟩ := OasisProofs.PathBadgerH.pruneErr_none he
    refine ⟨hearl.symm, ⟨l, hl, hlt⟩, rfl, rfl, ?_, ?_, ?_⟩
    · intro r hr h0
      unfold PathBadger.hasRoot
      have he' : (pruneSt s v).earliest = v + 1 := rfl
      rw [he']
      have : decide (v + 1 ≤ r.ver) = false := by simp; omega
      simp [h0, this]
    · unfold PathBadger.rootsFor
      simp [pruneSt]
    · intro r hr
      unfold PathBadger.hasRoot
      rw [rootVal_pruneSt]
      have hne : ¬ r.ver = v := by omega
      have he' : (pruneSt s v).earliest = v + 1 := rfl
      rw [he']
      have d1 : decide (v + 1 ≤ r.ver) = true := by simp; omega
      have d2 : decide (s.earliest ≤ r.ver) = true := by simp; omega
      simp [hne, d1, d2]

/-! ### refinement of the contract -/

/-- The pathbadger state `p` and the contract state `sp` agree on the window and on which roots of
the window are reported. -/
def PRel (p : PathBadger.St) (sp : Spec.St) : Prop :=
  sp.last = p.last ∧ sp.earliest = p.earliest ∧
  ∀ r : Root, p.earliest ≤ r.ver →
    Spec.isPresent sp r = (PathBadger.rootVal p r.ver (r.typ, r.hash)).isSome

theorem isPresent_append (sp : Spec.St) (e : Root × Contents) (r : Root) :
    Spec.isPresent { sp with present := sp.present ++ [e] } r = (Spec.isPresent sp r || e.1 == r) := by
  simp [Spec.isPresent, List.any_append]

theorem isPresent_filter (l : List (Root × Contents)) (q : Root → Bool) (r : Root) :
    (l.filter (fun e => q e.1)).any (fun e => e.1 == r) = (l.any (fun e => e.1 == r) && q r) := by
  induction l with
  | nil => rfl
  | cons a t ih =>
    by_cases hq : q a.1 = true
    · simp only [List.filter, hq, List.any_cons, ih]
      by_cases ha : (a.1 == r) = true
      · have : a.1 = r := by simpa using ha
        simp [ha, ← this, hq]
      · simp [ha]
    · simp only [List.filter, hq, List.any_cons, ih]
      by_cases ha : (a.1 == r) = true
      · have : a.1 = r := by simpa using ha
        rw [this] at hq
        simp [hq]
      · simp [ha]

theorem pfinalizedGE_eq {p : PathBadger.St} {sp : Spec.St} (h : sp.last = p.last) (v : Nat) :
    Spec.finalizedGE sp v = PathBadger.finalizedGE p v := by
  unfold Spec.finalizedGE PathBadger.finalizedGE
  rw [h]
  cases p.last <;> rfl

/-- A version that is not finalized lies inside the window. -/
theorem window_of_notfin {p : PathBadger.St} (hinv : Inv p) {v : Nat} (h : PathBadger.finalizedGE p v = false) :
    p.earliest ≤ v := by
  unfold PathBadger.finalizedGE at h
  cases hl : p.last with
  | none => rw [hinv.nolast hl]; omega
  | some l =>
    have := hinv.window l hl
    simp only [hl, decide_eq_false_iff_not] at h
    omega

/-- **pathbadger refines the contract (Commit).** Whenever the backend model accepts a commit, the
contract accepts it too, and the reported roots keep corresponding. -/
theorem pathbadger_refines_spec_commit (p : PathBadger.St) (sp : Spec.St) (o n : Root) (b : Batch) (c : Contents)
    (hinv : Inv p) (hrel : PRel p sp) (hok : (PathBadger.commit p o n b).1 = .ok) :
    ∃ sp', Spec.commit sp o n c = .ok sp' ∧ PRel (PathBadger.commit p o n b).2 sp' := by
  obtain ⟨hl, he, hp⟩ := hrel
  unfold PathBadger.commit at hok ⊢
  cases h1 : newBatchRes p o n with
  | err e => simp [h1] at hok
  | restricted => simp [h1] at hok
  | ok =>
    simp only [h1] at hok ⊢
    by_cases h2 : (!Spec.follows n o) = true
    · simp [h2] at hok
    · simp only [h2, Bool.false_eq_true, if_false] at hok ⊢
      by_cases h3 : PathBadger.finalizedGE p n.ver = true
      · simp [h3] at hok
      · simp only [h3, Bool.false_eq_true, if_false] at hok ⊢
        have hf : Spec.follows n o = true := by simpa using h2
        have hnf : PathBadger.finalizedGE p n.ver = false := by simpa using h3
        have hwn := window_of_notfin hinv hnf
        have hsf : Spec.finalizedGE sp n.ver = false := by rw [pfinalizedGE_eq hl]; exact hnf
        by_cases h4 : (PathBadger.rootVal p n.ver (n.typ, n.hash)).isSome = true
        · -- re-commit of an existing root: the contract returns its state unchanged
          simp only [h4, if_true]
          have hpres : Spec.isPresent sp n = true := by rw [hp n hwn]; exact h4
          refine ⟨sp, ?_, hl, he, hp⟩
          unfold Spec.commit Spec.commitErr
          simp [hf, hsf, hpres]
        · simp only [h4, Bool.false_eq_true, if_false]
          have hnone : PathBadger.rootVal p n.ver (n.typ, n.hash) = none := by
            cases hx : PathBadger.rootVal p n.ver (n.typ, n.hash) with
            | none => rfl
            | some x => simp [hx] at h4
          have hctx := commitCtx_of_guards h1 hf hnf hnone
          have hnp : Spec.isPresent sp n = false := by rw [hp n hwn]; simpa using h4
          -- the old root, if any, is a reported root of the window
          have hold : o.hash ≠ 0 → p.earliest ≤ o.ver ∧ Spec.isPresent sp o = true := by
            intro hne
            have hnext := hctx.next hne
            have hwo : p.earliest ≤ o.ver := by
              unfold PathBadger.finalizedGE at hnf
              cases hl' : p.last with
              | none => rw [hinv.nolast hl']; omega
              | some l =>
                have := hinv.window l hl'
                simp only [hl', decide_eq_false_iff_not] at hnf
                omega
            exact ⟨hwo, by rw [hp o hwo]; exact hctx.oldroot hne⟩
          refine ⟨{ sp with present := sp.present ++ [(n, c)] }, ?_, hl, he, ?_⟩
          · unfold Spec.commit Spec.commitErr
            simp only [hf, hsf, hnp, Bool.not_true, Bool.false_eq_true, if_false]
            by_cases h0 : o.hash = 0
            · simp [h0]
            · obtain ⟨hwo, hpo⟩ := hold h0
              have : ¬ o.ver < sp.earliest := by rw [he]; omega
              simp [h0, hpo, this]
          · intro r hr
            rw [isPresent_append, rootVal_commitSt]
            by_cases heq : (n.ver, (n.typ, n.hash)) = (r.ver, (r.typ, r.hash))
            · have : n = r := by
                obtain ⟨h1', h2'⟩ := Prod.mk.inj heq
                obtain ⟨h3', h4'⟩ := Prod.mk.inj h2'
                cases n; cases r; simp_all
              simp [heq, this]
            · have : ¬ n = r := fun e => heq (by rw [e])
              have hb : (n == r) = false := by simpa using this
              simp only [heq, if_false, hb, Bool.or_false]
              exact hp r hr

/-- **pathbadger refines the contract (Finalize)**, with the backend's witness `keep` = the chosen
roots that exist: everything else of that version is discarded. -/
theorem pathbadger_refines_spec_finalize (p : PathBadger.St) (sp : Spec.St) (v : Nat) (ch : List Root)
    (hinv : Inv p) (hrel : PRel p sp) (hok : (PathBadger.finalize p v ch).1 = .ok) :
    let keep := ch.filter (fun r => Spec.isPresent sp r)
    Spec.keepOk sp v ch keep = true ∧
    ∃ sp', Spec.finalize sp v ch keep = .ok sp' ∧ PRel (PathBadger.finalize p v ch).2 sp' := by
  obtain ⟨hl, he, hp⟩ := hrel
  simp only
  unfold PathBadger.finalize at hok ⊢
  cases h1 : finalizeRes p v ch with
  | err e => simp [h1] at hok
  | restricted => simp [h1] at hok
  | ok =>
    simp only
    have hfo := finalizeRes_ok h1
    -- unpack the remaining guards of finalizeRes
    have hguards : ch.isEmpty = false ∧ (∀ r ∈ ch, r.ver = v) ∧
        (∀ r ∈ ch, r.hash ≠ 0 → (PathBadger.rootVal p v (r.typ, r.hash)).isSome = true) := by
      unfold finalizeRes at h1
      by_cases g1 : ch.isEmpty = true
      · simp [g1] at h1
      · simp only [g1] at h1
        by_cases g2 : PathBadger.finalizedGE p v = true
        · simp [g2] at h1
        · simp only [g2] at h1
          by_cases g3 : notNext p v = true
          · simp [g3] at h1
          · simp only [g3] at h1
            by_cases g4 : ch.any (fun r => r.ver != v) = true
            · simp [g4] at h1
            · simp only [g4] at h1
              by_cases g5 : (!nodupNat (ch.map (·.typ))) = true
              · simp [g5] at h1
              · simp only [g5] at h1
                by_cases g6 : ch.any (fun r => r.hash != 0 && (PathBadger.rootVal p v (r.typ, r.hash)).isNone) = true
                · simp [g6] at h1
                · refine ⟨by simpa using g1, ?_, ?_⟩
                  · intro r hr
                    simp only [Bool.not_eq_true, List.any_eq_false] at g4
                    simpa using g4 r hr
                  · intro r hr h0
                    simp only [Bool.not_eq_true, List.any_eq_false] at g6
                    have := g6 r hr
                    cases hx : PathBadger.rootVal p v (r.typ, r.hash) with
                    | none => simp [hx, h0] at this
                    | some x => rfl
    obtain ⟨gne, gver, gex⟩ := hguards
    have hwv := window_of_notfin hinv hfo.notfin
    have hsf : Spec.finalizedGE sp v = false := by rw [pfinalizedGE_eq hl]; exact hfo.notfin
    have hgap : Spec.gapBefore sp v = false := by
      unfold Spec.gapBefore
      rw [hl]
      cases hl' : p.last with
      | none => rfl
      | some l => have := hfo.next l hl'; simp; omega
    refine ⟨?_, ?_⟩
    · unfold Spec.keepOk
      simp only [Bool.and_eq_true, List.all_eq_true, List.mem_filter, List.contains_eq_mem, decide_eq_true_eq,
        beq_iff_eq]
      exact ⟨fun r hr => hr, fun r hr => ⟨gver r hr.1, hr.2⟩⟩
    · refine ⟨{ present := sp.present.filter (fun e => e.1.ver != v || (ch.filter (fun r => Spec.isPresent sp r)).contains e.1), fin := sp.fin ++ ch.filter (fun r => Spec.isPresent sp r), last := some v, earliest := if sp.last.isNone then v else sp.earliest }, ?_, ?_⟩
      · unfold Spec.finalize Spec.finalizeErr
        have hvm : ch.any (fun r => r.ver != v) = false := by
          rw [List.any_eq_false]; intro r hr; simpa using gver r hr
        have hrn : ch.any (fun r => r.hash != 0 && !Spec.isPresent sp r) = false := by
          rw [List.any_eq_false]
          intro r hr
          by_cases h0 : r.hash = 0
          · simp [h0]
          · have hv := gver r hr
            have := gex r hr h0
            have hpr : Spec.isPresent sp r = true := by
              rw [hp r (by rw [hv]; exact hwv), hv]; exact this
            simp [hpr]
        simp only [gne, hsf, hgap, hvm, hrn, Bool.false_eq_true, if_false]
      · refine ⟨rfl, ?_, ?_⟩
        · show (if sp.last.isNone then v else sp.earliest) = (finalizeSt p v ch).earliest
          simp only [finalizeSt, hl, he]
        · intro r hr
          have hwr : p.earliest ≤ r.ver := by
            simp only [finalizeSt] at hr
            cases hl' : p.last with
            | none => rw [hinv.nolast hl']; omega
            | some l => simpa [hl'] using hr
          show (sp.present.filter (fun e => e.1.ver != v || (ch.filter (fun r => Spec.isPresent sp r)).contains e.1)).any
              (fun e => e.1 == r) = _
          rw [isPresent_filter sp.present (fun x => x.ver != v || (ch.filter (fun r => Spec.isPresent sp r)).contains x) r]
          rw [rootVal_finalizeSt]
          have hpr := hp r hwr
          unfold Spec.isPresent at hpr
          rw [hpr]
          by_cases hv : r.ver = v
          · -- a root of the finalized version stays iff it was chosen
            have hvb : (r.ver != v) = false := by simpa using hv
            simp only [hv, hvb, Bool.false_or, true_and]
            by_cases hsome : (PathBadger.rootVal p v (r.typ, r.hash)).isSome = true
            · have hpres : Spec.isPresent sp r = true := by
                rw [hp r hwr, hv]; exact hsome
              have hmem : (ch.filter (fun r => Spec.isPresent sp r)).contains r = isFin ch (r.typ, r.hash) := by
                by_cases hin : r ∈ ch
                · have h1' : (ch.filter (fun r => Spec.isPresent sp r)).contains r = true := by
                    simp [List.mem_filter, hin, hpres]
                  have h2' : isFin ch (r.typ, r.hash) = true := by
                    simp only [isFin, List.any_eq_true, beq_iff_eq]
                    exact ⟨r, hin, rfl⟩
                  rw [h1', h2']
                · have h1' : (ch.filter (fun r => Spec.isPresent sp r)).contains r = false := by
                    simp [List.mem_filter, hin]
                  have h2' : isFin ch (r.typ, r.hash) = false := by
                    cases hf : isFin ch (r.typ, r.hash) with
                    | false => rfl
                    | true =>
                      exfalso
                      simp only [isFin, List.any_eq_true, beq_iff_eq] at hf
                      obtain ⟨r', hr', heq⟩ := hf
                      have hv' := gver r' hr'
                      obtain ⟨e1, e2⟩ := Prod.mk.inj heq
                      have : r' = r := by cases r'; cases r; simp_all
                      exact hin (this ▸ hr')
                  rw [h1', h2']
              rw [hmem]
              by_cases hf : isFin ch (r.typ, r.hash) = true
              · have : ¬ (r.typ, r.hash) ∈ (finPlan p v ch).discarded := by
                  rw [mem_discarded]; simp [hf]
                simp [hf, this, hsome]
              · have hff : isFin ch (r.typ, r.hash) = false := by simpa using hf
                have : (r.typ, r.hash) ∈ (finPlan p v ch).discarded := by
                  rw [mem_discarded]; exact ⟨hsome, hff⟩
                simp [hff, this, hsome]
            · have hn : PathBadger.rootVal p v (r.typ, r.hash) = none := by
                cases hx : PathBadger.rootVal p v (r.typ, r.hash) with
                | none => rfl
                | some x => simp [hx] at hsome
              simp [hn]
          · have hvb : (r.ver != v) = true := by simpa using hv
            simp [hv, hvb]

/-- **pathbadger refines the contract (Prune).** -/
theorem pathbadger_refines_spec_prune (p : PathBadger.St) (sp : Spec.St) (v : Nat)
    (hrel : PRel p sp) (hok : (PathBadger.prune p v).1 = .ok) :
    ∃ sp', Spec.prune sp v = .ok sp' ∧ PRel (PathBadger.prune p v).2 sp' := by
  obtain ⟨hl, he, hp⟩ := hrel
  unfold PathBadger.prune at hok ⊢
  cases h1 : PathBadger.pruneErr p v with
  | some e => simp [h1] at hok
  | none =>
    simp only
    have hs : Spec.pruneErr sp v = none := by
      unfold Spec.pruneErr
      unfold PathBadger.pruneErr at h1
      rw [hl, he]
      exact h1
    refine ⟨{ sp with present := sp.present.filter (fun e => e.1.ver != v), fin := sp.fin.filter (fun r => r.ver != v), earliest := v + 1 }, by unfold Spec.prune; rw [hs], hl, rfl, ?_⟩
    intro r hr
    have hgt : v < r.ver := by simp only [pruneSt] at hr; omega
    obtain ⟨l, _, _, hearl⟩ := OasisProofs.PathBadgerH.pruneErr_none h1
    show (sp.present.filter (fun e => e.1.ver != v)).any (fun e => e.1 == r) = _
    rw [isPresent_filter sp.present (fun x => x.ver != v) r, rootVal_pruneSt]
    have hne : ¬ r.ver = v := by omega
    have hvb : (r.ver != v) = true := by simpa using hne
    have := hp r (by omega)
    unfold Spec.isPresent at this
    simp [hne, hvb, this]

end PathBadgerThms

/-! ## Part C — the ABCI pruner arithmetic (`abci/prune.go:117-200`) -/
section PrunerThms
open Pruner

theorem loop_spec (pf : Nat) (veto : Nat → Bool) (db : Nat → DbRes) (latest : Nat) (hpf : pf ≤ latest) :
    ∀ (n i e : Nat) (pr ak : List Nat), i + n = latest + 1 → (i ≤ pf ∨ pr = []) →
      (∀ v ∈ pr, v < i) → (∀ v ∈ ak, v < pf ∧ veto v = false) → (∀ v ∈ pr, v ∈ ak) →
      (∀ v ∈ (loop pf veto db n i e pr ak).2.2.1, v < pf ∧ veto v = false) ∧
      (∀ v ∈ (loop pf veto db n i e pr ak).2.1, v ∈ (loop pf veto db n i e pr ak).2.2.1) ∧
      ((loop pf veto db n i e pr ak).2.2.2 = false →
        ∀ v ∈ (loop pf veto db n i e pr ak).2.1, v < (loop pf veto db n i e pr ak).1) := by
  intro n
  induction n with
  | zero =>
    intro i e pr ak hin hor hpr hak hsub
    simp only [loop]
    refine ⟨hak, hsub, ?_⟩
    intro _ v hv
    rcases hor with h | h
    · omega
    · subst h; simp at hv
  | succ n ih =>
    intro i e pr ak hin hor hpr hak hsub
    simp only [loop]
    by_cases h1 : i ≥ pf
    · simp only [h1, if_true]
      exact ⟨hak, hsub, fun _ v hv => hpr v hv⟩
    · simp only [h1, if_false]
      by_cases h2 : veto i = true
      · simp only [h2, if_true]
        exact ⟨hak, hsub, fun _ v hv => hpr v hv⟩
      · simp only [h2]
        have hak' : ∀ v ∈ ak ++ [i], v < pf ∧ veto v = false := by
          intro v hv
          rcases List.mem_append.1 hv with hv | hv
          · exact hak v hv
          · simp at hv; subst hv; exact ⟨by omega, by simpa using h2⟩
        cases hdb : db i with
        | ok =>
          simp only
          apply ih (i + 1) e (pr ++ [i]) (ak ++ [i]) (by omega) (Or.inl (by omega))
          · intro v hv
            rcases List.mem_append.1 hv with hv | hv
            · have := hpr v hv; omega
            · simp at hv; omega
          · exact hak'
          · intro v hv
            rcases List.mem_append.1 hv with hv | hv
            · exact List.mem_append_left _ (hsub v hv)
            · exact List.mem_append_right _ hv
        | notEarliest =>
          simp only
          apply ih (i + 1) e pr (ak ++ [i]) (by omega) (Or.inl (by omega))
          · intro v hv; have := hpr v hv; omega
          · exact hak'
          · intro v hv; exact List.mem_append_left _ (hsub v hv)
        | fail =>
          simp only
          exact ⟨hak', fun v hv => List.mem_append_left _ (hsub v hv), fun h => by simp at h⟩

/-- **pruner_keeps_last_n.** Whatever the handlers and the database answer, one call of the
pruner only ever asks the database to prune versions `v` with `v + keepN < latest` — the last
`keepN` versions before `latest` (and `latest` itself) are never pruned — and never a version a
prune handler vetoed. -/
theorem pruner_keeps_last_n (keepN latest dbE : Nat) (veto : Nat → Bool) (db : Nat → DbRes) (p : PSt)
    (syncOk : Bool) :
    ∀ v ∈ (prune keepN latest dbE veto db p syncOk).asked, v + keepN < latest ∧ veto v = false := by
  intro v hv
  unfold prune at hv
  by_cases h0 : latest < keepN
  · simp [h0] at hv
  · simp only [h0, if_false] at hv
    generalize hp1 : (if p.earliest = 0 then ({ earliest := dbE, lastRetained := dbE } : PSt) else p) = p1 at hv
    by_cases h1 : p1.earliest = 0
    · simp [h1] at hv
    · simp only [h1, if_false] at hv
      have hs := loop_spec (latest - keepN) veto db latest (by omega) (latest + 1 - p1.earliest)
        p1.earliest p1.earliest [] []
      by_cases hle : p1.earliest ≤ latest + 1
      · have := (hs (by omega) (Or.inr rfl) (by simp) (by simp) (by simp)).1
        have hv' : v ∈ (loop (latest - keepN) veto db (latest + 1 - p1.earliest) p1.earliest p1.earliest [] []).2.2.1 := by
          split at hv
          · exact hv
          · split at hv <;> exact hv
        have := this v hv'; exact ⟨by omega, this.2⟩
      · have hz : latest + 1 - p1.earliest = 0 := by omega
        rw [hz] at hv
        cases syncOk <;> simp [loop] at hv

/-- **last_retained_le_needed / syncs before advancing.** After a successful call everything the
database pruned lies strictly below the version the pruner reports as last retained (block history
below it may be discarded); after a failed call — a failing `ndb.Prune` or a failing `ndb.Sync` —
the reported version has not moved; and whenever `Sync` runs, the reported version is still the old
one: the database is synced BEFORE the retained version advances. -/
theorem pruner_last_retained_sound (keepN latest dbE : Nat) (veto : Nat → Bool) (db : Nat → DbRes) (p : PSt)
    (syncOk : Bool) :
    let o := prune keepN latest dbE veto db p syncOk
    let old := if p.earliest = 0 then dbE else p.lastRetained
    (o.err = false → ∀ v ∈ o.pruned, v < o.st.lastRetained) ∧
    (o.err = true → o.st.lastRetained = old) ∧
    (∀ v ∈ o.pruned, v ∈ o.asked) ∧
    (∀ r, o.retainedAtSync = some r → r = old) ∧
    (o.err = false → o.pruned ≠ [] → o.retainedAtSync = some old) ∧
    (syncOk = false → o.retainedAtSync ≠ none → o.err = true) := by
  simp only
  unfold prune
  by_cases h0 : latest < keepN
  · simp [h0]
  · simp only [h0, if_false]
    generalize hp1 : (if p.earliest = 0 then ({ earliest := dbE, lastRetained := dbE } : PSt) else p) = p1
    have hlr : p1.lastRetained = (if p.earliest = 0 then dbE else p.lastRetained) := by
      rw [← hp1]; split <;> rfl
    by_cases h1 : p1.earliest = 0
    · simp [h1]
    · simp only [h1, if_false]
      have hs := loop_spec (latest - keepN) veto db latest (by omega) (latest + 1 - p1.earliest)
        p1.earliest p1.earliest [] []
      by_cases hle : p1.earliest ≤ latest + 1
      · obtain ⟨_, hsub, hlt⟩ := hs (by omega) (Or.inr rfl) (by simp) (by simp) (by simp)
        by_cases herr : (loop (latest - keepN) veto db (latest + 1 - p1.earliest) p1.earliest p1.earliest [] []).2.2.2 = true
        · simp only [herr, if_true]
          exact ⟨by simp, fun _ => hlr, hsub, by simp, by simp, by simp⟩
        · simp only [herr, if_false, Bool.false_eq_true]
          cases syncOk with
          | false =>
            simp only [Bool.not_false, if_true]
            exact ⟨by simp, fun _ => hlr, hsub, by simp [hlr], by simp, by simp⟩
          | true =>
            simp only [Bool.not_true, Bool.false_eq_true, if_false]
            exact ⟨fun _ => hlt (by simpa using herr), by simp, hsub, by simp [hlr], by simp [hlr], by simp⟩
      · have hz : latest + 1 - p1.earliest = 0 := by omega
        rw [hz]
        cases syncOk <;> simp [loop, hlr]

end PrunerThms

/-! ## Non-vacuity: the hypotheses of the theorems hold on concrete non-trivial states -/
section NonVacuity

/-- `spec_readable_inv`: a reachable state with a finalized, readable root, and a continuation
(a competing commit, a finalization that discards it, a prune of the older version). -/
example :
    let s := Spec.run Spec.init
      [.commit ⟨1, 0, 0⟩ ⟨1, 0, 5⟩ "a=1", .finalize 1 [⟨1, 0, 5⟩] [⟨1, 0, 5⟩],
       .commit ⟨1, 0, 5⟩ ⟨2, 0, 6⟩ "a=1;b=2", .commit ⟨1, 0, 5⟩ ⟨2, 0, 7⟩ "a=2",
       .finalize 2 [⟨2, 0, 6⟩] [⟨2, 0, 6⟩]]
    (⟨2, 0, 6⟩ : Root) ∈ s.fin ∧ Spec.lookup s ⟨2, 0, 6⟩ = some "a=1;b=2" ∧
    Spec.isPresent s ⟨2, 0, 7⟩ = false ∧
    (match Spec.prune s 1 with | .ok s' => s'.earliest == 2 | .error _ => false) = true := by
  decide

/-- `finalize_readable_iff` / `badger_prune_exact`: successful Finalize and Prune on a state with
several roots (taken from the counterexample histories). -/
example : isOk (Badger.finalize cexBeforeFinalize 2 [⟨2, 0, 11⟩]) = true ∧
    cexBeforeFinalize.earliest ≤ 2 ∧ isOk (Badger.prune cexCl2 cexCl2 cexBeforePrune 1) = true := by
  decide

/-- `finalize_preserves_readable_of_disjoint`: finalizing the *other* candidate of the
counterexample (the fresh one-leaf tree) deletes nothing that tree needs. -/
example : (∀ x ∈ cexCl 1, x ∉ (Badger.finPlan cexBeforeFinalize 2 (Badger.chosenTH [⟨2, 0, 1⟩])).dels) ∧
    Badger.readable cexCl cexBeforeFinalize ⟨2, 0, 1⟩ = true := by
  decide

/-- pruner: with keepN = 2, latest = 10, database earliest 1 and nothing vetoed, versions 1..7
are pruned and 8 is reported as last retained. -/
example : (Pruner.prune 2 10 1 (fun _ => false) (fun _ => .ok) ⟨0, 0⟩).asked = [1, 2, 3, 4, 5, 6, 7] ∧
    (Pruner.prune 2 10 1 (fun _ => false) (fun _ => .ok) ⟨0, 0⟩).st = ⟨8, 8⟩ ∧
    (Pruner.prune 2 10 1 (fun v => v == 4) (fun _ => .ok) ⟨0, 0⟩).st = ⟨4, 4⟩ ∧
    (Pruner.prune 2 10 1 (fun _ => false) (fun _ => .ok) ⟨0, 0⟩ false).st = ⟨8, 1⟩ ∧
    (Pruner.prune 2 10 1 (fun _ => false) (fun _ => .ok) ⟨0, 0⟩ false).retainedAtSync = some 1 := by
  decide

/-- pathbadger: an admissible history with two competing candidates in version 1 (sequence numbers
0 and 1), the SECOND one finalized (copy-then-delete path), and a derived root in version 2: every
batch satisfies `batchOK`, every operation succeeds, the finalized roots read back, the discarded
candidate is gone. -/
example :
    let a1 : PathBadger.Batch := { puts := [((1, 1), ⟨1, []⟩), ((1, 2), ⟨2, []⟩)], removed := [],
                                   root := some ⟨10, [((1, 1), 1), ((1, 2), 2)]⟩ }
    let a2 : PathBadger.Batch := { puts := [((1, 1), ⟨3, []⟩)], removed := [], root := some ⟨20, [((1, 1), 3)]⟩ }
    let a3 : PathBadger.Batch := { puts := [((2, 1), ⟨4, []⟩)], removed := [],
                                   root := some ⟨21, [((1, 1), 3), ((2, 1), 4)]⟩ }
    let s0 := PathBadger.init
    let s1 := (PathBadger.commit s0 ⟨1, 0, 0⟩ ⟨1, 0, 10⟩ a1).2
    let s2 := (PathBadger.commit s1 ⟨1, 0, 0⟩ ⟨1, 0, 20⟩ a2).2
    let s3 := (PathBadger.finalize s2 1 [⟨1, 0, 20⟩]).2
    let s4 := (PathBadger.commit s3 ⟨1, 0, 20⟩ ⟨2, 0, 21⟩ a3).2
    let s5 := (PathBadger.finalize s4 2 [⟨2, 0, 21⟩]).2
    PathBadger.batchOK s0 ⟨1, 0, 0⟩ ⟨1, 0, 10⟩ a1 = true ∧ PathBadger.batchOK s1 ⟨1, 0, 0⟩ ⟨1, 0, 20⟩ a2 = true ∧
    PathBadger.batchOK s3 ⟨1, 0, 20⟩ ⟨2, 0, 21⟩ a3 = true ∧
    PathBadger.seqOf s2 1 (0, 20) = 1 ∧ s5.last = some 2 ∧
    PathBadger.hasRoot s5 ⟨1, 0, 10⟩ = false ∧
    PathBadger.read s5 ⟨1, 0, 20⟩ = .ok ∧ PathBadger.read s5 ⟨2, 0, 21⟩ = .ok ∧
    (PathBadger.prune s5 1).1 = .ok := by
  decide

end NonVacuity

end OasisProofs.C06
