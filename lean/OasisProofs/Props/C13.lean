import OasisProofs.Helpers.MkvsTree
import OasisProofs.Helpers.MkvsHash
/-
C13 — storage sync applies exactly the announced state transition.

Model: `OasisModel.Mkvs.TreeState` (tree.go:14-40 pending write log; insert.go:33-47,
remove.go:19-43 coalescing of `pendingEntry{value, existed}`; commit.go:103-121 the log `Commit`
returns; tree.go:100-127 `ApplyWriteLog`) and `applyCheckedWith` (root_cache.go:25-62 `Apply` =
`ApplyWriteLog` + `CommitKnown`, hash compared before the database commit, commit.go:29-39,93-99).
All theorems are for arbitrary batches (any interleaving of inserts, overwrites, equal overwrites,
removals, remove-then-reinsert, insert-then-remove, empty values) from any canonical tree.
The hash function is a parameter; collision resistance appears as `Function.Injective H`.
How the NodeDB stores and revives the log is outside the model and tied by the correspondence.
-/
namespace OasisProofs.C13
open OasisModel.Mkvs OasisProofs.Mkvs

/-- A write operation on the tree object. -/
inductive WOp where
  | insert (k v : Bytes)
  | remove (k : Bytes)

def applyOp (s : TreeState) : WOp → TreeState
  | .insert k v => s.insert k v
  | .remove k => s.remove k

/-- State of the tree object after a batch of operations following a commit at tree `t₀`. -/
def runBatch (t₀ : Trie) (ops : List WOp) : TreeState := ops.foldl applyOp { root := t₀, pending := [] }

theorem runBatch_inv (t₀ : Trie) (h : WF t₀) (ops : List WOp) : TInv t₀.toList (runBatch t₀ ops) := by
  have key : ∀ (s : TreeState), TInv t₀.toList s → TInv t₀.toList (ops.foldl applyOp s) := by
    induction ops with
    | nil => intro s hs; exact hs
    | cons op ops ih =>
      intro s hs
      apply ih
      cases op with
      | insert k v => exact (tinv_insert hs k v).1
      | remove k => exact (tinv_removeExisting hs k).1
  exact key _ (tinv_init h)

/-- The keys of the write log `Commit` returns are unique. -/
theorem writelog_keys_unique (t₀ : Trie) (h : WF t₀) (ops : List WOp) :
    ((runBatch t₀ ops).writeLog.map (·.1)).Nodup := writeLog_nodup (runBatch_inv t₀ h ops)

/-- For any batch, the write log built from the coalesced pending entries, applied to the
contents of the old root — in any order of its entries (Go iterates a map) — gives exactly the
contents of the new root. -/
theorem writelog_of_ops (t₀ : Trie) (h : WF t₀) (ops : List WOp) (L : List LogEntry)
    (hL : L.Perm (runBatch t₀ ops).writeLog) :
    applyLogSpec t₀.toList L = (runBatch t₀ ops).root.toList := by
  have hi := runBatch_inv t₀ h ops
  rw [applyLogSpec_perm (wf_sorted h) (writeLog_nodup hi) hL]
  exact writeLog_applies (wf_sorted h) hi

/-- `ApplyWriteLog` on a tree object acts on the contents as the specification `applyLogSpec`. -/
theorem applyWriteLog_refines (old : List KV) (s : TreeState) (hs : TInv old s) (L : List LogEntry) :
    TInv old (s.applyWriteLog L) ∧ (s.applyWriteLog L).root.toList = applyLogSpec s.root.toList L := by
  induction L generalizing s with
  | nil => exact ⟨hs, rfl⟩
  | cons e L ih =>
    obtain ⟨k, v⟩ := e
    cases v with
    | none =>
      have h1 := tinv_removeExisting hs k
      have := ih (s.remove k) h1.1
      refine ⟨this.1, ?_⟩
      show (TreeState.applyWriteLog (s.remove k) L).root.toList = _
      rw [this.2]
      show _ = applyLogSpec (SMap.erase s.root.toList k) L
      rw [← h1.2.1]; rfl
    | some v =>
      have h1 := tinv_insert hs k v
      have := ih (s.insert k v) h1.1
      refine ⟨this.1, ?_⟩
      show (TreeState.applyWriteLog (s.insert k v) L).root.toList = _
      rw [this.2]
      show _ = applyLogSpec (SMap.insert s.root.toList k v) L
      rw [← h1.2]

/-- The served write log applied to a tree at the first root produces exactly the second tree,
hence the second root hash (for every hash function; in particular the real one). -/
theorem apply_reaches_root (H : Bytes → Bytes) (t₀ : Trie) (h : WF t₀) (ops : List WOp)
    (L : List LogEntry) (hL : L.Perm (runBatch t₀ ops).writeLog) :
    (TreeState.applyWriteLog { root := t₀ } L).root = (runBatch t₀ ops).root ∧
    hashWith H (TreeState.applyWriteLog { root := t₀ } L).root = hashWith H (runBatch t₀ ops).root := by
  have h1 := applyWriteLog_refines t₀.toList { root := t₀, pending := [] } (tinv_init h) L
  have h2 := writelog_of_ops t₀ h ops L hL
  have e : (TreeState.applyWriteLog { root := t₀ } L).root = (runBatch t₀ ops).root :=
    wf_unique h1.1.wf (runBatch_inv t₀ h ops).wf (by rw [h1.2]; exact h2)
  exact ⟨e, by rw [e]⟩

/-- Checked apply, success: the tree that is persisted hashes to the expected root and holds
exactly the log applied to the old contents. -/
theorem apply_checked_ok (H : Bytes → Bytes) (old : Trie) (h : WF old) (expected : Bytes)
    (L : List LogEntry) (t : Trie) (hr : applyCheckedWith H old expected L = some t) :
    hashWith H t = expected ∧ WF t ∧ t.toList = applyLogSpec old.toList L := by
  simp only [applyCheckedWith] at hr
  split at hr
  · next hh =>
    injection hr with hr; subst hr
    have h1 := applyWriteLog_refines old.toList { root := old, pending := [] } (tinv_init h) L
    exact ⟨hh, h1.1.wf, h1.2⟩
  · simp at hr

/-- Checked apply, failure: if the result does not hash to the expected root nothing is persisted
(the model returns no tree; in Go the error is raised before `batch.Commit`). -/
theorem apply_checked_mismatch (H : Bytes → Bytes) (old : Trie) (expected : Bytes) (L : List LogEntry) :
    applyCheckedWith H old expected L = none ↔
      hashWith H (TreeState.applyWriteLog { root := old } L).root ≠ expected := by
  simp only [applyCheckedWith]
  split
  · next hh => simp [hh]
  · next hh => simp [hh]

/-- Under collision resistance, whatever log is received (dropped, duplicated, altered, reordered
entries): if the checked apply persists a tree for the expected root of a canonical tree `target`,
then the persisted contents are exactly `target`'s contents. -/
theorem apply_checked_sound (H : Bytes → Bytes) (hH : Function.Injective H) (hlen : ∀ x, (H x).length = 32)
    (old target : Trie) (h : WF old) (ht : WF target) (L : List LogEntry) (t : Trie)
    (hr : applyCheckedWith H old (hashWith H target) L = some t)
    (b₁ : ContentsBounded t.toList) (b₂ : ContentsBounded target.toList) : t = target := by
  obtain ⟨h1, h2, _⟩ := apply_checked_ok H old h _ L t hr
  exact hashWith_inj hH hlen t target (wfAt_bounded h2 b₁) (wfAt_bounded ht b₂) h1

/-- Completeness: the honest log of a transition (in any order) is accepted and persists the new tree. -/
theorem apply_checked_complete (H : Bytes → Bytes) (t₀ : Trie) (h : WF t₀) (ops : List WOp)
    (L : List LogEntry) (hL : L.Perm (runBatch t₀ ops).writeLog) :
    applyCheckedWith H t₀ (hashWith H (runBatch t₀ ops).root) L = some (runBatch t₀ ops).root := by
  have := apply_reaches_root H t₀ h ops L hL
  simp only [applyCheckedWith, this.2, if_true, this.1]

/-- `Get` on the tree object (pending write log consulted first) agrees with the tree. -/
theorem pending_get_consistent (t₀ : Trie) (h : WF t₀) (ops : List WOp) (k : Bytes) :
    (runBatch t₀ ops).get k = (runBatch t₀ ops).root.get k := by
  have hi := runBatch_inv t₀ h ops
  rw [tinv_get hi, get_eq_smap hi.wf]

/-! ### non-vacuity: remove-then-reinsert, insert-then-remove, empty value, equal overwrite -/

def t₀ : Trie := Trie.ofList [([0x61], [1]), ([0x61, 0x62], [2]), ([0x80], [])]
def batch : List WOp :=
  [.remove [0x61], .insert [0x61] [7], .insert [0x62] [3], .remove [0x62], .insert [0x80] [],
   .remove [0x61, 0x62], .insert [] []]

example : WF t₀ := wf_ofList _
example : (runBatch t₀ batch).writeLog =
    [([0x61], some [7]), ([0x80], some []), ([0x61, 0x62], none), ([], some [])] := by decide
example : applyLogSpec t₀.toList (runBatch t₀ batch).writeLog = (runBatch t₀ batch).root.toList := by decide

end OasisProofs.C13
