import OasisProofs.Helpers.MkvsLru
import OasisModel.Mkvs.Cache
import Generated.MkvsCacheFacts
/-
Property C03 (and C02: "whatever … the node-cache capacity"), node cache: "node-cache eviction
never changes any answer".

What the code relies on, stated and proved for the model of the replacement policy
(`OasisModel/Mkvs/Lru.lean`: one LRU list of clean internal nodes, `markPosition`, `useNode`,
eviction from the back with removal of the victim's cached subtree, insertion after the marked
position): while one tree operation runs, no node it has dereferenced is evicted, provided
`nodeCapacity = 0` (unlimited) or `nodeCapacity ≥ (distinct nodes dereferenced) + 1`
(`cache_transparent`).  The `+ 1` is needed (`capacity_D_is_not_enough`), and so is the call of
`useNode` in `derefNodePtr` (`without_useNode_a_held_node_is_evicted`).

`doInsert`/`doRemove` keep writing into the node objects of their ancestors after the recursive call
returns, so for them the eviction of a held node loses a subtree (known finding D2b when the
capacity is below the need); reads survive it.  The number of distinct internal nodes a write
dereferences is measured on the model trie by `CacheNeed` (`OasisModel/Mkvs/Cache.lean`), bounded
here by `2·height` (`need_le_anyWrite`); mkvsdrv compares it with the real cache's capacity to
separate D2b from every other eviction failure and generates histories with a FULL cache whose
capacity is at least the need.

Tie to the Go code: `Generated.MkvsCacheFacts` is regenerated from cache.go (and the call sites in
lookup/insert/remove/iterator.go) on every run by `tools/gen mkvscachefacts`; the theorems
`*_as_modelled` and `deref_marks_node_used` compare it with what the model transcribes, so a change
of the policy (dropping `useNode` from `derefNodePtr`, evicting from the front, inserting at the
back, …) breaks the build of this file.  Not modelled: the value list (bytes instead of counts; its
defect D1b is a known finding), `remoteSync` with its locked pointer (no remote syncer in C03's
scope; proofdrv exercises it for C04), dirty nodes (never on the list).
-/
namespace OasisProofs.C03Cache
open OasisModel.Mkvs OasisModel.Mkvs.Lru OasisProofs.Mkvs

/-- **Transparency of the node cache for one operation.**  Start from any cache state with distinct
list elements; run `markPosition` and then the operation's dereferences `ps`, in which every node
comes after all nodes above it (`AncestorClosed`: operations walk down from the root).  If the
capacity is unlimited or exceeds the number of distinct nodes of `ps`, then after every prefix of
the operation every node dereferenced so far is still in the cache: no node the operation holds is
evicted before the operation ends.  Eviction may remove any other node, together with its cached
subtree, at any fill level. -/
theorem cache_transparent (below : Nat → List Nat) (s : Lru) (ps : List Nat) (hnd : s.list.Nodup)
    (hclosed : AncestorClosed below [] ps)
    (hcap : s.cap = 0 ∨ ps.toFinset.card + 1 ≤ s.cap) (n : Nat) :
    ∀ x ∈ ps.take n, x ∈ (runOp below s (ps.take n)).list :=
  held_nodes_stay below s ps hnd hclosed hcap n

/-- The same at the end of the operation. -/
theorem cache_transparent_end (below : Nat → List Nat) (s : Lru) (ps : List Nat) (hnd : s.list.Nodup)
    (hclosed : AncestorClosed below [] ps)
    (hcap : s.cap = 0 ∨ ps.toFinset.card + 1 ≤ s.cap) :
    ∀ x ∈ ps, x ∈ (runOp below s ps).list :=
  held_nodes_stay_end below s ps hnd hclosed hcap

/-- A chain 1 → 2 → 3 (node 2 below node 1, node 3 below both). -/
def chain : Nat → List Nat
  | 1 => [2, 3]
  | 2 => [3]
  | _ => []

/-- Non-vacuity: a full cache of capacity 4 holding other nodes, an operation that dereferences the
cached root 1 and loads 2 and 3 below it; the hypotheses hold and the three nodes stay. -/
example : AncestorClosed chain [] [1, 2, 3] ∧ ([1, 2, 3] : List Nat).toFinset.card + 1 ≤ 4 ∧
    (runOp chain { list := [7, 8, 9, 1], cap := 4 } [1, 2, 3]).list = [1, 7, 3, 2] := by
  refine ⟨?_, by decide, by decide⟩
  simp [AncestorClosed, chain]
  refine ⟨?_, ?_, ?_⟩
  · intro a h; match a with
    | 1 => simp at h
    | 2 => simp at h
    | 0 => simp at h
    | n + 3 => simp at h
  · intro a h; match a with
    | 1 => simp
    | 2 => simp at h
    | 0 => simp at h
    | n + 3 => simp at h
  · intro a h; match a with
    | 1 => simp
    | 2 => simp
    | 0 => simp at h
    | n + 3 => simp at h

/-- The `+ 1` is needed: with capacity equal to the number of distinct nodes (2) and a marked node 9
that is not part of the operation, loading node 2 evicts node 1, which the operation still holds
(the mechanism of the known finding D2b at the boundary). -/
theorem capacity_D_is_not_enough :
    1 ∉ (runOp chain { list := [9], cap := 2 } [1, 2]).list ∧
    1 ∈ (runOp chain { list := [9], cap := 3 } [1, 2]).list := by decide

/-- `derefNodePtr` without the `useNode` call: a cached node keeps its place in the list. -/
def derefNoUse (below : Nat → List Nat) (s : Lru) (p : Nat) : Lru :=
  if s.list.contains p then s else s.load below p

/-- The `useNode` call of `derefNodePtr` is needed: without it, in a full cache whose capacity (3)
exceeds the operation's two nodes, the cached root 1 sits at the back and is evicted when node 2
below it is loaded; with it the root moves to the front and an unrelated node is the victim. -/
theorem without_useNode_a_held_node_is_evicted :
    1 ∉ (([1, 2] : List Nat).foldl (derefNoUse chain) (Lru.mark { list := [7, 8, 1], cap := 3 })).list ∧
    1 ∈ (runOp chain { list := [7, 8, 1], cap := 3 } [1, 2]).list := by decide

/-! ### how many nodes a write dereferences -/

theorem insertDerefs_le_height (k : Bytes) : ∀ (t : Trie) (d : Nat), t.insertDerefs k d ≤ t.height := by
  intro t
  induction t with
  | nil => intro d; simp [Trie.insertDerefs, Trie.height]
  | leaf _ _ => intro d; simp [Trie.insertDerefs, Trie.height]
  | node lab lf l r ihl ihr =>
    intro d
    simp only [Trie.insertDerefs, Trie.height]
    split
    · split
      · omega
      · have := ihr (d + lab.length); omega
      · have := ihl (d + lab.length); omega
    · omega

theorem isNode_le_height (t : Trie) : t.isNode.toNat ≤ t.height := by
  cases t <;> simp [Trie.isNode, Trie.height]

theorem removeDerefs_le_height (k : Bytes) : ∀ (t : Trie) (d : Nat), t.removeDerefs k d ≤ 2 * t.height := by
  intro t
  induction t with
  | nil => intro d; simp [Trie.removeDerefs, Trie.height]
  | leaf _ _ => intro d; simp [Trie.removeDerefs, Trie.height]
  | node lab lf l r ihl ihr =>
    intro d
    have hl := isNode_le_height l
    have hr := isNode_le_height r
    have hl1 := Bool.toNat_le l.isNode
    have hr1 := Bool.toNat_le r.isNode
    simp only [Trie.removeDerefs, Trie.height]
    split
    · omega
    · split
      · by_cases h1 : l.height = 0
        · have : l.isNode.toNat = 0 := by omega
          omega
        · by_cases h2 : r.height = 0
          · have : r.isNode.toNat = 0 := by omega
            omega
          · omega
      · split
        · have := ihr (d + lab.length); omega
        · have := ihl (d + lab.length); omega

/-- The measured need of any single write is bounded by `2·height + 1` (the bound mkvsdrv uses where
the order of the writes is not determined: the removals of an overlay commit, specification cases). -/
theorem need_le_anyWrite (t : Trie) (k : Bytes) :
    CacheNeed.insert t k ≤ CacheNeed.anyWrite t ∧ CacheNeed.remove t k ≤ CacheNeed.anyWrite t := by
  have h1 := insertDerefs_le_height k t 0
  have h2 := removeDerefs_le_height k t 0
  simp only [CacheNeed.insert, CacheNeed.remove, CacheNeed.anyWrite]
  omega

/-! ### the policy as the Go code writes it (regenerated on every run) -/

/-- Every path of `derefNodePtr` that returns a node (not nil) passes the unconditional
`c.useNode(ptr)`: the hypothesis under which `Lru.deref` models it (see
`without_useNode_a_held_node_is_evicted`). There are two such returns (cached, fetched). -/
theorem deref_marks_node_used :
    Generated.MkvsCacheFacts.derefUseNodeDominatesNodeReturns = true ∧
    Generated.MkvsCacheFacts.derefNodeReturns = 2 := by decide

/-- `useNode` = `MoveToFront`; victims come from `Back()`; insertion is `InsertAfter(marked)` or
`PushFront`; `markPosition` remembers `Front()`. -/
theorem policy_facts :
    Generated.MkvsCacheFacts.useNodeMovesToFront = true ∧
    Generated.MkvsCacheFacts.evictInternalTakesBack = true ∧
    Generated.MkvsCacheFacts.commitInsertsAfterMarkOrFront = true ∧
    Generated.MkvsCacheFacts.markTakesFront = true := by decide

/-- `useNode` (cache.go:133): a node on a list moves to the front of the list of its kind — `Lru.use`. -/
def expectedUseNodeStmts : List String := [
  "if ptr.LRU == nil {",
  "return",
  "}",
  "switch ptr.Node.(type) {",
  "case *node.InternalNode:",
  "c.lruInternal.MoveToFront(ptr.LRU)",
  "case *node.LeafNode:",
  "c.lruLeaf.MoveToFront(ptr.LRU)",
  "}"]

theorem useNode_as_modelled : Generated.MkvsCacheFacts.useNodeStmts = expectedUseNodeStmts := by decide

/-- `markPosition` (cache.go:151): the front elements are remembered — `Lru.mark`. -/
def expectedMarkPositionStmts : List String := [
  "c.lruInternalPos = c.lruInternal.Front()",
  "c.lruLeafPos = c.lruLeaf.Front()"]

theorem markPosition_as_modelled : Generated.MkvsCacheFacts.markPositionStmts = expectedMarkPositionStmts := by decide

/-- `tryCommitNode` (cache.go:156): a node already on a list is used; otherwise room is made with `tryEvictInternal(1)` when `internalNodeCount+1 > nodeCapacity > 0` and the node is inserted after the marked position, or at the front if none is marked — `Lru.load`. -/
def expectedTryCommitNodeStmts : List String := [
  "if !ptr.IsClean() {",
  "panic(\"mkvs: commitNode called on dirty node\")",
  "}",
  "if ptr == nil || ptr.Node == nil {",
  "return nil",
  "}",
  "if ptr.LRU != nil {",
  "c.useNode(ptr)",
  "return nil",
  "}",
  "switch n := ptr.Node.(type) {",
  "case *node.InternalNode:",
  "if c.nodeCapacity > 0 && c.internalNodeCount+1 > c.nodeCapacity {",
  "if err := c.tryEvictInternal(1, lockedPtr); err != nil {",
  "return err",
  "}",
  "}",
  "if c.lruInternalPos != nil {",
  "ptr.LRU = c.lruInternal.InsertAfter(ptr, c.lruInternalPos)",
  "}",
  "else {",
  "ptr.LRU = c.lruInternal.PushFront(ptr)",
  "}",
  "c.internalNodeCount++",
  "case *node.LeafNode:",
  "valueSize := n.Size()",
  "if c.valueCapacity > 0 && c.valueSize+valueSize > c.valueCapacity {",
  "if err := c.tryEvictLeaf(valueSize, lockedPtr); err != nil {",
  "return err",
  "}",
  "}",
  "if c.lruLeafPos != nil {",
  "ptr.LRU = c.lruLeaf.InsertAfter(ptr, c.lruLeafPos)",
  "}",
  "else {",
  "ptr.LRU = c.lruLeaf.PushFront(ptr)",
  "}",
  "c.valueSize += valueSize",
  "}",
  "return nil"]

theorem tryCommitNode_as_modelled : Generated.MkvsCacheFacts.tryCommitNodeStmts = expectedTryCommitNodeStmts := by decide

/-- `rollbackNode` (cache.go:209): a node that becomes dirty leaves its list (and the marked position is forgotten if it was the node): dirty nodes are never victims. -/
def expectedRollbackNodeStmts : List String := [
  "if ptr.LRU == nil {",
  "return",
  "}",
  "switch n := ptr.Node.(type) {",
  "case *node.InternalNode:",
  "if c.lruInternalPos == ptr.LRU {",
  "c.lruInternalPos = nil",
  "}",
  "c.lruInternal.Remove(ptr.LRU)",
  "c.internalNodeCount--",
  "case *node.LeafNode:",
  "if c.lruLeafPos == ptr.LRU {",
  "c.lruLeafPos = nil",
  "}",
  "c.lruLeaf.Remove(ptr.LRU)",
  "c.valueSize -= n.Size()",
  "}",
  "ptr.LRU = nil"]

theorem rollbackNode_as_modelled : Generated.MkvsCacheFacts.rollbackNodeStmts = expectedRollbackNodeStmts := by decide

/-- `tryRemoveNode` (cache.go:233): the victim's cached embedded leaf and subtrees are removed first, then the victim; the pointers to the children stay — `Lru.removeSubtree`. -/
def expectedTryRemoveNodeStmts : List String := [
  "if lockedPtr != nil && lockedPtr == ptr {",
  "return errRemoveLocked",
  "}",
  "if ptr.LRU == nil {",
  "return nil",
  "}",
  "switch n := ptr.Node.(type) {",
  "case *node.InternalNode:",
  "if n.LeafNode != nil && n.LeafNode.Node != nil {",
  "if err := c.tryRemoveNode(n.LeafNode, lockedPtr); err != nil {",
  "return err",
  "}",
  "}",
  "if n.Left != nil && n.Left.Node != nil {",
  "if err := c.tryRemoveNode(n.Left, lockedPtr); err != nil {",
  "return err",
  "}",
  "}",
  "if n.Right != nil && n.Right.Node != nil {",
  "if err := c.tryRemoveNode(n.Right, lockedPtr); err != nil {",
  "return err",
  "}",
  "}",
  "if c.lruInternalPos == ptr.LRU {",
  "c.lruInternalPos = nil",
  "}",
  "c.lruInternal.Remove(ptr.LRU)",
  "c.internalNodeCount--",
  "case *node.LeafNode:",
  "if c.lruLeafPos == ptr.LRU {",
  "c.lruLeafPos = nil",
  "}",
  "c.lruLeaf.Remove(ptr.LRU)",
  "c.valueSize -= n.Size()",
  "}",
  "ptr.Node = nil",
  "ptr.LRU = nil",
  "return nil"]

theorem tryRemoveNode_as_modelled : Generated.MkvsCacheFacts.tryRemoveNodeStmts = expectedTryRemoveNodeStmts := by decide

/-- `tryEvictInternal` (cache.go:305): while over capacity the victim is the BACK of the list — `Lru.evict`. -/
def expectedTryEvictInternalStmts : List String := [
  "for c.lruInternal.Len() > 0 && c.internalNodeCount+targetCapacity > c.nodeCapacity {",
  "elem := c.lruInternal.Back()",
  "n := elem.Value.(*node.Pointer)",
  "if !n.Clean {",
  "panic(fmt.Errorf(\"mkvs: tried to evict dirty node %v\", n))",
  "}",
  "if err := c.tryRemoveNode(n, lockedPtr); err != nil {",
  "return err",
  "}",
  "}",
  "return nil"]

theorem tryEvictInternal_as_modelled : Generated.MkvsCacheFacts.tryEvictInternalStmts = expectedTryEvictInternalStmts := by decide

/-- `tryEvictLeaf` (cache.go:290): the same for leaves, by bytes. -/
def expectedTryEvictLeafStmts : List String := [
  "for c.lruLeaf.Len() > 0 && c.valueSize+targetCapacity > c.valueCapacity {",
  "elem := c.lruLeaf.Back()",
  "n := elem.Value.(*node.Pointer)",
  "if !n.Clean {",
  "panic(fmt.Errorf(\"mkvs: tried to evict dirty node %v\", n))",
  "}",
  "if err := c.tryRemoveNode(n, lockedPtr); err != nil {",
  "return err",
  "}",
  "}",
  "return nil"]

theorem tryEvictLeaf_as_modelled : Generated.MkvsCacheFacts.tryEvictLeafStmts = expectedTryEvictLeafStmts := by decide

/-- `derefNodePtr` (cache.go:327): `useNode(ptr)` first; a node in memory is returned (a clean node whose embedded leaf was evicted is removed and fetched again, a dirty one gets its leaf dereferenced); otherwise the node is fetched and committed to the cache — `Lru.deref`. -/
def expectedDerefNodePtrStmts : List String := [
  "if ptr == nil {",
  "return nil, nil",
  "}",
  "c.useNode(ptr)",
  "if ptr.Node != nil {",
  "var refetch bool",
  "switch n := ptr.Node.(type) {",
  "case *node.InternalNode:",
  "if n.LeafNode != nil && n.LeafNode.Node == nil {",
  "if ptr.Clean {",
  "c.removeNode(ptr)",
  "refetch = true",
  "}",
  "else {",
  "if _, err := c.derefNodePtr(ctx, n.LeafNode, fetcher); err != nil {",
  "return nil, err",
  "}",
  "}",
  "}",
  "}",
  "if !refetch {",
  "return ptr.Node, nil",
  "}",
  "}",
  "if !ptr.Clean || ptr.Hash.IsEmpty() {",
  "return nil, nil",
  "}",
  "n, err := c.db.GetNode(c.syncRoot, ptr)",
  "switch err {",
  "case nil:",
  "ptr.Node = n",
  "c.commitNode(ptr)",
  "case db.ErrNodeNotFound:",
  "if c.rs == syncer.NopReadSyncer {",
  "return nil, err",
  "}",
  "if err = c.remoteSync(ctx, ptr, fetcher); err != nil {",
  "return nil, err",
  "}",
  "if ptr.Node == nil {",
  "return nil, fmt.Errorf(\"mkvs: received result did not contain node (or cache too small)\")",
  "}",
  "default:",
  "return nil, err",
  "}",
  "return ptr.Node, nil"]

theorem derefNodePtr_as_modelled : Generated.MkvsCacheFacts.derefNodePtrStmts = expectedDerefNodePtrStmts := by decide

/-- Where the operations dereference: once per visited pointer in `doGet`, `doInsert`, `doNext`; `doRemove` also dereferences both children, once before the recursion (since /repo dd71025: a failed fetch must not leave a half-applied removal) and once on the way back — the same pointers, so the DISTINCT dereferenced nodes are still the path and the siblings counted by `Trie.removeDerefs`, which is what `cache_transparent` and `CacheNeed` are stated over. -/
def expectedDerefCallSites : List String := [
  "cache.go:derefNodePtr:1",
  "insert.go:doInsert:1",
  "iterator.go:doNext:1",
  "lookup.go:doGet:1",
  "remove.go:doRemove:5"]

theorem deref_call_sites_as_modelled : Generated.MkvsCacheFacts.derefCallSites = expectedDerefCallSites := by decide

end OasisProofs.C03Cache
