import OasisProofs.Helpers.CodecNode
import OasisProofs.Helpers.CodecQuote
import Generated.CborFacts
/-
C16 — untrusted bytes are decoded or rejected, never crash the node  (PARTIAL).

What is proved here (kernel-checked, for ALL byte strings, no bounds): the hand-written MKVS
decoders as modelled byte-exactly in OasisModel/Codec/{Node,Proof}.lean
  * are total functions (by construction: Lean accepts only total terminating definitions; the
    recursive verifier is accepted only thanks to its depth guard);
  * never consume more than the input (`*_consumed_le`, via the `*_ok_iff`/`*_canonical` theorems);
  * never pass a length to `make` that exceeds the input: the SUM of all allocation lengths of one
    decode call is bounded by the input length on every path, also failing ones (`*_alloc_le`);
  * accept exactly the serializations of well-formed values (`*_encode` round trips) and nothing
    else (`*_canonical`: the consumed prefix is the re-marshalled value, so decoding is injective);
  * the proof verifier's recursion performs at most `entries + 1` calls, never nests deeper than
    `maxProofDepth + 1`, consumes each entry at most once and allocates at most the total entry
    size (`verify_*`).
The model is tied to the Go code by the codecdrv correspondence (every run).
What is NOT proved (exploration only, see checks/C16.py): fxamacker/cbor, x509/JSON/PEM, snappy,
and every decoder built on them (transactions, commitments, descriptors, quotes, host protocol).
-/
set_option linter.unusedSimpArgs false
namespace OasisProofs.C16
open OasisModel.Codec OasisProofs.CodecBytes OasisProofs.CodecLemmas OasisProofs.CodecQuote

/-! ## 1. No read past the input, canonical acceptance

For every decoder: whatever is accepted was read from a prefix of the input (`n ≤ length`),
that prefix is *exactly* the serialization of the decoded value (`encode x = d.take n`, so two
different byte strings never decode to the same value and nothing outside the consumed prefix
influences the value), and the value is well formed. -/

theorem decodeDepth_consumed_canonical (d : Bytes) (v n : Nat) (h : decodeDepth d = .ok (v, n)) :
    n ≤ d.length ∧ encodeDepth v = d.take n ∧ v < 65536 :=
  decodeDepth_canonical d v n h

theorem decodeKey_consumed_canonical (d k : Bytes) (n : Nat) (h : decodeKey d = .ok (k, n)) :
    n ≤ d.length ∧ encodeKey k = d.take n ∧ k.length < 65536 :=
  decodeKey_canonical d k n h

theorem decodeLeaf_consumed_canonical (d : Bytes) (l : Leaf) (n : Nat) (h : decodeLeaf d = .ok (l, n)) :
    n ≤ d.length ∧ encodeLeaf l = d.take n ∧ l.WF := by
  have ⟨hc, hw⟩ := decodeLeaf_canonical d l n h
  obtain ⟨_, hlen, rfl, _⟩ := (decodeLeaf_ok_iff d l n).1 h
  exact ⟨hlen, hc, hw⟩

/-- `encodeInternal n` is the full serialization iff child hashes were read, else the compact one. -/
theorem decodeInternal_consumed_canonical (d : Bytes) (n : Internal) (sz : Nat)
    (h : decodeInternal d = .ok (n, sz)) :
    sz ≤ d.length ∧ encodeInternal n = d.take sz ∧ n.WF :=
  decodeInternal_canonical d n sz h

theorem unmarshalNode_consumed_canonical (d : Bytes) (x : Node) (n : Nat)
    (h : unmarshalNode d = .ok (x, n)) :
    n ≤ d.length ∧ encodeNode x = d.take n ∧ x.WF :=
  unmarshalNode_canonical d x n h

theorem decodeEntry_consumed (b : Bytes) (x : Entry) (n : Nat)
    (h : decodeEntry (some b) = .ok (x, n)) : n ≤ b.length :=
  decodeEntry_consumed_le b x n h

/-! ## 2. Exact acceptance conditions (what is rejected, and with which error) -/

theorem decodeKey_accepts_iff (d k : Bytes) (n : Nat) :
    decodeKey d = .ok (k, n) ↔
      2 + le16At d 0 ≤ d.length ∧ n = 2 + le16At d 0 ∧ k = slice d 2 (le16At d 0) :=
  decodeKey_ok_iff d k n

theorem decodeLeaf_accepts_iff (d : Bytes) (l : Leaf) (n : Nat) :
    decodeLeaf d = .ok (l, n) ↔
      byteAt d 0 = 0 ∧ 7 + le16At d 1 + le32At d (3 + le16At d 1) ≤ d.length ∧
      n = 7 + le16At d 1 + le32At d (3 + le16At d 1) ∧
      l = { key := slice d 3 (le16At d 1), value := slice d (7 + le16At d 1) (le32At d (3 + le16At d 1)) } :=
  decodeLeaf_ok_iff d l n

/-- `Key.SizedUnmarshalBinary` on every input: one of two guards fails, or the key is returned. -/
theorem decodeKey_total_spec (d : Bytes) :
    decodeKeyA d =
      if d.length < 2 ∨ d.length < 2 + le16At d 0 then Dec.fail [] .malformedKey
      else ⟨[le16At d 0], .ok (slice d 2 (le16At d 0), 2 + le16At d 0)⟩ :=
  decodeKeyA_eq d

/-- `LeafNode.SizedUnmarshalBinary` on every input: the guards in program order, each with the
allocations made before it fails. -/
theorem decodeLeaf_total_spec (d : Bytes) :
    decodeLeafA d =
      let kl := le16At d 1
      let vl := le32At d (3 + kl)
      if d.length < 7 ∨ byteAt d 0 ≠ 0 then Dec.fail [] .malformedNode
      else if d.length < 3 + kl then Dec.fail [] .malformedKey
      else if 7 + kl > d.length then Dec.fail [kl] .malformedNode
      else if 7 + kl + vl > d.length then Dec.fail [kl] .malformedNode
      else ⟨[kl, vl], .ok ({ key := slice d 3 kl, value := slice d (7 + kl) vl }, 7 + kl + vl)⟩ :=
  decodeLeafA_eq d

/-! ## 3. Allocation bound: huge declared sizes are rejected before anything is allocated

`allocs` lists every length passed to `make` on the path taken, including paths that fail later.
Their SUM never exceeds the input length. -/

theorem decodeKey_alloc_bounded (d : Bytes) : (decodeKeyA d).allocs.sum ≤ d.length :=
  decodeKey_alloc_le d

theorem decodeLeaf_alloc_bounded (d : Bytes) : (decodeLeafA d).allocs.sum ≤ d.length :=
  decodeLeaf_alloc_le d

theorem decodeInternal_alloc_bounded (d : Bytes) : (decodeInternalA d).allocs.sum ≤ d.length :=
  decodeInternal_alloc_le d

theorem unmarshalNode_alloc_bounded (d : Bytes) : (unmarshalNodeA d).allocs.sum ≤ d.length :=
  unmarshalNode_alloc_le d

theorem decodeEntry_alloc_bounded (e : Option Bytes) :
    (decodeEntryA e).allocs.sum ≤ (e.getD []).length :=
  decodeEntry_alloc_le e

/-! ## 4. Round trips: every well-formed value is accepted and read back unchanged -/

theorem decodeDepth_roundtrip (bits : Nat) (t : Bytes) (h : bits < 65536) :
    decodeDepth (encodeDepth bits ++ t) = .ok (bits, 2) :=
  decodeDepth_encode bits t h

/-- The hypothesis is forced: `Key.MarshalBinary` writes `uint16(len(k))`, so a key of 65536 bytes
or more is serialized with a truncated length (the model reproduces this and codecdrv checks it on
keys of 65534..65538 bytes); such a leaf committed to a NodeDB can never be decoded again.  Since
/repo cd851d6 the tree itself enforces the bound (`mkvs.Tree.Insert`/`RemoveExisting` return
`ErrKeyTooLarge` above 8191 bytes, the largest key whose bit length fits `node.Depth`), which is
probed on every run by the `writelog-keys` / `tree-write-keys` targets of codecxdrv. -/
theorem decodeKey_roundtrip (k t : Bytes) (hk : k.length < 65536) :
    decodeKey (encodeKey k ++ t) = .ok (k, 2 + k.length) :=
  decodeKey_encode k t hk

theorem decodeLeaf_roundtrip (l : Leaf) (t : Bytes) (hl : l.WF) :
    decodeLeaf (encodeLeaf l ++ t) = .ok (l, 7 + l.key.length + l.value.length) :=
  decodeLeaf_encode l t hl

/-- Full serialization (`InternalNode.MarshalBinary`), any trailing bytes. -/
theorem decodeInternal_roundtrip_full (n : Internal) (hn : n.WF) (c : Option Bytes × Option Bytes)
    (hc : n.children = some c) (t : Bytes) :
    decodeInternal (encodeInternalFull n ++ t) = .ok (n, (encodeInternalFull n).length) :=
  decodeInternal_encodeFull n hn c hc t

/-- Compact serialization of proof version 0 (leaf embedded), fewer than 64 trailing bytes. -/
theorem decodeInternal_roundtrip_compactV0 (n : Internal) (hn : n.WF) (t : Bytes) (ht : t.length < 64) :
    decodeInternal (encodeInternalCompactV0 n ++ t) =
      .ok ({ n with children := none }, (encodeInternalCompactV0 n).length) :=
  decodeInternal_encodeCompactV0 n hn t ht

/-- Compact serialization of proof version 1 (leaf never included). -/
theorem decodeInternal_roundtrip_compactV1 (n : Internal) (hn : n.WF) (t : Bytes) (ht : t.length < 64) :
    decodeInternal (encodeInternalCompactV1 n ++ t) =
      .ok ({ n with leaf := none, children := none }, (encodeInternalCompactV1 n).length) :=
  decodeInternal_encodeCompactV1 n hn t ht

/-- The compact format is not self-delimiting: followed by 64 or more bytes it is read as a full
serialization, the trailing bytes becoming child hashes.  (Documented behaviour of the Go code,
reproduced by the correspondence; callers pass exactly one serialization.) -/
theorem decodeInternal_compact_with_long_tail (n : Internal) (hn : n.WF) (t : Bytes) (ht : t.length ≥ 64) :
    decodeInternal (encodeInternalCompactV0 n ++ t) =
      .ok ({ n with children := some (optHash (slice t 0 32), optHash (slice t 32 32)) },
           (encodeInternalCompactV0 n).length + 64) :=
  decodeInternal_compact_long_tail n hn t ht

theorem unmarshalNode_roundtrip (x : Node) (hx : x.WF) (t : Bytes)
    (ht : ∀ n, x = .internal n → n.children = none → t.length < 64) :
    unmarshalNode (encodeNode x ++ t) = .ok (x, (encodeNode x).length) :=
  unmarshalNode_encode x hx t ht

/-- Every entry a proof builder emits (version 0 or 1) is read back by the verifier's entry decoder. -/
theorem decodeEntry_roundtrip (v : Nat) (x : Entry) (hx : entryWF x) :
    decodeEntry (encodeEntry v x) = .ok (entryNorm v x, ((encodeEntry v x).getD []).length) :=
  decodeEntry_encode v x hx

/-! ## 5. The proof verifier's recursion is bounded

`verify` is `ProofVerifier.verifyProof`'s recursion skeleton.  Its definition is accepted by Lean
only with the termination measure `maxProofDepth + 1 - depth`, i.e. because of the depth guard.
The counters in `VStats` are threaded through every invocation. -/

/-- Work: at most one invocation per entry not yet consumed, plus the one that fails. -/
theorem verify_calls_le (v : Nat) (es : List (Option Bytes)) (idx depth : Nat) (s : VStats)
    (hd : depth ≤ maxProofDepth + 1) :
    (verify v es idx depth s).1.calls ≤ s.calls + (es.length - idx) + 1 := by
  have h := verify_inv v es _ idx depth s rfl hd
  obtain ⟨_, hm⟩ := h
  cases hr : (verify v es idx depth s).2 with
  | error e => rw [hr] at hm; exact hm.1
  | ok p => rw [hr] at hm; obtain ⟨_, h2, h3, _⟩ := hm; omega

/-- Stack: no invocation ever runs at a depth beyond `maxProofDepth + 1`. -/
theorem verify_depth_le (v : Nat) (es : List (Option Bytes)) (idx depth : Nat) (s : VStats)
    (hd : depth ≤ maxProofDepth + 1) :
    (verify v es idx depth s).1.maxDepth ≤ max s.maxDepth (maxProofDepth + 1) :=
  (verify_inv v es _ idx depth s rfl hd).1

/-- Memory: the decoders' allocations are bounded by the bytes of the entries from `idx` on. -/
theorem verify_alloc_le (v : Nat) (es : List (Option Bytes)) (idx depth : Nat) (s : VStats)
    (hd : depth ≤ maxProofDepth + 1) :
    (verify v es idx depth s).1.allocBytes ≤ s.allocBytes + bytesFrom es idx := by
  have h := verify_inv v es _ idx depth s rfl hd
  obtain ⟨_, hm⟩ := h
  cases hr : (verify v es idx depth s).2 with
  | error e => rw [hr] at hm; exact hm.2
  | ok p => rw [hr] at hm; obtain ⟨_, _, _, h4⟩ := hm; omega

/-- Progress: a successful invocation consumes at least its own entry, stays inside the entry
list, and made exactly one call per consumed entry. -/
theorem verify_progress (v : Nat) (es : List (Option Bytes)) (idx depth : Nat) (s : VStats)
    (hd : depth ≤ maxProofDepth + 1) (idx' : Nat) (t : PTree)
    (h : (verify v es idx depth s).2 = .ok (idx', t)) :
    idx < idx' ∧ idx' ≤ es.length ∧ (verify v es idx depth s).1.calls = s.calls + (idx' - idx) := by
  have hi := verify_inv v es _ idx depth s rfl hd
  obtain ⟨_, hm⟩ := hi
  rw [h] at hm
  exact ⟨hm.1, hm.2.1, hm.2.2.1⟩

/-- Top level (`verifyProofOpts` without the hash comparisons), for every version and entry list:
at most `entries + 1` invocations, nesting at most `maxProofDepth + 1`, allocations at most the
total size of the entries. -/
theorem verifyProof_bounded (v : Nat) (es : List (Option Bytes)) :
    (verifyProof v es).1.calls ≤ es.length + 1 ∧
    (verifyProof v es).1.maxDepth ≤ maxProofDepth + 1 ∧
    (verifyProof v es).1.allocBytes ≤ bytesFrom es 0 := by
  unfold verifyProof
  split
  · exact ⟨by simp, by simp, by simp⟩
  · split
    · exact ⟨by simp, by simp, by simp⟩
    · have h1 := verify_calls_le v es 0 0 {} (by omega)
      have h2 := verify_depth_le v es 0 0 {} (by omega)
      have h3 := verify_alloc_le v es 0 0 {} (by omega)
      have e1 : ({} : VStats).calls = 0 := rfl
      have e2 : ({} : VStats).maxDepth = 0 := rfl
      have e3 : ({} : VStats).allocBytes = 0 := rfl
      rw [e1] at h1; rw [e2] at h2; rw [e3] at h3
      generalize verify v es 0 0 {} = r at h1 h2 h3
      obtain ⟨s, res⟩ := r
      simp only at h1 h2 h3
      have h2' : s.maxDepth ≤ maxProofDepth + 1 := by omega
      cases res with
      | error e => simp only; exact ⟨by omega, h2', by omega⟩
      | ok p =>
        obtain ⟨idx, t⟩ := p
        by_cases hne : idx ≠ es.length
        · simp only; rw [if_pos hne]; exact ⟨by show s.calls ≤ _; omega, h2', by show s.allocBytes ≤ _; omega⟩
        · simp only; rw [if_neg hne]; exact ⟨by show s.calls ≤ _; omega, h2', by show s.allocBytes ≤ _; omega⟩

/-- An accepted proof used every entry exactly once. -/
theorem verifyProof_ok_uses_all_entries (v : Nat) (es : List (Option Bytes)) (t : PTree)
    (h : (verifyProof v es).2 = .ok t) : (verifyProof v es).1.calls = es.length := by
  unfold verifyProof at h ⊢
  by_cases hv : v > 1
  · rw [if_pos hv] at h; simp at h
  · rw [if_neg hv] at h ⊢
    by_cases he : es.length = 0
    · rw [if_pos he] at h; simp at h
    · rw [if_neg he] at h ⊢
      have hp := verify_progress v es 0 0 {} (by omega)
      have e1 : ({} : VStats).calls = 0 := rfl
      generalize verify v es 0 0 {} = r at h hp
      obtain ⟨s, res⟩ := r
      cases res with
      | error e => simp at h
      | ok p =>
        obtain ⟨idx, tt⟩ := p
        have hp' := hp idx tt rfl
        simp only at h hp' ⊢
        by_cases hne : idx ≠ es.length
        · rw [if_pos hne] at h; simp at h
        · rw [if_neg hne]
          show s.calls = es.length
          omega

/-! ## Non-vacuity: concrete accepted and rejected inputs -/

example : decodeKey [2, 0, 0xaa, 0xbb, 0xff] = .ok ([0xaa, 0xbb], 4) := by rfl
example : decodeKey [0xff, 0xff, 1, 2, 3] = .error .malformedKey := by rfl
example : (decodeKeyA [0xff, 0xff, 1, 2, 3]).allocs = [] := by rfl
example : decodeLeaf [0, 1, 0, 0xaa, 2, 0, 0, 0, 0xbb, 0xcc] = .ok ({ key := [0xaa], value := [0xbb, 0xcc] }, 10) := by rfl
-- a 4 GiB value length in a 10-byte input is rejected with only the key allocated
example : decodeLeafA [0, 1, 0, 0xaa, 0xff, 0xff, 0xff, 0xff, 0xbb, 0xcc] = Dec.fail [1] .malformedNode := by rfl
example : Leaf.WF { key := [0xaa], value := [0xbb, 0xcc] } := ⟨by decide, by decide⟩
example : decodeInternal [1, 9, 0, 0x80, 0x80, 2] =
    .ok ({ labelBits := 9, label := [0x80, 0x80], leaf := none, children := none }, 6) := by rfl
example : Internal.WF { labelBits := 9, label := [0x80, 0x80], leaf := none, children := none } := by
  refine ⟨by decide, by decide, by simp, by simp⟩
example : decodeEntry (some [1, 0, 1, 0, 0xaa, 0, 0, 0, 0]) = .ok (.full (.leaf { key := [0xaa], value := [] }), 9) := by rfl
example : decodeEntry (some []) = .error .malformedProof := by rfl
example : decodeEntry (some [3]) = .error .unexpectedEntry := by rfl
example : entryWF (.full (.leaf { key := [0xaa], value := [] })) := by
  exact ⟨⟨by decide, by decide⟩, by simp⟩

-- the verifier: a nil proof, and an internal node (version 0) with two nil children: 3 calls, all entries used
example : (verifyProof 0 [none]).2 = .ok .nil := by
  simp [verifyProof, verify, decodeEntryA, VStats.enter, maxProofDepth]
example : (verifyProof 0 [some [1, 1, 9, 0, 0x80, 0x80, 2], none, none]).1.calls = 3 := by
  simp [verifyProof, verify, decodeEntryA, VStats.enter, maxProofDepth, unmarshalNodeA, byteAt, decodeInternalA,
    le16At, toBytes, decodeLeafSlotA, hashSize, PTree.ofLeafSlot]
-- a dangling internal node (children missing) is rejected, after 2 calls
example : (verifyProof 0 [some [1, 1, 9, 0, 0x80, 0x80, 2]]).2 = .error .malformedProof := by
  simp [verifyProof, verify, decodeEntryA, VStats.enter, maxProofDepth, unmarshalNodeA, byteAt, decodeInternalA,
    le16At, toBytes, decodeLeafSlotA, hashSize, PTree.ofLeafSlot]

/-! ## 7. PCS attestation quote framing (`Quote.UnmarshalBinaryWithTrailing` and the length-prefixed
nesting below it: header, report body, signature data, [v4 envelope,] QE report certification data:
auth data, certification data type / size)

`parseQuoteI` (OasisModel/Codec/Quote.lean) logs every slice expression `data[a:b]` / fixed-width
read the Go decoder evaluates, on every path. For EVERY input and therefore every declared size
(all 2^16 / 2^32 values of every length field, at every nesting level): each logged expression is
in range of the (sub)slice it is evaluated on, the only allocation is bounded by the input, an
accepted quote was read from a prefix of the input, and every size it declares fits into the input
(so sizes ≥ 2^31, and the sizes ≥ 2^32 - offset on which 32-bit arithmetic would wrap, are
rejected). Tied to the Go code by the codecdrv correspondence (`quote` operations: verdict class,
consumed length, declared sizes). PEM / x509 decoding of the certificate chain and everything in
`Quote.Verify` is outside this model (exploration only). -/

/-- No slice expression evaluated while decoding a quote is out of range (in Go: no run-time panic
`slice bounds out of range` / `index out of range`), whatever sizes the input declares. -/
theorem quote_no_out_of_range_slice (d : Bytes) (allowTrailing : Bool) :
    ∀ r ∈ (parseQuoteI d allowTrailing).reads, r.a ≤ r.b ∧ r.b ≤ r.lim ∧ r.lim ≤ d.length :=
  (parseQuoteI_bounded d allowTrailing).reads

/-- The decoder's only `make` (the QE authentication data) never exceeds the input length, also on
paths that fail later. -/
theorem quote_alloc_bounded (d : Bytes) (allowTrailing : Bool) :
    (parseQuoteI d allowTrailing).allocs.sum ≤ d.length :=
  (parseQuoteI_bounded d allowTrailing).allocs

/-- An accepted quote was read from a prefix of the input, all of it unless trailing data is allowed. -/
theorem quote_consumed_le (d : Bytes) (allowTrailing : Bool) (f : QFrame)
    (h : parseQuoteFrame d allowTrailing = .ok f) :
    f.consumed ≤ d.length ∧ f.consumed = 48 + f.bodyLen + 4 + f.sigLen ∧
    (f.bodyLen = 384 ∨ f.bodyLen = 584) ∧ (allowTrailing = false → f.consumed = d.length) := by
  obtain ⟨_, _, _, _, hb, _, hc, hl, ht, _⟩ := parseQuoteI_ok d allowTrailing f h
  exact ⟨hl, hc, hb, ht⟩

/-- Every size an accepted quote declares (signature data length, QE authentication data size,
certification data size: the frame's fields ARE the declared little-endian fields) fits into the
input, nested inside the enclosing length. -/
theorem quote_declared_sizes_bounded (d : Bytes) (allowTrailing : Bool) (f : QFrame)
    (h : parseQuoteFrame d allowTrailing = .ok f) :
    f.sigLen = le32At d (48 + f.bodyLen) ∧ f.cdSize = le32At d (f.cdOff - 4) ∧ f.cdType = le16At d (f.cdOff - 6) ∧
    48 + f.bodyLen + 4 + f.sigLen ≤ d.length ∧
    48 + f.bodyLen + 4 + 584 + f.authSize ≤ f.cdOff ∧
    f.cdOff + f.cdSize ≤ 48 + f.bodyLen + 4 + f.sigLen := by
  obtain ⟨_, _, _, _, _, hs, hc, hl, _, _, ha, hcd, _⟩ := parseQuoteI_ok d allowTrailing f h
  obtain ⟨_, h1, h2⟩ := parseQuoteI_fields d allowTrailing f h
  exact ⟨hs, h1, h2, by omega, ha, by omega⟩

/-- Huge declared sizes are rejected: a quote shorter than 2^31 bytes that declares a signature
data length or a certification data size of 2^31 or more (up to 2^32-1, including every value on
which `uint32(offset)+size` would wrap) is never accepted. -/
theorem quote_huge_declared_size_rejected (d : Bytes) (allowTrailing : Bool) (f : QFrame)
    (hlen : d.length < 2 ^ 31) (h : parseQuoteFrame d allowTrailing = .ok f) :
    le32At d (48 + f.bodyLen) < 2 ^ 31 ∧ le32At d (f.cdOff - 4) < 2 ^ 31 := by
  obtain ⟨h1, h2, _, h4, h5, h6⟩ := quote_declared_sizes_bounded d allowTrailing f h
  rw [← h1, ← h2]
  omega

/-- The certification data of an accepted quote is a PPID block of exactly 404 bytes (types 1-3) or
a PEM chain (type 5); every other type is rejected. -/
theorem quote_certification_data_kinds (d : Bytes) (allowTrailing : Bool) (f : QFrame)
    (h : parseQuoteFrame d allowTrailing = .ok f) :
    (f.isChain = true ∧ f.cdType = 5) ∨ (f.isChain = false ∧ f.cdSize = 404 ∧ 1 ≤ f.cdType ∧ f.cdType ≤ 3) := by
  obtain ⟨_, _, _, _, _, _, _, _, _, _, _, _, hc, hp⟩ := parseQuoteI_ok d allowTrailing f h
  cases hch : f.isChain
  · exact Or.inr ⟨rfl, hp hch⟩
  · exact Or.inl ⟨rfl, hc.1 hch⟩

-- Non-vacuity: a synthetic version 3 quote (SGX body, PPID certification data) is accepted, the same
-- quote declaring a certification data size of 2^32-16 or a signature length of 2^31 is rejected.
def sampleQuote (sigLen cdSize : Bytes) : Bytes :=
  [3, 0, 2, 0, 0, 0, 0, 0, 0, 0, 0, 0] ++ qeVendorIntel ++ List.replicate 20 0 ++ List.replicate 384 0 ++ sigLen ++
  List.replicate (64 + 64 + 384 + 64) 0 ++ [0, 0, 1, 0] ++ cdSize ++ List.replicate 404 0

set_option maxRecDepth 100000 in
example : parseQuoteFrame (sampleQuote [0xdc, 3, 0, 0] [0x94, 1, 0, 0]) false =
    .ok { version := 3, teeType := 0, bodyLen := 384, sigLen := 988, authSize := 0, cdType := 1, cdSize := 404,
          cdOff := 1020, isChain := false, consumed := 1424 } := by rfl
set_option maxRecDepth 100000 in
example : parseQuoteFrame (sampleQuote [0xdc, 3, 0, 0] [0xf0, 0xff, 0xff, 0xff]) false = .error .qeCdSize := by rfl
set_option maxRecDepth 100000 in
example : parseQuoteFrame (sampleQuote [0, 0, 0, 0x80] [0x94, 1, 0, 0]) true = .error .trailing := by rfl
set_option maxRecDepth 100000 in
example : (sampleQuote [0xdc, 3, 0, 0] [0x94, 1, 0, 0]).length = 1424 := by rfl

/-! ## Regenerated facts (tools/gen cborfacts, rewritten from /repo on every run)

These do not prove anything about the third-party decoders; they pin the configuration the
exploration part relies on, so that loosening an option, dropping a size check or changing a
codec constant breaks the build. -/

section Facts
open Generated.CborFacts

/-- The options `cbor.Unmarshal`/`cbor.NewDecoder` use for untrusted input: duplicate map keys
rejected, indefinite lengths forbidden, tags forbidden, unknown fields rejected, arrays and maps
bounded by 10^7 elements, nesting left at the library default. -/
def expectedUntrusted : DecOpts :=
  { dupMapKey := "cbor.DupMapKeyEnforcedAPF", indefLength := "cbor.IndefLengthForbidden",
    tagsMd := "cbor.TagsForbidden", extraReturnErrors := "cbor.ExtraDecErrorUnknownField",
    maxArrayElements := 10000000, maxMapPairs := 10000000, maxNestedLevels := 0, otherFields := [] }

/-- The options of the runtime-host protocol / gRPC decoders: the same without the unknown-field error. -/
def expectedRPC : DecOpts := { expectedUntrusted with extraReturnErrors := "" }

theorem cbor_untrusted_options_pinned : decOptions = expectedUntrusted := by decide

theorem cbor_rpc_options_pinned : decOptionsRPC = expectedRPC := by decide

/-- `Unmarshal` and `NewDecoder` decode with the strict mode, built from the strict options;
only the explicitly named `…Trusted`/`…RPC` entry points use another mode. -/
theorem cbor_entry_points_pinned :
    modeFrom = [("decMode", "decOptions"), ("decModeRPC", "decOptionsRPC"), ("decModeTrusted", "decOptionsTrusted")] ∧
    entryUses = [("Unmarshal", "decMode"), ("UnmarshalTrusted", "decModeTrusted"), ("UnmarshalRPC", "decModeRPC"),
                 ("NewDecoder", "decMode"), ("NewDecoderRPC", "decModeRPC")] := by decide

/-- Nesting is bounded by the library default (the options leave it unset). -/
theorem cbor_nesting_bound_pinned :
    decOptions.maxNestedLevels = 0 ∧ decOptionsRPC.maxNestedLevels = 0 ∧
    libVersion = "v2.4.0" ∧ libDefaultMaxNestedLevels = 32 := by decide

/-- Size limits are checked before decoding starts (consensus transactions, host-protocol frames). -/
theorem size_checks_precede_decoding_pinned :
    txSizeCheckBeforeDecode = true ∧ frameSizeCheckBeforeDecode = true ∧
    frameLimitReaderBeforeDecode = true ∧ maxMessageSize = 64 * 1024 * 1024 ∧
    frameDecoder = "NewDecoderRPC" := by decide

/-- The constants and guards of the Go verifier are the ones the model uses. -/
theorem codec_constants_pinned :
    Generated.CborFacts.maxProofDepth = OasisModel.Codec.maxProofDepth ∧
    proofEntryFull = 1 ∧ proofEntryHash = 2 ∧
    prefixLeafNode = 0 ∧ prefixInternalNode = 1 ∧ prefixNilNode = 2 ∧
    verifyGuards = ["ctx.Err() != nil", "idx >= len(proof.Entries)", "depth > maxProofDepth",
                    "entry == nil", "len(entry) == 0"] ∧
    verifyRecursiveCalls = 3 ∧ verifyDepthArgs = ["depth + 1"] := by decide

end Facts

end OasisProofs.C16
