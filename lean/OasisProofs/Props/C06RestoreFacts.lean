/-
C06 — regenerated statement pin of the multipart (checkpoint restore) write path of the badger backend
(go/storage/mkvs/db/badger/badger.go badgerBatch.PutNode, StartMultipartInsert), the code
OasisModel/NodeDB/BadgerRestore.lean transcribes: in multipart mode EVERY imported node is written at the
timestamp of the restored version (`return ba.bat.Set(nodeKey, data)` is the only exit after the marshalling
error); the visibility probe only decides whether the node is also recorded in the restore log.  That is what
makes a restored version self-contained, so that pruning older versions cannot take nodes away from it
(Props/C06Restore.lean restored_root_survives_pruning).

`tools/gen stmtfacts badgermultipart` flattens the functions into one line per simple statement on every run; the
lists are pinned here (`rfl`). A change of a statement, a condition or of the order of statements breaks the
pin until the new text has been read against the model.
-/
import Generated.StmtFactsBadgermultipart

namespace OasisProofs.C06RestoreFacts

/-- Position of the first line equal to `s`. -/
def pos (l : List String) (s : String) : Option Nat :=
  let i := l.findIdx (· == s)
  if i < l.length then some i else none

/-- The lines occur in this order (strictly increasing positions). -/
def inOrder (l : List String) : List String → Option Nat → Bool
  | [], _ => true
  | s :: rest, prev =>
    match pos l s, prev with
    | none, _ => false
    | some i, none => inOrder l rest (some i)
    | some i, some p => decide (p < i) && inOrder l rest (some i)

def expected_putNodeStmts : List String := [
  "data, err := ptr.Node.MarshalBinary()",
  "if err != nil {",
  "return err",
  "}",
  "h := ptr.Node.GetHash()",
  "ba.updatedNodes = append(ba.updatedNodes, updatedNode{Hash: h})",
  "nodeKey := nodeKeyFmt.Encode(&h)",
  "if ba.multipartNodes != nil {",
  "if _, err = ba.readTxn.Get(nodeKey); err != nil && errors.Is(err, badger.ErrKeyNotFound) {",
  "th := api.TypedHashFromParts(node.RootTypeInvalid, h)",
  "if err = ba.multipartNodes.Set(multipartRestoreNodeLogKeyFmt.Encode(&th), []byte{}); err != nil {",
  "return err",
  "}",
  "}",
  "}",
  "return ba.bat.Set(nodeKey, data)"]

theorem putNodeStmts_as_modelled : Generated.StmtFacts.Badgermultipart.putNodeStmts = expected_putNodeStmts := rfl

def expected_startMultipartInsertStmts : List String := [
  "d.metaUpdateLock.Lock()",
  "defer d.metaUpdateLock.Unlock()",
  "if version == multipartVersionNone {",
  "return api.ErrInvalidMultipartVersion",
  "}",
  "if d.multipartVersion != multipartVersionNone {",
  "if d.multipartVersion != version {",
  "return api.ErrMultipartInProgress",
  "}",
  "return nil",
  "}",
  "verifCrashPoint(\"badger.startmp.0-before-writes\")",
  "tx := d.db.NewTransactionAt(tsMetadata, true)",
  "defer tx.Discard()",
  "if err := d.meta.setMultipartVersion(tx, version); err != nil {",
  "return err",
  "}",
  "if err := tx.CommitAt(tsMetadata, nil); err != nil {",
  "return err",
  "}",
  "verifCrashPoint(\"badger.startmp.1-after-meta-commit\")",
  "d.multipartVersion = version",
  "return nil"]

theorem startMultipartInsertStmts_as_modelled : Generated.StmtFacts.Badgermultipart.startMultipartInsertStmts = expected_startMultipartInsertStmts := rfl

theorem multipart_put_always_writes_the_node :
    inOrder expected_putNodeStmts ["nodeKey := nodeKeyFmt.Encode(&h)", "if ba.multipartNodes != nil {", "if _, err = ba.readTxn.Get(nodeKey); err != nil && errors.Is(err, badger.ErrKeyNotFound) {", "return ba.bat.Set(nodeKey, data)"] none = true := by decide +kernel

/-- PutNode has exactly three exits: the marshalling error, the restore-log error and the write itself —
no exit that skips the write. -/
theorem putNode_has_no_exit_that_skips_the_write :
    (expected_putNodeStmts.filter (fun l => l.startsWith "return")) =
      ["return err", "return err", "return ba.bat.Set(nodeKey, data)"] := by decide +kernel

end OasisProofs.C06RestoreFacts
