import OasisProofs.Props.C07
import OasisProofs.Helpers.PathCrashLemmas
/-
C07 for the pathbadger backend — crash at ANY boundary of a write, reopen, retry (PROVED on the
write-ordering model `OasisModel.NodeDB.PathCrash`; the boundaries are the `verifCrashPoint` calls of
`go/storage/mkvs/db/pathbadger/{pathbadger.go,multipart.go}`).

For every state satisfying the C06 invariant `PathBadgerH.Inv` (the invariant behind
`C06.pathbadger_readable_inv`) and every prefix `k` of the operation's plan of durable steps:

  * `path_crash_observers_atomic`   NewBatch+Commit interrupted before its last flush: observably the
                                    old database (`ObsEq`: latest / earliest version, roots per
                                    version, HasRoot, root nodes, read-back of EVERY root)
  * `path_crash_commit_inv`         … and the state on disk still satisfies the invariant
  * `path_retry_completes_commit`   the retried Commit is accepted, is again admissible in the sense
                                    of C06, ends observably where the uninterrupted Commit ends and in
                                    a state satisfying the invariant; its root carries the NEXT
                                    sequence number (`path_retry_commit_state_differs`: the states
                                    are different, the observations are not)
  * `path_retry_completes_finalize`, `path_retry_completes_prune`
                                    crash at any boundary, reopen, retry: accepted and observably the
                                    uninterrupted operation (for Prune: the very same state)
  * `path_finalize_not_atomic`, `path_prune_not_atomic`
                                    machine-checked witnesses that in between the database is
                                    observably NEITHER the old NOR the new one
  * `path_no_partial_checkpoint_visible`
                                    a restore interrupted anywhere before the metadata commit of
                                    its Finalize: after reopen no restore is in progress, the last
                                    finalized version and every finalized root are those of before
Witnesses (all `decide` on concrete histories): `path_crash_atomic_needs_invariant` and
`path_retry_needs_batchOK` (the hypotheses of (1) and (2) are necessary),
`path_finalize_crash_then_other_choice_corrupts` (the retry must name the SAME roots: after a crash
behind the copy flush a Finalize of the competing root is accepted and finalizes foreign contents),
`path_finalize_retry_leaves_index` (a leaked updated-nodes index, not observable).

Trusted, not modelled (as for badger): atomicity of one `WriteBatch.Flush` / `CommitAt`, Badger's own
recovery, the OS; write logs are outside the model (the metadata-timestamp companions of the
Finalize copy flush and of the Prune flush are empty steps here).
-/
namespace OasisProofs.C07Path
open OasisModel.NodeDB OasisModel.NodeDB.PathBadger OasisModel.NodeDB.PathCrash
open OasisProofs.PathBadgerH OasisProofs.PathCrashH

/-- The checks of `NewBatch` (pathbadger.go:671-697) and `Commit` (875-912) under which the batch
creates a new root, i.e. under which the plan `planCommit` is what the code executes. -/
structure CommitAccepted (s : St) (old new : Root) : Prop where
  newBatch : newBatchRes s old new = .ok
  follows : Spec.follows new old = true
  notfin : finalizedGE s new.ver = false
  fresh : rootVal s new.ver (new.typ, new.hash) = none

theorem CommitAccepted.ctx {s : St} {old new : Root} (h : CommitAccepted s old new) : CommitCtx s old new :=
  OasisProofs.C06.commitCtx_of_guards h.newBatch h.follows h.notfin h.fresh

theorem CommitAccepted.commit_eq {s : St} {old new : Root} (h : CommitAccepted s old new) (b : Batch) :
    PathBadger.commit s old new b = (.ok, commitSt s old new b) := by
  unfold PathBadger.commit
  simp [h.newBatch, h.follows, h.notfin, h.fresh]

/-! ### (1) a crash inside NewBatch + Commit is not observable -/

/-- **path_crash_observers_atomic.** Whatever proper prefix of the four durable steps of
`NewBatch`+`Commit` (sequence counter, recorded sequence number, metadata-timestamp batch; the
version-timestamp batch with the root node is the last) reached the disk: every observer answers
as on the old database — same latest and earliest version, same roots reported for every version,
same `HasRoot`, same root nodes, same read-back of every root (finalized or pending). -/
theorem path_crash_observers_atomic (s : St) (old new : Root) (b : Batch) (hinv : Inv s)
    (ha : CommitAccepted s old new) (k : Nat) (hk : k < (planCommit s old new b).length) :
    ObsEq s (applyPrefix k s (planCommit s old new b)) :=
  (commitCrash_prefix s old new b ha.ctx.sametype k hk).obsEq hinv rfl ha.notfin ha.fresh

/-- After the last step the database is the new one (`C07.path_plan_complete_commit`). -/
theorem path_crash_commit_full (s : St) (old new : Root) (b : Batch) (k : Nat)
    (hk : (planCommit s old new b).length ≤ k) :
    applyPrefix k s (planCommit s old new b) = { commitSt s old new b with uses := s.uses } := by
  unfold applyPrefix
  rw [List.take_of_length_le hk]
  exact OasisProofs.C07.path_plan_complete_commit s old new b

/-- **The state a crash leaves satisfies the C06 invariant** (so every theorem of C06 keeps
applying to the histories that continue after the reopen). -/
theorem path_crash_commit_inv (s : St) (old new : Root) (b : Batch) (hinv : Inv s)
    (ha : CommitAccepted s old new) (hput : ∀ p ∈ b.puts, p.1.1 = new.ver) (k : Nat)
    (hk : k < (planCommit s old new b).length) :
    Inv (applyPrefix k s (planCommit s old new b)) :=
  (commitCrash_prefix s old new b ha.ctx.sametype k hk).inv hinv rfl ha.notfin ha.fresh
    (commit_prefix_pendver s old new b hinv hput k hk)

/-! ### (2) the retried Commit completes -/

/-- **path_retry_completes_commit.** After a crash at any boundary short of the last flush the
database is reopened (nothing is repaired: `recover` only cleans multipart leftovers) and the
Commit is retried with the same batch.  Then
  * the state on disk satisfies the invariant and the retry passes every check of `NewBatch` and
    `Commit` again, with a batch that is again admissible (`batchOK`, the hypothesis of C06);
  * it creates the root and ends in a state observably equal to the one the uninterrupted Commit
    ends in (also when run as its plan of durable steps), and that state satisfies the invariant;
  * unless nothing at all had reached the disk, the root now carries the NEXT sequence number: its
    nodes live in the pending key space even when the uninterrupted Commit would have written them
    straight into the finalized key space — equality is observational, not equality of states. -/
theorem path_retry_completes_commit (s : St) (old new : Root) (b : Batch) (hinv : Inv s)
    (ha : CommitAccepted s old new) (hb : batchOK s old new b = true) (k : Nat)
    (hk : k < (planCommit s old new b).length) :
    let q := applyPrefix k s (planCommit s old new b)
    Inv q ∧ CommitAccepted q old new ∧ batchOK q old new b = true ∧
    PathBadger.commit q old new b = (.ok, commitSt q old new b) ∧
    ObsEq (commitSt s old new b) (commitSt q old new b) ∧
    ObsEq (commitSt s old new b) (applyAll q (planCommit q old new b)) ∧
    Inv (commitSt q old new b) ∧
    seqOf (commitSt q old new b) new.ver (new.typ, new.hash) =
      nextSeqOf s new.ver old.typ + (if k = 0 then 0 else 1) := by
  intro q
  have hbh := batchOK_hyp hb
  have hc := ha.ctx
  have cc : CommitCrash s q new.ver (new.typ, new.hash) old.typ (nextSeqOf s new.ver old.typ) :=
    commitCrash_prefix s old new b hc.sametype k hk
  have hq : Inv q := path_crash_commit_inv s old new b hinv ha hbh.putver k hk
  -- the old root's tree reads as before
  have hgold : old.hash ≠ 0 → ∀ key, getNode q old key = getNode s old key := by
    intro hne key
    obtain ⟨orv, horv⟩ := Option.isSome_iff_exists.1 (hc.oldroot hne)
    exact cc.getNode_eq hinv rfl ha.notfin ha.fresh horv key
  have haq : CommitAccepted q old new := by
    refine ⟨?_, ha.follows, ?_, ?_⟩
    · have := ha.newBatch
      unfold newBatchRes at this ⊢
      rw [cc.rootVal_eq]; exact this
    · rw [cc.finalizedGE_eq]; exact ha.notfin
    · rw [cc.rootVal_eq]; exact ha.fresh
  have hbq : batchOK q old new b = true := by
    rw [batchOK_congr s q old new b cc.last (cc.usesOf_eq _ _) hgold]; exact hb
  have hfq : Inv (commitSt q old new b) := inv_commitSt q old new b haq.ctx (batchOK_hyp hbq) hq
  have hfs : Inv (commitSt s old new b) := inv_commitSt s old new b hc hbh hinv
  have hroot : (commitSt q old new b).rootNode = (commitSt s old new b).rootNode := by
    show ((new.ver, (new.typ, new.hash)), some (newRootVal q old new b)) :: q.rootNode =
      ((new.ver, (new.typ, new.hash)), some (newRootVal s old new b)) :: s.rootNode
    have : newRootVal q old new b = newRootVal s old new b := by
      unfold newRootVal; rw [cc.rootVal_eq]
    rw [this, cc.rootNode]
  have hobs : ObsEq (commitSt s old new b) (commitSt q old new b) :=
    obsEq_of_inv hfs hfq cc.last cc.earliest hroot
  refine ⟨hq, haq, hbq, haq.commit_eq b, hobs, ?_, hfq, ?_⟩
  · -- the plan of the retry is the retry, the ghost key set aside
    rw [OasisProofs.C07.path_plan_complete_commit q old new b]
    have hghost : ObsEq (commitSt q old new b) { commitSt q old new b with uses := q.uses } :=
      ⟨rfl, rfl, fun _ => rfl, fun _ => rfl, fun _ _ => rfl,
        fun r => read_congr _ _ r rfl rfl (fun _ _ _ => rfl)⟩
    exact ⟨hghost.last.trans hobs.last, hghost.earliest.trans hobs.earliest,
      fun v => (hghost.roots v).trans (hobs.roots v), fun r => (hghost.hasRoot r).trans (hobs.hasRoot r),
      fun v th => (hghost.rootNode v th).trans (hobs.rootNode v th), fun r => (hghost.read r).trans (hobs.read r)⟩
  · rw [seqOf_commitSt]
    simp only [if_true]
    exact nextSeqOf_commit_prefix s old new b k hk

/-! ### (3) Finalize and Prune: retry completes; in between they are NOT atomic -/

/-- **path_retry_completes_finalize.** `Finalize(v, ch)` is interrupted after any number `k` of its
five durable steps (copy flush, its metadata-timestamp companion, delete flush with the root-node
keys of the discarded roots, deletion of the updated-nodes indices and of the pending key space,
metadata commit), the database is reopened and `Finalize(v, ch)` is called again.  If the metadata
commit was not reached the retry passes every check, and it ends — as the model's `finalize` and as
its own plan of durable steps — in a database that reports the same latest and earliest version,
the same roots for every version, and reads back every root exactly like the database the
uninterrupted Finalize ends in (it recomputes the same copies from the pending key space that is
deleted only afterwards, and deletes a subset of what was deleted).  If the metadata commit was
reached the database IS the finalized one and the retry is refused as already finalized. -/
theorem path_retry_completes_finalize (s : St) (v : Nat) (ch : List Root) (hok : finalizeRes s v ch = .ok)
    (k : Nat) :
    let q := applyPrefix k s (planFinalize s v ch)
    (k < (planFinalize s v ch).length →
      PathBadger.finalize q v ch = (.ok, finalizeSt q v ch) ∧
      applyAll q (planFinalize q v ch) = finalizeSt q v ch ∧
      ObsEq (finalizeSt s v ch) (finalizeSt q v ch)) ∧
    ((planFinalize s v ch).length ≤ k →
      q = finalizeSt s v ch ∧ PathBadger.finalize q v ch = (.err .alreadyFinalized, q)) := by
  intro q
  have hq : q = finCrash s v ch k := applyPrefix_planFinalize s v ch k
  refine ⟨fun hk => ?_, fun hk => ?_⟩
  · have hk5 : k < 5 := hk
    have hres : finalizeRes q v ch = .ok := by rw [hq, finalizeRes_finCrash s v ch k hk5]; exact hok
    refine ⟨?_, OasisProofs.C07.path_plan_complete_finalize q v ch, ?_⟩
    · unfold PathBadger.finalize; rw [hres]
    · rw [hq]; exact (finalize_retry_sameDB s v ch k hk5).obsEq
  · have hk5 : 5 ≤ k := hk
    have hfull : q = finalizeSt s v ch := by
      rw [hq]
      obtain ⟨j, rfl⟩ : ∃ j, k = j + 5 := ⟨k - 5, by omega⟩
      rfl
    refine ⟨hfull, ?_⟩
    have hne : ch.isEmpty = false := by
      unfold finalizeRes at hok
      cases he : ch.isEmpty with
      | false => rfl
      | true => simp [he] at hok
    rw [hfull]
    unfold PathBadger.finalize finalizeRes
    rw [hne, finalizedGE_finalizeSt]
    simp

/-- **path_retry_completes_prune.** `Prune(v)` is interrupted after any number `k` of its three
durable steps (deletion of the io nodes and io root-node keys of the version, its empty
metadata-timestamp companion, metadata commit), the database is reopened and `Prune(v)` is called
again.  If the metadata commit was not reached the retry is accepted (the version is still the
earliest), finds no io node and no io root left to delete, and ends in EXACTLY the state the
uninterrupted Prune ends in; otherwise the database is the pruned one and the retry is refused. -/
theorem path_retry_completes_prune (s : St) (v : Nat) (hok : pruneErr s v = none) (k : Nat) :
    let q := applyPrefix k s (planPrune s v)
    (k < (planPrune s v).length →
      PathBadger.prune q v = (.ok, pruneSt q v) ∧ applyAll q (planPrune q v) = pruneSt q v ∧
      pruneSt q v = pruneSt s v ∧ ObsEq (pruneSt s v) (pruneSt q v)) ∧
    ((planPrune s v).length ≤ k → q = pruneSt s v ∧ PathBadger.prune q v = (.err .notEarliest, q)) := by
  intro q
  have hq : q = pruneCrash s v k := applyPrefix_planPrune s v k
  refine ⟨fun hk => ?_, fun hk => ?_⟩
  · have hk3 : k < 3 := hk
    have herr : pruneErr q v = none := by rw [hq, pruneErr_pruneCrash s v k hk3]; exact hok
    have hst : pruneSt q v = pruneSt s v := by rw [hq]; exact pruneSt_pruneCrash s v k hk3
    refine ⟨?_, OasisProofs.C07.path_plan_complete_prune q v, hst, ?_⟩
    · unfold PathBadger.prune; rw [herr]
    · rw [hst]; exact obsEq_refl _
  · have hk3 : 3 ≤ k := hk
    have hfull : q = pruneSt s v := by
      rw [hq]
      obtain ⟨j, rfl⟩ : ∃ j, k = j + 3 := ⟨k - 3, by omega⟩
      rfl
    refine ⟨hfull, ?_⟩
    obtain ⟨l, hl, hlt, hearl⟩ := pruneErr_none hok
    rw [hfull]
    unfold PathBadger.prune pruneErr
    have h1 : (pruneSt s v).last = some l := hl
    have h2 : (pruneSt s v).earliest = v + 1 := rfl
    have h3 : ¬ l < v := by omega
    simp [h1, h2, h3]

/-! #### concrete histories: non-vacuity and the states in between -/

/-- Two competing state roots in version 1 (C06's example): root 10 with leaves under keys (1,1),
(1,2) gets sequence number 0 (nodes in the finalized key space), root 20 with a leaf under key
(1,1) gets sequence number 1 (nodes in the pending key space). -/
def exA1 : Batch :=
  { puts := [((1, 1), ⟨1, []⟩), ((1, 2), ⟨2, []⟩)], removed := [], root := some ⟨10, [((1, 1), 1), ((1, 2), 2)]⟩ }
def exA2 : Batch := { puts := [((1, 1), ⟨3, []⟩)], removed := [], root := some ⟨20, [((1, 1), 3)]⟩ }
def exS1 : St := (PathBadger.commit PathBadger.init ⟨1, 0, 0⟩ ⟨1, 0, 10⟩ exA1).2
def exS2 : St := (PathBadger.commit exS1 ⟨1, 0, 0⟩ ⟨1, 0, 20⟩ exA2).2

/-- **Finalize is not observably atomic** (witness).  `Finalize(1, [root 20])` on `exS2`:
  * after the copy flush (boundary 1) the node of root 20 under key (1,1) has overwritten the node
    of root 10 under the same key in the finalized key space: root 10 is still reported, version 1
    is not finalized, and root 10 reads back FOREIGN contents — neither the old database (root 10
    reads fine) nor the new one (root 10 is not reported);
  * after the delete flush (boundary 3) root 10 is no longer reported although version 1 is still
    not finalized. -/
theorem path_finalize_not_atomic :
    let ch : List Root := [⟨1, 0, 20⟩]
    let r10 : Root := ⟨1, 0, 10⟩
    let q1 := applyPrefix 1 exS2 (planFinalize exS2 1 ch)
    let q3 := applyPrefix 3 exS2 (planFinalize exS2 1 ch)
    let new := finalizeSt exS2 1 ch
    finalizeRes exS2 1 ch = .ok ∧
    PathBadger.hasRoot exS2 r10 = true ∧ PathBadger.read exS2 r10 = .ok ∧ exS2.last = none ∧
    PathBadger.hasRoot new r10 = false ∧ new.last = some 1 ∧
    PathBadger.hasRoot q1 r10 = true ∧ PathBadger.read q1 r10 = .foreign ∧ q1.last = none ∧
    PathBadger.hasRoot q3 r10 = false ∧ q3.last = none ∧
    PathBadger.read q1 ⟨1, 0, 20⟩ = .ok ∧ PathBadger.read q3 ⟨1, 0, 20⟩ = .ok := by
  decide

/-- Consequence (witness): the retry theorem is about retrying the SAME Finalize.  After a crash at
boundary 1 of `Finalize(1, [root 20])` a `Finalize(1, [root 10])` is accepted, reports root 10 as
finalized — and root 10 reads back foreign contents for good. -/
theorem path_finalize_crash_then_other_choice_corrupts :
    let q1 := applyPrefix 1 exS2 (planFinalize exS2 1 [⟨1, 0, 20⟩])
    let bad := PathBadger.finalize q1 1 [⟨1, 0, 10⟩]
    bad.1 = .ok ∧ bad.2.last = some 1 ∧ PathBadger.hasRoot bad.2 ⟨1, 0, 10⟩ = true ∧
    PathBadger.read bad.2 ⟨1, 0, 10⟩ = .foreign ∧
    PathBadger.read (PathBadger.finalize exS2 1 [⟨1, 0, 10⟩]).2 ⟨1, 0, 10⟩ = .ok := by
  decide

/-- A retry after the delete flush (boundary 3) never visits the discarded roots again: their
updated-nodes indices stay behind for good (not observable; a leak, witness). -/
theorem path_finalize_retry_leaves_index :
    let ch : List Root := [⟨1, 0, 20⟩]
    let q3 := applyPrefix 3 exS2 (planFinalize exS2 1 ch)
    updOf (finalizeSt exS2 1 ch) 1 (0, 10) = [] ∧ updOf (finalizeSt q3 1 ch) 1 (0, 10) ≠ [] := by
  decide

/-- A state root and an io root in version 1, the unchanged state root in version 2, both
versions finalized. -/
def exIo : Batch := { puts := [((1, 1), ⟨7, []⟩)], removed := [], root := some ⟨30, [((1, 1), 7)]⟩ }
def exNone : Batch := { puts := [], removed := [], root := none }
def exP : St :=
  let s1 := (PathBadger.commit exS1 ⟨1, 1, 0⟩ ⟨1, 1, 30⟩ exIo).2
  let s2 := (PathBadger.finalize s1 1 [⟨1, 0, 10⟩, ⟨1, 1, 30⟩]).2
  let s3 := (PathBadger.commit s2 ⟨1, 0, 10⟩ ⟨2, 0, 10⟩ exNone).2
  (PathBadger.finalize s3 2 [⟨2, 0, 10⟩]).2

/-- **Prune is not observably atomic** (witness).  After the data flush of `Prune(1)` (boundaries 1
and 2) version 1 is still the earliest version and its state root is still reported and readable,
but its io root is gone: neither the old database nor the pruned one. -/
theorem path_prune_not_atomic :
    let q1 := applyPrefix 1 exP (planPrune exP 1)
    let new := pruneSt exP 1
    pruneErr exP 1 = none ∧
    exP.earliest = 1 ∧ PathBadger.hasRoot exP ⟨1, 1, 30⟩ = true ∧ PathBadger.read exP ⟨1, 1, 30⟩ = .ok ∧
    new.earliest = 2 ∧ PathBadger.hasRoot new ⟨1, 0, 10⟩ = false ∧
    q1.earliest = 1 ∧ PathBadger.hasRoot q1 ⟨1, 1, 30⟩ = false ∧ PathBadger.hasRoot q1 ⟨1, 0, 10⟩ = true ∧
    PathBadger.read q1 ⟨1, 0, 10⟩ = .ok ∧ PathBadger.read q1 ⟨2, 0, 10⟩ = .ok := by
  decide

/-! ### (4) a partial checkpoint restore is not visible as finalized -/

/-- **path_no_partial_checkpoint_visible.** A restore of version `v` (not finalized yet) is
interrupted anywhere before the metadata commit of its Finalize: `steps` is any sequence of durable
steps each of which is allowed for the database it is applied to (`RestoreRun`: the metadata
commit of `StartMultipartInsert`, the steps of any number of chunk commits, the flushes of the
Finalize — `restoreRun_startMp`, `restoreRun_chunk`, `restoreRun_finalize_prefix`, composed with
`restoreRun_append` — and any prefix of such a sequence).  After the reopen
  * no restore is in progress, the latest and the earliest version are those of before, version
    `v` is not finalized;
  * every finalized root — every root of a version up to the latest one — is reported, answers
    `HasRoot` and reads back exactly as before the restore started: nothing of the partial restore
    is visible as finalized.
(What the reopen does NOT do is remove the nodes and root-node keys the chunks wrote at version
`v`: the journal it would replay is never written by this backend.  They stay visible as pending
roots of version `v`; see `C07.restore_after_aborted_restore_loses_nodes` for what the reserved
sequence numbers that also stay behind do to the next restore.) -/
theorem path_no_partial_checkpoint_visible (p : PSt) (v : Nat) (hv : finalizedGE p.db v = false)
    (steps : List MDurable) (h : RestoreRun v p steps) :
    let q := recover (applyMAll p steps)
    q.mpVersion = 0 ∧ q.db.last = p.db.last ∧ q.db.earliest = p.db.earliest ∧ finalizedGE q.db v = false ∧
    ∀ r : Root, finalizedGE q.db r.ver = true →
      rootsFor q.db r.ver = rootsFor p.db r.ver ∧ PathBadger.hasRoot q.db r = PathBadger.hasRoot p.db r ∧
      rootVal q.db r.ver (r.typ, r.hash) = rootVal p.db r.ver (r.typ, r.hash) ∧
      PathBadger.read q.db r = PathBadger.read p.db r := by
  intro q
  obtain ⟨hdb, hmp⟩ := recover_db (applyMAll p steps)
  have hb : Below v p.db q.db := by
    show Below v p.db (recover (applyMAll p steps)).db
    rw [hdb]; exact Below.run steps p (Below.refl v p.db) h
  have hfin : ∀ u, finalizedGE q.db u = finalizedGE p.db u := finalizedGE_of_last hb.last
  refine ⟨hmp, hb.last, hb.earliest, by rw [hfin]; exact hv, ?_⟩
  intro r hr
  rw [hfin] at hr
  have hlt : r.ver < v := by
    unfold finalizedGE at hr hv
    cases hl : p.db.last with
    | none => simp [hl] at hr
    | some l =>
      simp only [hl, decide_eq_true_eq, decide_eq_false_iff_not] at hr hv
      omega
  exact ⟨rootsFor_of_rootsAt hb.earliest _ (hb.rootsAt _ hlt), hasRoot_of_rootVal hb.earliest r (hb.roots _ _ hlt),
    hb.roots _ _ hlt, hb.read_eq r hlt⟩

/-! ### non-vacuity -/

theorem exS1_inv : Inv exS1 :=
  OasisProofs.C06.pathbadger_inv_step PathBadger.init (.commit ⟨1, 0, 0⟩ ⟨1, 0, 10⟩ exA1) inv_init
    (fun _ _ _ _ => by decide)

/-- The hypotheses of `path_crash_observers_atomic` / `path_retry_completes_commit` hold for the
Commit of the competing root 20 on `exS1` (reserved sequence number 1: pending key space) and for
the Commit of root 10 on the empty database (sequence number 0: finalized key space); both plans
have four steps and non-empty payloads. -/
example : Inv exS1 ∧ CommitAccepted exS1 ⟨1, 0, 0⟩ ⟨1, 0, 20⟩ ∧ batchOK exS1 ⟨1, 0, 0⟩ ⟨1, 0, 20⟩ exA2 = true ∧
    nextSeqOf exS1 1 0 = 1 ∧ (planCommit exS1 ⟨1, 0, 0⟩ ⟨1, 0, 20⟩ exA2).length = 4 ∧
    Inv PathBadger.init ∧ CommitAccepted PathBadger.init ⟨1, 0, 0⟩ ⟨1, 0, 10⟩ ∧
    batchOK PathBadger.init ⟨1, 0, 0⟩ ⟨1, 0, 10⟩ exA1 = true ∧ nextSeqOf PathBadger.init 1 0 = 0 :=
  ⟨exS1_inv, ⟨by decide, by decide, by decide, by decide⟩, by decide, by decide, by decide,
    inv_init, ⟨by decide, by decide, by decide, by decide⟩, by decide, by decide⟩

/-- **Observational, not state, equality** (witness): root 10 committed into the empty database
gets sequence number 0 and its nodes go to the finalized key space; after a crash at boundary 3
the retry gets sequence number 1 and the nodes go to the pending key space — the finalized key
space stays empty — and both databases read root 10 back completely. -/
theorem path_retry_commit_state_differs :
    let old : Root := ⟨1, 0, 0⟩
    let new : Root := ⟨1, 0, 10⟩
    let q := applyPrefix 3 PathBadger.init (planCommit PathBadger.init old new exA1)
    let ref := commitSt PathBadger.init old new exA1
    let ret := (PathBadger.commit q old new exA1).2
    seqOf ref 1 (0, 10) = 0 ∧ seqOf ret 1 (0, 10) = 1 ∧ ref.fin.length = 2 ∧ ret.fin.length = 0 ∧
    (pendAt ret 1).length = 2 ∧ PathBadger.read ref new = .ok ∧ PathBadger.read ret new = .ok := by
  decide

/-- **The invariant is needed for (1)** (witness).  `exS2` with the sequence counter of version 1
set back to 1 violates `Inv.seqlt` (root 20 carries sequence number 1, which the counter would hand
out again).  A Commit of a third root then reserves sequence number 1 as well, and as soon as its
metadata-timestamp batch is on disk (boundary 3) its node under key (1,1) shadows root 20's node in
the pending key space: root 20, untouched by the interrupted Commit, reads back foreign contents. -/
theorem path_crash_atomic_needs_invariant :
    let s : St := { exS2 with nextSeq := exS1.nextSeq }
    let b : Batch := { puts := [((1, 1), ⟨9, []⟩)], removed := [], root := some ⟨30, [((1, 1), 9)]⟩ }
    let q := applyPrefix 3 s (planCommit s ⟨1, 0, 0⟩ ⟨1, 0, 30⟩ b)
    seqOf s 1 (0, 20) = 1 ∧ nextSeqOf s 1 0 = 1 ∧
    newBatchRes s ⟨1, 0, 0⟩ ⟨1, 0, 30⟩ = .ok ∧ rootVal s 1 (0, 30) = none ∧ finalizedGE s 1 = false ∧
    batchOK s ⟨1, 0, 0⟩ ⟨1, 0, 30⟩ b = true ∧
    PathBadger.read s ⟨1, 0, 20⟩ = .ok ∧ PathBadger.read q ⟨1, 0, 20⟩ = .foreign := by
  decide

/-- **`batchOK` is needed for (2)** (witness: its "distinct keys" part).  A batch that puts two
nodes under the same key is written last-wins into the finalized key space (sequence number 0) but
is looked up first-wins in the pending key space the retry (sequence number 1) writes to: the
uninterrupted Commit reads back fine, the retried one reads back foreign contents. -/
theorem path_retry_needs_batchOK :
    let old : Root := ⟨1, 0, 0⟩
    let new : Root := ⟨1, 0, 10⟩
    let b : Batch := { puts := [((1, 1), ⟨1, []⟩), ((1, 1), ⟨2, []⟩)], removed := [], root := some ⟨10, [((1, 1), 2)]⟩ }
    let q := applyPrefix 1 PathBadger.init (planCommit PathBadger.init old new b)
    batchOK PathBadger.init old new b = false ∧
    PathBadger.read (commitSt PathBadger.init old new b) new = .ok ∧
    (PathBadger.commit q old new b).1 = .ok ∧ PathBadger.read (PathBadger.commit q old new b).2 new = .foreign := by
  decide

/-- Reopening a database on which no restore is in progress is the identity: the crash states of
Commit / Finalize / Prune above are the states the retry starts from. -/
theorem path_reopen_plain (s : St) (seqs : List (Nat × Nat)) : (recover ⟨s, 0, seqs⟩).db = s :=
  (recover_db ⟨s, 0, seqs⟩).1

/-- The hypotheses of the Finalize / Prune retry theorems hold on `exS2` / `exP` (see the
witnesses above), with non-trivial plans: one copy, one deletion, one discarded root; one io node
and one io root to prune. -/
example : finalizeRes exS2 1 [⟨1, 0, 20⟩] = .ok ∧
    (finPlan exS2 1 [⟨1, 0, 20⟩]).copies.length = 1 ∧ (finPlan exS2 1 [⟨1, 0, 20⟩]).dels.length = 1 ∧
    (finPlan exS2 1 [⟨1, 0, 20⟩]).discarded = [(0, 10)] ∧
    pruneErr exP 1 = none ∧ ioKeysOf exP 1 = [(1, (1, 1))] ∧ (rootsAt exP 1).filter (fun th => th.1 == 1) = [(1, 30)] := by
  decide

/-- A restore of version 3 into `exP` (latest version 2): `StartMultipartInsert`, two chunk commits
of the same root with the reserved sequence number, and the first three steps of its Finalize — an
allowed run with 10 durable steps, so `path_no_partial_checkpoint_visible` applies to it and to
every prefix of it. -/
example :
    let p0 : PSt := ⟨exP, 0, []⟩
    let r : Root := ⟨3, 0, 50⟩
    let l1 := planStartMp p0.db 3
    let p1 := applyMAll p0 l1
    let l2 := (planChunk p1.db r 0 [((3, 1), ⟨5, []⟩)] ⟨50, [((3, 1), 5)]⟩).map MDurable.db
    let p2 := applyMAll p1 l2
    let l3 := (planChunk p2.db r 0 [((3, 2), ⟨6, []⟩)] ⟨50, [((3, 1), 5), ((3, 2), 6)]⟩).map MDurable.db
    let p3 := applyMAll p2 l3
    let l4 := ((planFinalize p3.db 3 [r]).take 3).map MDurable.db
    finalizedGE p0.db 3 = false ∧ RestoreRun 3 p0 (l1 ++ (l2 ++ (l3 ++ l4))) ∧ (l1 ++ (l2 ++ (l3 ++ l4))).length = 10 ∧
    (applyMAll p0 (l1 ++ (l2 ++ (l3 ++ l4)))).mpVersion = 3 := by
  intro p0 r l1 p1 l2 p2 l3 p3 l4
  refine ⟨by decide, ?_, by decide, by decide⟩
  rw [restoreRun_append, restoreRun_append, restoreRun_append]
  exact ⟨restoreRun_startMp 3 p0 3, restoreRun_chunk 3 p1 r 0 _ _ (Nat.le_refl _),
    restoreRun_chunk 3 _ r 0 _ _ (Nat.le_refl _), restoreRun_finalize_prefix _ 3 [r] 3 (by decide)⟩

end OasisProofs.C07Path
