/-
Regenerated tie of the check-tx consumer model (`OasisModel/Rhp/CheckTx.lean`, theorems in
`C16CheckTx.lean`) to `go/runtime/host/helpers.go` (`richRuntime.CheckTx`: response present, number of
results EQUAL to the number of inputs, every successful result carries metadata) and
`go/runtime/txpool/txpool.go` (`checkTxBatch`: first loop indexing `batch[i]` per result, second loop
dereferencing `res.Meta` of the good ones).

`tools/gen stmtfacts checktx` flattens the functions into one line per simple statement on every run; the
lists are pinned here (`rfl`). A change of a statement, a condition or of the order of statements breaks the
pin until the new text has been read against the model.
-/
import Generated.StmtFactsChecktx

namespace OasisProofs.C16CheckTxFacts

/-- Position of the first line equal to `s`. -/
def pos (l : List String) (s : String) : Option Nat :=
  let i := l.findIdx (· == s)
  if i < l.length then some i else none

/-- The lines occur in this order (strictly increasing positions). -/
def inOrder (l : List String) : List String → Option Nat → Bool
  | [], _ => true
  | s :: rest, prev =>
    match pos l s, prev with
    | none, _ => false
    | some i, none => inOrder l rest (some i)
    | some i, some p => decide (p < i) && inOrder l rest (some i)

def expected_richCheckTxStmts : List String := [
  "if rb == nil || lb == nil {",
  "return nil, ErrInvalidArgument",
  "}",
  "resp, err := r.Call(ctx, &protocol.Body{ RuntimeCheckTxBatchRequest: &protocol.RuntimeCheckTxBatchRequest{ ConsensusBlock: *lb, Inputs: batch, Block: *rb, Epoch: epoch, MaxMessages: maxMessages, }, })",
  "switch  {",
  "case err != nil:",
  "return nil, errors.WithContext(ErrInternal, err.Error())",
  "case resp.RuntimeCheckTxBatchResponse == nil:",
  "return nil, errors.WithContext(ErrInternal, \"malformed runtime response\")",
  "case len(resp.RuntimeCheckTxBatchResponse.Results) != len(batch):",
  "return nil, errors.WithContext(ErrInternal, \"malformed runtime response: incorrect number of results\")",
  "}",
  "for i := range resp.RuntimeCheckTxBatchResponse.Results {",
  "if res := &resp.RuntimeCheckTxBatchResponse.Results[i]; res.IsSuccess() && res.Meta == nil {",
  "return nil, errors.WithContext(ErrInternal, \"malformed runtime response: missing transaction metadata\")",
  "}",
  "}",
  "return resp.RuntimeCheckTxBatchResponse.Results, nil"]

theorem richCheckTxStmts_as_modelled : Generated.StmtFacts.Checktx.richCheckTxStmts = expected_richCheckTxStmts := rfl

def expected_checkTxBatchStmts : List String := [
  "if _, err := t.runtime.GetActiveVersion(); err != nil {",
  "return fmt.Errorf(\"runtime is not available\")",
  "}",
  "di, lastDispatchInfoProcessed, err := t.getCurrentDispatchInfo()",
  "if err != nil {",
  "return fmt.Errorf(\"failed to get current dispatch info: %w\", err)",
  "}",
  "waitSyncCtx, cancelWaitSyncCtx := context.WithTimeout(ctx, checkTxWaitRoundSyncedTimeout)",
  "defer cancelWaitSyncCtx()",
  "t.logger.Debug(\"ensuring block round is synced\", \"round\", di.BlockInfo.RuntimeBlock.Header.Round)",
  "if _, err = t.history.WaitRoundSynced(waitSyncCtx, di.BlockInfo.RuntimeBlock.Header.Round); err != nil {",
  "t.logger.Info(\"block round is not synced yet, retrying transaction batch check later\", \"round\", di.BlockInfo.RuntimeBlock.Header.Round, \"err\", err, )",
  "t.checkTxCh.In() <- struct{}{}",
  "return nil",
  "}",
  "batch := t.checkTxQueue.pop()",
  "if len(batch) == 0 {",
  "return nil",
  "}",
  "results, err := func() ([]protocol.CheckTxResult, error) { checkCtx, cancelCheckCtx := context.WithTimeout(ctx, checkTxTimeout) defer cancelCheckCtx() rawTxBatch := make([][]byte, 0, len(batch)) for _, pct := range batch { rawTxBatch = append(rawTxBatch, pct.Raw()) } return t.runtime.CheckTx(checkCtx, di.BlockInfo.RuntimeBlock, di.BlockInfo.ConsensusBlock, di.BlockInfo.Epoch, di.ActiveDescriptor.Executor.MaxMessages, rawTxBatch) }()",
  "switch  {",
  "case err == nil:",
  "case errors.Is(err, context.Canceled), errors.Is(err, context.DeadlineExceeded):",
  "t.logger.Error(\"transaction batch check aborted by context, aborting runtime\")",
  "abortCtx, cancel := context.WithTimeout(ctx, abortTimeout)",
  "defer cancel()",
  "if err = t.runtime.Abort(abortCtx, false); err != nil {",
  "t.logger.Error(\"failed to abort the runtime\", \"err\", err, )",
  "}",
  "fallthrough",
  "default:",
  "t.checkTxQueue.retryBatch(batch)",
  "return err",
  "}",
  "pendingCheckSize.With(t.getMetricLabels()).Set(float64(t.checkTxQueue.size()))",
  "notifySubmitter := func(i int) { pct := batch[i] if pct.notifyCh == nil { return } pct.notifyCh <- &results[i] }",
  "newTxs := make([]*PendingCheckTransaction, 0, len(results))",
  "goodPcts := make([]*PendingCheckTransaction, 0, len(results))",
  "batchIndices := make([]int, 0, len(results))",
  "for i, res := range results {",
  "if !res.IsSuccess() {",
  "rejectedTransactions.With(t.getMetricLabels()).Inc()",
  "t.logger.Debug(\"check tx failed\", \"tx\", batch[i].Raw(), \"hash\", batch[i].Hash(), \"result\", res, \"recheck\", batch[i].checked, )",
  "t.seenCache.Remove(batch[i].Hash())",
  "notifySubmitter(i)",
  "continue",
  "}",
  "if batch[i].discard {",
  "notifySubmitter(i)",
  "continue",
  "}",
  "if !batch[i].checked {",
  "acceptedTransactions.With(t.getMetricLabels()).Inc()",
  "newTxs = append(newTxs, batch[i])",
  "}",
  "goodPcts = append(goodPcts, batch[i])",
  "batchIndices = append(batchIndices, i)",
  "}",
  "if t.checkTxQueue.size() > 0 {",
  "t.checkTxCh.In() <- struct{}{}",
  "}",
  "if len(goodPcts) == 0 {",
  "return nil",
  "}",
  "t.logger.Debug(\"checked new transactions\", \"num_txs\", len(newTxs), \"accepted_txs\", len(goodPcts), )",
  "stateSeqNums := make(map[string]uint64)",
  "for i, pct := range goodPcts {",
  "idx := batchIndices[i]",
  "res := results[idx]",
  "sender := string(res.Meta.Sender)",
  "if seq, ok := stateSeqNums[sender]; ok {",
  "res.Meta.SenderStateSeq = seq",
  "}",
  "else {",
  "stateSeqNums[sender] = res.Meta.SenderStateSeq",
  "}",
  "if err = t.mainQueue.Add(pct.TxQueueMeta, res.Meta); err != nil {",
  "t.logger.Error(\"unable to queue transaction for scheduling\", \"err\", err, \"hash\", pct.Hash(), )",
  "res.Error = protocol.Error{ Module: \"txpool\", Code: 1, Message: err.Error(), }",
  "notifySubmitter(idx)",
  "continue",
  "}",
  "notifySubmitter(idx)",
  "if !pct.checked {",
  "var publishTime time.Time",
  "if !pct.local {",
  "publishTime = time.Now()",
  "}",
  "_ = t.seenCache.Put(pct.Hash(), publishTime)",
  "}",
  "}",
  "if len(newTxs) != 0 {",
  "go func() {",
  "time.Sleep(time.Until(lastDispatchInfoProcessed.Add(newBlockPublishDelay)))",
  "t.republishCh.In() <- struct{}{}",
  "}()",
  "t.checkTxNotifier.Broadcast(newTxs)",
  "}",
  "mainQueueSize.With(t.getMetricLabels()).Set(float64(t.mainQueue.Size()))",
  "return nil"]

theorem checkTxBatchStmts_as_modelled : Generated.StmtFacts.Checktx.checkTxBatchStmts = expected_checkTxBatchStmts := rfl

theorem shape_checks_precede_the_results :
    inOrder expected_richCheckTxStmts ["case len(resp.RuntimeCheckTxBatchResponse.Results) != len(batch):", "if res := &resp.RuntimeCheckTxBatchResponse.Results[i]; res.IsSuccess() && res.Meta == nil {", "return resp.RuntimeCheckTxBatchResponse.Results, nil"] none = true := by decide +kernel

end OasisProofs.C16CheckTxFacts
