import OasisProofs.Helpers.MkvsProofDeep
import OasisProofs.Helpers.MkvsProofIter
import OasisProofs.Helpers.MkvsProofIterSound
/-
C04 — Merkle proofs are complete and cannot be made to lie.

Model: `OasisModel/Mkvs/Proof.lean` over the trie model `OasisModel/Mkvs/Trie.lean`:
  * `verifyProof`  = syncer/proof.go:301-428 (`ProofVerifier.verifyProofOpts` / `verifyProof`): version
    check, untrusted-root sanity check, empty proof, lazy byte-level decoding of the entries (nil /
    0x01 full node / 0x02 hash; node.go decoders incl. ignored trailing bytes and unmasked label
    padding), the depth guard `maxProofDepth`, version 0 (leaf embedded) and version 1 (leaf as first
    child), all entries consumed, recomputed hash = trusted root;
  * `PT` the rebuilt pointer tree, `PT.getAux` the lookup (`doGet`) of a client that holds only
    verified nodes, `PT.merge` / `PT.graft` / `clientSync` = merge.go and the accept rule of
    cache.go:385-451;
  * `build` / `inclGet` / `proofGet` = the `ProofBuilder` (included map keyed by hash, pre-order emission)
    and which nodes `SyncGet` includes (lookup.go), both versions, siblings on/off.
The hash function is a parameter `H`. Collision resistance enters only as a hypothesis:
`Function.Injective H` (as a global idealisation) or, in the `_nc` forms, the satisfiable
`NoColl H S`: no collision among the strings `S` that are actually hashed in the tree and in the
accepted proof (the contrapositive exhibits a concrete collision). The fixed output length is the
hypothesis `hlen`. Trees are canonical (`WF`) with keys < 8192 bytes and values < 2^32 bytes
(`ContentsBounded`, the range of Go's length fields).

Tie to the Go code (proofdrv): the model's builder output is compared byte for byte with real
`SyncGet` / `ProofBuilder.Build` proofs; honest and mutated proofs go to both verifiers and the
verdict (incl. error class) and write log must agree; for every accepted proof `subB` (the
executable `SubT`) is evaluated against the model tree, and the answers of a real remote client
are compared with the full tree's.
-/
namespace OasisProofs.C04
open OasisModel.Mkvs OasisProofs.Mkvs OasisProofs.MkvsProof OasisProofs.MkvsIter

/-! ### Soundness -/

/-- **Soundness.** Whatever entry list (honest, altered, truncated, extended, reordered, spliced,
fabricated), proof version and claimed root the verifier accepts for the trusted root `root`, the
tree it rebuilds is a sub-tree of every canonical tree with that root: each materialised node is
the tree's node at that position, each hash-only pointer carries the hash of the tree's subtree. -/
theorem verify_sound {H : Bytes → Bytes} (hinj : Function.Injective H) (hlen : ∀ x, (H x).length = 32)
    {root : Bytes} {p : MProof} {s : PT} (h : verifyProof H root p = .ok s)
    (T : Trie) (hwf : WF T) (hb : ContentsBounded T.toList) (hr : hashWith H T = root) : SubT H s T :=
  verifyProof_sub hinj hlen h (wfAt_bounded hwf hb) hr

/-- Soundness with the collision hypothesis restricted to the strings actually hashed: an accepted
proof that is not a sub-tree of the tree yields a collision of `H` between two of the (finitely
many) node encodings of the tree and of the proof. -/
theorem verify_sound_nc {H : Bytes → Bytes} (hlen : ∀ x, (H x).length = 32)
    {root : Bytes} {p : MProof} {s : PT} (h : verifyProof H root p = .ok s)
    (T : Trie) (hwf : WF T) (hb : ContentsBounded T.toList) (hr : hashWith H T = root)
    (hnc : NoColl H (ptInputs H s ++ trieInputs H T)) : SubT H s T :=
  verifyProof_sub_nc hlen h (wfAt_bounded hwf hb) hr hnc

/-- Every proof is either rejected or accepted with a sub-tree of the true tree — there is no third
outcome, for any entry list, version or claimed root. -/
theorem rejected_or_subtree {H : Bytes → Bytes} (hinj : Function.Injective H) (hlen : ∀ x, (H x).length = 32)
    (T : Trie) (hwf : WF T) (hb : ContentsBounded T.toList) (p : MProof) :
    (∃ e, verifyProof H (hashWith H T) p = .error e) ∨
    (∃ s, verifyProof H (hashWith H T) p = .ok s ∧ SubT H s T) := by
  cases h : verifyProof H (hashWith H T) p with
  | error e => exact Or.inl ⟨e, rfl⟩
  | ok s => exact Or.inr ⟨s, rfl, verify_sound hinj hlen h T hwf hb rfl⟩

/-- **Answers cannot lie.** A lookup answered from an accepted proof without dereferencing a
hash-only pointer returns the tree's answer: presence with the true value or true absence. -/
theorem lookup_sound {H : Bytes → Bytes} (hinj : Function.Injective H) (hlen : ∀ x, (H x).length = 32)
    {root : Bytes} {p : MProof} {s : PT} (h : verifyProof H root p = .ok s)
    (T : Trie) (hwf : WF T) (hb : ContentsBounded T.toList) (hr : hashWith H T = root)
    (k : Bytes) (a : Option Bytes) (hg : s.getAux (H []) k 0 = some a) : T.get k = a :=
  sub_getAux (noColl_of_injective hinj ([] :: trieInputs H T)) List.mem_cons_self k s T 0 a
    (fun _ hx => List.mem_cons_of_mem _ hx) (verify_sound hinj hlen h T hwf hb hr) hg

/-- `lookup_sound` with collisions excluded only among the hashed strings. -/
theorem lookup_sound_nc {H : Bytes → Bytes} (hlen : ∀ x, (H x).length = 32)
    {root : Bytes} {p : MProof} {s : PT} (h : verifyProof H root p = .ok s)
    (T : Trie) (hwf : WF T) (hb : ContentsBounded T.toList) (hr : hashWith H T = root)
    (hnc : NoColl H ([] :: (ptInputs H s ++ trieInputs H T)))
    (k : Bytes) (a : Option Bytes) (hg : s.getAux (H []) k 0 = some a) : T.get k = a := by
  have hsub := verify_sound_nc hlen h T hwf hb hr
    (fun x hx y hy => hnc x (List.mem_cons_of_mem _ hx) y (List.mem_cons_of_mem _ hy))
  exact sub_getAux hnc List.mem_cons_self k s T 0 a
    (fun _ hx => List.mem_cons_of_mem _ (List.mem_append_right _ hx)) hsub hg

/-- The write log of `VerifyProofToWriteLog` contains only true key/value pairs. -/
theorem writelog_sound {H : Bytes → Bytes} (hinj : Function.Injective H) (hlen : ∀ x, (H x).length = 32)
    {root : Bytes} {p : MProof} {s : PT} (h : verifyProof H root p = .ok s)
    (T : Trie) (hwf : WF T) (hb : ContentsBounded T.toList) (hr : hashWith H T = root) :
    ∀ kv ∈ s.writeLog, T.get kv.1 = some kv.2 := by
  intro kv hkv
  have hm := sub_writeLog s T (verify_sound hinj hlen h T hwf hb hr) kv hkv
  rw [get_eq_smap hwf, smap_get_eq_some (wf_sorted hwf)]
  exact hm

/-- `MergeVerifiedSubtree` of two sub-trees of the tree is a sub-tree of the tree. -/
theorem merge_sound {H : Bytes → Bytes} (dst sub m : PT) (T : Trie)
    (hd : SubT H dst T) (hs : SubT H sub T) (hm : PT.merge H dst sub = some m) : SubT H m T :=
  merge_sub dst sub m T hd hs hm

/-- One `remoteSync` keeps the client's nodes a sub-tree of the tree, whatever the response. -/
theorem clientSync_sound {H : Bytes → Bytes} (hinj : Function.Injective H) (hlen : ∀ x, (H x).length = 32)
    (T : Trie) (hwf : WF T) (hb : ContentsBounded T.toList) (s : PT) (hs : SubT H s T)
    (ptrHash : Bytes) (resp : MProof) : SubT H (clientSync H (hashWith H T) s ptrHash resp) T := by
  have hbd := wfAt_bounded hwf hb
  unfold clientSync
  split
  · split
    · next sub hv =>
      exact graft_sub ptrHash sub (fun t' hb' hh => verifyProof_sub hinj hlen hv hb' hh) s T hbd hs
    · exact hs
  · split
    · split
      · next sub hv =>
        have hsub := verifyProof_sub hinj hlen hv hbd rfl
        cases hm : PT.merge H s sub with
        | none => exact hs
        | some m => exact merge_sub s sub m T hs hsub hm
      · exact hs
    · exact hs

/-- **Remote reads.** A reader that holds only the trusted root and reads through an untrusted
peer: after ANY sequence of responses (honest or adversarial; for the dereferenced pointer or for
the root) the nodes it holds are a sub-tree of the real tree … -/
theorem remote_state_sound {H : Bytes → Bytes} (hinj : Function.Injective H) (hlen : ∀ x, (H x).length = 32)
    (T : Trie) (hwf : WF T) (hb : ContentsBounded T.toList) (steps : List (Bytes × MProof)) :
    SubT H (clientRun H (hashWith H T) steps) T := by
  unfold clientRun
  have : ∀ (s : PT), SubT H s T →
      SubT H (steps.foldl (fun s x => clientSync H (hashWith H T) s x.1 x.2) s) T := by
    induction steps with
    | nil => intro s hs; exact hs
    | cons x xs ih =>
      intro s hs
      exact ih _ (clientSync_sound hinj hlen T hwf hb s hs x.1 x.2)
  exact this _ rfl

/-- … hence every answer it gives is the full replica's answer (the alternative is an error:
`getAux = none`, a pointer that could not be dereferenced). -/
theorem remote_read_sound {H : Bytes → Bytes} (hinj : Function.Injective H) (hlen : ∀ x, (H x).length = 32)
    (T : Trie) (hwf : WF T) (hb : ContentsBounded T.toList) (steps : List (Bytes × MProof))
    (k : Bytes) (a : Option Bytes)
    (hg : (clientRun H (hashWith H T) steps).getAux (H []) k 0 = some a) : T.get k = a :=
  sub_getAux (noColl_of_injective hinj ([] :: trieInputs H T)) List.mem_cons_self k _ T 0 a
    (fun _ hx => List.mem_cons_of_mem _ hx) (remote_state_sound hinj hlen T hwf hb steps) hg

/-- **Iteration from verified nodes cannot lie and cannot skip.** A client that iterates (Seek `key`, then
`Next`) over the tree rebuilt from an accepted proof — or over whatever it holds after any sequence of
adversarial responses — and obtains `n` items (or reaches the end) without having to dereference a
hash-only pointer, has obtained exactly the first `n` items with key ≥ `key` of the real tree: every
yielded key/value is a true one and no true key in the range is missing. (`ptIterate` is iterator.go's
machine on verified nodes, `OasisModel/Mkvs/ProofIter.lean`.) -/
theorem iterate_sound {H : Bytes → Bytes} (hinj : Function.Injective H) (hlen : ∀ x, (H x).length = 32)
    {root : Bytes} {p : MProof} {s : PT} (h : verifyProof H root p = .ok s)
    (T : Trie) (hwf : WF T) (hb : ContentsBounded T.toList) (hr : hashWith H T = root)
    (key : Bytes) (n : Nat) (items : List KV) (hit : ptIterate (H []) s key n = some items) :
    items = (SMap.seekGE T.toList key).take n := by
  rw [seekGE_eq_firstGE (wf_sorted hwf)]
  exact ptIterate_exact hinj s T hwf (verify_sound hinj hlen h T hwf hb hr) key n items hit

/-- The same for a remote reader after any session of responses. -/
theorem remote_iterate_sound {H : Bytes → Bytes} (hinj : Function.Injective H) (hlen : ∀ x, (H x).length = 32)
    (T : Trie) (hwf : WF T) (hb : ContentsBounded T.toList) (steps : List (Bytes × MProof))
    (key : Bytes) (n : Nat) (items : List KV)
    (hit : ptIterate (H []) (clientRun H (hashWith H T) steps) key n = some items) :
    items = (SMap.seekGE T.toList key).take n := by
  rw [seekGE_eq_firstGE (wf_sorted hwf)]
  exact ptIterate_exact hinj _ T hwf (remote_state_sound hinj hlen T hwf hb steps) key n items hit

/-! ### Completeness -/

/-- **Completeness, exact form.** For ANY set of included nodes (lookup path, prefix fetch,
iteration, chunk — whatever the caller of `ProofBuilder.Include` visited), either proof version:
the built proof verifies against the tree's root if and only if its deepest entry is at most
`maxProofDepth` levels below the root entry; it then rebuilds exactly the included part of the
tree. Otherwise the verifier answers "max proof depth exceeded". -/
theorem build_verifies_iff {H : Bytes → Bytes} (hlen : ∀ x, (H x).length = 32) (ver : Nat) (hver : ver ≤ 1)
    (incl : List Bytes) (T : Trie) (hwf : WF T) (hb : ContentsBounded T.toList) :
    verifyProof H (hashWith H T) (build (H []) ver incl (annotate H T)) =
      if proofDepth ver incl (annotate H T) ≤ maxProofDepth then .ok (restrict ver incl (annotate H T))
      else .error .maxDepth := by
  have := verifyProof_build hlen ver hver incl (annotate H T) (annotate_ok H (wfAt_bounded hwf hb))
  rw [annotate_hash] at this
  exact this

/-- Completeness for trees within the depth bound. -/
theorem build_verifies {H : Bytes → Bytes} (hlen : ∀ x, (H x).length = 32) (ver : Nat) (hver : ver ≤ 1)
    (incl : List Bytes) (T : Trie) (hwf : WF T) (hb : ContentsBounded T.toList)
    (hd : (annotate H T).ptrDepth ≤ maxProofDepth) :
    verifyProof H (hashWith H T) (build (H []) ver incl (annotate H T)) =
      .ok (restrict ver incl (annotate H T)) := by
  rw [build_verifies_iff hlen ver hver incl T hwf hb, if_pos]
  exact Nat.le_trans (proofDepth_le_ptrDepth _ _ _) hd

/-- **Lookup proofs resolve their key.** The proof `SyncGet` builds for key `k` (either version,
siblings on or off) verifies against the root and answers `k` with the tree's answer — the true
value or true absence — provided the lookup path is at most `maxProofDepth` deep. -/
theorem lookup_proof_complete_partial {H : Bytes → Bytes} (hlen : ∀ x, (H x).length = 32) (ver : Nat) (hver : ver ≤ 1)
    (sib : Bool) (k : Bytes) (T : Trie) (hwf : WF T) (hb : ContentsBounded T.toList)
    (hd : proofDepth ver (inclGet ver sib k (annotate H T) 0 false {}).incl (annotate H T) ≤ maxProofDepth) :
    ∃ s, verifyProof H (hashWith H T) (proofGet (H []) ver sib k (annotate H T)) = .ok s ∧
      s.getAux (H []) k 0 = some (T.get k) := by
  refine ⟨restrict ver (inclGet ver sib k (annotate H T) 0 false {}).incl (annotate H T), ?_, ?_⟩
  · unfold proofGet
    rw [build_verifies_iff hlen ver hver _ T hwf hb, if_pos hd]
  · have := restrict_getAux (H []) ver sib k (inclGet ver sib k (annotate H T) 0 false {}).incl (annotate H T)
      0 {} (fun x hx => hx)
    rw [annotate_erase] at this
    exact this

/-- The same for every tree whose deepest pointer is within the bound. -/
theorem lookup_proof_complete_shallow {H : Bytes → Bytes} (hlen : ∀ x, (H x).length = 32) (ver : Nat) (hver : ver ≤ 1)
    (sib : Bool) (k : Bytes) (T : Trie) (hwf : WF T) (hb : ContentsBounded T.toList)
    (hd : (annotate H T).ptrDepth ≤ maxProofDepth) :
    ∃ s, verifyProof H (hashWith H T) (proofGet (H []) ver sib k (annotate H T)) = .ok s ∧
      s.getAux (H []) k 0 = some (T.get k) :=
  lookup_proof_complete_partial hlen ver hver sib k T hwf hb
    (Nat.le_trans (proofDepth_le_ptrDepth _ _ _) hd)

/-- **Iteration proofs resolve every item iterated over.** The proof `SyncIterate` builds for seek key
`key` and `prefetch` further items (either version) verifies against the root, and a lookup of each of
the first `prefetch + 1` items with key ≥ `key` in the rebuilt tree answers with the item's value —
for every tree within the depth bound. (The iterator model is `OasisModel/Mkvs/Chunk.lean`
`itSeek`/`itNext`, compared byte for byte with real `SyncIterate` responses; its ordering correctness
comes from `OasisProofs/Helpers/MkvsIterMachine.lean` through `MkvsIterBridge.lean`.) -/
theorem iterate_proof_complete {H : Bytes → Bytes} (hlen : ∀ x, (H x).length = 32) (ver : Nat) (hver : ver ≤ 1)
    (key : Bytes) (prefetch : Nat) (T : Trie) (hwf : WF T) (hb : ContentsBounded T.toList)
    (hd : (annotate H T).ptrDepth ≤ maxProofDepth) :
    ∃ s, verifyProof H (hashWith H T) (proofIterate (H []) ver key prefetch (annotate H T)) = .ok s ∧
      ∀ kv ∈ (SMap.seekGE T.toList key).take (prefetch + 1), s.getAux (H []) kv.1 0 = some (some kv.2) := by
  have hwf' : WF (annotate H T).erase := by rw [annotate_erase]; exact hwf
  refine ⟨restrict ver (itAdvance ver prefetch (itSeek ver (annotate H T) key {})).b.incl (annotate H T), ?_, ?_⟩
  · unfold proofIterate
    exact build_verifies hlen ver hver _ T hwf hb hd
  · intro kv hkv
    rw [seekGE_eq_firstGE (wf_sorted hwf)] at hkv
    have hv := proofIterate_visits ver (annotate H T) hwf' key prefetch kv (by rw [annotate_erase]; exact hkv)
    exact visited_getAux (H []) ver hv hwf'

/-- **Prefix proofs resolve every item asked about.** The proof `SyncGetPrefixes` builds for a list of
prefixes and a limit verifies against the root and resolves every item the request covers
(`askedOuter`: for each prefix in turn the items under it, until the limit is reached). -/
theorem prefixes_proof_complete {H : Bytes → Bytes} (hlen : ∀ x, (H x).length = 32) (ver : Nat) (hver : ver ≤ 1)
    (prefixes : List Bytes) (limit : Nat) (T : Trie) (hwf : WF T) (hb : ContentsBounded T.toList)
    (hd : (annotate H T).ptrDepth ≤ maxProofDepth) :
    ∃ s, verifyProof H (hashWith H T) (proofPrefixes (H []) ver prefixes limit (annotate H T)) = .ok s ∧
      ∀ kv ∈ askedOuter limit T.toList prefixes 0, s.getAux (H []) kv.1 0 = some (some kv.2) := by
  have hwf' : WF (annotate H T).erase := by rw [annotate_erase]; exact hwf
  refine ⟨restrict ver (prefixOuter ver limit (annotate H T) ((annotate H T).count + 1) prefixes {} 0).incl
    (annotate H T), ?_, ?_⟩
  · unfold proofPrefixes
    exact build_verifies hlen ver hver _ T hwf hb hd
  · intro kv hkv
    have hsp := prefixOuter_spec ver limit (annotate H T) hwf' ((annotate H T).count + 1)
      (by rw [count_eq_length]; omega) prefixes {} 0
    rw [annotate_erase] at hsp
    exact visited_getAux (H []) ver (hsp.2 kv hkv) hwf'

/- Full-strength statement that does NOT hold (hence `_partial` above): the depth hypothesis `hd`
cannot be dropped. The tree accepts keys whose path is deeper than `maxProofDepth`; the honest
proof for such a key is rejected (known finding F3, a deliberate denial-of-service bound of the
verifier). The negation is proved as a concrete witness: -/

/-- 130 keys `00, 0000, …, 00^130`, each a proper prefix of the next. -/
def deepTree : Trie := chainFrom 1 129

def deepKey : Bytes := zeros 130

/-- **The depth bound bites.** `deepTree` is a canonical tree within all size bounds that stores
`deepKey`, yet the honest lookup proof for `deepKey` (either version, siblings on or off, any hash
function with 32-byte output) is rejected by the verifier with "max proof depth exceeded". -/
theorem deep_chain_rejected {H : Bytes → Bytes} (hlen : ∀ x, (H x).length = 32) (ver : Nat) (hver : ver ≤ 1)
    (sib : Bool) :
    WF deepTree ∧ ContentsBounded deepTree.toList ∧ deepTree.get deepKey = some [1] ∧
    verifyProof H (hashWith H deepTree) (proofGet (H []) ver sib deepKey (annotate H deepTree)) =
      .error .maxDepth := by
  have hwf : WF deepTree := chain_wf 129
  have hb : ContentsBounded deepTree.toList := chain_contents_bounded 129 (by decide)
  refine ⟨hwf, hb, ?_, ?_⟩
  · rw [get_eq_smap hwf, smap_get_eq_some (wf_sorted hwf)]
    exact chain_mem 129 1
  · unfold proofGet
    rw [build_verifies_iff hlen ver hver _ deepTree hwf hb]
    have hd := chain_proofDepth H ver sib (inclGet ver sib deepKey (annotate H deepTree) 0 false {}).incl
      129 0 130 {} rfl (fun x hx => hx)
    have hd' : proofDepth ver (inclGet ver sib deepKey (annotate H deepTree) 0 false {}).incl
        (annotate H deepTree) = 129 := hd
    rw [hd', if_neg (by decide)]

/-! ### Non-vacuity -/

/-- A hash function with 32-byte output that has no collision among the strings hashed in a small
tree and its proof: the hypotheses of the `_nc` theorems are satisfiable (global injectivity
together with a fixed output length is not — it is an idealisation). -/
def padHash (x : Bytes) : Bytes :=
  let n := x.foldl (fun acc b => (acc * 257 + b.toNat + 1) % (2 ^ 255 - 19)) 7
  (List.range 32).map (fun i => UInt8.ofNat (n / 256 ^ i % 256))

example : ∀ x, (padHash x).length = 32 := by intro x; simp [padHash]

def smallTree : Trie := (Trie.nil.insert [0x61] [1]).insert [0x62] [2]

example : WF smallTree := wf_insert (wf_insert (by trivial) _ _) _ _

instance : DecidableEq (Except VErr PT) := fun a b =>
  match a, b with
  | .ok x, .ok y => if h : x = y then isTrue (by rw [h]) else isFalse (fun e => h (by injection e))
  | .error x, .error y => if h : x = y then isTrue (by rw [h]) else isFalse (fun e => h (by injection e))
  | .ok _, .error _ => isFalse (fun e => by cases e)
  | .error _, .ok _ => isFalse (fun e => by cases e)

def verdict (r : Except VErr PT) : Option VErr :=
  match r with
  | .ok _ => none
  | .error e => some e

def smallProof : MProof := proofGet (padHash []) 1 false [0x61] (annotate padHash smallTree)

/-- What the verifier rebuilds from the honest proof for key `61`. -/
def smallPT : PT :=
  restrict 1 (inclGet 1 false [0x61] (annotate padHash smallTree) 0 false {}).incl (annotate padHash smallTree)

/-- An honest lookup proof of the small tree is accepted, resolves its key, and the no-collision
hypothesis of `lookup_sound_nc` holds for it. -/
example : verifyProof padHash (hashWith padHash smallTree) smallProof = .ok smallPT ∧
    smallPT.getAux (padHash []) [0x61] 0 = some (some [1]) ∧
    NoColl padHash ([] :: (ptInputs padHash smallPT ++ trieInputs padHash smallTree)) := by
  refine ⟨by decide +kernel, by decide +kernel, ?_⟩
  unfold NoColl
  decide +kernel

/-- A fabricated proof (value of key `61` replaced) is rejected. -/
example : verdict (verifyProof padHash (hashWith padHash smallTree)
    { v := 1, untrusted := hashWith padHash smallTree,
      entries := smallProof.entries.map (fun e => if e = some [1, 0, 1, 0, 0x61, 1, 0, 0, 0, 1]
        then some [1, 0, 1, 0, 0x61, 1, 0, 0, 0, 9] else e) }) = some .badRoot := by decide +kernel

example : smallProof.entries.contains (some [1, 0, 1, 0, 0x61, 1, 0, 0, 0, 1]) = true := by decide +kernel

/-- The depth hypothesis of completeness is satisfiable (and needed: `deep_chain_rejected`). -/
example : (annotate padHash smallTree).ptrDepth ≤ maxProofDepth := by decide +kernel

end OasisProofs.C04
