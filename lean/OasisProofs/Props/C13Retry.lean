import OasisProofs.Helpers.MkvsCommitRetry
/-
C13 — storage sync applies exactly the announced transition: commit, failed commit and retry on
ONE tree object.

Model: `OasisModel.Mkvs.RetryTree` (OasisModel/Mkvs/CommitRetry.lean) mirroring `commitWithHooks`
(go/storage/mkvs/commit.go:45-145): `NewBatch` (commit.go:75), `doCommit` (commit.go:86), the
`beforeDbCommit` hook of `CommitKnown` (commit.go:29-39, 92-96) BEFORE `batch.PutWriteLog`
(commit.go:126) and `batch.Commit(root)` (commit.go:136); `pendingWriteLog`, `pendingRemovedNodes`
and the sync root are reset ONLY after `batch.Commit` succeeded (commit.go:140-142). The pending log
coalesces as in insert.go:41-57 / remove.go:27-47 (the `TreeState` of Tree.lean).

All theorems are for an arbitrary hash function `H`, an arbitrary canonical start tree and ALL
histories (lists of `Event`: inserts, removes, `Commit` / `CommitKnown` with any database outcome,
`NoPersist` commits).  The only hypothesis is `WF t₀` (the tree under the durable root is the
canonical trie of its contents — established by C02/C03 for every tree the code builds).
-/
namespace OasisProofs.C13Retry
open OasisModel.Mkvs OasisProofs.Mkvs OasisProofs.C13
open OasisModel.Mkvs.RetryTree

/-! ### (2) a rejected commit changes nothing -/

/-- `Commit` / `CommitKnown` against a database that rejects (at `NewBatch`, or at `PutWriteLog` /
`RemoveNodes` / `batch.Commit`): the whole state of the tree object — in-memory tree, pending write
log, durable root, stored logs — is unchanged, and no log is returned. -/
theorem rejected_commit_changes_nothing (H : Bytes → Bytes) (s : RetryTree) (expected : Option Bytes)
    (o : DbOutcome) (ho : o ≠ .accepts) :
    (commitWithHooks H s expected o).1 = s ∧ (commitWithHooks H s expected o).2.log? = none :=
  commitWithHooks_refused H s expected o (Or.inl ho)

/-- The same, field by field, for `tree.Commit` with a database rejecting `batch.Commit(root)`. -/
theorem rejected_commit_fields (H : Bytes → Bytes) (s : RetryTree) :
    (commit H s false).1.mem.root = s.mem.root ∧
    (commit H s false).1.mem.pending = s.mem.pending ∧
    (commit H s false).1.durable = s.durable ∧
    (commit H s false).1.db = s.db ∧
    (commit H s false).2 = .dbError := by
  have h : commit H s false = (s, .dbError) := by simp [commit, commitWithHooks, hookPasses]
  rw [h]; exact ⟨rfl, rfl, rfl, rfl, rfl⟩

/-- A `NoPersist` commit changes nothing either (and does return the log). -/
theorem nopersist_changes_nothing (H : Bytes → Bytes) (s : RetryTree) :
    (commitNoPersist H s).1 = s := rfl

/-! ### (3) `CommitKnown` with a wrong expected root -/

/-- `CommitKnown` with an expected hash different from the hash of the pending tree is refused in the
`beforeDbCommit` hook, before `PutWriteLog` and `batch.Commit`: whatever the database would have
answered, the durable root and the stored logs (and the whole tree object) are unchanged, no log is
returned, and (unless `NewBatch` already failed) the error is `ErrKnownRootMismatch`. -/
theorem commit_known_mismatch_persists_nothing (H : Bytes → Bytes) (s : RetryTree) (expected : Bytes)
    (o : DbOutcome) (hne : hashWith H s.mem.root ≠ expected) :
    (commitKnown H s expected o).1 = s ∧
    (commitKnown H s expected o).2.log? = none ∧
    (o ≠ .rejectsNewBatch → (commitKnown H s expected o).2 = .knownRootMismatch) := by
  have hp : hookPasses (hashWith H s.mem.root) (some expected) = false := by
    cases hp : hookPasses (hashWith H s.mem.root) (some expected) with
    | false => rfl
    | true => exact absurd ((hookPasses_some _ _).1 hp) hne
  obtain ⟨h1, h2⟩ := commitWithHooks_refused H s (some expected) o (Or.inr hp)
  refine ⟨h1, h2, fun ho => ?_⟩
  rcases commitWithHooks_cases H s (some expected) o with ⟨_, _⟩ | ⟨hc, _, _⟩ | ⟨_, hp', _⟩
  · cases o <;> simp_all [commitWithHooks]
  · exact congrArg Prod.snd hc
  · rw [hp] at hp'; cases hp'

/-- Connection to `apply_checked_mismatch`: `RootCache.Apply` on the tree-object model (fresh tree at
the old root, `ApplyWriteLog`, `CommitKnown`) persists something exactly when the functional model
`applyCheckedWith` returns a tree.  On mismatch the durable root is still the old one and the
database holds no new log; on success the durable tree is the returned one and exactly one log was
stored for old → new. -/
theorem rootCacheApply_applyChecked (H : Bytes → Bytes) (old : Trie) (db : List StoredLog)
    (expected : Bytes) (L : List LogEntry) :
    match applyCheckedWith H old expected L with
    | none =>
        (rootCacheApply H old db expected L).2 = .knownRootMismatch ∧
        (rootCacheApply H old db expected L).1.durable = old ∧
        (rootCacheApply H old db expected L).1.db = db
    | some t =>
        (rootCacheApply H old db expected L).1.durable = t ∧
        (rootCacheApply H old db expected L).1.mem = { root := t, pending := [] } ∧
        ∃ stored, (rootCacheApply H old db expected L).1.db = db ++ [⟨old, t, stored⟩] ∧
          (rootCacheApply H old db expected L).2 = .ok expected stored := by
  by_cases hh : hashWith H (TreeState.applyWriteLog { root := old } L).root = expected
  · have e : applyCheckedWith H old expected L = some (TreeState.applyWriteLog { root := old } L).root := by
      simp [applyCheckedWith, hh]
    rw [e]
    have hp : hookPasses (hashWith H ((openAt old db).applyWriteLog L).mem.root) (some expected) = true :=
      (hookPasses_some _ _).2 hh
    have hc : rootCacheApply H old db expected L =
        (((openAt old db).applyWriteLog L).committed,
          .ok (hashWith H ((openAt old db).applyWriteLog L).mem.root)
            ((openAt old db).applyWriteLog L).mem.writeLog) := by
      rcases commitWithHooks_cases H ((openAt old db).applyWriteLog L) (some expected) .accepts with
        ⟨_, ho⟩ | ⟨_, hp', _⟩ | ⟨hc, _, _⟩
      · exact absurd rfl ho
      · rw [hp] at hp'; cases hp'
      · exact hc
    rw [hc]
    refine ⟨rfl, rfl, _, rfl, ?_⟩
    show CommitResult.ok (hashWith H (TreeState.applyWriteLog { root := old } L).root) _ = _
    rw [hh]
  · have e : applyCheckedWith H old expected L = none := (apply_checked_mismatch H old expected L).2 hh
    rw [e]
    obtain ⟨h1, _, h3⟩ := commit_known_mismatch_persists_nothing H ((openAt old db).applyWriteLog L)
      expected .accepts hh
    refine ⟨h3 (by decide), ?_, ?_⟩
    · show (commitKnown H ((openAt old db).applyWriteLog L) expected .accepts).1.durable = old
      rw [h1]; rfl
    · show (commitKnown H ((openAt old db).applyWriteLog L) expected .accepts).1.db = db
      rw [h1]; rfl

/-- `apply_checked_mismatch`, read on the tree object: the functional model refuses exactly when
`CommitKnown` answers `ErrKnownRootMismatch`, and then nothing was persisted. -/
theorem rootCacheApply_mismatch_iff (H : Bytes → Bytes) (old : Trie) (db : List StoredLog)
    (expected : Bytes) (L : List LogEntry) :
    applyCheckedWith H old expected L = none ↔
      (rootCacheApply H old db expected L).2 = .knownRootMismatch ∧
      (rootCacheApply H old db expected L).1.durable = old ∧
      (rootCacheApply H old db expected L).1.db = db := by
  have h := rootCacheApply_applyChecked H old db expected L
  cases ha : applyCheckedWith H old expected L with
  | none => rw [ha] at h; exact ⟨fun _ => h, fun _ => rfl⟩
  | some t =>
    rw [ha] at h
    obtain ⟨_, _, stored, _, h4⟩ := h
    constructor
    · intro hc; cases hc
    · rintro ⟨hc, _⟩; rw [h4] at hc; cases hc

/-! ### (1) the log of the accepted commit is complete, whatever was rejected before -/

/-- Every history: whenever any commit of the tree object hands out a log (an accepted `Commit` /
`CommitKnown`, or a `NoPersist` commit), that log — in any order of its entries — maps the contents
of the last DURABLE root to the in-memory contents being committed, and the returned hash is the
hash of that tree.  The history before may contain any number of accepted, rejected and refused
commits at any positions. -/
theorem commit_log_maps_durable (H : Bytes → Bytes) (t₀ : Trie) (h : WF t₀) (evs : List Event)
    (ev : Event) (hash : Bytes) (L L' : List LogEntry)
    (hr : (step H (run H (openAt t₀) evs) ev).2 = some (.ok hash L)) (hL : L'.Perm L) :
    applyLogSpec (run H (openAt t₀) evs).durable.toList L' = (run H (openAt t₀) evs).mem.root.toList ∧
    hash = hashWith H (run H (openAt t₀) evs).mem.root := by
  have hi := rinv_run (rinv_open h) H evs
  generalize run H (openAt t₀) evs = s at hi hr
  have key : L = s.mem.writeLog ∧ hash = hashWith H s.mem.root := by
    cases ev with
    | insert k v => simp [step] at hr
    | remove k => simp [step] at hr
    | commitNoPersist =>
      simp only [step, commitNoPersist, Option.some.injEq, CommitResult.ok.injEq] at hr
      exact ⟨hr.2.symm, hr.1.symm⟩
    | commit o =>
      simp only [step, Option.some.injEq] at hr
      rcases commitWithHooks_cases H s none o with ⟨hc, _⟩ | ⟨hc, _⟩ | ⟨hc, _⟩ <;> rw [hc] at hr
      · cases hr
      · cases hr
      · simp only [CommitResult.ok.injEq] at hr; exact ⟨hr.2.symm, hr.1.symm⟩
    | commitKnown e o =>
      simp only [step, Option.some.injEq] at hr
      rcases commitWithHooks_cases H s (some e) o with ⟨hc, _⟩ | ⟨hc, _⟩ | ⟨hc, _⟩ <;> rw [hc] at hr
      · cases hr
      · cases hr
      · simp only [CommitResult.ok.injEq] at hr; exact ⟨hr.2.symm, hr.1.symm⟩
  obtain ⟨rfl, rfl⟩ := key
  refine ⟨?_, rfl⟩
  rw [applyLogSpec_perm (wf_sorted hi.wfd) (writeLog_nodup hi.tinv) hL]
  exact writeLog_applies (wf_sorted hi.wfd) hi.tinv

/-- Every history: every log the database stored maps the contents of its old root to the contents
of its new root, the records follow each other, and replaying all of them from the contents of the
root the tree was opened at gives the contents of the current durable root. -/
theorem stored_logs_sound (H : Bytes → Bytes) (t₀ : Trie) (h : WF t₀) (evs : List Event) :
    (∀ r ∈ (run H (openAt t₀) evs).db, applyLogSpec r.oldRoot.toList r.log = r.newRoot.toList) ∧
    Chained t₀ (run H (openAt t₀) evs).db (run H (openAt t₀) evs).durable ∧
    applyLogSpec t₀.toList ((run H (openAt t₀) evs).db.flatMap (·.log)) =
      (run H (openAt t₀) evs).durable.toList := by
  have hi := rinv_run (rinv_open h) H evs
  exact ⟨chained_mem hi.chain, hi.chain, chained_replay hi.chain⟩

/-- RETRY: a tree opened at the durable root `t₀`; then ANY interleaving of writes, commits the
database rejects (at `NewBatch` or at `batch.Commit`), `CommitKnown`s with a wrong expected hash and
`NoPersist` commits — none accepted; finally a commit the database accepts.  The accepted commit
returns AND stores one log `L`, for the transition `t₀ → new`, where `new` is the tree of all the
writes of the history (the rejected commits in between are invisible); `L`, in any order, maps the
contents of `t₀` to the contents of `new`; the tree is clean at the new durable root afterwards. -/
theorem retry_log_complete (H : Bytes → Bytes) (t₀ : Trie) (h : WF t₀) (db₀ : List StoredLog)
    (evs : List Event) (hun : Unaccepted H (openAt t₀ db₀) evs) :
    ∃ L new,
      commit H (run H (openAt t₀ db₀) evs) true =
        ({ durable := new, mem := { root := new, pending := [] },
           db := db₀ ++ [{ oldRoot := t₀, newRoot := new, log := L }] },
         .ok (hashWith H new) L) ∧
      new = (run H (openAt t₀ db₀) evs).mem.root ∧
      new = (runBatch t₀ (writesOf evs)).root ∧
      L = (runBatch t₀ (writesOf evs)).writeLog ∧
      ∀ L', L'.Perm L → applyLogSpec t₀.toList L' = new.toList := by
  refine ⟨(runBatch t₀ (writesOf evs)).writeLog, (runBatch t₀ (writesOf evs)).root, ?_, ?_, rfl, rfl, ?_⟩
  · rw [run_unaccepted H _ evs hun]
    simp [commit, commitWithHooks, hookPasses, committed, openAt, runBatch]
  · rw [run_unaccepted H _ evs hun]; rfl
  · intro L' hL'
    exact writelog_of_ops t₀ h (writesOf evs) L' hL'

/-- The same with the syntactic condition: only writes, commits with a rejecting database and
`NoPersist` commits before the accepted one. -/
theorem retry_log_complete_rejected (H : Bytes → Bytes) (t₀ : Trie) (h : WF t₀) (db₀ : List StoredLog)
    (evs : List Event) (hrej : ∀ ev ∈ evs, Event.rejected ev = true) (L' : List LogEntry)
    (hL' : ∀ L, (commit H (run H (openAt t₀ db₀) evs) true).2.log? = some L → L'.Perm L) :
    applyLogSpec t₀.toList L' = (commit H (run H (openAt t₀ db₀) evs) true).1.durable.toList ∧
    (commit H (run H (openAt t₀ db₀) evs) true).1.durable = (run H (openAt t₀ db₀) evs).mem.root := by
  obtain ⟨L, new, hc, hn, _, _, hperm⟩ :=
    retry_log_complete H t₀ h db₀ evs (unaccepted_of_rejected H _ evs hrej)
  rw [hc] at hL' ⊢
  exact ⟨hperm L' (hL' L rfl), hn⟩

/-- The retry may also be a `CommitKnown` with the right expected hash (what `RootCache.Apply`
does): same conclusion. -/
theorem retry_log_complete_known (H : Bytes → Bytes) (t₀ : Trie) (h : WF t₀) (db₀ : List StoredLog)
    (evs : List Event) (hun : Unaccepted H (openAt t₀ db₀) evs) :
    ∃ L,
      commitKnown H (run H (openAt t₀ db₀) evs) (hashWith H (runBatch t₀ (writesOf evs)).root) =
        ((run H (openAt t₀ db₀) evs).committed, .ok (hashWith H (runBatch t₀ (writesOf evs)).root) L) ∧
      (run H (openAt t₀ db₀) evs).committed.durable = (runBatch t₀ (writesOf evs)).root ∧
      (run H (openAt t₀ db₀) evs).committed.db =
        db₀ ++ [{ oldRoot := t₀, newRoot := (runBatch t₀ (writesOf evs)).root, log := L }] ∧
      ∀ L', L'.Perm L → applyLogSpec t₀.toList L' = (runBatch t₀ (writesOf evs)).root.toList := by
  refine ⟨(runBatch t₀ (writesOf evs)).writeLog, ?_, ?_, ?_, fun L' hL' => writelog_of_ops t₀ h _ L' hL'⟩
  · rw [run_unaccepted H _ evs hun]
    simp [commitKnown, commitWithHooks, hookPasses, openAt, runBatch]
  · rw [run_unaccepted H _ evs hun]; rfl
  · rw [run_unaccepted H _ evs hun]; rfl

/-- "None accepted" is exactly "no step changed what the database stores". -/
theorem refused_iff_nothing_stored (H : Bytes → Bytes) (s : RetryTree) (ev : Event) :
    RefusedAt H s ev ↔ (step H s ev).1.db = s.db := refusedAt_iff_db H s ev

/-! ### (4) the seeded mutation: pending log reset before the database commit -/

namespace Witness

def tA : Trie := Trie.ofList [([0x61], [1])]
/-- a write, a commit the database rejects at `batch.Commit`, another write. -/
def history : List Event := [.insert [0x62] [2], .commit .rejectsCommit, .insert [0x63] [3]]

/-- toy hash for the examples (any function will do; this one is injective). -/
def Hid : Bytes → Bytes := fun x => x

end Witness

open Witness in
/-- With the pending log reset right after `PutWriteLog` (before `batch.Commit`), reject + more
writes + accept returns a log that does NOT reach the new contents: the write made before the
rejected commit is in the committed tree but in no log.  (For every hash function.) -/
theorem early_reset_truncates_log (H : Bytes → Bytes) :
    WF tA ∧ (∀ ev ∈ history, Event.rejected ev = true) ∧
    ∃ L, (commitEarlyReset H (runEarlyReset H (openAt tA) history) none .accepts).2.log? = some L ∧
      L = [([0x63], some [3])] ∧
      (commitEarlyReset H (runEarlyReset H (openAt tA) history) none .accepts).1.durable.toList =
        [([0x61], [1]), ([0x62], [2]), ([0x63], [3])] ∧
      applyLogSpec tA.toList L = [([0x61], [1]), ([0x63], [3])] ∧
      applyLogSpec tA.toList L ≠
        (commitEarlyReset H (runEarlyReset H (openAt tA) history) none .accepts).1.durable.toList := by
  refine ⟨wf_ofList _, by decide, [([0x63], some [3])], ?_, rfl, ?_, by decide, ?_⟩
  · simp only [history, runEarlyReset, List.foldl, stepEarlyReset, commitEarlyReset_none_accepts,
      commitEarlyReset_none_rejectsCommit, CommitResult.log?]
    decide
  · simp only [history, runEarlyReset, List.foldl, stepEarlyReset, commitEarlyReset_none_accepts,
      commitEarlyReset_none_rejectsCommit]
    decide
  · simp only [history, runEarlyReset, List.foldl, stepEarlyReset, commitEarlyReset_none_accepts,
      commitEarlyReset_none_rejectsCommit]
    decide

open Witness in
/-- The code as it is, on the same history: the log holds both writes and reaches the new contents
(an instance of `retry_log_complete`). -/
theorem witness_correct_commit (H : Bytes → Bytes) :
    (commit H (run H (openAt tA) history) true).2.log? = some [([0x62], some [2]), ([0x63], some [3])] ∧
    applyLogSpec tA.toList [([0x62], some [2]), ([0x63], some [3])] =
      (commit H (run H (openAt tA) history) true).1.durable.toList := by
  constructor
  · simp only [history, run, List.foldl, step, commit, if_true, commitWithHooks_none_accepts,
      commitWithHooks_none_rejects _ _ .rejectsCommit (by decide), CommitResult.log?]
    decide
  · simp only [history, run, List.foldl, step, commit, if_true, commitWithHooks_none_accepts,
      commitWithHooks_none_rejects _ _ .rejectsCommit (by decide)]
    decide

/-- The mutation is wrong for EVERY dirty tree, not only for the witness: reject, then retry at
once — the retried commit returns (and stores) the empty log, which does not lead from the durable
contents to the contents it made durable. -/
theorem early_reset_loses_every_dirty_batch (H : Bytes → Bytes) (s : RetryTree)
    (hdirty : s.mem.root.toList ≠ s.durable.toList) :
    (commitEarlyReset H (commitEarlyReset H s none .rejectsCommit).1 none .accepts).2 =
      .ok (hashWith H s.mem.root) [] ∧
    (commitEarlyReset H (commitEarlyReset H s none .rejectsCommit).1 none .accepts).1.durable = s.mem.root ∧
    applyLogSpec s.durable.toList [] ≠
      (commitEarlyReset H (commitEarlyReset H s none .rejectsCommit).1 none .accepts).1.durable.toList := by
  rw [commitEarlyReset_none_rejectsCommit, commitEarlyReset_none_accepts]
  exact ⟨rfl, rfl, fun h => hdirty h.symm⟩

/-- `hdirty` is satisfiable on a reachable state. -/
example : (run Witness.Hid (openAt Witness.tA) Witness.history).mem.root.toList ≠
    (run Witness.Hid (openAt Witness.tA) Witness.history).durable.toList := by decide

/-! ### (5) non-vacuity -/

namespace Witness

/-- writes (remove-then-reinsert, insert-then-remove, equal overwrite), a rejected `Commit` at each
of the two failure points, a `NoPersist` commit, a `CommitKnown` with a wrong hash that the database
would have accepted, a rejected `CommitKnown`. -/
def longHistory : List Event :=
  [.remove [0x61], .commit .rejectsCommit, .insert [0x61] [7], .commitNoPersist,
   .insert [0x62] [3], .commitKnown [0xde, 0xad] .accepts, .remove [0x62], .commit .rejectsNewBatch,
   .insert [0x80] [], .commitKnown [] .rejectsCommit, .insert [] []]

example : WF tA := wf_ofList _
/-- hypothesis of `retry_log_complete` on a history with a state-dependent refusal. -/
example : Unaccepted Hid (openAt tA) longHistory := by decide
example : ¬ (∀ ev ∈ longHistory, Event.rejected ev = true) := by decide
example : (commit Hid (run Hid (openAt tA) longHistory) true).2.log? =
    some [([0x61], some [7]), ([0x80], some []), ([], some [])] := by decide
example : (commit Hid (run Hid (openAt tA) longHistory) true).1.db.map (·.log) =
    [[([0x61], some [7]), ([0x80], some []), ([], some [])]] := by decide
/-- hypotheses of `rejected_commit_changes_nothing` / `commit_known_mismatch_persists_nothing` on a
dirty tree. -/
example : (run Hid (openAt tA) history).mem.pending ≠ [] ∧
    hashWith Hid (run Hid (openAt tA) history).mem.root ≠ [0xde, 0xad] := by decide
/-- two accepted commits with a rejected one between: two stored logs that chain
(`stored_logs_sound`, `commit_log_maps_durable` on a history WITH accepted commits). -/
example : ((run Hid (openAt tA)
    [.insert [0x62] [2], .commit .accepts, .remove [0x61], .commit .rejectsCommit, .insert [0x63] [3],
     .commit .accepts]).db.map (·.log)) =
    [[([0x62], some [2])], [([0x61], none), ([0x63], some [3])]] := by decide
/-- `rootCacheApply_applyChecked`: both branches occur. -/
example : applyCheckedWith Hid tA [0xde, 0xad] [([0x62], some [2])] = none := by decide
example : (applyCheckedWith Hid tA (hashWith Hid (tA.insert [0x62] [2])) [([0x62], some [2])]).isSome = true := by
  decide

end Witness

end OasisProofs.C13Retry
