import OasisProofs.Helpers.C06Restore
/-
C06 — finalized storage versions stay fully readable until pruned; badger (hash-keyed) backend,
CHECKPOINT (MULTIPART) RESTORE INTO A NON-EMPTY DATABASE.

`Badger.lean` does not model the multipart restore; `BadgerRestore.lean` adds the state after a
completed restore (`restoreSt`: StartMultipartInsert, one chunk batch per chunk, Finalize) and the
variant `restoreSkipVisibleSt` in which `PutNode` does not write a node its probe already finds.

A restored root is special in the bookkeeping of the backend: it is NOT linked as a derived root of
any older root (chunk batches skip the root link, badger.go:1097-1102), so after the restore the last
root of the old chain is a LONE root, and `Prune` of its version deletes every node whose visible
entry was created in that version (badger.go:781-830) — also the nodes the restored tree shares with
it (content addressing: equal subtrees have equal hashes).  What keeps the restored root readable is
only that `PutNode` writes EVERY imported node again at the timestamp of the restored version
(`return ba.bat.Set(nodeKey, data)`, badger.go:1201, whatever the probe at l.1193 says): the reader
of the restored version then sees that entry, and a tombstone written at an earlier timestamp cannot
hide it.  This file proves exactly that, for all states and all later histories:

  (b) `restored_root_readable`          the restored root reads back completely after the restore;
  (c) `restore_preserves_older`         every older root reads back exactly as before;
  (d) `restored_root_survives_pruning`  … and stays readable (and reported) through arbitrarily many
      prunes of older versions in any order, with NO `pruneSafe` assumption;
      `restored_root_survives_history`  … and through every history of commits, finalizations and
      prunes the model accepts or refuses, as long as the restored version itself is not pruned;
      `restored_root_survives_history_reachable`  the same from every reachable state;
  (e) `skip_visible_loses_nodes`        machine-checked: the skipping variant reads back right after
      the restore and LOSES a node of the restored root after two accepted prunes, while HasRoot still
      reports it;
  (f) `skip_visible_same_on_empty`      on a database in which none of the nodes is visible (an empty
      one in particular — the only case the repository's tests and ordinary state sync exercise) the
      two variants are the same state.

  `restoreChunks_refines`, `restoreChunks_survives_history`: the restore performed chunk batch by chunk
      batch followed by the ordinary `finalizeSt` reaches the state `restoreSt` describes, so (d) holds
      for it; `fresh_version_is_needed`: not if a non-finalized root of the restored version existed.

Not covered: an interrupted restore (`AbortMultipartInsert`, the multipart log — see Crash.lean),
concurrency.
-/
namespace OasisProofs.C06Restore
open OasisModel.NodeDB OasisModel.NodeDB.Badger OasisProofs.C06

/-- The restored version lies above the last finalized one (what `Finalize` requires,
badger.go:583-586) and the window is sane: then it lies inside the window. -/
theorem window_of_above (s : St) (new : Root) (hw : WinOK s) (habove : ∀ l, s.last = some l → l < new.ver) :
    ∀ l, s.last = some l → s.earliest ≤ new.ver := by
  intro l hl
  have := hw.1 l hl
  have := habove l hl
  omega

/-- The restore establishes the invariant `RestoredInv` (Helpers/C06Restore.lean): every node of
the restored tree and the root node key have a value entry at EXACTLY timestamp `new.ver`, the
version is inside the window, the root is reported. -/
theorem restore_establishes_inv (s : St) (new : Root) (nodes : List Nat)
    (hw : WinOK s) (habove : ∀ l, s.last = some l → l < new.ver) :
    RestoredInv new nodes (restoreSt s new nodes) :=
  inv_restoreCore s new nodes nodes (fun _ h => h) (window_of_above s new hw habove)

/-- **(b) restored_root_readable.** After a completed restore the restored root reads back
completely, whatever the database held before, provided the chunks covered the tree
(`cl new.hash ⊆ nodes`). -/
theorem restored_root_readable (cl : Nat → List Nat) (s : St) (new : Root) (nodes : List Nat)
    (hw : WinOK s) (habove : ∀ l, s.last = some l → l < new.ver)
    (hcl : ∀ n ∈ cl new.hash, n ∈ nodes) :
    readable cl (restoreSt s new nodes) new = true ∧ hasRoot (restoreSt s new nodes) new = true := by
  have h := restore_establishes_inv s new nodes hw habove
  refine ⟨inv_readable cl new nodes _ hcl h, ?_⟩
  rw [hasRoot_eq]
  simp [h.window, h.reported]

/-- The window hypothesis is needed: restoring below the window gives a root `GetNode` refuses
(`nodeVisible` checks `earliest ≤ version`). -/
example :
    let s : St := { Badger.init with earliest := 7, last := some 9 }
    readable (fun n => [n]) (restoreSt s ⟨5, 0, 12⟩ [12]) ⟨5, 0, 12⟩ = false := by
  decide

/-- **(c) restore_preserves_older.** A restore into a database with finalized versions changes
nothing a reader of an older version sees: every root of a version below the restored one is
readable after the restore iff it was before (the restore writes only at the later timestamp).
Holds for both variants (it does not depend on which nodes are written). -/
theorem restore_preserves_older (cl : Nat → List Nat) (s : St) (new : Root) (nodes : List Nat)
    (hlast : s.last.isNone = false) (r : Root) (hr : r.ver < new.ver) :
    readable cl (restoreSt s new nodes) r = readable cl s r ∧
    readable cl (restoreSkipVisibleSt s new nodes) r = readable cl s r :=
  ⟨restoreCore_readable_older cl s new nodes hlast r hr,
   restoreCore_readable_older cl s new _ hlast r hr⟩

/-- `hlast` is needed: with nothing finalized, `setLastFinalizedVersion` (metadata.go:75-77) moves
the start of the window to the restored version, and a (non-finalized) older root is outside it. -/
example :
    let s := commitSt Badger.init ⟨1, 0, 0⟩ ⟨1, 0, 10⟩ [10] []
    readable (fun n => [n]) s ⟨1, 0, 10⟩ = true ∧
    readable (fun n => [n]) (restoreSt s ⟨5, 0, 12⟩ [12]) ⟨1, 0, 10⟩ = false := by
  decide

/-- **(d) restored_root_survives_pruning — THE MAIN THEOREM.** From the state after a restore,
prune any versions below the restored one, in any order, any number of times, guarded or not
(`pruneAll` folds `pruneSt`; no `pruneSafe`, no assumption on what the lone-root rule deletes):
the invariant `RestoredInv` still holds, hence the restored root is fully readable and reported. -/
theorem restored_root_survives_pruning (cl clv : Nat → List Nat) (s : St) (new : Root) (nodes : List Nat)
    (hw : WinOK s) (habove : ∀ l, s.last = some l → l < new.ver)
    (hcl : ∀ n ∈ cl new.hash, n ∈ nodes)
    (vs : List Nat) (hvs : ∀ v ∈ vs, v < new.ver) :
    RestoredInv new nodes (pruneAll clv (restoreSt s new nodes) vs) ∧
    readable cl (pruneAll clv (restoreSt s new nodes) vs) new = true ∧
    hasRoot (pruneAll clv (restoreSt s new nodes) vs) new = true := by
  have h := inv_pruneAll clv new nodes vs _ hvs (restore_establishes_inv s new nodes hw habove)
  refine ⟨h, inv_readable cl new nodes _ hcl h, ?_⟩
  rw [hasRoot_eq]
  simp [h.window, h.reported]

/-- The invariant in the vocabulary of `Badger.lean` (generalising `shielded`, which `pruneSafe`
asks for the ONE version being pruned): in every state satisfying `RestoredInv` a reader of the
restored version sees, for every node of the restored tree, the value entry written by the restore
itself, and that entry is shielded against tombstones of EVERY earlier timestamp. -/
theorem restored_nodes_shielded (new : Root) (nodes : List Nat) (s : St) (h : RestoredInv new nodes s)
    (n : Nat) (hn : n ∈ nodes) (v : Nat) (hv : v < new.ver) :
    s.node.get n new.ver = some (new.ver, true) ∧ shielded s n v new.ver = true :=
  inv_shielded new nodes s h n hn v hv

/-- The three kinds of step that preserve the invariant, stated on the raw state transformers:
a prune below the restored version, a finalization of any other version, any commit. -/
theorem restored_inv_preserved (clv : Nat → List Nat) (new : Root) (nodes : List Nat) (s : St)
    (h : RestoredInv new nodes s) :
    (∀ v, v < new.ver → RestoredInv new nodes (pruneSt clv s v)) ∧
    (∀ v ch, v ≠ new.ver → RestoredInv new nodes (finalizeSt s v ch)) ∧
    (∀ o n a r, RestoredInv new nodes (commitSt s o n a r)) :=
  ⟨fun v hv => inv_pruneSt clv new nodes s v hv h,
   fun v ch hv => inv_finalizeSt new nodes s v ch hv h,
   fun o n a r => inv_commitSt new nodes s o n a r h⟩

/-- **(d), history form.** After the restore run ANY history of commits, finalizations and prunes
through the model's API (`brun`: refused operations change nothing; accepted finalizations are of
versions above the restored one, accepted prunes of the earliest version), except a prune of the
restored version itself: the restored root is fully readable and reported afterwards.  Unlike
`C06.badger_readable_inv_partial` no safety predicate is assumed for any step. -/
theorem restored_root_survives_history (cl clv : Nat → List Nat) (s : St) (new : Root) (nodes : List Nat)
    (hw : WinOK s) (habove : ∀ l, s.last = some l → l < new.ver)
    (hcl : ∀ n ∈ cl new.hash, n ∈ nodes)
    (ops : List BOp) (hops : ∀ op ∈ ops, op ≠ .prune new.ver) :
    readable cl (brun cl clv (restoreSt s new nodes) ops) new = true ∧
    hasRoot (brun cl clv (restoreSt s new nodes) ops) new = true := by
  have h := (inv_brun cl clv new nodes ops _ hops (restore_establishes_inv s new nodes hw habove)
    ⟨new.ver, rfl, Nat.le_refl _⟩).1
  refine ⟨inv_readable cl new nodes _ hcl h, ?_⟩
  rw [hasRoot_eq]
  simp [h.window, h.reported]

/-- **(d), from every reachable state.** Whatever history `pre` built the database (any commits,
finalizations, prunes — including the ones that run into the known findings D1/D3/D5 for OTHER
roots), a restore above its last finalized version followed by any history `post` that does not
prune the restored version leaves the restored root fully readable and reported. -/
theorem restored_root_survives_history_reachable (cl clv : Nat → List Nat) (pre post : List BOp)
    (new : Root) (nodes : List Nat)
    (habove : ∀ l, (brun cl clv Badger.init pre).last = some l → l < new.ver)
    (hcl : ∀ n ∈ cl new.hash, n ∈ nodes)
    (hpost : ∀ op ∈ post, op ≠ .prune new.ver) :
    readable cl (brun cl clv (restoreSt (brun cl clv Badger.init pre) new nodes) post) new = true ∧
    hasRoot (brun cl clv (restoreSt (brun cl clv Badger.init pre) new nodes) post) new = true :=
  restored_root_survives_history cl clv _ new nodes (winOK_brun cl clv pre _ winOK_init) habove hcl post hpost

/-- The seeded variant also reads back completely RIGHT AFTER the restore (a skipped node was
visible, a written one is) — which is why a test that restores and reads does not tell the two
apart. -/
theorem skip_visible_readable_at_first (cl : Nat → List Nat) (s : St) (new : Root) (nodes : List Nat)
    (hw : WinOK s) (habove : ∀ l, s.last = some l → l < new.ver)
    (hcl : ∀ n ∈ cl new.hash, n ∈ nodes) :
    readable cl (restoreSkipVisibleSt s new nodes) new = true := by
  have h : RestoredInv new [] (restoreSkipVisibleSt s new nodes) :=
    inv_restoreCore s new [] _ (fun _ h => by simp at h) (window_of_above s new hw habove)
  unfold readable
  by_cases h0 : (new.hash == 0) = true
  · simp [h0]
  · simp only [h0, Bool.false_or, List.all_eq_true]
    intro n hn
    unfold nodeVisible
    simp [h.window, live_of_at _ _ _ h.rootAt, skip_nodes_live s new nodes n (hcl n hn)]

/-- **(f) skip_visible_same_on_empty.** When no node of the restored tree is visible at the
timestamp of the restored version — in particular in an empty database — skipping visible nodes
skips nothing: the two variants produce the same state. -/
theorem skip_visible_same_on_empty (s : St) (new : Root) (nodes : List Nat)
    (hnone : ∀ n ∈ nodes, s.node.live n new.ver = false) :
    restoreSkipVisibleSt s new nodes = restoreSt s new nodes := by
  have : notVisible s new nodes = nodes := by
    unfold notVisible
    rw [List.filter_eq_self]
    intro n hn
    simp [hnone n hn]
  unfold restoreSkipVisibleSt restoreSt
  rw [this]

/-- The empty database is such a state. -/
theorem skip_visible_same_on_init (new : Root) (nodes : List Nat) :
    restoreSkipVisibleSt Badger.init new nodes = restoreSt Badger.init new nodes := by
  apply skip_visible_same_on_empty
  intro n _
  have hg : ∀ t, (Badger.init).node.get n t = none := by
    intro t
    induction t with
    | zero => rfl
    | succ t ih => simp only [MV.get]; exact ih
  unfold MV.live
  rw [hg]

/-! ### (e) the witness

Node hashes: 10 = root of version 1 with leaves 1, 2; 11 = root of version 2, derived from 10, with
leaves 1, 2 and the new leaf 3 (puts 3 and 11, removes 10); 12 = the restored root of version 5 with
leaves 3 and 4: it SHARES leaf 3, created in version 2, with the database it is restored into. -/

def wCl : Nat → List Nat
  | 10 => [10, 1, 2]
  | 11 => [11, 1, 2, 3]
  | 12 => [12, 3, 4]
  | n => [n]

/-- versions 1 and 2 committed through the API and finalized, 2 derived from 1. -/
def wBase : St :=
  let s0 := Badger.init
  let s1 := okOr (commit s0 ⟨1, 0, 0⟩ ⟨1, 0, 10⟩ [1, 2, 10] []) s0
  let s2 := okOr (finalize s1 1 [⟨1, 0, 10⟩]) s1
  let s3 := okOr (commit s2 ⟨1, 0, 10⟩ ⟨2, 0, 11⟩ [3, 11] [10]) s2
  okOr (finalize s3 2 [⟨2, 0, 11⟩]) s3

def wNew : Root := ⟨5, 0, 12⟩

/-- what `doRestoreChunk` hands to `PutNode`: the leaves, then the internal node -/
def wNodes : List Nat := [3, 4, 12]

theorem wBase_winOK : WinOK wBase ∧ ∀ l, wBase.last = some l → l < wNew.ver := by
  have hl : wBase.last = some 2 := by decide
  have he : wBase.earliest = 1 := by decide
  refine ⟨⟨fun l h => ?_, fun h => ?_⟩, fun l h => ?_⟩
  · rw [hl] at h; cases h; rw [he]; decide
  · rw [hl] at h; cases h
  · rw [hl] at h; cases h; decide

/-- **(e) skip_visible_loses_nodes.** The database holds the finalized versions 1 and 2 (both
readable); root 12 of version 5 is restored (the gap check of `Finalize` is skipped during a
restore); then `Prune(1)` and `Prune(2)` are issued — both ACCEPTED by the model's API guards,
with either variant (`earliest` ends at 3).  Version 2's root has no derived root (the restored
root is not linked to it), so `Prune(2)` deletes leaf 3 at timestamp 2.

  * skipping variant: leaf 3 was visible at timestamp 5, so it was not written again; the restored
    root reads back right after the restore, and after the prunes it is still reported by HasRoot
    but NOT readable (leaf 3 is hidden by the tombstone);
  * the code (`restoreSt`): leaf 3 has its own entry at timestamp 5; the restored root is readable
    after the prunes — an instance of `restored_root_survives_history`. -/
theorem skip_visible_loses_nodes :
    let sk := restoreSkipVisibleSt wBase wNew wNodes
    let ok := restoreSt wBase wNew wNodes
    let ops : List BOp := [.prune 1, .prune 2]
    readable wCl wBase ⟨1, 0, 10⟩ = true ∧ readable wCl wBase ⟨2, 0, 11⟩ = true ∧
    notVisible wBase wNew wNodes = [4, 12] ∧
    readable wCl sk wNew = true ∧
    (brun wCl wCl sk ops).earliest = 3 ∧ (brun wCl wCl ok ops).earliest = 3 ∧
    hasRoot (brun wCl wCl sk ops) wNew = true ∧
    readable wCl (brun wCl wCl sk ops) wNew = false ∧
    (brun wCl wCl sk ops).node.live 3 5 = false ∧
    readable wCl (brun wCl wCl ok ops) wNew = true := by
  refine ⟨by decide, by decide, by decide, by decide, by decide, by decide, by decide, by decide,
    by decide, ?_⟩
  exact (restored_root_survives_history wCl wCl wBase wNew wNodes wBase_winOK.1 wBase_winOK.2
    (by decide) [.prune 1, .prune 2] (by simp [wNew])).1

/-- The same witness on the raw transformers (`pruneAll`, instance of
`restored_root_survives_pruning`). -/
theorem skip_visible_loses_nodes_pruneSt :
    readable wCl (pruneAll wCl (restoreSkipVisibleSt wBase wNew wNodes) [1, 2]) wNew = false ∧
    hasRoot (pruneAll wCl (restoreSkipVisibleSt wBase wNew wNodes) [1, 2]) wNew = true ∧
    readable wCl (pruneAll wCl (restoreSt wBase wNew wNodes) [1, 2]) wNew = true := by
  refine ⟨by decide, by decide, ?_⟩
  exact (restored_root_survives_pruning wCl wCl wBase wNew wNodes wBase_winOK.1 wBase_winOK.2
    (by decide) [1, 2] (by decide)).2.1

/-! ### (g) non-vacuity -/

/-- (b), (d): the hypotheses hold on the witness database (two finalized versions, a shared node),
with a non-trivial list of prunes / history. -/
example : WinOK wBase ∧ (∀ l, wBase.last = some l → l < wNew.ver) ∧ (∀ n ∈ wCl wNew.hash, n ∈ wNodes) ∧
    (∀ v ∈ [1, 2], v < wNew.ver) ∧
    (∀ op ∈ ([.prune 1, .commit ⟨5, 0, 12⟩ ⟨6, 0, 13⟩ [13] [12], .finalize 6 [⟨6, 0, 13⟩], .prune 2] : List BOp),
      op ≠ .prune wNew.ver) :=
  ⟨wBase_winOK.1, wBase_winOK.2, by decide, by decide, by simp [wNew]⟩

/-- (d), history form, is about histories in which things happen: a root derived from the restored
one is committed and finalized (version 6), the two old versions are pruned — all four operations
are accepted, the window ends up at [3, 6], the restored root (and the new one) read back. -/
example :
    let ops : List BOp := [.prune 1, .commit ⟨5, 0, 12⟩ ⟨6, 0, 13⟩ [13] [12], .finalize 6 [⟨6, 0, 13⟩], .prune 2]
    let s := brun wCl wCl (restoreSt wBase wNew wNodes) ops
    s.earliest = 3 ∧ s.last = some 6 ∧ readable wCl s wNew = true ∧ readable wCl s ⟨6, 0, 13⟩ = true := by
  decide

/-- (c): the database restored into has a finalized version and readable older roots. -/
example : wBase.last.isNone = false ∧ (⟨2, 0, 11⟩ : Root).ver < wNew.ver ∧
    readable wCl wBase ⟨2, 0, 11⟩ = true ∧
    readable wCl (restoreSt wBase wNew wNodes) ⟨2, 0, 11⟩ = true := by
  decide

/-- `RestoredInv` is satisfiable beyond the state right after the restore (here: after two prunes),
and false for the skipping variant there (leaf 3 has no entry at timestamp 5). -/
example : RestoredInv wNew wNodes (pruneAll wCl (restoreSt wBase wNew wNodes) [1, 2]) ∧
    (pruneAll wCl (restoreSkipVisibleSt wBase wNew wNodes) [1, 2]).node.at 3 5 = none :=
  ⟨(restored_root_survives_pruning wCl wCl wBase wNew wNodes wBase_winOK.1 wBase_winOK.2
    (by decide) [1, 2] (by decide)).1, by decide⟩

/-- (f): the hypothesis holds for a non-empty node list on the empty database, and FAILS on the
witness database (leaf 3 is visible at timestamp 5) — where the two variants indeed differ. -/
example : (∀ n ∈ wNodes, (Badger.init).node.live n wNew.ver = false) ∧
    wBase.node.live 3 wNew.ver = true ∧
    (restoreSkipVisibleSt wBase wNew wNodes).node ≠ (restoreSt wBase wNew wNodes).node := by
  decide

/-! ### the restore chunk by chunk

`restoreSt` is the END state of a restore.  `restoreChunksSt` (BadgerRestore.lean) performs it as the
code does: one chunk batch per chunk (`chunkCommitSt`), then the ordinary `finalizeSt` of the
existing model, with its closure and lone-node plan. -/

/-- **The chunk-by-chunk restore reaches the state `restoreSt` describes**: same node store, same
entry per key and timestamp for the root node keys, same roots metadata (`[(root, [])]` at the
restored version: `Finalize` keeps the root and — the updated-nodes index of a chunk batch being
empty — deletes no node), same index, same window.  Needs a non-empty list of chunks and no root
at the restored version beforehand (`hfresh`; see `fresh_version_is_needed`). -/
theorem restoreChunks_refines (s : St) (new : Root) (c : List Nat) (cs : List (List Nat))
    (hfresh : s.rmeta new.ver = []) :
    SameObs (restoreChunksSt s new (c :: cs)) (restoreSt s new (c :: cs).flatten) :=
  restoreChunks_sameObs s new c cs hfresh

/-- **(d) for the chunk-by-chunk restore**: every history after it that does not prune the restored
version leaves the restored root fully readable and reported. -/
theorem restoreChunks_survives_history (cl clv : Nat → List Nat) (s : St) (new : Root)
    (c : List Nat) (cs : List (List Nat))
    (hw : WinOK s) (habove : ∀ l, s.last = some l → l < new.ver) (hfresh : s.rmeta new.ver = [])
    (hcl : ∀ n ∈ cl new.hash, n ∈ (c :: cs).flatten)
    (ops : List BOp) (hops : ∀ op ∈ ops, op ≠ .prune new.ver) :
    readable cl (brun cl clv (restoreChunksSt s new (c :: cs)) ops) new = true ∧
    hasRoot (brun cl clv (restoreChunksSt s new (c :: cs)) ops) new = true := by
  have h0 := inv_of_sameObs new _ _ _ (restoreChunks_sameObs s new c cs hfresh)
    (restore_establishes_inv s new (c :: cs).flatten hw habove)
  have h := (inv_brun cl clv new _ ops _ hops h0 ⟨new.ver, rfl, Nat.le_refl _⟩).1
  refine ⟨inv_readable cl new _ _ hcl h, ?_⟩
  rw [hasRoot_eq]
  simp [h.window, h.reported]

/-- **`hfresh` is needed (model-level observation).** `StartMultipartInsert` does not look at the
roots of the version it is given.  If a NON-finalized candidate of that version was committed
before (here root 20 = {20, 4}, built from nothing at version 5), the `Finalize([new])` that ends the restore
discards it and deletes the nodes it put — at the timestamp of the restored version, AFTER the
chunk batches wrote there; the imported root's own index is empty, so nothing is in `notLoneNodes`
(badger.go:651-659): leaf 4, shared with the restored tree, is deleted and the restored root is
reported but not readable.  (Same mechanism as finding D3 of C06.lean.) -/
theorem fresh_version_is_needed :
    let s := okOr (commit wBase ⟨5, 0, 0⟩ ⟨5, 0, 20⟩ [4, 20] []) wBase
    isOk (commit wBase ⟨5, 0, 0⟩ ⟨5, 0, 20⟩ [4, 20] []) = true ∧
    s.rmeta 5 ≠ [] ∧
    hasRoot (restoreChunksSt s wNew [[3, 4], [12]]) wNew = true ∧
    readable wCl (restoreChunksSt s wNew [[3, 4], [12]]) wNew = false ∧
    readable wCl (restoreChunksSt wBase wNew [[3, 4], [12]]) wNew = true := by
  decide

/-- non-vacuity of `restoreChunks_refines` / `restoreChunks_survives_history`: two chunks into the
witness database, then the history of the earlier example. -/
example : wBase.rmeta wNew.ver = [] ∧ (∀ n ∈ wCl wNew.hash, n ∈ ([[3, 4], [12]] : List (List Nat)).flatten) ∧
    (let s := brun wCl wCl (restoreChunksSt wBase wNew [[3, 4], [12]])
        [.prune 1, .commit ⟨5, 0, 12⟩ ⟨6, 0, 13⟩ [13] [12], .finalize 6 [⟨6, 0, 13⟩], .prune 2]
     s.earliest = 3 ∧ s.last = some 6 ∧ readable wCl s wNew = true) := by
  decide

end OasisProofs.C06Restore
