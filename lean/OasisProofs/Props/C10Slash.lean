import OasisModel.Roothash.SlashDist
import Generated.SlashFacts
/-
Property C10, roothash slashing arithmetic (ledger sites `slashing.go:onRuntimeIncorrectResults:
totalSlashed.Add`, `slashing.go:distributeSlashedFunds:{Mul, Quo(100), Sub, Quo(len)}`).

Totality: for every slashed total, every number of rewarded addresses and every runtime percentage
that `RuntimeStakingParameters.ValidateBasic` lets into the registry (≤ 100), the arithmetic of
`distributeSlashedFunds` raises no error; the hypothesis is necessary (`distribute_needs_percentage`);
and the distribution never asks the common pool for more than was slashed into it, so with the
slashed funds in the pool every payment is made in full.

Tie: `Generated.SlashFacts` is regenerated from slashing.go and registry/api/runtime.go on every
run (tools/gen slashfacts) and compared below with the skeleton the model transcribes;
`rhdrv -phase dist` runs the real `distributeSlashedFunds` and this model (`om_slash`) on the same
inputs and compares error/no error and every balance.
-/
namespace OasisProofs.C10Slash
open OasisModel.Roothash.SlashDist

/-- Runtime share never exceeds the total when the percentage is at most 100. -/
theorem runtime_share_le (total pct : Nat) (h : pct ≤ 100) : total * pct / 100 ≤ total := by
  apply Nat.div_le_of_le_mul
  calc total * pct ≤ total * 100 := Nat.mul_le_mul_left _ h
    _ = 100 * total := Nat.mul_comm _ _

/-- **Totality** of `distributeSlashedFunds`' arithmetic for every admissible percentage. -/
theorem distribute_total (total pct n : Nat) (h : pct ≤ 100) :
    ∃ d, distribute total pct n = .ok d := by
  have hr := runtime_share_le total pct h
  unfold distribute quo sub
  by_cases hn : n = 0
  · simp [hn, bind, Except.bind, pure, Except.pure]
  · have : ¬ total < total * pct / 100 := by omega
    simp [hn, this, bind, Except.bind, pure, Except.pure]

/-- The exact amounts. -/
theorem distribute_eq (total pct n : Nat) (h : pct ≤ 100) :
    distribute total pct n =
      .ok ⟨total * pct / 100, if n = 0 then 0 else (total - total * pct / 100) / n⟩ := by
  have hr := runtime_share_le total pct h
  unfold distribute quo sub
  by_cases hn : n = 0
  · simp [hn, bind, Except.bind, pure, Except.pure]
  · have : ¬ total < total * pct / 100 := by omega
    simp [hn, this, bind, Except.bind, pure, Except.pure]

/-- The hypothesis is necessary: a percentage above 100 (representable in the uint8 field) makes
`Sub` fail for every non-zero multiple of 100 slashed, as soon as somebody else is rewarded. -/
theorem distribute_needs_percentage : distribute 100 101 1 = .error .subUnderflow := rfl

/-- More generally: whenever the runtime share exceeds the total and there is another address. -/
theorem distribute_fails_iff (total pct n : Nat) :
    (∃ e, distribute total pct n = .error e) ↔ (n ≠ 0 ∧ total < total * pct / 100) := by
  unfold distribute quo sub
  by_cases hn : n = 0
  · simp [hn, bind, Except.bind, pure, Except.pure]
  · by_cases hlt : total < total * pct / 100
    · simp [hn, hlt, bind, Except.bind]
    · simp [hn, hlt, bind, Except.bind, pure, Except.pure]

/-- The only possible error is the subtraction (no division by zero: 100 ≠ 0, and `n = 0` returns early). -/
theorem distribute_error_is_sub (total pct n : Nat) (e : Err) (h : distribute total pct n = .error e) :
    e = .subUnderflow := by
  unfold distribute quo sub at h
  by_cases hn : n = 0
  · simp [hn, bind, Except.bind, pure, Except.pure] at h
  · by_cases hlt : total < total * pct / 100
    · simp [hn, hlt, bind, Except.bind] at h; exact h.symm
    · simp [hn, hlt, bind, Except.bind, pure, Except.pure] at h

/-- **Never more than was slashed**: runtime share + n · other share ≤ total. -/
theorem distribute_bounded (total pct n : Nat) (d : Dist) (h : distribute total pct n = .ok d) :
    d.runtime + n * d.other ≤ total ∨ (n = 0 ∧ d.other = 0) := by
  unfold distribute quo sub at h
  by_cases hn : n = 0
  · simp [hn, bind, Except.bind, pure, Except.pure] at h
    right; exact ⟨hn, by rw [← h]⟩
  · by_cases hlt : total < total * pct / 100
    · simp [hn, hlt, bind, Except.bind] at h
    · simp [hn, hlt, bind, Except.bind, pure, Except.pure] at h
      left
      rw [← h]
      simp only
      have := Nat.mul_div_le (total - total * pct / 100) n
      omega

/-- With an admissible percentage the bound holds outright (also for `n = 0`). -/
theorem distribute_within_slashed (total pct n : Nat) (hp : pct ≤ 100) (d : Dist)
    (h : distribute total pct n = .ok d) : d.runtime + n * d.other ≤ total := by
  rcases distribute_bounded total pct n d h with hb | ⟨hn, ho⟩
  · exact hb
  · rw [distribute_eq total pct n hp] at h
    have hr := runtime_share_le total pct hp
    injection h with h
    rw [← h]; simp [hn]; exact hr

private theorem go_full (o : Nat) : ∀ (k c : Nat), k * o ≤ c →
    pay.go ⟨0, o⟩ k c = (List.replicate k o, c - k * o) := by
  intro k
  induction k with
  | zero => intro c _; simp [pay.go]
  | succ k ih =>
    intro c hc
    have h1 : o ≤ c := by
      have : o ≤ (k + 1) * o := Nat.le_mul_of_pos_left _ (Nat.succ_pos k)
      omega
    have h2 : k * o ≤ c - o := by
      have : (k + 1) * o = k * o + o := Nat.succ_mul k o
      omega
    simp only [pay.go, moveUpTo, Nat.min_eq_left h1]
    rw [ih (c - o) h2]
    simp [List.replicate_succ, Nat.succ_mul]
    omega

private theorem go_indep (d : Dist) : ∀ (k c : Nat), pay.go d k c = pay.go ⟨0, d.other⟩ k c := by
  intro k; induction k with
  | zero => intro c; simp [pay.go]
  | succ k ih => intro c; simp [pay.go, ih]

/-- **Paid in full**: if the common pool holds at least the slashed total (it does: `SlashEscrow`
has just moved the slashed amounts there), every recipient receives exactly its share and the
pool keeps the rounding remainder. -/
theorem pay_in_full (common total pct n : Nat) (hp : pct ≤ 100) (hc : total ≤ common) (d : Dist)
    (h : distribute total pct n = .ok d) :
    pay common d n = (d.runtime, List.replicate n d.other, common - (d.runtime + n * d.other)) := by
  have hb := distribute_within_slashed total pct n hp d h
  have h1 : d.runtime ≤ common := by omega
  have h2 : n * d.other ≤ common - d.runtime := by omega
  simp only [pay, moveUpTo, Nat.min_eq_left h1]
  rw [go_indep, go_full d.other n (common - d.runtime) h2]
  simp [Nat.sub_sub]

/-- `onRuntimeIncorrectResults` is total for admissible percentages. -/
theorem incorrectResults_total (slashed : List Nat) (pct n : Nat) (h : pct ≤ 100) :
    ∃ r, incorrectResults slashed pct n = .ok r := by
  unfold incorrectResults
  by_cases h0 : totalSlashed slashed = 0
  · simp [h0]
  · obtain ⟨d, hd⟩ := distribute_total (totalSlashed slashed) pct n h
    simp [h0, hd, Except.map]

/-- Nothing slashed (nodes out of stake): nothing is distributed and the round goes on. -/
theorem incorrectResults_nothing (slashed : List Nat) (pct n : Nat) (h : totalSlashed slashed = 0) :
    incorrectResults slashed pct n = .ok none := by
  simp [incorrectResults, h]

-- non-vacuity: concrete admissible and inadmissible instances
example : distribute 1000 50 3 = .ok ⟨500, 166⟩ := rfl
example : pay 5000 ⟨500, 166⟩ 3 = (500, [166, 166, 166], 4002) := by decide
example : distribute 7 100 2 = .ok ⟨7, 0⟩ := rfl
example : incorrectResults [0, 40, 60] 101 1 = .error .subUnderflow := rfl

/-! ### Regenerated facts (tools/gen slashfacts) -/

/-- The operations of `distributeSlashedFunds`, in source order, as transcribed by `distribute`/`pay`. -/
def expectedDistributeOps : List String := [
  "runtimeAccReward := totalSlashed.Clone()",
  "runtimeAccReward.Mul(quantity.NewFromUint64(runtimePercentage))",
  "runtimeAccReward.Quo(quantity.NewFromUint64(uint64(100)))",
  "stakeState.TransferFromCommon(ctx, runtimeAddr, runtimeAccReward, false)",
  "if len(otherAddresses) == 0 return",
  "otherReward := totalSlashed.Clone()",
  "otherReward.Sub(runtimeAccReward)",
  "otherReward.Quo(quantity.NewFromUint64(uint64(len(otherAddresses))))",
  "for otherAddresses { stakeState.TransferFromCommon(ctx, addr, otherReward, true) }"]

theorem distribute_ops_as_modelled : Generated.SlashFacts.distributeOps = expectedDistributeOps := by decide

/-- `onRuntimeIncorrectResults`: slash every causer, add up, stop when nothing was slashed,
distribute with the bad-results percentage. -/
def expectedIncorrectResultsOps : List String := [
  "if penaltyAmount.IsZero() return",
  "for discrepancyCausers { stakeState.SlashEscrow(ctx, entityAddr, penaltyAmount); totalSlashed.Add(slashed) }",
  "if totalSlashed.IsZero() return",
  "runtimePercentage := uint64(runtime.Staking.RewardSlashBadResultsRuntimePercent)",
  "distributeSlashedFunds(ctx, &totalSlashed, runtimePercentage, runtime.ID, rewardEntities)"]

theorem incorrect_results_ops_as_modelled :
    Generated.SlashFacts.incorrectResultsOps = expectedIncorrectResultsOps := by decide

/-- The equivocation path uses the equivocation percentage. -/
theorem equivocation_percentage_field :
    Generated.SlashFacts.equivocationPercentage = "uint64(runtime.Staking.RewardSlashEquvocationRuntimePercent)" := by decide

/-- Both percentages are bounded by 100 where descriptors enter the registry
(`RuntimeStakingParameters.ValidateBasic`): the hypothesis `pct ≤ 100` of the theorems above. -/
theorem percentage_guards_present :
    "s.RewardSlashEquvocationRuntimePercent > 100" ∈ Generated.SlashFacts.validateBasicGuards ∧
    "s.RewardSlashBadResultsRuntimePercent > 100" ∈ Generated.SlashFacts.validateBasicGuards := by decide

/-- … and `ValidateBasic` of the staking parameters is called from the runtime descriptor's
`ValidateBasic`, which the registry runs on every registration and update. -/
theorem percentage_guards_called : Generated.SlashFacts.runtimeValidateCallsStaking = true := by decide

end OasisProofs.C10Slash
