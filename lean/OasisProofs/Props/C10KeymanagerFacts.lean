/-
Regenerated tie of the key-manager status model (`OasisModel/Keymanager/Status.lean`, theorems in
`C10Keymanager.lean`) to `go/consensus/cometbft/apps/keymanager/secrets/status.go`: `generateStatus` runs at
every epoch transition (BeginBlock) over attacker-influenced node descriptors; every pointer it
dereferences is guarded, in particular `nRSK` is adopted unconditionally from the first node that advertises
a next runtime signing key before any `initResponse.NextRSK.Equal(*nRSK)` comparison.

`tools/gen stmtfacts kmstatus` flattens the functions into one line per simple statement on every run; the
lists are pinned here (`rfl`). A change of a statement, a condition or of the order of statements breaks the
pin until the new text has been read against the model.
-/
import Generated.StmtFactsKmstatus

namespace OasisProofs.C10KeymanagerFacts

/-- Position of the first line equal to `s`. -/
def pos (l : List String) (s : String) : Option Nat :=
  let i := l.findIdx (· == s)
  if i < l.length then some i else none

/-- The lines occur in this order (strictly increasing positions). -/
def inOrder (l : List String) : List String → Option Nat → Bool
  | [], _ => true
  | s :: rest, prev =>
    match pos l s, prev with
    | none, _ => false
    | some i, none => inOrder l rest (some i)
    | some i, some p => decide (p < i) && inOrder l rest (some i)

def expected_generateStatusStmts : List String := [
  "status := &secrets.Status{ ID: kmrt.ID, IsInitialized: oldStatus.IsInitialized, IsSecure: oldStatus.IsSecure, Generation: oldStatus.Generation, RotationEpoch: oldStatus.RotationEpoch, Checksum: oldStatus.Checksum, Policy: oldStatus.Policy, }",
  "if oldStatus.NextPolicy != nil {",
  "status.Policy = oldStatus.NextPolicy",
  "}",
  "var ( nextGeneration uint64 nextChecksum []byte nextRSK *signature.PublicKey updatedNodes []signature.PublicKey )",
  "nextGeneration = status.NextGeneration()",
  "if secret != nil && secret.Secret.Generation == nextGeneration && secret.Secret.Epoch == epoch {",
  "nextChecksum = secret.Secret.Secret.Checksum",
  "}",
  "var rawPolicy []byte",
  "if status.Policy != nil {",
  "rawPolicy = cbor.Marshal(status.Policy)",
  "}",
  "policyHash := sha3.Sum256(rawPolicy)",
  "ts := ctx.Now()",
  "height := uint64(ctx.LastHeight())",
  "nextNode:",
  "for _, n := range nodes {",
  "if n.IsExpired(epoch) {",
  "continue",
  "}",
  "if !n.HasRoles(node.RoleKeyManager) {",
  "continue",
  "}",
  "secretReplicated := true",
  "isInitialized := status.IsInitialized",
  "isSecure := status.IsSecure",
  "RSK := status.RSK",
  "nRSK := nextRSK",
  "var numVersions int",
  "for _, nodeRt := range n.Runtimes {",
  "if !nodeRt.ID.Equal(&kmrt.ID) {",
  "continue",
  "}",
  "vars := []any{ \"id\", kmrt.ID, \"node_id\", n.ID, \"version\", nodeRt.Version, }",
  "var teeOk bool",
  "if nodeRt.Capabilities.TEE == nil {",
  "teeOk = kmrt.TEEHardware == node.TEEHardwareInvalid",
  "}",
  "else {",
  "teeOk = kmrt.TEEHardware == nodeRt.Capabilities.TEE.Hardware",
  "}",
  "if !teeOk {",
  "ctx.Logger().Error(\"TEE hardware mismatch\", vars...)",
  "continue nextNode",
  "}",
  "initResponse, err := VerifyExtraInfo(ctx.Logger(), n.ID, kmrt, nodeRt, ts, height, params, isFeatureVersion261)",
  "if err != nil {",
  "ctx.Logger().Error(\"failed to validate ExtraInfo\", append(vars, \"err\", err)...)",
  "continue nextNode",
  "}",
  "var nodePolicyHash [secrets.ChecksumSize]byte",
  "switch len(initResponse.PolicyChecksum) {",
  "case 0:",
  "nodePolicyHash = emptyHashSha3",
  "case secrets.ChecksumSize:",
  "copy(nodePolicyHash[:], initResponse.PolicyChecksum)",
  "default:",
  "ctx.Logger().Error(\"failed to parse policy checksum\", append(vars, \"err\", err)...)",
  "continue nextNode",
  "}",
  "if policyHash != nodePolicyHash {",
  "ctx.Logger().Error(\"Policy checksum mismatch for runtime\", vars...)",
  "continue nextNode",
  "}",
  "if !isInitialized {",
  "isInitialized = true",
  "isSecure = initResponse.IsSecure",
  "}",
  "if initResponse.IsSecure != isSecure {",
  "ctx.Logger().Error(\"Security status mismatch for runtime\", vars...)",
  "continue nextNode",
  "}",
  "if !bytes.Equal(initResponse.Checksum, status.Checksum) {",
  "ctx.Logger().Error(\"Checksum mismatch for runtime\", vars...)",
  "continue nextNode",
  "}",
  "if RSK == nil {",
  "RSK = initResponse.RSK",
  "}",
  "if initResponse.RSK != nil && !initResponse.RSK.Equal(*RSK) {",
  "ctx.Logger().Error(\"Runtime signing key mismatch for runtime\", vars)",
  "continue nextNode",
  "}",
  "if !bytes.Equal(initResponse.NextChecksum, nextChecksum) {",
  "secretReplicated = false",
  "}",
  "if nRSK == nil {",
  "nRSK = initResponse.NextRSK",
  "}",
  "if initResponse.NextRSK != nil && !initResponse.NextRSK.Equal(*nRSK) {",
  "secretReplicated = false",
  "}",
  "numVersions++",
  "}",
  "if numVersions == 0 {",
  "continue",
  "}",
  "if !isInitialized {",
  "panic(\"the key manager must be initialized\")",
  "}",
  "if secretReplicated {",
  "nextRSK = nRSK",
  "updatedNodes = append(updatedNodes, n.ID)",
  "}",
  "if !status.IsInitialized {",
  "status.IsInitialized = true",
  "status.IsSecure = isSecure",
  "}",
  "status.RSK = RSK",
  "status.Nodes = append(status.Nodes, n.ID)",
  "}",
  "if numNodes := len(status.Nodes); numNodes > 0 && nextChecksum != nil {",
  "percent := len(updatedNodes) * 100 / numNodes",
  "if percent >= minProposalReplicationPercent {",
  "status.Generation = nextGeneration",
  "status.RotationEpoch = epoch",
  "status.Checksum = nextChecksum",
  "status.RSK = nextRSK",
  "status.Nodes = updatedNodes",
  "}",
  "}",
  "return status"]

theorem generateStatusStmts_as_modelled : Generated.StmtFacts.Kmstatus.generateStatusStmts = expected_generateStatusStmts := rfl

theorem next_rsk_adopted_before_it_is_compared :
    inOrder expected_generateStatusStmts ["if nRSK == nil {", "nRSK = initResponse.NextRSK"] none = true := by decide +kernel

end OasisProofs.C10KeymanagerFacts
