import OasisProofs.Helpers.MkvsHash
import OasisProofs.Helpers.MkvsCommit
import OasisProofs.Helpers.MkvsKey
import OasisProofs.Helpers.MkvsKeyMerge
/-
C02 — the MKVS root hash depends only on the key/value contents.

Model: `OasisModel.Mkvs.Trie` (`insertAux`/`removeAux` mirror insert.go:59-247 / remove.go:55-177,
`hashWith` mirrors node.go:355,599 and commit.go:150).  All theorems are for arbitrary byte-string
keys and values and for every operation history; the hash function is a parameter `H`, its
collision resistance appears as the hypothesis `Function.Injective H`.
The Go tree is tied to the model by the mkvsdrv correspondence, which compares the model's root
hash (computed with a real SHA-512/256) byte for byte with every root `Tree.Commit` returns.

Dirty flags and the incremental re-hashing of `doCommit` (commit.go:150-242) are modelled in
`OasisModel.Mkvs.Commit` (`CTrie`: every pointer with `Clean` and cached `Hash`; `insertC`/`removeC`
mark dirty where insert.go/remove.go do) and proved to give the hash of the whole tree
(`commit_hash_eq`, `incremental_commits_eq`).
Not in the model (named, not hidden): node cache and lazy loading, NodeDB backends; their
independence from the root is what the correspondence checks at cache capacities from 1.
-/
namespace OasisProofs.C02
open OasisModel.Mkvs OasisProofs.Mkvs

/-- `doInsert` preserves the canonical form (label split, prefix-key leaf placement). -/
theorem insert_wf (t : Trie) (h : WF t) (k v : Bytes) : WF (t.insert k v) := wf_insert h k v

/-- `doRemove` preserves the canonical form (collapse of single-child nodes, label merge). -/
theorem remove_wf (t : Trie) (h : WF t) (k : Bytes) : WF (t.remove k) := wf_remove h k

/-- Contents after insert: ordered-map insertion. -/
theorem contents_insert (t : Trie) (h : WF t) (k v : Bytes) :
    (t.insert k v).toList = SMap.insert t.toList k v := toList_insert h k v

/-- Contents after remove: ordered-map erase. -/
theorem contents_remove (t : Trie) (h : WF t) (k : Bytes) :
    (t.remove k).toList = SMap.erase t.toList k := toList_remove h k

/-- Two canonical tries with the same contents are the same tree. -/
theorem wf_unique (t₁ t₂ : Trie) (h₁ : WF t₁) (h₂ : WF t₂) (he : t₁.toList = t₂.toList) : t₁ = t₂ :=
  OasisProofs.Mkvs.wf_unique h₁ h₂ he

/-- The root hash is a function of the contents: any two canonical trees with the same contents —
however they were produced (operation history, replay of a write log, restore) — hash alike. -/
theorem root_depends_only_on_contents (H : Bytes → Bytes) (t₁ t₂ : Trie) (h₁ : WF t₁) (h₂ : WF t₂)
    (he : t₁.toList = t₂.toList) : hashWith H t₁ = hashWith H t₂ := by
  rw [OasisProofs.Mkvs.wf_unique h₁ h₂ he]

/-- A write operation. Overwrites are inserts of a present key. Commits do not change the tree
(`Commit` only hashes it), so batching into commits is any way of cutting the list. -/
inductive WOp where
  | insert (k v : Bytes)
  | remove (k : Bytes)

def applyOp (t : Trie) : WOp → Trie
  | .insert k v => t.insert k v
  | .remove k => t.remove k

def run (t : Trie) (ops : List WOp) : Trie := ops.foldl applyOp t

theorem run_wf (ops : List WOp) (t : Trie) (h : WF t) : WF (run t ops) := by
  induction ops generalizing t with
  | nil => exact h
  | cons op ops ih =>
    apply ih
    cases op with
    | insert k v => exact wf_insert h k v
    | remove k => exact wf_remove h k

/-- Any two operation histories (from the empty tree, or from any two canonical trees) that end
with the same contents end with the same tree, hence the same root hash — whatever the order of
inserts, overwrites and removals. -/
theorem root_history_independent (H : Bytes → Bytes) (ops₁ ops₂ : List WOp)
    (he : (run .nil ops₁).toList = (run .nil ops₂).toList) :
    run .nil ops₁ = run .nil ops₂ ∧ hashWith H (run .nil ops₁) = hashWith H (run .nil ops₂) := by
  have := OasisProofs.Mkvs.wf_unique (run_wf ops₁ .nil trivial) (run_wf ops₂ .nil trivial) he
  exact ⟨this, by rw [this]⟩

/-- The same for the actual hash: the root hash `Commit` returns is a function of the contents. -/
theorem rootHash_history_independent (ops₁ ops₂ : List WOp)
    (he : (run .nil ops₁).toList = (run .nil ops₂).toList) :
    rootHash (run .nil ops₁) = rootHash (run .nil ops₂) :=
  (root_history_independent OasisModel.Sha512_256.hash ops₁ ops₂ he).2

/-- Splitting a history into batches (commit points) does not matter: running a concatenation is
running the pieces one after the other. -/
theorem run_append (t : Trie) (a b : List WOp) : run t (a ++ b) = run (run t a) b := by
  simp [run, List.foldl_append]

/-- Leaf and internal node hash inputs are injective (fixed-width length fields, label bytes
determined by the bit length) within the implementation's size bounds. -/
theorem encode_injective :
    (∀ k v k' v' : Bytes, k.length < 2 ^ 32 → v.length < 2 ^ 32 → k'.length < 2 ^ 32 →
      v'.length < 2 ^ 32 → leafEnc k v = leafEnc k' v' → k = k' ∧ v = v') ∧
    (∀ (lab lab' : Bits) (a b c a' b' c' : Bytes), lab.length < 2 ^ 16 → lab'.length < 2 ^ 16 →
      a.length = 32 → a'.length = 32 → b.length = 32 → b'.length = 32 →
      nodeEnc lab a b c = nodeEnc lab' a' b' c' → lab = lab' ∧ a = a' ∧ b = b' ∧ c = c') ∧
    (∀ (k v : Bytes) (lab : Bits) (a b c : Bytes), leafEnc k v ≠ nodeEnc lab a b c) :=
  ⟨fun _ _ _ _ h1 h2 h3 h4 h => leafEnc_inj h1 h2 h3 h4 h,
   fun _ _ _ _ _ _ _ _ h1 h2 h3 h4 h5 h6 h => nodeEnc_inj h1 h2 h3 h4 h5 h6 h,
   fun k v lab a b c => leafEnc_ne_nodeEnc k v lab a b c⟩

/-- Under collision resistance (`H` injective, 32-byte output) different contents give different
roots: equal roots of canonical tries force equal contents. Keys shorter than 8192 bytes
(Go's `Depth` is `uint16`) and values shorter than 2^32 bytes. -/
theorem hashT_injective_on_wf (H : Bytes → Bytes) (hH : Function.Injective H)
    (hlen : ∀ x, (H x).length = 32) (t₁ t₂ : Trie) (h₁ : WF t₁) (h₂ : WF t₂)
    (b₁ : ContentsBounded t₁.toList) (b₂ : ContentsBounded t₂.toList)
    (hr : hashWith H t₁ = hashWith H t₂) : t₁.toList = t₂.toList := by
  rw [hashWith_inj hH hlen t₁ t₂ (wfAt_bounded h₁ b₁) (wfAt_bounded h₂ b₂) hr]

/-- Corollary: one key added, one key removed or one value changed changes the root. -/
theorem root_changes_with_contents (H : Bytes → Bytes) (hH : Function.Injective H)
    (hlen : ∀ x, (H x).length = 32) (t₁ t₂ : Trie) (h₁ : WF t₁) (h₂ : WF t₂)
    (b₁ : ContentsBounded t₁.toList) (b₂ : ContentsBounded t₂.toList)
    (hne : t₁.toList ≠ t₂.toList) : hashWith H t₁ ≠ hashWith H t₂ :=
  fun hr => hne (hashT_injective_on_wf H hH hlen t₁ t₂ h₁ h₂ b₁ b₂ hr)

/-! ### incremental hashing with dirty flags -/

open OasisModel.Mkvs.CTrie in
/-- `doCommit` recomputes hashes bottom-up only for dirty pointers and trusts the cached hash of a
clean pointer; under the invariant "a clean pointer caches the true hash of its subtree" the result
is the Merkle hash of the whole tree, the contents are untouched, and afterwards every pointer is
clean and the invariant holds again. -/
theorem commit_hash_eq (H : Bytes → Bytes) (t : CTrie) (h : CInv H t) :
    (commitC H t).2 = hashWith H t.erase ∧ (commitC H t).1.erase = t.erase ∧
    CInv H (commitC H t).1 ∧ (commitC H t).1.isClean = true := commitC_spec H t h

open OasisModel.Mkvs.CTrie in
/-- `doInsert` / `doRemove` with their dirty marking are the plain operations on the tree without
flags and preserve the invariant: whatever they change is marked dirty (a pointer that is still
clean afterwards is the very pointer that was there). -/
theorem dirty_marking_sound (H : Bytes → Bytes) (t : CTrie) (h : CInv H t) (k v : Bytes) (d : Nat) :
    ((insertC k v t d).1.erase = (t.erase.insertAux k v d).1 ∧ CInv H (insertC k v t d).1) ∧
    ((removeC k t d).1.erase = (t.erase.removeAux k d).1 ∧ CInv H (removeC k t d).1) := by
  refine ⟨⟨?_, cinv_insertC H k v t d h⟩, ⟨?_, cinv_removeC H k t d h⟩⟩
  · exact congrArg Prod.fst (erase_insertC k v t d)
  · exact congrArg Prod.fst (erase_removeC k t d)

/-- A history with commit points. -/
inductive COp where
  | insert (k v : Bytes)
  | remove (k : Bytes)
  | commit

open OasisModel.Mkvs.CTrie in
/-- The tree with flags: commits hash incrementally and clear the flags. Returns the final tree and
the root hash of every commit. -/
def runC (H : Bytes → Bytes) (t : CTrie) : List COp → CTrie × List Bytes
  | [] => (t, [])
  | .insert k v :: ops => runC H (insertC k v t 0).1 ops
  | .remove k :: ops => runC H (removeC k t 0).1 ops
  | .commit :: ops => let r := runC H (commitC H t).1 ops; (r.1, (commitC H t).2 :: r.2)

/-- The tree without flags: every commit hashes the whole tree. -/
def runPlain (H : Bytes → Bytes) (t : Trie) : List COp → Trie × List Bytes
  | [] => (t, [])
  | .insert k v :: ops => runPlain H (t.insert k v) ops
  | .remove k :: ops => runPlain H (t.remove k) ops
  | .commit :: ops => let r := runPlain H t ops; (r.1, hashWith H t :: r.2)

/-- For every history of inserts, removes and commits — any batching — the root hashes returned by
the incremental commits are the Merkle hashes of the whole tree at those points. -/
theorem incremental_commits_eq (H : Bytes → Bytes) (ops : List COp) (t : CTrie) (h : CInv H t) :
    (runC H t ops).2 = (runPlain H t.erase ops).2 ∧ (runC H t ops).1.erase = (runPlain H t.erase ops).1 := by
  induction ops generalizing t with
  | nil => exact ⟨rfl, rfl⟩
  | cons op ops ih =>
    cases op with
    | insert k v =>
      have e : (CTrie.insertC k v t 0).1.erase = t.erase.insert k v :=
        congrArg Prod.fst (erase_insertC k v t 0)
      have := ih _ (cinv_insertC H k v t 0 h)
      rw [e] at this
      exact this
    | remove k =>
      have e : (CTrie.removeC k t 0).1.erase = t.erase.remove k :=
        congrArg Prod.fst (erase_removeC k t 0)
      have := ih _ (cinv_removeC H k t 0 h)
      rw [e] at this
      exact this
    | commit =>
      obtain ⟨c1, c2, c3, _⟩ := commitC_spec H t h
      have := ih _ c3
      rw [c2] at this
      simp only [runC, runPlain]
      exact ⟨by rw [c1, this.1], this.2⟩

/-! ### byte-level key operations (node/key.go) -/

/-- `Key.Split` as Go computes it on bytes (copy, mask `0xff << (8 - sp%8)`, shifts across byte
boundaries; `OasisModel.Mkvs.Key.split`) is `take`/`drop` on the bit string, for every well-formed
key (`ToBytes(keyLen)` bytes, unused low bits zero) and every split point: the prefix is the first
`sp` bits, the suffix the bits from `sp` to `keyLen`, both zero padded to bytes. These are the label
prefix/suffix `doInsert` stores when it splits an edge. -/
theorem key_split_eq_bits (k : Bytes) (sp keyLen : Nat) (hwf : KeyWF k keyLen) (hsp : sp ≤ keyLen) :
    Key.split k sp keyLen =
      (packBits ((toBits k).take sp), packBits (((toBits k).take keyLen).drop sp)) :=
  Prod.ext (key_split_prefix k sp keyLen hwf hsp) (key_split_suffix k sp keyLen hwf hsp)

/-- `Key.GetBit` (`k[bit/8] & (1 << (7 - bit%8)) != 0`) is the bit of the MSB-first bit string. -/
theorem key_getBit_eq_bits (k : Bytes) (i : Nat) : Key.getBit k i = (toBits k).getD i false :=
  key_getBit_eq k i

/-- `Key.AppendBit` on bytes (zeroed buffer of `ToBytes(keyLen+1)` bytes, copy, set/clear with
`0x80 >> (keyLen%8)`) is the bit-list operation used by the iterator model. -/
theorem key_appendBit_eq_bits (k : Bytes) (keyLen : Nat) (v : Bool)
    (hk : k.length ≤ Iter.toBytesLen (keyLen + 1)) :
    Key.appendBit k keyLen v = Iter.appendBit k keyLen v := key_appendBit_eq k keyLen v hk

/-- `Key.Merge` on bytes (key.go:138: copy of the first key's `ToBytes(keyLen)` bytes, then every byte of
the second key OR-ed in as a right-shifted chunk into the previous byte and a left-shifted chunk into
the next one) is the concatenation of the two keys' bit strings truncated to their bit lengths,
zero padded to bytes. This is the label `doRemove` stores when it collapses a node into its only
child (remove.go:139) and the path the iterator accumulates (iterator.go:268). Any lengths. -/
theorem key_merge_eq_bits (k : Bytes) (keyLen : Nat) (k2 : Bytes) (k2Len : Nat)
    (hwf : KeyWF k keyLen) (hwf2 : KeyWF k2 k2Len) :
    Key.merge k keyLen k2 k2Len = packBits ((toBits k).take keyLen ++ (toBits k2).take k2Len) :=
  key_merge_eq k keyLen k2 k2Len hwf hwf2

/-- `Key.CommonPrefixLen` on bytes (key.go:180: byte loop, `LeadingZeros8` of the XOR of the first
differing pair, capped by both bit lengths) is the length of the longest common prefix of the two
keys' bit strings truncated to their bit lengths. This is `cpLength` in `doInsert` (insert.go:99,
204), which decides where an edge is split. Any byte strings and lengths, no well-formedness needed. -/
theorem key_commonPrefixLen_eq_bits (k : Bytes) (keyLen : Nat) (k2 : Bytes) (k2Len : Nat) :
    Key.commonPrefixLen k keyLen k2 k2Len = lcp ((toBits k).take keyLen) ((toBits k2).take k2Len) :=
  key_commonPrefixLen_eq k keyLen k2 k2Len

/-- The well-formedness hypothesis of `key_merge_eq_bits` is needed: bits of the first key beyond its
bit length stay in the result (Go copies whole bytes). -/
example : Key.merge [0xff] 4 [0x00] 4 ≠ packBits ((toBits [0xff]).take 4 ++ (toBits [0x00]).take 4) := by decide

/-- Non-vacuity: a 12-bit label merged with a 7-bit label across a byte boundary. -/
example : Key.merge [0xab, 0xc0] 12 [0xfe] 7 = [0xab, 0xcf, 0xe0] ∧
    KeyWF [0xab, 0xc0] 12 ∧ KeyWF [0xfe] 7 := by
  refine ⟨by decide, ⟨by decide, ?_⟩, ⟨by decide, ?_⟩⟩
  · intro i hi
    by_cases h : i < 16
    · have : i = 12 ∨ i = 13 ∨ i = 14 ∨ i = 15 := by omega
      rcases this with rfl | rfl | rfl | rfl <;> decide
    · exact bitAt_beyond _ (by simp; omega)
  · intro i hi
    by_cases h : i < 8
    · have : i = 7 := by omega
      subst this; decide
    · exact bitAt_beyond _ (by simp; omega)

example : Key.commonPrefixLen [0xab, 0xc0] 12 [0xab, 0xd0, 0x01] 24 = 11 := by decide

/-- The empty tree's root is the empty hash `H ""` (commit.go:157). -/
theorem empty_root (H : Bytes → Bytes) : hashWith H .nil = H [] := rfl

/-! ### non-vacuity: concrete histories with prefix keys, the empty key and an empty value -/

def h₁ : List WOp :=
  [.insert [0x61, 0x62] [1], .insert [0x61] [2], .insert [] [3], .insert [0x80] [], .insert [0x61, 0x63] [5],
   .remove [0x61]]
def h₂ : List WOp :=
  [.insert [0x61, 0x63] [9], .insert [0x80] [], .insert [0x62] [7], .insert [] [3], .remove [0x62],
   .insert [0x61, 0x62] [1], .insert [0x61, 0x63] [5]]

example : (run .nil h₁).toList = (run .nil h₂).toList := by decide
example : run .nil h₁ = run .nil h₂ := (root_history_independent id h₁ h₂ (by decide)).1
example : WF (run .nil h₁) := run_wf h₁ .nil trivial
example : CInv id CTrie.nil := trivial
example : (runC id .nil [.insert [1] [2], .commit, .insert [1, 2] [], .remove [1], .commit]).2 =
    (runPlain id .nil [.insert [1] [2], .commit, .insert [1, 2] [], .remove [1], .commit]).2 := by decide
example : ContentsBounded (run .nil h₁).toList := by
  intro kv hkv
  have : (run .nil h₁).toList = [([], [3]), ([0x61, 0x62], [1]), ([0x61, 0x63], [5]), ([0x80], [])] := by decide
  rw [this] at hkv
  simp at hkv
  rcases hkv with h | h | h | h <;> subst h <;> decide

end OasisProofs.C02
