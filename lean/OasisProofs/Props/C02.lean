import OasisProofs.Helpers.MkvsHash
/-
C02 — the MKVS root hash depends only on the key/value contents.

Model: `OasisModel.Mkvs.Trie` (`insertAux`/`removeAux` mirror insert.go:59-247 / remove.go:55-177,
`hashWith` mirrors node.go:355,599 and commit.go:150).  All theorems are for arbitrary byte-string
keys and values and for every operation history; the hash function is a parameter `H`, its
collision resistance appears as the hypothesis `Function.Injective H`.
The Go tree is tied to the model by the mkvsdrv correspondence, which compares the model's root
hash (computed with a real SHA-512/256) byte for byte with every root `Tree.Commit` returns.

Not in the model (named, not hidden): dirty flags / incremental re-hashing of `doCommit`
(the model recomputes the hash of the whole tree), node cache and lazy loading, NodeDB backends.
Their independence from the root is what the correspondence checks at cache capacities from 1.
-/
namespace OasisProofs.C02
open OasisModel.Mkvs OasisProofs.Mkvs

/-- `doInsert` preserves the canonical form (label split, prefix-key leaf placement). -/
theorem insert_wf (t : Trie) (h : WF t) (k v : Bytes) : WF (t.insert k v) := wf_insert h k v

/-- `doRemove` preserves the canonical form (collapse of single-child nodes, label merge). -/
theorem remove_wf (t : Trie) (h : WF t) (k : Bytes) : WF (t.remove k) := wf_remove h k

/-- Contents after insert: ordered-map insertion. -/
theorem contents_insert (t : Trie) (h : WF t) (k v : Bytes) :
    (t.insert k v).toList = SMap.insert t.toList k v := toList_insert h k v

/-- Contents after remove: ordered-map erase. -/
theorem contents_remove (t : Trie) (h : WF t) (k : Bytes) :
    (t.remove k).toList = SMap.erase t.toList k := toList_remove h k

/-- Two canonical tries with the same contents are the same tree. -/
theorem wf_unique (t₁ t₂ : Trie) (h₁ : WF t₁) (h₂ : WF t₂) (he : t₁.toList = t₂.toList) : t₁ = t₂ :=
  OasisProofs.Mkvs.wf_unique h₁ h₂ he

/-- The root hash is a function of the contents: any two canonical trees with the same contents —
however they were produced (operation history, replay of a write log, restore) — hash alike. -/
theorem root_depends_only_on_contents (H : Bytes → Bytes) (t₁ t₂ : Trie) (h₁ : WF t₁) (h₂ : WF t₂)
    (he : t₁.toList = t₂.toList) : hashWith H t₁ = hashWith H t₂ := by
  rw [OasisProofs.Mkvs.wf_unique h₁ h₂ he]

/-- A write operation. Overwrites are inserts of a present key. Commits do not change the tree
(`Commit` only hashes it), so batching into commits is any way of cutting the list. -/
inductive WOp where
  | insert (k v : Bytes)
  | remove (k : Bytes)

def applyOp (t : Trie) : WOp → Trie
  | .insert k v => t.insert k v
  | .remove k => t.remove k

def run (t : Trie) (ops : List WOp) : Trie := ops.foldl applyOp t

theorem run_wf (ops : List WOp) (t : Trie) (h : WF t) : WF (run t ops) := by
  induction ops generalizing t with
  | nil => exact h
  | cons op ops ih =>
    apply ih
    cases op with
    | insert k v => exact wf_insert h k v
    | remove k => exact wf_remove h k

/-- Any two operation histories (from the empty tree, or from any two canonical trees) that end
with the same contents end with the same tree, hence the same root hash — whatever the order of
inserts, overwrites and removals. -/
theorem root_history_independent (H : Bytes → Bytes) (ops₁ ops₂ : List WOp)
    (he : (run .nil ops₁).toList = (run .nil ops₂).toList) :
    run .nil ops₁ = run .nil ops₂ ∧ hashWith H (run .nil ops₁) = hashWith H (run .nil ops₂) := by
  have := OasisProofs.Mkvs.wf_unique (run_wf ops₁ .nil trivial) (run_wf ops₂ .nil trivial) he
  exact ⟨this, by rw [this]⟩

/-- The same for the actual hash: the root hash `Commit` returns is a function of the contents. -/
theorem rootHash_history_independent (ops₁ ops₂ : List WOp)
    (he : (run .nil ops₁).toList = (run .nil ops₂).toList) :
    rootHash (run .nil ops₁) = rootHash (run .nil ops₂) :=
  (root_history_independent OasisModel.Sha512_256.hash ops₁ ops₂ he).2

/-- Splitting a history into batches (commit points) does not matter: running a concatenation is
running the pieces one after the other. -/
theorem run_append (t : Trie) (a b : List WOp) : run t (a ++ b) = run (run t a) b := by
  simp [run, List.foldl_append]

/-- Leaf and internal node hash inputs are injective (fixed-width length fields, label bytes
determined by the bit length) within the implementation's size bounds. -/
theorem encode_injective :
    (∀ k v k' v' : Bytes, k.length < 2 ^ 32 → v.length < 2 ^ 32 → k'.length < 2 ^ 32 →
      v'.length < 2 ^ 32 → leafEnc k v = leafEnc k' v' → k = k' ∧ v = v') ∧
    (∀ (lab lab' : Bits) (a b c a' b' c' : Bytes), lab.length < 2 ^ 16 → lab'.length < 2 ^ 16 →
      a.length = 32 → a'.length = 32 → b.length = 32 → b'.length = 32 →
      nodeEnc lab a b c = nodeEnc lab' a' b' c' → lab = lab' ∧ a = a' ∧ b = b' ∧ c = c') ∧
    (∀ (k v : Bytes) (lab : Bits) (a b c : Bytes), leafEnc k v ≠ nodeEnc lab a b c) :=
  ⟨fun _ _ _ _ h1 h2 h3 h4 h => leafEnc_inj h1 h2 h3 h4 h,
   fun _ _ _ _ _ _ _ _ h1 h2 h3 h4 h5 h6 h => nodeEnc_inj h1 h2 h3 h4 h5 h6 h,
   fun k v lab a b c => leafEnc_ne_nodeEnc k v lab a b c⟩

/-- Under collision resistance (`H` injective, 32-byte output) different contents give different
roots: equal roots of canonical tries force equal contents. Keys shorter than 8192 bytes
(Go's `Depth` is `uint16`) and values shorter than 2^32 bytes. -/
theorem hashT_injective_on_wf (H : Bytes → Bytes) (hH : Function.Injective H)
    (hlen : ∀ x, (H x).length = 32) (t₁ t₂ : Trie) (h₁ : WF t₁) (h₂ : WF t₂)
    (b₁ : ContentsBounded t₁.toList) (b₂ : ContentsBounded t₂.toList)
    (hr : hashWith H t₁ = hashWith H t₂) : t₁.toList = t₂.toList := by
  rw [hashWith_inj hH hlen t₁ t₂ (wfAt_bounded h₁ b₁) (wfAt_bounded h₂ b₂) hr]

/-- Corollary: one key added, one key removed or one value changed changes the root. -/
theorem root_changes_with_contents (H : Bytes → Bytes) (hH : Function.Injective H)
    (hlen : ∀ x, (H x).length = 32) (t₁ t₂ : Trie) (h₁ : WF t₁) (h₂ : WF t₂)
    (b₁ : ContentsBounded t₁.toList) (b₂ : ContentsBounded t₂.toList)
    (hne : t₁.toList ≠ t₂.toList) : hashWith H t₁ ≠ hashWith H t₂ :=
  fun hr => hne (hashT_injective_on_wf H hH hlen t₁ t₂ h₁ h₂ b₁ b₂ hr)

/-- The empty tree's root is the empty hash `H ""` (commit.go:157). -/
theorem empty_root (H : Bytes → Bytes) : hashWith H .nil = H [] := rfl

/-! ### non-vacuity: concrete histories with prefix keys, the empty key and an empty value -/

def h₁ : List WOp :=
  [.insert [0x61, 0x62] [1], .insert [0x61] [2], .insert [] [3], .insert [0x80] [], .insert [0x61, 0x63] [5],
   .remove [0x61]]
def h₂ : List WOp :=
  [.insert [0x61, 0x63] [9], .insert [0x80] [], .insert [0x62] [7], .insert [] [3], .remove [0x62],
   .insert [0x61, 0x62] [1], .insert [0x61, 0x63] [5]]

example : (run .nil h₁).toList = (run .nil h₂).toList := by decide
example : run .nil h₁ = run .nil h₂ := (root_history_independent id h₁ h₂ (by decide)).1
example : WF (run .nil h₁) := run_wf h₁ .nil trivial
example : ContentsBounded (run .nil h₁).toList := by
  intro kv hkv
  have : (run .nil h₁).toList = [([], [3]), ([0x61, 0x62], [1]), ([0x61, 0x63], [5]), ([0x80], [])] := by decide
  rw [this] at hkv
  simp at hkv
  rcases hkv with h | h | h | h <;> subst h <;> decide

end OasisProofs.C02
