import OasisModel.TxPool.Sched
/-
C20 — the runtime transaction pool respects sender order, priority and capacity.

Theorems about the reference model `OasisModel.TxPool` for *every* operation history
(`run (init cap) ops`, any senders, gaps, duplicates, sequence numbers, priorities, capacity,
witness choices).  The implementation is tied to the model by the txpooldrv correspondence.
-/
namespace OasisProofs.C20
open OasisModel.TxPool

/-! ### choice functions -/

theorem argmax_none (l : List Tx) : argmax l = none ↔ l = [] := by
  cases l with
  | nil => simp [argmax]
  | cons t ts =>
    simp only [argmax]
    cases h : argmax ts with
    | none => simp
    | some u => by_cases hp : u.prio ≤ t.prio <;> simp [hp]

theorem argmax_spec (l : List Tx) (t : Tx) (h : argmax l = some t) :
    t ∈ l ∧ ∀ u ∈ l, u.prio ≤ t.prio := by
  induction l generalizing t with
  | nil => simp [argmax] at h
  | cons x xs ih =>
    simp only [argmax] at h
    cases hx : argmax xs with
    | none =>
      rw [hx] at h
      have : xs = [] := (argmax_none xs).1 hx
      subst this
      simp at h; subst h; simp
    | some u =>
      rw [hx] at h
      have ⟨hu, hmax⟩ := ih u hx
      by_cases hp : u.prio ≤ x.prio
      · simp [hp] at h; subst h
        refine ⟨by simp, ?_⟩
        intro w hw
        rcases List.mem_cons.1 hw with rfl | hw
        · exact Nat.le_refl _
        · exact Nat.le_trans (hmax w hw) hp
      · simp [hp] at h; subst h
        refine ⟨List.mem_cons_of_mem _ hu, ?_⟩
        intro w hw
        rcases List.mem_cons.1 hw with rfl | hw
        · omega
        · exact hmax w hw

theorem argmin_none (l : List Tx) : argmin l = none ↔ l = [] := by
  cases l with
  | nil => simp [argmin]
  | cons t ts =>
    simp only [argmin]
    cases h : argmin ts with
    | none => simp
    | some u => by_cases hp : t.prio ≤ u.prio <;> simp [hp]

theorem argmin_spec (l : List Tx) (t : Tx) (h : argmin l = some t) :
    t ∈ l ∧ ∀ u ∈ l, t.prio ≤ u.prio := by
  induction l generalizing t with
  | nil => simp [argmin] at h
  | cons x xs ih =>
    simp only [argmin] at h
    cases hx : argmin xs with
    | none =>
      rw [hx] at h
      have : xs = [] := (argmin_none xs).1 hx
      subst this
      simp at h; subst h; simp
    | some u =>
      rw [hx] at h
      have ⟨hu, hmin⟩ := ih u hx
      by_cases hp : x.prio ≤ u.prio
      · simp [hp] at h; subst h
        refine ⟨by simp, ?_⟩
        intro w hw
        rcases List.mem_cons.1 hw with rfl | hw
        · exact Nat.le_refl _
        · exact Nat.le_trans hp (hmin w hw)
      · simp [hp] at h; subst h
        refine ⟨List.mem_cons_of_mem _ hu, ?_⟩
        intro w hw
        rcases List.mem_cons.1 hw with rfl | hw
        · omega
        · exact hmin w hw

/-! ### picks: ready and of maximal priority -/

/-- An allowed pick is in the pool, ready, and no ready transaction has a higher priority. -/
theorem picks_max (s : State) (t : Tx) (h : pickOk s t = true) :
    t ∈ s.txs ∧ ready s t = true ∧ ∀ u ∈ s.txs, ready s u = true → u.prio ≤ t.prio := by
  unfold pickOk at h
  simp only [Bool.and_eq_true, List.contains_iff_mem, List.all_eq_true, decide_eq_true_eq] at h
  obtain ⟨hm, hall⟩ := h
  have hm' := List.mem_filter.1 hm
  refine ⟨hm'.1, hm'.2, ?_⟩
  intro u hu hr
  exact hall u (List.mem_filter.2 ⟨hu, hr⟩)

/-- The deterministic scheduler's pick is an allowed pick. -/
theorem scheduleOne_pickOk (s s' : State) (t : Tx) (h : scheduleOne s = some (t, s')) :
    pickOk s t = true ∧ s' = pick s t := by
  unfold scheduleOne at h
  cases hm : argmax (readyList s) with
  | none => rw [hm] at h; simp at h
  | some u =>
    rw [hm] at h
    simp at h
    obtain ⟨rfl, rfl⟩ := h
    have ⟨hu, hmax⟩ := argmax_spec _ _ hm
    refine ⟨?_, rfl⟩
    unfold pickOk
    simp only [Bool.and_eq_true, List.contains_iff_mem, List.all_eq_true, decide_eq_true_eq]
    exact ⟨hu, hmax⟩

/-- Progress: whenever some transaction is ready, one is scheduled. -/
theorem scheduleOne_progress (s : State) (h : readyList s ≠ []) : (scheduleOne s).isSome = true := by
  unfold scheduleOne
  cases hm : argmax (readyList s) with
  | none => exact absurd ((argmax_none _).1 hm) h
  | some u => simp

/-- The first pick of a sender in a pass sits at the sender's current sequence number; every
later pick is the direct successor of the sender's previously scheduled one. -/
theorem pick_seq (s : State) (t : Tx) (h : pickOk s t = true) :
    (s.sched t.sender = none → s.cur t.sender = some t.seq) ∧
    (∀ last, s.sched t.sender = some last → t.seq = last + 1) := by
  have hr := (picks_max s t h).2.1
  unfold ready at hr
  constructor
  · intro hn; rw [hn] at hr; simpa using hr
  · intro last hl; rw [hl] at hr; simpa using hr

/-! ### the pass invariant -/

/-- Shape of the list of picks of one pass (most recent first): each pick has a strictly larger
sequence number than every earlier pick of the same sender, and unless it is the sender's first
pick of the pass its direct predecessor was picked earlier. -/
def ChainOk : List Tx → Prop
  | [] => True
  | t :: post =>
    (∀ u ∈ post, u.sender = t.sender → u.seq < t.seq) ∧
    ((∀ u ∈ post, u.sender ≠ t.sender) ∨ (∃ u ∈ post, u.sender = t.sender ∧ u.seq + 1 = t.seq)) ∧
    ChainOk post

/-- Link between the `sched` map and the picks of the pass. -/
def PassInv (s : State) : Prop :=
  ChainOk s.picked ∧
  (∀ a, s.sched a = none → ∀ u ∈ s.picked, u.sender ≠ a) ∧
  (∀ a last, s.sched a = some last →
      (∃ u ∈ s.picked, u.sender = a ∧ u.seq = last) ∧ ∀ u ∈ s.picked, u.sender = a → u.seq ≤ last)

theorem passInv_init (cap : Nat) : PassInv (init cap) := by
  refine ⟨trivial, ?_, ?_⟩
  · intro a _ u hu; simp [init] at hu
  · intro a last h; simp [init] at h

theorem passInv_reset (s : State) : PassInv (reset s) := by
  refine ⟨trivial, ?_, ?_⟩
  · intro a _ u hu; simp [reset] at hu
  · intro a last h; simp [reset] at h

theorem passInv_pick (s : State) (t : Tx) (hi : PassInv s) (h : pickOk s t = true) :
    PassInv (pick s t) := by
  obtain ⟨hc, hnone, hsome⟩ := hi
  have ⟨hfirst, hnext⟩ := pick_seq s t h
  refine ⟨?_, ?_, ?_⟩
  · -- chain
    show ChainOk (t :: s.picked)
    cases hs : s.sched t.sender with
    | none =>
      refine ⟨?_, Or.inl ?_, hc⟩
      · intro u hu hsu; exact absurd hsu (hnone _ hs u hu)
      · intro u hu; exact hnone _ hs u hu
    | some last =>
      have hseq := hnext last hs
      obtain ⟨⟨w, hw, hws, hwq⟩, hle⟩ := hsome _ _ hs
      refine ⟨?_, Or.inr ⟨w, hw, hws, by omega⟩, hc⟩
      intro u hu hsu
      have := hle u hu hsu
      omega
  · intro a ha u hu
    simp only [pick, upd] at ha
    by_cases hat : a = t.sender
    · simp [hat] at ha
    · simp [hat] at ha
      rcases List.mem_cons.1 hu with rfl | hu
      · exact fun h => hat h.symm
      · exact hnone a ha u hu
  · intro a last ha
    simp only [pick, upd] at ha
    by_cases hat : a = t.sender
    · simp [hat] at ha
      subst ha
      refine ⟨⟨t, by simp [pick], hat.symm, rfl⟩, ?_⟩
      intro u hu hsu
      rcases List.mem_cons.1 hu with rfl | hu
      · exact Nat.le_refl _
      · cases hs : s.sched t.sender with
        | none => exact absurd (hat ▸ hsu) (hnone _ hs u hu)
        | some l0 =>
          have := (hsome _ _ hs).2 u hu (hat ▸ hsu)
          have := hnext l0 hs
          omega
    · simp [hat] at ha
      obtain ⟨⟨w, hw, hws, hwq⟩, hle⟩ := hsome a last ha
      refine ⟨⟨w, List.mem_cons_of_mem _ hw, hws, hwq⟩, ?_⟩
      intro u hu hsu
      rcases List.mem_cons.1 hu with rfl | hu
      · exact absurd hsu.symm hat
      · exact hle u hu hsu

/-- Operations other than `pick` and `reset` leave `sched` and `picked` alone. -/
theorem removeTx_pass (s : State) (t : Tx) : (removeTx s t).sched = s.sched ∧ (removeTx s t).picked = s.picked := by
  simp [removeTx]

theorem forward_pass (s : State) (a n : Nat) : (forward s a n).sched = s.sched ∧ (forward s a n).picked = s.picked := by
  unfold forward
  cases s.cur a with
  | none => simp
  | some c => by_cases h : n ≤ c <;> simp [h]

theorem txUsed_pass (s : State) (id : Nat) : (txUsed s id).sched = s.sched ∧ (txUsed s id).picked = s.picked := by
  unfold txUsed
  cases findId s id with
  | none => simp
  | some t =>
    by_cases h : t.seq < maxSeq
    · simp only [h, if_true]
      have h1 := forward_pass (removeTx s t) t.sender (t.seq + 1)
      have h2 := removeTx_pass s t
      exact ⟨h1.1.trans h2.1, h1.2.trans h2.2⟩
    · simp only [h, if_false]; exact removeTx_pass s t

theorem ensureSender_eq (s : State) (a ss : Nat) :
    (ensureSender s a ss).sched = s.sched ∧ (ensureSender s a ss).picked = s.picked ∧
    (ensureSender s a ss).txs = s.txs ∧ (ensureSender s a ss).cap = s.cap := by
  unfold ensureSender; cases s.cur a <;> simp

theorem addCore_pass (s s' : State) (t : Tx) (ss : Nat) (v : Option Tx) (r : AddRes)
    (h : addCore s t ss v = some (s', r)) : s'.sched = s.sched ∧ s'.picked = s.picked := by
  unfold addCore at h
  split at h
  · simp at h; obtain ⟨rfl, _⟩ := h; exact ⟨rfl, rfl⟩
  · split at h
    · split at h
      · simp at h; obtain ⟨rfl, _⟩ := h; exact ⟨rfl, rfl⟩
      · simp at h; obtain ⟨rfl, _⟩ := h; exact ⟨rfl, rfl⟩
    · split at h
      · simp at h; obtain ⟨rfl, _⟩ := h; exact ⟨rfl, rfl⟩
      · split at h
        · simp at h; obtain ⟨rfl, _⟩ := h; exact ⟨rfl, rfl⟩
        · split at h
          · simp at h; obtain ⟨rfl, _⟩ := h
            exact ⟨(removeTx_pass _ _).1, (removeTx_pass _ _).2⟩
          · simp at h

theorem addWith_pass (s s' : State) (t : Tx) (ss : Nat) (v : Option Tx) (r : AddRes)
    (h : addWith s t ss v = some (s', r)) : s'.sched = s.sched ∧ s'.picked = s.picked := by
  unfold addWith at h
  have h1 := addCore_pass _ s' t ss v r h
  have h2 := ensureSender_eq s t.sender ss
  exact ⟨h1.1.trans h2.1, h1.2.trans h2.2.1⟩

theorem passInv_of_eq (s s' : State) (hi : PassInv s) (h : s'.sched = s.sched ∧ s'.picked = s.picked) :
    PassInv s' := by
  unfold PassInv at *
  rw [h.1, h.2]; exact hi

theorem passInv_step (s : State) (op : Op) (hi : PassInv s) : PassInv (step s op) := by
  cases op with
  | add t ss v =>
    simp only [step]
    split
    · split
      · rename_i s' r heq; exact passInv_of_eq s s' hi (addWith_pass s s' t ss v r heq)
      · exact hi
    · exact hi
  | qadd t ss v =>
    simp only [step]
    split
    · split
      · rename_i s' r heq
        unfold queueAdd at heq
        have h1 := addWith_pass _ s' t ss v r heq
        have h2 := forward_pass s t.sender ss
        exact passInv_of_eq s s' hi ⟨h1.1.trans h2.1, h1.2.trans h2.2⟩
      · exact hi
    · exact hi
  | pick t =>
    simp only [step]
    split
    · rename_i h; exact passInv_pick s t hi h
    · exact hi
  | reset => exact passInv_reset s
  | clear => exact passInv_of_eq s _ hi (by simp [step, clear])
  | used id => exact passInv_of_eq s _ hi (txUsed_pass s id)
  | forward a n => exact passInv_of_eq s _ hi (forward_pass s a n)

theorem passInv_run (s : State) (ops : List Op) (hi : PassInv s) : PassInv (run s ops) := by
  induction ops generalizing s with
  | nil => exact hi
  | cons op ops ih => exact ih (step s op) (passInv_step s op hi)

/-! ### consequences of the chain shape -/

theorem chainOk_suffix (p q : List Tx) (h : ChainOk (p ++ q)) : ChainOk q := by
  induction p with
  | nil => exact h
  | cons x xs ih => exact ih h.2.2

theorem chain_later_larger (p q : List Tx) (w : Tx) (h : ChainOk (p ++ w :: q)) :
    ∀ u ∈ p, u.sender = w.sender → w.seq < u.seq := by
  induction p with
  | nil => intro u hu; simp at hu
  | cons x xs ih =>
    intro u hu hs
    rcases List.mem_cons.1 hu with rfl | hu
    · exact h.1 w (by simp) hs.symm
    · exact ih h.2.2 u hu hs

/-- No gaps: between any earlier pick `u` of the sender and a pick `t`, every sequence number
was picked before `t` in the same pass. -/
theorem chain_consecutive (t : Tx) (post : List Tx) (h : ChainOk (t :: post)) :
    ∀ d q, q + d + 1 = t.seq → (∃ u ∈ post, u.sender = t.sender ∧ u.seq ≤ q) →
      ∃ w ∈ post, w.sender = t.sender ∧ w.seq = q := by
  intro d
  induction d with
  | zero =>
    intro q hq ⟨u, hu, hus, _⟩
    rcases h.2.1 with hnone | ⟨w, hw, hws, hwq⟩
    · exact absurd hus (hnone u hu)
    · exact ⟨w, hw, hws, by omega⟩
  | succ d ih =>
    intro q hq ⟨u, hu, hus, huq⟩
    obtain ⟨w', hw', hws', hwq'⟩ := ih (q + 1) (by omega) ⟨u, hu, hus, by omega⟩
    obtain ⟨p1, p2, hsplit⟩ := List.append_of_mem hw'
    have hc2 : ChainOk (w' :: p2) := chainOk_suffix p1 _ (hsplit ▸ h.2.2)
    rcases hc2.2.1 with hnone | ⟨u0, hu0, hu0s, hu0q⟩
    · -- `u` would have to be picked after `w'` with a smaller sequence number
      exfalso
      rw [hsplit] at hu
      rcases List.mem_append.1 hu with hu1 | hu2
      · have := chain_later_larger p1 p2 w' (hsplit ▸ h.2.2) u hu1 (hus.trans hws'.symm)
        omega
      · rcases List.mem_cons.1 hu2 with rfl | hu2
        · omega
        · exact hnone u hu2 (hus.trans hws'.symm)
    · refine ⟨u0, ?_, hu0s.trans hws', by omega⟩
      rw [hsplit]; exact List.mem_append_right _ (List.mem_cons_of_mem _ hu0)

/-- **Sender order.** In every reachable state, for every transaction `t` picked in the
current pass (with `post` the picks made before it): every sequence number between any earlier
pick of the same sender in this pass and `t` was itself picked before `t`; and by `pick_seq`
the sender's first pick of a pass sits at its current sequence number. -/
theorem sender_order (cap : Nat) (ops : List Op) (pre post : List Tx) (t : Tx)
    (h : (run (init cap) ops).picked = pre ++ t :: post) :
    ∀ u ∈ post, u.sender = t.sender → ∀ q, u.seq ≤ q → q < t.seq →
      ∃ w ∈ post, w.sender = t.sender ∧ w.seq = q := by
  have hi := (passInv_run _ ops (passInv_init cap)).1
  rw [h] at hi
  have hc := chainOk_suffix pre _ hi
  intro u hu hus q hq1 hq2
  exact chain_consecutive t post hc (t.seq - q - 1) q (by omega) ⟨u, hu, hus, hq1⟩

/-- **No double scheduling.** A transaction picked in a pass does not occur among the earlier
picks of that pass — not even another transaction with the same sender and sequence number. -/
theorem no_double_schedule (cap : Nat) (ops : List Op) (pre post : List Tx) (t : Tx)
    (h : (run (init cap) ops).picked = pre ++ t :: post) :
    ∀ u ∈ post, ¬ (u.sender = t.sender ∧ u.seq = t.seq) := by
  have hi := (passInv_run _ ops (passInv_init cap)).1
  rw [h] at hi
  have hc := chainOk_suffix pre _ hi
  intro u hu ⟨hs, hq⟩
  have := hc.1 u hu hs
  omega

/-! ### deterministic schedule is an allowed schedule and stops only when nothing is ready -/

theorem scheduleN_follow (n : Nat) (s s' : State) (ts : List Tx) (h : scheduleN n s = (ts, s')) :
    followPicks ts s = some s' ∧ ts.length ≤ n ∧ (ts.length < n → readyList s' = []) := by
  induction n generalizing s s' ts with
  | zero => simp [scheduleN] at h; obtain ⟨rfl, rfl⟩ := h; simp [followPicks]
  | succ n ih =>
    simp only [scheduleN] at h
    cases hone : scheduleOne s with
    | none =>
      rw [hone] at h; simp at h; obtain ⟨rfl, rfl⟩ := h
      refine ⟨by simp [followPicks], by simp, fun _ => ?_⟩
      unfold scheduleOne at hone
      cases hm : argmax (readyList s) with
      | none => exact (argmax_none _).1 hm
      | some u => rw [hm] at hone; simp at hone
    | some p =>
      obtain ⟨t, s1⟩ := p
      rw [hone] at h
      simp only at h
      cases hrec : scheduleN n s1 with
      | mk ts1 s2 =>
        rw [hrec] at h
        simp at h; obtain ⟨rfl, rfl⟩ := h
        have ⟨hok, hs1⟩ := scheduleOne_pickOk s s1 t hone
        have ⟨hf, hl, hstop⟩ := ih s1 s2 ts1 hrec
        subst hs1
        refine ⟨by simp [followPicks, hok, hf], by simp; omega, fun hlt => hstop (by simp at hlt; omega)⟩

/-! ### capacity, eviction, replacement, expiry -/

theorem filter_id_length_lt (l : List Tx) (v : Tx) (hv : v ∈ l) :
    (l.filter (fun u => u.id != v.id)).length < l.length := by
  induction l with
  | nil => simp at hv
  | cons x xs ih =>
    rcases List.mem_cons.1 hv with rfl | hv
    · have : (List.filter (fun u => u.id != v.id) (v :: xs)) = List.filter (fun u => u.id != v.id) xs := by
        simp [List.filter]
      rw [this]
      exact Nat.lt_succ_of_le (List.length_filter_le _ _)
    · have h1 := ih hv
      have h2 : (List.filter (fun u => u.id != v.id) (x :: xs)).length ≤
          (List.filter (fun u => u.id != v.id) xs).length + 1 := by
        simp only [List.filter]; split <;> simp
      simp only [List.length_cons]; omega

theorem addCore_capacity (s s' : State) (t : Tx) (ss : Nat) (v : Option Tx) (r : AddRes)
    (hcap : s.txs.length ≤ s.cap) (h : addCore s t ss v = some (s', r)) :
    s'.txs.length ≤ s'.cap ∧ s'.cap = s.cap := by
  unfold addCore at h
  split at h
  · simp at h; obtain ⟨rfl, _⟩ := h; exact ⟨hcap, rfl⟩
  · split at h
    · rename_i old hfind
      split at h
      · simp at h; obtain ⟨rfl, _⟩ := h; exact ⟨hcap, rfl⟩
      · simp at h; obtain ⟨rfl, _⟩ := h
        have hold : old ∈ s.txs := List.mem_of_find?_eq_some hfind
        have := filter_id_length_lt s.txs old hold
        refine ⟨?_, rfl⟩
        simp only [List.length_cons]
        omega
    · split at h
      · rename_i hle
        simp at h; obtain ⟨rfl, _⟩ := h
        exact ⟨hle, rfl⟩
      · split at h
        · rename_i hnone
          -- no victim available: the list `t :: _` is never empty, so this branch is impossible
          exfalso
          cases v with
          | some v => simp [chooseVictim] at hnone
          | none =>
            simp only [chooseVictim] at hnone
            have := (argmin_none _).1 hnone
            simp at this
        · rename_i vv hv
          split at h
          · rename_i hev
            simp at h; obtain ⟨rfl, _⟩ := h
            unfold evictOk at hev
            simp only [Bool.and_eq_true, List.contains_iff_mem] at hev
            have hlt := filter_id_length_lt _ vv hev.1
            refine ⟨?_, rfl⟩
            simp only [removeTx, List.length_cons] at hlt ⊢
            omega
          · simp at h

/-- **Capacity.** `add` never leaves more than `cap` transactions in a pool that respected the
bound before, and nothing else grows the pool. -/
theorem addWith_capacity (s s' : State) (t : Tx) (ss : Nat) (v : Option Tx) (r : AddRes)
    (hcap : s.txs.length ≤ s.cap) (h : addWith s t ss v = some (s', r)) :
    s'.txs.length ≤ s'.cap ∧ s'.cap = s.cap := by
  unfold addWith at h
  have h2 := ensureSender_eq s t.sender ss
  have := addCore_capacity _ s' t ss v r (by rw [h2.2.2.1, h2.2.2.2]; exact hcap) h
  exact ⟨this.1, this.2.trans h2.2.2.2⟩

def CapInv (s : State) : Prop := s.txs.length ≤ s.cap

theorem forward_txs_le (s : State) (a n : Nat) :
    (forward s a n).txs.length ≤ s.txs.length ∧ (forward s a n).cap = s.cap := by
  unfold forward
  cases s.cur a with
  | none => simp
  | some c =>
    by_cases h : n ≤ c
    · simp [h]
    · simp only [h, if_false, and_true]
      exact List.length_filter_le _ _

theorem removeTx_txs_le (s : State) (t : Tx) :
    (removeTx s t).txs.length ≤ s.txs.length ∧ (removeTx s t).cap = s.cap := by
  refine ⟨?_, rfl⟩
  simp only [removeTx]
  exact List.length_filter_le _ _

theorem txUsed_txs_le (s : State) (id : Nat) :
    (txUsed s id).txs.length ≤ s.txs.length ∧ (txUsed s id).cap = s.cap := by
  unfold txUsed
  cases findId s id with
  | none => simp
  | some t =>
    have h2 := removeTx_txs_le s t
    by_cases h : t.seq < maxSeq
    · simp only [h, if_true]
      have h1 := forward_txs_le (removeTx s t) t.sender (t.seq + 1)
      exact ⟨Nat.le_trans h1.1 h2.1, h1.2.trans h2.2⟩
    · simp only [h, if_false]; exact h2

theorem capInv_step (s : State) (op : Op) (hi : CapInv s) : CapInv (step s op) ∧ (step s op).cap = s.cap := by
  unfold CapInv at *
  cases op with
  | add t ss v =>
    simp only [step]
    split
    · split
      · rename_i s' r heq; exact addWith_capacity s s' t ss v r hi heq
      · exact ⟨hi, rfl⟩
    · exact ⟨hi, rfl⟩
  | qadd t ss v =>
    simp only [step]
    split
    · split
      · rename_i s' r heq
        unfold queueAdd at heq
        have hf := forward_txs_le s t.sender ss
        have := addWith_capacity _ s' t ss v r (by rw [hf.2]; exact Nat.le_trans hf.1 hi) heq
        exact ⟨this.1, this.2.trans hf.2⟩
      · exact ⟨hi, rfl⟩
    · exact ⟨hi, rfl⟩
  | pick t =>
    simp only [step]
    split <;> simp [pick, hi]
  | reset => simp [step, reset, hi]
  | clear => simp [step, clear]
  | used id =>
    have := txUsed_txs_le s id
    simp only [step]; rw [this.2]; exact ⟨Nat.le_trans this.1 hi, rfl⟩
  | forward a n =>
    have := forward_txs_le s a n
    simp only [step]; rw [this.2]; exact ⟨Nat.le_trans this.1 hi, rfl⟩

/-- **Capacity bound for every history.** -/
theorem capacity_bound (cap : Nat) (ops : List Op) :
    (run (init cap) ops).txs.length ≤ cap := by
  have key : ∀ (ops : List Op) (s : State), CapInv s → CapInv (run s ops) ∧ (run s ops).cap = s.cap := by
    intro ops
    induction ops with
    | nil => intro s hi; exact ⟨hi, rfl⟩
    | cons op ops ih =>
      intro s hi
      have h1 := capInv_step s op hi
      have h2 := ih (step s op) h1.1
      exact ⟨h2.1, h2.2.trans h1.2⟩
  have := key ops (init cap) (by simp [CapInv, init])
  have h1 := this.1
  unfold CapInv at h1
  rw [this.2] at h1
  exact h1

/-- **Eviction takes a lowest-priority transaction** (among the pool including the newcomer),
and the answer is "underpriced" exactly when the newcomer itself is the victim. -/
theorem evict_min (s : State) (v : Tx) (h : evictOk s v = true) :
    v ∈ s.txs ∧ ∀ u ∈ s.txs, v.prio ≤ u.prio := by
  unfold evictOk at h
  simp only [Bool.and_eq_true, List.contains_iff_mem, List.all_eq_true, decide_eq_true_eq] at h
  exact h

theorem argmin_evictOk (s : State) (v : Tx) (h : argmin s.txs = some v) : evictOk s v = true := by
  have ⟨hm, hmin⟩ := argmin_spec _ _ h
  unfold evictOk
  simp only [Bool.and_eq_true, List.contains_iff_mem, List.all_eq_true, decide_eq_true_eq]
  exact ⟨hm, hmin⟩

/-- **Replacement is strict.** If the pool already holds a transaction `old` with the sender and
sequence number of `t` (and `t` is not expired), `add` succeeds only when `t` has strictly higher
priority, and then `old` is gone and `t` is in; otherwise the contents are unchanged. -/
theorem replace_strict (s s' : State) (t old : Tx) (ss c : Nat) (v : Option Tx) (r : AddRes)
    (hcur : s.cur t.sender = some c) (hc : c ≤ t.seq)
    (hold : s.txs.find? (fun u => u.sender == t.sender && u.seq == t.seq) = some old)
    (h : addWith s t ss v = some (s', r)) :
    (r = .ok ∧ old.prio < t.prio ∧ t ∈ s'.txs ∧ ∀ u ∈ s'.txs, u.id = old.id → u = t) ∨
    (r = .replaceUnderpriced ∧ t.prio ≤ old.prio ∧ s'.txs = s.txs) := by
  unfold addWith at h
  have he : ensureSender s t.sender ss = s := by simp [ensureSender, hcur]
  rw [he] at h
  unfold addCore at h
  simp only [hcur, Option.getD_some] at h
  have hnl : ¬ t.seq < c := by omega
  simp only [hnl, if_false, hold] at h
  by_cases hp : t.prio ≤ old.prio
  · simp [hp] at h; obtain ⟨rfl, rfl⟩ := h
    exact Or.inr ⟨rfl, hp, rfl⟩
  · simp [hp] at h; obtain ⟨rfl, rfl⟩ := h
    refine Or.inl ⟨rfl, by omega, by simp, ?_⟩
    intro u hu hid
    rcases List.mem_cons.1 hu with rfl | hu
    · rfl
    · have := (List.mem_filter.1 hu).2
      simp [hid] at this

/-- **Forward expires.** After forwarding sender `a` past its current sequence number to `n`,
no transaction of `a` below `n` remains and all other transactions are kept. -/
theorem forward_expires (s : State) (a n c : Nat) (hcur : s.cur a = some c) (hlt : c < n) :
    ∀ t, t ∈ (forward s a n).txs ↔ (t ∈ s.txs ∧ ¬ (t.sender = a ∧ t.seq < n)) := by
  intro t
  unfold forward
  have : ¬ n ≤ c := by omega
  simp only [hcur, this, if_false, List.mem_filter, Bool.not_eq_true', Bool.and_eq_false_iff,
    beq_eq_false_iff_ne, ne_eq, decide_eq_false_iff_not, Nat.not_lt, not_and]
  constructor
  · rintro ⟨h1, h2⟩
    refine ⟨h1, fun hs => ?_⟩
    rcases h2 with h2 | h2
    · exact absurd hs h2
    · exact h2
  · rintro ⟨h1, h2⟩
    refine ⟨h1, ?_⟩
    by_cases hs : t.sender = a
    · exact Or.inr (h2 hs)
    · exact Or.inl hs

/-- **Reset restores.** After `reset` a transaction is ready iff it sits at its sender's current
sequence number. -/
theorem reset_restores (s : State) (t : Tx) :
    ready (reset s) t = (s.cur t.sender == some t.seq) := by
  simp [ready, reset]

/-! ### non-vacuity: the hypotheses are met by concrete non-trivial histories -/

def tA5 : Tx := { id := 1, sender := 0, seq := 5, prio := 1 }
def tA6 : Tx := { id := 2, sender := 0, seq := 6, prio := 3 }
def tB0 : Tx := { id := 3, sender := 1, seq := 0, prio := 2 }
def demoOps : List Op :=
  [.add tA5 5 none, .add tA6 5 none, .add tB0 0 none, .pick tB0, .pick tA5, .pick tA6]

example : (run (init 2) [.add tA5 5 none, .add tA6 5 none, .add tB0 0 none]).txs.length = 2 := by decide
example : (run (init 8) demoOps).picked = [tA6, tA5, tB0] := by decide
example : pickOk (run (init 8) (demoOps.take 3)) tB0 = true := by decide
-- the lower-priority head of sender 0 must go before its high-priority successor
example : pickOk (run (init 8) (demoOps.take 3)) tA6 = false := by decide

end OasisProofs.C20
