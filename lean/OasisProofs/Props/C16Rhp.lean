import OasisModel.Rhp.Dispatch
import OasisProofs.Helpers.RhpDispatch
/-
C16, "never HANG the node" clause — the response dispatcher of the runtime host protocol
(`go/runtime/host/protocol/connection.go`, model `OasisModel.Rhp.Dispatch`).

The peer is an untrusted runtime. It may send any sequence of response frames: unknown ids, duplicates, replays
of one response many times, responses after the caller gave up. Every frame gets its own handler goroutine
(connection.go:439-445) which ends in a plain channel send `respCh <- &message.Body` (404); `Close` waits for
all of them (217, 415). A handler parked in that send forever wedges `Close`.

Quantification: every finite list of steps of the model from the initial state — `call`, `response id b`
(a handler whose critical section and send are not interleaved with anything), `lookup id b` and `send id b`
(the same handler split in two, so that callers, cancellations and other handlers come in between),
`recv id`, `giveUp id` — with arbitrary ids and bodies in any order. A step that is not enabled (a `recv` with
nothing buffered, a `send` of a handler that does not exist, …) is a no-op, so every interleaving of the real
actions is one of these lists.

Why it holds (the invariant `OasisProofs.Rhp.Dispatch.Inv`): handleMessage looks the channel up AND deletes the
map entry in the same critical section (392-395), so for each request id at most one handler ever gets hold of
`respCh`, and the buffer of capacity 1 (262) takes that one send whether or not the caller is still there.
`replay_wedges_without_delete` shows the delete is what it rests on.

No hypotheses other than the ones written in the statements.
-/
namespace OasisProofs.C16Rhp
open OasisModel.Rhp.Dispatch OasisProofs.Rhp.Dispatch

/-! ### (1) no handler is ever parked in `respCh <- body` -/

/-- Whatever frames the peer sends and however handlers, callers and cancellations interleave: no handler
goroutine is parked in a send, `respCh <- body` was executed at most once per channel, and the buffer never
holds more than its capacity. -/
theorem no_blocked_handler (steps : List Step) (id : Nat) :
    ((run init steps).chans id).blocked.length = 0 ∧
    ((run init steps).chans id).sends ≤ 1 ∧
    ((run init steps).chans id).buffered ≤ 1 := by
  have h := inv_run inv_init steps
  have htk := h.tok_le id
  have hb := h.buf_le id
  unfold tok at htk
  refine ⟨by rw [h.blocked_nil id]; rfl, by omega, ?_⟩
  unfold Chan.buffered; omega

/-- The same for the state as a whole: the right to send into `respCh` of one id exists at most once — as the
map entry, in the hands of one handler goroutine, or used. -/
theorem one_token_per_id (steps : List Step) (id : Nat) :
    (if id ∈ (run init steps).pending then 1 else 0) + cnt id (run init steps).inflight +
      ((run init steps).chans id).sends ≤ 1 :=
  (inv_run inv_init steps).tok_le id

/-! ### (2) `Close` is not wedged by response frames

`started - returned` is the WaitGroup counter `Close` waits for. A handler parked in its send is NOT counted
as returned (`doSend`: `returned` grows only if `Chan.send` completes) and stays so until a receive frees it
(`Chan.afterRecv`); `replay_wedges_without_delete` below shows the counter stuck at 1 in the mutated
dispatcher, so the statements here are not true by construction. -/

/-- Handlers that run their two actions back to back: in every reachable state every handler goroutine that
was started has returned. -/
theorem close_not_wedged (steps : List Step) (ha : ∀ st ∈ steps, st.atomic = true) :
    (run init steps).started = (run init steps).returned ∧ (run init steps).unreturned = 0 := by
  have h := (inv_run inv_init steps).wg
  have hi : (run init steps).inflight = [] := inflight_run_atomic ha rfl
  rw [hi] at h
  simp only [List.length_nil, Nat.add_zero] at h
  exact ⟨h, by unfold State.unreturned; omega⟩

/-- Arbitrary interleaving: the handler goroutines that have not returned are exactly the ones between their
critical section and their send; the send of each of them completes and the goroutine returns, whatever else
has happened to the caller in the meantime; and once they have all taken that one step nothing is left for
`Close` to wait for. -/
theorem close_not_wedged_interleaved (steps : List Step) :
    (run init steps).started = (run init steps).returned + (run init steps).inflight.length ∧
    (∀ p ∈ (run init steps).inflight,
        (send (run init steps) p.1 p.2).returned = (run init steps).returned + 1 ∧
        (send (run init steps) p.1 p.2).inflight.length + 1 = (run init steps).inflight.length) ∧
    (drain (run init steps)).inflight = [] ∧
    (drain (run init steps)).started = (drain (run init steps)).returned ∧
    (drain (run init steps)).unreturned = 0 ∧
    (∀ id, ((drain (run init steps)).chans id).blocked.length = 0) := by
  have h := inv_run inv_init steps
  obtain ⟨hd, hdi, _⟩ := drain_aux _ _ h rfl
  have hwg := hd.wg
  refine ⟨h.wg, ?_, hdi, ?_, ?_, ?_⟩
  · intro p hp
    have hm : (p.1, p.2) ∈ (run init steps).inflight := hp
    refine ⟨send_returned h hm, ?_⟩
    rw [send_inflight hm, List.length_erase_of_mem hm]
    have := List.length_pos_of_mem hm
    omega
  · unfold drain; rw [hdi] at hwg; simpa using hwg
  · unfold drain State.unreturned; rw [hdi] at hwg; simp at hwg; omega
  · intro id; unfold drain; rw [hd.blocked_nil id]; rfl

/-- The hypothesis of `close_not_wedged` is needed for ITS conclusion (between the two actions of a handler
the counter is 1), which is why `close_not_wedged_interleaved` speaks about the remaining step. -/
example : (run init [.call, .lookup 0 7]).unreturned = 1 := by decide

/-! ### (3) the caller gets the first response that arrived while it was pending, once

"A response frame for `id` that arrives while `id` is pending" is a `response id b` (or `lookup id b`) step
taken in a state whose map has the entry. It removes the entry (`never_pending_again`), ids are never reused,
so it is the first and the only such frame; every later frame for `id` is logged and dropped
(`later_frames_dropped`). -/

/-- If the frame `response id b` arrives while `id` is pending, then whatever happens before and after, every
body ever handed to the caller of `id` is `b`. -/
theorem response_delivered_once (pre post : List Step) (id : Nat) (b : Body)
    (hp : id ∈ (run init pre).pending) :
    ∀ b', (id, b') ∈ (run init (pre ++ Step.response id b :: post)).delivered → b' = b := by
  rw [run_append, run_cons]
  exact (owns_run (owns_response (inv_run inv_init pre) hp b) post).deliv

/-- The same when the handler goroutine is split: the frame whose critical section found the entry. -/
theorem response_delivered_once_split (pre post : List Step) (id : Nat) (b : Body)
    (hp : id ∈ (run init pre).pending) :
    ∀ b', (id, b') ∈ (run init (pre ++ Step.lookup id b :: post)).delivered → b' = b := by
  rw [run_append, run_cons]
  exact (owns_run (owns_lookup (inv_run inv_init pre) hp b) post).deliv

/-- After that frame the map never has an entry for `id` again. -/
theorem never_pending_again (pre post : List Step) (id : Nat) (b : Body)
    (hp : id ∈ (run init pre).pending) :
    id ∉ (run init (pre ++ Step.response id b :: post)).pending ∧
    id ∉ (run init (pre ++ Step.lookup id b :: post)).pending := by
  constructor
  · rw [run_append, run_cons]
    exact (owns_run (owns_response (inv_run inv_init pre) hp b) post).not_pending
  · rw [run_append, run_cons]
    exact (owns_run (owns_lookup (inv_run inv_init pre) hp b) post).not_pending

/-- A frame for an id that is not in the map (unknown, duplicate, replayed, late) changes nothing but the
counters: the handler goroutine logs, drops the frame and returns. -/
theorem unknown_frame_dropped (s : State) (id : Nat) (b : Body) (h : id ∉ s.pending) :
    response s id b =
      { s with started := s.started + 1, returned := s.returned + 1, dropped := s.dropped + 1 } ∧
    lookup s id b = response s id b := by
  simp [response, lookup, h]

/-- Hence every later frame for the same id is dropped. -/
theorem later_frames_dropped (pre post : List Step) (id : Nat) (b b2 : Body)
    (hp : id ∈ (run init pre).pending) :
    let s := run init (pre ++ Step.response id b :: post)
    step s (.response id b2) =
      { s with started := s.started + 1, returned := s.returned + 1, dropped := s.dropped + 1 } :=
  (unknown_frame_dropped _ id b2 (never_pending_again pre post id b hp).1).1

/-- A call returns a body at most once. -/
theorem delivered_at_most_once (steps : List Step) :
    ((run init steps).delivered.map Prod.fst).Nodup :=
  (inv_run inv_init steps).deliv_nodup

/-- And the caller does get it: a receive right after the frame returns exactly that body. -/
theorem recv_after_response (pre : List Step) (id : Nat) (b : Body)
    (hp : id ∈ (run init pre).pending) :
    (run init (pre ++ [Step.response id b, Step.recv id])).delivered =
      (run init pre).delivered ++ [(id, b)] := by
  rw [run_append]
  exact recv_response_delivered (inv_run inv_init pre) hp b

/-- No body is invented: whatever a caller receives came in a response frame for its id that arrived while
the id was pending (and by `response_delivered_once` / `accepted_frame_unique` that frame is the first and the
only one). -/
theorem delivered_origin (steps : List Step) (id : Nat) (b' : Body)
    (h : (id, b') ∈ (run init steps).delivered) :
    ∃ pre fr post, steps = pre ++ fr :: post ∧ (fr = Step.response id b' ∨ fr = Step.lookup id b') ∧
      id ∈ (run init pre).pending := by
  rcases holds_run steps init id b' (.inr (.inr (.inr h))) with h0 | h1
  · rcases h0 with h0 | h0 | h0 | h0 <;> simp [init] at h0
  · exact h1

/-- In one history at most one frame per id finds the entry: two such frames are the same position. -/
theorem accepted_frame_unique (pre post pre' post' : List Step) (fr fr' : Step) (id : Nat) (b b2 : Body)
    (e : pre ++ fr :: post = pre' ++ fr' :: post')
    (hfr : fr = Step.response id b ∨ fr = Step.lookup id b)
    (hfr' : fr' = Step.response id b2 ∨ fr' = Step.lookup id b2)
    (hp : id ∈ (run init pre).pending) (hp' : id ∈ (run init pre').pending) :
    pre = pre' ∧ fr = fr' ∧ post = post' := by
  have key : ∀ (p q : List Step) (f : Step) (c : Body) (mid : List Step),
      (f = Step.response id c ∨ f = Step.lookup id c) → id ∈ (run init p).pending →
      q = p ++ f :: mid → id ∉ (run init q).pending := by
    intro p q f c mid hf hpp hq
    subst hq
    rcases hf with rfl | rfl
    · exact (never_pending_again p mid id c hpp).1
    · exact (never_pending_again p mid id c hpp).2
  rcases List.append_eq_append_iff.mp e with ⟨a, ha, hb⟩ | ⟨a, ha, hb⟩
  · cases a with
    | nil =>
      simp only [List.append_nil] at ha
      simp only [List.nil_append, List.cons.injEq] at hb
      exact ⟨ha.symm, hb.1, hb.2⟩
    | cons x mid =>
      simp only [List.cons_append, List.cons.injEq] at hb
      obtain ⟨rfl, _⟩ := hb
      exact absurd hp' (key pre pre' fr b mid hfr hp ha)
  · cases a with
    | nil =>
      simp only [List.append_nil] at ha
      simp only [List.nil_append, List.cons.injEq] at hb
      exact ⟨ha, hb.1.symm, hb.2.symm⟩
    | cons x mid =>
      simp only [List.cons_append, List.cons.injEq] at hb
      obtain ⟨rfl, _⟩ := hb
      exact absurd hp (key pre' pre fr' b2 mid hfr' hp' ha)

/-- `id ∈ pending` is needed: a frame that arrives before the call is dropped, and the caller gets the body of
the frame that arrives while it is pending. -/
example :
    (run init [.response 0 5, .call, .response 0 7, .recv 0]).delivered = [(0, 7)] ∧
    (run init [.response 0 5, .call, .response 0 7, .recv 0]).dropped = 1 := by decide

/-! ### (4) without the delete a replayed response wedges `Close` -/

/-- One call, the same response three times, one receive — against the mutated dispatcher. -/
def replay : List MStep :=
  [.genuine .call, .responseNoDelete 0 7, .responseNoDelete 0 7, .responseNoDelete 0 7, .genuine (.recv 0)]

/-- With `responseNoDelete` (lookup without the delete of connection.go:394) the replay leaves a handler
goroutine parked in `respCh <- body` after the caller has received and returned, and nothing the peer, the
callers or the scheduler can do afterwards — no step of the model, genuine or mutated — frees it. -/
theorem replay_wedges_without_delete (more : List MStep) :
    1 ≤ ((mrun init (replay ++ more)).chans 0).blocked.length ∧
    ((mrun init (replay ++ more)).chans 0).received = true := by
  have h0 : Stuck 0 (mrun init replay) := ⟨by decide, by decide, by decide⟩
  have h := stuck_mrun h0 more
  rw [← mrun_append] at h
  refine ⟨?_, h.2.1⟩
  have := h.2.2
  cases hb : ((mrun init (replay ++ more)).chans 0).blocked with
  | nil => exact absurd hb this
  | cons _ _ => simp

/-- At the end of the replay: the caller got its body, the first parked handler was freed by the receive, the
second is parked, and the WaitGroup counter `Close` waits for is 1. -/
example :
    (mrun init replay).delivered = [(0, 7)] ∧
    ((mrun init replay).chans 0).blocked = [7] ∧
    ((mrun init replay).chans 0).sends = 3 ∧
    (mrun init replay).started = 3 ∧ (mrun init replay).returned = 2 ∧
    (mrun init replay).unreturned = 1 := by decide

/-- The same frames against the code: the second and third are dropped, nothing is parked. -/
example :
    (run init [.call, .response 0 7, .response 0 7, .response 0 7, .recv 0]).delivered = [(0, 7)] ∧
    ((run init [.call, .response 0 7, .response 0 7, .response 0 7, .recv 0]).chans 0).blocked = [] ∧
    (run init [.call, .response 0 7, .response 0 7, .response 0 7, .recv 0]).dropped = 2 ∧
    (run init [.call, .response 0 7, .response 0 7, .response 0 7, .recv 0]).unreturned = 0 := by decide

/-! ### (5) non-vacuity -/

/-- A history with everything in it: two calls; the response for call 0 is looked up, then the caller gives up
(context cancelled) before the handler sends — the late send goes into the buffer of the abandoned channel
and the handler returns; an unknown id; the response for call 1, replayed twice; call 1 receives. -/
def busy : List Step :=
  [.call, .call, .lookup 0 7, .giveUp 0, .send 0 7, .response 5 1, .response 1 9, .response 1 9,
   .lookup 1 8, .send 1 8, .recv 1, .recv 0, .recv 1, .response 0 7]

example :
    (run init busy).delivered = [(1, 9)] ∧ (run init busy).dropped = 4 ∧
    (run init busy).started = 6 ∧ (run init busy).returned = 6 ∧
    ((run init busy).chans 0).buf = [7] ∧ ((run init busy).chans 0).gaveUp = true ∧
    ((run init busy).chans 0).blocked = [] ∧ ((run init busy).chans 1).blocked = [] ∧
    (run init busy).pending = [] := by decide

/-- The hypotheses of (3) are satisfiable, with steps before and after. -/
example : (1 : Nat) ∈ (run init [.call, .call, .response 0 3]).pending := by decide

example :
    (run init ([.call, .call, .response 0 3] ++ Step.response 1 9 :: [.response 1 4, .recv 1, .recv 0])).delivered
      = [(1, 9), (0, 3)] := by decide

/-- The hypothesis of `delivered_origin` is satisfiable; here the frame is the 7th step, `response 1 9`. -/
example : ((1 : Nat), (9 : Body)) ∈ (run init busy).delivered := by decide

/-- The hypothesis of `close_not_wedged` is satisfiable on a history that is not trivial. -/
example : ∀ st ∈ ([.call, .response 0 7, .response 0 7, .giveUp 0, .call, .response 1 2, .recv 1] : List Step),
    st.atomic = true := by decide

/-- In-flight handlers exist in reachable states (the second conjunct of `close_not_wedged_interleaved` is
not about an empty list). -/
example : (run init [.call, .call, .lookup 1 4, .lookup 0 3, .giveUp 1]).inflight = [(1, 4), (0, 3)] := by decide

end OasisProofs.C16Rhp
