/-
Process-local state of the consensus applications, as an obligation of every property whose carrier is an
application (C05, C08, C10, C11, C14, C15, C17 besides C01): an application object that keeps something in
memory across calls (a parameter cache, a memoised lookup) makes what it computes depend on the history
of the PROCESS — which validations it happened to run in CheckTx, whether it was restarted — and not only
on the consensus state the property speaks about.  The regenerated ledger and its classification live in
`Props/C01.lean`; this file re-exports the two obligations so that each of those checks re-proves them
against the current source (`tools/gen muxfacts`).
-/
import OasisProofs.Props.C01

namespace OasisProofs.AppStateFacts

/-- Every field of every application type is known and classified (no new in-memory state). -/
theorem app_state_fields_classified :
    Generated.MuxFacts.appStateFields = OasisProofs.C01.expectedAppFields.map (·.1) :=
  OasisProofs.C01.app_state_fields_classified

/-- Every statement that writes through the receiver of an application method is known and classified. -/
theorem app_state_writes_classified :
    Generated.MuxFacts.appStateWrites = OasisProofs.C01.expectedAppWrites.map (·.1) :=
  OasisProofs.C01.app_state_writes_classified

end OasisProofs.AppStateFacts
