/-
Property C01, the multiplexer's time source.  Block execution asks for the epoch of the block being
executed and of its predecessor (`applicationState.EpochChanged`, `GetEpoch`, `GetCurrentEpoch`) through
the time source installed with `SetEpochtime` — on a node the beacon `ServiceClient`.  Replicas agree
only if these answers are a function of the CONSENSUS STATE at the requested height: the methods the
abci package calls read the state tree at that height (`querier.QueryAt(ctx, height)`) or a constant
fixed at start-up (`baseEpoch`), never the service client's caches, which are fed asynchronously by the
node-local event worker (a seeded change answered `GetEpoch` from that cache: a replica whose event
worker lagged one block behind saw the epoch change twice).  `tools/gen stmtfacts timesource` regenerates
the statement lists; they are pinned here, and the obligation below states what the pin is read for.
-/
import Generated.StmtFactsTimesource

namespace OasisProofs.C01TimeSource

def expected_getBaseEpochStmts : List String := [
  "return sc.baseEpoch, nil"]

theorem getBaseEpochStmts_as_modelled : Generated.StmtFacts.Timesource.getBaseEpochStmts = expected_getBaseEpochStmts := rfl

def expected_getEpochStmts : List String := [
  "q, err := sc.querier.QueryAt(ctx, height)",
  "if err != nil {",
  "return api.EpochInvalid, err",
  "}",
  "epoch, _, err := q.Epoch(ctx)",
  "return epoch, err"]

theorem getEpochStmts_as_modelled : Generated.StmtFacts.Timesource.getEpochStmts = expected_getEpochStmts := rfl

def expected_getFutureEpochStmts : List String := [
  "q, err := sc.querier.QueryAt(ctx, height)",
  "if err != nil {",
  "return nil, err",
  "}",
  "return q.FutureEpoch(ctx)"]

theorem getFutureEpochStmts_as_modelled : Generated.StmtFacts.Timesource.getFutureEpochStmts = expected_getFutureEpochStmts := rfl

def expected_epochChangedStmts : List String := [
  "lastHeight := s.LastHeight()",
  "if lastHeight == 0 {",
  "return false, beacon.EpochInvalid",
  "}",
  "latestHeight := lastHeight",
  "if abciCtx := api.FromCtx(ctx); abciCtx != nil {",
  "latestHeight++",
  "}",
  "currentEpoch, err := s.timeSource.GetEpoch(ctx, latestHeight)",
  "if err != nil {",
  "s.logger.Error(\"EpochChanged: failed to get current epoch\", \"err\", err, )",
  "return false, beacon.EpochInvalid",
  "}",
  "if lastHeight == s.initialHeight {",
  "return false, currentEpoch",
  "}",
  "previousEpoch, err := s.timeSource.GetEpoch(ctx, latestHeight-1)",
  "if err != nil {",
  "s.logger.Error(\"EpochChanged: failed to get previous epoch\", \"err\", err, )",
  "return false, beacon.EpochInvalid",
  "}",
  "if previousEpoch == currentEpoch {",
  "return false, currentEpoch",
  "}",
  "s.logger.Debug(\"EpochChanged: epoch transition detected\", \"prev_epoch\", previousEpoch, \"epoch\", currentEpoch, )",
  "return true, currentEpoch"]

theorem epochChangedStmts_as_modelled : Generated.StmtFacts.Timesource.epochChangedStmts = expected_epochChangedStmts := rfl

def expected_stateGetEpochStmts : List String := [
  "return s.timeSource.GetEpoch(ctx, blockHeight)"]

theorem stateGetEpochStmts_as_modelled : Generated.StmtFacts.Timesource.stateGetEpochStmts = expected_stateGetEpochStmts := rfl

def expected_getCurrentEpochStmts : List String := [
  "lastHeight := s.LastHeight()",
  "if lastHeight == 0 {",
  "return beacon.EpochInvalid, nil",
  "}",
  "latestHeight := lastHeight",
  "if abciCtx := api.FromCtx(ctx); abciCtx != nil {",
  "latestHeight++",
  "}",
  "future, err := s.timeSource.GetFutureEpoch(ctx, latestHeight)",
  "if err != nil {",
  "return beacon.EpochInvalid, fmt.Errorf(\"failed to get future epoch for height %d: %w\", latestHeight, err)",
  "}",
  "if future != nil && future.Height == lastHeight+1 {",
  "return future.Epoch, nil",
  "}",
  "currentEpoch, err := s.timeSource.GetEpoch(ctx, latestHeight)",
  "if err != nil {",
  "return beacon.EpochInvalid, fmt.Errorf(\"failed to get epoch for height %d: %w\", lastHeight+1, err)",
  "}",
  "return currentEpoch, nil"]

theorem getCurrentEpochStmts_as_modelled : Generated.StmtFacts.Timesource.getCurrentEpochStmts = expected_getCurrentEpochStmts := rfl

/-- **The epoch queries of the delivery path read the state tree at the requested height**: the
first statement of `ServiceClient.GetEpoch` and `GetFutureEpoch` opens the state at `height`
(`sc.querier.QueryAt(ctx, height)`), the remaining statements only forward what that query answers
(six and five statements in all: there is no other path to an answer, in particular none through the
asynchronously fed caches `epochCache` / `currentEpoch`), and `GetBaseEpoch` returns the constant fixed
at start-up. -/
theorem epoch_queries_read_state_only :
    expected_getEpochStmts.head? = some "q, err := sc.querier.QueryAt(ctx, height)" ∧
    expected_getFutureEpochStmts.head? = some "q, err := sc.querier.QueryAt(ctx, height)" ∧
    expected_getEpochStmts.getLast? = some "return epoch, err" ∧
    expected_getFutureEpochStmts.getLast? = some "return q.FutureEpoch(ctx)" ∧
    expected_getEpochStmts.length = 6 ∧ expected_getFutureEpochStmts.length = 5 ∧
    expected_getBaseEpochStmts = ["return sc.baseEpoch, nil"] := by
  decide +kernel

end OasisProofs.C01TimeSource
