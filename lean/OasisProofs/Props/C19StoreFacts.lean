/-
C19 — regenerated statement pin of the production light-block store wrapper (go/consensus/cometbft/light/store.go
prunedStore) and of Client.LastTrustedHeight: the stateless Core decides by `LastTrustedHeight()` whether a height is
"below the latest trusted one" (and so whether results are checked against LastResultsHash of the next header). The
model (OasisModel/Stateless/Verify.lean) takes the maximum stored height for it; that is what these functions return as
long as the wrapper delegates the height queries to the CometBFT store unchanged. statelessdrv reaches the real
wrapper through the verif hook NewVerifPrunedStore, saving headers in arbitrary order.

`tools/gen stmtfacts lightstore` flattens the functions into one line per simple statement on every run; the
lists are pinned here (`rfl`). A change of a statement, a condition or of the order of statements breaks the
pin until the new text has been read against the model.
-/
import Generated.StmtFactsLightstore

namespace OasisProofs.C19StoreFacts

/-- Position of the first line equal to `s`. -/
def pos (l : List String) (s : String) : Option Nat :=
  let i := l.findIdx (· == s)
  if i < l.length then some i else none

/-- The lines occur in this order (strictly increasing positions). -/
def inOrder (l : List String) : List String → Option Nat → Bool
  | [], _ => true
  | s :: rest, prev =>
    match pos l s, prev with
    | none, _ => false
    | some i, none => inOrder l rest (some i)
    | some i, some p => decide (p < i) && inOrder l rest (some i)

def expected_lastLightBlockHeightStmts : List String := [
  "return p.store.LastLightBlockHeight()"]

theorem lastLightBlockHeightStmts_as_modelled : Generated.StmtFacts.Lightstore.lastLightBlockHeightStmts = expected_lastLightBlockHeightStmts := rfl

def expected_saveLightBlockStmts : List String := [
  "if p.high > 0 && p.Size() >= p.high {",
  "if err := p.Prune(p.low); err != nil {",
  "return err",
  "}",
  "}",
  "return p.store.SaveLightBlock(lb)"]

theorem saveLightBlockStmts_as_modelled : Generated.StmtFacts.Lightstore.saveLightBlockStmts = expected_saveLightBlockStmts := rfl

def expected_lightBlockStmts : List String := [
  "return p.store.LightBlock(height)"]

theorem lightBlockStmts_as_modelled : Generated.StmtFacts.Lightstore.lightBlockStmts = expected_lightBlockStmts := rfl

def expected_deleteLightBlockStmts : List String := [
  "return p.store.DeleteLightBlock(height)"]

theorem deleteLightBlockStmts_as_modelled : Generated.StmtFacts.Lightstore.deleteLightBlockStmts = expected_deleteLightBlockStmts := rfl

def expected_lastTrustedHeightStmts : List String := [
  "height, err := c.lightClient.LastTrustedHeight()",
  "if err != nil {",
  "return 0, err",
  "}",
  "if height == -1 {",
  "return 0, fmt.Errorf(\"no trusted headers\")",
  "}",
  "return height, nil"]

theorem lastTrustedHeightStmts_as_modelled : Generated.StmtFacts.Lightstore.lastTrustedHeightStmts = expected_lastTrustedHeightStmts := rfl

/-- The height queries are delegated to the underlying store: no cached or derived height. -/
theorem last_height_is_the_stores :
    expected_lastLightBlockHeightStmts = ["return p.store.LastLightBlockHeight()"] := rfl

end OasisProofs.C19StoreFacts
