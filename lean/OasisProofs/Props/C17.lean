import OasisProofs.Helpers.RegistryAuth
import OasisProofs.Helpers.RegistryKeys
import OasisProofs.Helpers.RegistryGenesis
import OasisProofs.Helpers.RegistrySteps
import Generated.RegistrySetNode
/-
C17 — registry records change only with authority; keys stay unique.

Theorems about the registry model `OasisModel.Registry` (lean/OasisModel/Registry/Index.lean) for
*every* history of entity / node / runtime registrations, updates (incl. a node rotating or
exchanging its P2P/TLS/VRF keys), expirations, re-registrations, deregistrations and epoch
transitions, with arbitrary transaction signers and descriptor signature sets.

The executable invariant `invB` is the predicate the harness evaluates on the dumped state of the real
registry after every operation (spec-on-implementation); `invB_spec` says what it means.

Order of the sub-key writes in `SetNode` (F2).  The model carries both orders:
  * `Order.removalsFirst` (all removals, then all insertions) — the Go code since the repair 52c7fb0:
    the invariant holds for every history (`inv_step`, `inv_reachable`);
  * `Order.interleaved` (the Go code before the repair): the invariant is preserved exactly by the
    updates that move no key "forward" (`setNode_interleaved_iff`, `inv_reachable_interleaved_partial`) and
    is violated by a three-transaction history (`f2_interleaved_violates`), kept as a regression in
    corpus/C17/f2-*.txt.
The order the Go source has *now* is regenerated on every run (`Generated.Registry.setNodeSteps`, extracted
by tools/gen from state.go) and compared with the model's step list for `codeOrder` (`setnode_steps_tie`);
`steps_are_setNode` links the step list to the model function the theorems are about.
-/
namespace OasisProofs.C17
open OasisModel.Registry OasisProofs.Registry

/-! ### what the executable invariant means -/

/-- `invB` holds exactly when: every key-map / consensus-address / nodes-by-entity / runtime-by-entity
entry points to a registered record that currently has that key (owner), every registered record is
found under each of its current keys (owner), records are stored under their own id with pairwise
different sub-keys, the recorded stake claims are exactly the implied ones, and node statuses exist
exactly for registered nodes. -/
theorem invB_spec (s : State) : invB s = true ↔ InvL s := invB_iff s

/-- No public key is a sub-key (consensus, P2P, TLS, VRF) of two different registered nodes. -/
theorem subkeys_unique (s : State) (h : invB s = true) (i j : Key) (n m : Node)
    (hn : s.nodes.get i = some n) (hm : s.nodes.get j = some m) (k : Key)
    (hkn : k ∈ subKeys n) (hkm : k ∈ subKeys m) : i = j := by
  have hI := (invB_iff s).1 h
  have h1 := hI.km_compl i n hn k hkn
  have h2 := hI.km_compl j m hm k hkm
  rw [h1] at h2
  exact Option.some.inj h2

/-- Every registered node is found under each of its current keys (`NodeBySubKey`) and under its
consensus address (`NodeByConsensusAddress`). -/
theorem found_under_each_key (s : State) (h : invB s = true) (i : Key) (n : Node)
    (hn : s.nodes.get i = some n) :
    (∀ k, k ∈ subKeys n → nodeBySubKey s k = some n) ∧ nodeByConsAddr s n.cons = some n := by
  have hI := (invB_iff s).1 h
  refine ⟨?_, ?_⟩
  · intro k hk
    simp only [nodeBySubKey, hI.km_compl i n hn k hk, hn]
  · simp only [nodeByConsAddr, hI.ca_compl i n hn, hn]

/-- A successful sub-key lookup returns a node that currently has that key. -/
theorem lookup_is_current (s : State) (h : invB s = true) (k : Key) (n : Node)
    (hk : nodeBySubKey s k = some n) : k ∈ subKeys n := by
  have hI := (invB_iff s).1 h
  simp only [nodeBySubKey] at hk
  cases hid : s.keyMap.get k with
  | none => simp [hid] at hk
  | some id =>
    simp only [hid] at hk
    obtain ⟨m, hm, hkm⟩ := hI.km_sound k id hid
    rw [hm] at hk
    cases hk
    exact hkm

/-! ### the invariant holds initially and is preserved: repaired order -/

theorem inv_init (p : Params) : Inv (init p) := by
  refine { toIndexInv := ?_, cl_sound := ?_, cl_compl := ?_, st_nodes := ?_, nodes_nodup := ?_ }
  · constructor <;> intros <;> simp_all [init]
  · intro a c ths h; simp [init] at h
  · intro a c ths h
    cases c <;> simp [Implied, init] at h
  · intro id n h; simp [init] at h
  · simp [init, Map.keys]

/-- Every operation preserves the invariant when `SetNode` performs all removals before all
insertions (the repaired order). -/
theorem inv_step_repaired (s : State) (op : Op) (h : Inv s) : Inv (step .removalsFirst s op).1 := by
  cases op with
  | regEntity t se => exact regEntity_inv false s t se h
  | deregEntity t => exact deregEntity_inv s t h
  | regNode t sn => exact regNode_inv_rf false s t sn h
  | regRuntime c rt => exact regRuntime_inv false s c rt h
  | unfreeze t id => exact unfreezeNode_inv s t id h
  | epoch e => exact (epochTransition_spec s e h).2
  | freeze id u => exact freezeNode_inv s id u h
  | setBalance a v => exact setBalance_inv s a v h

theorem inv_run_repaired (s : State) (ops : List Op) (h : Inv s) : Inv (run .removalsFirst s ops) := by
  induction ops generalizing s with
  | nil => exact h
  | cons op ops ih => exact ih _ (inv_step_repaired s op h)

/-- For every history the executable invariant holds in the reached state (repaired order). -/
theorem inv_reachable_repaired (p : Params) (ops : List Op) :
    invB (run .removalsFirst (init p) ops) = true :=
  (invB_iff _).2 (inv_run_repaired _ ops (inv_init p)).toInvL

/-! ### the order the Go code has now -/

/-- Regenerated tie: the store writes of `MutableState.SetNode`, extracted from the current Go source in
source order with their guards, are the model's step list for `codeOrder`. -/
theorem setnode_steps_tie : Generated.Registry.setNodeSteps = setNodeSteps codeOrder := by decide

/-- Regenerated tie: the store removals of `MutableState.RemoveNode`. -/
theorem removenode_steps_tie : Generated.Registry.removeNodeSteps = removeNodeSteps := by decide

/-- Executing the extracted writes one after the other is the model's `setNode codeOrder` /
`removeNode` (the functions all theorems below are about). -/
theorem steps_are_setNode (s : State) (old : Option Node) (n : Node) :
    runSteps old n Generated.Registry.setNodeSteps s = setNode codeOrder s old n ∧
    runRm n Generated.Registry.removeNodeSteps s = removeNode s n := by
  rw [setnode_steps_tie, removenode_steps_tie]
  exact ⟨runSteps_setNode codeOrder s old n, runRm_removeNode s n⟩

/-- The code's order is the repaired one (all removals before all insertions). -/
theorem code_order_now : codeOrder = .removalsFirst := rfl

/-- **Every operation preserves the invariant** (order of writes as in the Go code now). -/
theorem inv_step (s : State) (op : Op) (h : Inv s) : Inv (step codeOrder s op).1 :=
  inv_step_repaired s op h

/-- **For every history the invariant holds in the reached state** (order of writes as in the Go code
now): every index entry points to a registered record that currently has that key, every registered node
is found under each of its current keys, no sub-key belongs to two nodes, nodes-by-entity and
runtime-by-entity mirror the records, the stake claims are exactly the implied ones. -/
theorem inv_reachable (p : Params) (ops : List Op) : invB (run codeOrder (init p) ops) = true :=
  inv_reachable_repaired p ops

/-! ### the order before the repair (interleaved): exact boundary of F2 -/

/-- For an accepted update of a registered node, `SetNode` in the interleaved order leaves the
indexes consistent **iff** no key moves forward (new P2P = old VRF or old TLS, or new VRF = old TLS). -/
theorem setNode_interleaved_iff (s : State) (t : Key) (sn : SignedNode) (cur : Node) (h : Inv s)
    (hc : NodeChecks false s t sn) (hcur : s.nodes.get sn.node.id = some cur) :
    IndexInv (setNode .interleaved s (some cur) sn.node) ↔ ¬ forwardMove cur sn.node := by
  have ha := accepted_of_nodeChecks h.toIndexInv hc
  constructor
  · intro hi hf
    exact setNode_il_breaks s sn.node cur h.toIndexInv ha hcur hf hi
  · intro hf
    have := setNode_il_index s sn.node h.toIndexInv ha (fun c hc' => by rw [hcur] at hc'; cases hc'; exact hf)
    rw [hcur] at this
    exact this

/-- The operation is not a node update that moves a key forward. -/
def NoForward (s : State) : Op → Prop
  | .regNode _ sn => match s.nodes.get sn.node.id with
    | some cur => ¬ forwardMove cur sn.node
    | none => True
  | _ => True

instance (s : State) (op : Op) : Decidable (NoForward s op) := by
  cases op <;> simp only [NoForward] <;> try infer_instance
  split <;> infer_instance

/-- No operation of the history (executed in the interleaved order) moves a key forward. -/
def SafeHist (s : State) : List Op → Prop
  | [] => True
  | op :: ops => NoForward s op ∧ SafeHist (step .interleaved s op).1 ops

instance decSafeHist : (s : State) → (ops : List Op) → Decidable (SafeHist s ops)
  | _, [] => isTrue trivial
  | s, op :: ops => by
    simp only [SafeHist]
    have := decSafeHist (step .interleaved s op).1 ops
    infer_instance

theorem inv_step_interleaved_partial (s : State) (op : Op) (h : Inv s) (hs : NoForward s op) :
    Inv (step .interleaved s op).1 := by
  cases op with
  | regEntity t se => exact regEntity_inv false s t se h
  | deregEntity t => exact deregEntity_inv s t h
  | regNode t sn =>
    exact regNode_inv_il false s t sn h (fun cur hc => by simp only [NoForward, hc] at hs; exact hs)
  | regRuntime c rt => exact regRuntime_inv false s c rt h
  | unfreeze t id => exact unfreezeNode_inv s t id h
  | epoch e => exact (epochTransition_spec s e h).2
  | freeze id u => exact freezeNode_inv s id u h
  | setBalance a v => exact setBalance_inv s a v h

theorem inv_run_interleaved_partial (s : State) (ops : List Op) (h : Inv s) (hs : SafeHist s ops) :
    Inv (run .interleaved s ops) := by
  induction ops generalizing s with
  | nil => exact h
  | cons op ops ih => exact ih _ (inv_step_interleaved_partial s op h hs.1) hs.2

/-- Partial (interleaved order only): the invariant holds for the histories without forward key moves.
(The full statement — all histories — is `inv_reachable`; it is false for the interleaved order, see
`f2_interleaved_violates`.) -/
theorem inv_reachable_interleaved_partial (p : Params) (ops : List Op) (hs : SafeHist (init p) ops) :
    invB (run .interleaved (init p) ops) = true :=
  (invB_iff _).2 (inv_run_interleaved_partial _ ops (inv_init p) hs).toInvL

/-! #### F2: the failing history -/

def f2Params : Params := { maxNodeExpiration := 5, debondingInterval := 1 }
def f2Node : Node :=
  { id := 4, entity := 1, cons := 9, p2p := 10, tls := 11, vrf := 12, expiration := 3, roles := 8, runtimes := [] }
/-- The same node with its P2P and TLS keys exchanged. -/
def f2Node' : Node := { f2Node with p2p := 11, tls := 10 }
def signedBy (n : Node) : SignedNode := { node := n, signers := [n.id, n.p2p, n.cons, n.tls, n.vrf], sigValid := true }
/-- register entity 1 (node list [4]); register node 4; re-register node 4 with P2P and TLS exchanged. -/
def f2History : List Op :=
  [ .regEntity 1 { id := 1, nodes := [4], signer := 1, sigValid := true },
    .regNode 4 (signedBy f2Node),
    .regNode 4 (signedBy f2Node') ]

/-- Result codes of a history. -/
def results (ord : Order) : State → List Op → List Res
  | _, [] => []
  | s, op :: ops => (step ord s op).2 :: results ord (step ord s op).1 ops

/-- In the interleaved order (the code before 52c7fb0) all three transactions succeed and afterwards node 4 is not found under its
current P2P key 11 (the key map has no entry for it), so the invariant is false; in the repaired order
the same history keeps it. -/
theorem f2_interleaved_violates :
    results .interleaved (init f2Params) f2History = [.ok, .ok, .ok] ∧
    invB (run .interleaved (init f2Params) f2History) = false ∧
    nodeBySubKey (run .interleaved (init f2Params) f2History) 11 = none ∧
    (run .interleaved (init f2Params) f2History).nodes.get 4 = some f2Node' ∧
    invB (run .removalsFirst (init f2Params) f2History) = true := by
  decide

/-! ### failed operations change nothing; nothing aborts -/

/-- In a state satisfying the invariant an operation either succeeds or leaves the state unchanged;
in particular a registration refused for lack of stake leaves no trace, `deregisterEntity` never panics on
a missing claim, the epoch transition never aborts, and `registerNode` never takes the "status missing
after SetNode" path. -/
theorem failed_op_changes_nothing (ord : Order) (s : State) (op : Op) (h : Inv s) :
    (step ord s op).2 = .ok ∨ (step ord s op).1 = s := by
  cases op with
  | regEntity t se =>
    rcases regEntity_spec false s t se with e | ⟨_, _, _, e⟩
    · exact Or.inr e
    · exact Or.inl (by simp only [step, e])
  | deregEntity t =>
    rcases deregEntity_spec s t h with e | ⟨_, _, _, e⟩
    · exact Or.inr e
    · exact Or.inl (by simp only [step, e])
  | regNode t sn =>
    rcases regNode_ok_or_unchanged false ord s t sn h with e | ⟨_, e⟩
    · exact Or.inr e
    · exact Or.inl (by simp only [step, e])
  | regRuntime c rt =>
    rcases regRuntime_spec false s c rt with e | ⟨_, _, ⟨_, e⟩ | ⟨_, _, _, e⟩⟩
    · exact Or.inr e
    · exact Or.inl (by simp only [step, e])
    · exact Or.inl (by simp only [step, e])
  | unfreeze t id =>
    rcases unfreezeNode_spec s t id with e | ⟨_, _, _, _, _, _, e⟩
    · exact Or.inr e
    · exact Or.inl (by simp only [step, e])
  | epoch e => exact Or.inl (epochTransition_spec s e h).1
  | freeze id u => exact Or.inl rfl
  | setBalance a v => exact Or.inl rfl

/-! ### authority -/

/-- **Entities.**  An entity record changes only by (a) a registration whose transaction signer, descriptor
signer and entity id are the same key and whose signature verifies, or (b) a deregistration signed by the
entity itself while it owns no node and no runtime (`entity_removal_guard`). -/
theorem authority_entity (ord : Order) (s : State) (op : Op) (e : Key) (h : Inv s)
    (hchg : (step ord s op).1.entities.get e ≠ s.entities.get e) :
    (∃ t se, op = .regEntity t se ∧ e = se.id ∧ t = se.id ∧ se.signer = se.id ∧ se.sigValid = true ∧
        canAddClaim s s.claims (.ent se.id) .entity [Thr.entity] = true ∧
        (step ord s op).1.entities.get e = some se.nodes) ∨
    (∃ t, op = .deregEntity t ∧ e = t ∧ (step ord s op).1.entities.get e = none ∧
        (∀ id n, s.nodes.get id = some n → n.entity ≠ e) ∧
        (∀ r rt, s.runtimes.get r = some rt → rt.entity ≠ e)) := by
  cases op with
  | regEntity t se =>
    left
    simp only [step] at hchg ⊢
    rcases regEntity_spec false s t se with e' | ⟨hv, ht, hst, e'⟩
    · rw [e'] at hchg; exact absurd rfl hchg
    · rw [e'] at hchg ⊢
      simp only [regEntityOk, Map.get_set] at hchg ⊢
      by_cases hid : se.id = e
      · subst hid
        simp only [verifyEntityArgs] at hv
        split at hv; · cases hv
        split at hv; · cases hv
        rename_i h1 h2
        have hsig : se.signer = se.id := by simpa using h2
        exact ⟨t, se, rfl, rfl, by rw [← ht rfl, hsig], hsig, by simpa using h1, hst, by simp⟩
      · simp only [hid, if_false] at hchg; exact absurd rfl hchg
  | deregEntity t =>
    right
    simp only [step] at hchg ⊢
    rcases deregEntity_spec s t h with e' | ⟨hn, hr, _, e'⟩
    · rw [e'] at hchg; exact absurd rfl hchg
    · rw [e'] at hchg ⊢
      simp only [deregEntityOk, Map.get_del] at hchg ⊢
      by_cases hid : t = e
      · subst hid
        refine ⟨t, rfl, rfl, by simp, ?_, ?_⟩
        · intro id n hnode hent
          have := h.be_compl id n hnode
          rw [hent, hasEntityNodes_false hn id] at this
          cases this
        · intro r rt hrt hent
          have := h.rbe_compl r rt hrt
          rw [hent, hasEntityRuntimes_false hr r] at this
          cases this
      · simp only [hid, if_false] at hchg; exact absurd rfl hchg
  | regNode t sn =>
    simp only [step, regNode_entities] at hchg; exact absurd rfl hchg
  | regRuntime c rt =>
    simp only [step] at hchg
    rcases regRuntime_spec false s c rt with e' | ⟨_, _, ⟨_, e'⟩ | ⟨_, _, _, e'⟩⟩ <;> rw [e'] at hchg <;>
      exact absurd rfl hchg
  | unfreeze t id =>
    simp only [step, (unfreezeNode_frame s t id).1] at hchg; exact absurd rfl hchg
  | epoch ep =>
    simp only [step, (epochTransition_entities_runtimes s ep).1] at hchg; exact absurd rfl hchg
  | freeze id u =>
    simp only [step, (freezeNode_frame s id u).1] at hchg; exact absurd rfl hchg
  | setBalance a v => exact absurd rfl hchg

/-- An entity cannot be removed while it owns nodes or runtimes. -/
theorem entity_removal_guard (ord : Order) (s : State) (op : Op) (e : Key) (ws : List Key) (h : Inv s)
    (hreg : s.entities.get e = some ws) (hgone : (step ord s op).1.entities.get e = none) :
    (∀ id n, s.nodes.get id = some n → n.entity ≠ e) ∧ (∀ r rt, s.runtimes.get r = some rt → rt.entity ≠ e) := by
  have hchg : (step ord s op).1.entities.get e ≠ s.entities.get e := by rw [hgone, hreg]; simp
  rcases authority_entity ord s op e h hchg with ⟨_, se, _, _, _, _, _, _, hnew⟩ | ⟨_, _, _, _, h1, h2⟩
  · rw [hgone] at hnew; cases hnew
  · exact ⟨h1, h2⟩

/-- **Nodes.**  A node record changes only by (a) a registration whose transaction signer is the node's
identity key, whose descriptor carries valid signatures by the identity, consensus, VRF, TLS and P2P keys
and by exactly five distinct keys in total, whose entity is registered and lists the node, which is not
expired, whose entity's escrow balance covers the account's other claims plus the thresholds of the node's
roles and runtimes, and which — when the node exists — keeps its entity and consensus key; or (b) an epoch
transition
that removes a node expired for longer than the debonding interval. -/
theorem authority_node (ord : Order) (s : State) (op : Op) (i : Key) (h : Inv s)
    (hchg : (step ord s op).1.nodes.get i ≠ s.nodes.get i) :
    (∃ t sn, op = .regNode t sn ∧ i = sn.node.id ∧ t = sn.node.id ∧
        (step ord s op).1.nodes.get i = some sn.node ∧
        sn.sigValid = true ∧
        (∀ k, k ∈ [sn.node.id, sn.node.cons, sn.node.vrf, sn.node.tls, sn.node.p2p] → k ∈ sn.signers) ∧
        (dedup sn.signers).length = 5 ∧
        (∃ ws, s.entities.get sn.node.entity = some ws ∧ sn.node.id ∈ ws) ∧
        s.epoch < sn.node.expiration ∧
        canAddClaim s s.claims (.ent sn.node.entity) (.node sn.node.id) (nodeThr sn.node) = true ∧
        (∀ cur, s.nodes.get i = some cur → cur.entity = sn.node.entity ∧ cur.cons = sn.node.cons)) ∨
    (∃ e n, op = .epoch e ∧ s.nodes.get i = some n ∧ (step ord s op).1.nodes.get i = none ∧
        n.expiration + s.params.debondingInterval < e) := by
  cases op with
  | regEntity t se =>
    simp only [step] at hchg
    rcases regEntity_spec false s t se with e' | ⟨_, _, _, e'⟩ <;> rw [e'] at hchg <;> exact absurd rfl hchg
  | deregEntity t =>
    simp only [step] at hchg
    rcases deregEntity_spec s t h with e' | ⟨_, _, _, e'⟩ <;> rw [e'] at hchg <;> exact absurd rfl hchg
  | unfreeze t id =>
    simp only [step, (unfreezeNode_frame s t id).2.1] at hchg; exact absurd rfl hchg
  | freeze id u =>
    simp only [step, (freezeNode_frame s id u).2.1] at hchg; exact absurd rfl hchg
  | setBalance a v => exact absurd rfl hchg
  | regNode t sn =>
    left
    simp only [step] at hchg ⊢
    rcases regNode_nodes false ord s t sn with e' | ⟨hc, e'⟩
    · rw [e'] at hchg; exact absurd rfl hchg
    · rw [e'] at hchg ⊢
      simp only [Map.get_set] at hchg ⊢
      by_cases hid : sn.node.id = i
      · subst hid
        obtain ⟨ws, hws, hv⟩ := hc.ent
        have ha := verifyNodeArgs_none hv
        refine ⟨t, sn, rfl, rfl, hc.signer rfl, by simp, ha.sigValid, ?_, ha.onlyFive, ⟨ws, hws, ha.inEntity⟩,
          hc.notExpired rfl, hc.stake, verifyExisting_none_same hc.update⟩
        intro k hk
        simp only [List.mem_cons, List.not_mem_nil, or_false] at hk
        rcases hk with rfl | rfl | rfl | rfl | rfl
        · exact ha.signedId
        · exact ha.signedCons
        · exact ha.signedVrf
        · exact ha.signedTls
        · exact ha.signedP2p
      · simp only [hid, if_false] at hchg; exact absurd rfl hchg
  | regRuntime c rt =>
    simp only [step] at hchg
    rcases regRuntime_spec false s c rt with e' | ⟨_, _, ⟨_, e'⟩ | ⟨_, _, _, e'⟩⟩ <;> rw [e'] at hchg <;>
      exact absurd rfl hchg
  | epoch e =>
    right
    simp only [step] at hchg ⊢
    rcases epochTransition_nodes s e h i with e' | ⟨hnone, n, hn, hexp⟩
    · exact absurd e' hchg
    · exact ⟨e, n, rfl, hn, hnone, hexp⟩

/-- **The entity and the consensus key of an existing node record never change — whether the node is
active or has expired and is only kept for the debonding period** (`VerifyNodeUpdate` checks both before
its "only for active nodes" early return), for every operation: as long as node `i` stays registered its
record names the same entity, so the nodes-by-entity entry and the `registry.RegisterNode.<i>` stake claim
stay with that entity until the node is removed. -/
theorem node_entity_never_changes (ord : Order) (s : State) (op : Op) (i : Key) (cur n' : Node) (h : Inv s)
    (hcur : s.nodes.get i = some cur) (hnew : (step ord s op).1.nodes.get i = some n') :
    n'.entity = cur.entity ∧ n'.cons = cur.cons := by
  by_cases hchg : (step ord s op).1.nodes.get i = s.nodes.get i
  · rw [hchg, hcur] at hnew; cases hnew; exact ⟨rfl, rfl⟩
  · rcases authority_node ord s op i h hchg with ⟨_, sn, _, _, _, hn, _, _, _, _, _, _, hsame⟩ | ⟨_, _, _, _, hnone, _⟩
    · rw [hn] at hnew; cases hnew
      obtain ⟨h1, h2⟩ := hsame cur hcur
      exact ⟨h1.symm, h2.symm⟩
    · rw [hnone] at hnew; cases hnew

/-- The same for whole histories: at every point of every history, if node `i` was registered under
entity `e` and has been registered ever since, it is still registered under `e`. -/
theorem node_entity_stable_along_history (p : Params) (pre ops : List Op) (i : Key) (cur : Node)
    (hcur : (run codeOrder (init p) pre).nodes.get i = some cur)
    (hkept : ∀ k, k ≤ ops.length → ∃ m, (run codeOrder (run codeOrder (init p) pre) (ops.take k)).nodes.get i = some m) :
    ∃ m, (run codeOrder (run codeOrder (init p) pre) ops).nodes.get i = some m ∧ m.entity = cur.entity := by
  have key : ∀ (ops : List Op) (s : State), Inv s → (∃ m, s.nodes.get i = some m ∧ m.entity = cur.entity) →
      (∀ k, k ≤ ops.length → ∃ m, (run codeOrder s (ops.take k)).nodes.get i = some m) →
      ∃ m, (run codeOrder s ops).nodes.get i = some m ∧ m.entity = cur.entity := by
    intro ops
    induction ops with
    | nil => intro s _ hc _; exact hc
    | cons op rest ih =>
      intro s hI hc hk
      obtain ⟨m, hm, hme⟩ := hc
      obtain ⟨m1, hm1⟩ := hk 1 (by simp)
      have hm1' : (step codeOrder s op).1.nodes.get i = some m1 := by simpa [run] using hm1
      have h1 := node_entity_never_changes codeOrder s op i m m1 hI hm hm1'
      have hrun : ∀ l : List Op, run codeOrder s (op :: l) = run codeOrder (step codeOrder s op).1 l := by
        intro l; simp [run]
      rw [hrun]
      apply ih _ (inv_step s op hI) ⟨m1, hm1', by rw [h1.1, hme]⟩
      intro k hkl
      have := hk (k + 1) (by simp; omega)
      rwa [List.take_succ_cons, hrun] at this
  exact key ops _ (inv_run_repaired _ pre (inv_init p)) ⟨cur, hcur, rfl⟩ hkept

/-- **Runtimes.**  A runtime descriptor (ignoring the `suspended` flag, which node registrations may clear)
changes only by a registration whose caller is the staking address of the descriptor that governs the
runtime *before* the change — the owning entity under entity governance, the runtime itself under
runtime governance — (of the new descriptor when the runtime is new), and which respects the kind and
governance-transition rules. -/
theorem authority_runtime (ord : Order) (s : State) (op : Op) (r : RtId) (h : Inv s)
    (hchg : ((step ord s op).1.runtimes.get r).map rtCore ≠ (s.runtimes.get r).map rtCore) :
    ∃ c rt, op = .regRuntime c rt ∧ r = rt.id ∧ (runtimeToCheck s rt).stakingAddr = some c ∧
      verifyRuntimeUpdate (s.runtimes.get rt.id) rt = none ∧
      ((step ord s op).1.runtimes.get r).map rtCore = some (rtCore rt) := by
  cases op with
  | unfreeze t id =>
    simp only [step, (unfreezeNode_frame s t id).2.2.1] at hchg; exact absurd rfl hchg
  | freeze id u =>
    simp only [step, (freezeNode_frame s id u).2.2.1] at hchg; exact absurd rfl hchg
  | setBalance a v => exact absurd rfl hchg
  | regEntity t se =>
    simp only [step] at hchg
    rcases regEntity_spec false s t se with e' | ⟨_, _, _, e'⟩ <;> rw [e'] at hchg <;> exact absurd rfl hchg
  | deregEntity t =>
    simp only [step] at hchg
    rcases deregEntity_spec s t h with e' | ⟨_, _, _, e'⟩ <;> rw [e'] at hchg <;> exact absurd rfl hchg
  | regNode t sn =>
    simp only [step, regNode_runtimes] at hchg; exact absurd rfl hchg
  | regRuntime c rt =>
    simp only [step] at hchg ⊢
    obtain ⟨h1, h2, h3, h4⟩ := regRuntime_runtimes false s c rt r hchg
    exact ⟨c, rt, rfl, h1, h2 rfl, h3, h4⟩
  | epoch e =>
    simp only [step, (epochTransition_entities_runtimes s e).2] at hchg; exact absurd rfl hchg

/-- **Runtimes: who may update, and which governance transitions exist.**  When the descriptor of an
*existing* runtime changes, the caller is the owning entity's address if the runtime was entity-governed and
the runtime's own address if it was runtime-governed (never anybody for a consensus-governed one); the kind
is unchanged; the governance model is unchanged or goes from entity to runtime — so after the transition
entity → runtime the entity can no longer update the runtime.  A *new* runtime is registered by the address
its own descriptor names. -/
theorem authority_runtime_update (ord : Order) (s : State) (op : Op) (r : RtId) (h : Inv s)
    (hchg : ((step ord s op).1.runtimes.get r).map rtCore ≠ (s.runtimes.get r).map rtCore) :
    ∃ c rt, op = .regRuntime c rt ∧ r = rt.id ∧
      (match s.runtimes.get r with
       | some cur =>
         cur.kind = rt.kind ∧ (cur.gov = rt.gov ∨ (cur.gov = .entity ∧ rt.gov = .runtime)) ∧
         ((cur.gov = .entity ∧ c = .ent cur.entity) ∨ (cur.gov = .runtime ∧ c = .rt r))
       | none => (rt.gov = .entity ∧ c = .ent rt.entity) ∨ (rt.gov = .runtime ∧ c = .rt r)) := by
  obtain ⟨c, rt, hop, hr, hc, hv, _⟩ := authority_runtime ord s op r h hchg
  refine ⟨c, rt, hop, hr, ?_⟩
  subst hr
  cases hex : s.runtimes.get rt.id with
  | none =>
    simp only [runtimeToCheck, hex] at hc
    cases hg : rt.gov <;> simp [Runtime.stakingAddr, hg] at hc ⊢ <;> exact hc.symm
  | some cur =>
    simp only [runtimeToCheck, hex] at hc
    simp only [verifyRuntimeUpdate, hex] at hv
    split at hv; · cases hv
    split at hv; · cases hv
    rename_i h1 h2
    have hid := h.rt_id rt.id cur hex
    refine ⟨by simpa using h1, ?_, ?_⟩
    · by_cases hg : cur.gov = rt.gov
      · exact Or.inl hg
      · right
        have := not_and.1 h2 hg
        simpa using this
    · cases hg : cur.gov <;> simp [Runtime.stakingAddr, hg, hid] at hc ⊢ <;> exact hc.symm

/-! ### stake claims with thresholds -/

/-- In every state satisfying the invariant the stake accumulator of every account holds exactly the
implied claims, with exactly the implied threshold lists: the entity claim `[entity]` of a registered
entity, per registered node (expired ones included until they are removed) the node claim on its entity's
account with the thresholds of its *current* roles and runtimes, per registered (active or suspended)
runtime the runtime claim on its staking address. -/
theorem claims_exact (s : State) (h : invB s = true) (a : Addr) (c : Claim) (ths : List Thr) :
    s.claims.get (a, c) = some ths ↔ Implied s a ths c :=
  ⟨((invB_iff s).1 h).cl_sound a c ths, ((invB_iff s).1 h).cl_compl a c ths⟩

/-- The thresholds of a node's claim always follow its current descriptor: a re-registration that adds
roles or runtimes replaces the claim's threshold list (and is refused, changing nothing, if the escrow
balance does not cover it — `authority_node`, `failed_op_changes_nothing`). -/
theorem node_claim_thresholds_current (p : Params) (ops : List Op) (i : Key) (n : Node)
    (hn : (run codeOrder (init p) ops).nodes.get i = some n) :
    (run codeOrder (init p) ops).claims.get (.ent n.entity, .node i) = some (nodeThr n) :=
  ((invB_iff _).1 (inv_reachable_repaired p ops)).cl_compl _ _ _ ⟨n, hn, rfl, rfl⟩

/-! ### InitChain -/

/-- `InitChain` establishes the invariant: for every genesis document (entities, runtimes incl.
consensus-governed and suspended ones, nodes incl. expired ones, node statuses incl. statuses of unknown
nodes), whether it is accepted or aborts part-way, from any prior state satisfying the invariant (e.g.
the empty state with escrow balances set by the staking genesis). -/
theorem inv_initChain (s : State) (g : Genesis) (h : Inv s) : Inv (initChain codeOrder s g).1 :=
  initChain_inv s g h

/-- Every history that starts from a genesis document keeps the invariant. -/
theorem inv_reachable_from_genesis (p : Params) (pre : List Op) (g : Genesis) (ops : List Op) :
    invB (run codeOrder (initChain codeOrder (run codeOrder (init p) pre) g).1 ops) = true :=
  (invB_iff _).2 (inv_run_repaired _ ops (initChain_inv _ g (inv_run_repaired _ pre (inv_init p)))).toInvL

/-! ### node status, expiry and the debonding window -/

/-- `UnfreezeNode` changes something only when signed by the entity that owns the node and only after
the freeze period has ended; it touches nothing but the node's status record. -/
theorem authority_unfreeze (s : State) (t id : Key) (hchg : (unfreezeNode s t id).1 ≠ s) :
    ∃ n st, s.nodes.get id = some n ∧ t = n.entity ∧ s.status.get id = some st ∧ st.freezeEndTime ≤ s.epoch ∧
      (unfreezeNode s t id).1 = { s with status := s.status.set id { st with freezeEndTime := 0 } } := by
  rcases unfreezeNode_spec s t id with e | ⟨n, st, h1, h2, h3, h4, e⟩
  · exact absurd e hchg
  · exact ⟨n, st, h1, h2, h3, h4, by rw [e]⟩

/-- A frozen node cannot lift its freeze by re-registering: a successful `registerNode` of an existing
node keeps the `FreezeEndTime` of its status (only `ExpirationProcessed` is reset when it was expired). -/
theorem reregistration_keeps_freeze (ord : Order) (s : State) (n cur : Node) (st : Status)
    (hcur : s.nodes.get n.id = some cur) (hst : s.status.get n.id = some st) :
    ∃ st', (regNodeOk ord s n).status.get n.id = some st' ∧ st'.freezeEndTime = st.freezeEndTime := by
  have : (regNodeOk ord s n).status = regNodeStatus s (s.nodes.get n.id) n (s.status.get n.id) := rfl
  rw [this, hcur, hst]
  simp only [regNodeStatus]
  split
  · exact ⟨freshStatus (some st), by simp [Map.get_set], rfl⟩
  · exact ⟨st, hst, rfl⟩

/-- An expired node stays registered — with all its index entries and its stake claim — until it has
been expired for longer than the debonding interval: an epoch transition to `e` with
`expiration + debondingInterval ≥ e` leaves its record untouched. -/
theorem expired_node_kept_within_debonding (s : State) (e : Nat) (h : Inv s) (i : Key) (n : Node)
    (hn : s.nodes.get i = some n) (hwin : e ≤ n.expiration + s.params.debondingInterval) :
    (epochTransition s e).1.nodes.get i = some n := by
  rcases epochTransition_nodes s e h i with e' | ⟨_, m, hm, hexp⟩
  · rw [e', hn]
  · rw [hn] at hm; cases hm; omega

/-- The keys of a registered node — also of an expired one that has not been removed yet — are not free:
a registration of a *different* node that uses one of them as a sub-key has no effect on the state. -/
theorem registered_node_keys_not_free (ord : Order) (s : State) (h : Inv s) (i : Key) (n : Node)
    (hn : s.nodes.get i = some n) (t : Key) (sn : SignedNode) (hother : sn.node.id ≠ i) (k : Key)
    (hkn : k ∈ subKeys n) (hks : k ∈ subKeys sn.node) :
    (regNode false ord s t sn).1 = s := by
  rcases regNode_spec false ord s t sn with e | ⟨hc, _⟩
  · exact e
  · have ha := accepted_of_nodeChecks h.toIndexInv hc
    have hkm := h.km_compl i n hn k hkn
    exact absurd (ha.free k hks i hkm ⟨n, hn⟩).symm hother

/-! ### two corners the code permits (recorded, not part of the invariant) -/

def cornerEntity : Op := .regEntity 1 { id := 1, nodes := [4, 5], signer := 1, sigValid := true }

/-- `IsOnlySignedBy` compares the *number* of distinct signers with the length of the expected list
`[id, consensus, VRF, TLS, P2P]`.  When the node id coincides with one of the sub-keys the list has a
duplicate, so a descriptor is accepted iff it carries exactly one additional signature — by any key
whatsoever (here key 8) — although the code intends "only the expected signatures, and nothing more". -/
theorem extra_signature_accepted_when_id_is_subkey :
    let n : Node := { id := 4, entity := 1, cons := 15, p2p := 4, tls := 18, vrf := 17, expiration := 3, roles := 8, runtimes := [] }
    let s := run .removalsFirst (init f2Params) [cornerEntity]
    (regNode false .removalsFirst s 4 { node := n, signers := [4, 15, 18, 17, 8], sigValid := true }).2 = .ok ∧
    (regNode false .removalsFirst s 4 { node := n, signers := [4, 15, 18, 17], sigValid := true }).2 = .invalidArgument "signatures" := by
  decide

/-! ### the uniqueness clause with identity keys (known finding `key-shared-node-id-as-subkey`) -/

/-- `invStrongB` — the predicate the harness evaluates on the real state — is `invB` plus the
uniqueness clause at the strength of the property text: the key sets {id, consensus, P2P, TLS, VRF} of
two different registered nodes are disjoint. -/
theorem invStrongB_spec (s : State) : invStrongB s = true ↔ InvL s ∧ KeysDisjoint s := by
  unfold invStrongB
  rw [Bool.and_eq_true, invB_iff, allKeysUniqueB_iff]

/-- What the code does maintain about key sharing: two different registered nodes can share a key only
as identity key of the one and sub-key of the other (never identity/identity, never sub-key/sub-key). -/
theorem shared_key_is_id_vs_subkey (s : State) (h : invB s = true) (i j : Key) (n m : Node)
    (hn : s.nodes.get i = some n) (hm : s.nodes.get j = some m) (hij : i ≠ j) (k : Key)
    (hkn : k ∈ allKeys n) (hkm : k ∈ allKeys m) :
    (k = n.id ∧ k ∈ subKeys m) ∨ (k ∈ subKeys n ∧ k = m.id) :=
  shared_key_shape ((invB_iff s).1 h).toIndexInv i j n m hn hm hij k hkn hkm

def k1NodeA : Node := { id := 5, entity := 1, cons := 20, p2p := 21, tls := 22, vrf := 23, expiration := 3, roles := 8, runtimes := [] }
/-- node 4 with P2P key 5 = identity key of node 5 -/
def k1NodeB : Node := { id := 4, entity := 1, cons := 9, p2p := 5, tls := 11, vrf := 12, expiration := 3, roles := 8, runtimes := [] }
/-- direction 1: the identity key of a registered node is accepted as a sub-key of another node -/
def k1History1 : List Op :=
  [ .regEntity 1 { id := 1, nodes := [4, 5], signer := 1, sigValid := true },
    .regNode 5 (signedBy k1NodeA), .regNode 4 (signedBy k1NodeB) ]
/-- direction 2: a new node whose identity key is a sub-key (P2P key 10) of a registered node -/
def k1History2 : List Op :=
  [ .regEntity 1 { id := 1, nodes := [4, 10], signer := 1, sigValid := true },
    .regNode 4 (signedBy f2Node), .regNode 10 (signedBy { k1NodeA with id := 10 }) ]

/-- Sub-key uniqueness does not extend to node identity keys (identity keys are not in the key map, so
`VerifyRegisterNodeArgs` sees neither collision): all registrations of both histories succeed, `invB`
holds, and key 5 (resp. 10) is the identity key of one registered node and the P2P key of another.
Replayed on the real code by corpus/C17/k1-node-id-as-subkey.txt. -/
theorem id_key_may_be_subkey_of_other_node :
    results codeOrder (init f2Params) k1History1 = [.ok, .ok, .ok] ∧
    results codeOrder (init f2Params) k1History2 = [.ok, .ok, .ok] ∧
    invB (run codeOrder (init f2Params) k1History1) = true ∧
    invB (run codeOrder (init f2Params) k1History2) = true ∧
    allKeysUniqueB (run codeOrder (init f2Params) k1History1) = false ∧
    allKeysUniqueB (run codeOrder (init f2Params) k1History2) = false := by
  decide

/-- **The uniqueness clause of the property text, read with identity keys, is not an invariant of the
registry** (negation of the full-strength statement; the weaker `inv_reachable` is what holds). -/
theorem key_uniqueness_incl_identity_fails :
    ¬ ∀ (p : Params) (ops : List Op), invStrongB (run codeOrder (init p) ops) = true := by
  intro h
  have := h f2Params k1History1
  revert this
  decide

/-- The operation does not create an identity-key / sub-key collision across nodes (`NoIdClash`) for
any operation of the history. -/
def ClashFree (s : State) : List Op → Prop
  | [] => True
  | op :: ops => NoIdClash s op ∧ ClashFree (step codeOrder s op).1 ops

instance decClashFree : (s : State) → (ops : List Op) → Decidable (ClashFree s ops)
  | _, [] => isTrue trivial
  | s, op :: ops => by
    simp only [ClashFree]
    have := decClashFree (step codeOrder s op).1 ops
    infer_instance

/-- Exact boundary of the finding: every operation preserves the full-strength clause unless it is a
node registration that itself uses another registered node's identity key as a sub-key, or whose
identity key is another node's sub-key. -/
theorem strong_inv_step_partial (s : State) (op : Op) (h : Inv s) (hd : KeysDisjoint s)
    (hc : NoIdClash s op) : KeysDisjoint (step codeOrder s op).1 :=
  keysDisjoint_step codeOrder s op h hd hc

/-- Partial: the full-strength invariant holds for the histories without such registrations. -/
theorem strong_inv_reachable_partial (p : Params) (ops : List Op) (hc : ClashFree (init p) ops) :
    invStrongB (run codeOrder (init p) ops) = true := by
  have key : ∀ (s : State) (ops : List Op), Inv s → KeysDisjoint s → ClashFree s ops →
      Inv (run codeOrder s ops) ∧ KeysDisjoint (run codeOrder s ops) := by
    intro s ops
    induction ops generalizing s with
    | nil => intro h hd _; exact ⟨h, hd⟩
    | cons op ops ih =>
      intro h hd hcf
      exact ih _ (inv_step s op h) (keysDisjoint_step codeOrder s op h hd hcf.1) hcf.2
  have hd0 : KeysDisjoint (init p) := by
    intro i j n m hn; simp [init] at hn
  obtain ⟨hI, hD⟩ := key (init p) ops (inv_init p) hd0 hc
  exact (invStrongB_spec _).2 ⟨hI.toInvL, hD⟩

/-! ### non-vacuity -/

/-- A non-trivial reachable state: two entities, a runtime, three nodes, an update that rotates and one
that moves a key *backward*, an epoch transition that removes an expired node, a deregistration. -/
def demoHistory : List Op :=
  [ .regEntity 1 { id := 1, nodes := [4, 5], signer := 1, sigValid := true },
    .regEntity 2 { id := 2, nodes := [6], signer := 2, sigValid := true },
    .regRuntime (.ent 1) { id := 1, entity := 1, gov := .entity, kind := .compute, suspended := false },
    .regNode 4 (signedBy f2Node),
    .regNode 5 (signedBy { id := 5, entity := 1, cons := 13, p2p := 14, tls := 15, vrf := 16, expiration := 5, roles := 1, runtimes := [1] }),
    .regNode 6 (signedBy { id := 6, entity := 2, cons := 17, p2p := 18, tls := 19, vrf := 20, expiration := 1, roles := 8, runtimes := [] }),
    .regNode 4 (signedBy { f2Node with tls := 10, p2p := 21 }),      -- TLS takes the old P2P key, fresh P2P: backward move
    .epoch 4,                                                       -- node 6 (expired at 1, debonding 1) is removed
    .deregEntity 2,
    .regRuntime (.ent 1) { id := 1, entity := 1, gov := .runtime, kind := .compute, suspended := false } ]

example : SafeHist (init f2Params) demoHistory := by decide
example : ClashFree (init f2Params) demoHistory := by decide
example : invStrongB (run codeOrder (init f2Params) demoHistory) = true :=
  strong_inv_reachable_partial f2Params demoHistory (by decide)
example : ¬ ClashFree (init f2Params) k1History1 := by decide
example : ((run .interleaved (init f2Params) demoHistory).nodes.keys.length, (run .interleaved (init f2Params) demoHistory).entities.keys) = (2, [1]) := by decide
example : invB (run .interleaved (init f2Params) demoHistory) = true :=
  inv_reachable_interleaved_partial f2Params demoHistory (by decide)
example : (run .removalsFirst (init f2Params) demoHistory).claims.keys.length = 4 := by decide
/-- hypotheses of `setNode_interleaved_iff` / `authority_node` are satisfiable: the second step of F2 -/
example : ∃ s t sn cur, Inv s ∧ NodeChecks false s t sn ∧ s.nodes.get sn.node.id = some cur ∧ forwardMove cur sn.node :=
  ⟨run .removalsFirst (init f2Params) (f2History.take 2), 4, signedBy f2Node', f2Node,
    inv_run_repaired _ _ (inv_init _),
    ⟨⟨[4], by decide, by decide⟩, fun _ => by decide, fun _ => by decide, by decide, by decide⟩, by decide, by decide⟩
/-- the entity removal guard bites: entity 1 owns nodes, its deregistration is refused -/
example : (step .removalsFirst (run .removalsFirst (init f2Params) demoHistory) (.deregEntity 1)).2 = .entityHasNodes := by decide


/-- Non-zero thresholds (entity 3, validator 2, compute 5, observer 1, key manager 4, runtimes 2): entity 1
holds 7, registers itself (3), a compute runtime (2) and validator node 4 (2) — exactly covered; adding the
compute role with the runtime (thresholds [validator, compute] = 7) is refused for lack of stake and changes
nothing; after the balance rises to 12 it succeeds and the claim's thresholds follow; node 4 is frozen
until epoch 3, its entity cannot unfreeze it at epoch 0 but can at epoch 3; a foreign key never can. -/
def stakedParams : Params := { maxNodeExpiration := 5, debondingInterval := 1, thresholds := [3, 2, 5, 1, 4, 2, 2] }
def stakedHistory : List Op :=
  [ .setBalance (.ent 1) 7,
    .regEntity 1 { id := 1, nodes := [4], signer := 1, sigValid := true },
    .regRuntime (.ent 1) { id := 1, entity := 1, gov := .entity, kind := .compute, suspended := false },
    .regNode 4 (signedBy f2Node),
    .regNode 4 (signedBy { f2Node with roles := 9, runtimes := [1] }),
    .setBalance (.ent 1) 12,
    .regNode 4 (signedBy { f2Node with roles := 9, runtimes := [1] }),
    .freeze 4 3,
    .unfreeze 1 4,
    .epoch 3,
    .unfreeze 2 4,
    .unfreeze 1 4 ]

example : results codeOrder (init stakedParams) stakedHistory =
    [.ok, .ok, .ok, .ok, .insufficientStake, .ok, .ok, .ok, .nodeCannotBeUnfrozen, .ok, .badEntityForNode, .ok] := by
  decide
example : (run codeOrder (init stakedParams) stakedHistory).claims.get (.ent 1, .node 4) =
    some [Thr.nodeValidator, Thr.nodeCompute] := by decide
example : invStrongB (run codeOrder (init stakedParams) stakedHistory) = true := by decide

/-- A genesis document: two entities, a consensus-governed and a suspended runtime, two nodes (one of them
already expired), a status of a node that is not registered. -/
def demoGenesis : Genesis :=
  { entities := [{ id := 1, nodes := [4, 5], signer := 1, sigValid := true }, { id := 2, nodes := [6], signer := 2, sigValid := true }],
    runtimes := [{ id := 1, entity := 1, gov := .consensus, kind := .compute, suspended := false },
                 { id := 4, entity := 2, gov := .entity, kind := .keymanager, suspended := false }],
    suspendedRuntimes := [{ id := 2, entity := 1, gov := .runtime, kind := .compute, suspended := false }],
    nodes := [signedBy f2Node, signedBy { id := 6, entity := 2, cons := 17, p2p := 18, tls := 19, vrf := 20, expiration := 0, roles := 8, runtimes := [] }],
    statuses := [(4, { expirationProcessed := false, freezeEndTime := 2 }), (23, { expirationProcessed := true, freezeEndTime := 0 })] }

def genesisPre : List Op := [.setBalance (.ent 1) 9, .setBalance (.ent 2) 9, .setBalance (.rt 2) 2]

example : (initChain codeOrder (run codeOrder (init stakedParams) genesisPre) demoGenesis).2 = .ok := by decide
example : ((initChain codeOrder (run codeOrder (init stakedParams) genesisPre) demoGenesis).1.nodes.keys.length,
           (initChain codeOrder (run codeOrder (init stakedParams) genesisPre) demoGenesis).1.claims.keys.length) = (2, 6) := by
  decide
example : invStrongB (initChain codeOrder (run codeOrder (init stakedParams) genesisPre) demoGenesis).1 = true := by decide

end OasisProofs.C17
