import OasisProofs.Helpers.RestorerFail
import OasisProofs.Helpers.RestorerFailBridge
/-
C12 / C06 — the checkpoint restorer's bookkeeping of pending chunks under FAILING imports.

Model: `OasisModel/Mkvs/RestorerFail.lean` = go/storage/mkvs/checkpoint/restorer.go
(`StartRestore` l.26-41, `AbortRestore` l.43-51, `RestoreChunk` l.66-120 split into phase 1 `fBegin`
(l.68-83, read-only) and import + phase 2 `fFinish` (l.88-119)). The outcome of the import
`restoreChunk(ctx, ndb, chunk, r)` (l.88) is an input of the history:
  ok | corrupted | proofFailed | transient (= the `default:` branch l.96-97: cancelled context,
  database error, ...).
A history is any list of events `start n | abort | begin idx | finish idx seen outcome`; phase 1 of one
call may lie between the phases of any number of other calls (`FState.inflight`).
`imported` = the chunk indices whose nodes were written for the restore in progress.

Proved for ALL histories (from the initial restorer `{}`):
  * `done_implies_all_imported`   a call reports done = true only when every chunk index of the restore
                                  in progress is imported (Finalize is only told to run on a complete
                                  version);
  * `failed_import_keeps_state`,
    `failed_import_stays_pending` after `corrupted`/`transient` the restorer is unchanged, the chunk is
                                  still pending, and a retry with outcome ok is accepted and credited;
  * `pending_iff_not_imported`    pending = {0..n-1} \ imported while a restore is in progress — at
                                  EVERY point of the history, in particular at quiescent ones
                                  (`pending_iff_not_imported_quiescent`);
  * `early_removal_finalizes_incomplete` (`decide`): the seeded variant that claims the chunk in phase 1
                                  and gives it back only on `corrupted` reports done = true with chunk 0
                                  not imported.
-/
namespace OasisProofs.C12RestorerFail
open OasisModel.Mkvs.RestorerFail OasisProofs.RestorerFail

/-! ### (b) done ⇒ every chunk imported -/

/-- For every history `evs` and every next event `e`: if the call ending at `e` reports done = true,
then a restore of some `n` chunks was in progress and afterwards every index `< n` is imported
(and the restore is over). No hypotheses. -/
theorem done_implies_all_imported (evs : List Ev) (e : Ev)
    (hd : (fStep (fRun {} evs) e).2 = some (.done true)) :
    ∃ n, (fRun {} evs).rs.current = some n ∧
      (∀ i, i < n → i ∈ (fStep (fRun {} evs) e).1.rs.imported) ∧
      (fStep (fRun {} evs) e).1.rs.current = none := by
  have hi : Inv (fRun {} evs).rs := inv_run inv_init evs
  generalize fRun {} evs = s at hd hi ⊢
  cases e with
  | start n =>
    cases h : fStart s.rs n <;> simp [fStep, h] at hd
  | abort => simp [fStep] at hd
  | «begin» idx =>
    cases h : fBegin s.rs idx with
    | ok g => simp [fStep, h] at hd
    | error r =>
      simp only [fStep, h, Option.some.injEq] at hd
      subst hd
      -- phase 1 never reports done
      unfold fBegin at h
      cases hc : s.rs.current with
      | none => simp [hc] at h
      | some n =>
        simp only [hc] at h
        split at h
        · simp at h
        · split at h <;> simp at h
  | finish idx seen o =>
    cases hc : s.inflight.contains (idx, seen) with
    | false =>
      simp only [fStep, hc, Bool.false_eq_true, if_false] at hd
      simp at hd
    | true =>
      simp only [fStep, hc, if_true, Option.some.injEq] at hd ⊢
      obtain ⟨n, hn, hgen, ho, hall⟩ := finish_done hi hd
      refine ⟨n, hn, hall, ?_⟩
      subst ho
      have hg : (s.rs.current.isNone || s.rs.gen != seen) = false := by simp [hn, hgen]
      cases he : (s.rs.pending.filter (fun i => i != idx)).isEmpty with
      | true => rw [fFinish_ok_done hg he]
      | false => rw [fFinish_ok_more hg he] at hd; simp at hd

/-- The same over the log of a whole history: whenever `done true` occurs among the returned results,
the history splits at the event that returned it. -/
theorem done_in_log_all_imported (evs : List Ev)
    (hd : Res.done true ∈ (fRunLog {} evs).2) :
    ∃ pre e post n, evs = pre ++ e :: post ∧
      (fRun {} pre).rs.current = some n ∧
      ∀ i, i < n → i ∈ (fStep (fRun {} pre) e).1.rs.imported := by
  suffices H : ∀ (evs pre0 : List Ev), Res.done true ∈ (fRunLog (fRun {} pre0) evs).2 →
      ∃ pre e post n, pre0 ++ evs = pre ++ e :: post ∧
        (fRun {} pre).rs.current = some n ∧
        ∀ i, i < n → i ∈ (fStep (fRun {} pre) e).1.rs.imported by
    simpa [fRun] using H evs [] (by simpa [fRun] using hd)
  intro evs
  induction evs with
  | nil => intro pre0 h; simp [fRunLog] at h
  | cons e evs ih =>
    intro pre0 h
    simp only [fRunLog, List.mem_append] at h
    rcases h with h | h
    · have h2 : (fStep (fRun {} pre0) e).2 = some (.done true) := by
        cases hr : (fStep (fRun {} pre0) e).2 with
        | none => simp [hr] at h
        | some x => simp [hr] at h; rw [h]
      obtain ⟨n, hn, hall, _⟩ := done_implies_all_imported pre0 e h2
      exact ⟨pre0, e, evs, n, rfl, hn, hall⟩
    · have hrun : (fStep (fRun {} pre0) e).1 = fRun {} (pre0 ++ [e]) := by
        simp [fRun, List.foldl_append]
      rw [hrun] at h
      obtain ⟨pre, e', post, n, heq, hn, hall⟩ := ih (pre0 ++ [e]) h
      exact ⟨pre, e', post, n, by simpa using heq, hn, hall⟩

/-! ### (c) a failed import leaves the chunk pending -/

/-- `corrupted` and `transient` imports change nothing in the restorer (restorer.go:96-97), whatever
else is in flight; the call returns the error. -/
theorem failed_import_keeps_state (rs : FRestorer) (idx seen : Nat) (o : Outcome)
    (ho : o = .corrupted ∨ o = .transient) :
    (fFinish rs idx seen o).2 = rs ∧
      ((fFinish rs idx seen o).1 = .corrupted ∨ (fFinish rs idx seen o).1 = .transient) := by
  rcases ho with rfl | rfl <;> simp [fFinish]

/-- Event form: the `finish` event of a failing import leaves the restorer as it was. -/
theorem failed_import_keeps_state_step (s : FState) (idx seen : Nat) (o : Outcome)
    (ho : o = .corrupted ∨ o = .transient) :
    (fStep s (.finish idx seen o)).1.rs = s.rs := by
  cases hc : s.inflight.contains (idx, seen) with
  | false => simp only [fStep, hc, Bool.false_eq_true, if_false]
  | true =>
    simp only [fStep, hc, if_true]
    exact (failed_import_keeps_state s.rs idx seen o ho).1

/-- From ANY state in which phase 1 accepts chunk `idx` (restore in progress, chunk pending): the history
`begin idx, finish idx (corrupted|transient), begin idx, finish idx ok` returns exactly the error and
then `done b` — the retry is not refused as already restored — and `idx` is imported afterwards.
Hypothesis `hb` is what "the chunk is pending" means; `failed_retry_needs_pending` shows it is needed. -/
theorem failed_import_stays_pending (s : FState) (idx g : Nat) (o : Outcome)
    (hb : fBegin s.rs idx = .ok g) (ho : o = .corrupted ∨ o = .transient) :
    ∃ b, (fRunLog s [.begin idx, .finish idx g o, .begin idx, .finish idx g .ok]).2 =
        [(if o = .corrupted then Res.corrupted else Res.transient), .done b] ∧
      idx ∈ (fRunLog s [.begin idx, .finish idx g o, .begin idx, .finish idx g .ok]).1.rs.imported ∧
      idx ∈ s.rs.pending := by
  have hpend : idx ∈ s.rs.pending ∧ ∃ n, s.rs.current = some n ∧ g = s.rs.gen := by
    unfold fBegin at hb
    cases hc : s.rs.current with
    | none => simp [hc] at hb
    | some n =>
      simp only [hc] at hb
      split at hb
      · simp at hb
      · rename_i hp
        split at hb
        · simp at hb
        · simp at hb
          exact ⟨by simpa using hp, n, rfl, hb.symm⟩
  obtain ⟨hmem, n, hn, hg⟩ := hpend
  have hstale : (s.rs.current.isNone || s.rs.gen != g) = false := by simp [hn, hg]
  have hfail : fFinish s.rs idx g o = ((if o = .corrupted then Res.corrupted else Res.transient), s.rs) := by
    rcases ho with rfl | rfl <;> simp [fFinish]
  cases he : (s.rs.pending.filter (fun i => i != idx)).isEmpty with
  | true =>
    refine ⟨true, ?_, ?_, hmem⟩ <;>
      simp [fRunLog, fStep, hb, hfail, fFinish_ok_done hstale he]
  | false =>
    refine ⟨false, ?_, ?_, hmem⟩ <;>
      simp [fRunLog, fStep, hb, hfail, fFinish_ok_more hstale he]

/-- Sequential-caller form with the restorer only: a failing call, then a successful one. -/
theorem failed_call_then_retry (rs : FRestorer) (idx g : Nat) (o : Outcome)
    (hb : fBegin rs idx = .ok g) (ho : o = .corrupted ∨ o = .transient) :
    (fCall rs idx o).2 = rs ∧ fBegin (fCall rs idx o).2 idx = .ok g ∧
      ∃ b, (fCall (fCall rs idx o).2 idx .ok).1 = .done b := by
  have h1 : (fCall rs idx o).2 = rs := by
    simp only [fCall, hb]; exact (failed_import_keeps_state rs idx g o ho).1
  refine ⟨h1, by rw [h1]; exact hb, ?_⟩
  rw [h1]
  simp only [fCall, hb]
  have hstale : (rs.current.isNone || rs.gen != g) = false := by
    unfold fBegin at hb
    cases hc : rs.current with
    | none => simp [hc] at hb
    | some n =>
      simp only [hc] at hb
      split at hb
      · simp at hb
      · split at hb
        · simp at hb
        · simp at hb; simp [hb]
  cases he : (rs.pending.filter (fun i => i != idx)).isEmpty with
  | true => exact ⟨true, by rw [fFinish_ok_done hstale he]⟩
  | false => exact ⟨false, by rw [fFinish_ok_more hstale he]⟩

/-- Necessity of `hb`: when the chunk is not pending (already imported), the retry IS refused. -/
theorem failed_retry_needs_pending :
    (fRunLog { rs := { current := some 2, pending := [1], gen := 1, imported := [0] } }
      [.begin 0]).2 = [.alreadyRestored] := by decide

/-! ### (d) pending = all \ imported -/

/-- At EVERY point of every history (quiescent or not): while a restore of `n` chunks is in progress,
the pending list is `[0..n-1]` without the imported indices, in order. No hypotheses. -/
theorem pending_eq_range_minus_imported (evs : List Ev) (n : Nat)
    (hc : (fRun {} evs).rs.current = some n) :
    (fRun {} evs).rs.pending =
      (List.range n).filter (fun i => !(fRun {} evs).rs.imported.contains i) :=
  inv_run inv_init evs n hc

theorem pending_iff_not_imported (evs : List Ev) (n : Nat)
    (hc : (fRun {} evs).rs.current = some n) (i : Nat) :
    i ∈ (fRun {} evs).rs.pending ↔ (i < n ∧ i ∉ (fRun {} evs).rs.imported) :=
  inv_mem (inv_run inv_init evs) hc i

/-- The form asked for: at quiescent points (no call between its phases). The hypothesis `_hq` is not
used: the real restorer never touches the pending set in phase 1, so the equation holds between the
phases too. The seeded variant breaks it even at a quiescent point (`early_removal_breaks_invariant`). -/
theorem pending_iff_not_imported_quiescent (evs : List Ev) (n : Nat)
    (_hq : (fRun {} evs).inflight = [])
    (hc : (fRun {} evs).rs.current = some n) (i : Nat) :
    i ∈ (fRun {} evs).rs.pending ↔ (i < n ∧ i ∉ (fRun {} evs).rs.imported) :=
  pending_iff_not_imported evs n hc i

/-! ### (e) the seeded variant -/

/-- Checkpoint with 2 chunks; `RestoreChunk(0)` fails with a transient error, `RestoreChunk(0)` again is
refused (ErrChunkAlreadyRestored: phase 1 had removed it and nothing put it back), `RestoreChunk(1)`
succeeds and reports done = true — with chunk 0 not imported. (The `finish 0 1 ok` event of the history
belongs to the refused call and is not an event of the variant's execution: it is ignored.) -/
theorem early_removal_finalizes_incomplete :
    (eRunLog {} witnessHistory).2 = [.transient, .alreadyRestored, .done true] ∧
      0 ∉ (eRunLog {} witnessHistory).1.rs.imported ∧
      (eRunLog {} witnessHistory).1.rs.imported = [1] := by decide

/-- The restorer as it is, on the same history: the retry of chunk 0 is accepted, done = true comes
with both chunks imported. -/
theorem real_restorer_on_witness :
    (fRunLog {} witnessHistory).2 = [.transient, .done false, .done true] ∧
      (fRunLog {} witnessHistory).1.rs.imported = [1, 0] := by decide

/-- The variant breaks (d) at a quiescent point: after the transient failure nothing is in flight, chunk 0
is neither pending nor imported. -/
theorem early_removal_breaks_invariant :
    let s := (eRunLog {} [.start 2, .begin 0, .finish 0 1 .transient]).1
    s.inflight = [] ∧ s.rs.current = some 2 ∧ 0 ∉ s.rs.pending ∧ 0 ∉ s.rs.imported := by decide

/-! ### Tie to the restorer model of `OasisModel/Mkvs/Chunk.lean` -/

/-- The outcome-driven machine is the bookkeeping of `rsFinish` (Chunk.lean; theorems in C12.lean): fed
with the classification of what `restoreChunkM` returns for the chunk, both return the same result and
the same `current`/`pending`/`gen`. So the theorems above speak about the existing model as well; what
is new here is the outcome `transient`, which `restoreChunkM` cannot produce. -/
theorem agrees_with_chunk_model (H : OasisModel.Mkvs.Bytes → OasisModel.Mkvs.Bytes)
    (root : OasisModel.Mkvs.Bytes) (rs : OasisModel.Mkvs.Restorer) (imp : List Nat)
    (idx seen : Nat) (c : OasisModel.Mkvs.ChunkData) :
    let o := outcomeOf (OasisModel.Mkvs.restoreChunkM H root rs.db c)
    (fFinish (absR rs imp) idx seen o).1 = resOf (OasisModel.Mkvs.rsFinish H root rs idx seen c).1 ∧
      SameBook (OasisModel.Mkvs.rsFinish H root rs idx seen c).2 (fFinish (absR rs imp) idx seen o).2 :=
  rsFinish_bridge H root rs imp idx seen c

/-! ### (f) non-vacuity -/

/-- (b): an interleaved history (phase 1 of chunk 1 between the phases of chunk 0, a corrupted and a
transient import on the way) whose last event reports done. -/
def hist3 : List Ev :=
  [.start 3, .begin 0, .begin 1, .finish 1 1 .corrupted, .finish 0 1 .ok, .begin 1, .begin 2,
   .finish 2 1 .transient, .finish 1 1 .ok, .begin 2]

example : (fStep (fRun {} hist3) (.finish 2 1 .ok)).2 = some (.done true) := by decide
example : (fRun {} hist3).rs.current = some 3 ∧ (fRun {} hist3).rs.pending = [2] ∧
    (fRun {} hist3).inflight = [(2, 1)] := by decide

/-- (c): hypotheses of `failed_import_stays_pending` hold in a reachable, non-quiescent state. -/
example : fBegin (fRun {} [.start 3, .begin 0, .begin 1, .finish 0 1 .ok]).rs 2 = .ok 1 := rfl

/-- (d): a quiescent point with a restore in progress and a non-trivial split. -/
example : let s := fRun {} [.start 3, .begin 1, .finish 1 1 .ok, .begin 0, .finish 0 1 .transient]
    s.inflight = [] ∧ s.rs.current = some 3 ∧ s.rs.pending = [0, 2] ∧ s.rs.imported = [1] := by decide

/-- A proof failure aborts the restore (restorer.go:91-95): later calls get ErrNoRestoreInProgress,
none reports done. -/
example : (fRunLog {} [.start 2, .begin 0, .begin 1, .finish 0 1 .proofFailed, .finish 1 1 .ok, .begin 1]).2 =
    [.proofFailed, .noRestore, .noRestore] := by decide

end OasisProofs.C12RestorerFail
