import OasisProofs.Helpers.C06Linear
/-
C06 — finalized versions stay readable until pruned; badger (hash-keyed) backend, LINEAR histories.

`C06.badger_readable_inv_partial` keeps every reported root readable for histories whose steps
satisfy `commitSafe` / `finalizeSafe` / `pruneSafe`, predicates about what the lone-node rule of
`Finalize` (badger.go:554-742; maybeLoneNodes minus notLoneNodes, 630-715) and the lone-root rule of
`Prune` (badger.go:744-850; roots without derived roots, 781-830) happen to delete.  This file removes the restriction for the histories the
consensus layer (and a runtime's state/io root pair) produces:

  `Linear clv τ ops` (`Helpers/C06Linear.lean`, `Lin`) — per version at most one candidate root per
  root type, each committed on top of the finalized root of the previous version of its type or from
  nothing (from nothing is allowed at every version: io roots are built that way), all candidates of
  the version finalized at once, prunes anywhere.  The only hypotheses about data are what the tree
  hands to the batch (`CommitOK`: new ⊆ old ∪ added, removed ⊆ old, removed ∩ new ⊆ added, in terms
  of the stored node set `clv`) and that trees of different root types share no node (`τ`).

For such histories the three predicates hold at every step by themselves
(`linear_steps_are_safe`), no `Commit`/`Finalize` is refused (`linear_never_refused`), hence every
reported root reads back completely after the history and after every prefix of it
(`badger_readable_inv_linear`, `badger_readable_inv_linear_prefix`).  Dropping either part of
linearity breaks the statement (`one_candidate_per_type_is_necessary` — finding D3,
`disjoint_types_are_necessary` — finding D1).
-/
namespace OasisProofs.C06Linear
open OasisModel.NodeDB OasisModel.NodeDB.Badger OasisProofs.C06

/-- **In a linear history every step satisfies its safety predicate by itself**: every batch only
points to nodes it puts or that are visible (`commitSafe`), every `Finalize` deletes no node of a
root it keeps nor an unshielded node of a later root (`finalizeSafe`), every `Prune` deletes no
unshielded node of a later root (`pruneSafe`).  `cl h ⊆ clv h`: a reader fetches stored nodes. -/
theorem linear_steps_are_safe (cl clv : Nat → List Nat) (τ : Nat → Nat)
    (hsub : ∀ h, ∀ n ∈ cl h, n ∈ clv h) (ops : List BOp) (hlin : Linear clv τ ops) :
    SafeRun cl clv Badger.init ops := by
  obtain ⟨v0, h⟩ := hlin
  exact (lin_run cl clv τ hsub h Badger.init (linv_init clv τ v0)).1

/-- The database refuses no `Commit` and no `Finalize` of a linear history. -/
theorem linear_never_refused (cl clv : Nat → List Nat) (τ : Nat → Nat)
    (hsub : ∀ h, ∀ n ∈ cl h, n ∈ clv h) (ops : List BOp) (hlin : Linear clv τ ops) :
    OkRun cl clv Badger.init ops := by
  obtain ⟨v0, h⟩ := hlin
  exact (lin_run cl clv τ hsub h Badger.init (linv_init clv τ v0)).2

/-- **badger_readable_inv_linear.** After EVERY linear history — no restriction on its steps —
every root the badger model reports (`HasRoot`: inside the window and in the roots metadata of its
version; pending candidates included) reads back completely: finalized roots stay readable through
all later commits, finalizations and prunes until their own version is pruned. -/
theorem badger_readable_inv_linear (cl clv : Nat → List Nat) (τ : Nat → Nat)
    (hsub : ∀ h, ∀ n ∈ cl h, n ∈ clv h) (ops : List BOp) (hlin : Linear clv τ ops) (r : Root)
    (hr : hasRoot (brun cl clv Badger.init ops) r = true) :
    readable cl (brun cl clv Badger.init ops) r = true := by
  by_cases h0 : (r.hash == 0) = true
  · simp [readable, h0]
  · rw [hasRoot_eq] at hr
    simp only [h0, Bool.false_or, Bool.and_eq_true, decide_eq_true_eq] at hr
    exact badger_readable_inv_partial cl clv ops (linear_steps_are_safe cl clv τ hsub ops hlin) r hr.1 hr.2

/-- The same at every intermediate state of the history. -/
theorem badger_readable_inv_linear_prefix (cl clv : Nat → List Nat) (τ : Nat → Nat)
    (hsub : ∀ h, ∀ n ∈ cl h, n ∈ clv h) (ops : List BOp) (hlin : Linear clv τ ops) (k : Nat) (r : Root)
    (hr : hasRoot (brun cl clv Badger.init (ops.take k)) r = true) :
    readable cl (brun cl clv Badger.init (ops.take k)) r = true := by
  obtain ⟨v0, h⟩ := hlin
  exact badger_readable_inv_linear cl clv τ hsub _ ⟨v0, lin_take clv τ h k⟩ r hr

/-! ## Non-vacuity: a 4-version linear history with overwrites, removals, a re-created node and prunes

State roots (type 0) form a chain, io roots (type 1) are built from nothing in every version.
Node hashes: state trees 10 = {1,2}, 11 = {1,3} (2 overwritten by 3), 12 = {2,3} (1 removed, the
node 2 that version 2 deleted is put again), 13 = {3} (2 removed); io trees 50 = {5}, 60 = {6}, 50
again in version 3 (same hash as in version 1, whose copy `Prune(1)` deletes), and the empty io
root in version 4.  A reader fetches everything but the leaves 5 and 6, which are stored as
separate copies of embedded leaves (`exCl ⊊ exClv`). -/

def exClv : Nat → List Nat
  | 10 => [10, 1, 2]
  | 11 => [11, 1, 3]
  | 12 => [12, 2, 3]
  | 13 => [13, 3]
  | 50 => [50, 5]
  | 60 => [60, 6]
  | n => [n]

def exCl : Nat → List Nat
  | 10 => [10, 1, 2]
  | 11 => [11, 1, 3]
  | 12 => [12, 2, 3]
  | 13 => [13, 3]
  | n => [n]

/-- state nodes below 5, io nodes 5, 6, 50, 60 -/
def exTy (n : Nat) : Nat := if n = 5 ∨ n = 6 ∨ n = 50 ∨ n = 60 then 1 else 0

def exOps : List BOp :=
  [ .commit ⟨1, 0, 0⟩ ⟨1, 0, 10⟩ [1, 2, 10] [],
    .commit ⟨1, 1, 0⟩ ⟨1, 1, 50⟩ [5, 50] [],
    .finalize 1 [⟨1, 0, 10⟩, ⟨1, 1, 50⟩],
    .commit ⟨2, 1, 0⟩ ⟨2, 1, 60⟩ [6, 60] [],
    .commit ⟨1, 0, 10⟩ ⟨2, 0, 11⟩ [3, 11] [10, 2],
    .prune 1,                                   -- refused: version 1 is the last finalized one
    .finalize 2 [⟨2, 0, 11⟩, ⟨2, 1, 60⟩],
    .commit ⟨2, 0, 11⟩ ⟨3, 0, 12⟩ [2, 12] [11, 1],
    .commit ⟨3, 1, 0⟩ ⟨3, 1, 50⟩ [5, 50] [],
    .finalize 3 [⟨3, 1, 50⟩, ⟨3, 0, 12⟩],
    .prune 1,                                   -- visits the lone io root 50 of version 1
    .commit ⟨3, 0, 12⟩ ⟨4, 0, 13⟩ [13] [12, 2],
    .commit ⟨3, 1, 0⟩ ⟨4, 1, 0⟩ [] [],
    .finalize 4 [⟨4, 0, 13⟩, ⟨4, 1, 0⟩],
    .prune 2 ]

theorem exOps_linear : Linear exClv exTy exOps := by
  refine ⟨1, ?_⟩
  unfold exOps
  refine Lin.commit _ _ _ _ _ _ _ _ (by decide) ?_
  refine Lin.commit _ _ _ _ _ _ _ _ (by decide) ?_
  refine Lin.finalize _ _ _ _ _ (by simp) (fun x => by simp) ?_
  refine Lin.commit _ _ _ _ _ _ _ _ (by decide) ?_
  refine Lin.commit _ _ _ _ _ _ _ _ (by decide) ?_
  refine Lin.prune _ _ _ _ _ ?_
  refine Lin.finalize _ _ _ _ _ (by simp) (fun x => by simp [or_comm]) ?_
  refine Lin.commit _ _ _ _ _ _ _ _ (by decide) ?_
  refine Lin.commit _ _ _ _ _ _ _ _ (by decide) ?_
  refine Lin.finalize _ _ _ _ _ (by simp) (fun x => by simp [or_comm]) ?_
  refine Lin.prune _ _ _ _ _ ?_
  refine Lin.commit _ _ _ _ _ _ _ _ (by decide) ?_
  refine Lin.commit _ _ _ _ _ _ _ _ (by decide) ?_
  refine Lin.finalize _ _ _ _ _ (by simp) (fun x => by simp) ?_
  exact Lin.prune _ _ _ _ _ (Lin.nil _ _ _)

theorem exCl_sub : ∀ h, ∀ n ∈ exCl h, n ∈ exClv h := by
  intro h n hn
  unfold exCl at hn
  unfold exClv
  split at hn <;> first | exact hn | skip
  split <;> simp_all

/-- The hypotheses of `badger_readable_inv_linear` hold for the example, and the example is not
trivial: both prunes that can succeed do (the window ends up as [3,4]), `Prune(1)` really deletes
nodes (the lone io root's), the re-created node 2 and the re-created io tree 50 are visible where
they must be, and the state root 12 of version 3, the io root 50 of version 3 and the roots of
version 4 are reported. -/
example :
    Linear exClv exTy exOps ∧ (∀ h, ∀ n ∈ exCl h, n ∈ exClv h) ∧
    (brun exCl exClv Badger.init exOps).earliest = 3 ∧ (brun exCl exClv Badger.init exOps).last = some 4 ∧
    pruneDels exClv (brun exCl exClv Badger.init (exOps.take 10)) 1 = [50, 5] ∧
    hasRoot (brun exCl exClv Badger.init exOps) ⟨3, 0, 12⟩ = true ∧
    hasRoot (brun exCl exClv Badger.init exOps) ⟨3, 1, 50⟩ = true ∧
    hasRoot (brun exCl exClv Badger.init exOps) ⟨4, 0, 13⟩ = true ∧
    hasRoot (brun exCl exClv Badger.init exOps) ⟨2, 0, 11⟩ = false :=
  ⟨exOps_linear, exCl_sub, by decide, by decide, by decide, by decide, by decide, by decide, by decide⟩

/-- What the theorem then gives for the example (also checked by evaluation). -/
example : readable exCl (brun exCl exClv Badger.init exOps) ⟨3, 0, 12⟩ = true ∧
    readable exCl (brun exCl exClv Badger.init exOps) ⟨3, 1, 50⟩ = true :=
  ⟨badger_readable_inv_linear exCl exClv exTy exCl_sub exOps exOps_linear _ (by decide),
   by decide⟩

/-! ## Linearity cannot be dropped -/

/-- Finding D3 as a history (`C06.cexBeforeFinalize` followed by its `Finalize`): version 2 has two
candidates of the state type, one from nothing and one on top of the finalized root of version 1. -/
def opsD3 : List BOp :=
  [ .commit ⟨1, 0, 0⟩ ⟨1, 0, 10⟩ [1, 2, 10] [],
    .finalize 1 [⟨1, 0, 10⟩],
    .commit ⟨2, 0, 0⟩ ⟨2, 0, 1⟩ [1] [],
    .commit ⟨1, 0, 10⟩ ⟨2, 0, 11⟩ [3, 11] [10],
    .finalize 2 [⟨2, 0, 11⟩] ]

/-- **One candidate per version and root type is necessary.**  `opsD3` is not linear for any typing
(two candidates of type 0 in version 2), every one of its operations is accepted, each batch
satisfies the data hypotheses of `CommitOK` — and the root it finalizes last is reported but not
readable. -/
theorem one_candidate_per_type_is_necessary :
    (∀ τ, ¬ Linear cexCl τ opsD3) ∧
    OkRun cexCl cexCl Badger.init opsD3 ∧
    hasRoot (brun cexCl cexCl Badger.init opsD3) ⟨2, 0, 11⟩ = true ∧
    readable cexCl (brun cexCl cexCl Badger.init opsD3) ⟨2, 0, 11⟩ = false := by
  refine ⟨?_, by decide, by decide, by decide⟩
  rintro τ ⟨v0, h⟩
  unfold opsD3 at h
  cases h with
  | commit _ _ _ _ _ _ _ _ hc1 h =>
    cases h with
    | finalize _ _ _ _ _ _ _ h =>
      cases h with
      | commit _ _ _ _ _ _ _ _ hc2 h =>
        cases h with
        | commit _ _ _ _ _ _ _ _ hc3 h =>
          exact hc3.2.1 ⟨2, 0, 1⟩ (by simp) rfl

/-- Finding D1 as a history (`C06.cexBeforePrune` followed by its `Prune`): the state root 10 and
the io root 20 of version 1 share leaf 1; otherwise the history has the linear shape. -/
def opsD1 : List BOp :=
  [ .commit ⟨1, 0, 0⟩ ⟨1, 0, 10⟩ [1, 2, 10] [],
    .commit ⟨1, 1, 0⟩ ⟨1, 1, 20⟩ [1, 4, 20] [],
    .finalize 1 [⟨1, 0, 10⟩, ⟨1, 1, 20⟩],
    .commit ⟨1, 0, 10⟩ ⟨2, 0, 11⟩ [3, 11] [10],
    .finalize 2 [⟨2, 0, 11⟩],
    .prune 1 ]

/-- **Disjoint node sets of different root types are necessary.**  `opsD1` has one candidate per
version and type, derived from the previous finalized root or from nothing, finalized at once — but
no typing `τ` of the nodes exists (leaf 1 is in a state tree and in an io tree), every operation is
accepted, and after `Prune(1)` the finalized root of version 2 is reported but not readable. -/
theorem disjoint_types_are_necessary :
    (∀ τ, ¬ Linear cexCl2 τ opsD1) ∧
    OkRun cexCl2 cexCl2 Badger.init opsD1 ∧
    (brun cexCl2 cexCl2 Badger.init opsD1).earliest = 2 ∧
    hasRoot (brun cexCl2 cexCl2 Badger.init opsD1) ⟨2, 0, 11⟩ = true ∧
    readable cexCl2 (brun cexCl2 cexCl2 Badger.init opsD1) ⟨2, 0, 11⟩ = false := by
  refine ⟨?_, by decide, by decide, by decide, by decide⟩
  rintro τ ⟨v0, h⟩
  unfold opsD1 at h
  cases h with
  | commit _ _ _ _ _ _ _ _ hc1 h =>
    cases h with
    | commit _ _ _ _ _ _ _ _ hc2 h =>
      have t1 := (hc1.2.2.2.2.2.1 (by decide) 1 (by decide)).1
      have t2 := (hc2.2.2.2.2.2.1 (by decide) 1 (by decide)).1
      rw [t1] at t2
      exact absurd t2 (by decide)

/-! ## The three data hypotheses of `CommitOK` cannot be dropped either

Each history below has the linear shape (one candidate per version and type, on top of the
finalized root of the previous version or from nothing, finalized at once), every operation is
accepted, exactly one batch violates exactly one clause — and a reported root is not readable. -/

/-- `new ⊆ old ∪ added` fails: the batch does not put node 2 of the tree 10 = {1,2}. -/
def opsNotPut : List BOp :=
  [ .commit ⟨1, 0, 0⟩ ⟨1, 0, 10⟩ [1, 10] [], .finalize 1 [⟨1, 0, 10⟩] ]

/-- `removed ∩ new ⊆ added` fails: the batch of 11 = {1,2,3} on top of 10 = {1,2} reports leaf 1,
which 11 keeps, as removed. -/
def opsRemovedKept : List BOp :=
  [ .commit ⟨1, 0, 0⟩ ⟨1, 0, 10⟩ [1, 2, 10] [], .finalize 1 [⟨1, 0, 10⟩],
    .commit ⟨1, 0, 10⟩ ⟨2, 0, 11⟩ [3, 11] [10, 1], .finalize 2 [⟨2, 0, 11⟩] ]

/-- `removed ⊆ old` fails: the state batch of version 2 reports the io leaf 5 as removed, which is
not a node of the old state tree; the unchanged io root 50 = {5} of version 2 loses it. -/
def opsRemovedForeign : List BOp :=
  [ .commit ⟨1, 0, 0⟩ ⟨1, 0, 10⟩ [1, 2, 10] [], .commit ⟨1, 1, 0⟩ ⟨1, 1, 50⟩ [5, 50] [],
    .finalize 1 [⟨1, 0, 10⟩, ⟨1, 1, 50⟩],
    .commit ⟨1, 0, 10⟩ ⟨2, 0, 11⟩ [3, 11] [10, 2, 5], .commit ⟨1, 1, 50⟩ ⟨2, 1, 50⟩ [] [],
    .finalize 2 [⟨2, 0, 11⟩, ⟨2, 1, 50⟩] ]

theorem batch_hypotheses_are_necessary :
    -- new ⊆ old ∪ added
    (¬ CommitOK cexCl (fun _ => 0) 1 [] [] ⟨1, 0, 0⟩ ⟨1, 0, 10⟩ [1, 10] [] ∧
      CommitOK cexCl (fun _ => 0) 1 [] [] ⟨1, 0, 0⟩ ⟨1, 0, 10⟩ [1, 2, 10] [] ∧
      OkRun cexCl cexCl Badger.init opsNotPut ∧
      hasRoot (brun cexCl cexCl Badger.init opsNotPut) ⟨1, 0, 10⟩ = true ∧
      readable cexCl (brun cexCl cexCl Badger.init opsNotPut) ⟨1, 0, 10⟩ = false) ∧
    -- removed ∩ new ⊆ added
    (¬ CommitOK cexCl (fun _ => 0) 2 [⟨1, 0, 10⟩] [] ⟨1, 0, 10⟩ ⟨2, 0, 11⟩ [3, 11] [10, 1] ∧
      CommitOK cexCl (fun _ => 0) 2 [⟨1, 0, 10⟩] [] ⟨1, 0, 10⟩ ⟨2, 0, 11⟩ [3, 11] [10] ∧
      OkRun cexCl cexCl Badger.init opsRemovedKept ∧
      hasRoot (brun cexCl cexCl Badger.init opsRemovedKept) ⟨2, 0, 11⟩ = true ∧
      readable cexCl (brun cexCl cexCl Badger.init opsRemovedKept) ⟨2, 0, 11⟩ = false) ∧
    -- removed ⊆ old
    (¬ CommitOK exClv exTy 2 [⟨1, 0, 10⟩, ⟨1, 1, 50⟩] [] ⟨1, 0, 10⟩ ⟨2, 0, 11⟩ [3, 11] [10, 2, 5] ∧
      CommitOK exClv exTy 2 [⟨1, 0, 10⟩, ⟨1, 1, 50⟩] [] ⟨1, 0, 10⟩ ⟨2, 0, 11⟩ [3, 11] [10, 2] ∧
      OkRun exClv exClv Badger.init opsRemovedForeign ∧
      hasRoot (brun exClv exClv Badger.init opsRemovedForeign) ⟨2, 1, 50⟩ = true ∧
      readable exClv (brun exClv exClv Badger.init opsRemovedForeign) ⟨2, 1, 50⟩ = false) := by
  refine ⟨⟨by decide, by decide, by decide, by decide, by decide⟩,
    ⟨by decide, by decide, by decide, by decide, by decide⟩,
    ⟨by decide, by decide, by decide, by decide, by decide⟩⟩

end OasisProofs.C06Linear
