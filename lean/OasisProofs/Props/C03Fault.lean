import OasisProofs.Helpers.MkvsLazy
import OasisProofs.Helpers.MkvsRefine
/-
C02/C03 — failure atomicity of writes on a lazily loaded MKVS tree.

"A failed Insert/Remove has no effect": when `doInsert`/`doRemove` return an error (a NodeDB read or
a remote fetch failed at some pointer, or the context was cancelled at some depth), the tree that is
left in memory holds the same contents as before; the only thing that may have happened is that
pointers were resolved (`ptr.Node = n`, cache.go:368).  Model: `OasisModel/Mkvs/Lazy.lean`
(`LT` = in-memory pointer graph with `stub`s, `Oracle` = any subset of fetches failing, write
functions that return the memory left behind on error).

  (1) `insert_fail_no_effect`   doInsert (insert.go:66-255), every tree/key/value/oracle/fuel
  (2) `remove_fail_no_effect`   doRemove after fix dd71025 (remove.go:63-201); hypothesis: the oracle
                                is stable between the prefetch (remove.go:104-109) and the second
                                dereference (remove.go:126-133); `remove_needs_stable`: without it
                                the fixed code still loses a key on an error return
  (3) `remove_old_clobbers`     the code before dd71025 violates (2), both ways described in the fix
  (4) `insert_success_refines`, `remove_success_refines`  on success the lazy functions compute
                                `Trie.insertAux`/`Trie.removeAux` of the resolved tree

`Unfolds fetch before after` (after = before with some pointers resolved) is the sharp statement;
`sameUpToFetch` is the equivalence it generates; `same_denotation`/`same_reach` say what the
equivalence preserves (denotation in `Trie`, bindings a reader can get to).
-/
namespace OasisProofs.C03Fault
open OasisModel.Mkvs OasisModel.Mkvs.LT OasisProofs.MkvsLazy OasisProofs.Mkvs

/-! ### what "equal up to fetching" preserves -/

/-- Trees equal up to fetching denote the same resolved trie (if any). -/
theorem same_denotation {fetch : Oracle} {a b : LT} (h : sameUpToFetch fetch a b) (T : Trie) :
    Resolves fetch a T ↔ Resolves fetch b T := sameUpToFetch.resolves_iff h T

/-- Trees equal up to fetching show the same bindings to a reader. -/
theorem same_reach {fetch : Oracle} {a b : LT} (h : sameUpToFetch fetch a b) (k v : Bytes) :
    Reach fetch a k v ↔ Reach fetch b k v := sameUpToFetch.reach_iff h k v

/-- The executable `denote` and the relation `Resolves` agree. -/
theorem denote_iff_resolves (fetch : Oracle) (t : LT) (T : Trie) :
    (∃ n, denote fetch n t = some T) ↔ Resolves fetch t T :=
  ⟨fun ⟨n, h⟩ => denote_sound n t T h, denote_complete⟩

/-! ### (1) insert -/

/-- Sharp form of (1): after a failed `doInsert` the memory is the old memory with some pointers
resolved. Any tree (canonical or not), key, value, depth, fuel, and ANY oracle. -/
theorem insert_fail_unfolds (fetch : Oracle) (k v : Bytes) :
    ∀ (fuel : Nat) (t : LT) (d : Nat) (mem : LT),
      doInsert fetch k v fuel t d = .fail mem → Unfolds fetch t mem := by
  intro fuel
  induction fuel with
  | zero => intro t d mem h; simp only [doInsert] at h; cases h; exact .refl _
  | succ fuel ih =>
    intro t d mem h
    unfold doInsert at h
    split at h
    · cases h; exact .refl _
    · cases h; exact .refl _
    · cases h
    · cases h
    · rename_i lab lf l r hd
      simp only at h
      split at h
      · split at h
        · cases h
        · split at h
          · rename_i r' hr
            cases h
            exact unfolds_of_deref_node hd (.refl _) (ih _ _ _ hr)
          · cases h
        · split at h
          · rename_i l' hl
            cases h
            exact unfolds_of_deref_node hd (ih _ _ _ hl) (.refl _)
          · cases h
      · cases h

/-- **(1)** If `doInsert` returns an error, the in-memory tree afterwards equals the tree before up
to fetching. -/
theorem insert_fail_no_effect (fetch : Oracle) (k v : Bytes) (fuel : Nat) (t : LT) (d : Nat) (mem : LT)
    (h : doInsert fetch k v fuel t d = .fail mem) : sameUpToFetch fetch t mem :=
  Unfolds.same (insert_fail_unfolds fetch k v fuel t d mem h)

/-- (1) for `tree.Insert`: on an error return the tree in memory has the same denotation and shows
the same bindings as before. -/
theorem insert_error_keeps_contents (fetch : Oracle) (fuel : Nat) (t : LT) (k v : Bytes)
    (h : (LT.insert fetch fuel t k v).2 = none) :
    sameUpToFetch fetch t (LT.insert fetch fuel t k v).1 ∧
    (∀ T, Resolves fetch t T ↔ Resolves fetch (LT.insert fetch fuel t k v).1 T) ∧
    (∀ k' v', Reach fetch t k' v' ↔ Reach fetch (LT.insert fetch fuel t k v).1 k' v') := by
  have hs : sameUpToFetch fetch t (LT.insert fetch fuel t k v).1 := by
    unfold LT.insert at h ⊢
    split at h
    · rename_i mem hm; exact insert_fail_no_effect _ _ _ _ _ _ _ hm
    · cases h
  exact ⟨hs, fun T => same_denotation hs T, fun k' v' => same_reach hs k' v'⟩

/-! ### (2) remove, as fixed by dd71025 -/

/-- Sharp form of (2). `evict` arbitrary: the cache may or may not drop the prefetched siblings
during the recursive call. -/
theorem remove_fail_unfolds (fetch refetch : Oracle) (hs : Oracle.Stable fetch refetch) (evict : Bool)
    (k : Bytes) :
    ∀ (fuel : Nat) (t : LT) (d : Nat) (mem : LT),
      doRemove fetch refetch evict k fuel t d = .fail mem → Unfolds fetch t mem := by
  intro fuel
  induction fuel with
  | zero => intro t d mem h; simp only [doRemove] at h; cases h; exact .refl _
  | succ fuel ih =>
    intro t d mem h
    unfold doRemove at h
    split at h
    · cases h; exact .refl _
    · cases h; exact .refl _
    · cases h
    · split at h <;> cases h
    · rename_i lab lf l r hd
      simp only at h
      split at h
      · cases h
      · split at h
        · cases h; exact deref_unfolds hd
        · rename_i l1 hl1
          split at h
          · cases h; exact unfolds_of_deref_node hd (deref_unfolds hl1) (.refl _)
          · rename_i r1 hr1
            split at h
            · -- slot = embedded leaf: only the second dereference could fail
              split at h
              · split at h <;> exact absurd h (finishRemove_not_fail hs hl1 hr1 mem)
              · exact absurd h (finishRemove_not_fail hs hl1 hr1 mem)
            · split at h
              · split at h
                · rename_i r' hr'
                  cases h
                  exact unfolds_of_deref_node hd (deref_unfolds hl1)
                    (Unfolds.trans (deref_unfolds hr1) (ih _ _ _ hr'))
                · rename_i nr ch ex hok
                  have hnr : deref fetch nr = some nr := deref_of_not_stub _ (doRemove_ok_not_stub hok)
                  exact absurd h (finishRemove_not_fail hs hl1 hnr mem)
              · split at h
                · rename_i l' hl'
                  cases h
                  exact unfolds_of_deref_node hd
                    (Unfolds.trans (deref_unfolds hl1) (ih _ _ _ hl')) (deref_unfolds hr1)
                · rename_i nl ch ex hok
                  have hnl : deref fetch nl = some nl := deref_of_not_stub _ (doRemove_ok_not_stub hok)
                  exact absurd h (finishRemove_not_fail hs hnl hr1 mem)

/-- **(2)** If the fixed `doRemove` returns an error and the oracle is stable (a fetch that
succeeded succeeds again with the same node when the cache has dropped it in between), the
in-memory tree afterwards equals the tree before up to fetching. -/
theorem remove_fail_no_effect (fetch refetch : Oracle) (hs : Oracle.Stable fetch refetch) (evict : Bool)
    (k : Bytes) (fuel : Nat) (t : LT) (d : Nat) (mem : LT)
    (h : doRemove fetch refetch evict k fuel t d = .fail mem) : sameUpToFetch fetch t mem :=
  Unfolds.same (remove_fail_unfolds fetch refetch hs evict k fuel t d mem h)

/-- (2) for `tree.RemoveExisting`. -/
theorem remove_error_keeps_contents (fetch refetch : Oracle) (hs : Oracle.Stable fetch refetch) (evict : Bool)
    (fuel : Nat) (t : LT) (k : Bytes) (h : (LT.remove fetch refetch evict fuel t k).2 = none) :
    sameUpToFetch fetch t (LT.remove fetch refetch evict fuel t k).1 ∧
    (∀ T, Resolves fetch t T ↔ Resolves fetch (LT.remove fetch refetch evict fuel t k).1 T) ∧
    (∀ k' v', Reach fetch t k' v' ↔ Reach fetch (LT.remove fetch refetch evict fuel t k).1 k' v') := by
  have hs' : sameUpToFetch fetch t (LT.remove fetch refetch evict fuel t k).1 := by
    unfold LT.remove at h ⊢
    split at h
    · rename_i mem hm; exact remove_fail_no_effect _ _ hs _ _ _ _ _ _ hm
    · cases h
  exact ⟨hs', fun T => same_denotation hs' T, fun k' v' => same_reach hs' k' v'⟩

/-! ### non-vacuity of (1) and (2) -/

/-- (1) is not vacuous: `doInsert` fails two levels down (after a successful fetch), and the memory
is not literally the old one. -/
example : doInsert exFetch [0x00] [9] 5 exTree 0 = .fail exMem ∧ exMem ≠ exTree ∧
    sameUpToFetch exFetch exTree exMem :=
  have h : doInsert exFetch [0x00] [9] 5 exTree 0 = .fail exMem := by decide
  ⟨h, by decide, insert_fail_no_effect _ _ _ _ _ _ _ h⟩

/-- (2) is not vacuous, with and without eviction of the prefetched siblings (`Stable` holds for the
same oracle asked twice). -/
example (evict : Bool) : doRemove exFetch exFetch evict [0x00] 5 exTree 0 = .fail exMem ∧ exMem ≠ exTree ∧
    Oracle.Stable exFetch exFetch ∧ sameUpToFetch exFetch exTree exMem := by
  have h : doRemove exFetch exFetch evict [0x00] 5 exTree 0 = .fail exMem := by cases evict <;> decide
  exact ⟨h, by decide, stable_refl _, remove_fail_no_effect _ _ (stable_refl _) _ _ _ _ _ _ h⟩

/-- … and the successful paths are there too (same tree, pointer 2 now resolves). -/
example :
    let f : Oracle := fun h => if h = 2 then some (.leaf [0x00] [7]) else exFetch h
    doRemove f f true [0x00] 5 exTree 0 =
      .ok (.node [] none (.leaf [0x40] [5]) (.leaf [0x80] [2])) true (some [7]) := by decide

/-! ### (2) the stability hypothesis is needed -/

/-- Without stability the FIXED `doRemove` is still not failure-atomic: the sibling (pointer 7) is
prefetched, the cache drops it during the recursive call (`evict`), the second fetch
(remove.go:130) fails — the call returns an error (remove.go:131-133) after `*child = newChild`
(remove.go:118) has removed the key. -/
theorem remove_needs_stable :
    ∃ (fetch refetch : Oracle) (t : LT) (k : Bytes) (fuel : Nat) (mem : LT) (k' v' : Bytes),
      doRemove fetch refetch true k fuel t 0 = .fail mem ∧
      Reach fetch t k' v' ∧ ¬ Reach fetch mem k' v' ∧ ¬ sameUpToFetch fetch t mem := by
  let fetch : Oracle := fun h => if h = 7 then some (.leaf [0x80] [2]) else none
  let t : LT := .node [] none (.leaf [0x00] [1]) (.stub 7)
  have hr : Reach fetch t [0x00] [1] := .left (.leaf _ _)
  have hn : ¬ Reach fetch (.node [] none .nil (.stub 7)) [0x00] [1] := by
    rw [reach_node_iff]
    rintro (h | h | h)
    · cases h
    · exact reach_nil_iff.1 h
    · rw [reach_stub_iff] at h
      obtain ⟨t', hf, ht'⟩ := h
      have : t' = .leaf [0x80] [2] := by
        have : fetch 7 = some (.leaf [0x80] [2]) := by decide
        rw [this] at hf; cases hf; rfl
      subst this
      rw [reach_leaf_iff] at ht'
      exact absurd ht'.1 (by decide)
  exact ⟨fetch, fun _ => none, t, [0x00], 3, .node [] none .nil (.stub 7), [0x00], [1],
    by decide, hr, hn, fun hs => hn ((same_reach hs _ _).1 hr)⟩

/-- With the sibling kept by the cache the same call succeeds. -/
example :
    doRemove (fun h => if h = 7 then some (.leaf [0x80] [2]) else none) (fun _ => none) false [0x00] 3
      (.node [] none (.leaf [0x00] [1]) (.stub 7)) 0 = .ok (.leaf [0x80] [2]) true (some [1]) := by decide

/-! ### (3) the code before dd71025 -/

/-- **(3)** The old `doRemove` violates (2), even with an oracle that never changes and without
eviction.  Pointer 7 cannot be fetched.  Removing `0x80` descends right, right-left and fails at
pointer 7; on the way back `n.Left = nil` and `n.Right = nil` are stored before the error is looked
at, so the resident, stored key `0xC0` is gone although an error was returned. -/
theorem remove_old_clobbers :
    ∃ (fetch : Oracle) (t : LT) (k : Bytes) (fuel : Nat) (mem : LT) (k' v' : Bytes),
      doRemoveOld fetch k fuel t 0 = .fail mem ∧
      Reach fetch t k' v' ∧ ¬ Reach fetch mem k' v' ∧ ¬ sameUpToFetch fetch t mem := by
  let fetch : Oracle := fun _ => none
  let t : LT := .node [] none (.leaf [0x00] [1]) (.node [true] none (.stub 7) (.leaf [0xC0] [3]))
  have hr : Reach fetch t [0xC0] [3] := .right (.right (.leaf _ _))
  have hn : ¬ Reach fetch (.node [] none (.leaf [0x00] [1]) .nil) [0xC0] [3] := by
    rw [reach_node_iff]
    rintro (h | h | h)
    · cases h
    · rw [reach_leaf_iff] at h; exact absurd h.1 (by decide)
    · exact reach_nil_iff.1 h
  exact ⟨fetch, t, [0x80], 3, .node [] none (.leaf [0x00] [1]) .nil, [0xC0], [3],
    by decide, hr, hn, fun hs => hn ((same_reach hs _ _).1 hr)⟩

/-- (3), second way: the sibling is fetched only after the child has been removed (old
remove.go:110-117); the fetch fails, the error is returned, the key `0x00` is gone. -/
theorem remove_old_half_applied :
    ∃ (fetch : Oracle) (t : LT) (k : Bytes) (fuel : Nat) (mem : LT) (k' v' : Bytes),
      doRemoveOld fetch k fuel t 0 = .fail mem ∧
      Reach fetch t k' v' ∧ ¬ Reach fetch mem k' v' ∧ ¬ sameUpToFetch fetch t mem := by
  let fetch : Oracle := fun _ => none
  let t : LT := .node [] none (.leaf [0x00] [1]) (.stub 7)
  have hr : Reach fetch t [0x00] [1] := .left (.leaf _ _)
  have hn : ¬ Reach fetch (.node [] none .nil (.stub 7)) [0x00] [1] := by
    rw [reach_node_iff]
    rintro (h | h | h)
    · cases h
    · exact reach_nil_iff.1 h
    · exact reach_stub_none rfl h
  exact ⟨fetch, t, [0x00], 3, .node [] none .nil (.stub 7), [0x00], [1],
    by decide, hr, hn, fun hs => hn ((same_reach hs _ _).1 hr)⟩

/-- On the inputs of both witnesses the fixed `doRemove` fails too and leaves the memory literally
as it was. -/
example :
    doRemove (fun _ => none) (fun _ => none) true [0x80] 3
      (.node [] none (.leaf [0x00] [1]) (.node [true] none (.stub 7) (.leaf [0xC0] [3]))) 0 =
      .fail (.node [] none (.leaf [0x00] [1]) (.node [true] none (.stub 7) (.leaf [0xC0] [3]))) ∧
    doRemove (fun _ => none) (fun _ => none) true [0x00] 3
      (.node [] none (.leaf [0x00] [1]) (.stub 7)) 0 =
      .fail (.node [] none (.leaf [0x00] [1]) (.stub 7)) := by decide

/-! ### (4) success refines the pure model -/

/-- **(4, insert)** When `doInsert` succeeds on a tree that resolves to `T`, the new root resolves to
`Trie.insertAux` of `T` and `existed` is the model's flag: any tree, depth, fuel and oracle (fetches
off the path may fail later — `Resolves` only asks that they would succeed). -/
theorem insert_success_refines (fetch : Oracle) (k v : Bytes) (fuel : Nat) (t : LT) (d : Nat) (T : Trie)
    (nr : LT) (ex : Bool) (hT : Resolves fetch t T) (h : doInsert fetch k v fuel t d = .ok nr ex) :
    Resolves fetch nr (T.insertAux k v d).1 ∧ ex = (T.insertAux k v d).2 :=
  doInsert_refines fetch k v fuel t d T nr ex hT h

/-- **(4, remove)** The same for the fixed `doRemove` under a stable oracle: new root, `changed` and
the previous value are those of `Trie.removeAux`. -/
theorem remove_success_refines (fetch refetch : Oracle) (hs : Oracle.Stable fetch refetch) (evict : Bool)
    (k : Bytes) (fuel : Nat) (t : LT) (d : Nat) (T : Trie) (nr : LT) (ch : Bool) (ex : Option Bytes)
    (hT : Resolves fetch t T) (h : doRemove fetch refetch evict k fuel t d = .ok nr ch ex) :
    Resolves fetch nr (T.removeAux k d).1 ∧ ch = (T.removeAux k d).2.1 ∧ ex = (T.removeAux k d).2.2 :=
  doRemove_refines fetch refetch hs evict k fuel t d T nr ch ex hT h

/-- (4) for `tree.Insert` in terms of the executable `denote`, and — for a canonical tree — of the
ordered map of C03: a successful lazy insert denotes `Trie.insert`, whose contents are
`SMap.insert`. -/
theorem insert_success_denote (fetch : Oracle) (fuel n : Nat) (t : LT) (k v : Bytes) (T : Trie) (ex : Bool)
    (hT : denote fetch n t = some T) (h : (LT.insert fetch fuel t k v).2 = some ex) :
    (∃ m, denote fetch m (LT.insert fetch fuel t k v).1 = some (T.insert k v)) ∧
    (WF T → (T.insert k v).toList = SMap.insert T.toList k v ∧ WF (T.insert k v)) := by
  refine ⟨?_, fun hwf => ⟨toList_insert hwf k v, wf_insert hwf k v⟩⟩
  unfold LT.insert at h ⊢
  split at h
  · cases h
  · rename_i nr ex' hok
    exact denote_complete (insert_success_refines fetch k v fuel t 0 T nr ex' (denote_sound n t T hT) hok).1

/-- (4) for `tree.RemoveExisting`. -/
theorem remove_success_denote (fetch refetch : Oracle) (hs : Oracle.Stable fetch refetch) (evict : Bool)
    (fuel n : Nat) (t : LT) (k : Bytes) (T : Trie) (ch : Bool) (ex : Option Bytes)
    (hT : denote fetch n t = some T) (h : (LT.remove fetch refetch evict fuel t k).2 = some (ch, ex)) :
    (∃ m, denote fetch m (LT.remove fetch refetch evict fuel t k).1 = some (T.remove k)) ∧
    ex = (T.removeExisting k).2 ∧
    (WF T → (T.remove k).toList = SMap.erase T.toList k ∧ WF (T.remove k) ∧ ex = SMap.get T.toList k) := by
  unfold LT.remove at h ⊢
  split at h
  · cases h
  · rename_i nr ch' ex' hok
    obtain ⟨h1, _, h3⟩ :=
      remove_success_refines fetch refetch hs evict k fuel t 0 T nr ch' ex' (denote_sound n t T hT) hok
    simp only [Option.some.injEq, Prod.mk.injEq] at h
    obtain ⟨_, rfl⟩ := h
    refine ⟨denote_complete h1, h3, fun hwf => ⟨toList_remove hwf k, wf_remove hwf k, ?_⟩⟩
    rw [h3]; exact (removeExisting_eq hwf k).2

/-- (4) is not vacuous: a lazy tree with two non-resident levels, an oracle that resolves them, a
successful insert below them and a successful remove with a collapse (label merge into a fetched
node). -/
example :
    let f : Oracle := fun h => if h = 2 then some (.leaf [0x00] [7]) else exFetch h
    denote f 6 exTree = some (.node [] none (.node [false] none (.leaf [0x00] [7]) (.leaf [0x40] [5])) (.leaf [0x80] [2])) ∧
    (LT.insert f 5 exTree [0x20] [8]).2 = some false ∧
    (LT.remove f f true 5 exTree [0x80]).2 = some (true, some [2]) ∧
    denote f 6 (LT.remove f f true 5 exTree [0x80]).1 =
      some (.node [false] none (.leaf [0x00] [7]) (.leaf [0x40] [5])) := by decide

end OasisProofs.C03Fault
