import OasisModel.Governance.Tally
import OasisProofs.Props.C05
/-
C10 (governance tally part) — closing a proposal never fails.

Totality of the tally model `OasisModel.Governance` under the share invariant of the staking ledger
(C05: for every escrow account the delegations into it add up va its total shares) and one stored
vote per voter: no `subShares` underflow whatever the order of votes and delegations, the voted
stake never exceeds the total voting stake, so `CloseProposal` fails only for a zero total voting
stake — the one hypothesis left (an empty / stake-less validator set), shown necessary.
-/
set_option linter.unusedSimpArgs false
set_option linter.unusedVariables false

namespace OasisProofs.C10Tally
open OasisModel OasisModel.Staking OasisModel.Staking.SharePool OasisModel.Governance
open OasisModel.Staking.Ledger (sumTo)
open OasisProofs.C05 (sumTo_upd sumTo_upd_ge upd_same upd_other)
open OasisProofs.C15 (stakeForShares_le_balance stakeForShares_mul_le)

/-! ### Sums over distinct accounts -/

theorem sum_distinct_le (n : Nat) (f : Nat → Nat) (l : List Nat) (hnd : l.Nodup) (hr : ∀ a ∈ l, a < n) :
    (l.map f).sum ≤ sumTo n f := by
  induction l generalizing f with
  | nil => simp
  | cons a as ih =>
    have hnd' := List.nodup_cons.1 hnd
    have h1 := ih (upd f a 0) hnd'.2 (fun x hx => hr x (List.mem_cons_of_mem _ hx))
    have h2 : (as.map (upd f a 0)) = as.map f := by
      apply List.map_congr_left
      intro x hx
      exact upd_other f a x 0 (fun e => hnd'.1 (e ▸ hx))
    rw [h2] at h1
    have h3 := sumTo_upd n a 0 f (hr a (List.mem_cons_self ..))
    simp only [List.map_cons, List.sum_cons]
    omega

/-! ### Rows -/

def rowSum (row : Row) : Nat := row 1 + row 2 + row 3

def VoteOk (x : Vote) : Prop := x = 1 ∨ x = 2 ∨ x = 3

theorem rowSum_upd (row : Row) (x : Vote) (s : Nat) (hx : VoteOk x) :
    rowSum (upd row x s) + row x = rowSum row + s := by
  rcases hx with rfl | rfl | rfl <;> simp [rowSum, upd] <;> omega

/-- What the tally needs from its input. -/
structure TallyOk (t : TallyIn) : Prop where
  valsNodup : t.validators.Nodup
  votersNodup : (t.votes.map (·.1)).Nodup
  votersRange : ∀ v ∈ t.votes, v.1 < t.n
  votesOk : ∀ v ∈ t.votes, VoteOk v.2
  /-- share invariant of the ledger (C05 `Inv.active`, there with equality) -/
  shares : ∀ va ∈ t.validators, sumTo t.n (t.del va) ≤ (t.pool va).totalShares

theorem find_fst_iff (votes : List (Nat × Vote)) (hnd : (votes.map (·.1)).Nodup) (va : Nat) (y : Vote) :
    (votes.find? (fun v => v.1 == va)).map (·.2) = some y ↔ (va, y) ∈ votes := by
  induction votes with
  | nil => simp
  | cons v vs ih =>
    have hnd' := List.nodup_cons.1 hnd
    by_cases hv : v.1 = va
    · have hb : (v.1 == va) = true := by simpa using hv
      simp only [List.find?, hb, Option.map_some, Option.some.injEq, List.mem_cons]
      constructor
      · intro h; left; cases v; simp_all
      · rintro (h | h)
        · rw [← h]
        · exfalso; apply hnd'.1
          show v.1 ∈ List.map (fun x => x.1) vs
          rw [hv]; exact List.mem_map.2 ⟨(va, y), h, rfl⟩
    · have hb : (v.1 == va) = false := by simpa using hv
      simp only [List.find?, hb, List.mem_cons]
      rw [ih hnd'.2]
      constructor
      · intro h; exact Or.inr h
      · rintro (h | h)
        · exfalso; apply hv; rw [← h]
        · exact h

theorem valVote_iff (t : TallyIn) (h : TallyOk t) (va : Nat) (hva : va ∈ t.validators) (y : Vote) :
    valVote t va = some y ↔ (va, y) ∈ t.votes := by
  unfold valVote
  have : t.validators.contains va = true := by simpa using hva
  simp only [this, if_true]
  exact find_fst_iff t.votes h.votersNodup va y

theorem valVote_ok (t : TallyIn) (h : TallyOk t) (va : Nat) (hva : va ∈ t.validators) (y : Vote)
    (hy : valVote t va = some y) : VoteOk y :=
  h.votesOk (va, y) ((valVote_iff t h va hva y).1 hy)

/-! ### The delegator tally never underflows -/

/-- Shares moved away from (or, for a non-voting validator, credited on top of) validator `va` by the
votes in `S`. -/
def moved (t : TallyIn) (va : Nat) (S : List (Nat × Vote)) : Nat :=
  (S.map (fun v => if valVote t va = some v.2 then 0 else t.del va v.1)).sum

theorem moved_append (t : TallyIn) (va : Nat) (S : List (Nat × Vote)) (v : Nat × Vote) :
    moved t va (S ++ [v]) = moved t va S + (if valVote t va = some v.2 then 0 else t.del va v.1) := by
  simp [moved]

/-- `moved` is bounded by the validator's total shares for any votes of distinct voters. -/
theorem moved_le (t : TallyIn) (h : TallyOk t) (va : Nat) (hva : va ∈ t.validators) (S : List (Nat × Vote))
    (hnd : (S.map (·.1)).Nodup) (hr : ∀ v ∈ S, v.1 < t.n) : moved t va S ≤ (t.pool va).totalShares := by
  have h1 : moved t va S ≤ ((S.map (·.1)).map (t.del va)).sum := by
    unfold moved
    induction S with
    | nil => simp
    | cons v vs ih =>
      have := ih (List.nodup_cons.1 hnd).2 (fun x hx => hr x (List.mem_cons_of_mem _ hx))
      simp only [List.map_cons, List.sum_cons] at this ⊢
      split <;> omega
  have h2 := sum_distinct_le t.n (t.del va) (S.map (·.1)) hnd
    (fun a ha => by obtain ⟨v, hv, rfl⟩ := List.mem_map.1 ha; exact hr v hv)
  exact Nat.le_trans h1 (Nat.le_trans h2 (h.shares va hva))

/-- Row invariant of validator `va` after the votes in `S` have been processed. -/
def RowInv (t : TallyIn) (va : Nat) (S : List (Nat × Vote)) (row : Row) : Prop :=
  match valVote t va with
  | some y => row y + moved t va S = (t.pool va).totalShares ∧ rowSum row = (t.pool va).totalShares
  | none => rowSum row = moved t va S

theorem rowInv_sum_le (t : TallyIn) (h : TallyOk t) (va : Nat) (hva : va ∈ t.validators)
    (S : List (Nat × Vote)) (hnd : (S.map (·.1)).Nodup) (hr : ∀ v ∈ S, v.1 < t.n) (row : Row)
    (hi : RowInv t va S row) : rowSum row ≤ (t.pool va).totalShares := by
  unfold RowInv at hi
  split at hi
  · omega
  · rw [hi]; exact moved_le t h va hva S hnd hr

theorem rowStep_ok (t : TallyIn) (h : TallyOk t) (va : Nat) (hva : va ∈ t.validators)
    (S : List (Nat × Vote)) (d : Nat) (x : Vote) (hx : VoteOk x) (row : Row)
    (hi : RowInv t va S row) (hm : moved t va (S ++ [(d, x)]) ≤ (t.pool va).totalShares) :
    ∃ row', rowStep (valVote t va) (t.del va d) x row = .ok row' ∧ RowInv t va (S ++ [(d, x)]) row' := by
  have hma := moved_append t va S (d, x)
  unfold rowStep
  unfold RowInv at hi ⊢
  cases hy : valVote t va with
  | none =>
    simp only [hy, reduceCtorEq, if_false] at hi hma ⊢
    simp only [addRow, QN.Add, QN.Clone, Quantity.add]
    refine ⟨_, rfl, ?_⟩
    have := rowSum_upd row x (t.del va d + row x) hx
    omega
  | some y =>
    have hyok := valVote_ok t h va hva y hy
    simp only [hy] at hi hma ⊢
    by_cases hyx : y = x
    · subst hyx
      simp only [if_true] at hma ⊢
      exact ⟨row, rfl, by omega, hi.2⟩
    · have hne : ¬ (some y = some x) := fun e => hyx (Option.some.inj e)
      simp only [hne, if_false] at hma ⊢
      simp only [subRow, QN.Sub, QN.Clone, Quantity.sub]
      have hge : ¬ row y < t.del va d := by omega
      simp only [hge, if_false, addRow, QN.Add, QN.Clone, Quantity.add]
      refine ⟨_, rfl, ?_, ?_⟩
      · rw [upd_other _ _ _ _ hyx, upd_same]; omega
      · have h1 := rowSum_upd row y (row y - t.del va d) hyok
        have h2 := rowSum_upd (upd row y (row y - t.del va d)) x
          (t.del va d + upd row y (row y - t.del va d) x) hx
        omega

theorem rowInv_skip (t : TallyIn) (va : Nat) (S : List (Nat × Vote)) (d : Nat) (x : Vote) (row : Row)
    (hi : RowInv t va S row) (h0 : t.del va d = 0) : RowInv t va (S ++ [(d, x)]) row := by
  have hma := moved_append t va S (d, x)
  have : moved t va (S ++ [(d, x)]) = moved t va S := by
    rw [hma]; simp only [h0]; split <;> rfl
  unfold RowInv at hi ⊢
  rw [this]; exact hi

/-- The inner loop over a voter's delegations never fails and advances every validator's row. -/
theorem delegatorVote_ok (t : TallyIn) (h : TallyOk t) (S : List (Nat × Vote)) (d : Nat) (x : Vote)
    (hx : VoteOk x) (hnd : ((S ++ [(d, x)]).map (·.1)).Nodup) (hr : ∀ v ∈ S ++ [(d, x)], v.1 < t.n)
    (done todo : List Nat) (hsplit : t.validators = done ++ todo) (vs : VoteShares)
    (hdone : ∀ va ∈ done, RowInv t va (S ++ [(d, x)]) (vs va))
    (htodo : ∀ va ∈ todo, RowInv t va S (vs va)) :
    ∃ vs', delegatorVote t d x vs todo = .ok vs' ∧ ∀ va ∈ t.validators, RowInv t va (S ++ [(d, x)]) (vs' va) := by
  induction todo generalizing done vs with
  | nil =>
    refine ⟨vs, rfl, ?_⟩
    intro va hva; rw [hsplit] at hva; simp at hva; exact hdone va hva
  | cons w ws ih =>
    have hw : w ∈ t.validators := by rw [hsplit]; simp
    have hnd' : (done ++ w :: ws).Nodup := hsplit ▸ h.valsNodup
    have hwdone : w ∉ done := by
      intro hc
      have := List.nodup_append.1 hnd'
      exact this.2.2 w hc w (List.mem_cons_self ..) rfl
    have hwws : w ∉ ws := (List.nodup_cons.1 (List.nodup_append.1 hnd').2.1).1
    simp only [delegatorVote]
    have hsplit' : t.validators = (done ++ [w]) ++ ws := by rw [hsplit]; simp
    by_cases h0 : t.del w d = 0
    · simp only [h0, if_true]
      apply ih (done ++ [w]) hsplit' vs
      · intro va hva
        rcases List.mem_append.1 hva with hva | hva
        · exact hdone va hva
        · simp at hva; subst hva
          exact rowInv_skip t va S d x _ (htodo va (List.mem_cons_self ..)) h0
      · intro va hva; exact htodo va (List.mem_cons_of_mem _ hva)
    · simp only [h0, if_false]
      obtain ⟨row', hrow, hinv⟩ := rowStep_ok t h w hw S d x hx (vs w) (htodo w (List.mem_cons_self ..))
        (moved_le t h w hw _ hnd hr)
      simp only [hrow]
      apply ih (done ++ [w]) hsplit' (upd vs w row')
      · intro va hva
        rcases List.mem_append.1 hva with hva | hva
        · have hne : va ≠ w := fun e => hwdone (e ▸ hva)
          rw [upd_other _ _ _ _ hne]; exact hdone va hva
        · simp at hva; subst hva
          rw [upd_same]; exact hinv
      · intro va hva
        have hne : va ≠ w := fun e => hwws (e ▸ hva)
        rw [upd_other _ _ _ _ hne]; exact htodo va (List.mem_cons_of_mem _ hva)

theorem phase2_ok (t : TallyIn) (h : TallyOk t) (S rest : List (Nat × Vote)) (hsplit : t.votes = S ++ rest)
    (vs : VoteShares) (hinv : ∀ va ∈ t.validators, RowInv t va S (vs va)) :
    ∃ vs', phase2 t vs rest = .ok vs' ∧ ∀ va ∈ t.validators, RowInv t va t.votes (vs' va) := by
  induction rest generalizing S vs with
  | nil => exact ⟨vs, rfl, by rw [hsplit]; simpa using hinv⟩
  | cons v vr ih =>
    obtain ⟨d, x⟩ := v
    have hsplit' : t.votes = (S ++ [(d, x)]) ++ vr := by rw [hsplit]; simp
    have hsub : (S ++ [(d, x)]).Sublist t.votes := by rw [hsplit']; exact List.sublist_append_left _ _
    have hnd : ((S ++ [(d, x)]).map (·.1)).Nodup := List.Nodup.sublist (List.Sublist.map _ hsub) h.votersNodup
    have hr : ∀ v ∈ S ++ [(d, x)], v.1 < t.n := fun v hv => h.votersRange v (hsub.subset hv)
    have hx : VoteOk x := h.votesOk (d, x) (by rw [hsplit]; simp)
    simp only [phase2]
    obtain ⟨vs1, h1, hinv1⟩ := delegatorVote_ok t h S d x hx hnd hr [] t.validators rfl vs
      (by intro va hva; simp at hva) hinv
    simp only [h1]
    exact ih (S ++ [(d, x)]) hsplit' vs1 hinv1

/-! ### The validators' own votes -/

def P1 (t : TallyIn) (vs : VoteShares) (P : List (Nat × Vote)) : Prop :=
  ∀ va x, vs va x = if va ∈ t.validators ∧ (va, x) ∈ P then (t.pool va).totalShares else 0

theorem phase1_ok (t : TallyIn) (h : TallyOk t) (P rest : List (Nat × Vote)) (hsplit : t.votes = P ++ rest)
    (vs : VoteShares) (hinv : P1 t vs P) : ∃ vs', phase1 t vs rest = .ok vs' ∧ P1 t vs' t.votes := by
  induction rest generalizing P vs with
  | nil => exact ⟨vs, rfl, by rw [hsplit]; simpa using hinv⟩
  | cons v vr ih =>
    obtain ⟨d, x⟩ := v
    have hsplit' : t.votes = (P ++ [(d, x)]) ++ vr := by rw [hsplit]; simp
    -- the voter has no earlier vote
    have hfresh : ∀ x', (d, x') ∉ P := by
      intro x' hc
      have hnd := h.votersNodup
      rw [hsplit, List.map_append] at hnd
      have := (List.nodup_append.1 hnd).2.2 d (List.mem_map.2 ⟨(d, x'), hc, rfl⟩) d (by simp) rfl
      exact this
    simp only [phase1]
    by_cases hv : d ∈ t.validators
    · have hb : t.validators.contains d = true := by simpa using hv
      simp only [hb, if_true, addRow, QN.Add, QN.Clone, Quantity.add]
      apply ih (P ++ [(d, x)]) hsplit'
      intro va x'
      by_cases hva : va = d
      · subst hva
        rw [upd_same]
        by_cases hxx : x' = x
        · subst hxx
          rw [upd_same, hinv va x']
          have hnp : (va, x') ∉ P := hfresh x'
          simp [hnp, hv]
        · rw [upd_other _ _ _ _ hxx, hinv va x']
          have e : ((va, x') ∈ P ++ [(va, x)]) ↔ (va, x') ∈ P := by
            simp [hxx]
          simp only [e]
      · rw [upd_other _ _ _ _ hva, hinv va x']
        have e : ((va, x') ∈ P ++ [(d, x)]) ↔ (va, x') ∈ P := by
          simp [hva]
        simp only [e]
    · have hb : t.validators.contains d = false := by simpa using hv
      simp only [hb, Bool.false_eq_true, if_false]
      apply ih (P ++ [(d, x)]) hsplit'
      intro va x'
      rw [hinv va x']
      by_cases hva : va = d
      · subst hva; simp [hv]
      · have e : ((va, x') ∈ P ++ [(d, x)]) ↔ (va, x') ∈ P := by simp [hva]
        simp only [e]

theorem rowInv_of_P1 (t : TallyIn) (h : TallyOk t) (vs : VoteShares) (hp : P1 t vs t.votes)
    (va : Nat) (hva : va ∈ t.validators) : RowInv t va [] (vs va) := by
  unfold RowInv
  have hm : moved t va [] = 0 := rfl
  have hval : ∀ x, vs va x = if (va, x) ∈ t.votes then (t.pool va).totalShares else 0 := by
    intro x; rw [hp va x]; simp [hva]
  cases hy : valVote t va with
  | none =>
    simp only [hm]
    have hno : ∀ x, (va, x) ∉ t.votes := by
      intro x hc
      have := (valVote_iff t h va hva x).2 hc
      rw [hy] at this; cases this
    simp [rowSum, hval, hno]
  | some y =>
    simp only [hm, Nat.add_zero]
    have hyin := (valVote_iff t h va hva y).1 hy
    have hyok := valVote_ok t h va hva y hy
    have honly : ∀ x, (va, x) ∈ t.votes → x = y := by
      intro x hx
      have := (valVote_iff t h va hva x).2 hx
      rw [hy] at this; exact (Option.some.inj this).symm
    refine ⟨by rw [hval y]; simp [hyin], ?_⟩
    have hv : ∀ x, vs va x = if x = y then (t.pool va).totalShares else 0 := by
      intro x; rw [hval x]
      by_cases hxy : x = y
      · subst hxy; simp [hyin]
      · have : (va, x) ∉ t.votes := fun c => hxy (honly x c)
        simp [this, hxy]
    unfold rowSum
    rw [hv 1, hv 2, hv 3]
    rcases hyok with rfl | rfl | rfl <;> simp

/-! ### Results in stake -/

theorem resultFor_ok (t : TallyIn) (vs : VoteShares) (x : Vote) (acc : Nat) (l : List Nat) :
    resultFor t vs x acc l = .ok (acc + (l.map (fun va => stakeForShares (t.pool va) (vs va x))).sum) := by
  induction l generalizing acc with
  | nil => simp [resultFor]
  | cons a as ih =>
    simp only [resultFor, QN.Add, Quantity.add, ih, List.map_cons, List.sum_cons]
    congr 1; omega

theorem totalVotingStake_ok (t : TallyIn) (acc : Nat) (l : List Nat) :
    totalVotingStake t acc l = .ok (acc + (l.map (fun va => (t.pool va).balance)).sum) := by
  induction l generalizing acc with
  | nil => simp [totalVotingStake]
  | cons a as ih =>
    simp only [totalVotingStake, QN.Add, Quantity.add, ih, List.map_cons, List.sum_cons]
    congr 1; omega

theorem div_add_div_le (a b c : Nat) : a / c + b / c ≤ (a + b) / c := by
  by_cases hc : c = 0
  · simp [hc]
  · rw [Nat.le_div_iff_mul_le (Nat.pos_of_ne_zero hc)]
    have h1 := Nat.div_mul_le_self a c
    have h2 := Nat.div_mul_le_self b c
    rw [Nat.add_mul]; omega

/-- Converting a validator's three vote rows to stake yields at most its balance. -/
theorem stake_of_row_le (p : SharePool) (s1 s2 s3 : Nat) (h : s1 + s2 + s3 ≤ p.totalShares) :
    stakeForShares p s1 + stakeForShares p s2 + stakeForShares p s3 ≤ p.balance := by
  by_cases hb : p.balance = 0
  · simp [stakeForShares, hb]
  by_cases ht : p.totalShares = 0
  · simp [stakeForShares, ht]
  have hle : ∀ s, stakeForShares p s = s * p.balance / p.totalShares := by
    intro s
    unfold stakeForShares
    by_cases hs : s = 0
    · simp [hs]
    · simp [hs, hb, ht]
  rw [hle, hle, hle]
  have h1 := div_add_div_le (s1 * p.balance) (s2 * p.balance) p.totalShares
  have h2 := div_add_div_le (s1 * p.balance + s2 * p.balance) (s3 * p.balance) p.totalShares
  have h3 : (s1 * p.balance + s2 * p.balance + s3 * p.balance) / p.totalShares ≤ p.balance := by
    apply Nat.div_le_of_le_mul
    rw [← Nat.add_mul, ← Nat.add_mul]
    exact Nat.mul_le_mul_right _ h
  omega

theorem sum_three_le (t : TallyIn) (vs : VoteShares) (l : List Nat)
    (hrow : ∀ va ∈ l, rowSum (vs va) ≤ (t.pool va).totalShares) :
    (l.map (fun va => stakeForShares (t.pool va) (vs va 1))).sum
      + (l.map (fun va => stakeForShares (t.pool va) (vs va 2))).sum
      + (l.map (fun va => stakeForShares (t.pool va) (vs va 3))).sum
      ≤ (l.map (fun va => (t.pool va).balance)).sum := by
  induction l with
  | nil => simp
  | cons a as ih =>
    have := ih (fun va hva => hrow va (List.mem_cons_of_mem _ hva))
    have h1 := stake_of_row_le (t.pool a) (vs a 1) (vs a 2) (vs a 3) (hrow a (List.mem_cons_self ..))
    simp only [List.map_cons, List.sum_cons]
    omega

/-- **The tally never fails and the voted stake never exceeds the total voting stake.** -/
theorem tally_total (t : TallyIn) (h : TallyOk t) :
    ∃ r total, tally t = .ok r ∧ totalVotingStake t 0 t.validators = .ok total ∧
      r.yes + r.no + r.abstain ≤ total := by
  obtain ⟨vs1, h1, p1⟩ := phase1_ok t h [] t.votes rfl (fun _ _ => 0) (by intro va x; simp)
  obtain ⟨vs2, h2, i2⟩ := phase2_ok t h [] t.votes rfl vs1 (fun va hva => rowInv_of_P1 t h vs1 p1 va hva)
  have hrow : ∀ va ∈ t.validators, rowSum (vs2 va) ≤ (t.pool va).totalShares :=
    fun va hva => rowInv_sum_le t h va hva t.votes h.votersNodup h.votersRange _ (i2 va hva)
  refine ⟨{ yes := 0 + (t.validators.map (fun va => stakeForShares (t.pool va) (vs2 va 1))).sum,
             no := 0 + (t.validators.map (fun va => stakeForShares (t.pool va) (vs2 va 2))).sum,
             abstain := 0 + (t.validators.map (fun va => stakeForShares (t.pool va) (vs2 va 3))).sum },
          _, ?_, totalVotingStake_ok t 0 t.validators, ?_⟩
  · simp only [tally, h1, h2, liftQ, resultFor_ok]
  · have := sum_three_le t vs2 t.validators hrow
    simp only [Nat.zero_add]; omega

/-- `CloseProposal` succeeds for a non-zero total voting stake that covers the voted stake. -/
theorem closeProposal_total (r : Results) (total threshold : Nat) (h0 : total ≠ 0)
    (hle : r.yes + r.no + r.abstain ≤ total) : ∃ b, closeProposal r total threshold = .ok b := by
  unfold closeProposal
  simp only [h0, if_false, liftQ, QN.Add, QN.Mul, QN.Quo, Quantity.add, Quantity.mul, Quantity.quo]
  have : ¬ (r.yes + r.no + r.abstain > total) := by omega
  simp only [this, if_false]
  split
  · exact ⟨_, rfl⟩
  · exact ⟨_, rfl⟩

/-- The remaining hypothesis is necessary: with a zero total voting stake (no validator entity
holds any active escrow) `CloseProposal` returns an error and EndBlock fails. -/
theorem closeProposal_needs_stake (r : Results) (threshold : Nat) :
    closeProposal r 0 threshold = .error .invalidProposalState := rfl

/-- **Closing a proposal in EndBlock never fails** when the validator set holds stake. -/
theorem closeAll_total (t : TallyIn) (h : TallyOk t) (threshold : Nat)
    (hstake : (t.validators.map (fun va => (t.pool va).balance)).sum ≠ 0) :
    ∃ b, closeAll t threshold = .ok b := by
  obtain ⟨r, total, hr, ht, hle⟩ := tally_total t h
  have htot : total = (t.validators.map (fun va => (t.pool va).balance)).sum := by
    rw [totalVotingStake_ok] at ht; injection ht with ht; omega
  unfold closeAll
  simp only [ht, hr, liftQ]
  exact closeProposal_total r total threshold (by rw [htot]; exact hstake) hle

/-- Without the share invariant the delegator tally does underflow: a delegation larger than the
validator's total shares makes `subShares` fail. -/
def witnessBadShares : TallyIn := {
  n := 2, validators := [0], pool := fun _ => { balance := 10, totalShares := 5 },
  del := fun e d => if e = 0 ∧ d = 1 then 9 else 0, votes := [(0, 1), (1, 2)] }

theorem tally_needs_share_invariant : tally witnessBadShares = .error (.quantity .insufficientBalance) := by
  decide

/-! ### Non-vacuity -/

def exTally : TallyIn := {
  n := 4, validators := [0, 2],
  pool := fun i => if i = 0 then { balance := 100, totalShares := 30 } else { balance := 7, totalShares := 7 },
  del := fun e d => if e = 0 ∧ d = 0 then 10 else if e = 0 ∧ d = 1 then 15 else if e = 0 ∧ d = 3 then 5
                    else if e = 2 ∧ d = 1 then 7 else 0,
  votes := [(0, 1), (1, 2), (3, 1)] }

example : TallyOk exTally := by
  refine ⟨by decide, by decide, by decide, ?_, ?_⟩
  · intro v hv; simp [exTally] at hv; rcases hv with rfl | rfl | rfl <;> simp [VoteOk]
  · intro va hva; simp [exTally] at hva; rcases hva with rfl | rfl <;> decide

example : closeAll exTally 60 = .ok false ∧ tally exTally = .ok { yes := 50, no := 57, abstain := 0 } := by
  decide

end OasisProofs.C10Tally
