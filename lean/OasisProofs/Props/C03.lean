import OasisProofs.Helpers.MkvsOverlay
import OasisProofs.Helpers.MkvsIterMachine
/-
C03 — the MKVS tree and overlays behave as an ordered map.

Theorems about the trie model `OasisModel.Mkvs.Trie` (mirror of insert.go / remove.go / lookup.go),
for arbitrary byte-string keys and values and every operation history.  The Go tree is tied to the
model by the mkvsdrv correspondence (every answer and every committed root hash, byte for byte).

What is proved here: the trie (`trie_refines_smap`), the tree object with its pending write log
(`pending_log_consistent`, `tree_object_refines`), one overlay over any inner ordered map
(`overlay_refines`, incl. the merge iterator) and stacks of overlays of any depth for every history
of operations / new / commit / discard (`overlay_stack_refines`); in-order traversal sorted and
seek = suffix of the sorted list (`inorder_sorted`, `seek_is_suffix`).

The tree iterator is modelled as the code writes it (`OasisModel.Mkvs.Iter`) and proved equal to the
successor specification (`iter_machine_eq_successor`, `iter_next_is_successor`,
`stack_iterMachine_eq`); the driver compares every `iter` answer with both.
`OverlayTree.Copy` is modelled (`Layer.copy`, `overlay_copy_refines`) and driven (`ocopy`/`oswap`).
Not in the model: iterators interleaved with writes inside one iteration, the node cache.
-/
namespace OasisProofs.C03
open OasisModel.Mkvs OasisProofs.Mkvs

/-- The empty tree is canonical and empty. -/
theorem empty_refines : WF Trie.nil ∧ Trie.nil.toList = [] := ⟨trivial, rfl⟩

/-- Insert keeps the canonical form and acts on the contents as ordered-map insertion
(overwrite included). -/
theorem insert_refines (t : Trie) (h : WF t) (k v : Bytes) :
    WF (t.insert k v) ∧ (t.insert k v).toList = SMap.insert t.toList k v :=
  ⟨wf_insert h k v, toList_insert h k v⟩

/-- Remove keeps the canonical form and acts on the contents as ordered-map erase
(removing an absent key is a no-op on the contents). -/
theorem remove_refines (t : Trie) (h : WF t) (k : Bytes) :
    WF (t.remove k) ∧ (t.remove k).toList = SMap.erase t.toList k :=
  ⟨wf_remove h k, toList_remove h k⟩

/-- `Get` returns the binding of the ordered map (the descent compares no labels; the final key
comparison makes this right). -/
theorem get_refines (t : Trie) (h : WF t) (k : Bytes) : t.get k = SMap.get t.toList k :=
  get_eq_smap h k

/-- `RemoveExisting` removes like `Remove` and returns the previous value. -/
theorem removeExisting_refines (t : Trie) (h : WF t) (k : Bytes) :
    (t.removeExisting k).1 = t.remove k ∧ (t.removeExisting k).2 = SMap.get t.toList k :=
  removeExisting_eq h k

/-- In-order traversal (own leaf, left, right) is strictly ascending in byte order, so iteration
from a seek key is the suffix of keys ≥ seek of the ordered map. -/
theorem inorder_sorted (t : Trie) (h : WF t) : SMap.Sorted t.toList := wf_sorted h

/-- Seek on an ordered map: the items with key ≥ `s` are a *suffix* of the ascending list — the
list from the first key that is not below `s` on — so `Seek s` positions at the least key ≥ `s`
and `Next` walks the successors. (The model's iteration is `SMap.seekGE` of the traversal.) -/
theorem seek_is_suffix (m : List KV) (hm : SMap.Sorted m) (s : Bytes) :
    SMap.seekGE m s = m.dropWhile (fun kv => decide (kv.1 < s)) := by
  induction m with
  | nil => rfl
  | cons x m ih =>
    obtain ⟨hx, hm'⟩ := smap_sorted_cons.1 hm
    simp only [SMap.seekGE, List.filter_cons, List.dropWhile_cons]
    by_cases h : x.1 < s
    · simp only [h, decide_true, Bool.not_true, Bool.false_eq_true, if_false, if_true]
      exact ih hm'
    · simp only [h, decide_false, Bool.not_false, if_true, Bool.false_eq_true, if_false]
      congr 1
      apply List.filter_eq_self.2
      intro y hy
      have : ¬ y.1 < s := fun hlt => h (bytes_lt_trans (hx y hy) hlt)
      simp [this]

/-- The tree iterator as the code writes it (iterator.go:195-341: `doNext` with the visit states
`visitBefore/At/AtLeft/After`, the `pos` stack, `takeFirst`, `keyNotLonger`, `AppendBit` and
`advanceKeyToRight` on the seek key; model `OasisModel.Mkvs.Iter`): for every canonical trie and
every seek key — shorter or longer than any path, present or not — `Seek` followed by `Next` until
the iterator is invalid yields exactly the suffix of the sorted contents from the first key ≥ the
seek key. -/
theorem iter_machine_eq_successor (t : Trie) (h : WF t) (s : Bytes) :
    Iter.iterate t s = SMap.seekGE t.toList s := iterate_eq_seekGE h s

/-- One `doNext` call (any resume state): it returns the first not-yet-visited item with key ≥ the
bound together with a resume stack whose remaining items are exactly the items after it. -/
theorem iter_doNext_spec (t : Trie) (p : Bits) (K : Bytes) (st : Iter.VState) (hwf : WFAt p t)
    (hnode : st ≠ .before → ∃ lab lf l r, t = Trie.node lab lf l r)
    (hleft : st = .atLeft → LeftPre t p K) :
    Post (nOf t p) K (part st t) (Iter.doNext t p K st) := doNext_spec t p K st hwf hnode hleft

/-- One `Next`: from a consistent iterator state the next item is the head of what remains, and
the state stays consistent (so `Next` is the successor). -/
theorem iter_next_is_successor (cur : KV) (pos : List Iter.Atom) (h : StackOK cur pos) :
    match remaining pos with
    | [] => Iter.nextLoop cur.1 pos = none
    | y :: ys => ∃ pos', Iter.nextLoop cur.1 pos = some (y, pos') ∧ remaining pos' = ys ∧ StackOK y pos' :=
  nextLoop_spec cur pos h

/-- Map laws, read directly on the tree: get after insert. -/
theorem get_insert (t : Trie) (h : WF t) (k v k' : Bytes) :
    (t.insert k v).get k' = if k' = k then some v else t.get k' := by
  rw [get_eq_smap (wf_insert h k v), get_eq_smap h, toList_insert h]
  apply option_ext
  intro w
  have hs := wf_sorted h
  rw [smap_get_eq_some (smap_sorted_insert hs k v), smap_mem_insert hs]
  by_cases hk : k' = k
  · subst hk
    simp only [if_true, Option.some.injEq, Prod.mk.injEq, true_and, ne_eq, not_true_eq_false,
      and_false, or_false]
    exact eq_comm
  · simp only [if_neg hk, Prod.mk.injEq, hk, false_and, ne_eq, not_false_eq_true, and_true, false_or]
    exact (smap_get_eq_some hs k' w).symm

/-- Map laws: get after remove. -/
theorem get_remove (t : Trie) (h : WF t) (k k' : Bytes) :
    (t.remove k).get k' = if k' = k then none else t.get k' := by
  rw [get_eq_smap (wf_remove h k), get_eq_smap h, toList_remove h]
  apply option_ext
  intro w
  have hs := wf_sorted h
  rw [smap_get_eq_some (smap_sorted_erase hs k), smap_mem_erase hs]
  by_cases hk : k' = k
  · subst hk; simp
  · simp only [if_neg hk, ne_eq, hk, not_false_eq_true, and_true]
    exact (smap_get_eq_some hs k' w).symm

/-! ### every history -/

/-- Operations on a tree handle. -/
inductive Op where
  | insert (k v : Bytes)
  | remove (k : Bytes)
  | removeExisting (k : Bytes)
  | get (k : Bytes)
  | iterate (seek : Bytes)

/-- What an operation answers. -/
inductive Ans where
  | unit
  | val (v : Option Bytes)
  | items (l : List KV)
  deriving DecidableEq

def stepTrie (t : Trie) : Op → Trie × Ans
  | .insert k v => (t.insert k v, .unit)
  | .remove k => (t.remove k, .unit)
  | .removeExisting k => ((t.removeExisting k).1, .val (t.removeExisting k).2)
  | .get k => (t, .val (t.get k))
  | .iterate s => (t, .items (SMap.seekGE t.toList s))

def stepSpec (m : List KV) : Op → List KV × Ans
  | .insert k v => (SMap.insert m k v, .unit)
  | .remove k => (SMap.erase m k, .unit)
  | .removeExisting k => (SMap.erase m k, .val (SMap.get m k))
  | .get k => (m, .val (SMap.get m k))
  | .iterate s => (m, .items (SMap.seekGE m s))

def runTrie (t : Trie) : List Op → Trie × List Ans
  | [] => (t, [])
  | op :: ops => let r := stepTrie t op; let rest := runTrie r.1 ops; (rest.1, r.2 :: rest.2)

def runSpec (m : List KV) : List Op → List KV × List Ans
  | [] => (m, [])
  | op :: ops => let r := stepSpec m op; let rest := runSpec r.1 ops; (rest.1, r.2 :: rest.2)

theorem step_refines (t : Trie) (h : WF t) (op : Op) :
    WF (stepTrie t op).1 ∧ (stepTrie t op).1.toList = (stepSpec t.toList op).1 ∧
    (stepTrie t op).2 = (stepSpec t.toList op).2 := by
  cases op with
  | insert k v => exact ⟨wf_insert h k v, toList_insert h k v, rfl⟩
  | remove k => exact ⟨wf_remove h k, toList_remove h k, rfl⟩
  | removeExisting k =>
    refine ⟨wf_remove h k, toList_remove h k, ?_⟩
    simp only [stepTrie, stepSpec, (removeExisting_eq h k).2]
  | get k => exact ⟨h, rfl, by simp only [stepTrie, stepSpec, get_eq_smap h]⟩
  | iterate s => exact ⟨h, rfl, rfl⟩

/-- For every operation history starting from any canonical tree, the tree answers exactly what
the ordered map answers, stays canonical, and ends with the ordered map's contents. -/
theorem trie_refines_smap (ops : List Op) (t : Trie) (h : WF t) :
    WF (runTrie t ops).1 ∧ (runTrie t ops).1.toList = (runSpec t.toList ops).1 ∧
    (runTrie t ops).2 = (runSpec t.toList ops).2 := by
  induction ops generalizing t with
  | nil => exact ⟨h, rfl, rfl⟩
  | cons op ops ih =>
    obtain ⟨h1, h2, h3⟩ := step_refines t h op
    obtain ⟨i1, i2, i3⟩ := ih (stepTrie t op).1 h1
    simp only [runTrie, runSpec]
    rw [← h2, ← h3]
    exact ⟨i1, i2, by rw [i3]⟩

/-! ### the tree object: pending write log consulted first -/

/-- `tree.Get` looks into the pending write log first (lookup.go:24-29); for every history of
inserts and removes since the last commit this agrees with the tree itself. -/
theorem pending_log_consistent (old : List KV) (s : TreeState) (h : TInv old s) (k : Bytes) :
    s.get k = SMap.get s.root.toList k := tinv_get h k

/-- `tree.Insert` / `tree.RemoveExisting` (tree + pending write log) refine the ordered map, incl.
the early return of `RemoveExisting` for a key already removed locally (remove.go:20-26). -/
theorem tree_object_refines (old : List KV) (s : TreeState) (h : TInv old s) (k v : Bytes) :
    (TInv old (s.insert k v) ∧ (s.insert k v).root.toList = SMap.insert s.root.toList k v) ∧
    (TInv old (s.removeExisting k).1 ∧ (s.removeExisting k).1.root.toList = SMap.erase s.root.toList k ∧
      (s.removeExisting k).2 = SMap.get s.root.toList k) :=
  ⟨tinv_insert h k v, tinv_removeExisting h k⟩

/-! ### overlays -/

/-- An overlay (overlay.go: sorted overlay map + dirty set) on top of *any* inner key-value tree
that answers `Get` and iteration like the ordered map `m` behaves like the ordered map
`view L m = applyLogSpec m L.commitOps`, i.e. like the inner map after `Commit`:
`Get`, `Insert`, `Remove`, `RemoveExisting` (incl. "not dirty if absent below") and the merge
iterator (incl. skipping of dirty inner keys). -/
theorem overlay_refines (L : Layer) (h : LInv L) (m : List KV) (hm : SMap.Sorted m) :
    (∀ k, L.get (SMap.get m) k = SMap.get (view L m) k) ∧
    (∀ k v, LInv (L.insert k v) ∧ view (L.insert k v) m = SMap.insert (view L m) k v) ∧
    (∀ k, LInv (L.remove k) ∧ view (L.remove k) m = SMap.erase (view L m) k) ∧
    (∀ k, LInv (L.removeExisting (SMap.get m) k).1 ∧
      (L.removeExisting (SMap.get m) k).2 = SMap.get (view L m) k ∧
      view (L.removeExisting (SMap.get m) k).1 m = SMap.erase (view L m) k) ∧
    (∀ s, L.iter (SMap.seekGE m s) s = SMap.seekGE (view L m) s) ∧
    applyLogSpec m L.commitOps = view L m :=
  ⟨fun k => layer_get h hm k,
   fun k v => ⟨linv_insert h k v, layer_insert h hm k v⟩,
   fun k => ⟨linv_remove h k, layer_remove h hm k⟩,
   fun k => layer_removeExisting h hm k,
   fun s => layer_iter h hm s,
   rfl⟩

/-- `OverlayTree.Copy` (overlay.go:96): the copy shows, over any inner tree `m'` (the same one for
`Copy(nil)` or another one), exactly what the original shows over `m'`, and is a value of its own:
later operations on one of the two do not change the other. -/
theorem overlay_copy_refines (L : Layer) (h : LInv L) (m' : List KV) :
    LInv L.copy ∧ view L.copy m' = view L m' ∧
    (∀ k v, view (L.insert k v) m' = view (L.copy.insert k v) m' ∧ L.copy = L) :=
  ⟨⟨h.sorted, h.sub, h.nodup⟩, rfl, fun _ _ => ⟨rfl, rfl⟩⟩

/-- Operations on a stack of overlays over a tree: an operation on the outermost handle,
`NewOverlay` on it, `Commit` of the outermost overlay (it stays, empty), `Close` of it. -/
inductive SOp where
  | op (o : Op)
  | push
  | commit
  | discard

def stepStack (st : TreeState × List Layer) : SOp → (TreeState × List Layer) × Ans
  | .op (.insert k v) => (Stack.insert st.1 st.2 k v, .unit)
  | .op (.remove k) => (Stack.remove st.1 st.2 k, .unit)
  | .op (.removeExisting k) => ((Stack.removeExisting st.1 st.2 k).1, .val (Stack.removeExisting st.1 st.2 k).2)
  | .op (.get k) => (st, .val (Stack.get st.1 st.2 k))
  | .op (.iterate s) => (st, .items (Stack.iter st.1 st.2 s))
  | .push => ((st.1, {} :: st.2), .unit)
  | .commit =>
    match st.2 with
    | [] => (st, .unit)
    | L :: rest => (((Stack.commitTop st.1 (L :: rest)).1, {} :: (Stack.commitTop st.1 (L :: rest)).2), .unit)
  | .discard =>
    match st.2 with
    | [] => (st, .unit)
    | _ :: rest => ((st.1, rest), .unit)

/-- The specification: one ordered map per handle, outermost first. -/
def stepSpecStack (vs : List (List KV)) : SOp → List (List KV) × Ans
  | .op o =>
    match vs with
    | v :: rest => ((stepSpec v o).1 :: rest, (stepSpec v o).2)
    | [] => ([], .unit)
  | .push =>
    match vs with
    | v :: rest => (v :: v :: rest, .unit)
    | [] => ([], .unit)
  | .commit =>
    match vs with
    | v :: _ :: rest => (v :: v :: rest, .unit)
    | vs => (vs, .unit)
  | .discard =>
    match vs with
    | _ :: w :: rest => (w :: rest, .unit)
    | vs => (vs, .unit)

theorem stack_step_refines (old : List KV) (b : TreeState) (ls : List Layer) (h : SInv old b ls) (op : SOp) :
    SInv old (stepStack (b, ls) op).1.1 (stepStack (b, ls) op).1.2 ∧
    views (stepStack (b, ls) op).1.1 (stepStack (b, ls) op).1.2 = (stepSpecStack (views b ls) op).1 ∧
    (stepStack (b, ls) op).2 = (stepSpecStack (views b ls) op).2 := by
  cases op with
  | op o =>
    rw [views_eq b ls]
    cases o with
    | insert k v =>
      have h1 := stack_insert h k v
      refine ⟨h1.1, ?_, rfl⟩
      show views (Stack.insert b ls k v).1 (Stack.insert b ls k v).2 = _
      rw [views_eq, h1.2, views_tail_insert]; rfl
    | remove k =>
      have h1 := stack_remove h k
      refine ⟨h1.1, ?_, rfl⟩
      show views (Stack.remove b ls k).1 (Stack.remove b ls k).2 = _
      rw [views_eq, h1.2, views_tail_remove]; rfl
    | removeExisting k =>
      have h1 := stack_removeExisting h k
      refine ⟨h1.1, ?_, ?_⟩
      · show views (Stack.removeExisting b ls k).1.1 (Stack.removeExisting b ls k).1.2 = _
        rw [views_eq, h1.2.1, views_tail_removeExisting]; rfl
      · show Ans.val (Stack.removeExisting b ls k).2 = _
        rw [h1.2.2]; rfl
    | get k =>
      refine ⟨h, views_eq b ls, ?_⟩
      show Ans.val (Stack.get b ls k) = _
      rw [stack_get h k]; rfl
    | iterate s =>
      refine ⟨h, views_eq b ls, ?_⟩
      show Ans.items (Stack.iter b ls s) = _
      rw [stack_iter h s]; rfl
  | push =>
    refine ⟨⟨h.base, ?_⟩, ?_, ?_⟩
    · intro L hL
      rcases List.mem_cons.1 hL with e | e
      · rw [e]; exact linv_empty
      · exact h.layers L e
    · show sview b ls :: views b ls = (stepSpecStack (views b ls) SOp.push).1
      generalize hv : views b ls = vs
      have hh := views_head b ls
      rw [hv] at hh
      cases vs with
      | nil => simp at hh
      | cons v rest => simp at hh; subst hh; rfl
    · rw [views_eq b ls]; rfl
  | commit =>
    cases ls with
    | nil => exact ⟨h, rfl, rfl⟩
    | cons L rest =>
      have h1 := stack_commitTop h
      have ht := views_tail_applyOps L.commitOps b rest
      refine ⟨⟨h1.1.base, ?_⟩, ?_, ?_⟩
      rotate_left
      rotate_left
      · show Ans.unit = (stepSpecStack (sview b (L :: rest) :: views b rest) SOp.commit).2
        rw [views_eq b rest]; rfl
      · intro L' hL'
        rcases List.mem_cons.1 hL' with e | e
        · rw [e]; exact linv_empty
        · exact h1.1.layers L' e
      · show views (Stack.commitTop b (L :: rest)).1 ({} :: (Stack.commitTop b (L :: rest)).2) = _
        have e1 : views (Stack.commitTop b (L :: rest)).1 ({} :: (Stack.commitTop b (L :: rest)).2) =
            sview (Stack.commitTop b (L :: rest)).1 (Stack.commitTop b (L :: rest)).2 ::
              views (Stack.commitTop b (L :: rest)).1 (Stack.commitTop b (L :: rest)).2 := rfl
        rw [e1, views_eq (Stack.commitTop b (L :: rest)).1, h1.2]
        have e2 : (views (Stack.commitTop b (L :: rest)).1 (Stack.commitTop b (L :: rest)).2).tail =
            (views b rest).tail := ht
        rw [e2]
        show _ = (stepSpecStack (sview b (L :: rest) :: views b rest) SOp.commit).1
        rw [views_eq b rest]; rfl
  | discard =>
    cases ls with
    | nil => exact ⟨h, rfl, rfl⟩
    | cons L rest =>
      refine ⟨sinv_tail h, ?_, ?_⟩
      · show views b rest = (stepSpecStack (sview b (L :: rest) :: views b rest) SOp.discard).1
        rw [views_eq b rest]; rfl
      · show Ans.unit = (stepSpecStack (sview b (L :: rest) :: views b rest) SOp.discard).2
        rw [views_eq b rest]; rfl

def runStack (st : TreeState × List Layer) : List SOp → (TreeState × List Layer) × List Ans
  | [] => (st, [])
  | op :: ops => let r := stepStack st op; let rest := runStack r.1 ops; (rest.1, r.2 :: rest.2)

def runSpecStack (vs : List (List KV)) : List SOp → List (List KV) × List Ans
  | [] => (vs, [])
  | op :: ops => let r := stepSpecStack vs op; let rest := runSpecStack r.1 ops; (rest.1, r.2 :: rest.2)

/-- C03 for stacks of any depth and every history: a tree with its pending write log and any
stack of overlays (new / commit / discard, operations on the outermost handle) answers every
`Get`, `RemoveExisting` and iteration exactly as the stack of ordered maps does. -/
theorem overlay_stack_refines (ops : List SOp) (old : List KV) (b : TreeState) (ls : List Layer)
    (h : SInv old b ls) :
    SInv old (runStack (b, ls) ops).1.1 (runStack (b, ls) ops).1.2 ∧
    views (runStack (b, ls) ops).1.1 (runStack (b, ls) ops).1.2 = (runSpecStack (views b ls) ops).1 ∧
    (runStack (b, ls) ops).2 = (runSpecStack (views b ls) ops).2 := by
  induction ops generalizing b ls with
  | nil => exact ⟨h, rfl, rfl⟩
  | cons op ops ih =>
    obtain ⟨h1, h2, h3⟩ := stack_step_refines old b ls h op
    obtain ⟨i1, i2, i3⟩ := ih (stepStack (b, ls) op).1.1 (stepStack (b, ls) op).1.2 h1
    simp only [runStack, runSpecStack]
    rw [← h2, ← h3]
    exact ⟨i1, i2, by rw [i3]⟩

/-- Iteration on any handle of an overlay stack with the iterator machine at the bottom equals the
specification-level iteration (hence, by `overlay_stack_refines`, the ordered map's). -/
theorem stack_iterMachine_eq (old : List KV) (b : TreeState) (ls : List Layer) (h : SInv old b ls)
    (s : Bytes) : Stack.iterMachine b ls s = Stack.iter b ls s := by
  induction ls with
  | nil => exact iterate_eq_seekGE h.base.wf s
  | cons L rest ih =>
    show L.iter (Stack.iterMachine b rest s) s = L.iter (Stack.iter b rest s) s
    rw [ih (sinv_tail h)]

/-- Tree commit keeps the contents (it only hashes) and resets the pending write log; the
invariant then holds relative to the new committed contents, so histories continue across commits. -/
theorem commit_keeps_contents (old : List KV) (s : TreeState) (h : TInv old s) :
    s.commit.1.root = s.root ∧ TInv s.root.toList s.commit.1 :=
  ⟨rfl, tinv_init h.wf⟩

/-! ### non-vacuity -/

def exampleTrie : Trie :=
  Trie.ofList [([0x61, 0x62], [1]), ([0x61], [2]), ([], [3]), ([0x80], []), ([0x61, 0x63], [5])]

example : WF exampleTrie := wf_ofList _
example : wfAtB [] exampleTrie = true := by decide
example : SInv [] {} [{}, {}] := ⟨tinv_init (t := .nil) trivial, by intro L hL; simp at hL; subst hL; exact linv_empty⟩
example : (runStack ({}, []) [.op (.insert [1] [2]), .push, .op (.remove [1]), .op (.get [1]), .discard, .op (.get [1])]).2 =
    [.unit, .unit, .unit, .val none, .unit, .val (some [2])] := by decide
example : exampleTrie.toList = [([], [3]), ([0x61], [2]), ([0x61, 0x62], [1]), ([0x61, 0x63], [5]), ([0x80], [])] := by
  decide
example : (exampleTrie.remove [0x61]).get [0x61, 0x63] = some [5] := by decide

end OasisProofs.C03
