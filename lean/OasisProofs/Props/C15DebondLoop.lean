import OasisModel.Staking.DebondLoop
import OasisProofs.Helpers.DebondLoop
/-
C15 / C05 — debonding is paid exactly once: the epoch-transition loop over the debonding queue,
as the code performs it (load / mutate in memory / save).

`OasisModel.Staking.DebondLoop` transcribes the loop of `onEpochChange`
(go/consensus/cometbft/apps/staking/staking.go:253-324) with an explicit account store: per
expired entry the delegator account is loaded afresh (staking.go:256), the escrow account is the
same in-memory object when the addresses are equal (staking.go:263-264) and is loaded afresh
otherwise (staking.go:266), the entry's shares are redeemed from the escrow object's debonding pool
(staking.go:273), the base units are moved to the delegator object's general balance
(staking.go:284), and the objects are written back (staking.go:302-309).  The ledger model of C05
(`Ledger.debondEntry`) and the queue model of C15 (`DebSt.processEntry`) update accounts
functionally, so a stale in-memory copy cannot be expressed there; it can be here.

  * `loop_refines_fold` — (1) for every ledger, store, queue and entry list (self-delegations, an
    account that is escrow account of one entry and delegator of another, reserved addresses,
    failing withdrawals) the load/save loop computes exactly `Ledger.debondAll`, the fold of the
    functional per-entry step; `onEpochChange_refines` lifts this to the whole debonding part of
    `onEpochChange`, `loop_refines_debst` to the queue model about which `debond_exactly_once`
    (Props/C15.lean) speaks.
  * `paid_exactly_once` — (2) the loop emits exactly one payout record per entry, in order; every
    account's general balance grows by exactly the payouts addressed to it as delegator, every
    debonding pool shrinks by exactly the payouts and shares redeemed from it; nothing else is
    touched (`loop_frame`); each payout is `⌊shares·B/TS⌋` at the price the escrow's debonding pool
    has in the store AT THAT ITERATION (`payout_at_current_price`); the sum of all balances is
    conserved (`loop_conserves`), for which the entries' addresses must be among the summed
    accounts (`scope_needed`).
  * `cached_escrow_loses_payout` — (3) the seeded variant `loopCached` (escrow accounts cached per
    call) destroys a payout on entries (D1→E), (E→V), (D3→E): the sum of balances decreases by what
    E was owed, while the event log claims E was paid.  `loop_on_witness` runs the real loop on the
    same input.
-/
set_option linter.unusedSimpArgs false
set_option linter.unusedVariables false

namespace OasisProofs.C15DebondLoop
open OasisModel OasisModel.Staking OasisModel.Staking.SharePool OasisModel.Staking.DebondLoop
open OasisProofs.DebondLoopH OasisProofs.StakingH

/-! ### (1) The load/save loop refines the functional fold -/

/-- One iteration: what the code does with loads, pointer mutation and saves is the functional
per-entry step of the ledger model, for every ledger, store, queue and entry — including the error
outcomes. -/
theorem body_refines_debondEntry (l : Ledger) (ep : Nat) (st : St) (e : DebEntry) :
    Ledger.debondEntry (st.toLedger l) e = (body l.params.reserved ep st e).map (St.toLedger l) := by
  rw [body_eq]
  unfold Ledger.debondEntry
  have h1 : ∀ a, (st.toLedger l).isReserved a = decide (a ∈ l.params.reserved) := by
    intro a; simp [Ledger.isReserved, St.toLedger]
  rw [h1, h1]
  by_cases hr : e.delegator ∈ l.params.reserved ∨ e.escrow ∈ l.params.reserved
  · rw [if_pos hr]
    have : (decide (e.delegator ∈ l.params.reserved) || decide (e.escrow ∈ l.params.reserved)) = true := by
      simpa using hr
    rw [if_pos this]; rfl
  · rw [if_neg hr]
    have : ¬ (decide (e.delegator ∈ l.params.reserved) || decide (e.escrow ∈ l.params.reserved)) = true := by
      simpa using hr
    rw [if_neg this]
    simp only [St.toLedger]
    cases hw : withdraw (st.accts e.escrow).debonding 0 e.shares e.shares with
    | error err => rfl
    | ok w =>
      by_cases hal : e.delegator = e.escrow
      · simp only [hal, if_true, Except.map, stepW, Ledger.setAcct, St.toLedger]
      · simp only [hal, if_false, Except.map, stepW, Ledger.setAcct, St.toLedger]

/-- **(1) Refinement.**  The store (and queue) after the load/save loop is the functional fold
`Ledger.debondAll` of the per-entry ledger step, for every ledger, every store and queue, every
entry list (self-delegations; accounts that are escrow of one entry and delegator of another;
reserved addresses; entries whose withdrawal fails), with equal error outcomes. -/
theorem loop_refines_fold (l : Ledger) (ep : Nat) (st : St) (es : List DebEntry) :
    Ledger.debondAll (st.toLedger l) es = (loop l.params.reserved ep st es).map (St.toLedger l) := by
  induction es generalizing st with
  | nil => rfl
  | cons e es ih =>
    simp only [Ledger.debondAll, loop]
    rw [body_refines_debondEntry l ep st e]
    cases hb : body l.params.reserved ep st e with
    | error err => rfl
    | ok st1 => exact ih st1

/-- The same, read from the ledger's side: running the code's loop on the ledger's own accounts and
queue (any payout log) gives `debondAll` of that ledger. -/
theorem loop_refines_fold_ledger (l : Ledger) (ep : Nat) (ps : List Payout) (es : List DebEntry) :
    Ledger.debondAll l es =
      (loop l.params.reserved ep { accts := l.acct, deb := l.deb, paid := ps } es).map (St.toLedger l) :=
  loop_refines_fold l ep { accts := l.acct, deb := l.deb, paid := ps } es

/-- The debonding part of `onEpochChange` (expired prefix of the queue, then the loop) as the code
performs it is the one of the ledger model; the signing rewards follow on the abstracted state. -/
theorem onEpochChange_refines (l : Ledger) (ep : Nat) (ps : List Payout) :
    Ledger.onEpochChange l ep =
      match DebondLoop.onEpochChange l.params.reserved { accts := l.acct, deb := l.deb, paid := ps } ep with
      | .error err => .error err
      | .ok st => Ledger.rewardEpochSigning (st.toLedger l) ep := by
  unfold Ledger.onEpochChange DebondLoop.onEpochChange
  rw [loop_refines_fold_ledger l ep ps]
  cases loop l.params.reserved ep { accts := l.acct, deb := l.deb, paid := ps }
      (DebSt.expired l.deb ep) with
  | error err => rfl
  | ok st => rfl

/-- A successful iteration is a successful `DebSt.processEntry` of the queue model of C15 on the
projected state (debonding pools, general balances, queue, payout log). -/
theorem body_refines_processEntry (rsv : List Nat) (ep : Nat) (st st1 : St) (e : DebEntry)
    (h : body rsv ep st e = .ok st1) :
    DebSt.processEntry ep st.toDebSt e = .ok st1.toDebSt := by
  obtain ⟨_, _, hs, hb, rfl⟩ := body_ok h
  have hw : withdraw (st.accts e.escrow).debonding 0 e.shares e.shares = .ok (wOf st e) := by
    unfold withdraw
    have hb' : stakeForShares (st.accts e.escrow).debonding e.shares ≤
        (st.accts e.escrow).debonding.balance := hb
    simp [Nat.not_lt.2 hs, Nat.not_lt.2 hb', wOf, payoutNow]
  unfold DebSt.processEntry
  simp only [St.toDebSt, hw]
  have hp : (fun a => ((stepW ep st e (wOf st e)).accts a).debonding) =
      upd (fun a => (st.accts a).debonding) e.escrow (wOf st e).pool := by
    funext a
    rw [stepW_debonding]
    by_cases ha : a = e.escrow
    · subst ha; simp [upd]
    · have : ¬ e.escrow = a := fun h => ha h.symm
      simp [upd, ha, this]
  have hg : (fun a => ((stepW ep st e (wOf st e)).accts a).general) =
      upd (fun a => (st.accts a).general) e.delegator
        ((st.accts e.delegator).general + (wOf st e).stakeDst) := by
    funext a
    rw [stepW_general]
    by_cases ha : a = e.delegator
    · subst ha; simp [upd]
    · have : ¬ e.delegator = a := fun h => ha h.symm
      simp [upd, ha, this]
  rw [hp, hg]
  rfl

/-- Every successful run of the code's loop is a successful `DebSt.processAll` of the queue model
(the model of `debond_exactly_once`, Props/C15.lean) with the projected result. -/
theorem loop_refines_debst (rsv : List Nat) (ep : Nat) (st st' : St) (es : List DebEntry)
    (h : loop rsv ep st es = .ok st') :
    DebSt.processAll ep st.toDebSt es = .ok st'.toDebSt := by
  induction es generalizing st with
  | nil => simp only [loop] at h; injection h with h; subst h; rfl
  | cons e es ih =>
    simp only [loop] at h
    cases hb : body rsv ep st e with
    | error err => rw [hb] at h; cases h
    | ok st1 =>
      rw [hb] at h
      simp only [DebSt.processAll, body_refines_processEntry rsv ep st st1 e hb]
      exact ih st1 h

/-! Non-vacuity of (1): a concrete ledger and entry list with a self-delegation (E→E) and an
account (E) that is escrow account of entries and delegator of others; both sides succeed and `E`
ends with 7 + 10 (own debonding) + 20 (from V); with `E` reserved both sides fail. -/

/-- Accounts `0 = D1`, `1 = E`, `2 = V`, `3 = D3`. -/
def xStore : Store := fun a =>
  match a with
  | 0 => { general := 1 }
  | 1 => { general := 7, debonding := { balance := 60, totalShares := 30 } }
  | 2 => { general := 5, debonding := { balance := 50, totalShares := 25 } }
  | 3 => { general := 3 }
  | _ => {}

/-- (D1→E) 10, (E→E) 5, (E→V) 10, (D3→E) 15 shares, in queue order. -/
def xEntries : List DebEntry :=
  [ { endEpoch := 9, delegator := 0, escrow := 1, shares := 10 },
    { endEpoch := 9, delegator := 1, escrow := 1, shares := 5 },
    { endEpoch := 9, delegator := 1, escrow := 2, shares := 10 },
    { endEpoch := 9, delegator := 3, escrow := 1, shares := 15 } ]

def xSt : St := { accts := xStore, deb := xEntries, paid := [] }

def xLedger (reserved : List Nat) : Ledger :=
  { n := 4, acct := xStore, del := fun _ _ => 0, deb := xEntries, common := 0, govDeposits := 0,
    lastBlockFees := 0, feeAcc := 0, totalSupply := 126, params := { reserved := reserved } }

example : ∃ st', loop (xLedger []).params.reserved 9 xSt xEntries = .ok st' ∧
    (st'.accts 1).general = 37 ∧ (st'.accts 1).debonding = { balance := 0, totalShares := 0 } ∧
    st'.deb = [] ∧ st'.paid.map (·.amount) = [20, 10, 20, 30] :=
  ⟨_, rfl, by decide, by decide, by decide, by decide⟩

example : ∃ l', Ledger.debondAll (xLedger []) xEntries = .ok l' ∧ (l'.acct 1).general = 37 ∧ l'.deb = [] :=
  ⟨_, rfl, by decide, by decide⟩

example : ∃ err, loop (xLedger [1]).params.reserved 9 xSt xEntries = .error err ∧
    Ledger.debondAll (xLedger [1]) xEntries = .error err := ⟨_, rfl, rfl⟩

/-! ### (2) Every entry is paid exactly once; the sum of balances is conserved -/

/-- **(2) Paid exactly once.**  A successful run of the loop over `es` appends exactly one payout
record per entry, in the order of the entries and stamped with the epoch; every account's general
balance is its old one plus exactly the payouts addressed to it as delegator (an entry is credited
once — not zero times, not twice —, also when the delegator is its own escrow account or the escrow
account of another entry); every debonding pool loses exactly the payouts and the shares redeemed
from it. -/
theorem paid_exactly_once (rsv : List Nat) (ep : Nat) (st st' : St) (es : List DebEntry)
    (h : loop rsv ep st es = .ok st') :
    ∃ ps : List Payout,
      st'.paid = st.paid ++ ps ∧ ps.map (·.entry) = es ∧ (∀ p ∈ ps, p.epoch = ep) ∧
      (∀ a, (st'.accts a).general = (st.accts a).general + paidTo ps a) ∧
      (∀ a, (st'.accts a).debonding.balance + paidFrom ps a = (st.accts a).debonding.balance) ∧
      (∀ a, (st'.accts a).debonding.totalShares + sharesFrom es a =
              (st.accts a).debonding.totalShares) := by
  induction es generalizing st with
  | nil =>
    simp only [loop] at h; injection h with h; subst h
    exact ⟨[], by simp, rfl, by simp, fun a => by simp [paidTo_nil], fun a => by simp [paidFrom_nil],
      fun a => by simp [sharesFrom_nil]⟩
  | cons e es ih =>
    simp only [loop] at h
    cases hb : body rsv ep st e with
    | error err => rw [hb] at h; cases h
    | ok st1 =>
      rw [hb] at h
      obtain ⟨ps, hp, hm, hep, hg, hd, hs⟩ := ih st1 h
      obtain ⟨_, _, hsh, hbal, rfl⟩ := body_ok hb
      refine ⟨{ entry := e, epoch := ep, amount := payoutNow st.accts e } :: ps, ?_, ?_, ?_, ?_, ?_, ?_⟩
      · rw [hp]; simp [stepW, wOf]
      · simp [hm]
      · intro p hpm
        rcases List.mem_cons.1 hpm with rfl | hpm
        · rfl
        · exact hep p hpm
      · intro a
        rw [hg a, stepW_general, paidTo_cons]
        simp only [wOf]; omega
      · intro a
        have := hd a
        rw [stepW_debonding] at this
        rw [paidFrom_cons]
        by_cases ha : e.escrow = a
        · subst ha
          simp only [if_true, wOf] at this ⊢
          omega
        · simp only [ha, if_false] at this ⊢
          omega
      · intro a
        have := hs a
        rw [stepW_debonding] at this
        rw [sharesFrom_cons]
        by_cases ha : e.escrow = a
        · subst ha
          simp only [if_true, wOf] at this ⊢
          omega
        · simp only [ha, if_false] at this ⊢
          omega

/-- The price of every payout: the record of the entry at any position of the list carries
`⌊shares · B / TS⌋` for the balance `B` and total shares `TS` that the escrow account's debonding
pool has in the store at the START OF THAT ITERATION (after all earlier entries were written
back) — the freshly loaded account, not a copy from an earlier iteration. -/
theorem payout_at_current_price (rsv : List Nat) (ep : Nat) (st st' : St)
    (es1 es2 : List DebEntry) (e : DebEntry)
    (h : loop rsv ep st (es1 ++ e :: es2) = .ok st') :
    ∃ st1, loop rsv ep st es1 = .ok st1 ∧
      st'.paid[st.paid.length + es1.length]? =
        some { entry := e, epoch := ep, amount := payoutNow st1.accts e } := by
  rw [loop_append] at h
  cases h1 : loop rsv ep st es1 with
  | error err => rw [h1] at h; cases h
  | ok st1 =>
    rw [h1] at h
    refine ⟨st1, rfl, ?_⟩
    simp only [loop] at h
    cases hb : body rsv ep st1 e with
    | error err => rw [hb] at h; cases h
    | ok st2 =>
      rw [hb] at h
      obtain ⟨ps1, hp1, hm1, _⟩ := paid_exactly_once rsv ep st st1 es1 h1
      obtain ⟨ps2, hp2, _⟩ := paid_exactly_once rsv ep st2 st' es2 h
      obtain ⟨_, _, _, _, rfl⟩ := body_ok hb
      have hl : ps1.length = es1.length := by rw [← hm1, List.length_map]
      rw [hp2]
      simp only [stepW, wOf, hp1]
      rw [← hl]
      simp

/-- Nothing but general balances and debonding pools is written, and an account that is neither
delegator nor escrow of any entry is left exactly as it was. -/
theorem loop_frame (rsv : List Nat) (ep : Nat) (st st' : St) (es : List DebEntry)
    (h : loop rsv ep st es = .ok st') (a : Nat) :
    (st'.accts a).nonce = (st.accts a).nonce ∧
    (st'.accts a).allowances = (st.accts a).allowances ∧
    (st'.accts a).active = (st.accts a).active ∧
    (st'.accts a).schedule = (st.accts a).schedule ∧
    ((∀ e ∈ es, e.delegator ≠ a ∧ e.escrow ≠ a) → st'.accts a = st.accts a) := by
  induction es generalizing st with
  | nil =>
    simp only [loop] at h; injection h with h; subst h
    exact ⟨rfl, rfl, rfl, rfl, fun _ => rfl⟩
  | cons e es ih =>
    simp only [loop] at h
    cases hb : body rsv ep st e with
    | error err => rw [hb] at h; cases h
    | ok st1 =>
      rw [hb] at h
      obtain ⟨i1, i2, i3, i4, i5⟩ := ih st1 h
      obtain ⟨_, _, _, _, rfl⟩ := body_ok hb
      obtain ⟨f1, f2, f3, f4⟩ := stepW_frame ep st e (wOf st e) a
      refine ⟨i1.trans f1, i2.trans f2, i3.trans f3, i4.trans f4, ?_⟩
      intro hall
      rw [i5 (fun x hx => hall x (List.mem_cons_of_mem _ hx))]
      exact stepW_untouched ep st e (wOf st e) a (hall e (List.mem_cons_self ..)).1
        (hall e (List.mem_cons_self ..)).2

/-- **(2) Conservation.**  When the entries' addresses are among the accounts `0 … n-1`, the loop
conserves the sum of all balances (general + active escrow + debonding escrow; the accounts' part
of the supply equation of C05) and the sum of general balances + debonding pools. -/
theorem loop_conserves (rsv : List Nat) (ep n : Nat) (st st' : St) (es : List DebEntry)
    (hscope : ∀ e ∈ es, e.delegator < n ∧ e.escrow < n)
    (h : loop rsv ep st es = .ok st') :
    balTotal n st'.accts = balTotal n st.accts ∧ heldTotal n st'.accts = heldTotal n st.accts := by
  induction es generalizing st with
  | nil => simp only [loop] at h; injection h with h; subst h; exact ⟨rfl, rfl⟩
  | cons e es ih =>
    simp only [loop] at h
    cases hb : body rsv ep st e with
    | error err => rw [hb] at h; cases h
    | ok st1 =>
      rw [hb] at h
      obtain ⟨i1, i2⟩ := ih st1 (fun x hx => hscope x (List.mem_cons_of_mem _ hx)) h
      obtain ⟨_, _, _, hbal, rfl⟩ := body_ok hb
      obtain ⟨hd, he⟩ := hscope e (List.mem_cons_self ..)
      exact ⟨i1.trans (stepW_sum Account.bal bal_hg n ep st e hd he hbal),
             i2.trans (stepW_sum held held_hg n ep st e hd he hbal)⟩

/-- In ledger terms: the accounts' total of the supply equation (`Ledger.accountsTotal`) is the
same before and after the code's loop. -/
theorem loop_conserves_accountsTotal (l : Ledger) (ep : Nat) (st st' : St) (es : List DebEntry)
    (hscope : ∀ e ∈ es, e.delegator < l.n ∧ e.escrow < l.n)
    (h : loop l.params.reserved ep st es = .ok st') :
    Ledger.accountsTotal (st'.toLedger l) = Ledger.accountsTotal (st.toLedger l) :=
  (loop_conserves l.params.reserved ep l.n st st' es hscope h).1

/-- The loop succeeds whenever no address is reserved and every pool holds the shares of the
entries that redeem from it (the share bookkeeping invariant of C05 provides this). -/
theorem loop_succeeds (rsv : List Nat) (ep : Nat) (st : St) (es : List DebEntry)
    (hr : ∀ e ∈ es, e.delegator ∉ rsv ∧ e.escrow ∉ rsv)
    (hs : ∀ a, sharesFrom es a ≤ (st.accts a).debonding.totalShares) :
    ∃ st', loop rsv ep st es = .ok st' := by
  induction es generalizing st with
  | nil => exact ⟨st, rfl⟩
  | cons e es ih =>
    have h0 := hs e.escrow
    rw [sharesFrom_cons] at h0
    simp only [if_true] at h0
    have hb := body_succeeds (ep := ep) (st := st) (hr e (List.mem_cons_self ..)).1
      (hr e (List.mem_cons_self ..)).2 (by omega)
    simp only [loop, hb]
    apply ih _ (fun x hx => hr x (List.mem_cons_of_mem _ hx))
    intro a
    have ha := hs a
    rw [sharesFrom_cons] at ha
    rw [stepW_debonding]
    by_cases hea : e.escrow = a
    · subst hea
      simp only [if_true, wOf] at ha ⊢
      omega
    · simp only [hea, if_false] at ha ⊢
      omega

/-! Non-vacuity of (2): the hypotheses hold on the concrete state above (self-delegation, `E`
escrow and delegator). -/

example : ∃ st', loop [] 9 xSt xEntries = .ok st' := ⟨_, rfl⟩

example : (∀ e ∈ xEntries, e.delegator < 4 ∧ e.escrow < 4) ∧ ∃ st', loop [] 9 xSt xEntries = .ok st' :=
  ⟨by decide, _, rfl⟩

example : (∀ e ∈ xEntries, e.delegator ∉ ([] : List Nat) ∧ e.escrow ∉ ([] : List Nat)) ∧
    (∀ a, sharesFrom xEntries a ≤ (xSt.accts a).debonding.totalShares) := by
  refine ⟨by decide, fun a => ?_⟩
  match a with
  | 0 => decide
  | 1 => decide
  | 2 => decide
  | 3 => decide
  | _ + 4 => exact Nat.le_of_eq rfl

/-- `payout_at_current_price` on the concrete state: the fourth entry (D3→E, 15 shares) is paid 30 =
⌊15·30/15⌋ at the price `E`'s pool has after the first two entries redeemed from it. -/
example : ∃ st', loop [] 9 xSt (xEntries.take 3 ++ xEntries[3] :: []) = .ok st' ∧
    st'.paid[3]? = some { entry := xEntries[3], epoch := 9, amount := 30 } := ⟨_, rfl, by decide⟩

/-- The scope hypothesis of `loop_conserves` is needed: summing over accounts `0 … 0` only, the
entry (D1→E) brings 20 base units in from outside the summed range. -/
theorem scope_needed :
    ∃ st', loop [] 9 xSt [{ endEpoch := 9, delegator := 0, escrow := 1, shares := 10 }] = .ok st' ∧
      balTotal 1 xSt.accts = 1 ∧ balTotal 1 st'.accts = 21 :=
  ⟨_, rfl, by decide, by decide⟩

/-! ### (3) The seeded variant with a per-call cache of escrow accounts

The cache is harmless exactly as long as no cached escrow account is written behind its back; the
loop writes an account behind the cache when it is the DELEGATOR of an entry. -/

/-- With a cache that agrees with the store on every cached address, holding only addresses of a set
`S` that contains every escrow address and no delegator address of the remaining entries, the mutated
loop computes what the code's loop computes. -/
theorem loopCachedFrom_eq_loop (rsv : List Nat) (ep : Nat) (S : Nat → Prop) (es : List DebEntry)
    (hS : ∀ e ∈ es, S e.escrow ∧ ¬ S e.delegator) (c : Cache) (st : St)
    (hc : ∀ a x, c a = some x → x = st.accts a ∧ a ∉ rsv ∧ S a) :
    loopCachedFrom rsv ep c st es = loop rsv ep st es := by
  induction es generalizing c st with
  | nil => rfl
  | cons e es ih =>
    obtain ⟨hSe, hSd⟩ := hS e (List.mem_cons_self ..)
    have hal : e.delegator ≠ e.escrow := fun h => hSd (h ▸ hSe)
    have hf := fetchCached_eq_load rsv c st.accts e.escrow (fun x hx => ⟨(hc _ x hx).1, (hc _ x hx).2.1⟩)
    simp only [loopCachedFrom, loop, bodyCached_eq rsv ep c st e hf]
    cases hb : body rsv ep st e with
    | error err => rfl
    | ok st1 =>
      simp only [if_neg hal]
      apply ih (fun x hx => hS x (List.mem_cons_of_mem _ hx))
      obtain ⟨_, her, _, _, rfl⟩ := body_ok hb
      intro a x hax
      by_cases ha : a = e.escrow
      · subst ha
        rw [upd_same] at hax
        injection hax with hax
        exact ⟨hax.symm, her, hSe⟩
      · rw [upd_other _ _ _ _ ha] at hax
        obtain ⟨h1, h2, h3⟩ := hc a x hax
        refine ⟨?_, h2, h3⟩
        rw [h1]
        exact (stepW_untouched ep st e (wOf st e) a (fun h => hSd (h ▸ h3)) (fun h => ha h.symm)).symm

/-- **The mutation is invisible without the aliasing pattern.**  If no account is escrow account of
one entry and delegator of an entry (in particular no self-delegation), the cached loop and the
code's loop agree — on every store, with equal errors.  `cached_escrow_loses_payout` shows that the
hypothesis cannot be dropped. -/
theorem loopCached_eq_loop_of_disjoint (rsv : List Nat) (ep : Nat) (st : St) (es : List DebEntry)
    (hdis : ∀ e1 ∈ es, ∀ e2 ∈ es, e1.escrow ≠ e2.delegator) :
    loopCached rsv ep st es = loop rsv ep st es := by
  unfold loopCached
  apply loopCachedFrom_eq_loop rsv ep (fun a => ∃ e ∈ es, e.escrow = a) es
  · intro e he
    exact ⟨⟨e, he, rfl⟩, fun ⟨e1, he1, h1⟩ => hdis e1 he1 e he h1⟩
  · intro a x h; cases h

/-- Non-vacuity: two delegators debonding from the same escrow account, which is nobody's
delegator — the cache is used (second entry) and nothing is lost. -/
example : (∀ e1 ∈ [xEntries[0], xEntries[3]], ∀ e2 ∈ [xEntries[0], xEntries[3]], e1.escrow ≠ e2.delegator) ∧
    ∃ st', loopCached [] 9 xSt [xEntries[0], xEntries[3]] = .ok st' ∧ balTotal 4 st'.accts = balTotal 4 xSt.accts :=
  ⟨by decide, _, rfl, by decide⟩


/-- Witness store: `0 = D1`, `1 = E`, `2 = V`, `3 = D3`.  `E` has a general balance of 7 and a
debonding pool of 60 base units for 30 shares (price 2); `V` a debonding pool of 50 for 25 shares. -/
def wStore : Store := fun a =>
  match a with
  | 0 => { general := 1 }
  | 1 => { general := 7, debonding := { balance := 60, totalShares := 30 } }
  | 2 => { general := 5, debonding := { balance := 50, totalShares := 25 } }
  | 3 => { general := 3 }
  | _ => {}

/-- Witness entries in queue order (epoch, delegator, escrow): (D1→E) 10 shares, (E→V) 10 shares,
(D3→E) 20 shares.  `E` is escrow account of the first and third entry and DELEGATOR of the second. -/
def wEntries : List DebEntry :=
  [ { endEpoch := 9, delegator := 0, escrow := 1, shares := 10 },
    { endEpoch := 9, delegator := 1, escrow := 2, shares := 10 },
    { endEpoch := 9, delegator := 3, escrow := 1, shares := 20 } ]

def wSt : St := { accts := wStore, deb := wEntries, paid := [] }

/-- **(3) Witness.**  The loop with a per-call cache of escrow account objects (`loopCached`: an
escrow account is loaded only the first time it is seen, delegators are loaded afresh) runs to the
end without an error on the entries (D1→E), (E→V), (D3→E) and emits the three payouts 20, 20, 40 —
among them 20 base units to `E` —, yet `E`'s general balance is what it was: the third iteration
writes back the copy of `E` cached in the first iteration and overwrites the credit of the second.
The sum of all balances drops from 126 to 106: `E`'s payout has left `V`'s debonding pool and
reached nobody. -/
theorem cached_escrow_loses_payout :
    ∃ st', loopCached [] 9 wSt wEntries = .ok st' ∧
      balTotal 4 wSt.accts = 126 ∧ balTotal 4 st'.accts = 106 ∧
      st'.paid.map (·.amount) = [20, 20, 40] ∧ paidTo st'.paid 1 = 20 ∧
      (st'.accts 1).general = (wSt.accts 1).general ∧
      (st'.accts 2).debonding.balance + 20 = (wSt.accts 2).debonding.balance :=
  ⟨_, rfl, by decide, by decide, by decide, by decide, by decide, by decide⟩

/-- The code's loop on the same input: same payout records, `E` is credited its 20 base units
(7 → 27), the sum of balances stays 126. -/
theorem loop_on_witness :
    ∃ st', loop [] 9 wSt wEntries = .ok st' ∧
      balTotal 4 st'.accts = 126 ∧
      st'.paid.map (·.amount) = [20, 20, 40] ∧ paidTo st'.paid 1 = 20 ∧
      (st'.accts 1).general = (wSt.accts 1).general + 20 :=
  ⟨_, rfl, by decide, by decide, by decide, by decide⟩

end OasisProofs.C15DebondLoop
