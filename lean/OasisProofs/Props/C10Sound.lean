import OasisModel.Handlers.FlowSem
/-
C10 — completeness of the fatal-path collection `errSites` (`OasisModel/Handlers/Flow.lean`) with
respect to the concrete path semantics of `Flow` (`OasisModel/Handlers/FlowSem.lean`).

In the semantics every ordinary error value carries the return site at which it ORIGINATED: the
site of an explicit error expression (`retErr`, `retMaybe`), or the first inlined `return` that
hands on the failure of an opaque call (`retErrVar` / `retLast` on an error of unknown origin);
propagation through further returns keeps the origin.  Headline: for every path of a root `f` from
the initial configuration that ends in the return of an ordinary error, the origin of that error
is in `errSites fuel f`, provided `fuel ≥ sizeOf f`.  (State-unavailable errors and panics are not
ordinary errors; sites whose error is always handled by the caller are listed too — the
collection is an over-approximation, classified by hand in the ledger of `Props/C10.lean`.)
-/
namespace OasisProofs.C10Sound
open OasisModel.Handlers

/-! ## list-set lemmas -/

theorem mem_insertNew {α} [DecidableEq α] (x y : α) (l : List α) :
    x ∈ insertNew y l ↔ x = y ∨ x ∈ l := by
  unfold insertNew
  by_cases h : l.contains y = true
  · simp only [h, if_true]
    constructor
    · exact Or.inr
    · rintro (rfl | h')
      · exact List.contains_iff_mem.mp h
      · exact h'
  · simp only [h]
    simp [or_comm]

theorem mem_union {α} [DecidableEq α] (x : α) (a b : List α) :
    x ∈ union a b ↔ x ∈ a ∨ x ∈ b := by
  unfold union
  induction b generalizing a with
  | nil => simp
  | cons y ys ih =>
    simp only [List.foldl_cons, ih, mem_insertNew, List.mem_cons]
    constructor
    · rintro ((rfl | h) | h)
      · exact Or.inr (Or.inl rfl)
      · exact Or.inl h
      · exact Or.inr (Or.inr h)
    · rintro (h | rfl | h)
      · exact Or.inl (Or.inr h)
      · exact Or.inl (Or.inl rfl)
      · exact Or.inr h

/-! ## unfolding `sitesAux` on `seq` and `alt` -/

def seqStep (n : Nat) (br : Src) (acc : List String × Src) (g : Flow) : List String × Src :=
  let r := sitesAux n g br acc.2
  (union acc.1 r.1, r.2)

theorem sites_seq (n : Nat) (l : List Flow) (br src : Src) :
    sitesAux (n + 1) (.seq l) br src = l.foldl (seqStep n br) ([], src) := rfl

theorem foldSeq_spec (n : Nat) (br : Src) (gs : List Flow) (acc : List String) (s : Src) :
    (gs.foldl (seqStep n br) (acc, s)).2 = (gs.foldl (seqStep n br) ([], s)).2 ∧
    ∀ x, x ∈ (gs.foldl (seqStep n br) (acc, s)).1 ↔ x ∈ acc ∨ x ∈ (gs.foldl (seqStep n br) ([], s)).1 := by
  induction gs generalizing acc s with
  | nil => simp
  | cons g gs ih =>
    simp only [List.foldl_cons, seqStep]
    obtain ⟨h1, h2⟩ := ih (union acc (sitesAux n g br s).1) (sitesAux n g br s).2
    obtain ⟨h3, h4⟩ := ih (union [] (sitesAux n g br s).1) (sitesAux n g br s).2
    refine ⟨h1.trans h3.symm, fun x => ?_⟩
    rw [h2, h4, mem_union, mem_union]
    simp [or_assoc]

theorem sites_seq_cons (n : Nat) (g : Flow) (gs : List Flow) (br src : Src) :
    (sitesAux (n + 1) (.seq (g :: gs)) br src).2 =
        (sitesAux (n + 1) (.seq gs) br (sitesAux n g br src).2).2 ∧
    ∀ x, x ∈ (sitesAux (n + 1) (.seq (g :: gs)) br src).1 ↔
      x ∈ (sitesAux n g br src).1 ∨ x ∈ (sitesAux (n + 1) (.seq gs) br (sitesAux n g br src).2).1 := by
  rw [sites_seq, sites_seq]
  simp only [List.foldl_cons, seqStep]
  obtain ⟨h1, h2⟩ := foldSeq_spec n br gs (union [] (sitesAux n g br src).1) (sitesAux n g br src).2
  refine ⟨h1, fun x => ?_⟩
  rw [h2, mem_union]
  simp

def altStep (n : Nat) (br src : Src) (acc : List String × Src) (g : Flow) : List String × Src :=
  let r := sitesAux n g br src
  (union acc.1 r.1, .ext)

theorem sites_alt (n : Nat) (l : List Flow) (br src : Src) :
    sitesAux (n + 1) (.alt l) br src = l.foldl (altStep n br src) ([], src) := rfl

theorem foldAlt_spec (n : Nat) (br src : Src) (l : List Flow) (acc : List String × Src) :
    (∀ x ∈ acc.1, x ∈ (l.foldl (altStep n br src) acc).1) ∧
    (∀ g ∈ l, ∀ x ∈ (sitesAux n g br src).1, x ∈ (l.foldl (altStep n br src) acc).1) ∧
    (l ≠ [] → (l.foldl (altStep n br src) acc).2 = .ext) := by
  induction l generalizing acc with
  | nil => exact ⟨fun x h => h, (fun g hg => by cases hg), fun h => absurd rfl h⟩
  | cons g gs ih =>
    simp only [List.foldl_cons]
    obtain ⟨h1, h2, h3⟩ := ih (altStep n br src acc g)
    refine ⟨fun x hx => h1 x ((mem_union _ _ _).2 (Or.inl hx)), ?_, fun _ => ?_⟩
    · intro g' hg' x hx
      rcases List.mem_cons.1 hg' with rfl | hg'
      · exact h1 x ((mem_union _ _ _).2 (Or.inr hx))
      · exact h2 g' hg' x hx
    · cases gs with
      | nil => rfl
      | cons g2 gs2 => exact h3 (by simp)

/-! ## what the walk knows about the concrete error values -/

/-- an error whose origin is known originated at a listed site -/
def Known (S : List String) : CErr → Prop
  | .ord (some q) => q ∈ S
  | _ => True

/-- kind of the most recent fallible call vs. the concrete error value it left -/
def LastOK (S : List String) : Src → CErr → Prop
  | .write, c => c = .none ∨ c = .unav
  | .call, c => c = .none ∨ c = .unav ∨ ∃ q ∈ S, c = .ord (some q)
  | .ext, c => Known S c
  | .none, c => Known S c

/-- kind of the call whose error selected the enclosing then-branch vs. the concrete tested error -/
def BrOK (S : List String) (br : Src) (c : CErr) : Prop :=
  (br = .none ∧ c = .none) ∨ (br ≠ .none ∧ c ≠ .none ∧ LastOK S br c)

theorem LastOK.known {S src c} (h : LastOK S src c) : Known S c := by
  cases src <;> simp only [LastOK] at h
  · exact h
  · rcases h with rfl | rfl | ⟨q, hq, rfl⟩ <;> simp [Known]
    exact hq
  · rcases h with rfl | rfl <;> simp [Known]
  · exact h

theorem LastOK.none (S : List String) (src : Src) : LastOK S src .none := by
  cases src <;> simp [LastOK, Known]

/-- The postcondition of one flow on one path. -/
def Post (S : List String) (endSrc : Src) (σ σ' : Cfg) : Out → Prop
  | .fall => LastOK S endSrc σ'.pend ∧ σ'.src = σ.src
  | .ret k _ => ∀ q, k = .err q → q ∈ S
  | .brk => Known S σ'.pend
  | _ => True

def Compl (f : Flow) (σ : Cfg) (o : Out) (σ' : Cfg) : Prop :=
  ∀ fuel br src S, f.depth ≤ fuel → BrOK S br σ.src → LastOK S src σ.pend →
    (∀ p ∈ (sitesAux fuel f br src).1, p ∈ S) → Post S (sitesAux fuel f br src).2 σ σ' o

theorem fuel_pos {f : Flow} {fuel : Nat} (h : f.depth ≤ fuel) : ∃ n, fuel = n + 1 := by
  have : 1 ≤ f.depth := by cases f <;> simp [Flow.depth]
  exact ⟨fuel - 1, by omega⟩

theorem depth_le_depthL {g : Flow} {l : List Flow} (h : g ∈ l) : g.depth ≤ Flow.depthL l := by
  induction l with
  | nil => cases h
  | cons x xs ih =>
    simp only [Flow.depthL]
    rcases List.mem_cons.1 h with rfl | h
    · omega
    · have := ih h; omega

/-- returning the error value `c` at `pos`: the origin is listed if `c`'s is, or `pos` is -/
theorem kindOfErr_listed {S : List String} {pos : String} {c : CErr}
    (hk : Known S c) (hp : c = .ord none → pos ∈ S) : ∀ q, kindOfErr pos c = .err q → q ∈ S := by
  intro q hq
  cases c with
  | none => simp [kindOfErr] at hq
  | unav => simp [kindOfErr] at hq
  | ord o =>
    cases o with
    | none =>
      simp only [kindOfErr, Option.getD_none, RetKind.err.injEq] at hq
      subst hq; exact hp rfl
    | some q' =>
      simp only [kindOfErr, Option.getD_some, RetKind.err.injEq] at hq
      subst hq; exact hk

set_option hygiene false in
macro "c_intro" : tactic =>
  `(tactic| (intro fuel br src S hsz hbr hls hS
             obtain ⟨n, rfl⟩ := fuel_pos hsz))

theorem complete {f σ tr o σ'} (h : Path f σ tr o σ') : Compl f σ o σ' := by
  induction h with
  | skip => c_intro; exact ⟨hls, rfl⟩
  | seqNil => c_intro; exact ⟨hls, rfl⟩
  | @seqCons g gs σ t1 σ1 t2 o σ2 _ _ ih1 ih2 =>
    c_intro
    have hs : (Flow.seq (g :: gs)).depth = max g.depth (Flow.depthL gs) + 1 := by simp [Flow.depth, Flow.depthL]
    have hs2 : (Flow.seq gs).depth = Flow.depthL gs + 1 := by simp [Flow.depth]
    obtain ⟨e1, e2⟩ := sites_seq_cons n g gs br src
    obtain ⟨p1, p2⟩ := ih1 n br src S (by omega) hbr hls (fun p hp => hS p ((e2 p).2 (Or.inl hp)))
    have := ih2 (n + 1) br (sitesAux n g br src).2 S (by omega) (by rw [p2]; exact hbr) p1
      (fun p hp => hS p ((e2 p).2 (Or.inr hp)))
    rw [e1]
    cases o with
    | fall => exact ⟨this.1, this.2.trans p2⟩
    | ret k c => exact this
    | brk => exact this
    | halt => trivial
  | @seqStop g gs σ t o σ' _ hne ih =>
    c_intro
    have hs : (Flow.seq (g :: gs)).depth = max g.depth (Flow.depthL gs) + 1 := by simp [Flow.depth, Flow.depthL]
    obtain ⟨e1, e2⟩ := sites_seq_cons n g gs br src
    have := ih n br src S (by omega) hbr hls (fun p hp => hS p ((e2 p).2 (Or.inl hp)))
    cases o with
    | fall => exact absurd rfl hne
    | ret k c => exact this
    | brk => exact this
    | halt => trivial
  | @alt l g σ t o σ' hmem _ ih =>
    c_intro
    have hs : (Flow.alt l).depth = Flow.depthL l + 1 := by simp [Flow.depth]
    have hlt := depth_le_depthL hmem
    rw [sites_alt] at hS ⊢
    obtain ⟨_, h2, h3⟩ := foldAlt_spec n br src l ([], src)
    have := ih n br src S (by omega) hbr hls (fun p hp => hS p (h2 g hmem p hp))
    rw [h3 (List.ne_nil_of_mem hmem)]
    cases o with
    | fall => exact ⟨this.1.known, this.2⟩
    | ret k c => exact this
    | brk => exact this
    | halt => trivial
  | loopDone => c_intro; exact ⟨hls.known, rfl⟩
  | @loopIter b σ t1 σ1 t2 o σ2 _ _ ih1 ih2 =>
    c_intro
    have hs : (Flow.loop b).depth = b.depth + 1 := by simp [Flow.depth]
    simp only [sitesAux] at hS ⊢
    obtain ⟨p1, p2⟩ := ih1 n br src S (by omega) hbr hls (fun p hp => hS p ((mem_union _ _ _).2 (Or.inl hp)))
    have := ih2 (n + 1) br .ext S (by omega) (by rw [p2]; exact hbr) p1.known (by
      intro p hp
      simp only [sitesAux] at hp
      rcases (mem_union _ _ _).1 hp with hp | hp <;> exact hS p ((mem_union _ _ _).2 (Or.inr hp)))
    simp only [sitesAux] at this
    cases o with
    | fall => exact ⟨this.1, this.2.trans p2⟩
    | ret k c => exact this
    | brk => exact this
    | halt => trivial
  | @loopBrk b σ t1 σ1 t2 o σ2 _ _ ih1 ih2 =>
    c_intro
    have hs : (Flow.loop b).depth = b.depth + 1 := by simp [Flow.depth]
    simp only [sitesAux] at hS ⊢
    have p1 := ih1 n br src S (by omega) hbr hls (fun p hp => hS p ((mem_union _ _ _).2 (Or.inl hp)))
    have := ih2 (n + 1) br .ext S (by omega) hbr p1 (by
      intro p hp
      simp only [sitesAux] at hp
      rcases (mem_union _ _ _).1 hp with hp | hp <;> exact hS p ((mem_union _ _ _).2 (Or.inr hp)))
    simp only [sitesAux] at this
    cases o with
    | fall => exact this
    | ret k c => exact this
    | brk => exact this
    | halt => trivial
  | @loopExit b σ t o σ' _ hne ih =>
    c_intro
    have hs : (Flow.loop b).depth = b.depth + 1 := by simp [Flow.depth]
    simp only [sitesAux] at hS ⊢
    have := ih n br src S (by omega) hbr hls (fun p hp => hS p ((mem_union _ _ _).2 (Or.inl hp)))
    cases o with
    | fall => exact absurd rfl hne
    | ret k c => exact this
    | brk => exact this
    | halt => trivial
  | extOk => c_intro; exact ⟨by simp [sitesAux, LastOK, Known], rfl⟩
  | extFail => c_intro; exact ⟨by simp [sitesAux, LastOK, Known], rfl⟩
  | extUOk => c_intro; exact ⟨by simp [sitesAux, LastOK], rfl⟩
  | extUFail => c_intro; exact ⟨by simp [sitesAux, LastOK], rfl⟩
  | writeOk => c_intro; exact ⟨by simp [sitesAux, LastOK], rfl⟩
  | writeFail => c_intro; exact ⟨by simp [sitesAux, LastOK], rfl⟩
  | writeFail0 => c_intro; exact ⟨by simp [sitesAux, LastOK], rfl⟩
  | mk => c_intro; exact ⟨hls, rfl⟩
  | beginTx => c_intro; exact ⟨hls, rfl⟩
  | commitDo => c_intro; exact ⟨hls, rfl⟩
  | commitNo => c_intro; exact ⟨hls, rfl⟩
  | @publish σ c ws e he =>
    c_intro
    refine ⟨?_, rfl⟩
    simp only [sitesAux, LastOK]
    cases e with
    | none => trivial
    | unav => trivial
    | ord o => cases o with
      | none => trivial
      | some q => exact absurd he (by simp [CErr.fresh])
  | clearErr => c_intro; exact ⟨hls, rfl⟩
  | retOk => c_intro; intro q hq; cases hq
  | retErrU => c_intro; intro q hq; cases hq
  | halt => c_intro; trivial
  | closureRet => c_intro; exact hls.known
  | @callRet nm body σ t o σ1 _ hne ih =>
    c_intro
    have hs : (Flow.call nm body).depth = body.depth + 1 := by simp [Flow.depth]
    simp only [sitesAux] at hS ⊢
    have := ih n .none .none S (by omega) (Or.inl ⟨rfl, rfl⟩) (LastOK.none S .none) hS
    refine ⟨?_, rfl⟩
    simp only [LastOK, afterCall]
    cases o with
    | fall => exact Or.inl rfl
    | brk => exact Or.inl rfl
    | halt => exact absurd rfl hne
    | ret k c =>
      cases k with
      | ok => exact Or.inl rfl
      | errU => exact Or.inr (Or.inl rfl)
      | err q => exact Or.inr (Or.inr ⟨q, this q rfl, rfl⟩)
  | callHalt => c_intro; trivial
  | @ifThen tb eb σ tr o σ' hpend _ ih =>
    c_intro
    have hs : (Flow.ifErr tb eb).depth = max tb.depth eb.depth + 1 := by simp [Flow.depth]
    simp only [sitesAux] at hS ⊢
    have hbr' : BrOK S (if src = .none then .ext else src) σ.pend := by
      refine Or.inr ⟨by split <;> simp_all, hpend, ?_⟩
      split
      · exact hls.known
      · exact hls
    have := ih n _ src S (by omega) hbr' (LastOK.none S src)
      (fun p hp => hS p ((mem_union _ _ _).2 (Or.inl hp)))
    cases o with
    | fall => exact ⟨this.1.known, rfl⟩
    | ret k c => exact this
    | brk => exact this
    | halt => trivial
  | @ifElse tb eb σ tr o σ' hpend _ ih =>
    c_intro
    have hs : (Flow.ifErr tb eb).depth = max tb.depth eb.depth + 1 := by simp [Flow.depth]
    simp only [sitesAux] at hS ⊢
    have := ih n .none .none S (by omega) (Or.inl ⟨rfl, rfl⟩) (LastOK.none S .none)
      (fun p hp => hS p ((mem_union _ _ _).2 (Or.inr hp)))
    cases o with
    | fall => exact ⟨this.1.known, rfl⟩
    | ret k c => exact this
    | brk => exact this
    | halt => trivial
  | @retErr σ pos =>
    c_intro
    intro q hq
    simp only [sitesAux] at hS
    unfold kindNew at hq
    by_cases hu : σ.src = .unav
    · simp [hu] at hq
    · simp only [hu, if_false, RetKind.err.injEq] at hq
      subst hq
      apply hS
      have : ¬ (src = .write ∧ br = .write) := by
        rintro ⟨_, rfl⟩
        rcases hbr with ⟨h, _⟩ | ⟨_, h1, h2⟩
        · cases h
        · simp only [LastOK] at h2
          rcases h2 with h2 | h2
          · exact h1 h2
          · exact hu h2
      simp [this]
  | @retLast σ pos =>
    c_intro
    simp only [sitesAux] at hS
    refine kindOfErr_listed hls.known (fun hc => hS pos ?_)
    have : ¬ (src = .write ∨ src = .call) := by
      rintro (rfl | rfl) <;> simp [LastOK, hc] at hls
    simp [this]
  | @retErrVar σ pos =>
    c_intro
    simp only [sitesAux] at hS
    unfold kindVar
    rcases hbr with ⟨hb, hsrc⟩ | ⟨hb, hsrc, hl⟩
    · rw [hsrc]
      refine kindOfErr_listed hls.known (fun hc => hS pos ?_)
      have : ¬ ((src = .write ∨ src = .call) ∧ br ≠ .ext) := by
        rintro ⟨rfl | rfl, _⟩ <;> simp [LastOK, hc] at hls
      simp [this]
    · have hk : ∀ q, kindOfErr pos σ.src = .err q → q ∈ S := by
        refine kindOfErr_listed hl.known (fun hc => hS pos ?_)
        have : ¬ ((src = .write ∨ src = .call) ∧ br ≠ .ext) := by
          rintro ⟨_, hne⟩
          cases br <;> simp_all [LastOK]
        simp [this]
      cases hc : σ.src with
      | none => exact absurd hc hsrc
      | ord o => rw [hc] at hk; exact hk
      | unav => rw [hc] at hk; exact hk
  | @retMaybe σ pos k hk =>
    c_intro
    simp only [sitesAux] at hS
    have hpos : pos ∈ S := hS pos (by simp)
    intro q hq
    rcases hk with rfl | rfl | rfl | rfl
    · cases hq
    · cases hq
    · cases hq; exact hpos
    · exact kindOfErr_listed hls.known (fun _ => hpos) q hq

/-! ## headline -/

/-- **Completeness of `errSites`.**  Every ordinary (not state-unavailable) error that a path of
`f` from the initial configuration can RETURN originates — explicit error expression, or first
inlined `return` handing on the failure of an opaque call — at a site that `errSites fuel f`
lists, provided the fuel covers the nesting depth of `f`. -/
theorem errSites_complete (fuel : Nat) (f : Flow) (hf : f.depth ≤ fuel)
    (tr : List Act) (q : String) (chain : List String) (σ' : Cfg)
    (hp : Path f initCfg tr (.ret (.err q) chain) σ') : q ∈ errSites fuel f :=
  complete hp fuel .none .none (errSites fuel f) hf (Or.inl ⟨rfl, rfl⟩) (LastOK.none _ _)
    (fun _ h => h) q rfl

/-- The same for the error an inlined callee hands to its caller and the caller then tests:
whatever ordinary error is PENDING when a path falls through `f`, its origin (if it has passed a
`return` at all) is listed. -/
theorem errSites_complete_pending (fuel : Nat) (f : Flow) (hf : f.depth ≤ fuel)
    (tr : List Act) (q : String) (σ' : Cfg)
    (hp : Path f initCfg tr .fall σ') (hq : σ'.pend = .ord (some q)) : q ∈ errSites fuel f := by
  have := (complete hp fuel .none .none (errSites fuel f) hf (Or.inl ⟨rfl, rfl⟩) (LastOK.none _ _)
    (fun _ h => h)).1.known
  rw [hq] at this
  exact this

/-! ### non-vacuity, and the paths the old collection missed -/

-- an opaque call fails, the error is handed on: the site is listed, and there is such a path
example : errSites 10 (.seq [.ext, .ifErr (.retErrVar "p") .skip, .retOk]) = ["p"] := by decide
example : Path (.seq [.ext, .ifErr (.retErrVar "p") .skip, .retOk]) initCfg [] (.ret (.err "p") ["p"]) 
    { initCfg with src := .ord none } :=
  .seqCons .extFail (.seqStop (.ifThen (by simp) .retErrVar) (by simp))
-- the failure of a state write is not an ordinary error: not listed, and no such path exists
example : errSites 10 (.seq [.write 1 "Set", .ifErr (.retErrVar "w") .skip, .retOk]) = [] := by decide
/-- (1) an explicit error after an UNCHECKED state write (old: skipped, "most recent call is a write") -/
example : errSites 10 (.seq [.write 1 "Set", .retErr "p"]) = ["p"] := by decide
example : Path (.seq [.write 1 "Set", .retErr "p"]) initCfg [.wr 0 0 none] (.ret (.err "p") ["p"])
    { initCfg with pend := .none } :=
  .seqCons (.writeOk 0 none) (.seqStop .retErr (by simp))
/-- (2) `if err != nil { cleanup(); return err }` after an opaque call, `cleanup` inlined (old:
skipped, "most recent call is an inlined callee") -/
example : errSites 10 (.seq [.ext, .ifErr (.seq [.call "cleanup" .retOk, .retErrVar "p"]) .skip]) = ["p"] := by
  decide
example : ∃ tr chain σ', Path (.seq [.ext, .ifErr (.seq [.call "cleanup" .retOk, .retErrVar "p"]) .skip])
    initCfg tr (.ret (.err "p") chain) σ' :=
  ⟨_, _, _, .seqCons .extFail (.seqStop (.ifThen (by simp)
    (.seqCons (.callRet .retOk (by simp)) (.seqStop .retErrVar (by simp)))) (by simp))⟩
/-- (3) a loop whose body tests the error of the PREVIOUS iteration's call (old: body walked once,
with the call kind at loop entry) -/
example : errSites 10 (.seq [.write 1 "Set", .loop (.seq [.ifErr (.retErrVar "p") .skip, .ext])]) = ["p"] := by
  decide
example : ∃ tr chain σ', Path (.seq [.write 1 "Set", .loop (.seq [.ifErr (.retErrVar "p") .skip, .ext])])
    initCfg tr (.ret (.err "p") chain) σ' :=
  ⟨_, _, _, .seqCons (.writeOk 0 none) (.seqStop
    (.loopIter (.seqCons (.ifElse rfl .skip) (.seqCons .extFail .seqNil))
      (.loopExit (.seqStop (.ifThen (by simp) .retErrVar) (by simp)) (by simp))) (by simp))⟩

end OasisProofs.C10Sound
