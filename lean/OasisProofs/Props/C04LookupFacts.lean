/-
Regenerated tie of the positioned-lookup model (`OasisModel/Mkvs/ProofPosition.lean`, theorems in
`C04Position.lean`) to `go/storage/mkvs/lookup.go` and `syncer/proof.go`: `doGet` passes EVERY node it
visits to `ProofBuilder.Include` (from the root down, whatever position was requested), `Include` records
the node by hash, and `Build` anchors the proof at the requested subtree root iff that node was included,
otherwise at the tree root.

`tools/gen stmtfacts lookup` flattens the functions into one line per simple statement on every run; the
lists are pinned here (`rfl`). A change of a statement, a condition or of the order of statements breaks the
pin until the new text has been read against the model.
-/
import Generated.StmtFactsLookup

namespace OasisProofs.C04LookupFacts

/-- Position of the first line equal to `s`. -/
def pos (l : List String) (s : String) : Option Nat :=
  let i := l.findIdx (· == s)
  if i < l.length then some i else none

/-- The lines occur in this order (strictly increasing positions). -/
def inOrder (l : List String) : List String → Option Nat → Bool
  | [], _ => true
  | s :: rest, prev =>
    match pos l s, prev with
    | none, _ => false
    | some i, none => inOrder l rest (some i)
    | some i, some p => decide (p < i) && inOrder l rest (some i)

def expected_doGetStmts : List String := [
  "if ctx.Err() != nil {",
  "return nil, ctx.Err()",
  "}",
  "nd, err := t.cache.derefNodePtr(ctx, ptr, t.newFetcherSyncGet(key, opts.includeSiblings))",
  "if err != nil {",
  "return nil, err",
  "}",
  "if pb := opts.proofBuilder; pb != nil && ptr != nil {",
  "pb.Include(nd)",
  "}",
  "if stop {",
  "return nil, nil",
  "}",
  "switch n := nd.(type) {",
  "case nil:",
  "return nil, nil",
  "case *node.InternalNode:",
  "bitLength := bitDepth + n.LabelBitLength",
  "if key.BitLength() == bitLength {",
  "if opts.includeSiblings {",
  "_, err = t.doGet(ctx, n.Left, bitLength, key, opts, true)",
  "if err != nil {",
  "return nil, err",
  "}",
  "_, err = t.doGet(ctx, n.Right, bitLength, key, opts, true)",
  "if err != nil {",
  "return nil, err",
  "}",
  "}",
  "if pb := opts.proofBuilder; pb != nil && pb.Version() == 0 {",
  "opts.proofBuilder = nil",
  "}",
  "return t.doGet(ctx, n.LeafNode, bitLength, key, opts, false)",
  "}",
  "if key.BitLength() < bitLength {",
  "return nil, nil",
  "}",
  "fn := func(visit, other, leaf *node.Pointer) ([]byte, error) { value, err := t.doGet(ctx, visit, bitLength, key, opts, false) if err != nil { return nil, err } if opts.includeSiblings { if pb := opts.proofBuilder; pb != nil && pb.Version() > 0 { _, err = t.doGet(ctx, leaf, bitLength, key, opts, true) if err != nil { return nil, err } } _, err = t.doGet(ctx, other, bitLength, key, opts, true) if err != nil { return nil, err } } return value, nil }",
  "switch key.GetBit(bitLength) {",
  "case true:",
  "return fn(n.Right, n.Left, n.LeafNode)",
  "default:",
  "return fn(n.Left, n.Right, n.LeafNode)",
  "}",
  "case *node.LeafNode:",
  "if n.Key.Equal(key) {",
  "return n.Value, nil",
  "}",
  "default:",
  "panic(fmt.Sprintf(\"mkvs: unknown node type: %+v\", n))",
  "}",
  "return nil, nil"]

theorem doGetStmts_as_modelled : Generated.StmtFacts.Lookup.doGetStmts = expected_doGetStmts := rfl

def expected_proofBuildStmts : List String := [
  "proof := Proof{ V: b.proofVersion, }",
  "switch b.HasSubtreeRoot() {",
  "case true:",
  "proof.UntrustedRoot = b.subtree",
  "case false:",
  "proof.UntrustedRoot = b.root",
  "}",
  "if err := b.build(ctx, &proof, proof.UntrustedRoot); err != nil {",
  "return nil, err",
  "}",
  "return &proof, nil"]

theorem proofBuildStmts_as_modelled : Generated.StmtFacts.Lookup.proofBuildStmts = expected_proofBuildStmts := rfl

def expected_proofIncludeStmts : List String := [
  "if n == nil {",
  "return",
  "}",
  "if !n.IsClean() {",
  "panic(\"proof: attempted to add a dirty node\")",
  "}",
  "nh := n.GetHash()",
  "if _, ok := b.included[nh]; ok {",
  "return",
  "}",
  "var err error",
  "var pn proofNode",
  "switch b.proofVersion {",
  "case 0:",
  "pn.serialized, err = n.CompactMarshalBinaryV0()",
  "case 1:",
  "pn.serialized, err = n.CompactMarshalBinaryV1()",
  "default:",
  "panic(\"proof: unexpected proof version\")",
  "}",
  "if err != nil {",
  "panic(err)",
  "}",
  "if nd, ok := n.(*node.InternalNode); ok {",
  "var children []*node.Pointer",
  "switch b.proofVersion {",
  "case 0:",
  "children = []*node.Pointer{ nd.Left, nd.Right, }",
  "case 1:",
  "children = []*node.Pointer{ nd.LeafNode, nd.Left, nd.Right, }",
  "default:",
  "panic(\"proof: unexpected proof version\")",
  "}",
  "for _, child := range children {",
  "var childHash hash.Hash",
  "if child == nil {",
  "childHash.Empty()",
  "}",
  "else {",
  "childHash = child.Hash",
  "}",
  "pn.children = append(pn.children, childHash)",
  "}",
  "}",
  "b.included[nh] = &pn",
  "b.size += 1 + uint64(len(pn.serialized))"]

theorem proofIncludeStmts_as_modelled : Generated.StmtFacts.Lookup.proofIncludeStmts = expected_proofIncludeStmts := rfl

end OasisProofs.C04LookupFacts
