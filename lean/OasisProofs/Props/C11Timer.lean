import OasisModel.Roothash.Timer
import OasisProofs.Helpers.RoothashTimer
import OasisProofs.Props.C11
/-
C11, timeout clause — "once the round timer has expired it never just keeps waiting", at the level of the
roothash application's timer bookkeeping (`OasisModel.Roothash.Timer`: `rearmRoundTimeout`,
`executorCommit`, `tryFinalizeRound`, `processRoundTimeouts`, `EndBlock`, the epoch transition of
`onRuntimeCommitteeChanged`), around an abstract commitment pool.

`Props/C11.lean` proves that a processing call with `timeout = true` never answers `StillWaiting`
(`timeout_decides`). Here: the application really makes that call for every runtime whose timer is due.

Quantification: every pool oracle `O` (only `TimeoutDecides O`, i.e. `C11.timeout_decides`, is assumed, and
only where stated), every number of runtimes, every history of blocks built from runtime registrations,
epoch transitions (suspending or not, changing the round timeout) and accepted executor-commit transactions
(with and without a change of the highest rank) in any order, every order of the queue.

Hypotheses (each shown necessary by a witness below):
  * blocks are executed at consecutive heights (`Reachable`); round timers are looked up by their exact
    height (state.go:91), so a skipped height loses its timers — `gap_loses_timer`;
  * `RtOk H rt`: the round timeout is not negative (the registry demands > 0) and neither
    `h + RoundTimeout` nor `h + RoundTimeout*15/10` overflows int64 for heights up to `H`
    — `overflow_loses_timer`, `negative_round_timeout_loses_timer`;
  * `TimeoutDecides O` — `undecided_pool_loses_timer`.
The conclusions are about blocks whose `EndBlock` returns without error (`… = some …`): an error from
`tryFinalizeRound` halts the node.
-/
namespace OasisProofs.C11Timer
open OasisModel.Roothash OasisModel.Roothash.Timer OasisProofs.Roothash.Timer

variable {π : Type}

/-! ### (1) the queue matches the runtime states -/

/-- `QueueMatches` spelled out: a runtime is in the queue at height `t` iff it has a state whose
`NextTimeout` is `t`, and `t` is not `TimeoutNever`. -/
theorem queue_matches_iff (s : State π) :
    QueueMatches s ↔
      ∀ (t : Int) (id : Nat), (t, id) ∈ s.queue ↔ ∃ r, s.rts id = some r ∧ r.nextTimeout = t ∧ t ≠ 0 := by
  constructor
  · intro h t id
    rw [h t id]
    cases hr : s.rts id with
    | none => simp [State.timerOf, hr, timeoutNever]; intro e; exact e.symm
    | some r => simp [State.timerOf, hr, timeoutNever]
  · intro h t id
    rw [h t id]
    cases hr : s.rts id with
    | none => simp [State.timerOf, hr, timeoutNever]; intro e; exact e.symm
    | some r => simp [State.timerOf, hr, timeoutNever]

theorem queue_matches_empty : QueueMatches (State.empty : State π) := empty_queueMatches

/-- `rearmRoundTimeout(prev := rtState.NextTimeout, next)` followed by storing `NextTimeout = next`
(the pattern of all three call sites) keeps the queue matching, whatever the two values are. -/
theorem queue_matches_rearm {s : State π} (hq : QueueMatches s) (id : Nat) (r : Runtime π)
    (hr : s.rts id = some r) (next : Int) :
    QueueMatches { s with rts := setRt s.rts id { r with nextTimeout := next },
                          queue := rearm s.queue id r.nextTimeout next } := by
  apply queueMatches_set hq
  · exact rearm_own next (by rw [← timerOf_of_some hr]; exact fun t => hq t id)
  · exact rearm_others _ _ _ _

/-- Every step between two `EndBlock`s (new runtime, epoch transition, executor commit). -/
theorem queue_matches_step {h : Int} {s s' : State π} {st : Step π} (hc : step h s st = some s')
    (hq : QueueMatches s) : QueueMatches s' := step_queueMatches hc hq

/-- `tryFinalizeRound`, with or without timeout, whatever the pool answers. -/
theorem queue_matches_tryFinalizeRound {O : PoolOracle π} {h : Int} {timeout : Bool} {s s' : State π}
    {id : Nat} {ev : Ev} (hc : tryFinalizeRound O h timeout s id = some (s', ev))
    (hq : QueueMatches s) : QueueMatches s' := tryFinalizeRound_queueMatches hc hq

theorem queue_matches_tryFinalizeRounds {O : PoolOracle π} {h : Int} {s s' : State π} {evs : List Ev}
    (hc : tryFinalizeRounds O h s = some (s', evs)) (hq : QueueMatches s) : QueueMatches s' :=
  finalizeAll_queueMatches hc hq

theorem queue_matches_processRoundTimeouts {O : PoolOracle π} {h : Int} {s s' : State π} {evs : List Ev}
    (hc : processRoundTimeouts O h s = some (s', evs)) (hq : QueueMatches s) : QueueMatches s' :=
  finalizeAll_queueMatches hc hq

theorem queue_matches_endBlock {O : PoolOracle π} {h : Int} {s s' : State π} {evs : List Ev}
    (hc : endBlock O h s = some (s', evs)) (hq : QueueMatches s) : QueueMatches s' :=
  endBlock_queueMatches hc hq

/-- (1) In every reachable state the round-timeout queue holds exactly the armed timers — no
assumption on the pool, on the round timeouts or on overflow. -/
theorem queue_matches_state {O : PoolOracle π} {H h : Int} {s : State π} (hr : Reachable O H h s) :
    QueueMatches s := by
  induction hr with
  | init h0 _ => exact empty_queueMatches
  | block b _ _ _ _ hc ih => exact execBlock_queueMatches hc ih

/-- Non-vacuity of (1): a reachable state with an armed timer (runtime 0 at height 3) and exactly that
entry in the queue. -/
example :
    Reachable toyO 10 2 (after (execBlock toyO (blockStraggler 2) (after (execBlock toyO (blockCommit 1 1) State.empty)))) ∧
    (after (execBlock toyO (blockStraggler 2) (after (execBlock toyO (blockCommit 1 1) State.empty)))).queue = [(3, 0)] ∧
    (after (execBlock toyO (blockStraggler 2) (after (execBlock toyO (blockCommit 1 1) State.empty)))).timerOf 0 = 3 :=
  ⟨reachable_two (h := 0) (by decide) (blockCommit 1 1) (blockStraggler 2) rfl rfl (by decide)
     (blockCommit_ok 10 1 1 rtOk_10_1) (blockStraggler_ok 10 2) (by decide) (by decide),
   by decide, by decide⟩

/-- What happens to suspended runtimes: `finalizeBlock(Suspended)` clears the timer before the runtime
is marked suspended, and `getRuntimeState` rejects commitments for it, so a suspended runtime never has
a timer (otherwise `processRoundTimeouts` would fail `EndBlock` with `ErrRuntimeSuspended`). -/
theorem suspended_has_no_timer {O : PoolOracle π} {H h : Int} {s : State π} (hr : Reachable O H h s)
    (id : Nat) (r : Runtime π) (hs : s.rts id = some r) (hsus : r.suspended = true) :
    r.nextTimeout = timeoutNever :=
  reachable_suspendedClear hr id r hs hsus

/-- Non-vacuity: runtime 0 is suspended by the epoch transition at height 2 while its timer (armed for 2)
is pending; the timer and the queue entry are gone. -/
example :
    Reachable toyO 10 2 (after (execBlock toyO ⟨2, [.committeeChanged 0 true false false 1]⟩
      (after (execBlock toyO (blockCommit 1 1) State.empty)))) ∧
    ((after (execBlock toyO ⟨2, [.committeeChanged 0 true false false 1]⟩
      (after (execBlock toyO (blockCommit 1 1) State.empty)))).rts 0).map
        (fun r => (r.suspended, r.nextTimeout)) = some (true, 0) ∧
    (after (execBlock toyO ⟨2, [.committeeChanged 0 true false false 1]⟩
      (after (execBlock toyO (blockCommit 1 1) State.empty)))).queue = [] :=
  ⟨reachable_two (h := 0) (by decide) (blockCommit 1 1) ⟨2, [.committeeChanged 0 true false false 1]⟩ rfl rfl
     (by decide) (blockCommit_ok 10 1 1 rtOk_10_1)
     (by
       intro st hm r hr
       simp only [List.mem_cons, List.not_mem_nil, or_false] at hm
       subst hm
       simp [Step.roundTimeout?] at hr
       subst hr
       exact rtOk_10_1)
     (by decide) (by decide),
   by decide, by decide⟩

/-! ### (2) no timer is left expired -/

/-- (2) After the `EndBlock` of height `h` every runtime (suspended or not) has its round timer cleared
or strictly in the future. -/
theorem timer_never_left_expired {O : PoolOracle π} (hO : TimeoutDecides O) {H h : Int} {s : State π}
    (hr : Reachable O H h s) (id : Nat) (r : Runtime π) (hs : s.rts id = some r) :
    r.nextTimeout = timeoutNever ∨ h < r.nextTimeout := by
  have := (reachable_inv hO hr).2.2.2 id
  unfold Done at this
  rwa [timerOf_of_some hs] at this

/-- The same for one `EndBlock`: from a state in which the `EndBlock` of height `h` starts. -/
theorem endBlock_clears_expired {O : PoolOracle π} (hO : TimeoutDecides O) {H h : Int} {s1 s' : State π}
    {evs : List Ev} (ha : AtEndBlock O H h s1) (hc : endBlock O h s1 = some (s', evs)) (id : Nat)
    (r : Runtime π) (hs : s'.rts id = some r) : r.nextTimeout = timeoutNever ∨ h < r.nextTimeout := by
  obtain ⟨h0, hH, hl⟩ := atEndBlock_inv hO ha
  have := (endBlock_effect hO h0 hH hl hc).2.1 id
  unfold Done at this
  rwa [timerOf_of_some hs] at this

/-- Non-vacuity: the scheduler of runtime 0 (round timeout 1) commits at height 1, a straggler at height 2
when the timer fires; the state after `EndBlock(2)` is reachable, the runtime is not suspended and its timer
was re-armed to 3 (= 2 + 15/10) for the backup workers. -/
example :
    TimeoutDecides toyO ∧
    Reachable toyO 10 2 (after (execBlock toyO (blockStraggler 2) (after (execBlock toyO (blockCommit 1 1) State.empty)))) ∧
    ((after (execBlock toyO (blockStraggler 2) (after (execBlock toyO (blockCommit 1 1) State.empty)))).rts 0).map
      (fun r => (r.suspended, r.nextTimeout)) = some (false, 3) :=
  ⟨toyO_timeoutDecides,
   reachable_two (h := 0) (by decide) (blockCommit 1 1) (blockStraggler 2) rfl rfl (by decide)
     (blockCommit_ok 10 1 1 rtOk_10_1) (blockStraggler_ok 10 2) (by decide) (by decide),
   by decide⟩

/-- The seeded change C11-r4m1 (`processRoundTimeouts` skips runtimes registered for finalization in the
same block): the same two blocks reach a state after `EndBlock(2)` in which the non-suspended runtime 0
still has its timer at height 2 — it can never fire again. All hypotheses of
`timer_never_left_expired` hold; only `EndBlock` differs. -/
theorem skipping_guard_leaves_timer_expired :
    ∃ s : State Bool, TimeoutDecides toyO ∧ ReachableSkipping toyO 10 2 s ∧
      (s.rts 0).map (fun r => (r.suspended, r.nextTimeout)) = some (false, 2) :=
  ⟨_, toyO_timeoutDecides,
   reachableSkipping_two (h := 0) (by decide) (blockCommit 1 1) (blockStraggler 2) rfl rfl (by decide)
     (blockCommit_ok 10 1 1 rtOk_10_1) (blockStraggler_ok 10 2) (by decide) (by decide),
   by decide⟩

/-- Consecutive heights are needed: executing height 3 directly after height 1 leaves the timer armed for
height 2 in the state for ever ("strictly increasing heights" is not enough). -/
theorem gap_loses_timer :
    (after (execBlock toyO (blockEmpty 3) (after (execBlock toyO (blockCommit 1 1) State.empty)))).timerOf 0 = 2 ∧
    (execBlock toyO (blockEmpty 3) (after (execBlock toyO (blockCommit 1 1) State.empty))).isSome = true := by
  decide

/-- No overflow is needed: the registry accepts `RoundTimeout = MaxInt64`; `1 + MaxInt64` wraps to
`MinInt64`, a timer that is "expired" after every `EndBlock` and never fires. -/
theorem overflow_loses_timer :
    (after (execBlock toyO (blockCommit 1 9223372036854775807) State.empty)).timerOf 0
      = -9223372036854775808 ∧
    ¬ RtOk 1 9223372036854775807 := by
  refine ⟨by decide, ?_⟩
  simp only [RtOk, two63]; omega

/-- A non-negative round timeout is needed (the registry enforces `> 0`, runtime.go:127). -/
theorem negative_round_timeout_loses_timer :
    (after (execBlock toyO (blockCommit 10 (-5)) State.empty)).timerOf 0 = 5 := by
  decide

/-- `TimeoutDecides` is needed: with a pool that answers `StillWaiting` to a forced call the due timer
stays where it is. -/
theorem undecided_pool_loses_timer :
    (after (execBlock stuckO (blockEmpty 2) (after (execBlock stuckO (blockCommit 1 1) State.empty)))).timerOf 0 = 2 ∧
    ¬ TimeoutDecides stuckO := by
  refine ⟨by decide, ?_⟩
  intro h
  exact h false rfl

/-! ### (3) an expired timer decides the round -/

/-- (3) When the timer of a runtime is due in the `EndBlock` of height `h` (its `NextTimeout` is `h`
when `EndBlock` starts), a call for that runtime in this `EndBlock` decided the round: a Normal block
or a failed round (timer cleared), or discrepancy resolution started with the timer re-armed strictly
after `h` — never "still waiting". -/
theorem expired_timer_decides {O : PoolOracle π} (hO : TimeoutDecides O) {H h : Int} {s1 s' : State π}
    {evs : List Ev} (ha : AtEndBlock O H h s1) (hc : endBlock O h s1 = some (s', evs)) (id : Nat)
    (hdue : s1.timerOf id = h) : ∃ ev ∈ evs, ev.rt = id ∧ ev.Decided h := by
  obtain ⟨h0, hH, hl⟩ := atEndBlock_inv hO ha
  exact (endBlock_effect hO h0 hH hl hc).2.2.2 id hdue

/-- Every call made because a timer fired (`processRoundTimeout`, `timeout = true`) decides the round. -/
theorem fired_timer_decides {O : PoolOracle π} (hO : TimeoutDecides O) {H h : Int} {s1 s' : State π}
    {evs : List Ev} (ha : AtEndBlock O H h s1) (hc : endBlock O h s1 = some (s', evs)) (ev : Ev)
    (hev : ev ∈ evs) (ht : ev.timeout = true) :
    ev.Decided h ∧ ev.outcome ≠ .waiting ∧ (ev.outcome = .discrepancyWaiting → h < ev.nextTimeout) := by
  obtain ⟨h0, hH, hl⟩ := atEndBlock_inv hO ha
  have hd := (endBlock_effect hO h0 hH hl hc).2.2.1 ev hev ht
  refine ⟨hd, ?_, ?_⟩
  · rcases hd with ⟨ho | ⟨w, ho⟩, _⟩ | ⟨ho, _⟩ <;> rw [ho] <;> simp
  · intro ho
    rcases hd with ⟨ho' | ⟨w, ho'⟩, _⟩ | ⟨_, _, hn⟩
    · rw [ho] at ho'; exact absurd ho' (by simp)
    · rw [ho] at ho'; exact absurd ho' (by simp)
    · exact hn

/-- Non-vacuity of (3): at the start of `EndBlock(2)` of the example history the timer of runtime 0 is
due; the block logs the waiting answer of the non-timeout pass and then the forced call that started
discrepancy resolution with the timer at 3. -/
example :
    AtEndBlock toyO 10 2 ((steps 2 (blockStraggler 2).steps
        (beginBlock (after (execBlock toyO (blockCommit 1 1) State.empty)))).getD State.empty) ∧
    ((steps 2 (blockStraggler 2).steps
        (beginBlock (after (execBlock toyO (blockCommit 1 1) State.empty)))).getD State.empty).timerOf 0 = 2 ∧
    events (endBlock toyO 2 ((steps 2 (blockStraggler 2).steps
        (beginBlock (after (execBlock toyO (blockCommit 1 1) State.empty)))).getD State.empty)) =
      [⟨0, false, false, .waiting, 2⟩, ⟨0, true, true, .discrepancyWaiting, 3⟩] := by
  refine ⟨?_, by decide, by decide⟩
  have hst : steps (blockStraggler 2).height (blockStraggler 2).steps
      (beginBlock (after (execBlock toyO (blockCommit 1 1) State.empty))) =
      some ((steps 2 (blockStraggler 2).steps
        (beginBlock (after (execBlock toyO (blockCommit 1 1) State.empty)))).getD State.empty) := by
    have : (steps 2 (blockStraggler 2).steps
        (beginBlock (after (execBlock toyO (blockCommit 1 1) State.empty)))).isSome = true := by decide
    revert this
    show (steps 2 _ _).isSome = true → steps 2 _ _ = some ((steps 2 _ _).getD State.empty)
    cases steps 2 (blockStraggler 2).steps
      (beginBlock (after (execBlock toyO (blockCommit 1 1) State.empty))) with
    | none => intro h; exact absurd h (by simp)
    | some x => intro _; rfl
  exact AtEndBlock.mk (blockStraggler 2)
    (Reachable.block (blockCommit 1 1) (Reachable.init 0 (by decide)) rfl (by decide)
      (blockCommit_ok 10 1 1 rtOk_10_1) (eq_some_after (by decide)))
    rfl (by decide) (blockStraggler_ok 10 2) hst

/-- With the seeded guard the due timer produces no deciding call: the only event of `EndBlock(2)` is the
"still waiting" of the non-timeout pass, although the timer of runtime 0 was due. -/
theorem skipping_guard_keeps_waiting :
    ((steps 2 (blockStraggler 2).steps
        (beginBlock (after (execBlockSkipping toyO (blockCommit 1 1) State.empty)))).getD State.empty).timerOf 0 = 2 ∧
    events (execBlockSkipping toyO (blockStraggler 2)
        (after (execBlockSkipping toyO (blockCommit 1 1) State.empty))) =
      [⟨0, false, false, .waiting, 2⟩] := by
  decide

/-! ### the real pool model as the oracle -/

/-- `C11.timeout_decides` is exactly the assumption made about the pool. -/
theorem pool_timeout_decides (post : Committee × Nat × Pool → Post) : TimeoutDecides (poolOracle post) := by
  intro p
  exact OasisProofs.C11.timeout_decides p.1 p.2.2 p.2.1

/-- (2) for the commitment pool of `OasisModel.Roothash` (every committee, straggler allowance and pool
content, whatever the runtime-message processing `post` does). -/
theorem timer_never_left_expired_pool (post : Committee × Nat × Pool → Post) {H h : Int}
    {s : State (Committee × Nat × Pool)} (hr : Reachable (poolOracle post) H h s) (id : Nat)
    (r : Runtime (Committee × Nat × Pool)) (hs : s.rts id = some r) :
    r.nextTimeout = timeoutNever ∨ h < r.nextTimeout :=
  timer_never_left_expired (pool_timeout_decides post) hr id r hs

/-- (3) for the commitment pool of `OasisModel.Roothash`. -/
theorem expired_timer_decides_pool (post : Committee × Nat × Pool → Post) {H h : Int}
    {s1 s' : State (Committee × Nat × Pool)} {evs : List Ev}
    (ha : AtEndBlock (poolOracle post) H h s1) (hc : endBlock (poolOracle post) h s1 = some (s', evs))
    (id : Nat) (hdue : s1.timerOf id = h) : ∃ ev ∈ evs, ev.rt = id ∧ ev.Decided h :=
  expired_timer_decides (pool_timeout_decides post) ha hc id hdue

/-- Non-vacuity with the real pool model: committee of 3 workers and 3 backup workers, no stragglers
allowed, round timeout 1. The scheduler commits at height 1 (timer armed for 2); at height 2 only an early
backup vote arrives. `EndBlock(2)`: the non-timeout pass keeps waiting, then the timer fires, the forced
call detects the discrepancy, re-arms, and the retry already finds the backup majority 2 of 3 (the
scheduler is a backup worker too): the round is finalized and the timer cleared. -/
example :
    Reachable poolO 10 2 (after (execBlock poolO poolBlock2 (after (execBlock poolO poolBlock1 State.empty)))) ∧
    events (execBlock poolO poolBlock2 (after (execBlock poolO poolBlock1 State.empty))) =
      [⟨0, false, false, .waiting, 2⟩, ⟨0, true, true, .finalized, 0⟩] ∧
    (after (execBlock poolO poolBlock2 (after (execBlock poolO poolBlock1 State.empty)))).timerOf 0 = 0 :=
  ⟨reachable_two (h := 0) (by decide) poolBlock1 poolBlock2 rfl rfl (by decide) poolBlock1_ok poolBlock2_ok
     (by decide) (by decide),
   by decide, by decide⟩

end OasisProofs.C11Timer
