import OasisModel.Stateless.Verify
import OasisModel.Stateless.Sha256
import OasisProofs.Helpers.StatelessMerkle
import Generated.StatelessFacts
/-
C19 — stateless nodes return provider data only if it is bound to a light-client verified header.

Theorems about the model `OasisModel/Stateless/{Merkle,Verify}.lean` of
`go/consensus/cometbft/stateless/core.go` and `go/consensus/cometbft/crypto/merkle/merkle.go`,
for *every* response, light block, library instance `L : Lib` and hash `H`.

Reading guide.
* `…_bound`   : `verify… = ok →` every bound field of the response equals an explicit function of
                the light block (no hypothesis on `L`, `H`).
* `…_agree`   : two accepted responses for the same light block agree on every bound field.  Where
                the binding goes through a hash these are in the *reduction form*
                `agreement ∨ Collision H` under `FixedLen H n` (all hash values have the same length):
                a fixed-length hash cannot be injective, so an injectivity hypothesis would make the
                statement vacuous; instead two different accepted responses *yield a collision of H*.
                The encoders of `L` are assumed injective (they are encoders).
* `…_unbound` : what is **not** bound, as theorems about the model (the code as it exists):
                `Block.Size` (documented in core.go:572), the encoding of the metas, the last
                commit's `Round` (KNOWN FINDING `accepted-lastcommit-round`: binding it needs the
                verification of the commit signatures; `Height` and `BlockID` were unbound too until
                the repair 8acc1f7 and are bound now for non-empty commits), all results at the latest trusted
                height (documented TODO, core.go:613), result events/log/info/codespace, validator
                address/priority/proposer, the evidence/validator/version sections of the CometBFT
                parameters (CometBFT hashes only `BlockMaxBytes`/`BlockMaxGas`), and a proof's `index`
                when its `total` is not the length of the list.
The model is tied to the Go code by the statelessdrv correspondence and by the regenerated check
tables of `Generated/StatelessFacts.lean` (bottom of this file).
-/
namespace OasisProofs.C19
open OasisModel.Stateless OasisModel.Stateless.Merkle OasisProofs.StatelessMerkle

variable {Sig Ev P : Type}

/-- From a statement proved for a collision-free fixed-length hash to the reduction form. -/
theorem or_collision {H : Bytes → Bytes} {n : Nat} {C : Prop} (hl : FixedLen H n) (f : CR H n → C) :
    C ∨ Collision H := by
  by_cases c : Collision H
  · exact Or.inr c
  · exact Or.inl (f ⟨inj_of_no_collision c, hl⟩)

/-- The only hypothesis the theorems put on the hash, `FixedLen H n`, holds for the SHA-256 of the
executable model (the function the driver validates against Go's `sha256.Sum256` on every run):
all theorems below apply to it with `n = 32`. -/
theorem sha256_fixed_len : FixedLen Sha256.sum 32 := by
  intro x
  simp [Sha256.sum, Sha256.wordsToBytes, List.length_flatMap]
  rfl

/-! ## Merkle tree: completeness -/

/-- The proof generated for index `i` of any list (any length) verifies for element `i` against
the root of the list. No hypothesis on `H`. -/
theorem proof_complete (H : Bytes → Bytes) (l : List Bytes) (i : Nat) (hi : i < l.length) :
    verify H (mkProof H l i) (some (root H l)) l[i] = .ok := by
  have hc := computeTop_aunts H l.length l rfl i hi
  simp only [verify, mkProof, compute]
  have h1 : ¬ ((l.length : Int) < 0) := by omega
  have h2 : ¬ ((i : Int) < 0) := by omega
  have hget : l.getD i [] = l[i] := by simp [List.getD, hi]
  simp only [h1, h2, if_false, hget, ne_eq, not_true_eq_false, Int.toNat_natCast]
  rw [hc]; simp

/-- `ProofsForTransactions(txs)[i]` verifies with `VerifyTransaction` for `txs[i]` against
`RootHashOfTransactions(txs)` (= the block's data hash). -/
theorem tx_proof_complete (H : Bytes → Bytes) (txs : List Bytes) (i : Nat) (hi : i < txs.length) :
    verifyTx H (txProof H txs i) (some (txRoot H txs)) txs[i] = .ok := by
  have h := proof_complete H (txs.map H) i (by simpa using hi)
  simpa [verifyTx, txProof, txRoot] using h

/-! ## Merkle tree: soundness (reduction to a collision) -/

/-- The root binds the list: two lists with the same root are equal, or `H` has a collision. -/
theorem root_binds_list {H : Bytes → Bytes} {n : Nat} (hl : FixedLen H n) (l₁ l₂ : List Bytes)
    (e : root H l₁ = root H l₂) : l₁ = l₂ ∨ Collision H :=
  or_collision hl fun cr => root_inj cr _ l₁ l₂ rfl e

/-- A proof that verifies for root `root H l` and leaf `x` — with whatever `total`, `index`, aunts
the prover chose — shows that `x` is an element of `l`; if the proof's `total` is the length of
`l`, `x` is the element at the proof's `index`.  Otherwise `H` has a collision. -/
theorem proof_sound {H : Bytes → Bytes} {n : Nat} (hl : FixedLen H n) (p : Proof) (l : List Bytes) (x : Bytes)
    (h : verify H p (some (root H l)) x = .ok) :
    (x ∈ l ∧ (p.total = l.length → l[p.index.toNat]? = some x)) ∨ Collision H := by
  apply or_collision hl
  intro cr
  simp only [verify] at h
  split at h; · cases h
  split at h; · cases h
  split at h; · cases h
  rename_i hleaf
  have hleaf : p.leafHash = leafHash H x := by simpa using hleaf
  split at h
  · cases h
  · rename_i c hc
    split at h
    · rename_i hcr
      subst hcr
      rw [hleaf] at hc
      have ⟨j, hj, hjt⟩ := computeTop_sound cr x _ _ _ l hc
      refine ⟨List.mem_of_getElem? hj, ?_⟩
      intro ht
      have : p.total.toNat = l.length := by omega
      rw [← hjt this]; exact hj
    · cases h

/-- Transaction level (`VerifyTransaction` against the data hash of *any* transaction list). -/
theorem tx_proof_sound {H : Bytes → Bytes} {n : Nat} (hl : FixedLen H n) (p : Proof) (txs : List Bytes) (tx : Bytes)
    (h : verifyTx H p (some (txRoot H txs)) tx = .ok) :
    (tx ∈ txs ∧ (p.total = txs.length → txs[p.index.toNat]? = some tx)) ∨ Collision H := by
  by_cases c : Collision H
  · exact Or.inr c
  · left
    have inj := inj_of_no_collision c
    rcases proof_sound hl p (txs.map H) (H tx) h with ⟨hm, hi⟩ | c'
    · constructor
      · rcases List.mem_map.1 hm with ⟨t, ht, e⟩
        rw [← inj e]; exact ht
      · intro ht
        have := hi (by simpa using ht)
        rw [List.getElem?_map] at this
        cases hg : txs[p.index.toNat]? with
        | none => rw [hg] at this; cases this
        | some t => rw [hg] at this; simp at this; rw [inj this]
    · exact absurd c' c

/-- An altered transaction fails: a proof never verifies for bytes that are not a transaction of
the block. -/
theorem proof_rejects_foreign_tx {H : Bytes → Bytes} {n : Nat} (hl : FixedLen H n) (p : Proof) (txs : List Bytes)
    (tx : Bytes) (hne : tx ∉ txs) : verifyTx H p (some (txRoot H txs)) tx ≠ .ok ∨ Collision H := by
  by_cases h : verifyTx H p (some (txRoot H txs)) tx = .ok
  · rcases tx_proof_sound hl p txs tx h with ⟨hm, _⟩ | c
    · exact absurd hm hne
    · exact Or.inr c
  · exact Or.inl h

/-- An altered index fails: with the true `total`, a proof never verifies for a transaction at
another index. -/
theorem proof_rejects_wrong_index {H : Bytes → Bytes} {n : Nat} (hl : FixedLen H n) (p : Proof) (txs : List Bytes)
    (tx : Bytes) (ht : p.total = txs.length) (hne : txs[p.index.toNat]? ≠ some tx) :
    verifyTx H p (some (txRoot H txs)) tx ≠ .ok ∨ Collision H := by
  by_cases h : verifyTx H p (some (txRoot H txs)) tx = .ok
  · rcases tx_proof_sound hl p txs tx h with ⟨_, hi⟩ | c
    · exact absurd (hi ht) hne
    · exact Or.inr c
  · exact Or.inl h

/-- An altered root fails: a proof that verifies for the honest list's root does not verify for a
different root (verification recomputes one value). -/
theorem proof_rejects_other_root (H : Bytes → Bytes) (p : Proof) (r₁ r₂ x : Bytes)
    (h₁ : verify H p (some r₁) x = .ok) (hne : r₁ ≠ r₂) : verify H p (some r₂) x ≠ .ok := by
  intro h₂
  simp only [verify] at h₁ h₂
  split at h₁; · cases h₁
  split at h₁; · cases h₁
  split at h₁; · cases h₁
  simp only [*, if_false] at h₂
  split at h₁
  · cases h₁
  · rename_i c hc
    rw [hc] at h₂
    simp only at h₂
    split at h₁
    · split at h₂
      · rename_i e1 e2; exact hne (e1.symm.trans e2)
      · cases h₂
    · cases h₁

/-- What is *not* bound: `Proof.Verify` takes `total` from the proof ("Check sp.Index/sp.Total
manually if needed", proof.go:51) and nothing checks it, so the index is not bound.  For every
`H`: in the list `[a, b, c]` the element `c` (index 2) has a verifying proof that claims
`total = 2, index = 1`.  (oasis-core's `transaction.Proof` exposes only height and raw proof;
membership, not position, is what `verifyTransactionProof` establishes.) -/
theorem proof_index_unbound_without_total (H : Bytes → Bytes) (a b c : Bytes) :
    verify H { total := 2, index := 1, leafHash := leafHash H c, aunts := [root H [a, b]] }
      (some (root H [a, b, c])) c = .ok := by
  have h3 : root H [a, b, c] = innerHash H (root H [a, b]) (leafHash H c) := by
    rw [root_ge2 H [a, b, c] (by simp)]
    have : splitPoint [a, b, c].length = 2 := by show splitPoint 3 = 2; decide
    rw [this]
    simp [root_single]
  have s2 : splitPoint 2 = 1 := by decide
  simp [verify, compute, computeTop, h3, s2]

/-! ## verifyBlock -/

/-- **block_bound.** An accepted block's height, hash, time (to the second), state root
(namespace, version, type, hash) and — inside the decoded meta — the serialized header, the
last commit's hash (signature list) and, for a non-empty commit, the last commit's `height` and
`blockID` are determined by the light block.  Unbound: `size` (core.go:572 "Block size cannot be
verified"), the raw `meta` bytes, and the last commit's `round` (`block_lastcommit_round_unbound`). -/
theorem block_bound (L : Lib Sig Ev P) (H : Bytes → Bytes) (b : Block) (lb : Header)
    (h : verifyBlock L H b lb = .ok) :
    b.height = lb.height ∧ b.hash = L.headerHash lb ∧ b.time = lb.time.truncSec ∧
    b.stateRoot = { ns := zeroNamespace, version := prevVersion lb.height, type := rootTypeState, hash := lb.appHash } ∧
    ∃ m c, L.decBlockMeta b.metaB = some m ∧ m.header = L.headerEnc lb ∧
      L.decCommit m.lastCommit = some c ∧ commitHash L H c = lb.lastCommitHash ∧
      (c.sigs ≠ [] → c.height = lb.height - 1 ∧ c.blockID = lb.lastBlockID) := by
  unfold verifyBlock at h
  by_cases h1 : b.height = lb.height; rotate_left
  · simp only [h1, ne_eq, not_false_eq_true, if_true] at h; cases h
  simp only [h1, ne_eq, not_true_eq_false, if_false] at h
  by_cases h2 : b.hash = L.headerHash lb; rotate_left
  · simp only [h2, not_false_eq_true, if_true] at h; cases h
  simp only [h2, not_true_eq_false, if_false] at h
  by_cases h3 : b.time = lb.time.truncSec; rotate_left
  · simp only [h3, not_false_eq_true, if_true] at h; cases h
  simp only [h3, not_true_eq_false, if_false] at h
  by_cases h4 : b.stateRoot.ns = zeroNamespace; rotate_left
  · simp only [h4, not_false_eq_true, if_true] at h; cases h
  simp only [h4, not_true_eq_false, if_false] at h
  by_cases h5 : b.stateRoot.version = prevVersion lb.height; rotate_left
  · simp only [h5, not_false_eq_true, if_true] at h; cases h
  simp only [h5, not_true_eq_false, if_false] at h
  by_cases h6 : b.stateRoot.type = rootTypeState; rotate_left
  · simp only [h6, not_false_eq_true, if_true] at h; cases h
  simp only [h6, not_true_eq_false, if_false] at h
  by_cases h7 : b.stateRoot.hash = lb.appHash; rotate_left
  · simp only [h7, not_false_eq_true, if_true] at h; cases h
  simp only [h7, not_true_eq_false, if_false] at h
  cases hm : L.decBlockMeta b.metaB with
  | none => simp only [hm] at h; cases h
  | some m =>
    simp only [hm] at h
    by_cases h8 : m.header = L.headerEnc lb; rotate_left
    · simp only [h8, not_false_eq_true, if_true] at h; cases h
    simp only [h8, not_true_eq_false, if_false] at h
    cases hc : L.decCommit m.lastCommit with
    | none => simp only [hc] at h; cases h
    | some c =>
      simp only [hc] at h
      by_cases h9 : commitHash L H c = lb.lastCommitHash; rotate_left
      · simp only [h9, not_false_eq_true, if_true] at h; cases h
      simp only [h9, not_true_eq_false, if_false] at h
      refine ⟨h1, h2, h3, ?_, m, c, rfl, h8, hc, h9, ?_⟩
      · cases hs : b.stateRoot
        simp only [hs] at h4 h5 h6 h7
        simp only [StateRoot.mk.injEq]
        exact ⟨h4, h5, h6, h7⟩
      · intro hne
        by_cases h10 : c.height = lb.height - 1; rotate_left
        · simp only [hne, h10, not_false_eq_true, and_self, if_true] at h; cases h
        by_cases h11 : c.blockID = lb.lastBlockID; rotate_left
        · simp only [hne, h10, h11, not_false_eq_true, not_true_eq_false, and_false, and_self, if_true, if_false] at h
          cases h
        exact ⟨h10, h11⟩

/-- `verifyBlock` accepts exactly the blocks that satisfy the executable specification (the
predicate the driver evaluates on everything the implementation accepted). -/
theorem block_spec_iff [DecidableEq Sig] (L : Lib Sig Ev P) (H : Bytes → Bytes) (b : Block) (lb : Header) :
    verifyBlock L H b lb = .ok ↔ blockSpec L H b lb = true := by
  constructor
  · intro h
    have ⟨a1, a2, a3, a4, m, c, a5, a6, a7, a8, a9⟩ := block_bound L H b lb h
    unfold blockSpec
    simp only [a1, a2, a3, a4, a5, a6, a7, a8, beq_self_eq_true, Bool.true_and]
    by_cases hs : c.sigs = []
    · simp [hs]
    · have ⟨x1, x2⟩ := a9 hs
      simp [x1, x2]
  · intro h
    unfold blockSpec at h
    simp only [Bool.and_eq_true, beq_iff_eq] at h
    obtain ⟨⟨⟨⟨a1, a2⟩, a3⟩, a4⟩, h⟩ := h
    cases hdm : L.decBlockMeta b.metaB with
    | none => simp [hdm] at h
    | some m =>
      simp only [hdm, Bool.and_eq_true, beq_iff_eq] at h
      obtain ⟨a6, h⟩ := h
      cases hdc : L.decCommit m.lastCommit with
      | none => simp [hdc] at h
      | some c =>
        simp only [hdc, Bool.and_eq_true, beq_iff_eq, Bool.or_eq_true, List.isEmpty_iff] at h
        obtain ⟨a8, a9⟩ := h
        unfold verifyBlock
        simp only [a1, a2, a3, a4, hdm, a6, hdc, a8, ne_eq, not_true_eq_false, if_false]
        rcases a9 with hs | ⟨x1, x2⟩
        · simp [hs]
        · simp [x1, x2]

/-- **block_agree.** Two blocks accepted for the same light block agree on height, hash, time,
state root, the decoded meta header, the list of commit signatures and (non-empty commit) the
commit's height and block identifier — or `H` has a collision. -/
theorem block_agree {H : Bytes → Bytes} {n : Nat} (hl : FixedLen H n) (L : Lib Sig Ev P)
    (hsig : Function.Injective L.sigEnc) (b₁ b₂ : Block) (lb : Header)
    (h₁ : verifyBlock L H b₁ lb = .ok) (h₂ : verifyBlock L H b₂ lb = .ok) :
    (b₁.height = b₂.height ∧ b₁.hash = b₂.hash ∧ b₁.time = b₂.time ∧ b₁.stateRoot = b₂.stateRoot ∧
     ∃ m₁ c₁ m₂ c₂, L.decBlockMeta b₁.metaB = some m₁ ∧ L.decCommit m₁.lastCommit = some c₁ ∧
       L.decBlockMeta b₂.metaB = some m₂ ∧ L.decCommit m₂.lastCommit = some c₂ ∧
       m₁.header = m₂.header ∧ c₁.sigs = c₂.sigs ∧
       (c₁.sigs ≠ [] → c₁.height = c₂.height ∧ c₁.blockID = c₂.blockID)) ∨ Collision H := by
  have ⟨a1, a2, a3, a4, m₁, c₁, a5, a6, a7, a8, a9⟩ := block_bound L H b₁ lb h₁
  have ⟨d1, d2, d3, d4, m₂, c₂, d5, d6, d7, d8, d9⟩ := block_bound L H b₂ lb h₂
  rcases root_binds_list hl (c₁.sigs.map L.sigEnc) (c₂.sigs.map L.sigEnc) (by
      simpa [commitHash] using a8.trans d8.symm) with e | c
  · left
    have es : c₁.sigs = c₂.sigs := (List.map_inj_right (fun _ _ h => hsig h)).1 e
    refine ⟨a1.trans d1.symm, a2.trans d2.symm, a3.trans d3.symm, a4.trans d4.symm, m₁, c₁, m₂, c₂, a5, a7, d5, d7,
      a6.trans d6.symm, es, ?_⟩
    intro hne
    have ⟨x1, x2⟩ := a9 hne
    have ⟨y1, y2⟩ := d9 (es ▸ hne)
    exact ⟨x1.trans y1.symm, x2.trans y2.symm⟩
  · exact Or.inr c

/-- Documented unbound field: the block size is never inspected. -/
theorem block_size_unbound (L : Lib Sig Ev P) (H : Bytes → Bytes) (b : Block) (lb : Header) (s : Nat) :
    verifyBlock L H { b with size := s } lb = verifyBlock L H b lb := rfl

/-- **Known finding `accepted-lastcommit-round`.** `Commit.Hash()` covers the signature list only and
the repaired code binds `Height` and `BlockID` explicitly; the commit's `Round` is compared with
nothing: replacing the last commit by one that differs only in its round (in a meta that still
carries the same header) keeps the block accepted.  (Binding the round needs the verification of
the commit signatures against the previous validator set, which the stateless core does not do.) -/
theorem block_lastcommit_round_unbound (L : Lib Sig Ev P) (H : Bytes → Bytes) (b : Block) (lb : Header)
    (m : BlockMeta) (c : Commit Sig) (h : verifyBlock L H b lb = .ok)
    (hm : L.decBlockMeta b.metaB = some m) (hc : L.decCommit m.lastCommit = some c)
    (meta' lc' : Bytes) (round' : Int)
    (hm' : L.decBlockMeta meta' = some { header := m.header, lastCommit := lc' })
    (hc' : L.decCommit lc' = some { c with round := round' }) :
    verifyBlock L H { b with metaB := meta' } lb = .ok := by
  have ⟨a1, a2, a3, a4, m₁, c₁, a5, a6, a7, a8, a9⟩ := block_bound L H b lb h
  rw [hm] at a5; cases a5
  rw [hc] at a7; cases a7
  simp only [commitHash] at a8
  by_cases hne : c.sigs = []
  · rw [hne] at a8
    simp only [List.map_nil] at a8
    simp [verifyBlock, a1, a2, a3, a4, hm', hc', a6, commitHash, a8, hne]
  · have ⟨x1, x2⟩ := a9 hne
    simp [verifyBlock, a1, a2, a3, a4, hm', hc', a6, commitHash, a8, x1, x2]

/-! ## heights -/

/-- **height_alteration_rejected.** A response whose height differs from the verified light
block's (the next height for validators) is rejected by every verification function — also in
the branch that skips the verification of the latest results. -/
theorem height_alteration_rejected (L : Lib Sig Ev P) (H : Bytes → Bytes) (lb : Header) :
    (∀ b : Block, b.height ≠ lb.height → verifyBlock L H b lb = .height) ∧
    (∀ (r : BlockResults) rh, r.height ≠ lb.height → (verifyBlockResultsPure L H r rh lb).1 = .height) ∧
    (∀ (lc : LightClient) (r : BlockResults) last, lc.last = some last → r.height ≠ lb.height →
        (verifyBlockResults L H lc r lb).1 = .height ∨
        (last > lb.height ∧ lc.trusted (lb.height + 1) = none ∧ (verifyBlockResults L H lc r lb).1 = .fetch)) ∧
    (∀ v : Validators, v.height ≠ lb.height + 1 → verifyNextValidators L H v lb = .height) ∧
    (∀ (p : Parameters P) st, p.height ≠ lb.height → verifyParameters L H p lb st = .height) := by
  refine ⟨?_, ?_, ?_, ?_, ?_⟩
  · intro b hb; simp [verifyBlock, hb]
  · intro r rh hr; simp [verifyBlockResultsPure, hr]
  · intro lc r last hlast hr
    simp only [verifyBlockResults, hlast]
    by_cases hle : last ≤ lb.height
    · left; simp [hle, hr]
    · simp only [hle, if_false]
      cases ht : lc.trusted (lb.height + 1) with
      | none => right; exact ⟨by omega, rfl, rfl⟩
      | some nxt => left; simp [verifyBlockResultsPure, hr]
  · intro v hv; simp [verifyNextValidators, hv]
  · intro p st hp; simp [verifyParameters, hp]

/-! ## transactions -/

/-- **txs_bound.** Accepted transactions hash to the verified header's data hash. -/
theorem txs_bound (H : Bytes → Bytes) (txs : List Bytes) (lb : Header) (h : verifyTransactions H txs lb = true) :
    txRoot H txs = lb.dataHash := by
  simpa [verifyTransactions] using h

/-- Two transaction lists accepted for the same light block are equal (content, order, number),
or `H` has a collision: any altered list is rejected. -/
theorem txs_agree {H : Bytes → Bytes} {n : Nat} (hl : FixedLen H n) (txs₁ txs₂ : List Bytes) (lb : Header)
    (h₁ : verifyTransactions H txs₁ lb = true) (h₂ : verifyTransactions H txs₂ lb = true) :
    txs₁ = txs₂ ∨ Collision H := by
  by_cases c : Collision H
  · exact Or.inr c
  · left
    have e := (txs_bound H _ _ h₁).trans (txs_bound H _ _ h₂).symm
    rcases root_binds_list hl _ _ e with e' | c'
    · exact (List.map_inj_right (fun _ _ h => inj_of_no_collision c h)).1 e'
    · exact absurd c' c

/-- `verifyTransactionProof`: an accepted proof shows that the transaction bytes are a
transaction of the block with the verified data hash (of any list hashing to it). -/
theorem tx_proof_bound {H : Bytes → Bytes} {n : Nat} (hl : FixedLen H n) (L : Lib Sig Ev P) (raw tx : Bytes)
    (lb : Header) (txs : List Bytes) (hd : txRoot H txs = lb.dataHash)
    (h : verifyTransactionProof L H raw tx lb = .proof .ok) : tx ∈ txs ∨ Collision H := by
  unfold verifyTransactionProof at h
  split at h
  · cases h
  · rename_i p _
    simp only [TPV.proof.injEq] at h
    by_cases he : lb.dataHash = []
    · simp [he, verifyTx, verify] at h
    · simp only [he, if_false] at h
      rw [← hd] at h
      rcases tx_proof_sound hl p txs tx h with ⟨hm, _⟩ | c
      · exact Or.inl hm
      · exact Or.inr c

/-! ## block results -/

/-- **results_bound.** Below the latest trusted height (`lb.height < last`), accepted results have
the light block's height, decode, and their deterministic parts hash to the *next verified
header's* `LastResultsHash`.  The exception — the latest trusted height — is
`results_latest_unverified`. -/
theorem results_bound (L : Lib Sig Ev P) (H : Bytes → Bytes) (lc : LightClient) (r : BlockResults) (lb : Header)
    (last : Int) (m : ResultsMeta Ev) (hlast : lc.last = some last) (hbelow : lb.height < last)
    (h : verifyBlockResults L H lc r lb = (.ok, some m)) :
    r.height = lb.height ∧ L.decResults r.metaB = some m ∧
    ∃ nxt, lc.trusted (lb.height + 1) = some nxt ∧ resultsHash L H m = nxt.lastResultsHash := by
  simp only [verifyBlockResults, hlast] at h
  have hle : ¬ last ≤ lb.height := by omega
  simp only [hle, if_false] at h
  split at h
  · cases h
  · rename_i nxt hn
    simp only [verifyBlockResultsPure] at h
    split at h; · cases h
    rename_i hh
    split at h
    · cases h
    · rename_i m' hm'
      split at h
      · cases h
      · rename_i hrh
        simp only [Prod.mk.injEq, Option.some.injEq, true_and] at h
        subst h
        exact ⟨by simpa using hh, hm', nxt, hn, by simpa using hrh⟩

/-- The documented exception (core.go:613-626): at (or above) the latest trusted height the results
are accepted as soon as the height matches and the meta decodes — nothing else is bound. -/
theorem results_latest_unverified (L : Lib Sig Ev P) (H : Bytes → Bytes) (lc : LightClient) (r : BlockResults)
    (lb : Header) (last : Int) (m : ResultsMeta Ev) (hlast : lc.last = some last) (hlatest : last ≤ lb.height)
    (hh : r.height = lb.height) (hm : L.decResults r.metaB = some m) :
    verifyBlockResults L H lc r lb = (.ok, some m) := by
  simp [verifyBlockResults, hlast, hlatest, hh, hm]

/-- Two results accepted for the same light block below the latest trusted height have the same
number of transaction results with the same `code`, `data`, `gasWanted`, `gasUsed` — or `H` has a
collision.  Unbound: `log`, `info`, `codespace`, all events (TODO in core.go:651), the meta bytes. -/
theorem results_agree {H : Bytes → Bytes} {n : Nat} (hl : FixedLen H n) (L : Lib Sig Ev P)
    (hdet : ∀ c d g u c' d' g' u', L.detEnc c d g u = L.detEnc c' d' g' u' → c = c' ∧ d = d' ∧ g = g' ∧ u = u')
    (lc : LightClient) (r₁ r₂ : BlockResults) (lb : Header) (last : Int) (m₁ m₂ : ResultsMeta Ev)
    (hlast : lc.last = some last) (hbelow : lb.height < last)
    (h₁ : verifyBlockResults L H lc r₁ lb = (.ok, some m₁)) (h₂ : verifyBlockResults L H lc r₂ lb = (.ok, some m₂)) :
    (r₁.height = r₂.height ∧
     m₁.txs.map (fun t => (t.code, t.data, t.gasWanted, t.gasUsed)) =
     m₂.txs.map (fun t => (t.code, t.data, t.gasWanted, t.gasUsed))) ∨ Collision H := by
  have ⟨a1, _, n₁, a3, a4⟩ := results_bound L H lc r₁ lb last m₁ hlast hbelow h₁
  have ⟨d1, _, n₂, d3, d4⟩ := results_bound L H lc r₂ lb last m₂ hlast hbelow h₂
  rw [a3] at d3; cases d3
  rcases root_binds_list hl _ _ (by simpa [resultsHash] using a4.trans d4.symm) with e | c
  · left
    refine ⟨a1.trans d1.symm, ?_⟩
    have inj : Function.Injective (fun q : Nat × Bytes × Int × Int => L.detEnc q.1 q.2.1 q.2.2.1 q.2.2.2) := by
      intro ⟨c, d, g, u⟩ ⟨c', d', g', u'⟩ e
      obtain ⟨rfl, rfl, rfl, rfl⟩ := hdet c d g u c' d' g' u' e
      rfl
    apply (List.map_inj_right (fun _ _ h => inj h)).1
    simpa [List.map_map, Function.comp_def] using e
  · exact Or.inr c

/-! ## next validators -/

/-- **validators_bound.** An accepted validator set is for the height after the light block's and
its `(pubKey, votingPower)` list hashes to the verified `NextValidatorsHash`. -/
theorem validators_bound (L : Lib Sig Ev P) (H : Bytes → Bytes) (v : Validators) (lb : Header)
    (h : verifyNextValidators L H v lb = .ok) :
    v.height = lb.height + 1 ∧ ∃ vs, L.decValidators v.metaB = some vs ∧ validatorsHash L H vs = lb.nextValidatorsHash := by
  unfold verifyNextValidators at h
  split at h; · cases h
  rename_i hh
  split at h
  · cases h
  · rename_i vs hv
    split at h; · cases h
    rename_i hn
    exact ⟨by simpa using hh, vs, hv, by simpa using hn⟩

/-- Two accepted validator sets have the same validators (public key and voting power, in order) —
or `H` has a collision.  Unbound (not covered by CometBFT's validator set hash): each validator's
`address` and `priority`, and the `proposer`. -/
theorem validators_agree {H : Bytes → Bytes} {n : Nat} (hl : FixedLen H n) (L : Lib Sig Ev P)
    (hval : ∀ k w k' w', L.valEnc k w = L.valEnc k' w' → k = k' ∧ w = w')
    (v₁ v₂ : Validators) (lb : Header)
    (h₁ : verifyNextValidators L H v₁ lb = .ok) (h₂ : verifyNextValidators L H v₂ lb = .ok) :
    (v₁.height = v₂.height ∧ ∃ s₁ s₂, L.decValidators v₁.metaB = some s₁ ∧ L.decValidators v₂.metaB = some s₂ ∧
      s₁.validators.map (fun x => (x.pubKey, x.power)) = s₂.validators.map (fun x => (x.pubKey, x.power))) ∨
    Collision H := by
  have ⟨a1, s₁, a2, a3⟩ := validators_bound L H v₁ lb h₁
  have ⟨d1, s₂, d2, d3⟩ := validators_bound L H v₂ lb h₂
  rcases root_binds_list hl _ _ (by simpa [validatorsHash] using a3.trans d3.symm) with e | c
  · left
    refine ⟨a1.trans d1.symm, s₁, s₂, a2, d2, ?_⟩
    have inj : Function.Injective (fun q : Bytes × Int => L.valEnc q.1 q.2) := by
      intro ⟨k, w⟩ ⟨k', w'⟩ e
      obtain ⟨rfl, rfl⟩ := hval k w k' w' e
      rfl
    apply (List.map_inj_right (fun _ _ h => inj h)).1
    simpa [List.map_map, Function.comp_def] using e
  · exact Or.inr c

/-! ## parameters -/

/-- **params_bound.** Accepted parameters have the light block's height; the CometBFT part's
`HashedParams` (block max bytes / max gas) hashes to the verified `ConsensusHash`; the
backend-agnostic parameters encode like those of the (state-proof verified) consensus state. -/
theorem params_bound (L : Lib Sig Ev P) (H : Bytes → Bytes) (p : Parameters P) (lb : Header) (st : Option P)
    (h : verifyParameters L H p lb st = .ok) :
    p.height = lb.height ∧ ∃ cp sp, L.decParams p.metaB = some cp ∧ paramsHash L H cp = lb.consensusHash ∧
      st = some sp ∧ L.paramsEnc sp = L.paramsEnc p.parameters := by
  unfold verifyParameters at h
  split at h; · cases h
  rename_i hh
  split at h
  · cases h
  · rename_i cp hcp
    split at h; · cases h
    rename_i hch
    split at h
    · cases h
    · rename_i sp
      split at h; · cases h
      rename_i he
      exact ⟨by simpa using hh, cp, sp, hcp, by simpa using hch, rfl, by simpa using he⟩

/-- Two accepted parameter responses agree on height, block max bytes / max gas and on the
backend-agnostic parameters (which equal the verified state's) — or `H` has a collision.  Unbound:
the evidence, validator and version sections of the CometBFT parameters. -/
theorem params_agree {H : Bytes → Bytes} (L : Lib Sig Ev P)
    (hhp : ∀ a b a' b', L.hashedParamsEnc a b = L.hashedParamsEnc a' b' → a = a' ∧ b = b')
    (hpe : Function.Injective L.paramsEnc)
    (p₁ p₂ : Parameters P) (lb : Header) (st : Option P)
    (h₁ : verifyParameters L H p₁ lb st = .ok) (h₂ : verifyParameters L H p₂ lb st = .ok) :
    (p₁.height = p₂.height ∧ p₁.parameters = p₂.parameters ∧ st = some p₁.parameters ∧
     ∃ c₁ c₂, L.decParams p₁.metaB = some c₁ ∧ L.decParams p₂.metaB = some c₂ ∧
       c₁.blockMaxBytes = c₂.blockMaxBytes ∧ c₁.blockMaxGas = c₂.blockMaxGas) ∨ Collision H := by
  have ⟨a1, c₁, s₁, a2, a3, a4, a5⟩ := params_bound L H p₁ lb st h₁
  have ⟨d1, c₂, s₂, d2, d3, d4, d5⟩ := params_bound L H p₂ lb st h₂
  by_cases c : Collision H
  · exact Or.inr c
  · left
    have inj := inj_of_no_collision c
    have e := inj (by simpa [paramsHash] using a3.trans d3.symm)
    have ⟨e1, e2⟩ := hhp _ _ _ _ e
    rw [a4] at d4; cases d4
    have q1 := hpe a5
    have q2 := hpe d5
    exact ⟨a1.trans d1.symm, q1.symm.trans q2, by rw [a4, q1], c₁, c₂, a2, d2, e1, e2⟩

/-! ## state root -/

/-- **state_root_bound.** A resolved state root is either the app hash of the next verified header,
or — when that header is not available — the state root carried by the *last* transaction of a
transaction list that hashes to the verified data hash of the block. -/
theorem state_root_bound (L : Lib Sig Ev P) (H : Bytes → Bytes) (lc : LightClient) (ptxs : Option (List Bytes))
    (height : Int) (r : Bytes) (h : fetchStateRoot L H lc ptxs height = some r) :
    (∃ nxt, lc.trusted (height + 1) = some nxt ∧ r = nxt.appHash ∧ r.length = 32) ∨
    (∃ lb txs metaTx, lc.trusted height = some lb ∧ ptxs = some txs ∧ txRoot H txs = lb.dataHash ∧
       txs.getLast? = some metaTx ∧ L.decMetaTx metaTx = some r) := by
  unfold fetchStateRoot at h
  split at h
  · rename_i r' hr
    simp only [Option.some.injEq] at h; subst h
    left
    unfold stateRootFromNext at hr
    split at hr
    · cases hr
    · rename_i nxt hn
      split at hr
      · rename_i hlen
        simp only [Option.some.injEq] at hr; subst hr
        exact ⟨nxt, hn, rfl, hlen⟩
      · cases hr
  · right
    cases hlb : lc.trusted height with
    | none => rw [hlb] at h; simp at h
    | some lb =>
      cases ptxs with
      | none => rw [hlb] at h; simp at h
      | some txs =>
        rw [hlb] at h
        simp only at h
        split at h
        · rename_i hv
          unfold stateRootFromBlockTxs at h
          split at h
          · cases h
          · rename_i metaTx hl
            exact ⟨lb, txs, metaTx, rfl, rfl, txs_bound H txs lb hv, hl, h⟩
        · cases h

/-- The resolved state root does not depend on what the provider answered: two resolutions with
the same light client and arbitrary provider answers give the same root — or `H` has a collision. -/
theorem state_root_provider_independent {H : Bytes → Bytes} {n : Nat} (hl : FixedLen H n) (L : Lib Sig Ev P)
    (lc : LightClient) (p₁ p₂ : Option (List Bytes)) (height : Int) (r₁ r₂ : Bytes)
    (h₁ : fetchStateRoot L H lc p₁ height = some r₁) (h₂ : fetchStateRoot L H lc p₂ height = some r₂) :
    r₁ = r₂ ∨ Collision H := by
  unfold fetchStateRoot at h₁ h₂
  cases hn : stateRootFromNext lc height with
  | some r =>
    rw [hn] at h₁ h₂
    simp only [Option.some.injEq] at h₁ h₂
    left; rw [← h₁, ← h₂]
  | none =>
    rw [hn] at h₁ h₂
    simp only at h₁ h₂
    cases hlb : lc.trusted height with
    | none => rw [hlb] at h₁; simp at h₁
    | some lb =>
      rw [hlb] at h₁ h₂
      cases p₁ with
      | none => simp at h₁
      | some t₁ =>
        cases p₂ with
        | none => simp at h₂
        | some t₂ =>
          simp only at h₁ h₂
          by_cases v₁ : verifyTransactions H t₁ lb = true
          · by_cases v₂ : verifyTransactions H t₂ lb = true
            · rcases txs_agree hl t₁ t₂ lb v₁ v₂ with e | c
              · left
                subst e
                simp only [v₁, if_true] at h₁ h₂
                rw [h₁] at h₂; simpa using h₂
              · exact Or.inr c
            · simp [v₂] at h₂
          · simp [v₁] at h₁

/-! ## The public entry points: data reaches the caller only if it verified against the light
block of the requested height -/

/-- The light client answers with headers of the requested height. -/
def LCWF (lc : LightClient) : Prop := ∀ h lb, lc.trusted h = some lb → lb.height = h

theorem lightBlock_height (lc : LightClient) (wf : LCWF lc) (pr : Provider P) (h : Int) (lb : Header)
    (e : lightBlock lc pr h = some lb) : (h ≠ heightLatest → lb.height = h) ∧ lc.trusted lb.height = some lb := by
  unfold lightBlock resolveHeight at e
  by_cases hh : h ≠ heightLatest
  · simp only [hh, ne_eq, not_false_eq_true, if_true] at e
    have := wf _ _ e
    exact ⟨fun _ => this, by rw [this]; exact e⟩
  · simp only [hh, if_false] at e
    refine ⟨fun c => absurd c hh, ?_⟩
    cases hl : pr.latestHeight with
    | none => simp [hl] at e
    | some l =>
      simp only [hl] at e
      by_cases h1 : l < 1
      · simp [h1] at e
      · simp only [h1, if_false] at e
        rw [wf _ _ e]; exact e

/-- **api_returns_only_verified.** Whatever the provider answers, each entry point returns data only
if it is the provider's answer for the light block's height *and* the corresponding verification
function accepted it against the light-client verified header of the requested height (so all
`…_bound`/`…_agree` theorems apply to everything a caller ever receives). -/
theorem api_returns_only_verified (L : Lib Sig Ev P) (H : Bytes → Bytes) (lc : LightClient) (wf : LCWF lc)
    (pr : Provider P) (state : Int → Option P) (h : Int) :
    (∀ b, getBlock L H lc pr h = some b →
        ∃ lb, lc.trusted lb.height = some lb ∧ (h ≠ heightLatest → lb.height = h) ∧
          pr.block lb.height = some b ∧ verifyBlock L H b lb = .ok) ∧
    (∀ txs, getTransactions H lc pr h = some txs →
        ∃ lb, lc.trusted lb.height = some lb ∧ (h ≠ heightLatest → lb.height = h) ∧
          pr.txs lb.height = some txs ∧ verifyTransactions H txs lb = true) ∧
    (∀ r, getBlockResults L H lc pr h = some r →
        ∃ lb, lc.trusted lb.height = some lb ∧ (h ≠ heightLatest → lb.height = h) ∧
          pr.results lb.height = some r ∧ (verifyBlockResults L H lc r lb).1 = .ok) ∧
    (∀ v, getValidators L H lc pr h = some (.inr v) →
        ∃ lb, lc.trusted lb.height = some lb ∧ (h - 1 ≠ heightLatest → lb.height = h - 1) ∧
          pr.validators h = some v ∧ verifyNextValidators L H v lb = .ok) ∧
    (∀ lb, getValidators L H lc pr h = some (.inl lb) →
        lc.trusted lb.height = some lb ∧ (h ≠ heightLatest → lb.height = h)) ∧
    (∀ p, getParameters L H lc pr state h = some p →
        ∃ lb, lc.trusted lb.height = some lb ∧ (h ≠ heightLatest → lb.height = h) ∧
          pr.params lb.height = some p ∧ verifyParameters L H p lb (state lb.height) = .ok) := by
  refine ⟨?_, ?_, ?_, ?_, ?_, ?_⟩
  · intro b e
    unfold getBlock at e
    cases hlb : lightBlock lc pr h with
    | none => simp [hlb] at e
    | some lb =>
      simp only [hlb] at e
      have ⟨w1, w2⟩ := lightBlock_height lc wf pr h lb hlb
      cases hp : pr.block lb.height with
      | none => simp [hp] at e
      | some b' =>
        simp only [hp] at e
        by_cases hv : verifyBlock L H b' lb = .ok
        · simp only [hv, if_true, Option.some.injEq] at e; subst e
          exact ⟨lb, w2, w1, hp, hv⟩
        · simp [hv] at e
  · intro txs e
    unfold getTransactions at e
    cases hlb : lightBlock lc pr h with
    | none => simp [hlb] at e
    | some lb =>
      simp only [hlb] at e
      have ⟨w1, w2⟩ := lightBlock_height lc wf pr h lb hlb
      cases hp : pr.txs lb.height with
      | none => simp [hp] at e
      | some t =>
        simp only [hp] at e
        by_cases hv : verifyTransactions H t lb = true
        · simp only [hv, if_true, Option.some.injEq] at e; subst e
          exact ⟨lb, w2, w1, hp, hv⟩
        · simp [hv] at e
  · intro r e
    unfold getBlockResults at e
    cases hlb : lightBlock lc pr h with
    | none => simp [hlb] at e
    | some lb =>
      simp only [hlb] at e
      have ⟨w1, w2⟩ := lightBlock_height lc wf pr h lb hlb
      cases hp : pr.results lb.height with
      | none => simp [hp] at e
      | some r' =>
        simp only [hp] at e
        by_cases hv : (verifyBlockResults L H lc r' lb).1 = .ok
        · simp only [hv, if_true, Option.some.injEq] at e; subst e
          exact ⟨lb, w2, w1, hp, hv⟩
        · simp [hv] at e
  · intro v e
    unfold getValidators at e
    cases hlb : lightBlock lc pr h with
    | some lb => rw [hlb] at e; simp at e
    | none =>
      simp only [hlb] at e
      by_cases h2 : h < 2
      · simp [h2] at e
      · simp only [h2, if_false] at e
        cases hlb' : lightBlock lc pr (h - 1) with
        | none => simp [hlb'] at e
        | some lb =>
          simp only [hlb'] at e
          have ⟨w1, w2⟩ := lightBlock_height lc wf pr (h - 1) lb hlb'
          cases hp : pr.validators h with
          | none => simp [hp] at e
          | some v' =>
            simp only [hp] at e
            by_cases hv : verifyNextValidators L H v' lb = .ok
            · simp only [hv, if_true, Option.some.injEq, Sum.inr.injEq] at e; subst e
              exact ⟨lb, w2, w1, rfl, hv⟩
            · simp [hv] at e
  · intro lb e
    unfold getValidators at e
    cases hlb : lightBlock lc pr h with
    | some lb' =>
      simp only [hlb] at e
      simp only [Option.some.injEq, Sum.inl.injEq] at e; subst e
      have ⟨w1, w2⟩ := lightBlock_height lc wf pr h lb' hlb
      exact ⟨w2, w1⟩
    | none =>
      simp only [hlb] at e
      by_cases h2 : h < 2
      · simp [h2] at e
      · simp only [h2, if_false] at e
        cases hlb' : lightBlock lc pr (h - 1) with
        | none => simp [hlb'] at e
        | some lb2 =>
          simp only [hlb'] at e
          cases hp : pr.validators h with
          | none => simp [hp] at e
          | some v' =>
            simp only [hp] at e
            by_cases hv : verifyNextValidators L H v' lb2 = .ok <;> simp [hv] at e
  · intro p e
    unfold getParameters at e
    cases hlb : lightBlock lc pr h with
    | none => simp [hlb] at e
    | some lb =>
      simp only [hlb] at e
      have ⟨w1, w2⟩ := lightBlock_height lc wf pr h lb hlb
      cases hp : pr.params lb.height with
      | none => simp [hp] at e
      | some p' =>
        simp only [hp] at e
        by_cases hv : verifyParameters L H p' lb (state lb.height) = .ok
        · simp only [hv, if_true, Option.some.injEq] at e; subst e
          exact ⟨lb, w2, w1, hp, hv⟩
        · simp [hv] at e

/-- `SubmitTxWithProof`: a returned proof verified for the transaction against the verified data hash
of the light block **at the height the proof claims** (since the repair b4f8eb2 the provider-chosen
height must be the light block's; in particular `HeightLatest = 0` is rejected). -/
theorem submit_proof_bound (L : Lib Sig Ev P) (H : Bytes → Bytes) (lc : LightClient) (wf : LCWF lc)
    (pr : Provider P) (tx : Bytes) (ph : Int) (raw : Bytes)
    (e : submitTxWithProof L H lc pr tx = some (ph, raw)) :
    pr.submitProof tx = some (ph, raw) ∧
    ∃ lb, lc.trusted ph = some lb ∧ lb.height = ph ∧ verifyTransactionProof L H raw tx lb = .proof .ok := by
  unfold submitTxWithProof at e
  cases hp : pr.submitProof tx with
  | none => simp [hp] at e
  | some q =>
    obtain ⟨ph', raw'⟩ := q
    simp only [hp] at e
    cases hlb : lightBlock lc pr ph' with
    | none => simp [hlb] at e
    | some lb =>
      simp only [hlb] at e
      have ⟨_, w2⟩ := lightBlock_height lc wf pr ph' lb hlb
      by_cases hh : ph' = lb.height
      · subst hh
        by_cases hv : verifyTransactionProof L H raw' tx lb = .proof .ok
        · simp only [ne_eq, not_true_eq_false, if_false, hv, if_true, Option.some.injEq, Prod.mk.injEq] at e
          obtain ⟨rfl, rfl⟩ := e
          exact ⟨rfl, lb, w2, rfl, hv⟩
        · simp [hv] at e
      · simp [hh] at e

/-- The state root handed out by `StateRoot` is provider independent (see
`state_root_provider_independent`): for a fixed light client two providers that both get an answer
get the same one, or `H` has a collision. -/
theorem api_state_root_provider_independent {H : Bytes → Bytes} {n : Nat} (hl : FixedLen H n) (L : Lib Sig Ev P)
    (lc : LightClient) (pr₁ pr₂ : Provider P) (h : Int) (hh : h ≠ heightLatest) (r₁ r₂ : Bytes)
    (e₁ : stateRoot L H lc pr₁ h = some r₁) (e₂ : stateRoot L H lc pr₂ h = some r₂) : r₁ = r₂ ∨ Collision H := by
  simp only [stateRoot, resolveHeight, hh, ne_eq, not_false_eq_true, if_true] at e₁ e₂
  exact state_root_provider_independent hl L lc _ _ h r₁ r₂ e₁ e₂

/-! ## Non-vacuity: the hypotheses are satisfiable and the conclusions are not trivially true -/

section NonVacuity

/-- A fixed-length (4 bytes) toy hash. -/
def toyH : Bytes → Bytes := fun x => (x ++ [0, 0, 0, 0]).take 4

example : FixedLen toyH 4 := by intro x; simp [toyH]

/-- A library instance with injective encoders. -/
def toyLib : Lib Bytes Unit Bytes where
  headerHash := fun h => h.other
  headerEnc := fun h => h.appHash ++ h.other
  decBlockMeta := fun b => some { header := b, lastCommit := [1] }
  decCommit := fun b => some { height := 4, round := 0, blockID := [], sigs := [b] }
  sigEnc := id
  decResults := fun b => some { txs := [{ code := 0, data := b, gasWanted := 1, gasUsed := 1, log := [], info := [], codespace := [], events := () }], beginEvents := (), endEvents := () }
  detEnc := fun c d _ _ => UInt8.ofNat c :: d
  decValidators := fun b => some { validators := [{ address := [], pubKey := b, power := 1, priority := 0 }], proposer := { address := [], pubKey := b, power := 1, priority := 0 } }
  valEnc := fun k _ => k
  decParams := fun _ => some { blockMaxBytes := 1, blockMaxGas := 2, evidence := [], validator := [], version := [] }
  hashedParamsEnc := fun _ _ => [7]
  paramsEnc := id
  decMetaTx := fun b => some b
  decProof := fun _ => none

example : Function.Injective toyLib.sigEnc := fun _ _ h => h
example : Function.Injective toyLib.paramsEnc := fun _ _ h => h

/-- The header of a verified light block at height 5 whose data hash is that of `[[1], [2]]`. -/
def toyHeader : Header :=
  { height := 5, time := ⟨100, 7⟩, appHash := [9], dataHash := innerHash toyH (leafHash toyH (toyH [1])) (leafHash toyH (toyH [2])),
    lastCommitHash := leafHash toyH [1], lastBlockID := [], consensusHash := toyH [7], nextValidatorsHash := leafHash toyH [3],
    lastResultsHash := [], other := [4] }

def toyBlock : Block :=
  { height := 5, hash := [4], time := ⟨100, 0⟩,
    stateRoot := { ns := zeroNamespace, version := 4, type := 1, hash := [9] }, size := 77, metaB := [9, 4] }

theorem root_pair (H : Bytes → Bytes) (a b : Bytes) : root H [a, b] = innerHash H (leafHash H a) (leafHash H b) := by
  rw [root_ge2 H [a, b] (by simp)]
  have : splitPoint [a, b].length = 1 := by show splitPoint 2 = 1; decide
  rw [this]; simp [root_single]

/-- `verifyBlock` accepts a concrete block (the hypothesis of `block_bound`/`block_agree` holds)… -/
example : verifyBlock toyLib toyH toyBlock toyHeader = .ok := by
  simp [verifyBlock, toyLib, toyBlock, toyHeader, commitHash, root_single, Time.truncSec, prevVersion, rootTypeState]
/-- …and rejects it as soon as a bound field is altered. -/
example : verifyBlock toyLib toyH { toyBlock with hash := [5] } toyHeader = .hash := by
  simp [verifyBlock, toyLib, toyBlock, toyHeader]
example : verifyBlock toyLib toyH { toyBlock with height := 6 } toyHeader = .height := by
  simp [verifyBlock, toyHeader]
example : verifyBlock toyLib toyH { toyBlock with time := ⟨100, 7⟩ } toyHeader = .time := by
  simp [verifyBlock, toyLib, toyBlock, toyHeader, Time.truncSec]
example : verifyBlock toyLib toyH { toyBlock with metaB := [9, 5] } toyHeader = .metaHeader := by
  simp [verifyBlock, toyLib, toyBlock, toyHeader, Time.truncSec, prevVersion, rootTypeState]

example : verifyTransactions toyH [[1], [2]] toyHeader = true := by
  simp [verifyTransactions, txRoot, toyHeader, root_pair]
example : verifyTransactions toyH [[2], [1]] toyHeader = false := by
  simp [verifyTransactions, txRoot, toyHeader, root_pair, innerHash, leafHash, toyH]
/-- an honest proof verifies (instance of `tx_proof_complete`), the same proof for another
transaction of the block does not -/
example : verifyTx toyH (txProof toyH [[1], [2], [3]] 2) (some (txRoot toyH [[1], [2], [3]])) [3] = .ok :=
  tx_proof_complete toyH [[1], [2], [3]] 2 (by simp)
example : verifyTx toyH (txProof toyH [[1], [2], [3]] 2) (some (txRoot toyH [[1], [2], [3]])) [2] = .leafMismatch := by
  simp [verifyTx, verify, txProof, mkProof, leafHash, toyH]
example : verifyNextValidators toyLib toyH { height := 6, metaB := [3] } toyHeader = .ok := by
  simp [verifyNextValidators, toyLib, toyHeader, validatorsHash, root_single]
example : verifyNextValidators toyLib toyH { height := 6, metaB := [4] } toyHeader = .hash := by
  simp [verifyNextValidators, toyLib, toyHeader, validatorsHash, root_single, leafHash, toyH]
example : verifyParameters toyLib toyH { height := 5, parameters := [1], metaB := [] } toyHeader (some [1]) = .ok := by
  simp [verifyParameters, toyLib, toyHeader, paramsHash]
example : verifyParameters toyLib toyH { height := 5, parameters := [2], metaB := [] } toyHeader (some [1]) = .mismatch := by
  simp [verifyParameters, toyLib, toyHeader, paramsHash]

def toyNext : Header :=
  { toyHeader with height := 6, lastResultsHash := leafHash toyH [0, 8], appHash := List.replicate 32 3 }

def toyLC : LightClient :=
  { trusted := fun h => if h = 6 then some toyNext else if h = 5 then some toyHeader else none, last := some 6 }

/-- below the latest trusted height: honest results accepted, altered results rejected -/
example : (verifyBlockResults toyLib toyH toyLC { height := 5, metaB := [8] } toyHeader).1 = .ok := by
  simp [verifyBlockResults, verifyBlockResultsPure, toyLC, toyNext, toyLib, toyHeader, resultsHash, root_single]
example : (verifyBlockResults toyLib toyH toyLC { height := 5, metaB := [9] } toyHeader).1 = .hash := by
  simp [verifyBlockResults, verifyBlockResultsPure, toyLC, toyNext, toyLib, toyHeader, resultsHash, root_single, leafHash, toyH]
/-- at the latest trusted height altered results are accepted (the documented exception) -/
example : (verifyBlockResults toyLib toyH { toyLC with last := some 5 } { height := 5, metaB := [9] } toyHeader).1 = .ok := by
  simp [verifyBlockResults, toyLib, toyHeader]
/-- state root: from the next header; from the metadata transaction when there is no next header;
nothing when the provider's transactions do not match the data hash -/
example : fetchStateRoot toyLib toyH toyLC none 5 = some (List.replicate 32 3) := by
  simp [fetchStateRoot, stateRootFromNext, toyLC, toyNext]
def toyLC5 : LightClient := { trusted := fun h => if h = 5 then some toyHeader else none, last := some 5 }
example : fetchStateRoot toyLib toyH toyLC5 (some [[1], [2]]) 5 = some [2] := by
  simp [fetchStateRoot, stateRootFromNext, toyLC5, verifyTransactions, txRoot, toyHeader, root_pair, stateRootFromBlockTxs, toyLib]
example : fetchStateRoot toyLib toyH toyLC5 (some [[3], [2]]) 5 = none := by
  simp [fetchStateRoot, stateRootFromNext, toyLC5, verifyTransactions, txRoot, toyHeader, root_pair, innerHash, leafHash, toyH]

end NonVacuity

/-! ## Regenerated tie: the check tables extracted from the current Go source

`tools/gen statelessfacts` re-extracts, on every run, the guarded error returns of every
verification function and public entry point (source order; `guard => cond` for nested checks), the
response fields each function reads, the call order of the resolution helpers and the fields of the
response structs.  Each table must equal the hand-written expectation below (`rfl`): removing,
reordering or changing a comparison in core.go, or adding a field to a response type, breaks the
build.  The comments say which model
check or theorem accounts for each entry. -/

namespace Expected

/-- `Size` is the documented unbound field; every other field is compared in verifyBlock (see `blockFieldTable`) -/
def fields_Block : List String := ["Height", "Hash", "Time", "StateRoot", "Size", "Meta"]

def fields_BlockResults : List String := ["Height", "Meta"]

def fields_Validators : List String := ["Height", "Meta"]

def fields_Parameters : List String := ["Height", "Parameters", "Meta"]

def fields_BlockMeta : List String := ["Header", "LastCommit"]

def fields_BlockResultsMeta : List String := ["TxsResults", "BeginBlockEvents", "EndBlockEvents"]

def fields_Proof : List String := ["Height", "RawProof"]

def fields_BlockMetadata : List String := ["StateRoot", "EventsRoot"]

def fields_Root : List String := ["Namespace", "Version", "Type", "Hash"]

/-- source order = order of the `if` chain of `verifyBlock` in Verify.lean = constructor order of `BV`
(height, hash, time, ns, version, type, rootHash, metaMalformed, [header marshal: cannot fail], metaHeader,
commitMalformed ×2 (unmarshal, CommitFromProto = `Lib.decCommit`), commitHash, and — guarded by a non-empty
signature list — commitHeight, commitBlockID (repair 8acc1f7)).  `Commit.Round` occurs nowhere: `block_lastcommit_round_unbound` -/
def checks_verifyBlock : List (String × String) := [
  ("blk.Height != lb.Height", "mismatched block height"),
  ("blk.Hash != hash.LoadFromHexBytes(lb.Header.Hash())", "mismatched block hash"),
  ("blk.Time.UTC() != lb.Header.Time.UTC().Truncate(time.Second)", "mismatched block time"),
  ("blk.StateRoot.Namespace != namespace", "mismatched block state root namespace"),
  ("blk.StateRoot.Version != uint64(lb.Height)-1", "mismatched block state root version"),
  ("blk.StateRoot.Type != mkvsNode.RootTypeState", "mismatched block state root type"),
  ("!bytes.Equal(blk.StateRoot.Hash[:], lb.Header.AppHash)", "mismatched block state root hash"),
  ("err := cbor.Unmarshal(blk.Meta, &meta); err != nil", "malformed block meta: %w"),
  ("header, err := lb.Header.ToProto().Marshal(); err != nil", "malformed block meta header: %w"),
  ("!bytes.Equal(meta.Header, header)", "mismatched block meta header"),
  ("err := lastCommitProto.Unmarshal(meta.LastCommit); err != nil", "malformed block meta last commit: %w"),
  ("lastCommit, err := cmttypes.CommitFromProto(&lastCommitProto); err != nil", "malformed block meta last commit: %w"),
  ("!bytes.Equal(lastCommit.Hash(), lb.LastCommitHash)", "mismatched block meta last commit"),
  ("len(lastCommit.Signatures) > 0 => lastCommit.Height != lb.Height-1", "mismatched block meta last commit height"),
  ("len(lastCommit.Signatures) > 0 => !lastCommit.BlockID.Equals(lb.LastBlockID)", "mismatched block meta last commit block identifier")]

def uses_verifyBlock : List String := ["blk.Hash", "blk.Height", "blk.Meta", "blk.StateRoot.Hash", "blk.StateRoot.Namespace", "blk.StateRoot.Type", "blk.StateRoot.Version", "blk.Time"]

/-- `lastHeight <= lb.Height` is the skip branch (`results_latest_unverified`); inside it only the height is compared -/
def checks_coreVerifyBlockResults : List (String × String) := [
  ("lastHeight, err := c.lightClient.LastTrustedHeight(); err != nil", "failed to fetch last trusted height: %w"),
  ("lastHeight <= lb.Height", "<call api.NewBlockResultsMeta>"),
  ("lastHeight <= lb.Height => results.Height != lb.Height", "mismatched block height"),
  ("resultsHash, err := c.resultsHash(ctx, lb.Height); err != nil", "failed to fetch results hash: %w")]

def uses_coreVerifyBlockResults : List String := ["results", "results.Height"]

def calls_coreVerifyBlockResults : List String := [
  "c.lightClient.LastTrustedHeight()",
  "api.NewBlockResultsMeta(results)",
  "c.resultsHash(ctx, lb.Height)",
  "verifyBlockResults(results, resultsHash, lb)"]

/-- `verifyBlockResultsPure`: height, decode (`Lib.decResults`), hash -/
def checks_verifyBlockResults : List (String × String) := [
  ("results.Height != lb.Height", "mismatched block height"),
  ("meta, err := api.NewBlockResultsMeta(results); err != nil", "<err>"),
  ("!bytes.Equal(hash, resultsHash)", "mismatched last results hash")]

def uses_verifyBlockResults : List String := ["results", "results.Height"]

/-- `verifyParameters`: height, malformed (unmarshal + missing section (repair 19aed5a) + ValidateBasic = `Lib.decParams`), hash, query ×2, mismatch -/
def checks_verifyParameters : List (String × String) := [
  ("params.Height != lb.Height", "mismatched block height"),
  ("err := pb.Unmarshal(params.Meta); err != nil", "malformed parameters: %w"),
  ("pb.Block == nil || pb.Evidence == nil || pb.Validator == nil || pb.Version == nil", "malformed parameters: missing section"),
  ("err := cmtparams.ValidateBasic(); err != nil", "<err>"),
  ("!bytes.Equal(cmtparams.Hash(), lb.ConsensusHash)", "mismatched consensus parameters hash"),
  ("q, err := c.consensusQuerier.QueryAt(ctx, lb.Height); err != nil", "failed to query consensus: %w"),
  ("parameters, err := q.ConsensusParameters(ctx); err != nil", "failed to fetch consensus parameters: %w"),
  ("!bytes.Equal(cbor.Marshal(parameters), cbor.Marshal(params.Parameters))", "mismatched parameters: %w")]

def uses_verifyParameters : List String := ["params.Height", "params.Meta", "params.Parameters"]

def checks_verifyTransactions : List (String × String) := [
  ("!bytes.Equal(data.Hash(), lb.DataHash)", "failed to verify transactions: hash mismatch")]

def uses_verifyTransactions : List String := ["txs"]

def checks_verifyTransactionProof : List (String × String) := [
  ("err := merkle.VerifyTransaction(proof.RawProof, lb.DataHash, cbor.Marshal(tx)); err != nil", "failed to verify proof: %w")]

def uses_verifyTransactionProof : List String := ["proof.RawProof"]

def calls_verifyTransactionProof : List String := [
  "merkle.VerifyTransaction(proof.RawProof, lb.DataHash, cbor.Marshal(tx))",
  "cbor.Marshal(tx)"]

/-- `verifyNextValidators`: height (lb.Height+1), malformed (`Lib.decValidators`), hash -/
def checks_verifyNextValidators : List (String × String) := [
  ("validators.Height != lb.Height+1", "mismatched block height"),
  ("vs, err := light.DecodeValidators(validators); err != nil", "<err>"),
  ("!bytes.Equal(vs.Hash(), lb.NextValidatorsHash.Bytes())", "mismatched next validator set")]

def uses_verifyNextValidators : List String := ["validators", "validators.Height"]

def checks_fetchStateRoot : List (String × String) := [
  ]

/-- `fetchStateRoot`: next light block first, else the metadata transaction -/
def calls_fetchStateRoot : List String := [
  "c.fetchStateRootFromLightBlock(ctx, height+1)",
  "c.fetchStateRootFromMetaTx(ctx, height)"]

def checks_fetchStateRootFromLightBlock : List (String × String) := [
  ("lb, err := c.lightClient.VerifyLightBlockAt(ctx, height); err != nil", "failed to verify light block: %w"),
  ("err := h.UnmarshalBinary(lb.AppHash); err != nil", "malformed app hash")]

def calls_fetchStateRootFromLightBlock : List String := [
  "c.lightClient.VerifyLightBlockAt(ctx, height)",
  "h.UnmarshalBinary(lb.AppHash)"]

def checks_fetchStateRootFromMetaTx : List (String × String) := [
  ("txs, err := c.GetTransactions(ctx, height); err != nil", "<err>")]

def calls_fetchStateRootFromMetaTx : List String := [
  "c.GetTransactions(ctx, height)",
  "stateRootFromBlockTxs(txs)"]

def checks_stateRootFromBlockTxs : List (String × String) := [
  ("len(txs) == 0", "malformed block transactions")]

def uses_stateRootFromBlockTxs : List String := ["txs"]

def calls_stateRootFromBlockTxs : List String := [
  "len(txs)",
  "len(txs)",
  "stateRootFromMetaTx(metaTx)"]

/-- `Lib.decMetaTx`: the decoding chain; note: no signature check (binding is through the verified data hash) -/
def checks_stateRootFromMetaTx : List (String × String) := [
  ("err := cbor.Unmarshal(metaTx, &sigTx); err != nil", "malformed block metadata transaction: %w"),
  ("err := cbor.Unmarshal(sigTx.Blob, &tx); err != nil", "malformed block metadata transaction: %w"),
  ("tx.Method != consensusAPI.MethodMeta", "malformed block metadata transaction: invalid method"),
  ("err := cbor.Unmarshal(tx.Body, &meta); err != nil", "malformed block metadata transaction: %w")]

def checks_fetchResultsHash : List (String × String) := [
  ]

def calls_fetchResultsHash : List String := [
  "c.fetchResultsHashFromLightBlock(ctx, height+1)"]

def checks_fetchResultsHashFromLightBlock : List (String × String) := [
  ("lb, err := c.lightClient.VerifyLightBlockAt(ctx, height); err != nil", "failed to verify light block: %w")]

def calls_fetchResultsHashFromLightBlock : List String := [
  "c.lightClient.VerifyLightBlockAt(ctx, height)"]

def checks_GetBlock : List (String × String) := [
  ("lb, err := c.lightBlock(ctx, height); err != nil", "<err>"),
  ("blk, err := c.provider.GetBlock(ctx, lb.Height); err != nil", "<err>"),
  ("err = verifyBlock(blk, lb); err != nil", "<err>")]

/-- `getBlock`: light block of the requested height, provider answer for the light block's height, `verifyBlock` -/
def calls_GetBlock : List String := [
  "c.lightBlock(ctx, height)",
  "c.provider.GetBlock(ctx, lb.Height)",
  "verifyBlock(blk, lb)"]

def checks_GetTransactions : List (String × String) := [
  ("lb, err := c.lightBlock(ctx, height); err != nil", "<err>"),
  ("txs, err := c.provider.GetTransactions(ctx, lb.Height); err != nil", "<err>"),
  ("err := verifyTransactions(txs, lb); err != nil", "<err>")]

def calls_GetTransactions : List String := [
  "c.lightBlock(ctx, height)",
  "c.provider.GetTransactions(ctx, lb.Height)",
  "verifyTransactions(txs, lb)"]

def checks_GetBlockResults : List (String × String) := [
  ("lb, err := c.lightBlock(ctx, height); err != nil", "<err>"),
  ("results, err := c.provider.GetBlockResults(ctx, lb.Height); err != nil", "<err>"),
  ("_, err = c.verifyBlockResults(ctx, results, lb); err != nil", "<err>")]

def calls_GetBlockResults : List String := [
  "c.lightBlock(ctx, height)",
  "c.provider.GetBlockResults(ctx, lb.Height)",
  "c.verifyBlockResults(ctx, results, lb)"]

def checks_GetValidators : List (String × String) := [
  ("height < 2", "<expr>"),
  ("lb, err = c.lightBlock(ctx, height-1); err != nil", "<err>"),
  ("validators, err := c.provider.GetValidators(ctx, height); err != nil", "<err>"),
  ("err = c.verifyNextValidators(validators, lb); err != nil", "<err>")]

/-- `getValidators`: verified height → the light block's own validator set; else previous light block + provider + `verifyNextValidators` -/
def calls_GetValidators : List String := [
  "c.lightBlock(ctx, height)",
  "light.EncodeValidators(lb.ValidatorSet, lb.Height)",
  "c.lightBlock(ctx, height-1)",
  "c.provider.GetValidators(ctx, height)",
  "c.verifyNextValidators(validators, lb)"]

def checks_GetParameters : List (String × String) := [
  ("lb, err := c.lightBlock(ctx, height); err != nil", "<err>"),
  ("params, err := c.provider.GetParameters(ctx, lb.Height); err != nil", "<err>"),
  ("err = c.verifyParameters(ctx, params, lb); err != nil", "<err>")]

def calls_GetParameters : List String := [
  "c.lightBlock(ctx, height)",
  "c.provider.GetParameters(ctx, lb.Height)",
  "c.verifyParameters(ctx, params, lb)"]

/-- `submitTxWithProof`: provider proof, light block at proof.Height, height comparison (repair b4f8eb2), `verifyTransactionProof` -/
def checks_SubmitTxWithProof : List (String × String) := [
  ("proof, err := c.provider.SubmitTxWithProof(ctx, tx); err != nil", "<err>"),
  ("lb, err := c.lightBlock(ctx, proof.Height); err != nil", "<err>"),
  ("proof.Height != lb.Height", "mismatched proof height"),
  ("err = verifyTransactionProof(proof, tx, lb); err != nil", "<err>")]

def uses_SubmitTxWithProof : List String := ["proof", "proof.Height"]

def calls_SubmitTxWithProof : List String := [
  "c.provider.SubmitTxWithProof(ctx, tx)",
  "c.lightBlock(ctx, proof.Height)",
  "verifyTransactionProof(proof, tx, lb)"]

def checks_lightBlock : List (String × String) := [
  ("height, err := c.resolveHeight(ctx, height); err != nil", "failed to resolve height: %w"),
  ("lb, err := c.lightClient.VerifyLightBlockAt(ctx, height); err != nil", "failed to verify light block: %w")]

def calls_lightBlock : List String := [
  "c.resolveHeight(ctx, height)",
  "c.lightClient.VerifyLightBlockAt(ctx, height)"]

/-- `Lib.decResults`: CBOR decoding and (repair 2867612) rejection of nil transaction results -/
def checks_NewBlockResultsMeta : List (String × String) := [
  ("err := cbor.Unmarshal(results.Meta, &meta); err != nil", "malformed block results metadata: %w"),
  ("rs == nil", "malformed block results metadata: missing transaction result %d")]

def checks_merkleVerifyTransaction : List (String × String) := [
  ]

def calls_merkleVerifyTransaction : List String := [
  "hashTransaction(tx)",
  "Verify(proof, rootHash, hash)"]

def checks_merkleVerify : List (String × String) := [
  ("tmproof, err := decodeProof(proof); err != nil", "<err>")]

def calls_merkleVerify : List String := [
  "decodeProof(proof)",
  "tmproof.Verify(rootHash, item)"]

def checks_merkleHashTransaction : List (String × String) := [
  ]

def calls_merkleHashTransaction : List String := [
  "sha256.Sum256(tx)"]

end Expected

theorem gen_Block :
    Generated.StatelessFacts.fields_Block = Expected.fields_Block := rfl

theorem gen_BlockResults :
    Generated.StatelessFacts.fields_BlockResults = Expected.fields_BlockResults := rfl

theorem gen_Validators :
    Generated.StatelessFacts.fields_Validators = Expected.fields_Validators := rfl

theorem gen_Parameters :
    Generated.StatelessFacts.fields_Parameters = Expected.fields_Parameters := rfl

theorem gen_BlockMeta :
    Generated.StatelessFacts.fields_BlockMeta = Expected.fields_BlockMeta := rfl

theorem gen_BlockResultsMeta :
    Generated.StatelessFacts.fields_BlockResultsMeta = Expected.fields_BlockResultsMeta := rfl

theorem gen_Proof :
    Generated.StatelessFacts.fields_Proof = Expected.fields_Proof := rfl

theorem gen_BlockMetadata :
    Generated.StatelessFacts.fields_BlockMetadata = Expected.fields_BlockMetadata := rfl

theorem gen_Root :
    Generated.StatelessFacts.fields_Root = Expected.fields_Root := rfl

theorem gen_verifyBlock :
    Generated.StatelessFacts.checks_verifyBlock = Expected.checks_verifyBlock ∧
    Generated.StatelessFacts.uses_verifyBlock = Expected.uses_verifyBlock := ⟨rfl, rfl⟩

theorem gen_coreVerifyBlockResults :
    Generated.StatelessFacts.checks_coreVerifyBlockResults = Expected.checks_coreVerifyBlockResults ∧
    Generated.StatelessFacts.uses_coreVerifyBlockResults = Expected.uses_coreVerifyBlockResults ∧
    Generated.StatelessFacts.calls_coreVerifyBlockResults = Expected.calls_coreVerifyBlockResults := ⟨rfl, rfl, rfl⟩

theorem gen_verifyBlockResults :
    Generated.StatelessFacts.checks_verifyBlockResults = Expected.checks_verifyBlockResults ∧
    Generated.StatelessFacts.uses_verifyBlockResults = Expected.uses_verifyBlockResults := ⟨rfl, rfl⟩

theorem gen_verifyParameters :
    Generated.StatelessFacts.checks_verifyParameters = Expected.checks_verifyParameters ∧
    Generated.StatelessFacts.uses_verifyParameters = Expected.uses_verifyParameters := ⟨rfl, rfl⟩

theorem gen_verifyTransactions :
    Generated.StatelessFacts.checks_verifyTransactions = Expected.checks_verifyTransactions ∧
    Generated.StatelessFacts.uses_verifyTransactions = Expected.uses_verifyTransactions := ⟨rfl, rfl⟩

theorem gen_verifyTransactionProof :
    Generated.StatelessFacts.checks_verifyTransactionProof = Expected.checks_verifyTransactionProof ∧
    Generated.StatelessFacts.uses_verifyTransactionProof = Expected.uses_verifyTransactionProof ∧
    Generated.StatelessFacts.calls_verifyTransactionProof = Expected.calls_verifyTransactionProof := ⟨rfl, rfl, rfl⟩

theorem gen_verifyNextValidators :
    Generated.StatelessFacts.checks_verifyNextValidators = Expected.checks_verifyNextValidators ∧
    Generated.StatelessFacts.uses_verifyNextValidators = Expected.uses_verifyNextValidators := ⟨rfl, rfl⟩

theorem gen_fetchStateRoot :
    Generated.StatelessFacts.checks_fetchStateRoot = Expected.checks_fetchStateRoot ∧
    Generated.StatelessFacts.calls_fetchStateRoot = Expected.calls_fetchStateRoot := ⟨rfl, rfl⟩

theorem gen_fetchStateRootFromLightBlock :
    Generated.StatelessFacts.checks_fetchStateRootFromLightBlock = Expected.checks_fetchStateRootFromLightBlock ∧
    Generated.StatelessFacts.calls_fetchStateRootFromLightBlock = Expected.calls_fetchStateRootFromLightBlock := ⟨rfl, rfl⟩

theorem gen_fetchStateRootFromMetaTx :
    Generated.StatelessFacts.checks_fetchStateRootFromMetaTx = Expected.checks_fetchStateRootFromMetaTx ∧
    Generated.StatelessFacts.calls_fetchStateRootFromMetaTx = Expected.calls_fetchStateRootFromMetaTx := ⟨rfl, rfl⟩

theorem gen_stateRootFromBlockTxs :
    Generated.StatelessFacts.checks_stateRootFromBlockTxs = Expected.checks_stateRootFromBlockTxs ∧
    Generated.StatelessFacts.uses_stateRootFromBlockTxs = Expected.uses_stateRootFromBlockTxs ∧
    Generated.StatelessFacts.calls_stateRootFromBlockTxs = Expected.calls_stateRootFromBlockTxs := ⟨rfl, rfl, rfl⟩

theorem gen_stateRootFromMetaTx :
    Generated.StatelessFacts.checks_stateRootFromMetaTx = Expected.checks_stateRootFromMetaTx := rfl

theorem gen_fetchResultsHash :
    Generated.StatelessFacts.checks_fetchResultsHash = Expected.checks_fetchResultsHash ∧
    Generated.StatelessFacts.calls_fetchResultsHash = Expected.calls_fetchResultsHash := ⟨rfl, rfl⟩

theorem gen_fetchResultsHashFromLightBlock :
    Generated.StatelessFacts.checks_fetchResultsHashFromLightBlock = Expected.checks_fetchResultsHashFromLightBlock ∧
    Generated.StatelessFacts.calls_fetchResultsHashFromLightBlock = Expected.calls_fetchResultsHashFromLightBlock := ⟨rfl, rfl⟩

theorem gen_GetBlock :
    Generated.StatelessFacts.checks_GetBlock = Expected.checks_GetBlock ∧
    Generated.StatelessFacts.calls_GetBlock = Expected.calls_GetBlock := ⟨rfl, rfl⟩

theorem gen_GetTransactions :
    Generated.StatelessFacts.checks_GetTransactions = Expected.checks_GetTransactions ∧
    Generated.StatelessFacts.calls_GetTransactions = Expected.calls_GetTransactions := ⟨rfl, rfl⟩

theorem gen_GetBlockResults :
    Generated.StatelessFacts.checks_GetBlockResults = Expected.checks_GetBlockResults ∧
    Generated.StatelessFacts.calls_GetBlockResults = Expected.calls_GetBlockResults := ⟨rfl, rfl⟩

theorem gen_GetValidators :
    Generated.StatelessFacts.checks_GetValidators = Expected.checks_GetValidators ∧
    Generated.StatelessFacts.calls_GetValidators = Expected.calls_GetValidators := ⟨rfl, rfl⟩

theorem gen_GetParameters :
    Generated.StatelessFacts.checks_GetParameters = Expected.checks_GetParameters ∧
    Generated.StatelessFacts.calls_GetParameters = Expected.calls_GetParameters := ⟨rfl, rfl⟩

theorem gen_SubmitTxWithProof :
    Generated.StatelessFacts.checks_SubmitTxWithProof = Expected.checks_SubmitTxWithProof ∧
    Generated.StatelessFacts.uses_SubmitTxWithProof = Expected.uses_SubmitTxWithProof ∧
    Generated.StatelessFacts.calls_SubmitTxWithProof = Expected.calls_SubmitTxWithProof := ⟨rfl, rfl, rfl⟩

theorem gen_lightBlock :
    Generated.StatelessFacts.checks_lightBlock = Expected.checks_lightBlock ∧
    Generated.StatelessFacts.calls_lightBlock = Expected.calls_lightBlock := ⟨rfl, rfl⟩

theorem gen_NewBlockResultsMeta :
    Generated.StatelessFacts.checks_NewBlockResultsMeta = Expected.checks_NewBlockResultsMeta := rfl

theorem gen_merkleVerifyTransaction :
    Generated.StatelessFacts.checks_merkleVerifyTransaction = Expected.checks_merkleVerifyTransaction ∧
    Generated.StatelessFacts.calls_merkleVerifyTransaction = Expected.calls_merkleVerifyTransaction := ⟨rfl, rfl⟩

theorem gen_merkleVerify :
    Generated.StatelessFacts.checks_merkleVerify = Expected.checks_merkleVerify ∧
    Generated.StatelessFacts.calls_merkleVerify = Expected.calls_merkleVerify := ⟨rfl, rfl⟩

theorem gen_merkleHashTransaction :
    Generated.StatelessFacts.checks_merkleHashTransaction = Expected.checks_merkleHashTransaction ∧
    Generated.StatelessFacts.calls_merkleHashTransaction = Expected.calls_merkleHashTransaction := ⟨rfl, rfl⟩

/-- Which check binds which field of `consensusAPI.Block` (the struct-fields-versus-compared-fields
fact): the table's keys are exactly the struct's fields, and every field that is not marked
unbound is read by `verifyBlock`. -/
def blockFieldTable : List (String × String) := [
  ("Height", "blk.Height != lb.Height  — BV.height, block_bound"),
  ("Hash", "blk.Hash != LoadFromHexBytes(lb.Header.Hash())  — BV.hash"),
  ("Time", "blk.Time.UTC() != lb.Header.Time.UTC().Truncate(time.Second)  — BV.time"),
  ("StateRoot", "Namespace / Version / Type / Hash, four comparisons  — BV.ns, BV.version, BV.type, BV.rootHash"),
  ("Size", "UNBOUND — documented: core.go \"Block size cannot be verified.\"  — block_size_unbound"),
  ("Meta", "decoded; meta.Header compared with the header encoding, Commit.Hash() of meta.LastCommit with lb.LastCommitHash, the commit's Height with lb.Height-1 and BlockID with lb.LastBlockID (non-empty commit) — BV.metaHeader, BV.commitHash, BV.commitHeight, BV.commitBlockID; the commit's Round is UNBOUND (block_lastcommit_round_unbound)")]

theorem gen_block_field_table :
    blockFieldTable.map (·.1) = Generated.StatelessFacts.fields_Block ∧
    Generated.StatelessFacts.fields_Root = ["Namespace", "Version", "Type", "Hash"] ∧
    Generated.StatelessFacts.uses_verifyBlock =
      ["blk.Hash", "blk.Height", "blk.Meta", "blk.StateRoot.Hash", "blk.StateRoot.Namespace", "blk.StateRoot.Type",
       "blk.StateRoot.Version", "blk.Time"] := ⟨rfl, rfl, rfl⟩

end OasisProofs.C19
